(* M1: TableDef::normalize (vespertide-core/src/schema/table.rs:68-424), pass by pass. *)
From VV.M1 Require Export Schema.

Inductive table_error :=
| DuplicateIndexColumn (index_name column_name : string)
| InvalidForeignKeyFormat (column_name value : string).

(* ---- pass 1: inline primary keys (table.rs:71-104) ---- *)
Definition pk_cols_of (cols : list column_def) : list string :=
  flat_map (fun c => match c_primary_key c with
                     | Some (PKBool true) => [c_name c]
                     | Some (PKObj _) => [c_name c]
                     | _ => []
                     end) cols.
Definition pk_auto_of (cols : list column_def) : bool :=
  existsb (fun c => match c_primary_key c with Some (PKObj true) => true | _ => false end) cols.
Definition is_pk (c : table_constraint) : bool :=
  match c with CPrimaryKey _ _ => true | _ => false end.
Definition pass_pk (cols : list column_def) (cs : list table_constraint) : list table_constraint :=
  let pk := pk_cols_of cols in
  match pk with
  | [] => cs
  | _ => if existsb is_pk cs then cs else cs ++ [CPrimaryKey (pk_auto_of cols) pk]
  end.

(* ---- grouping with first-occurrence order (HashMap + order vector) ---- *)
Definition group := (string * list string)%type.
Fixpoint group_add (key col : string) (gs : list group) : list group :=
  match gs with
  | [] => [(key, [col])]
  | (k, cs) :: r => if String.eqb k key then (k, cs ++ [col]) :: r else (k, cs) :: group_add key col r
  end.
Fixpoint group_get (key : string) (gs : list group) : option (list string) :=
  match gs with
  | [] => None
  | (k, cs) :: r => if String.eqb k key then Some cs else group_get key r
  end.

Definition auto_key (col : string) : string := "__auto_" +++ col.
Definition group_name (key : string) : option string :=
  if starts_with "__auto_" key then None else Some key.

(* ---- pass 2: inline unique (table.rs:106-197) ---- *)
Definition unique_groups_step (gs : list group) (c : column_def) : list group :=
  match c_unique c with
  | Some (SStr n) => group_add n (c_name c) gs
  | Some (SBool true) => group_add (auto_key (c_name c)) (c_name c) gs
  | Some (SBool false) => gs
  | Some (SArr names) => fold_left (fun g n => group_add n (c_name c) g) names gs
  | None => gs
  end.
Definition unique_groups (cols : list column_def) : list group := fold_left unique_groups_step cols [].

Definition name_match (cn : option string) (n : option string) (cols cols' : list string) : bool :=
  match cn, n with
  | Some n1, Some n2 => String.eqb n1 n2
  | None, None => dec_b (list_eq_dec string_dec) cols' cols
  | _, _ => false
  end.
Definition unique_hit (g : group) (c : table_constraint) : bool :=
  match c with
  | CUnique n cols' => name_match (group_name (fst g)) n (snd g) cols'
  | _ => false
  end.
Definition unique_mk (g : group) : table_constraint := CUnique (group_name (fst g)) (snd g).
Definition push_if_absent {B} (hit : B -> table_constraint -> bool) (mk : B -> table_constraint)
  (acc : list table_constraint) (b : B) : list table_constraint :=
  if existsb (hit b) acc then acc else acc ++ [mk b].
Definition pass_unique (cols : list column_def) (cs : list table_constraint) : list table_constraint :=
  fold_left (push_if_absent unique_hit unique_mk) (unique_groups cols) cs.

(* ---- pass 3: inline foreign keys (table.rs:199-262) ---- *)
Definition parse_ref (s : string) : option (string * string) :=
  match split_on "."%char s with
  | [a; b] => if (String.eqb a "" || String.eqb b "")%bool then None else Some (a, b)
  | _ => None
  end.
Definition fk_of_syntax (colname : string) (f : fk_syntax)
  : result (string * list string * option ref_action * option ref_action) table_error :=
  match f with
  | FKStr s => match parse_ref s with
               | Some (t, c) => Ok (t, [c], None, None)
               | None => Err (InvalidForeignKeyFormat colname s)
               end
  | FKRef r od ou => match parse_ref r with
                     | Some (t, c) => Ok (t, [c], od, ou)
                     | None => Err (InvalidForeignKeyFormat colname r)
                     end
  | FKObj t cs od ou => Ok (t, cs, od, ou)
  end.
Definition fk_hit (colname : string) (c : table_constraint) : bool :=
  match c with
  | CForeignKey _ [x] _ _ _ _ => String.eqb x colname
  | _ => false
  end.
Fixpoint pass_fk (cols : list column_def) (cs : list table_constraint)
  : result (list table_constraint) table_error :=
  match cols with
  | [] => Ok cs
  | c :: r =>
      match c_foreign_key c with
      | None => pass_fk r cs
      | Some f =>
          match fk_of_syntax (c_name c) f with
          | Err e => Err e
          | Ok (t, rc, od, ou) =>
              if existsb (fk_hit (c_name c)) cs then pass_fk r cs
              else pass_fk r (cs ++ [CForeignKey None [c_name c] t rc od ou])
          end
      end
  end.

(* ---- pass 4: inline indexes (table.rs:264-421) ---- *)
Definition tracked (key col : string) (gs : list group) : bool :=
  match group_get key gs with Some cs => mem_str col cs | None => false end.

(* array elements: duplicate inside the array, then duplicate against earlier inline definitions *)
Fixpoint index_array (col : string) (names seen : list string) (gs : list group)
  : result (list group) table_error :=
  match names with
  | [] => Ok gs
  | n :: r =>
      if mem_str n seen then Err (DuplicateIndexColumn n col)
      else if tracked n col gs then Err (DuplicateIndexColumn n col)
      else index_array col r (n :: seen) (group_add n col gs)
  end.
Definition index_groups_step (gs : list group) (c : column_def) : result (list group) table_error :=
  match c_index c with
  | Some (SStr n) =>
      if tracked n (c_name c) gs then Err (DuplicateIndexColumn n (c_name c))
      else Ok (group_add n (c_name c) gs)
  | Some (SBool true) =>
      let k := auto_key (c_name c) in
      if tracked k (c_name c) gs then Err (DuplicateIndexColumn k (c_name c))
      else Ok (group_add k (c_name c) gs)
  | Some (SBool false) => Ok gs
  | Some (SArr names) => index_array (c_name c) names [] gs
  | None => Ok gs
  end.
Fixpoint index_groups (cols : list column_def) (gs : list group) : result (list group) table_error :=
  match cols with
  | [] => Ok gs
  | c :: r => match index_groups_step gs c with Err e => Err e | Ok gs' => index_groups r gs' end
  end.
Definition index_hit (g : group) (c : table_constraint) : bool :=
  match c with
  | CIndex n cols' => name_match (group_name (fst g)) n (snd g) cols'
  | _ => false
  end.
Definition index_mk (g : group) : table_constraint := CIndex (group_name (fst g)) (snd g).

Definition normalize_constraints (cols : list column_def) (cs : list table_constraint)
  : result (list table_constraint) table_error :=
  let cs1 := pass_pk cols cs in
  let cs2 := pass_unique cols cs1 in
  match pass_fk cols cs2 with
  | Err e => Err e
  | Ok cs3 =>
      match index_groups cols [] with
      | Err e => Err e
      | Ok gs => Ok (fold_left (push_if_absent index_hit index_mk) gs cs3)
      end
  end.

Definition normalize (t : table_def) : result table_def table_error :=
  match normalize_constraints (t_columns t) (t_constraints t) with
  | Err e => Err e
  | Ok cs => Ok (mkTable (t_name t) (t_description t) (t_columns t) cs)
  end.
