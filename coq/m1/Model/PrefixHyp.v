(* M1: hypothesis of the C14 theorems about MigrationPlan::with_prefix after the D10 repair: every inline
   foreign_key of the action's columns is well formed ("table.column" for the String / Reference forms).
   Loader-accepted models and tool-written plans always satisfy it (normalize rejects the others).
   No proofs here. *)
From VV.M1 Require Export Oracles.

Definition fk_parses (f : fk_syntax) : bool :=
  match f with
  | FKStr s => match parse_ref s with Some _ => true | None => false end
  | FKRef r _ _ => match parse_ref r with Some _ => true | None => false end
  | FKObj _ _ _ _ => true
  end.
Definition inline_fk_parses_col (c : column_def) : bool :=
  match c_foreign_key c with Some f => fk_parses f | None => true end.
Definition inline_fks_parse (a : action) : bool :=
  match a with
  | CreateTable _ cols _ => forallb inline_fk_parses_col cols
  | AddColumn _ c _ => inline_fk_parses_col c
  | _ => true
  end.
