(* M1: executable statements of the properties on the model (the same oracles the harness runs on the
   implementation), literal table renaming for C14, and the classifiers of the known findings. *)
From VV.M1 Require Export Revision.

(* ---------- C06: referential consistency of an intermediate schema ---------- *)
Fixpoint nodup_str (l : list string) : bool :=
  match l with [] => true | x :: r => (negb (mem_str x r) && nodup_str r)%bool end.

Definition table_consistent (s : schema) (t : table_def) : bool :=
  match normalize t with
  | Err _ => false
  | Ok n =>
      let cols := map c_name (t_columns n) in
      forallb (fun k =>
        (forallb (fun c => mem_str c cols) (constraint_columns k)
         && match k with
            | CForeignKey _ columns rt rcols _ _ =>
                match find (fun x => String.eqb (t_name x) rt) s with
                | None => false
                | Some r => (forallb (fun rc => mem_str rc (map c_name (t_columns r))) rcols
                             && Nat.eqb (List.length columns) (List.length rcols) && nonempty columns)%bool
                end
            | _ => true
            end)%bool) (t_constraints n)
  end.
Definition consistent (s : schema) : bool :=
  (nodup_str (map t_name s) && forallb (table_consistent s) s)%bool.

(* the action targets something that exists as it names it (RemoveConstraint of a constraint that is
   no longer present is silently ignored by apply_action but fails in a database) *)
Definition target_present (s : schema) (a : action) : bool :=
  match a with
  | RemoveConstraint table k =>
      match find (fun t => String.eqb (t_name t) table) s with
      | Some t => contains_constraint k (t_constraints t)
      | None => true   (* apply_action reports TableNotFound itself *)
      end
  | _ => true
  end.

Fixpoint stepwise_ok (s : schema) (acts : list action) : bool :=
  match acts with
  | [] => true
  | a :: r =>
      (target_present s a &&
       match apply_action s a with
       | Err _ => false
       | Ok s' => (consistent s' && stepwise_ok s' r)%bool
       end)%bool
  end.

(* ---------- C01: a revision closes the gap ---------- *)
Definition filled_actions (p : plan) (baseline : schema) : list action :=
  match revision_fill p baseline with Filled a => a | Refused => p_actions p end.

Definition diff_empty (a b : schema) : bool :=
  match diff_actions a b with Ok [] => true | _ => false end.

Definition closes_gap (baseline models : schema) : bool :=
  match diff_actions baseline models with
  | Err _ => false
  | Ok acts =>
      match apply_all baseline (filled_actions (mkPlan "" None None 0 acts) baseline) with
      | Err _ => false
      | Ok b' => (diff_empty b' models && diff_empty models b')%bool
      end
  end.

Definition plan_stepwise_ok (baseline models : schema) : bool :=
  match diff_actions baseline models with
  | Err _ => false
  | Ok acts => stepwise_ok baseline (filled_actions (mkPlan "" None None 0 acts) baseline)
  end.

(* ---------- C14: literally renamed project ---------- *)
Definition literal_ref (p s : string) : string :=
  (* "table.column" -> "ptable.column"; malformed references are left alone (they are rejected anyway) *)
  match parse_ref s with Some (t, c) => p +++ t +++ "." +++ c | None => s end.
Definition literal_fk (p : string) (f : fk_syntax) : fk_syntax :=
  match f with
  | FKStr s => FKStr (literal_ref p s)
  | FKRef r od ou => FKRef (literal_ref p r) od ou
  | FKObj t cs od ou => FKObj (p +++ t) cs od ou
  end.
Definition literal_col (p : string) (c : column_def) : column_def :=
  set_fk (option_map (literal_fk p) (c_foreign_key c)) c.
Definition literal_constraint (p : string) (k : table_constraint) : table_constraint :=
  match k with
  | CForeignKey n cols rt rcols od ou => CForeignKey n cols (p +++ rt) rcols od ou
  | other => other
  end.
Definition literal_table (p : string) (t : table_def) : table_def :=
  mkTable (p +++ t_name t) (t_description t) (map (literal_col p) (t_columns t))
          (map (literal_constraint p) (t_constraints t)).
Definition literal_schema (p : string) (s : schema) : schema := map (literal_table p) s.
Definition literal_action (p : string) (a : action) : action :=
  match a with
  | CreateTable t cols ks => CreateTable (p +++ t) (map (literal_col p) cols) (map (literal_constraint p) ks)
  | DeleteTable t => DeleteTable (p +++ t)
  | AddColumn t c f => AddColumn (p +++ t) (literal_col p c) f
  | RenameColumn t a b => RenameColumn (p +++ t) a b
  | DeleteColumn t c => DeleteColumn (p +++ t) c
  | ModifyColumnType t c ty f => ModifyColumnType (p +++ t) c ty f
  | ModifyColumnNullable t c n f => ModifyColumnNullable (p +++ t) c n f
  | ModifyColumnDefault t c d => ModifyColumnDefault (p +++ t) c d
  | ModifyColumnComment t c d => ModifyColumnComment (p +++ t) c d
  | AddConstraint t k => AddConstraint (p +++ t) (literal_constraint p k)
  | RemoveConstraint t k => RemoveConstraint (p +++ t) (literal_constraint p k)
  | RenameTable a b => RenameTable (p +++ a) (p +++ b)
  | RawSql s => RawSql s
  end.

Definition no_inline_fk_col (c : column_def) : bool := is_none (c_foreign_key c).
Definition no_inline_fk (a : action) : bool :=
  match a with
  | CreateTable _ cols _ => forallb no_inline_fk_col cols
  | AddColumn _ c _ => no_inline_fk_col c
  | _ => true
  end.

(* ---------- classifiers of known findings (DESIGN §7) ---------- *)
Definition table_named (n : string) (s : schema) : option table_def :=
  find (fun t => String.eqb (t_name t) n) s.
Definition normalized_or_self (t : table_def) : table_def :=
  match normalize t with Ok n => n | Err _ => t end.

(* D1: a column is deleted while a multi-column constraint over it and over a surviving column exists in
   the baseline: apply shrinks the constraint, the planner's RemoveConstraint names the original *)
Definition known_shrunk_constraint (baseline models : schema) : bool :=
  existsb (fun bt =>
    match table_named (t_name bt) models with
    | None => false
    | Some mt =>
        let deleted := filter (fun c => negb (mem_str c (map c_name (t_columns mt)))) (map c_name (t_columns bt)) in
        existsb (fun k =>
          let cc := constraint_columns k in
          let rc := match k with CForeignKey _ _ _ rcols _ _ => rcols | _ => [] end in
          ((existsb (fun c => mem_str c deleted) cc && existsb (fun c => negb (mem_str c deleted)) cc)
           || (existsb (fun c => mem_str c deleted) rc && negb (forallb (fun c => mem_str c deleted) cc)))%bool)
          (t_constraints (normalized_or_self bt))
    end) baseline.

(* D2: a table is dropped while a surviving table's FK to it is removed in the same plan (the planner
   emits DeleteTable before that RemoveConstraint), or a column that a surviving FK of another table
   references is dropped before the FK is *)
Definition known_drop_before_unreference (baseline models : schema) : bool :=
  existsb (fun bt =>
    match table_named (t_name bt) models with
    | None => false
    | Some mt =>
        existsb (fun k =>
          match k with
          | CForeignKey _ _ rt rcols _ _ =>
              (negb (String.eqb rt (t_name bt)) &&
               (negb (has_table rt models)
                || match table_named rt baseline, table_named rt models with
                   | Some rb, Some rm =>
                       existsb (fun rc => (mem_str rc (map c_name (t_columns rb)) && negb (mem_str rc (map c_name (t_columns rm))))%bool) rcols
                   | _, _ => false
                   end))%bool
          | _ => false
          end) (t_constraints (normalized_or_self bt))
    end) baseline.

(* C06, third class: a foreign key created by this plan (in a CreateTable, which is hoisted to the front,
   or in an AddConstraint of a table sorted before the target) references a column that the same plan
   only adds later to an already existing table *)
Definition known_reference_added_later (baseline models : schema) : bool :=
  existsb (fun mt =>
    existsb (fun k =>
      match k with
      | CForeignKey _ _ rt rcols _ _ =>
          match table_named rt baseline, table_named rt models with
          | Some rb, Some rm =>
              (negb (String.eqb rt (t_name mt)) &&
               existsb (fun rc => (negb (mem_str rc (map c_name (t_columns rb))) && mem_str rc (map c_name (t_columns rm)))%bool) rcols)%bool
          | _, _ => false
          end
      | _ => false
      end) (t_constraints (normalized_or_self mt))) models.

(* C01, second class: an inline declaration that normalisation does not promote because a *different*
   table-level constraint shadows it (same FK column, an existing PRIMARY KEY, a same-named group).  The
   planner emits the column with its inline field; replay promotes it while the shadowing constraint is
   not there yet, so the baseline ends up with both. *)
Definition inline_products (t : table_def) : list table_constraint :=
  let cols := t_columns t in
  (match pk_cols_of cols with [] => [] | pk => [CPrimaryKey (pk_auto_of cols) pk] end)
  ++ map unique_mk (unique_groups cols)
  ++ flat_map (fun c => match c_foreign_key c with
                        | Some f => match fk_of_syntax (c_name c) f with
                                    | Ok (rt, rc, od, ou) => [CForeignKey None [c_name c] rt rc od ou]
                                    | Err _ => []
                                    end
                        | None => []
                        end) cols
  ++ match index_groups cols [] with Ok gs => map index_mk gs | Err _ => [] end.
Definition inline_shadowed (t : table_def) : bool :=
  match normalize t with
  | Ok n => negb (forallb (fun k => contains_constraint k (t_constraints n)) (inline_products t))
  | Err _ => false
  end.
Definition known_shadowed_inline (baseline models : schema) : bool :=
  (existsb inline_shadowed models || existsb inline_shadowed baseline)%bool.
