(* M1: validate_schema, validate_migration_plan, find_missing_fill_with,
   find_missing_enum_fill_with (vespertide-planner/src/validate.rs), loader acceptance
   (vespertide-loader/src/models.rs:10-35), MigrationPlan::with_prefix (core/action.rs:92-209). *)
From VV.M1 Require Export Diff.

Inductive validate_error :=
| VDuplicateTableName (t : string)
| VMissingPrimaryKey (t : string)
| VInvalidAutoIncrement (t c : string)
| VDuplicateEnumVariantName (t c v : string)
| VDuplicateEnumValue (t c : string) (v : Z)
| VInvalidEnumDefault (t c value : string)
| VEmptyConstraintColumns (t kind : string)
| VConstraintColumnNotFound (t kind c : string)
| VForeignKeyTableNotFound (t rt : string)
| VForeignKeyColumnNotFound (t rt rc : string)
| VIndexColumnNotFound (t c : string)
| VMissingFillWith (t c : string)
| VUnexpected (s : string).   (* never produced by the model *)

Definition vres := result unit validate_error.
Definition vok : vres := Ok tt.
Fixpoint first_err {A} (f : A -> vres) (l : list A) : vres :=
  match l with
  | [] => vok
  | x :: r => match f x with Ok _ => first_err f r | Err e => Err e end
  end.
Definition vseq (a b : vres) : vres := match a with Ok _ => b | Err e => Err e end.

Fixpoint first_dup_str (seen : list string) (l : list string) : option string :=
  match l with
  | [] => None
  | x :: r => if mem_str x seen then Some x else first_dup_str (x :: seen) r
  end.
Fixpoint first_dup_Z (seen : list Z) (l : list Z) : option Z :=
  match l with
  | [] => None
  | x :: r => if existsb (Z.eqb x) seen then Some x else first_dup_Z (x :: seen) r
  end.

(* validate.rs:115-141 *)
Definition extract_enum_value (value : string) : option string :=
  let t := trim value in
  if String.eqb t "" then None
  else if (contains_char "("%char t || contains_char ")"%char t
           || eq_ignore_ascii_case t "null" || eq_ignore_ascii_case t "current_timestamp"
           || eq_ignore_ascii_case t "now")%bool then None
  else if (((starts_with "'" t && ends_with "'" t) || (starts_with """" t && ends_with """" t))
           && Nat.leb 2 (String.length t))%bool then Some (strip_ends t)
  else Some t.

Definition validate_enum_value (value : string) (values : enum_values) (t c : string) : vres :=
  match extract_enum_value value with
  | None => vok
  | Some v => if mem_str v (ev_variant_names values) then vok else Err (VInvalidEnumDefault t c v)
  end.

Definition validate_column (tn : string) (c : column_def) : vres :=
  match c_type c with
  | TEnum _ values =>
      vseq
        (match values with
         | EVString vs =>
             match first_dup_str [] vs with Some v => Err (VDuplicateEnumVariantName tn (c_name c) v) | None => vok end
         | EVInteger vs =>
             match first_dup_str [] (map nv_name vs) with
             | Some v => Err (VDuplicateEnumVariantName tn (c_name c) v)
             | None => match first_dup_Z [] (map nv_value vs) with
                       | Some v => Err (VDuplicateEnumValue tn (c_name c) v)
                       | None => vok
                       end
             end
         end)
        (match c_default c with
         | Some d => validate_enum_value (default_to_sql d) values tn (c_name c)
         | None => vok
         end)
  | _ => vok
  end.

Definition colnames (t : table_def) : list string := map c_name (t_columns t).

Definition validate_constraint (tn : string) (tcols : list string) (tmap : list (string * list string))
  (k : table_constraint) : vres :=
  let cols_exist kind cols :=
    first_err (fun c => if mem_str c tcols then vok else Err (VConstraintColumnNotFound tn kind c)) cols in
  match k with
  | CPrimaryKey _ cols =>
      match cols with [] => Err (VEmptyConstraintColumns tn "PrimaryKey") | _ => cols_exist "PrimaryKey" cols end
  | CUnique _ cols =>
      match cols with [] => Err (VEmptyConstraintColumns tn "Unique") | _ => cols_exist "Unique" cols end
  | CForeignKey _ cols rt rcols _ _ =>
      match cols, rcols with
      | [], _ => Err (VEmptyConstraintColumns tn "ForeignKey")
      | _, [] => Err (VEmptyConstraintColumns rt "ForeignKey (ref_columns)")
      | _, _ =>
          match find (fun kv => String.eqb (fst kv) rt) tmap with
          | None => Err (VForeignKeyTableNotFound tn rt)
          | Some (_, rtcols) =>
              vseq (cols_exist "ForeignKey" cols)
                (vseq (first_err (fun rc => if mem_str rc rtcols then vok
                                            else Err (VForeignKeyColumnNotFound tn rt rc)) rcols)
                   (if Nat.eqb (List.length cols) (List.length rcols) then vok
                    else Err (VForeignKeyColumnNotFound tn rt "")))
          end
      end
  | CCheck _ _ => vok
  | CIndex _ cols =>
      match cols with
      | [] => Err (VEmptyConstraintColumns tn "Index")
      | _ => first_err (fun c => if mem_str c tcols then vok else Err (VIndexColumnNotFound tn c)) cols
      end
  end.

Definition validate_table (tmap : list (string * list string)) (t : table_def) : vres :=
  let tn := t_name t in
  let has_table_pk := existsb is_pk (t_constraints t) in
  let has_inline_pk := existsb (fun c => match c_primary_key c with Some _ => true | None => false end) (t_columns t) in
  if negb (has_table_pk || has_inline_pk) then Err (VMissingPrimaryKey tn)
  else
    vseq
      (first_err (fun k => match k with
         | CPrimaryKey true cols =>
             first_err (fun cn => match find (fun c => String.eqb (c_name c) cn) (t_columns t) with
                                  | Some c => if supports_auto_increment (c_type c) then vok
                                              else Err (VInvalidAutoIncrement tn cn)
                                  | None => vok
                                  end) cols
         | _ => vok
         end) (t_constraints t))
    (vseq
      (first_err (fun c => match c_primary_key c with
                           | Some (PKObj true) => if supports_auto_increment (c_type c) then vok
                                                   else Err (VInvalidAutoIncrement tn (c_name c))
                           | _ => vok
                           end) (t_columns t))
    (vseq
      (first_err (validate_column tn) (t_columns t))
      (first_err (validate_constraint tn (colnames t) tmap) (t_constraints t)))).

(* the HashMap name -> columns: a later table of the same name would win, but duplicates are
   rejected before the map is used, so lookup order is immaterial *)
Definition validate_schema (s : schema) : vres :=
  match first_dup_str [] (map t_name s) with
  | Some n => Err (VDuplicateTableName n)
  | None =>
      let tmap := map (fun t => (t_name t, colnames t)) s in
      first_err (validate_table tmap) s
  end.

(* loader acceptance of a model set (models.rs:10-35) *)
Inductive load_error := LoadNormalize (e : table_error) | LoadValidate (e : validate_error).
Definition loader_check (models : schema) : result unit load_error :=
  match models with
  | [] => Ok tt
  | _ =>
      match map_result (fun t => match normalize t with Ok n => Ok n | Err e => Err (LoadNormalize e) end) models with
      | Err e => Err e
      | Ok ns => match validate_schema ns with Ok _ => Ok tt | Err e => Err (LoadValidate e) end
      end
  end.
Definition loader_accepts (models : schema) : bool :=
  match loader_check models with Ok _ => true | Err _ => false end.

(* validate_migration_plan (validate.rs:378-446) *)
Definition validate_action (a : action) : vres :=
  match a with
  | AddColumn table column fill_with =>
      if (negb (c_nullable column)
          && match c_default column with None => true | _ => false end
          && match fill_with with None => true | _ => false end)%bool
      then Err (VMissingFillWith table (c_name column))
      else
        match c_type column with
        | TEnum _ values =>
            vseq (match fill_with with
                  | Some f => validate_enum_value f values table (c_name column)
                  | None => vok
                  end)
                 (match c_default column with
                  | Some d => validate_enum_value (default_to_sql d) values table (c_name column)
                  | None => vok
                  end)
        | _ => vok
        end
  | ModifyColumnNullable table column nullable fill_with =>
      if (negb nullable && match fill_with with None => true | _ => false end)%bool
      then Err (VMissingFillWith table column) else vok
  | ModifyColumnType table column new_type fill_with =>
      match fill_with, new_type with
      | Some fw, TEnum _ values =>
          first_err (fun kv => validate_enum_value (snd kv) values table column) fw
      | _, _ => vok
      end
  | _ => vok
  end.
Definition validate_migration_plan (p : plan) : vres := first_err validate_action (p_actions p).

(* find_missing_fill_with: indices and kinds only (the display fields are prompts, not decisions) *)
Definition lookup_col (s : schema) (table column : string) : option column_def :=
  match find (fun t => String.eqb (t_name t) table) s with
  | Some t => find_column column t
  | None => None
  end.
Fixpoint find_missing_fill_with_aux (i : nat) (acts : list action) (s : schema) : list (nat * string * string) :=
  match acts with
  | [] => []
  | a :: r =>
      let rest := find_missing_fill_with_aux (S i) r s in
      match a with
      | AddColumn table column fill_with =>
          if (negb (c_nullable column)
              && match c_default column with None => true | _ => false end
              && match fill_with with None => true | _ => false end)%bool
          then (i, table, c_name column) :: rest else rest
      | ModifyColumnNullable table column nullable fill_with =>
          if (negb nullable && match fill_with with None => true | _ => false end)%bool then
            match lookup_col s table column with
            | Some c => match c_default c with Some _ => rest | None => (i, table, column) :: rest end
            | None => (i, table, column) :: rest
            end
          else rest
      | _ => rest
      end
  end.
Definition find_missing_fill_with (p : plan) (s : schema) := find_missing_fill_with_aux 0 (p_actions p) s.

Fixpoint find_missing_enum_fill_with_aux (i : nat) (acts : list action) (s : schema)
  : list (nat * list string) :=
  match acts with
  | [] => []
  | a :: r =>
      let rest := find_missing_enum_fill_with_aux (S i) r s in
      match a with
      | ModifyColumnType table column new_type fill_with =>
          match option_map c_type (lookup_col s table column), new_type with
          | Some (TEnum _ (EVString old_values)), TEnum _ (EVString new_values) =>
              let removed := filter (fun v => negb (mem_str v new_values)) old_values in
              match removed with
              | [] => rest
              | _ =>
                  let uncovered := match fill_with with
                                   | Some fw => filter (fun v => negb (existsb (fun kv => String.eqb (fst kv) v) fw)) removed
                                   | None => removed
                                   end in
                  match uncovered with [] => rest | _ => (i, uncovered) :: rest end
              end
          | _, _ => rest
          end
      | _ => rest
      end
  end.
Definition find_missing_enum_fill_with (p : plan) (s : schema) :=
  find_missing_enum_fill_with_aux 0 (p_actions p) s.

(* ---------- with_prefix ---------- *)
Definition constraint_with_prefix (p : string) (k : table_constraint) : table_constraint :=
  if String.eqb p "" then k else
  match k with
  | CForeignKey n cols rt rcols od ou => CForeignKey n cols (p +++ rt) rcols od ou
  | other => other
  end.
(* prefix_inline_foreign_key (action.rs, added by the fix for D10): the table part of an inline
   foreign_key is prefixed by plain string concatenation, whatever the string looks like *)
Definition prefix_inline_fk (p : string) (c : column_def) : column_def :=
  set_fk (option_map (fun f => match f with
                               | FKStr s => FKStr (p +++ s)
                               | FKRef r od ou => FKRef (p +++ r) od ou
                               | FKObj t cs od ou => FKObj (p +++ t) cs od ou
                               end) (c_foreign_key c)) c.
Definition action_with_prefix (p : string) (a : action) : action :=
  if String.eqb p "" then a else
  match a with
  | CreateTable t cols ks => CreateTable (p +++ t) (map (prefix_inline_fk p) cols) (map (constraint_with_prefix p) ks)
  | DeleteTable t => DeleteTable (p +++ t)
  | AddColumn t c f => AddColumn (p +++ t) (prefix_inline_fk p c) f
  | RenameColumn t a b => RenameColumn (p +++ t) a b
  | DeleteColumn t c => DeleteColumn (p +++ t) c
  | ModifyColumnType t c ty f => ModifyColumnType (p +++ t) c ty f
  | ModifyColumnNullable t c n f => ModifyColumnNullable (p +++ t) c n f
  | ModifyColumnDefault t c d => ModifyColumnDefault (p +++ t) c d
  | ModifyColumnComment t c d => ModifyColumnComment (p +++ t) c d
  | AddConstraint t k => AddConstraint (p +++ t) (constraint_with_prefix p k)
  | RemoveConstraint t k => RemoveConstraint (p +++ t) (constraint_with_prefix p k)
  | RenameTable a b => RenameTable (p +++ a) (p +++ b)
  | RawSql s => RawSql s
  end.
Definition plan_with_prefix (p : string) (pl : plan) : plan :=
  if String.eqb p "" then pl else
  mkPlan (p_id pl) (p_comment pl) (p_created_at pl) (p_version pl) (map (action_with_prefix p) (p_actions pl)).

(* migrations are replayed in ascending version order (loader/migrations.rs:47, sort_by_key stable) *)
Definition sort_plans (ps : list plan) : list plan := sort_le (fun a b => N.leb (p_version a) (p_version b)) ps.
