(* M1: what `vespertide revision` does to a freshly planned migration before writing it
   (vespertide-cli/src/commands/revision.rs:155-412), with every prompt answered by its default:
   text prompts return the pre-filled default (through wrap_if_spaces), enum selections pick item 0. *)
From VV.M1 Require Export Validate.

Definition simple_default_fill (s : simple_type) : string :=
  match s with
  | SmallInt | Integer | BigInt => "0"
  | Real | DoublePrecision => "0.0"
  | Boolean => "false"
  | Text => "''"
  | Date => "'1970-01-01'"
  | Time => "'00:00:00'"
  | Timestamp | Timestamptz => "CURRENT_TIMESTAMP"
  | Interval => "'0'"
  | Uuid => "'00000000-0000-0000-0000-000000000000'"
  | Json => "'{}'"
  | Bytea => "''"
  | Inet | Cidr => "'0.0.0.0'"
  | Macaddr => "'00:00:00:00:00:00'"
  | Xml => "'<xml/>'"
  end.
Definition default_fill_value (t : column_type) : string :=
  match t with
  | TSimple s => simple_default_fill s
  | TNumeric _ _ => "0"
  | _ => "''"
  end.
Definition enum_variant_names (t : column_type) : option (list string) :=
  match t with TEnum _ v => Some (ev_variant_names v) | _ => None end.

Definition wrap_if_spaces (v : string) : string :=
  if String.eqb v "" then v
  else if (starts_with "'" v && ends_with "'" v)%bool then v
  else if contains_char " "%char v then "'" +++ v +++ "'"
  else v.

Definition answer (default_value : string) (enum_values : option (list string)) : string :=
  match enum_values with
  | Some (e :: _) => "'" +++ e +++ "'"
  | Some [] => "''"
  | None => wrap_if_spaces default_value
  end.

Definition is_none {A} (o : option A) : bool := match o with None => true | Some _ => false end.

(* (table, column) -> value, later insert wins (HashMap::insert) *)
Definition fv_get (t c : string) (m : list (string * string * string)) : option string :=
  match find (fun e => (String.eqb (fst (fst e)) t && String.eqb (snd (fst e)) c)%bool) (rev m) with
  | Some e => Some (snd e)
  | None => None
  end.

Fixpoint collect_fills (acts : list action) (s : schema) : list (string * string * string) :=
  match acts with
  | [] => []
  | a :: r =>
      match a with
      | AddColumn table column fill_with =>
          if (negb (c_nullable column) && is_none (c_default column) && is_none fill_with)%bool
          then (table, c_name column, answer (default_fill_value (c_type column)) (enum_variant_names (c_type column)))
               :: collect_fills r s
          else collect_fills r s
      | ModifyColumnNullable table column nullable fill_with =>
          if (negb nullable && is_none fill_with)%bool then
            match lookup_col s table column with
            | Some c =>
                if is_none (c_default c)
                then (table, column, answer (default_fill_value (c_type c)) (enum_variant_names (c_type c)))
                     :: collect_fills r s
                else collect_fills r s
            | None => (table, column, answer "''" None) :: collect_fills r s
            end
          else collect_fills r s
      | _ => collect_fills r s
      end
  end.

Definition apply_fill (m : list (string * string * string)) (a : action) : action :=
  match a with
  | AddColumn table column None =>
      match fv_get table (c_name column) m with Some v => AddColumn table column (Some v) | None => a end
  | ModifyColumnNullable table column n None =>
      match fv_get table column m with Some v => ModifyColumnNullable table column n (Some v) | None => a end
  | _ => a
  end.

Fixpoint trim_start_quotes (s : string) : string :=
  match s with
  | String a r => if Ascii.eqb a "'"%char then trim_start_quotes r else s
  | EmptyString => s
  end.
Definition strip_enum_quotes (s : string) : string :=
  rev_string (trim_start_quotes (rev_string (trim_start_quotes s))).

Fixpoint apply_enum_fills (i : nat) (acts : list action) (missing : list (nat * list string)) : list action :=
  match acts with
  | [] => []
  | a :: r =>
      let a' :=
        match a with
        | ModifyColumnType table column new_type fill_with =>
            match find (fun e => Nat.eqb (fst e) i) missing, new_type with
            | Some (_, uncovered), TEnum _ (EVString (first :: _)) =>
                let v := strip_enum_quotes ("'" +++ first +++ "'") in
                let base := match fill_with with Some fw => fw | None => [] end in
                ModifyColumnType table column new_type
                  (Some (fold_left (fun m k => bt_insert k v m) uncovered (bt_of_list base)))
            | _, _ => a
            end
        | _ => a
        end in
      a' :: apply_enum_fills (S i) r missing
  end.

(* check_non_nullable_fk_add_columns *)
Definition refuses (acts : list action) : bool :=
  let fk_cols := flat_map (fun a => match a with
                                    | AddConstraint t (CForeignKey _ cols _ _ _ _) => map (fun c => (t, c)) cols
                                    | _ => []
                                    end) acts in
  existsb (fun a => match a with
                    | AddColumn table column _ =>
                        let has_fk := (negb (is_none (c_foreign_key column))
                                       || existsb (fun tc => (String.eqb (fst tc) table && String.eqb (snd tc) (c_name column))%bool) fk_cols)%bool in
                        (has_fk && negb (c_nullable column) && is_none (c_default column))%bool
                    | _ => false
                    end) acts.

(* apply_default_as_fill_with (revision.rs, added by the fix for D6): a column that becomes NOT NULL
   and has a default in the baseline gets that default (as SQL text) as its fill value *)
(* a bare enum label becomes a SQL string literal (follow-up fix: quote when the column is an enum, the
   text is not blank, does not start with a quote and contains no parenthesis) *)
Definition fill_of_default (t : column_type) (value : string) : string :=
  let v := trim value in
  if (match enum_variant_names t with Some _ => true | None => false end
      && negb (String.eqb v "") && negb (starts_with "'" v) && negb (contains_char "("%char value))%bool
  then "'" +++ v +++ "'" else value.
Definition default_as_fill (baseline : schema) (a : action) : action :=
  match a with
  | ModifyColumnNullable table column false None =>
      match lookup_col baseline table column with
      | Some c => match c_default c with
                  | Some d => ModifyColumnNullable table column false (Some (fill_of_default (c_type c) (default_to_sql d)))
                  | None => a
                  end
      | None => a
      end
  | _ => a
  end.

Inductive fill_outcome := Filled (acts : list action) | Refused.

Definition revision_fill (p : plan) (baseline : schema) : fill_outcome :=
  if refuses (p_actions p) then Refused
  else
    let missing := collect_fills (p_actions p) baseline in
    let a1 := match missing with [] => p_actions p | _ => map (apply_fill missing) (p_actions p) end in
    let me := find_missing_enum_fill_with (mkPlan "" None None 0 a1) baseline in
    Filled (map (default_as_fill baseline) (apply_enum_fills 0 a1 me)).
