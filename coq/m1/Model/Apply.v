(* M1: naming builders (vespertide-naming/src/lib.rs:208-251) and apply_action
   (vespertide-planner/src/apply.rs:6-380), schema_from_plans (schema.rs:7-15). *)
From VV.M1 Require Export Normalize.

Definition name_with (pfx table : string) (cols : list string) (key : option string) : string :=
  match key with
  | Some k => pfx +++ "_" +++ table +++ "__" +++ k
  | None => pfx +++ "_" +++ table +++ "__" +++ join "_" cols
  end.
Definition build_index_name := name_with "ix".
Definition build_unique_constraint_name := name_with "uq".
Definition build_foreign_key_name := name_with "fk".
Definition build_check_constraint_name (table column : string) : string :=
  "chk_" +++ table +++ "__" +++ column.
Definition build_enum_type_name (table enum_name : string) : string := table +++ "_" +++ enum_name.

Inductive planner_error :=
| TableExists (t : string)
| TableNotFound (t : string)
| ColumnExists (t c : string)
| ColumnNotFound (t c : string)
| TableValidation.   (* message not modelled *)

Definition has_table (n : string) (s : schema) : bool :=
  existsb (fun t => String.eqb (t_name t) n) s.
Definition has_column (n : string) (t : table_def) : bool :=
  existsb (fun c => String.eqb (c_name c) n) (t_columns t).

(* modify the first table named n (iter_mut().find) *)
Fixpoint update_table (n : string) (f : table_def -> result table_def planner_error) (s : schema)
  : result schema planner_error :=
  match s with
  | [] => Err (TableNotFound n)
  | t :: r =>
      if String.eqb (t_name t) n then
        match f t with Ok t' => Ok (t' :: r) | Err e => Err e end
      else match update_table n f r with Ok r' => Ok (t :: r') | Err e => Err e end
  end.

(* modify the first column named n *)
Fixpoint update_first_col (n : string) (f : column_def -> column_def) (cols : list column_def)
  : option (list column_def) :=
  match cols with
  | [] => None
  | c :: r =>
      if String.eqb (c_name c) n then Some (f c :: r)
      else option_map (cons c) (update_first_col n f r)
  end.
Definition update_column (tn cn : string) (f : column_def -> column_def) (t : table_def)
  : result table_def planner_error :=
  match update_first_col cn f (t_columns t) with
  | Some cols => Ok (mkTable (t_name t) (t_description t) cols (t_constraints t))
  | None => Err (ColumnNotFound tn cn)
  end.

Definition set_name (n : string) (c : column_def) :=
  mkCol n (c_type c) (c_nullable c) (c_default c) (c_comment c) (c_primary_key c) (c_unique c)
        (c_index c) (c_foreign_key c).
Definition set_type (ty : column_type) (c : column_def) :=
  mkCol (c_name c) ty (c_nullable c) (c_default c) (c_comment c) (c_primary_key c) (c_unique c)
        (c_index c) (c_foreign_key c).
Definition set_nullable (b : bool) (c : column_def) :=
  mkCol (c_name c) (c_type c) b (c_default c) (c_comment c) (c_primary_key c) (c_unique c)
        (c_index c) (c_foreign_key c).
Definition set_default (d : option default_value) (c : column_def) :=
  mkCol (c_name c) (c_type c) (c_nullable c) d (c_comment c) (c_primary_key c) (c_unique c)
        (c_index c) (c_foreign_key c).
Definition set_comment (d : option string) (c : column_def) :=
  mkCol (c_name c) (c_type c) (c_nullable c) (c_default c) d (c_primary_key c) (c_unique c)
        (c_index c) (c_foreign_key c).
Definition set_pk (d : option pk_syntax) (c : column_def) :=
  mkCol (c_name c) (c_type c) (c_nullable c) (c_default c) (c_comment c) d (c_unique c)
        (c_index c) (c_foreign_key c).
Definition set_unique (d : option str_or_bool_or_array) (c : column_def) :=
  mkCol (c_name c) (c_type c) (c_nullable c) (c_default c) (c_comment c) (c_primary_key c) d
        (c_index c) (c_foreign_key c).
Definition set_index (d : option str_or_bool_or_array) (c : column_def) :=
  mkCol (c_name c) (c_type c) (c_nullable c) (c_default c) (c_comment c) (c_primary_key c)
        (c_unique c) d (c_foreign_key c).
Definition set_fk (d : option fk_syntax) (c : column_def) :=
  mkCol (c_name c) (c_type c) (c_nullable c) (c_default c) (c_comment c) (c_primary_key c)
        (c_unique c) (c_index c) d.

Definition rename_in (from to : string) (l : list string) : list string :=
  map (fun c => if String.eqb c from then to else c) l.
(* apply.rs:310-353 *)
Definition rename_column_in_constraint (from to : string) (c : table_constraint) : table_constraint :=
  match c with
  | CPrimaryKey a cols => CPrimaryKey a (rename_in from to cols)
  | CUnique n cols => CUnique n (rename_in from to cols)
  | CForeignKey n cols rt rcols od ou => CForeignKey n (rename_in from to cols) rt (rename_in from to rcols) od ou
  | CCheck n e => CCheck n e
  | CIndex n cols => CIndex n (rename_in from to cols)
  end.

Definition drop_in (col : string) (l : list string) : list string :=
  filter (fun c => negb (String.eqb c col)) l.
Definition nonempty {A} (l : list A) : bool := match l with [] => false | _ => true end.
(* apply.rs:355-380 (retain_mut: shrink, keep if non-empty) *)
Definition drop_column_from_constraint (col : string) (c : table_constraint) : option table_constraint :=
  match c with
  | CPrimaryKey a cols => let cs := drop_in col cols in if nonempty cs then Some (CPrimaryKey a cs) else None
  | CUnique n cols => let cs := drop_in col cols in if nonempty cs then Some (CUnique n cs) else None
  | CForeignKey n cols rt rcols od ou =>
      let cs := drop_in col cols in
      let rs := drop_in col rcols in
      if (nonempty cs && nonempty rs)%bool then Some (CForeignKey n cs rt rs od ou) else None
  | CCheck n e => Some (CCheck n e)
  | CIndex n cols => let cs := drop_in col cols in if nonempty cs then Some (CIndex n cs) else None
  end.
Definition drop_column_from_constraints (col : string) (cs : list table_constraint) : list table_constraint :=
  flat_map (fun c => match drop_column_from_constraint col c with Some c' => [c'] | None => [] end) cs.

(* modify first column satisfying p, if any (find + assignment) *)
Fixpoint modify_first (p : column_def -> bool) (f : column_def -> column_def) (cols : list column_def)
  : list column_def :=
  match cols with
  | [] => []
  | c :: r => if p c then f c :: r else c :: modify_first p f r
  end.
Definition named (n : string) (c : column_def) : bool := String.eqb (c_name c) n.

(* inline-field clearing on RemoveConstraint (apply.rs:206-304) *)
Definition clear_unique_named (cn : string) (c : column_def) : column_def :=
  match c_unique c with
  | Some (SArr names) =>
      let names' := filter (fun n => negb (String.eqb n cn)) names in
      match names' with
      | [] => set_unique None c
      | _ => set_unique (Some (SArr names')) c
      end
  | Some (SStr n) => if String.eqb n cn then set_unique None c else c
  | _ => c
  end.
Definition clear_index_named (cn : string) (c : column_def) : column_def :=
  match c_index c with
  | Some (SStr n) => if String.eqb n cn then set_index None c else c
  | Some (SArr names) =>
      let filtered := filter (fun n => negb (String.eqb n cn)) names in
      match filtered with
      | [] => set_index None c
      | _ => if Nat.ltb (List.length filtered) (List.length names) then set_index (Some (SArr filtered)) c else c
      end
  | _ => c
  end.
(* first column whose auto index name equals the removed name gets index := None, then break *)
Fixpoint clear_index_auto (table : string) (name : option string) (cols : list column_def)
  : list column_def :=
  match cols with
  | [] => []
  | c :: r =>
      if dec_b (option_eq_dec string_dec) name (Some (build_index_name table [c_name c] None))
      then set_index None c :: r
      else c :: clear_index_auto table name r
  end.

Definition clear_inline (table : string) (k : table_constraint) (cols : list column_def) : list column_def :=
  match k with
  | CUnique name columns =>
      let cols1 := match name, columns with
                   | None, [x] => modify_first (named x) (set_unique None) cols
                   | _, _ => cols
                   end in
      match name with
      | Some cn => map (clear_unique_named cn) cols1
      | None => cols1
      end
  | CPrimaryKey _ columns =>
      fold_left (fun cs x => modify_first (named x) (set_pk None) cs) columns cols
  | CForeignKey _ columns _ _ _ _ =>
      fold_left (fun cs x => modify_first (named x) (set_fk None) cs) columns cols
  | CCheck _ _ => cols
  | CIndex name columns =>
      let cols1 := clear_index_auto table name cols in
      let cols2 := match name, columns with
                   | None, [x] => modify_first (named x) (set_index None) cols1
                   | _, _ => cols1
                   end in
      match name with
      | Some cn => map (clear_index_named cn) cols2
      | None => cols2
      end
  end.

Definition default_of_string (s : string) : default_value := DStr s.

Definition apply_action (s : schema) (a : action) : result schema planner_error :=
  match a with
  | CreateTable table columns constraints =>
      if has_table table s then Err (TableExists table)
      else match normalize (mkTable table None columns constraints) with
           | Err _ => Err TableValidation
           | Ok n => Ok (s ++ [n])
           end
  | DeleteTable table =>
      if has_table table s then Ok (filter (fun t => negb (String.eqb (t_name t) table)) s)
      else Err (TableNotFound table)
  | AddColumn table column _ =>
      update_table table (fun t =>
        if has_column (c_name column) t then Err (ColumnExists table (c_name column))
        else match normalize (mkTable (t_name t) (t_description t) (t_columns t ++ [column]) (t_constraints t)) with
             | Err _ => Err TableValidation
             | Ok n => Ok n
             end) s
  | RenameColumn table from to =>
      update_table table (fun t =>
        match update_first_col from (set_name to) (t_columns t) with
        | None => Err (ColumnNotFound table from)
        | Some cols => Ok (mkTable (t_name t) (t_description t) cols
                             (map (rename_column_in_constraint from to) (t_constraints t)))
        end) s
  | DeleteColumn table column =>
      update_table table (fun t =>
        if has_column column t then
          Ok (mkTable (t_name t) (t_description t)
                (filter (fun c => negb (String.eqb (c_name c) column)) (t_columns t))
                (drop_column_from_constraints column (t_constraints t)))
        else Err (ColumnNotFound table column)) s
  | ModifyColumnType table column new_type _ =>
      update_table table (update_column table column (set_type new_type)) s
  | ModifyColumnNullable table column nullable _ =>
      update_table table (update_column table column (set_nullable nullable)) s
  | ModifyColumnDefault table column new_default =>
      update_table table (update_column table column (set_default (option_map default_of_string new_default))) s
  | ModifyColumnComment table column new_comment =>
      update_table table (update_column table column (set_comment new_comment)) s
  | RenameTable from to =>
      if has_table to s then Err (TableExists to)
      else update_table from (fun t => Ok (mkTable to (t_description t) (t_columns t) (t_constraints t))) s
  | RawSql _ => Ok s
  | AddConstraint table k =>
      update_table table (fun t =>
        if contains_constraint k (t_constraints t) then Ok t
        else Ok (mkTable (t_name t) (t_description t) (t_columns t) (t_constraints t ++ [k]))) s
  | RemoveConstraint table k =>
      update_table table (fun t =>
        Ok (mkTable (t_name t) (t_description t)
              (clear_inline table k (t_columns t))
              (filter (fun c => negb (constraint_eqb c k)) (t_constraints t)))) s
  end.

Fixpoint apply_all (s : schema) (acts : list action) : result schema planner_error :=
  match acts with
  | [] => Ok s
  | a :: r => match apply_action s a with Err e => Err e | Ok s' => apply_all s' r end
  end.

(* schema_from_plans *)
Definition replay (plans : list plan) : result schema planner_error :=
  apply_all [] (flat_map p_actions plans).
