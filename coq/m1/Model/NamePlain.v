(* C19, naming algebra half: decidable shape predicates on identifiers and descriptors of the named
   database objects whose names are produced by the builders of
   /repo/crates/vespertide-naming/src/lib.rs:208-251 (modelled in Apply.v: name_with,
   build_index_name, build_unique_constraint_name, build_foreign_key_name,
   build_check_constraint_name, build_enum_type_name).  No proofs here (Proofs/NamingP.v). *)
From VV.M1 Require Export Apply.

(* ---------- identifier shapes ---------- *)
Definition is_us (a : ascii) : bool := Ascii.eqb a "_"%char.

(* first byte is '_'   (= starts_with "_" s, NamingP.head_us_starts_with) *)
Definition head_us (s : string) : bool :=
  match s with EmptyString => false | String a _ => is_us a end.

(* last byte is '_'    (= ends_with "_" s, NamingP.last_us_ends_with) *)
Fixpoint last_us (s : string) : bool :=
  match s with
  | EmptyString => false
  | String a r => match r with EmptyString => is_us a | String _ _ => last_us r end
  end.

(* contains the two-byte separator "__"   (<-> exists a b, s = a ++ "__" ++ b, NamingP.has_dunder_spec) *)
Fixpoint has_dunder (s : string) : bool :=
  match s with
  | EmptyString => false
  | String a r => (is_us a && head_us r) || has_dunder r
  end.

(* DESIGN.md §6 C19: "plain = no `__`, no leading/trailing `_`" (and not empty) *)
Definition plain (s : string) : bool :=
  negb (String.eqb s "") && negb (has_dunder s) && negb (head_us s) && negb (last_us s).

Definition no_underscore (s : string) : bool := negb (contains_char "_"%char s).

(* non-empty and without any underscore: the identifiers for which joining with "_" is injective *)
Definition simple (s : string) : bool := negb (String.eqb s "") && no_underscore s.

(* ---------- one more derived name: the SQLite rebuild helper table ----------
   format!("{}_temp", table): vespertide-query/src/sql/add_column.rs:52, add_constraint.rs:94,194,286,
   delete_column.rs:128 (and the other rebuild sites) *)
Definition sqlite_temp_table_name (table : string) : string := table +++ "_temp".

(* ---------- named objects ---------- *)
Inductive named_object :=
| OIndex (table : string) (cols : list string) (key : option string)
| OUnique (table : string) (cols : list string) (key : option string)
| OForeignKey (table : string) (cols : list string) (key : option string)
| OCheck (table column : string)
| OEnumType (table enum : string)
| OTable (name : string)
| OTempTable (table : string).

Definition object_name (o : named_object) : string :=
  match o with
  | OIndex t cs k => build_index_name t cs k
  | OUnique t cs k => build_unique_constraint_name t cs k
  | OForeignKey t cs k => build_foreign_key_name t cs k
  | OCheck t c => build_check_constraint_name t c
  | OEnumType t e => build_enum_type_name t e
  | OTable n => n
  | OTempTable t => sqlite_temp_table_name t
  end.

(* Backend-independent namespace tags (an over-approximation: two objects share a namespace here as
   soon as they do on at least one backend).
   NsRelation   tables and indexes: one namespace per schema on PostgreSQL (pg_class) and per database
                file on SQLite (sqlite_schema); a UNIQUE constraint is backed by an index of the same
                name on PostgreSQL and is emitted as CREATE UNIQUE INDEX on SQLite; the SQLite rebuild
                helper table "{table}_temp" is an ordinary table for the duration of the rebuild.
   NsConstraint constraint names: per table on PostgreSQL (pg_constraint), per schema and per
                constraint kind on MySQL (FOREIGN KEY, CHECK); taken here as one namespace.
   NsType       PostgreSQL types: CREATE TYPE ... AS ENUM shares pg_type with the row type that every
                table implicitly defines, so an enum type may not be called like a table. *)
Inductive ns := NsRelation | NsConstraint | NsType.

Definition ns_eqb (a b : ns) : bool :=
  match a, b with
  | NsRelation, NsRelation | NsConstraint, NsConstraint | NsType, NsType => true
  | _, _ => false
  end.

Definition namespaces (o : named_object) : list ns :=
  match o with
  | OIndex _ _ _ => [NsRelation]
  | OUnique _ _ _ => [NsRelation; NsConstraint]
  | OForeignKey _ _ _ => [NsConstraint]
  | OCheck _ _ => [NsConstraint]
  | OEnumType _ _ => [NsType]
  | OTable _ => [NsRelation; NsType]
  | OTempTable _ => [NsRelation]
  end.

Definition same_namespace (o1 o2 : named_object) : bool :=
  existsb (fun a => existsb (ns_eqb a) (namespaces o2)) (namespaces o1).

(* ---------- well-formedness of descriptors (the hypotheses of the injectivity theorems) ---------- *)
Definition simple_key (k : option string) : bool :=
  match k with Some s => simple s | None => true end.

(* table plain; every column and the user key simple *)
Definition wf_named (table : string) (cols : list string) (key : option string) : bool :=
  plain table && forallb simple cols && simple_key key.

Definition wf_object (o : named_object) : bool :=
  match o with
  | OIndex t cs k | OUnique t cs k | OForeignKey t cs k => wf_named t cs k
  | OCheck t c => plain t && plain c
  | OEnumType t e => no_underscore t && plain e
  | OTable n => plain n
  | OTempTable t => plain t
  end.

(* the rest of a constraint name after "{pfx}_{table}__" *)
Definition name_rest (cols : list string) (key : option string) : string :=
  match key with Some k => k | None => join "_" cols end.

(* The collisions that remain among well-formed descriptors (NamingP.object_name_collision_exact):
   same kind, same table and the same rest -- i.e. the same user key, or the same column list, or a
   user key equal to the only column of an unnamed constraint --, an enum type called like a table,
   or a table called like the rebuild helper of another. *)
Definition named_collide (t : string) (cs : list string) (k : option string)
                         (t' : string) (cs' : list string) (k' : option string) : Prop :=
  t = t' /\
  match k, k' with
  | Some a, Some b => a = b
  | None, None => cs = cs'
  | Some a, None => cs' = [a]
  | None, Some b => cs = [b]
  end.

Definition objects_collide (o1 o2 : named_object) : Prop :=
  match o1, o2 with
  | OIndex t cs k, OIndex t' cs' k' => named_collide t cs k t' cs' k'
  | OUnique t cs k, OUnique t' cs' k' => named_collide t cs k t' cs' k'
  | OForeignKey t cs k, OForeignKey t' cs' k' => named_collide t cs k t' cs' k'
  | OCheck t c, OCheck t' c' => t = t' /\ c = c'
  | OEnumType t e, OEnumType t' e' => t = t' /\ e = e'
  | OTable n, OTable n' => n = n'
  | OTempTable t, OTempTable t' => t = t'
  | OEnumType t e, OTable n | OTable n, OEnumType t e => n = t +++ "_" +++ e
  | OTempTable t, OTable n | OTable n, OTempTable t => n = t +++ "_temp"
  | OEnumType t e, OTempTable t' | OTempTable t', OEnumType t e => t +++ "_" +++ e = t' +++ "_temp"
  | _, _ => False
  end.
