(* M1: diff_schemas and its three re-ordering passes (vespertide-planner/src/diff.rs:13-646),
   plan_next_migration (plan.rs:10-35). *)
From VV.M1 Require Export Apply.

(* ---------- Kahn's algorithm as coded (diff.rs:13-106 and 119-225) ---------- *)
Definition deps_map := list (string * list string).   (* BTreeMap name -> sorted deps *)

Definition fk_targets (t : table_def) : list string :=
  flat_map (fun c => match c with CForeignKey _ _ rt _ _ _ => [rt] | _ => [] end) (t_constraints t).

(* one loop iteration for the popped name: decrement dependants, collect those reaching zero *)
Fixpoint kahn_relax (popped : string) (deps : deps_map) (deg : list (string * nat))
  : list (string * nat) * list string :=
  match deps with
  | [] => (deg, [])
  | (dependent, ds) :: r =>
      if mem_str popped ds then
        match bt_get dependent deg with
        | Some d =>
            let d' := Nat.pred d in
            let deg' := bt_insert dependent d' deg in
            let '(deg'', ready) := kahn_relax popped r deg' in
            (deg'', if Nat.eqb d' 0 then dependent :: ready else ready)
        | None => kahn_relax popped r deg
        end
      else kahn_relax popped r deg
  end.

Fixpoint kahn_loop (fuel : nat) (deps : deps_map) (deg : list (string * nat)) (queue : list string)
  (acc : list string) : option (list string) :=
  match queue with
  | [] => Some (rev acc)
  | x :: q =>
      match fuel with
      | O => None                                   (* out of fuel: never for fuel = #keys + 1 *)
      | S f =>
          let '(deg', ready) := kahn_relax x deps deg in
          kahn_loop f deps deg' (q ++ bs_of_list ready) (x :: acc)
      end
  end.

Definition kahn (deps : deps_map) : option (list string) :=
  let deg := map (fun kv => (fst kv, List.length (snd kv))) deps in
  let q0 := map fst (filter (fun kv => Nat.eqb (snd kv) 0) deg) in
  kahn_loop (S (List.length deps)) deps deg q0 [].

Inductive topo_result := TopoOk (l : list table_def) | TopoCycle | TopoOutOfFuel.

(* topological_sort_tables *)
Definition topo_sort (tables : list table_def) : topo_result :=
  match tables with
  | [] => TopoOk []
  | _ =>
      let names := map t_name tables in
      let deps : deps_map :=
        bt_of_list (map (fun t =>
          (t_name t, bs_of_list (filter (fun rt => (mem_str rt names && negb (String.eqb rt (t_name t)))%bool)
                                        (fk_targets t)))) tables) in
      let tmap := bt_of_list (map (fun t => (t_name t, t)) tables) in
      match kahn deps with
      | None => TopoOutOfFuel
      | Some order =>
          let res := flat_map (fun n => match bt_get n tmap with Some t => [t] | None => [] end) order in
          if Nat.eqb (List.length res) (List.length tables) then TopoOk res else TopoCycle
      end
  end.

(* ---------- sort_delete_tables (diff.rs:119-225) ---------- *)
Definition is_delete_table (a : action) : bool := match a with DeleteTable _ => true | _ => false end.
Definition delete_name (a : action) : string := match a with DeleteTable t => t | _ => "" end.

Fixpoint put_back (acts : list action) (sorted : list action) : list action :=
  match acts with
  | [] => []
  | a :: r =>
      if is_delete_table a then
        match sorted with
        | s :: ss => s :: put_back r ss
        | [] => a :: put_back r []
        end
      else a :: put_back r sorted
  end.

Definition sort_delete_tables (acts : list action) (all : list (string * table_def)) : list action :=
  let dels := filter is_delete_table acts in
  if Nat.leb (List.length dels) 1 then acts
  else
    let dnames := bs_of_list (map delete_name dels) in
    let deps : deps_map :=
      map (fun n =>
        (n, match bt_get n all with
            | Some td => bs_of_list (filter (fun rt => (mem_str rt dnames && negb (String.eqb rt n))%bool)
                                            (fk_targets td))
            | None => []
            end)) dnames in
    match kahn deps with
    | None => acts                                  (* unreachable; see kahn_fuel_enough *)
    | Some order =>
        let sorted_tables := rev order in
        let pos (a : action) : nat :=
          match find_index (String.eqb (delete_name a)) sorted_tables with Some i => i | None => O end in
        put_back acts (sort_by_key pos dels)
    end.

(* ---------- sort_create_before_add_constraint (diff.rs:229-295) ---------- *)
Definition created_tables (acts : list action) : list string :=
  flat_map (fun a => match a with CreateTable t _ _ => [t] | _ => [] end) acts.
Definition create_rank (created : list string) (a : action) : nat :=
  match a with
  | CreateTable _ _ _ => 0
  | AddConstraint _ (CForeignKey _ _ rt _ _ _) => if mem_str rt created then 2 else 1
  | _ => 1
  end.
Definition sort_create_before_add_constraint (acts : list action) : list action :=
  let created := created_tables acts in
  match created with
  | [] => acts
  | _ => sort_by_key (create_rank created) acts
  end.

(* ---------- sort_enum_default_dependencies (diff.rs:297-402) ---------- *)
Definition removed_string_enum_values (from to : column_type) : option (list string) :=
  match from, to with
  | TEnum _ (EVString fv), TEnum _ (EVString tv) =>
      let removed := filter (fun v => negb (mem_str v tv)) fv in
      match removed with [] => None | _ => Some removed end
  | _, _ => None
  end.
Definition extract_unquoted_default (d : string) : string :=
  let t := trim d in
  if (starts_with "'" t && ends_with "'" t && Nat.leb 2 (String.length t))%bool then strip_ends t else t.

(* BTreeMap<(&str,&str), V>: key order = lexicographic on the pair *)
Definition pair_cmp (a b : string * string) : comparison :=
  match String.compare (fst a) (fst b) with Eq => String.compare (snd a) (snd b) | c => c end.
Fixpoint pm_insert {V} (k : string * string) (v : V) (m : list ((string * string) * V)) :=
  match m with
  | [] => [(k, v)]
  | (k', v') :: r =>
      match pair_cmp k k' with
      | Lt => (k, v) :: m
      | Eq => (k, v) :: r
      | Gt => (k', v') :: pm_insert k v r
      end
  end.
Fixpoint pm_get {V} (k : string * string) (m : list ((string * string) * V)) : option V :=
  match m with
  | [] => None
  | (k', v) :: r => match pair_cmp k k' with Eq => Some v | _ => pm_get k r end
  end.

Fixpoint collect_changes (i : nat) (acts : list action)
  (tc : list ((string * string) * (nat * column_type))) (dc : list ((string * string) * nat)) :=
  match acts with
  | [] => (tc, dc)
  | a :: r =>
      match a with
      | ModifyColumnType t c nt _ => collect_changes (S i) r (pm_insert (t, c) (i, nt) tc) dc
      | ModifyColumnDefault t c _ => collect_changes (S i) r tc (pm_insert (t, c) i dc)
      | _ => collect_changes (S i) r tc dc
      end
  end.

Definition find_column (n : string) (t : table_def) : option column_def :=
  find (fun c => String.eqb (c_name c) n) (t_columns t).

Definition enum_swaps (acts : list action) (from_map : list (string * table_def)) : list (nat * nat) :=
  let '(tc, dc) := collect_changes 0 acts [] [] in
  flat_map (fun e : (string * string) * (nat * column_type) =>
    let '((table, column), (type_idx, new_type)) := e in
    match pm_get (table, column) dc with
    | None => []
    | Some default_idx =>
        match bt_get table from_map with
        | None => []
        | Some ft =>
            match find_column column ft with
            | None => []
            | Some fc =>
                match removed_string_enum_values (c_type fc) new_type with
                | None => []
                | Some removed =>
                    match c_default fc with
                    | None => []
                    | Some od =>
                        let unq := extract_unquoted_default (default_to_sql od) in
                        if (mem_str unq removed && Nat.ltb type_idx default_idx)%bool
                        then [(type_idx, default_idx)] else []
                    end
                end
            end
        end
    end) tc.
Definition sort_enum_default_dependencies (acts : list action) (from_map : list (string * table_def))
  : list action :=
  fold_left (fun l ij => swap_nth (fst ij) (snd ij) l) (enum_swaps acts from_map) acts.

(* ---------- per-table group (diff.rs:449-605) ---------- *)
Definition needs_enum_rename (a b : column_type) : bool :=
  match a, b with
  | TEnum n1 v1, TEnum n2 v2 =>
      (negb (String.eqb n1 n2) && negb (ev_is_integer v1) && negb (ev_is_integer v2))%bool
  | _, _ => false
  end.

Definition opt_str_eqb (a b : option string) : bool := dec_b (option_eq_dec string_dec) a b.

Definition table_group (name : string) (ft tt : table_def) : list action :=
  let from_cols := bt_of_list (map (fun c => (c_name c, c)) (t_columns ft)) in
  let to_cols := bt_of_list (map (fun c => (c_name c, c)) (t_columns tt)) in
  let deleted := map fst (filter (fun kv => negb (bt_mem (fst kv) to_cols)) from_cols) in
  let common (f : string -> column_def -> column_def -> list action) : list action :=
    flat_map (fun kv => match bt_get (fst kv) from_cols with
                        | Some fd => f (fst kv) fd (snd kv)
                        | None => []
                        end) to_cols in
  map (fun c => DeleteColumn name c) deleted
  ++ common (fun col fd td =>
       let ntm := requires_migration (c_type fd) (c_type td) in
       if (ntm || (negb ntm && needs_enum_rename (c_type fd) (c_type td)))%bool
       then [ModifyColumnType name col (c_type td) None] else [])
  ++ common (fun col fd td =>
       if Bool.eqb (c_nullable fd) (c_nullable td) then []
       else [ModifyColumnNullable name col (c_nullable td) None])
  ++ common (fun col fd td =>
       let fdflt := option_map default_to_sql (c_default fd) in
       let tdflt := option_map default_to_sql (c_default td) in
       if opt_str_eqb fdflt tdflt then [] else [ModifyColumnDefault name col tdflt])
  ++ common (fun col fd td =>
       if opt_str_eqb (c_comment fd) (c_comment td) then []
       else [ModifyColumnComment name col (c_comment td)])
  ++ flat_map (fun kv => if bt_mem (fst kv) from_cols then [] else [AddColumn name (snd kv) None]) to_cols
  ++ flat_map (fun fc =>
       if contains_constraint fc (t_constraints tt) then []
       else
         let cc := constraint_columns fc in
         let all_deleted := (nonempty cc && forallb (fun c => mem_str c deleted) cc)%bool in
         if all_deleted then [] else [RemoveConstraint name fc]) (t_constraints ft)
  ++ flat_map (fun tc =>
       if contains_constraint tc (t_constraints ft) then [] else [AddConstraint name tc])
       (t_constraints tt).

Inductive diff_error := DiffTableValidation | DiffCycle | DiffOutOfFuel | DiffPanic.

Definition normalize_all (s : schema) : result (list table_def) diff_error :=
  map_result (fun t => match normalize t with Ok n => Ok n | Err _ => Err DiffTableValidation end) s.

Definition diff_actions (from to : schema) : result (list action) diff_error :=
  match normalize_all from with
  | Err e => Err e
  | Ok from_n =>
      match normalize_all to with
      | Err e => Err e
      | Ok to_n =>
          let from_map := bt_of_list (map (fun t => (t_name t, t)) from_n) in
          let to_map := bt_of_list (map (fun t => (t_name t, t)) to_n) in
          let to_orig := bt_of_list (map (fun t => (t_name t, t)) to) in
          let deletes := flat_map (fun kv => if bt_mem (fst kv) to_map then [] else [DeleteTable (fst kv)]) from_map in
          let updates := flat_map (fun kv => match bt_get (fst kv) from_map with
                                             | Some ft => table_group (fst kv) ft (snd kv)
                                             | None => []
                                             end) to_map in
          let new_tables := flat_map (fun kv => if bt_mem (fst kv) from_map then [] else [snd kv]) to_map in
          match topo_sort new_tables with
          | TopoCycle => Err DiffCycle
          | TopoOutOfFuel => Err DiffOutOfFuel
          | TopoOk sorted =>
              let creates := flat_map (fun t => match bt_get (t_name t) to_orig with
                                                | Some o => [CreateTable (t_name o) (t_columns o) (t_constraints o)]
                                                | None => []      (* unwrap: never None, to_orig has every to-name *)
                                                end) sorted in
              let a0 := deletes ++ updates ++ creates in
              let a1 := sort_delete_tables a0 from_map in
              let a2 := sort_create_before_add_constraint a1 in
              Ok (sort_enum_default_dependencies a2 from_map)
          end
      end
  end.

Definition diff_schemas (from to : schema) : result plan diff_error :=
  match diff_actions from to with
  | Err e => Err e
  | Ok acts => Ok (mkPlan "" None None 0 acts)
  end.

(* ---------- plan_next_migration ---------- *)
Inductive plan_error := PlanReplay (e : planner_error) | PlanDiff (e : diff_error).

Definition u32_max : N := 4294967295.
Definition next_version (plans : list plan) : N :=
  N.min u32_max (fold_left N.max (map p_version plans) 0%N + 1).

Definition plan_next (current : schema) (applied : list plan) : result plan plan_error :=
  match replay applied with
  | Err e => Err (PlanReplay e)
  | Ok baseline =>
      match diff_actions baseline current with
      | Err e => Err (PlanDiff e)
      | Ok acts => Ok (mkPlan "" None None (next_version applied) acts)
      end
  end.
