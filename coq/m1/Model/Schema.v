(* M1: data types of vespertide-core (schema/*.rs, action.rs) with decidable equality. *)
From VV.M1 Require Export Str.

Inductive simple_type :=
| SmallInt | Integer | BigInt | Real | DoublePrecision | Text | Boolean | Date | Time | Timestamp
| Timestamptz | Interval | Bytea | Uuid | Json | Inet | Cidr | Macaddr | Xml.

Record num_value := mkNum { nv_name : string; nv_value : Z }.

Inductive enum_values := EVString (l : list string) | EVInteger (l : list num_value).

Inductive column_type :=
| TSimple (s : simple_type)
| TVarchar (len : N)
| TNumeric (precision scale : N)
| TChar (len : N)
| TCustom (custom_type : string)
| TEnum (name : string) (values : enum_values).

(* DefaultValue: Float is carried as Rust's f64::to_string() rendering *)
Inductive default_value := DBool (b : bool) | DInt (z : Z) | DFloat (rendered : string) | DStr (s : string).

Inductive pk_syntax := PKBool (b : bool) | PKObj (auto_increment : bool).
Inductive str_or_bool_or_array := SStr (s : string) | SArr (l : list string) | SBool (b : bool).
Inductive ref_action := Cascade | Restrict | SetNull | SetDefault | NoAction.
Inductive fk_syntax :=
| FKStr (s : string)
| FKRef (references : string) (on_delete on_update : option ref_action)
| FKObj (ref_table : string) (ref_columns : list string) (on_delete on_update : option ref_action).

Record column_def := mkCol {
  c_name : string;
  c_type : column_type;
  c_nullable : bool;
  c_default : option default_value;
  c_comment : option string;
  c_primary_key : option pk_syntax;
  c_unique : option str_or_bool_or_array;
  c_index : option str_or_bool_or_array;
  c_foreign_key : option fk_syntax }.

Inductive table_constraint :=
| CPrimaryKey (auto_increment : bool) (columns : list string)
| CUnique (name : option string) (columns : list string)
| CForeignKey (name : option string) (columns : list string) (ref_table : string)
              (ref_columns : list string) (on_delete on_update : option ref_action)
| CCheck (name expr : string)
| CIndex (name : option string) (columns : list string).

Record table_def := mkTable {
  t_name : string;
  t_description : option string;
  t_columns : list column_def;
  t_constraints : list table_constraint }.

Inductive action :=
| CreateTable (table : string) (columns : list column_def) (constraints : list table_constraint)
| DeleteTable (table : string)
| AddColumn (table : string) (column : column_def) (fill_with : option string)
| RenameColumn (table from to : string)
| DeleteColumn (table column : string)
| ModifyColumnType (table column : string) (new_type : column_type)
                   (fill_with : option (list (string * string)))
| ModifyColumnNullable (table column : string) (nullable : bool) (fill_with : option string)
| ModifyColumnDefault (table column : string) (new_default : option string)
| ModifyColumnComment (table column : string) (new_comment : option string)
| AddConstraint (table : string) (constraint : table_constraint)
| RemoveConstraint (table : string) (constraint : table_constraint)
| RenameTable (from to : string)
| RawSql (sql : string).

Record plan := mkPlan {
  p_id : string;
  p_comment : option string;
  p_created_at : option string;
  p_version : N;
  p_actions : list action }.

Definition schema := list table_def.

(* ---------- decidable equality ---------- *)
Ltac deq := decide equality;
  auto using string_dec, Z.eq_dec, N.eq_dec, bool_dec, list_eq_dec.

Definition option_eq_dec {A} (d : forall x y : A, {x = y} + {x <> y}) (x y : option A)
  : {x = y} + {x <> y}.
Proof. decide equality. Defined.
Definition pair_eq_dec {A B} (da : forall x y : A, {x = y} + {x <> y})
  (db : forall x y : B, {x = y} + {x <> y}) (x y : A * B) : {x = y} + {x <> y}.
Proof. decide equality. Defined.

Definition simple_type_eq_dec (x y : simple_type) : {x = y} + {x <> y}.
Proof. decide equality. Defined.
Definition num_value_eq_dec (x y : num_value) : {x = y} + {x <> y}.
Proof. deq. Defined.
Definition enum_values_eq_dec (x y : enum_values) : {x = y} + {x <> y}.
Proof. decide equality; apply list_eq_dec; auto using string_dec, num_value_eq_dec. Defined.
Definition column_type_eq_dec (x y : column_type) : {x = y} + {x <> y}.
Proof. decide equality; auto using string_dec, N.eq_dec, simple_type_eq_dec, enum_values_eq_dec. Defined.
Definition default_value_eq_dec (x y : default_value) : {x = y} + {x <> y}.
Proof. deq. Defined.
Definition pk_syntax_eq_dec (x y : pk_syntax) : {x = y} + {x <> y}.
Proof. deq. Defined.
Definition sba_eq_dec (x y : str_or_bool_or_array) : {x = y} + {x <> y}.
Proof. decide equality; auto using string_dec, bool_dec; apply list_eq_dec, string_dec. Defined.
Definition ref_action_eq_dec (x y : ref_action) : {x = y} + {x <> y}.
Proof. decide equality. Defined.
Definition fk_syntax_eq_dec (x y : fk_syntax) : {x = y} + {x <> y}.
Proof.
  decide equality; auto using string_dec;
    try (apply option_eq_dec, ref_action_eq_dec); apply list_eq_dec, string_dec.
Defined.
Definition column_def_eq_dec (x y : column_def) : {x = y} + {x <> y}.
Proof.
  decide equality; auto using string_dec, bool_dec, column_type_eq_dec;
    apply option_eq_dec;
    auto using string_dec, default_value_eq_dec, pk_syntax_eq_dec, sba_eq_dec, fk_syntax_eq_dec.
Defined.
Definition constraint_eq_dec (x y : table_constraint) : {x = y} + {x <> y}.
Proof.
  decide equality; auto using string_dec, bool_dec;
    try (apply list_eq_dec, string_dec);
    try (apply option_eq_dec; auto using string_dec, ref_action_eq_dec).
Defined.
Definition table_def_eq_dec (x y : table_def) : {x = y} + {x <> y}.
Proof.
  decide equality; auto using string_dec;
    try (apply list_eq_dec; auto using column_def_eq_dec, constraint_eq_dec);
    apply option_eq_dec, string_dec.
Defined.
Definition action_eq_dec (x y : action) : {x = y} + {x <> y}.
Proof.
  decide equality; auto using string_dec, bool_dec, column_def_eq_dec, column_type_eq_dec,
    constraint_eq_dec;
    try (apply list_eq_dec; auto using column_def_eq_dec, constraint_eq_dec);
    try (apply option_eq_dec; auto using string_dec);
    try (apply list_eq_dec, pair_eq_dec; apply string_dec).
Defined.
Definition plan_eq_dec (x y : plan) : {x = y} + {x <> y}.
Proof.
  decide equality; auto using string_dec, N.eq_dec;
    try (apply list_eq_dec, action_eq_dec); apply option_eq_dec, string_dec.
Defined.
Definition schema_eq_dec : forall x y : schema, {x = y} + {x <> y} := list_eq_dec table_def_eq_dec.

Definition dec_b {A} (d : forall x y : A, {x = y} + {x <> y}) (x y : A) : bool :=
  if d x y then true else false.
Definition constraint_eqb := dec_b constraint_eq_dec.
Definition column_type_eqb := dec_b column_type_eq_dec.
Definition contains_constraint (c : table_constraint) (l : list table_constraint) : bool :=
  existsb (constraint_eqb c) l.

(* ---------- accessors mirroring small Rust methods ---------- *)
Definition constraint_columns (c : table_constraint) : list string :=
  match c with
  | CPrimaryKey _ cols | CUnique _ cols | CForeignKey _ cols _ _ _ _ | CIndex _ cols => cols
  | CCheck _ _ => []
  end.

Definition ev_is_integer (v : enum_values) : bool :=
  match v with EVInteger _ => true | EVString _ => false end.
Definition ev_variant_names (v : enum_values) : list string :=
  match v with EVString l => l | EVInteger l => map nv_name l end.

Definition bool_to_string (b : bool) : string := if b then "true" else "false".

(* DefaultValue::to_sql (str_or_bool.rs:26-41) *)
Definition default_to_sql (d : default_value) : string :=
  match d with
  | DBool b => bool_to_string b
  | DInt z => Z_to_string z
  | DFloat r => r
  | DStr s => if String.eqb s "" then "''" else s
  end.

(* ColumnType::requires_migration (column.rs:50-73) *)
Definition requires_migration (a b : column_type) : bool :=
  match a, b with
  | TEnum _ v1, TEnum _ v2 =>
      if (ev_is_integer v1 && ev_is_integer v2)%bool then false
      else negb (dec_b enum_values_eq_dec v1 v2)
  | _, _ => negb (column_type_eqb a b)
  end.

Definition supports_auto_increment (t : column_type) : bool :=
  match t with
  | TSimple SmallInt | TSimple Integer | TSimple BigInt => true
  | _ => false
  end.
