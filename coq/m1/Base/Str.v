(* Byte strings and list utilities shared by every model layer.  No proofs here. *)
From Coq Require Export List String Ascii ZArith NArith Bool.
Export ListNotations.
Open Scope string_scope.
Open Scope list_scope.
Infix "+++" := String.append (right associativity, at level 60).

(* ---------- result ---------- *)
Inductive result (A E : Type) : Type := Ok (a : A) | Err (e : E).
Arguments Ok {A E} a.
Arguments Err {A E} e.

Definition rbind {A B E} (r : result A E) (f : A -> result B E) : result B E :=
  match r with Ok a => f a | Err e => Err e end.

Fixpoint map_result {A B E} (f : A -> result B E) (l : list A) : result (list B) E :=
  match l with
  | [] => Ok []
  | x :: r =>
      match f x with
      | Err e => Err e
      | Ok y => match map_result f r with Err e => Err e | Ok ys => Ok (y :: ys) end
      end
  end.

(* ---------- strings ---------- *)
Definition str_dec := string_dec.

Fixpoint starts_with (p s : string) : bool :=
  match p, s with
  | EmptyString, _ => true
  | String a p', String b s' => if Ascii.eqb a b then starts_with p' s' else false
  | String _ _, EmptyString => false
  end.

Fixpoint rev_string_acc (s acc : string) : string :=
  match s with EmptyString => acc | String a r => rev_string_acc r (String a acc) end.
Definition rev_string (s : string) : string := rev_string_acc s EmptyString.

Definition ends_with (p s : string) : bool := starts_with (rev_string p) (rev_string s).

Fixpoint join (sep : string) (l : list string) : string :=
  match l with
  | [] => ""
  | [x] => x
  | x :: r => x +++ sep +++ join sep r
  end.

(* Rust str::split(char): always at least one piece *)
Fixpoint split_on_aux (c : ascii) (s cur : string) : list string :=
  match s with
  | EmptyString => [rev_string cur]
  | String a r => if Ascii.eqb a c then rev_string cur :: split_on_aux c r EmptyString
                  else split_on_aux c r (String a cur)
  end.
Definition split_on (c : ascii) (s : string) : list string := split_on_aux c s EmptyString.

Fixpoint contains_char (c : ascii) (s : string) : bool :=
  match s with EmptyString => false | String a r => Ascii.eqb a c || contains_char c r end.

Definition is_ascii_ws (a : ascii) : bool :=
  let n := N_of_ascii a in
  (N.eqb n 32 || N.eqb n 9 || N.eqb n 10 || N.eqb n 11 || N.eqb n 12 || N.eqb n 13)%bool.

(* Rust str::trim removes Unicode White_Space: ASCII 9-13 and 32, and in UTF-8
   U+0085 (C2 85), U+00A0 (C2 A0), U+1680 (E1 9A 80), U+2000..U+200A (E2 80 80..8A), U+2028/2029 (E2 80 A8/A9),
   U+202F (E2 80 AF), U+205F (E2 81 9F), U+3000 (E3 80 80).  [ws_len3 a b c] etc. recognise one such character
   given its bytes in reading order. *)
Definition byte_is (a : ascii) (n : N) : bool := N.eqb (N_of_ascii a) n.
Definition ws2 (a b : ascii) : bool := (byte_is a 194 && (byte_is b 133 || byte_is b 160))%bool.
Definition ws3 (a b c : ascii) : bool :=
  ((byte_is a 225 && byte_is b 154 && byte_is c 128)
   || (byte_is a 226 && byte_is b 128 && (let n := N_of_ascii c in (N.leb 128 n && N.leb n 138) || N.eqb n 168 || N.eqb n 169 || N.eqb n 175))
   || (byte_is a 226 && byte_is b 129 && byte_is c 159)
   || (byte_is a 227 && byte_is b 128 && byte_is c 128))%bool.

Fixpoint trim_start_fuel (fuel : nat) (s : string) : string :=
  match fuel with
  | O => s
  | S f =>
      match s with
      | EmptyString => EmptyString
      | String a r =>
          if is_ascii_ws a then trim_start_fuel f r
          else match r with
               | String b r2 =>
                   if ws2 a b then trim_start_fuel f r2
                   else match r2 with
                        | String c r3 => if ws3 a b c then trim_start_fuel f r3 else s
                        | EmptyString => s
                        end
               | EmptyString => s
               end
      end
  end.
Definition trim_start (s : string) : string := trim_start_fuel (S (String.length s)) s.
(* the same on the reversed string: the bytes of a character arrive last-first *)
Fixpoint trim_start_rev_fuel (fuel : nat) (s : string) : string :=
  match fuel with
  | O => s
  | S f =>
      match s with
      | EmptyString => EmptyString
      | String a r =>
          if is_ascii_ws a then trim_start_rev_fuel f r
          else match r with
               | String b r2 =>
                   if ws2 b a then trim_start_rev_fuel f r2
                   else match r2 with
                        | String c r3 => if ws3 c b a then trim_start_rev_fuel f r3 else s
                        | EmptyString => s
                        end
               | EmptyString => s
               end
      end
  end.
Definition trim (s : string) : string :=
  let t := trim_start s in
  let r := rev_string t in
  rev_string (trim_start_rev_fuel (S (String.length r)) r).

Definition to_lower_ascii_char (a : ascii) : ascii :=
  let n := N_of_ascii a in
  if (N.leb 65 n && N.leb n 90)%bool then ascii_of_N (n + 32) else a.
Definition to_upper_ascii_char (a : ascii) : ascii :=
  let n := N_of_ascii a in
  if (N.leb 97 n && N.leb n 122)%bool then ascii_of_N (n - 32) else a.
Fixpoint map_string (f : ascii -> ascii) (s : string) : string :=
  match s with EmptyString => EmptyString | String a r => String (f a) (map_string f r) end.
Definition eq_ignore_ascii_case (a b : string) : bool :=
  String.eqb (map_string to_lower_ascii_char a) (map_string to_lower_ascii_char b).

(* drop first and last byte (caller guarantees length >= 2) *)
Definition strip_ends (s : string) : string :=
  match s with
  | EmptyString => EmptyString
  | String _ r => match rev_string r with EmptyString => EmptyString | String _ r' => rev_string r' end
  end.

(* ---------- decimal printing ---------- *)
Definition digit_char (n : N) : ascii := ascii_of_N (48 + n).
Fixpoint N_to_string_fuel (fuel : nat) (n : N) (acc : string) : string :=
  match fuel with
  | O => acc
  | S f =>
      let q := N.div n 10 in
      let r := N.modulo n 10 in
      let acc' := String (digit_char r) acc in
      if N.eqb q 0 then acc' else N_to_string_fuel f q acc'
  end.
Definition N_to_string (n : N) : string := N_to_string_fuel (S (N.to_nat (N.log2 n))) n EmptyString.
Definition Z_to_string (z : Z) : string :=
  match z with
  | Z0 => "0"
  | Zpos p => N_to_string (Npos p)
  | Zneg p => String "-"%char (N_to_string (Npos p))
  end.

(* ---------- lists ---------- *)
Definition mem_str (s : string) (l : list string) : bool := existsb (String.eqb s) l.

Fixpoint list_eqb {A} (eqb : A -> A -> bool) (a b : list A) : bool :=
  match a, b with
  | [], [] => true
  | x :: r, y :: s => eqb x y && list_eqb eqb r s
  | _, _ => false
  end.

Fixpoint find_index {A} (p : A -> bool) (l : list A) : option nat :=
  match l with
  | [] => None
  | x :: r => if p x then Some O else option_map S (find_index p r)
  end.

(* stable insertion sort: fold_right inserts earlier elements last, so an element goes in front of
   the first element that is >= it *)
Fixpoint insert_le {A} (le : A -> A -> bool) (x : A) (l : list A) : list A :=
  match l with
  | [] => [x]
  | y :: r => if le x y then x :: y :: r else y :: insert_le le x r
  end.
Definition sort_le {A} (le : A -> A -> bool) (l : list A) : list A := fold_right (insert_le le) [] l.
Definition sort_by_key {A} (key : A -> nat) (l : list A) : list A :=
  sort_le (fun x y => Nat.leb (key x) (key y)) l.

Fixpoint update_nth {A} (n : nat) (x : A) (l : list A) : list A :=
  match l, n with
  | [], _ => []
  | _ :: r, O => x :: r
  | y :: r, S n' => y :: update_nth n' x r
  end.
Definition swap_nth {A} (i j : nat) (l : list A) : list A :=
  match nth_error l i, nth_error l j with
  | Some a, Some b => update_nth j a (update_nth i b l)
  | _, _ => l
  end.

(* ---------- sorted association lists = BTreeMap<String, V> ---------- *)
Fixpoint bt_insert {V} (k : string) (v : V) (m : list (string * V)) : list (string * V) :=
  match m with
  | [] => [(k, v)]
  | (k', v') :: r =>
      match String.compare k k' with
      | Lt => (k, v) :: m
      | Eq => (k, v) :: r
      | Gt => (k', v') :: bt_insert k v r
      end
  end.
Definition bt_of_list {V} (l : list (string * V)) : list (string * V) :=
  fold_left (fun m kv => bt_insert (fst kv) (snd kv) m) l [].
Fixpoint bt_get {V} (k : string) (m : list (string * V)) : option V :=
  match m with
  | [] => None
  | (k', v) :: r => if String.eqb k k' then Some v else bt_get k r
  end.
Definition bt_mem {V} (k : string) (m : list (string * V)) : bool :=
  match bt_get k m with Some _ => true | None => false end.
(* BTreeSet<String> *)
Definition bs_of_list (l : list string) : list string :=
  map fst (bt_of_list (map (fun s => (s, tt)) l)).
