(* Further classifiers of known findings (Known.v is left untouched and re-exported).  No proofs here. *)
From VV.M1 Require Export Known.

(* C01, further class: a table of the models or of the replayed baseline lists a column name twice.  The
   loader accepts it (no duplicate-column check anywhere); the planner's per-table BTreeMap keeps the LAST
   column of a name, apply_action modifies the FIRST one, so a change to that column is planned again after
   every revision (Properties/C01.v: C01_duplicate_column_refuted) *)
Definition has_duplicate_column (t : table_def) : bool := negb (nodup_str (colnames t)).
Definition known_duplicate_column (baseline models : schema) : bool :=
  (existsb has_duplicate_column models || existsb has_duplicate_column baseline)%bool.
Definition known_C01_duplicate_column (c : m1_case) : bool :=
  known_duplicate_column (baseline_of c) (k_models c).
