(* Further classifiers of known findings (Known.v is left untouched and re-exported).  No proofs here. *)
From VV.M1 Require Export Known.

(* C01, further class: a table of the models or of the replayed baseline lists a column name twice.  The
   loader accepts it (no duplicate-column check anywhere); the planner's per-table BTreeMap keeps the LAST
   column of a name, apply_action modifies the FIRST one, so a change to that column is planned again after
   every revision (Properties/C01.v: C01_duplicate_column_refuted) *)
Definition has_duplicate_column (t : table_def) : bool := negb (nodup_str (colnames t)).
Definition known_duplicate_column (baseline models : schema) : bool :=
  (existsb has_duplicate_column models || existsb has_duplicate_column baseline)%bool.
Definition known_C01_duplicate_column (c : m1_case) : bool :=
  known_duplicate_column (baseline_of c) (k_models c).

(* C06-drop-before-unreference, self-referencing variant: a surviving table references ITSELF and the plan
   deletes a referenced column while a column of the foreign key survives or is deleted later (DeleteColumn
   actions are emitted in byte order of the column names, diff.rs:455-470).  apply_action drops a table-level
   foreign key together with the referenced column only because drop_column_from_constraints also filters
   ref_columns; an inline foreign_key on the column stays until that column goes, so the intermediate schema
   (and every SQLite rebuild rendered from it) has a foreign key to a missing column.  The disjunction with the
   original classifier keeps one finding id. *)
Definition str_lt (a b : string) : bool := match String.compare a b with Lt => true | _ => false end.
Definition known_drop_before_unreference_self (baseline models : schema) : bool :=
  existsb (fun bt =>
    match table_named (t_name bt) models with
    | None => false
    | Some mt =>
        let gone x := negb (mem_str x (colnames mt)) in
        existsb (fun k =>
          match k with
          | CForeignKey _ cols rt rcols _ _ =>
              (String.eqb rt (t_name bt) &&
               existsb (fun rc => (mem_str rc (colnames bt) && gone rc &&
                                   existsb (fun fc => (negb (gone fc) || str_lt rc fc)%bool) cols)%bool) rcols)%bool
          | _ => false
          end) (t_constraints (normalized_or_self bt))
    end) baseline.
Definition known_C06_drop_order_self (c : m1_case) : bool :=
  (known_C06_drop_order c || known_drop_before_unreference_self (baseline_of c) (k_models c))%bool.

(* C06-shrunk-constraint-target, remaining variant: EVERY column of a multi-column foreign key of a surviving table is deleted by the
   plan (the partial case is known_shrunk_constraint).  DeleteColumn actions come one by one: after the first one apply_action has
   shrunk `columns` but not `ref_columns`, so the intermediate schema holds a foreign key whose two column lists differ in length,
   until the last of its columns goes. *)
Definition known_fk_shrinks_to_nothing (baseline models : schema) : bool :=
  existsb (fun bt =>
    match table_named (t_name bt) models with
    | None => false
    | Some mt =>
        let gone x := negb (mem_str x (colnames mt)) in
        existsb (fun k =>
          match k with
          | CForeignKey _ cols _ rcols _ _ =>
              (Nat.leb 2 (List.length cols) && Nat.leb 2 (List.length rcols) && forallb gone cols)%bool
          | _ => false
          end) (t_constraints (normalized_or_self bt))
    end) baseline.
Definition known_C06_shrink_any (c : m1_case) : bool :=
  (known_C06_shrink c || known_fk_shrinks_to_nothing (baseline_of c) (k_models c))%bool.
