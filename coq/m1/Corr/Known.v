(* Classifiers of known findings lifted to correspondence cases, and the model-side oracles per case. *)
From VV.M1 Require Export Corr Oracles.

Definition known_C01_shrink (c : m1_case) : bool := known_shrunk_constraint (baseline_of c) (k_models c).
Definition known_C06_shrink (c : m1_case) : bool := known_shrunk_constraint (baseline_of c) (k_models c).
Definition known_C06_drop_order (c : m1_case) : bool := known_drop_before_unreference (baseline_of c) (k_models c).

Definition known_C06_ref_added_later (c : m1_case) : bool := known_reference_added_later (baseline_of c) (k_models c).
Definition known_C01_shadowed_inline (c : m1_case) : bool := known_shadowed_inline (baseline_of c) (k_models c).
Definition known_C06_shadowed_inline (c : m1_case) : bool := known_shadowed_inline (baseline_of c) (k_models c).

(* C01/C06, further class: two or more columns ADDED to an existing table by one plan share an inline group
   (composite inline primary key, same unique name, same index name), or one added column joins a group
   declared inline on existing columns.  Replay re-normalises after each
   AddColumn, so the first column alone is promoted to a partial constraint that nothing removes. *)
Definition sba_names (o : option str_or_bool_or_array) : list string :=
  match o with Some (SStr n) => [n] | Some (SArr l) => l | _ => [] end.
Definition has_inline_pk (c : column_def) : bool :=
  match c_primary_key c with Some (PKBool true) | Some (PKObj _) => true | _ => false end.
Definition in_multi_group (t : table_def) (c : column_def) : bool :=
  let cols := t_columns t in
  let big (g : option (list string)) := match g with Some (_ :: _ :: _) => true | _ => false end in
  ((has_inline_pk c && Nat.leb 2 (List.length (pk_cols_of cols)))
   || existsb (fun n => big (group_get n (unique_groups cols))) (sba_names (c_unique c))
   || existsb (fun n => big (group_get n (match index_groups cols [] with Ok gs => gs | Err _ => [] end))) (sba_names (c_index c)))%bool.
(* an ADDED column is a member of a multi-column inline group of the target table *)
Definition known_incremental_group (baseline models : schema) : bool :=
  existsb (fun mt =>
    match table_named (t_name mt) baseline with
    | None => false
    | Some bt => existsb (in_multi_group mt)
                   (filter (fun c => negb (mem_str (c_name c) (map c_name (t_columns bt)))) (t_columns mt))
    end) models.
Definition known_C01_incremental_group (c : m1_case) : bool := known_incremental_group (baseline_of c) (k_models c).
Definition known_C06_incremental_group (c : m1_case) : bool := known_incremental_group (baseline_of c) (k_models c).

(* C06, further class: the baseline holds the same constraint twice (declared twice in a model, or left
   behind twice by an earlier shrink): the planner removes it once per copy, apply_action removes all
   copies at the first RemoveConstraint, the second one targets nothing *)
Fixpoint has_dup_constraint (l : list table_constraint) : bool :=
  match l with [] => false | k :: r => (contains_constraint k r || has_dup_constraint r)%bool end.
Definition known_C06_duplicate_constraint (c : m1_case) : bool :=
  existsb (fun t => has_dup_constraint (t_constraints (normalized_or_self t))) (baseline_of c).

(* C06, further class: the tables dropped by the plan reference each other in a cycle; no drop order keeps
   every intermediate schema consistent unless the foreign keys are removed first, which the planner never does *)
Definition known_C06_delete_cycle (c : m1_case) : bool :=
  let b := baseline_of c in
  let dropped := filter (fun t => negb (has_table (t_name t) (k_models c))) (map normalized_or_self b) in
  match topo_sort dropped with TopoCycle => true | _ => false end.

(* variant of reference-added-later that also covers self references *)
Definition known_C06_ref_added_later_self (c : m1_case) : bool :=
  existsb (fun mt =>
    existsb (fun k =>
      match k with
      | CForeignKey _ _ rt rcols _ _ =>
          match table_named rt (baseline_of c), table_named rt (k_models c) with
          | Some rb, Some rm =>
              existsb (fun rc => (negb (mem_str rc (map c_name (t_columns rb))) && mem_str rc (map c_name (t_columns rm)))%bool) rcols
          | _, _ => false
          end
      | _ => false
      end) (t_constraints (normalized_or_self mt))) (k_models c).

(* C14 / D10: the planned actions carry an inline foreign_key inside a CreateTable / AddColumn column;
   MigrationAction::with_prefix does not rewrite it *)
Definition known_C14_inline_fk (c : m1_case) : bool :=
  negb (forallb no_inline_fk (p_actions (new_plan_of c))).

(* C06, inherited: the replayed baseline is ALREADY inconsistent because an earlier step hit a known
   defect (a composite foreign key shrunk by DeleteColumn keeps all its ref_columns: arity mismatch) *)
Definition known_C06_inherited_inconsistent_baseline (c : m1_case) : bool := negb (consistent (baseline_of c)).

Definition model_closes_gap (c : m1_case) : bool := closes_gap (baseline_of c) (k_models c).
Definition model_stepwise_ok (c : m1_case) : bool := plan_stepwise_ok (baseline_of c) (k_models c).
