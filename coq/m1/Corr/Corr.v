(* Correspondence driver for layer M1: the harness prints inputs and the implementation's outputs
   as terms of these types; [check_case] recomputes every output with the model and returns the
   ids of the sub-checks that differ.  No proofs here. *)
From VV.M1 Require Export Validate Revision Oracles.

Inductive ek :=
| EkTableExists (t : string) | EkTableNotFound (t : string)
| EkColumnExists (t c : string) | EkColumnNotFound (t c : string)
| EkTableValidation
| EkV (e : validate_error)
| EkOther (tag : string).

Definition ek_of_planner (e : planner_error) : ek :=
  match e with
  | TableExists t => EkTableExists t
  | TableNotFound t => EkTableNotFound t
  | ColumnExists t c => EkColumnExists t c
  | ColumnNotFound t c => EkColumnNotFound t c
  | TableValidation => EkTableValidation
  end.
Definition ek_of_plan (e : plan_error) : ek :=
  match e with
  | PlanReplay e => ek_of_planner e
  | PlanDiff DiffTableValidation | PlanDiff DiffCycle => EkTableValidation
  | PlanDiff DiffOutOfFuel => EkOther "OutOfFuel"
  | PlanDiff DiffPanic => EkOther "Panic"
  end.

Definition validate_error_eq_dec (x y : validate_error) : {x = y} + {x <> y}.
Proof. decide equality; auto using string_dec, Z.eq_dec. Defined.
Definition ek_eq_dec (x y : ek) : {x = y} + {x <> y}.
Proof. decide equality; auto using string_dec, validate_error_eq_dec. Defined.
Definition table_error_eq_dec (x y : table_error) : {x = y} + {x <> y}.
Proof. decide equality; auto using string_dec. Defined.
Definition load_error_eq_dec (x y : load_error) : {x = y} + {x <> y}.
Proof. decide equality; auto using table_error_eq_dec, validate_error_eq_dec. Defined.

Definition res_eqb {A E} (da : forall x y : A, {x = y} + {x <> y}) (de : forall x y : E, {x = y} + {x <> y})
  (a b : result A E) : bool :=
  match a, b with
  | Ok x, Ok y => dec_b da x y
  | Err x, Err y => dec_b de x y
  | _, _ => false
  end.
Definition unit_eq_dec (x y : unit) : {x = y} + {x <> y}. Proof. decide equality. Defined.
Definition map_err {A E F} (f : E -> F) (r : result A E) : result A F :=
  match r with Ok a => Ok a | Err e => Err (f e) end.

Record m1_case := mkCase {
  k_models : schema;
  k_history : list plan;
  k_norm : list (result table_def table_error);
  k_load : result unit load_error;
  k_replay : result schema ek;
  k_plan : result (N * list action) ek;
  k_missing : list (nat * string * string);
  k_missing_enum : list (nat * list string);
  k_fill : fill_outcome;
  k_validate : list (result unit validate_error);   (* validate_migration_plan of each history plan, then of the filled new plan, then of the filled plan with corrupted fill values *)
  k_prefixed : list action;                          (* new plan .with_prefix("app_"), then the filled new plan .with_prefix("app_") *)
  k_validate_raw : result unit validate_error;       (* validate_migration_plan of the new plan BEFORE any fill value is supplied *)
}.

Definition model_plan (c : m1_case) : result (N * list action) ek :=
  match plan_next (k_models c) (k_history c) with
  | Ok p => Ok (p_version p, p_actions p)
  | Err e => Err (ek_of_plan e)
  end.

Definition new_plan_of (c : m1_case) : plan :=
  match plan_next (k_models c) (k_history c) with Ok p => p | Err _ => mkPlan "" None None 0 [] end.
Definition baseline_of (c : m1_case) : schema :=
  match replay (k_history c) with Ok s => s | Err _ => [] end.

Definition fill_outcome_eq_dec (x y : fill_outcome) : {x = y} + {x <> y}.
Proof. decide equality; apply list_eq_dec, action_eq_dec. Defined.

(* every fill value of the plan replaced by a value that is no label of any generated enum: validate_migration_plan must check the
   fill value of an enum column whether or not the column also has a default *)
Definition corrupt_fill (a : action) : action :=
  match a with
  | AddColumn t col _ => AddColumn t col (Some "'zzz_not_a_label'")
  | ModifyColumnNullable t col n _ => ModifyColumnNullable t col n (Some "'zzz_not_a_label'")
  | _ => a
  end.

Definition check_case (c : m1_case) : list nat :=
  let np := new_plan_of c in
  let filled := match revision_fill np (baseline_of c) with Filled a => a | Refused => p_actions np end in
  (if list_eqb (res_eqb table_def_eq_dec table_error_eq_dec) (map normalize (k_models c)) (k_norm c)
   then [] else [1%nat])
  ++ (if res_eqb unit_eq_dec load_error_eq_dec (loader_check (k_models c)) (k_load c) then [] else [2%nat])
  ++ (if res_eqb schema_eq_dec ek_eq_dec (map_err ek_of_planner (replay (k_history c))) (k_replay c) then [] else [3%nat])
  ++ (if res_eqb (pair_eq_dec N.eq_dec (list_eq_dec action_eq_dec)) ek_eq_dec (model_plan c) (k_plan c) then [] else [4%nat])
  ++ (if dec_b (list_eq_dec (pair_eq_dec (pair_eq_dec Nat.eq_dec string_dec) string_dec))
          (find_missing_fill_with np (baseline_of c)) (k_missing c) then [] else [5%nat])
  ++ (if dec_b (list_eq_dec (pair_eq_dec Nat.eq_dec (list_eq_dec string_dec)))
          (find_missing_enum_fill_with np (baseline_of c)) (k_missing_enum c) then [] else [6%nat])
  ++ (if dec_b fill_outcome_eq_dec (revision_fill np (baseline_of c)) (k_fill c) then [] else [7%nat])
  ++ (if list_eqb (res_eqb unit_eq_dec validate_error_eq_dec)
          (map validate_migration_plan (k_history c)
           ++ [validate_migration_plan (mkPlan "" None None 0 filled);
               validate_migration_plan (mkPlan "" None None 0 (map corrupt_fill filled))]) (k_validate c) then [] else [8%nat])
  ++ (if dec_b (list_eq_dec action_eq_dec) (map (action_with_prefix "app_") (p_actions np ++ filled)) (k_prefixed c)
      then [] else [9%nat])
  ++ (if res_eqb unit_eq_dec validate_error_eq_dec (validate_migration_plan np) (k_validate_raw c) then [] else [10%nat]).

Fixpoint mismatches_from (i : nat) (cs : list m1_case) : list (nat * list nat) :=
  match cs with
  | [] => []
  | c :: r => match check_case c with
              | [] => mismatches_from (S i) r
              | l => (i, l) :: mismatches_from (S i) r
              end
  end.
