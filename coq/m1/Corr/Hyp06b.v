(* Decidable hypothesis of C06_core (Proofs/CoreAlterP.v, Properties/C06.v): like c06_change (Hyp06.v), but
   the group of a common table may be of the C01 "mix" class — added columns with private inline unique /
   index / foreign_key declarations, dropped columns together with the constraints over them alone, removed
   foreign keys (their inline declarations are cleared) and removed constraints no inline declaration depends
   on.  No proofs here. *)
From VV.M1 Require Export Hyp06.

Definition c06_table_core (b tn : table_def) : bool :=
  (mix_only b tn && negb (has_dup_constraint (t_constraints b)) && nodup_str (colnames b)
   && addc_ready (colnames b) (table_group (t_name b) b tn))%bool.

Definition c06_core (B T : schema) : bool :=
  (consistent B && loader_accepts T && diff_ok B T
   && common_tables c06_table_core B T && c06_cross B T)%bool.

Definition hyp_C06_core (c : m1_case) : bool :=
  (baseline_ok (baseline_of c) && c06_core (baseline_of c) (k_models c))%bool.
