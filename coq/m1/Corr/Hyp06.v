(* Decidable hypothesis of the positive C06 theorem for plans that alter common tables
   (Proofs/AlterP.v, Properties/C06.v: C06_core_partial3), on (baseline, models) pairs and lifted to
   correspondence cases.  No proofs here. *)
From VV.M1 Require Export Hyp.

Definition norm_models (T : schema) : schema :=
  match normalize_all T with Ok tn => tn | Err _ => [] end.

(* columns of the baseline table that the models no longer have *)
Definition deleted_cols (b tn : table_def) : list string :=
  filter (fun x => negb (mem_str x (colnames tn))) (colnames b).

(* walking through a table's actions: every AddConstraint only names columns that exist at that point *)
Fixpoint addc_ready (cols : list string) (L : list action) : bool :=
  match L with
  | [] => true
  | AddColumn _ c _ :: r => addc_ready (c_name c :: cols) r
  | DeleteColumn _ x :: r => addc_ready (filter (fun y => negb (String.eqb y x)) cols) r
  | AddConstraint _ k :: r =>
      (forallb (fun c => mem_str c cols) (constraint_columns k) && addc_ready cols r)%bool
  | _ :: r => addc_ready cols r
  end.

(* per common table: the group is of the C01 "change" class, the baseline table holds no constraint twice,
   its column names are distinct, and each added constraint finds its columns *)
Definition c06_table (b tn : table_def) : bool :=
  (change_only b tn && negb (has_dup_constraint (t_constraints b)) && nodup_str (colnames b)
   && addc_ready (colnames b) (table_group (t_name b) b tn))%bool.

Definition survives (T : schema) (b : table_def) : bool := has_table (t_name b) T.

Definition c06_cross (B T : schema) : bool :=
  let Tn := norm_models T in
  ((* a surviving table does not reference a dropped one (D2) *)
   forallb (fun b => (negb (survives T b) || forallb (fun rt => has_table rt T) (fk_targets b))%bool) B
   (* the dropped tables have no FK cycle *)
   && match topo_sort (filter (fun b => negb (survives T b)) B) with TopoOk _ => true | _ => false end
   (* a dropped column of a surviving table is not referenced by any remaining or new foreign key *)
   && forallb (fun tn =>
        match find_t (t_name tn) B with
        | None => true
        | Some b =>
            forallb (fun x =>
              forallb (fun u =>
                forallb (fun k => match k with
                                  | CForeignKey _ _ rt rcols _ _ =>
                                      negb (String.eqb rt (t_name b) && mem_str x rcols)
                                  | _ => true
                                  end) (t_constraints u))
                (filter (survives T) B ++ Tn))
              (deleted_cols b tn)
        end) Tn
   (* every foreign key of the models that points at a baseline table names columns that table already has;
      only new tables may point at new tables *)
   && forallb (fun u =>
        forallb (fun k => match k with
                          | CForeignKey _ _ rt rcols _ _ =>
                              match find_t rt B with
                              | Some rb => forallb (fun rc => mem_str rc (colnames rb)) rcols
                              | None => negb (has_table (t_name u) B)
                              end
                          | _ => true
                          end) (t_constraints u)) Tn)%bool.

Definition c06_change (B T : schema) : bool :=
  (baseline_ok B && consistent B && loader_accepts T && diff_ok B T
   && common_tables c06_table B T && c06_cross B T)%bool.

Definition hyp_C06_change (c : m1_case) : bool := c06_change (baseline_of c) (k_models c).
