(* Decidable hypotheses of the positive C01 theorems (Proofs/C01P.v, Properties/C01.v), on
   (baseline, models) pairs and lifted to correspondence cases.  No proofs here. *)
From VV.M1 Require Export Known.

Definition find_t (n : string) (s : schema) : option table_def :=
  find (fun t => String.eqb (t_name t) n) s.

(* the table is its own normal form *)
Definition is_fixpoint (t : table_def) : bool :=
  match normalize t with Ok n => dec_b table_def_eq_dec n t | Err _ => false end.

(* what every replayed baseline of a covered history satisfies *)
Definition baseline_ok (B : schema) : bool :=
  (nodup_str (map t_name B) && forallb is_fixpoint B)%bool.

Definition diff_ok (B T : schema) : bool :=
  match diff_actions B T with Ok _ => true | Err _ => false end.

Definition is_attr_action (a : action) : bool :=
  match a with
  | ModifyColumnType _ _ _ _ | ModifyColumnNullable _ _ _ _
  | ModifyColumnDefault _ _ _ | ModifyColumnComment _ _ _ => true
  | _ => false
  end.

(* DefaultValue::to_sql of the column's default is not the empty string (only DFloat "" renders
   empty, which f64::to_string never produces) *)
Definition default_renders (c : column_def) : bool :=
  match c_default c with Some d => negb (String.eqb (default_to_sql d) "") | None => true end.

(* b: baseline table, tn: normalised model table of the same name.  Either the planner sees no
   difference, or every action of the table's group changes a type / nullability / default / comment
   of an existing column (so: same column names, mutually included normalised constraints), the
   baseline table's column names are distinct and the model's defaults render non-empty *)
Definition attrs_only (b tn : table_def) : bool :=
  match table_group (t_name b) b tn with
  | [] => true
  | g => (forallb is_attr_action g && nodup_str (colnames b)
          && forallb default_renders (t_columns tn))%bool
  end.
(* a column without inline declarations *)
Definition plain (c : column_def) : bool :=
  match c_primary_key c, c_unique c, c_index c, c_foreign_key c with
  | None, None, None, None => true
  | _, _, _, _ => false
  end.
Definition is_grow_action (a : action) : bool :=
  match a with
  | ModifyColumnType _ _ _ _ | ModifyColumnNullable _ _ _ _
  | ModifyColumnDefault _ _ _ | ModifyColumnComment _ _ _ => true
  | AddConstraint _ _ => true
  | AddColumn _ c _ => plain c
  | _ => false
  end.
(* like attrs_only, and the group may also add constraints and add columns that carry no inline
   declaration (nothing is dropped: no DeleteColumn, no RemoveConstraint) *)
Definition grow_only (b tn : table_def) : bool :=
  match table_group (t_name b) b tn with
  | [] => true
  | g => (forallb is_grow_action g && nodup_str (colnames b)
          && forallb default_renders (t_columns tn))%bool
  end.
Definition unchanged (b tn : table_def) : bool :=
  match table_group (t_name b) b tn with [] => true | _ => false end.

Definition common_tables (p : table_def -> table_def -> bool) (B T : schema) : bool :=
  forallb (fun t => match find_t (t_name t) B with
                    | None => true
                    | Some b => match normalize t with Ok tn => p b tn | Err _ => false end
                    end) T.

(* ---------- per-table semantics of actions (used by the proofs and by c01_local) ---------- *)
(* the per-table function of every action that goes through update_table *)
Definition table_fn (a : action) (t : table_def) : result table_def planner_error :=
  match a with
  | AddColumn table column _ =>
      if has_column (c_name column) t then Err (ColumnExists table (c_name column))
      else match normalize (mkTable (t_name t) (t_description t) (t_columns t ++ [column]) (t_constraints t)) with
           | Err _ => Err TableValidation
           | Ok n => Ok n
           end
  | RenameColumn table from to =>
      match update_first_col from (set_name to) (t_columns t) with
      | None => Err (ColumnNotFound table from)
      | Some cols => Ok (mkTable (t_name t) (t_description t) cols
                           (map (rename_column_in_constraint from to) (t_constraints t)))
      end
  | DeleteColumn table column =>
      if has_column column t then
        Ok (mkTable (t_name t) (t_description t)
              (filter (fun c => negb (String.eqb (c_name c) column)) (t_columns t))
              (drop_column_from_constraints column (t_constraints t)))
      else Err (ColumnNotFound table column)
  | ModifyColumnType table column new_type _ => update_column table column (set_type new_type) t
  | ModifyColumnNullable table column nullable _ => update_column table column (set_nullable nullable) t
  | ModifyColumnDefault table column new_default =>
      update_column table column (set_default (option_map default_of_string new_default)) t
  | ModifyColumnComment table column new_comment => update_column table column (set_comment new_comment) t
  | AddConstraint table k =>
      if contains_constraint k (t_constraints t) then Ok t
      else Ok (mkTable (t_name t) (t_description t) (t_columns t) (t_constraints t ++ [k]))
  | RemoveConstraint table k =>
      Ok (mkTable (t_name t) (t_description t)
            (clear_inline table k (t_columns t))
            (filter (fun c => negb (constraint_eqb c k)) (t_constraints t)))
  | _ => Ok t
  end.

Definition act_table (a : action) : option string :=
  match a with
  | CreateTable t _ _ | DeleteTable t | AddColumn t _ _ | RenameColumn t _ _ | DeleteColumn t _
  | ModifyColumnType t _ _ _ | ModifyColumnNullable t _ _ _ | ModifyColumnDefault t _ _
  | ModifyColumnComment t _ _ | AddConstraint t _ | RemoveConstraint t _ => Some t
  | RenameTable _ _ | RawSql _ => None
  end.
Definition on_table (n : string) (a : action) : bool :=
  match act_table a with Some t => String.eqb t n | None => false end.

(* what an action does to the table registered under its name (None: no such table) *)
Definition apply_table (o : option table_def) (a : action) : result (option table_def) planner_error :=
  match a with
  | CreateTable table columns constraints =>
      match o with
      | Some _ => Err (TableExists table)
      | None => match normalize (mkTable table None columns constraints) with
                | Err _ => Err TableValidation
                | Ok n => Ok (Some n)
                end
      end
  | DeleteTable table => match o with Some _ => Ok None | None => Err (TableNotFound table) end
  | RenameTable _ _ | RawSql _ => Ok o
  | _ => match o with
         | None => Err (TableNotFound "")
         | Some t => match table_fn a t with Ok t' => Ok (Some t') | Err e => Err e end
         end
  end.
Fixpoint proj_all (o : option table_def) (l : list action) : result (option table_def) planner_error :=
  match l with
  | [] => Ok o
  | a :: r => match apply_table o a with Ok o' => proj_all o' r | Err e => Err e end
  end.


(* general step: tables created / dropped freely, surviving tables unchanged or attribute-modified *)
Definition c01_step (B T : schema) : bool :=
  (baseline_ok B && nodup_str (map t_name T) && diff_ok B T && common_tables attrs_only B T)%bool.

(* what is asked of the models at one step, given a per-table condition p *)
Definition c01_models (p : table_def -> table_def -> bool) (B T : schema) : bool :=
  (nodup_str (map t_name T) && diff_ok B T && common_tables p B T)%bool.
(* tables created / dropped freely; surviving tables unchanged, attribute-modified, or grown by plain
   columns and constraints *)
Definition c01_grow (B T : schema) : bool := (baseline_ok B && c01_models grow_only B T)%bool.

(* ---------- third rung: columns may be dropped, table-level constraints may be removed ---------- *)
(* every column list of the constraint is non-empty (what validate_schema asks of a model) *)
Definition cons_ok (k : table_constraint) : bool :=
  match k with
  | CForeignKey _ cols _ rcols _ _ => (nonempty cols && nonempty rcols)%bool
  | CCheck _ _ => true
  | _ => nonempty (constraint_columns k)
  end.
(* the name occurs in the constraint's columns or (quirk of drop_column_from_constraint) in the referenced columns *)
Definition mentions (x : string) (k : table_constraint) : bool :=
  (mem_str x (constraint_columns k)
   || match k with CForeignKey _ _ _ rcols _ _ => mem_str x rcols | _ => false end)%bool.
(* no column of the table carries an inline declaration of the constraint's kind: the constraint is
   purely table-level, RemoveConstraint clears nothing and normalisation cannot bring it back *)
Definition removable (cols : list column_def) (k : table_constraint) : bool :=
  match k with
  | CPrimaryKey _ _ => forallb (fun c => is_none (c_primary_key c)) cols
  | CUnique _ _ => forallb (fun c => is_none (c_unique c)) cols
  | CForeignKey _ _ _ _ _ _ => forallb (fun c => is_none (c_foreign_key c)) cols
  | CIndex _ _ => forallb (fun c => is_none (c_index c)) cols
  | CCheck _ _ => true
  end.
Definition is_change_action (b tn : table_def) (a : action) : bool :=
  match a with
  | ModifyColumnType _ _ _ _ | ModifyColumnNullable _ _ _ _
  | ModifyColumnDefault _ _ _ | ModifyColumnComment _ _ _ => true
  | AddConstraint _ _ => true
  | AddColumn _ c _ => plain c
  | DeleteColumn _ x =>
      (forallb (fun c => (negb (String.eqb (c_name c) x) || plain c)%bool) (t_columns b)
       && forallb (fun k => negb (mentions x k)) (t_constraints b ++ t_constraints tn))%bool
  | RemoveConstraint _ k => removable (t_columns b) k
  | _ => false
  end.
(* like grow_only, and the group may drop plain columns that no constraint of either side mentions and
   remove constraints of a kind no column of the baseline table declares inline *)
Definition change_only (b tn : table_def) : bool :=
  match table_group (t_name b) b tn with
  | [] => true
  | g => (forallb (is_change_action b tn) g && nodup_str (colnames b)
          && forallb default_renders (t_columns tn)
          && forallb cons_ok (t_constraints b ++ t_constraints tn))%bool
  end.
Definition c01_change (B T : schema) : bool := (baseline_ok B && c01_models change_only B T)%bool.

Definition c01_first (B T : schema) : bool :=
  match B with [] => (nodup_str (map t_name T) && diff_ok [] T)%bool | _ => false end.

Definition c01_tables_only (B T : schema) : bool :=
  (baseline_ok B && nodup_str (map t_name T) && diff_ok B T && common_tables unchanged B T)%bool.

Definition same_table_names (B T : schema) : bool :=
  (forallb (fun t => has_table (t_name t) B) T && forallb (fun b => has_table (t_name b) T) B)%bool.
Definition c01_column_attrs (B T : schema) : bool :=
  (same_table_names B T && c01_step B T)%bool.

(* ---------- reduction to single tables ---------- *)
(* the subsequence of the plan that names table n, run on the baseline's table n alone, ends in a
   normalisation fix-point for which the planner sees no difference to the normalised model table n
   (or in no table when the models have none) *)
Definition local_ok (B Tn : schema) (acts : list action) (n : string) : bool :=
  match proj_all (find_t n B) (filter (on_table n) acts) with
  | Err _ => false
  | Ok o =>
      match o, find_t n Tn with
      | None, None => true
      | Some t', Some tn => (String.eqb (t_name t') n && is_fixpoint t' && unchanged t' tn)%bool
      | _, _ => false
      end
  end.
Definition c01_local (B T : schema) : bool :=
  (baseline_ok B && nodup_str (map t_name T) &&
   match diff_actions B T, normalize_all T with
   | Ok acts, Ok Tn => forallb (local_ok B Tn acts) (map t_name B ++ map t_name T)
   | _, _ => false
   end)%bool.

(* ---------- fourth rung: added columns may carry inline unique / index / foreign_key declarations ---------- *)
(* the group keys a column declares inline; the constraints normalisation derives from the column when
   it is the only member of each of its groups; inline_ok: no inline primary key, keys not repeated, not
   shared with any other column of either side, the foreign key parses, and the derived constraints are
   among the target's normalised constraints (so the planner's AddConstraint is skipped by `contains`) *)
Definition sba_keys (auto : string) (o : option str_or_bool_or_array) : list string :=
  match o with Some (SStr n) => [n] | Some (SBool true) => [auto] | Some (SArr l) => l | _ => [] end.
Definition ukeys (c : column_def) : list string := sba_keys (auto_key (c_name c)) (c_unique c).
Definition ikeys (c : column_def) : list string := sba_keys (auto_key (c_name c)) (c_index c).
Definition fk_product (c : column_def) : list table_constraint :=
  match c_foreign_key c with
  | Some f => match fk_of_syntax (c_name c) f with
              | Ok (t, rc, od, ou) => [CForeignKey None [c_name c] t rc od ou]
              | Err _ => []
              end
  | None => []
  end.
Definition fk_parses (c : column_def) : bool :=
  match c_foreign_key c with
  | Some f => match fk_of_syntax (c_name c) f with Ok _ => true | Err _ => false end
  | None => true
  end.
Definition col_products (c : column_def) : list table_constraint :=
  map (fun key => CUnique (group_name key) [c_name c]) (ukeys c)
  ++ fk_product c
  ++ map (fun key => CIndex (group_name key) [c_name c]) (ikeys c).
Definition keys_free_b (col c : column_def) : bool :=
  (forallb (fun key => negb (mem_str key (ukeys col))) (ukeys c)
   && forallb (fun key => negb (mem_str key (ikeys col))) (ikeys c))%bool.
Definition inline_ok (b tn : table_def) (c : column_def) : bool :=
  (is_none (c_primary_key c) && nodup_str (ukeys c) && nodup_str (ikeys c) && fk_parses c
   && forallb (fun col => keys_free_b col c) (t_columns b)
   && forallb (fun col => (String.eqb (c_name col) (c_name c) || keys_free_b col c)%bool) (t_columns tn)
   && forallb (fun k => contains_constraint k (t_constraints tn)) (col_products c))%bool.
Definition is_inl_action (b tn : table_def) (a : action) : bool :=
  match a with
  | ModifyColumnType _ _ _ _ | ModifyColumnNullable _ _ _ _
  | ModifyColumnDefault _ _ _ | ModifyColumnComment _ _ _ => true
  | AddConstraint _ _ => true
  | AddColumn _ c _ => inline_ok b tn c
  | _ => false
  end.
Definition inl_only (b tn : table_def) : bool :=
  match table_group (t_name b) b tn with
  | [] => true
  | g => (forallb (is_inl_action b tn) g && nodup_str (colnames b)
          && forallb default_renders (t_columns tn))%bool
  end.
(* ---------- fifth rung: the rungs mixed in one group ---------- *)
Definition sba_empty_arr (o : option str_or_bool_or_array) : bool :=
  match o with Some (SArr []) => true | _ => false end.
(* RemoveConstraint of k neither clears an inline declaration of the column nor removes the constraint
   that covers one of the column's own inline declarations *)
Definition col_safe_b (table : string) (col : column_def) (k : table_constraint) : bool :=
  match k with
  | CPrimaryKey _ _ => is_none (c_primary_key col)
  | CUnique name columns =>
      (is_none (c_unique col)
       || (negb (mem_str (c_name col) columns)
           && match name with Some cn => negb (mem_str cn (ukeys col)) | None => true end
           && negb (sba_empty_arr (c_unique col))))%bool
  | CForeignKey _ columns _ _ _ _ => (is_none (c_foreign_key col) || negb (mem_str (c_name col) columns))%bool
  | CCheck _ _ => true
  | CIndex name columns =>
      (is_none (c_index col)
       || (negb (mem_str (c_name col) columns)
           && match name with Some cn => negb (mem_str cn (ikeys col)) | None => true end
           && negb (sba_empty_arr (c_index col))
           && negb (opt_str_eqb name (Some (build_index_name table [c_name col] None)))))%bool
  end.
(* the name under which a unique / index constraint can cover an inline group *)
Definition cname (k : table_constraint) : option string :=
  match k with CUnique n _ | CIndex n _ => n | _ => None end.
Definition others_named (x : string) (cols : list column_def) (p : column_def -> bool) : bool :=
  forallb (fun col => (String.eqb (c_name col) x || p col)%bool) cols.
(* a constraint over the dropped column x alone, that is not the primary key, that the target does not
   keep, and whose name covers no inline group of another column: drop_column_from_constraints removes
   it with the column and the planner rightly emits no RemoveConstraint for it *)
Definition single_b (x : string) (cols : list column_def) (tcs : list table_constraint)
  (k : table_constraint) : bool :=
  (match constraint_columns k with [y] => String.eqb y x | _ => false end
   && negb (is_pk k) && negb (contains_constraint k tcs)
   && match cname k with
      | Some n => others_named x cols (fun col => (negb (mem_str n (ukeys col)) && negb (mem_str n (ikeys col)))%bool)
      | None => true
      end)%bool.
(* DeleteColumn x: the column has no inline primary key, shares no inline group key with another column
   of either side, and every constraint of either side that mentions x is such a single constraint *)
Definition del_ok_b (b tn : table_def) (x : string) : bool :=
  match find_column x b with
  | None => false
  | Some X =>
      let cols := t_columns b ++ t_columns tn in
      (is_none (c_primary_key X)
       && others_named x cols (fun col => keys_free_b col X)
       && forallb (fun k => (negb (mentions x k) || single_b x cols (t_constraints tn) k)%bool)
                  (t_constraints b ++ t_constraints tn))%bool
  end.
Definition is_fk (k : table_constraint) : bool :=
  match k with CForeignKey _ _ _ _ _ _ => true | _ => false end.
Definition is_mix_action (b tn : table_def) (a : action) : bool :=
  match a with
  | ModifyColumnType _ _ _ _ | ModifyColumnNullable _ _ _ _
  | ModifyColumnDefault _ _ _ | ModifyColumnComment _ _ _ => true
  | AddConstraint _ _ => true
  | AddColumn _ c _ => inline_ok b tn c
  | DeleteColumn _ x => del_ok_b b tn x
  | RemoveConstraint _ k =>
      (* a foreign key may always go (its inline declarations are cleared with it); other kinds must
         not touch an inline declaration of a baseline column; added columns must stay untouched *)
      ((is_fk k || forallb (fun col => col_safe_b (t_name b) col k) (t_columns b))
       && forallb (fun col => col_safe_b (t_name b) col k)
                  (filter (fun col => negb (mem_str (c_name col) (colnames b))) (t_columns tn)))%bool
  | _ => false
  end.
Definition mix_only (b tn : table_def) : bool :=
  match table_group (t_name b) b tn with
  | [] => true
  | g => (forallb (is_mix_action b tn) g && nodup_str (colnames b)
          && forallb default_renders (t_columns tn)
          && forallb cons_ok (t_constraints b ++ t_constraints tn))%bool
  end.
Definition core_only (b tn : table_def) : bool := (change_only b tn || inl_only b tn || mix_only b tn)%bool.
Definition c01_core (B T : schema) : bool := (baseline_ok B && c01_models core_only B T)%bool.

(* ---------- lifted to correspondence cases ---------- *)
Definition hyp_C01_first (c : m1_case) : bool := c01_first (baseline_of c) (k_models c).
Definition hyp_C01_tables_only (c : m1_case) : bool := c01_tables_only (baseline_of c) (k_models c).
Definition hyp_C01_column_attrs (c : m1_case) : bool := c01_column_attrs (baseline_of c) (k_models c).
Definition hyp_C01_step (c : m1_case) : bool := c01_step (baseline_of c) (k_models c).
Definition hyp_C01_local (c : m1_case) : bool := c01_local (baseline_of c) (k_models c).
Definition hyp_C01_grow (c : m1_case) : bool := c01_grow (baseline_of c) (k_models c).
Definition hyp_C01_change (c : m1_case) : bool := c01_change (baseline_of c) (k_models c).
Definition hyp_C01_inl (c : m1_case) : bool := (baseline_ok (baseline_of c) && c01_models inl_only (baseline_of c) (k_models c))%bool.
Definition hyp_C01_core (c : m1_case) : bool := c01_core (baseline_of c) (k_models c).
