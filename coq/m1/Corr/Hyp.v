(* Decidable hypotheses of the positive C01 theorems (Proofs/C01P.v, Properties/C01.v), on
   (baseline, models) pairs and lifted to correspondence cases.  No proofs here. *)
From VV.M1 Require Export Known.

Definition find_t (n : string) (s : schema) : option table_def :=
  find (fun t => String.eqb (t_name t) n) s.

(* the table is its own normal form *)
Definition is_fixpoint (t : table_def) : bool :=
  match normalize t with Ok n => dec_b table_def_eq_dec n t | Err _ => false end.

(* what every replayed baseline of a covered history satisfies *)
Definition baseline_ok (B : schema) : bool :=
  (nodup_str (map t_name B) && forallb is_fixpoint B)%bool.

Definition diff_ok (B T : schema) : bool :=
  match diff_actions B T with Ok _ => true | Err _ => false end.

Definition is_attr_action (a : action) : bool :=
  match a with
  | ModifyColumnType _ _ _ _ | ModifyColumnNullable _ _ _ _
  | ModifyColumnDefault _ _ _ | ModifyColumnComment _ _ _ => true
  | _ => false
  end.

(* DefaultValue::to_sql of the column's default is not the empty string (only DFloat "" renders
   empty, which f64::to_string never produces) *)
Definition default_renders (c : column_def) : bool :=
  match c_default c with Some d => negb (String.eqb (default_to_sql d) "") | None => true end.

(* b: baseline table, tn: normalised model table of the same name.  Either the planner sees no
   difference, or every action of the table's group changes a type / nullability / default / comment
   of an existing column (so: same column names, mutually included normalised constraints), the
   baseline table's column names are distinct and the model's defaults render non-empty *)
Definition attrs_only (b tn : table_def) : bool :=
  match table_group (t_name b) b tn with
  | [] => true
  | g => (forallb is_attr_action g && nodup_str (colnames b)
          && forallb default_renders (t_columns tn))%bool
  end.
Definition unchanged (b tn : table_def) : bool :=
  match table_group (t_name b) b tn with [] => true | _ => false end.

Definition common_tables (p : table_def -> table_def -> bool) (B T : schema) : bool :=
  forallb (fun t => match find_t (t_name t) B with
                    | None => true
                    | Some b => match normalize t with Ok tn => p b tn | Err _ => false end
                    end) T.

(* general step: tables created / dropped freely, surviving tables unchanged or attribute-modified *)
Definition c01_step (B T : schema) : bool :=
  (baseline_ok B && nodup_str (map t_name T) && diff_ok B T && common_tables attrs_only B T)%bool.

Definition c01_first (B T : schema) : bool :=
  match B with [] => (nodup_str (map t_name T) && diff_ok [] T)%bool | _ => false end.

Definition c01_tables_only (B T : schema) : bool :=
  (baseline_ok B && nodup_str (map t_name T) && diff_ok B T && common_tables unchanged B T)%bool.

Definition same_table_names (B T : schema) : bool :=
  (forallb (fun t => has_table (t_name t) B) T && forallb (fun b => has_table (t_name b) T) B)%bool.
Definition c01_column_attrs (B T : schema) : bool :=
  (same_table_names B T && c01_step B T)%bool.

(* ---------- lifted to correspondence cases ---------- *)
Definition hyp_C01_first (c : m1_case) : bool := c01_first (baseline_of c) (k_models c).
Definition hyp_C01_tables_only (c : m1_case) : bool := c01_tables_only (baseline_of c) (k_models c).
Definition hyp_C01_column_attrs (c : m1_case) : bool := c01_column_attrs (baseline_of c) (k_models c).
Definition hyp_C01_step (c : m1_case) : bool := c01_step (baseline_of c) (k_models c).
