(* C07 — equivalent models produce no migration; normalisation is idempotent and lossless.
   Pinned statements only: each theorem is closed by [exact] of a lemma proved in Proofs/. *)
From VV.M1 Require Import Normalize NormalizeP.

Theorem C07_normalize_idempotent : forall t n, normalize t = Ok n -> normalize n = Ok n.
Proof. exact normalize_idempotent. Qed.
Print Assumptions C07_normalize_idempotent.
Check C07_normalize_idempotent : forall t n, normalize t = Ok n -> normalize n = Ok n.

Theorem C07_normalize_lossless : forall t n, normalize t = Ok n ->
  t_name n = t_name t /\ t_description n = t_description t /\ t_columns n = t_columns t
  /\ exists ex, t_constraints n = t_constraints t ++ ex.
Proof. exact normalize_lossless. Qed.
Print Assumptions C07_normalize_lossless.
Check C07_normalize_lossless : forall t n, normalize t = Ok n ->
  t_name n = t_name t /\ t_description n = t_description t /\ t_columns n = t_columns t
  /\ exists ex, t_constraints n = t_constraints t ++ ex.

(* non-vacuity: a table with inline pk / unique / index / fk normalises *)
Example C07_nonvacuous :
  exists n, normalize (mkTable "post" None
     [mkCol "id" (TSimple Integer) false None None (Some (PKBool true)) None None None;
      mkCol "user_id" (TSimple Integer) false None None None (Some (SStr "k")) (Some (SBool true)) (Some (FKStr "user.id"))]
     []) = Ok n /\ List.length (t_constraints n) = 4%nat.
Proof. eexists. split; vm_compute; reflexivity. Qed.

(* a schema diffed against itself yields the empty plan (no hypothesis on names: duplicates allowed) *)
From VV.M1 Require Import Diff DiffP.

Theorem C07_diff_self_empty : forall S, (forall t, In t S -> exists n, normalize t = Ok n) ->
  diff_actions S S = Ok [].
Proof. exact diff_self_empty. Qed.
Print Assumptions C07_diff_self_empty.
Check C07_diff_self_empty : forall S, (forall t, In t S -> exists n, normalize t = Ok n) ->
  diff_actions S S = Ok [].

(* non-vacuity: the hypothesis holds for a two-table schema with inline pk / unique / index / fk *)
Example C07_diff_self_nonvacuous :
  let S := [mkTable "user" None
              [mkCol "id" (TSimple Integer) false None None (Some (PKBool true)) None None None] [];
            mkTable "post" None
              [mkCol "id" (TSimple Integer) false None None (Some (PKBool true)) None None None;
               mkCol "user_id" (TSimple Integer) false None None None (Some (SStr "k")) (Some (SBool true))
                     (Some (FKStr "user.id"))] []] in
  (forall t, In t S -> exists n, normalize t = Ok n) /\ diff_actions S S = Ok [].
Proof.
  cbv zeta. split; [|vm_compute; reflexivity].
  intros t [<-|[<-|[]]]; eexists; vm_compute; reflexivity.
Qed.

(* the plan is empty exactly when the two schemas are equivalent as the planner sees them
   (schema_equiv, col_equiv, table_equiv: Proofs/DiffEqP.v) *)
From VV.M1 Require Import DiffEqP.

Theorem C07_diff_empty_iff : forall A B, diff_actions A B = Ok [] <-> schema_equiv A B.
Proof. exact diff_empty_iff. Qed.
Print Assumptions C07_diff_empty_iff.
Check C07_diff_empty_iff : forall A B, diff_actions A B = Ok [] <->
  (exists An Bn, normalize_all A = Ok An /\ normalize_all B = Ok Bn
     /\ forall k, opt_rel
          (fun a b =>
             (forall c, opt_rel
                (fun x y => requires_migration (c_type x) (c_type y) = false
                            /\ needs_enum_rename (c_type x) (c_type y) = false
                            /\ c_nullable x = c_nullable y
                            /\ option_map default_to_sql (c_default x) = option_map default_to_sql (c_default y)
                            /\ c_comment x = c_comment y)
                (col_named c a) (col_named c b))
             /\ incl (t_constraints a) (t_constraints b)
             /\ incl (t_constraints b) (t_constraints a))
          (table_named k An) (table_named k Bn)).

(* list-level sufficient condition for schemas without duplicate table / column names *)
Theorem C07_equivalent_models_no_migration : forall A B, schema_equiv_l A B -> diff_actions A B = Ok [].
Proof. exact diff_equiv_l_empty. Qed.
Print Assumptions C07_equivalent_models_no_migration.
Check C07_equivalent_models_no_migration : forall A B,
  (NoDup (map t_name A) /\ NoDup (map t_name B)
   /\ (forall a, In a A -> exists b, In b B /\ t_name a = t_name b /\ tables_match a b)
   /\ (forall b, In b B -> exists a, In a A /\ t_name a = t_name b /\ tables_match a b))
  -> diff_actions A B = Ok [].

(* non-vacuity: two syntactically different models (inline pk / unique vs. table-level constraints,
   tables and columns listed in another order) are equivalent; a genuinely different one is not *)
Example C07_equiv_nonvacuous :
  let id_inline := mkCol "id" (TSimple Integer) false None None (Some (PKBool true)) None None None in
  let id_plain := mkCol "id" (TSimple Integer) false None None None None None None in
  let email_inline := mkCol "email" (TSimple Text) false None None None (Some (SBool true)) None None in
  let email_plain := mkCol "email" (TSimple Text) false None None None None None None in
  let A := [mkTable "user" None [id_inline; email_inline] []; mkTable "tag" None [id_plain] []] in
  let B := [mkTable "tag" None [id_plain] [];
            mkTable "user" None [email_plain; id_plain] [CPrimaryKey false ["id"]; CUnique None ["email"]]] in
  let C := [mkTable "tag" None [id_plain] []; mkTable "user" None [email_plain; id_plain] []] in
  A <> B /\ schema_equiv A B /\ ~ schema_equiv A C.
Proof.
  cbv zeta. split; [discriminate|split].
  - apply diff_empty_iff. vm_compute. reflexivity.
  - intro H. apply diff_empty_iff in H. vm_compute in H. discriminate.
Qed.
