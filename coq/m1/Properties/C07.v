(* C07 — equivalent models produce no migration; normalisation is idempotent and lossless.
   Pinned statements only: each theorem is closed by [exact] of a lemma proved in Proofs/. *)
From VV.M1 Require Import Normalize NormalizeP.

Theorem C07_normalize_idempotent : forall t n, normalize t = Ok n -> normalize n = Ok n.
Proof. exact normalize_idempotent. Qed.
Print Assumptions C07_normalize_idempotent.
Check C07_normalize_idempotent : forall t n, normalize t = Ok n -> normalize n = Ok n.

Theorem C07_normalize_lossless : forall t n, normalize t = Ok n ->
  t_name n = t_name t /\ t_description n = t_description t /\ t_columns n = t_columns t
  /\ exists ex, t_constraints n = t_constraints t ++ ex.
Proof. exact normalize_lossless. Qed.
Print Assumptions C07_normalize_lossless.
Check C07_normalize_lossless : forall t n, normalize t = Ok n ->
  t_name n = t_name t /\ t_description n = t_description t /\ t_columns n = t_columns t
  /\ exists ex, t_constraints n = t_constraints t ++ ex.

(* non-vacuity: a table with inline pk / unique / index / fk normalises *)
Example C07_nonvacuous :
  exists n, normalize (mkTable "post" None
     [mkCol "id" (TSimple Integer) false None None (Some (PKBool true)) None None None;
      mkCol "user_id" (TSimple Integer) false None None None (Some (SStr "k")) (Some (SBool true)) (Some (FKStr "user.id"))]
     []) = Ok n /\ List.length (t_constraints n) = 4%nat.
Proof. eexists. split; vm_compute; reflexivity. Qed.

(* a schema diffed against itself yields the empty plan (no hypothesis on names: duplicates allowed) *)
From VV.M1 Require Import Diff DiffP.

Theorem C07_diff_self_empty : forall S, (forall t, In t S -> exists n, normalize t = Ok n) ->
  diff_actions S S = Ok [].
Proof. exact diff_self_empty. Qed.
Print Assumptions C07_diff_self_empty.
Check C07_diff_self_empty : forall S, (forall t, In t S -> exists n, normalize t = Ok n) ->
  diff_actions S S = Ok [].

(* non-vacuity: the hypothesis holds for a two-table schema with inline pk / unique / index / fk *)
Example C07_diff_self_nonvacuous :
  let S := [mkTable "user" None
              [mkCol "id" (TSimple Integer) false None None (Some (PKBool true)) None None None] [];
            mkTable "post" None
              [mkCol "id" (TSimple Integer) false None None (Some (PKBool true)) None None None;
               mkCol "user_id" (TSimple Integer) false None None None (Some (SStr "k")) (Some (SBool true))
                     (Some (FKStr "user.id"))] []] in
  (forall t, In t S -> exists n, normalize t = Ok n) /\ diff_actions S S = Ok [].
Proof.
  cbv zeta. split; [|vm_compute; reflexivity].
  intros t [<-|[<-|[]]]; eexists; vm_compute; reflexivity.
Qed.

(* the plan is empty exactly when the two schemas are equivalent as the planner sees them
   (schema_equiv, col_equiv, table_equiv: Proofs/DiffEqP.v) *)
From VV.M1 Require Import DiffEqP.

Theorem C07_diff_empty_iff : forall A B, diff_actions A B = Ok [] <-> schema_equiv A B.
Proof. exact diff_empty_iff. Qed.
Print Assumptions C07_diff_empty_iff.
Check C07_diff_empty_iff : forall A B, diff_actions A B = Ok [] <->
  (exists An Bn, normalize_all A = Ok An /\ normalize_all B = Ok Bn
     /\ forall k, opt_rel
          (fun a b =>
             (forall c, opt_rel
                (fun x y => requires_migration (c_type x) (c_type y) = false
                            /\ needs_enum_rename (c_type x) (c_type y) = false
                            /\ c_nullable x = c_nullable y
                            /\ option_map default_to_sql (c_default x) = option_map default_to_sql (c_default y)
                            /\ c_comment x = c_comment y)
                (col_named c a) (col_named c b))
             /\ incl (t_constraints a) (t_constraints b)
             /\ incl (t_constraints b) (t_constraints a))
          (table_named k An) (table_named k Bn)).

(* list-level sufficient condition for schemas without duplicate table / column names *)
Theorem C07_equivalent_models_no_migration : forall A B, schema_equiv_l A B -> diff_actions A B = Ok [].
Proof. exact diff_equiv_l_empty. Qed.
Print Assumptions C07_equivalent_models_no_migration.
Check C07_equivalent_models_no_migration : forall A B,
  (NoDup (map t_name A) /\ NoDup (map t_name B)
   /\ (forall a, In a A -> exists b, In b B /\ t_name a = t_name b /\ tables_match a b)
   /\ (forall b, In b B -> exists a, In a A /\ t_name a = t_name b /\ tables_match a b))
  -> diff_actions A B = Ok [].

(* non-vacuity: two syntactically different models (inline pk / unique vs. table-level constraints,
   tables and columns listed in another order) are equivalent; a genuinely different one is not *)
Example C07_equiv_nonvacuous :
  let id_inline := mkCol "id" (TSimple Integer) false None None (Some (PKBool true)) None None None in
  let id_plain := mkCol "id" (TSimple Integer) false None None None None None None in
  let email_inline := mkCol "email" (TSimple Text) false None None None (Some (SBool true)) None None in
  let email_plain := mkCol "email" (TSimple Text) false None None None None None None in
  let A := [mkTable "user" None [id_inline; email_inline] []; mkTable "tag" None [id_plain] []] in
  let B := [mkTable "tag" None [id_plain] [];
            mkTable "user" None [email_plain; id_plain] [CPrimaryKey false ["id"]; CUnique None ["email"]]] in
  let C := [mkTable "tag" None [id_plain] []; mkTable "user" None [email_plain; id_plain] []] in
  A <> B /\ schema_equiv A B /\ ~ schema_equiv A C.
Proof.
  cbv zeta. split; [discriminate|split].
  - apply diff_empty_iff. vm_compute. reflexivity.
  - intro H. apply diff_empty_iff in H. vm_compute in H. discriminate.
Qed.

(* ====================================================================================== *)
(* The oracle's re-speller (harness/common/src/gener.rs: respell_table rules 1-6, respell_models;
   Model/Respell.v) preserves the schema: both plans are empty.  Proofs/RespellP.v *)
From VV.M1 Require Import Respell RespellP.
From Coq Require Import Permutation Relation_Operators.

(* one rewrite: same name, both spellings normalise, equivalent normal forms *)
Theorem C07_respell_step_match : forall t t',
  respell_step t t' -> (exists n, normalize t = Ok n) ->
  t_name t = t_name t' /\ exists n n', normalize t = Ok n /\ normalize t' = Ok n' /\ table_equiv n n'.
Proof. exact respell_step_match. Qed.
Print Assumptions C07_respell_step_match.
Check C07_respell_step_match : forall t t',
  respell_step t t' -> (exists n, normalize t = Ok n) ->
  t_name t = t_name t' /\ exists n n', normalize t = Ok n /\ normalize t' = Ok n'
    /\ ((forall k, opt_rel col_equiv (col_named k n) (col_named k n'))
        /\ incl (t_constraints n) (t_constraints n') /\ incl (t_constraints n') (t_constraints n)).

(* whole model sets: any number of rewrites per table, then a shuffle of the tables *)
Theorem C07_respell_equiv : forall A B,
  respell_schema A B ->
  (forall t, In t A -> exists n, normalize t = Ok n) ->
  NoDup (map t_name A) ->
  diff_actions A B = Ok [] /\ diff_actions B A = Ok [].
Proof. exact respell_equiv. Qed.
Print Assumptions C07_respell_equiv.
Check C07_respell_equiv : forall A B,
  (exists M, Forall2 (clos_refl_trans table_def respell_step) A M /\ Permutation M B) ->
  (forall t, In t A -> exists n, normalize t = Ok n) ->
  NoDup (map t_name A) ->
  diff_actions A B = Ok [] /\ diff_actions B A = Ok [].

(* ---------- one concrete, non-trivial instance per rewrite ---------- *)
Definition rcol (n : string) : column_def := mkCol n (TSimple Integer) false None None None None None None.
Definition both_empty (t t' : table_def) : Prop :=
  t <> t' /\ diff_actions [t] [t'] = Ok [] /\ diff_actions [t'] [t] = Ok [].
Ltac both_empty := split; [discriminate|split; vm_compute; reflexivity].

(* 1a: composite inline key with auto_increment, a `false` marker elsewhere, another constraint present *)
Example C07_ex_pk_to_table :
  let cols := [set_pk (Some (PKObj true)) (rcol "a"); set_pk (Some (PKBool false)) (rcol "b");
               set_pk (Some (PKBool true)) (rcol "c")] in
  let t := mkTable "t" None cols [CUnique None ["b"]] in
  let t' := mkTable "t" None [rcol "a"; set_pk (Some (PKBool false)) (rcol "b"); rcol "c"]
                    [CUnique None ["b"]; CPrimaryKey true ["a"; "c"]] in
  respell_step t t' /\ both_empty t t'.
Proof.
  cbv zeta. split; [|both_empty].
  exact (RS_pk_to_table "t" None
           [set_pk (Some (PKObj true)) (rcol "a"); set_pk (Some (PKBool false)) (rcol "b");
            set_pk (Some (PKBool true)) (rcol "c")] [CUnique None ["b"]] eq_refl eq_refl).
Qed.
(* 1b: the key sits between two other constraints; mixed spellings of a non-auto key *)
Example C07_ex_pk_to_inline :
  let t := mkTable "t" None [rcol "a"; rcol "b"; rcol "c"]
                   [CUnique None ["b"]; CPrimaryKey false ["a"; "c"]; CIndex None ["c"]] in
  let t' := mkTable "t" None [set_pk (Some (PKBool true)) (rcol "a"); rcol "b"; set_pk (Some (PKObj false)) (rcol "c")]
                    [CUnique None ["b"]; CIndex None ["c"]] in
  respell_step t t' /\ both_empty t t'.
Proof.
  cbv zeta. split; [|both_empty].
  refine (RS_pk_to_inline "t" None [rcol "a"; rcol "b"; rcol "c"]
            [set_pk (Some (PKBool true)) (rcol "a"); rcol "b"; set_pk (Some (PKObj false)) (rcol "c")]
            [CUnique None ["b"]] [CIndex None ["c"]] false ["a"; "c"]
            eq_refl eq_refl eq_refl eq_refl eq_refl _ _); [discriminate|].
  repeat constructor; cbn; eauto.
Qed.
(* 2: unique inline -> table level next to a NAMED group on the same column *)
Example C07_ex_unique_to_table :
  let b := set_unique (Some (SBool true)) (rcol "b") in
  let t := mkTable "t" None ([rcol "a"] ++ b :: [rcol "c"]) [CUnique (Some "n") ["b"]] in
  let t' := mkTable "t" None [rcol "a"; rcol "b"; rcol "c"] [CUnique (Some "n") ["b"]; CUnique None ["b"]] in
  respell_step t t' /\ both_empty t t'.
Proof.
  cbv zeta. split; [|both_empty].
  refine (RS_key_to_table KUnique "t" None [rcol "a"] (set_unique (Some (SBool true)) (rcol "b")) [rcol "c"]
            [CUnique (Some "n") ["b"]] eq_refl _ _).
  - intros [H|[]]. discriminate.
  - intros x [<-|[<-|[]]] [].
Qed.
(* 2: index table level -> inline, another column carries a composite named index *)
Example C07_ex_index_to_inline :
  let a := set_index (Some (SStr "ix")) (rcol "a") in
  let c := set_index (Some (SArr ["ix"; "iy"])) (rcol "c") in
  let t := mkTable "t" None ([a] ++ rcol "b" :: [c]) ([CIndex (Some "m") ["b"]] ++ CIndex None ["b"] :: []) in
  let t' := mkTable "t" None [a; set_index (Some (SBool true)) (rcol "b"); c] [CIndex (Some "m") ["b"]] in
  respell_step t t' /\ both_empty t t'.
Proof.
  cbv zeta. split; [|both_empty].
  refine (RS_key_to_inline KIndex "t" None [set_index (Some (SStr "ix")) (rcol "a")] (rcol "b")
            [set_index (Some (SArr ["ix"; "iy"])) (rcol "c")] [CIndex (Some "m") ["b"]] [] eq_refl _ eq_refl _).
  - intros [H|[]]. discriminate.
  - intros x [<-|[<-|[]]]; cbn; intuition discriminate.
Qed.
Example C07_ex_key_drop_false :
  let b := set_unique (Some (SBool false)) (rcol "b") in
  let t := mkTable "t" None ([rcol "a"] ++ b :: []) [] in
  let t' := mkTable "t" None [rcol "a"; rcol "b"] [] in
  respell_step t t' /\ both_empty t t'.
Proof.
  cbv zeta. split; [|both_empty]. exact (RS_key_drop_false KUnique "t" None [rcol "a"] (set_unique (Some (SBool false)) (rcol "b")) [] [] eq_refl).
Qed.
(* 3: object spelling with actions -> reference spelling; string spelling -> table level *)
Example C07_ex_fk_respell :
  let b := set_fk (Some (FKObj "u" ["id"] (Some Cascade) None)) (rcol "b") in
  let t := mkTable "t" None ([rcol "a"] ++ b :: []) [CForeignKey (Some "nm") ["a"] "u" ["id"] None None] in
  let t' := mkTable "t" None [rcol "a"; set_fk (Some (FKRef "u.id" (Some Cascade) None)) (rcol "b")]
                    [CForeignKey (Some "nm") ["a"] "u" ["id"] None None] in
  respell_step t t' /\ both_empty t t'.
Proof.
  cbv zeta. split; [|both_empty].
  refine (RS_fk_respell "t" None [rcol "a"] (set_fk (Some (FKObj "u" ["id"] (Some Cascade) None)) (rcol "b")) []
            [CForeignKey (Some "nm") ["a"] "u" ["id"] None None] (FKObj "u" ["id"] (Some Cascade) None)
            (FKRef ("u" +++ "." +++ "id") (Some Cascade) None)
            "u" ["id"] (Some Cascade) None eq_refl eq_refl eq_refl eq_refl _).
  apply (FR_ref "u" ["id"] (Some Cascade) None "id" eq_refl).
  repeat split; discriminate.
Qed.
Example C07_ex_fk_to_table :
  let b := set_fk (Some (FKStr "u.id")) (rcol "b") in
  let t := mkTable "t" None ([rcol "a"] ++ b :: []) [CForeignKey (Some "nm") ["a"] "u" ["id"] None None] in
  let t' := mkTable "t" None [rcol "a"; rcol "b"]
                    [CForeignKey (Some "nm") ["a"] "u" ["id"] None None; CForeignKey None ["b"] "u" ["id"] None None] in
  respell_step t t' /\ both_empty t t'.
Proof.
  cbv zeta. split; [|both_empty].
  exact (RS_fk_to_table "t" None [rcol "a"] (set_fk (Some (FKStr "u.id")) (rcol "b")) []
           [CForeignKey (Some "nm") ["a"] "u" ["id"] None None] (FKStr "u.id") "u" ["id"] None None
           eq_refl eq_refl eq_refl eq_refl).
Qed.
(* 4: a negative integer literal as a string *)
Example C07_ex_default :
  let b := set_default (Some (DInt (-12))) (rcol "b") in
  let t := mkTable "t" None ([rcol "a"] ++ b :: []) [] in
  let t' := mkTable "t" None [rcol "a"; set_default (Some (DStr "-12")) (rcol "b")] [] in
  respell_step t t' /\ both_empty t t'.
Proof.
  cbv zeta. split; [|both_empty].
  exact (RS_default "t" None [rcol "a"] (set_default (Some (DInt (-12))) (rcol "b")) [] [] (DInt (-12)) _
           eq_refl (DR_int (-12))).
Qed.
(* 5 *)
Example C07_ex_int_enum :
  let b := set_type (TEnum "e" (EVInteger [mkNum "x" 1; mkNum "y" 2])) (rcol "b") in
  let t := mkTable "t" None ([] ++ b :: []) [] in
  let t' := mkTable "t" None [set_type (TEnum "e_renamed" (EVInteger [mkNum "x_x" 1; mkNum "y_x" 2])) (rcol "b")] [] in
  respell_step t t' /\ both_empty t t'.
Proof.
  cbv zeta. split; [|both_empty].
  exact (RS_int_enum "t" None [] (set_type (TEnum "e" (EVInteger [mkNum "x" 1; mkNum "y" 2])) (rcol "b")) [] []
           "e" [mkNum "x" 1; mkNum "y" 2] "e_renamed" [mkNum "x_x" 1; mkNum "y_x" 2] eq_refl eq_refl eq_refl).
Qed.
(* 6 *)
Example C07_ex_perm :
  let t := mkTable "t" None [rcol "a"] [CUnique None ["a"]; CIndex None ["a"]] in
  let t' := mkTable "t" None [rcol "a"] [CIndex None ["a"]; CUnique None ["a"]] in
  respell_step t t' /\ both_empty t t'.
Proof. cbv zeta. split; [|both_empty]. apply RS_perm, perm_swap. Qed.
(* schema level: two rewrites of one table, the other table untouched, tables swapped *)
Example C07_ex_respell_schema :
  let u := mkTable "u" None [set_pk (Some (PKBool true)) (rcol "id")] [] in
  let p := mkTable "p" None ([rcol "id"] ++ set_fk (Some (FKStr "u.id")) (rcol "uid") :: []) [] in
  let p1 := mkTable "p" None [rcol "id"; set_fk (Some (FKObj "u" ["id"] None None)) (rcol "uid")] [] in
  let p2 := mkTable "p" None [rcol "id"; rcol "uid"] [CForeignKey None ["uid"] "u" ["id"] None None] in
  respell_schema [u; p] [p2; u]
  /\ (forall t, In t [u; p] -> exists n, normalize t = Ok n) /\ NoDup (map t_name [u; p]).
Proof.
  cbv zeta. split; [|split].
  - exists [mkTable "u" None [set_pk (Some (PKBool true)) (rcol "id")] [];
            mkTable "p" None [rcol "id"; rcol "uid"] [CForeignKey None ["uid"] "u" ["id"] None None]].
    split; [|apply perm_swap]. constructor; [apply rt_refl|constructor; [|constructor]].
    eapply rt_trans; apply rt_step.
    + refine (RS_fk_respell "p" None [rcol "id"] (set_fk (Some (FKStr "u.id")) (rcol "uid")) [] []
                (FKStr "u.id") (FKObj "u" ["id"] None None)
                "u" ["id"] None None eq_refl eq_refl eq_refl eq_refl _). apply FR_obj.
    + exact (RS_fk_to_table "p" None [rcol "id"] (set_fk (Some (FKObj "u" ["id"] None None)) (rcol "uid")) [] []
               (FKObj "u" ["id"] None None) "u" ["id"] None None eq_refl eq_refl eq_refl eq_refl).
  - intros t [<-|[<-|[]]]; eexists; vm_compute; reflexivity.
  - repeat constructor; cbn; intuition discriminate.
Qed.

(* ---------- corners where the Rust guards of the re-speller are NOT sufficient (excluded above by the
   hypotheses marked "tightening" in Model/Respell.v) ---------- *)
(* rule 2, inline -> table level, two columns of one name (no `count == 1` guard on that arm) *)
Example C07_respell_key_dupcol_refuted :
  let c := mkCol "a" (TSimple Integer) false None None None (Some (SBool true)) None None in
  diff_actions [mkTable "t" None [c; c] []] [mkTable "t" None [set_unique None c; c] [CUnique None ["a"]]]
  = Ok [RemoveConstraint "t" (CUnique None ["a"; "a"]); AddConstraint "t" (CUnique None ["a"])].
Proof. vm_compute. reflexivity. Qed.
(* rule 2, either direction: another column names its group "__auto_a" *)
Example C07_respell_key_autoname_refuted :
  let a := mkCol "a" (TSimple Integer) false None None None (Some (SBool true)) None None in
  let b := mkCol "b" (TSimple Integer) false None None None (Some (SStr "__auto_a")) None None in
  diff_actions [mkTable "t" None [a; b] []] [mkTable "t" None [set_unique None a; b] [CUnique None ["a"]]]
  = Ok [RemoveConstraint "t" (CUnique None ["a"; "b"]); AddConstraint "t" (CUnique None ["a"]);
        AddConstraint "t" (CUnique None ["b"])].
Proof. vm_compute. reflexivity. Qed.
(* rule 1b, a key constraint without columns *)
Example C07_respell_pk_empty_refuted :
  let c := mkCol "a" (TSimple Integer) false None None None None None None in
  diff_actions [mkTable "t" None [c] [CPrimaryKey false []]] [mkTable "t" None [c] []]
  = Ok [RemoveConstraint "t" (CPrimaryKey false [])].
Proof. vm_compute. reflexivity. Qed.
