(* C07 — equivalent models produce no migration; normalisation is idempotent and lossless.
   Pinned statements only: each theorem is closed by [exact] of a lemma proved in Proofs/. *)
From VV.M1 Require Import Normalize NormalizeP.

Theorem C07_normalize_idempotent : forall t n, normalize t = Ok n -> normalize n = Ok n.
Proof. exact normalize_idempotent. Qed.
Print Assumptions C07_normalize_idempotent.
Check C07_normalize_idempotent : forall t n, normalize t = Ok n -> normalize n = Ok n.

Theorem C07_normalize_lossless : forall t n, normalize t = Ok n ->
  t_name n = t_name t /\ t_description n = t_description t /\ t_columns n = t_columns t
  /\ exists ex, t_constraints n = t_constraints t ++ ex.
Proof. exact normalize_lossless. Qed.
Print Assumptions C07_normalize_lossless.
Check C07_normalize_lossless : forall t n, normalize t = Ok n ->
  t_name n = t_name t /\ t_description n = t_description t /\ t_columns n = t_columns t
  /\ exists ex, t_constraints n = t_constraints t ++ ex.

(* non-vacuity: a table with inline pk / unique / index / fk normalises *)
Example C07_nonvacuous :
  exists n, normalize (mkTable "post" None
     [mkCol "id" (TSimple Integer) false None None (Some (PKBool true)) None None None;
      mkCol "user_id" (TSimple Integer) false None None None (Some (SStr "k")) (Some (SBool true)) (Some (FKStr "user.id"))]
     []) = Ok n /\ List.length (t_constraints n) = 4%nat.
Proof. eexists. split; vm_compute; reflexivity. Qed.

(* a schema diffed against itself yields the empty plan (no hypothesis on names: duplicates allowed) *)
From VV.M1 Require Import Diff DiffP.

Theorem C07_diff_self_empty : forall S, (forall t, In t S -> exists n, normalize t = Ok n) ->
  diff_actions S S = Ok [].
Proof. exact diff_self_empty. Qed.
Print Assumptions C07_diff_self_empty.
Check C07_diff_self_empty : forall S, (forall t, In t S -> exists n, normalize t = Ok n) ->
  diff_actions S S = Ok [].

(* non-vacuity: the hypothesis holds for a two-table schema with inline pk / unique / index / fk *)
Example C07_diff_self_nonvacuous :
  let S := [mkTable "user" None
              [mkCol "id" (TSimple Integer) false None None (Some (PKBool true)) None None None] [];
            mkTable "post" None
              [mkCol "id" (TSimple Integer) false None None (Some (PKBool true)) None None None;
               mkCol "user_id" (TSimple Integer) false None None None (Some (SStr "k")) (Some (SBool true))
                     (Some (FKStr "user.id"))] []] in
  (forall t, In t S -> exists n, normalize t = Ok n) /\ diff_actions S S = Ok [].
Proof.
  cbv zeta. split; [|vm_compute; reflexivity].
  intros t [<-|[<-|[]]]; eexists; vm_compute; reflexivity.
Qed.
