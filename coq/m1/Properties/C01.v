(* C01 — a revision closes the gap.  Pinned statements only. *)
From VV.M1 Require Import Oracles WitnessP Hyp DiffEqP ApplyLocalP C01P C01HistP C01LocalP.

(* full-strength target (a definition, not a claim): for every loader-accepted model set and every
   baseline reached by replaying a tool-grown history, applying the planned (and filled) migration to
   the baseline succeeds and leaves no pending change in either direction *)
Definition C01_full_statement : Prop :=
  forall B T, loader_accepts T = true -> (exists H, replay H = Ok B) -> closes_gap B T = true.

(* the full statement is false of the faithful model: witness D1 (composite index, one member dropped) *)
Theorem C01_refuted : exists B T,
  loader_accepts B = true /\ loader_accepts T = true /\
  (exists H, replay H = Ok B /\ plan_next B [] = Ok (mkPlan "" None None 1 (flat_map p_actions H))) /\
  closes_gap B T = false /\ known_shrunk_constraint B T = true.
Proof.
  exists d1_base, d1_target. repeat split; try (vm_compute; reflexivity).
  exists d1_history. split; vm_compute; reflexivity.
Qed.
Print Assumptions C01_refuted.
Check C01_refuted : exists B T,
  loader_accepts B = true /\ loader_accepts T = true /\
  (exists H, replay H = Ok B /\ plan_next B [] = Ok (mkPlan "" None None 1 (flat_map p_actions H))) /\
  closes_gap B T = false /\ known_shrunk_constraint B T = true.

(* what stays in the baseline: the shrunk index the planner no longer names *)
Theorem C01_refuted_residue :
  match apply_all d1_base [DeleteColumn "t" "b"; RemoveConstraint "t" (CIndex None ["a"; "b"])] with
  | Ok b' => diff_actions b' d1_target = Ok [RemoveConstraint "t" (CIndex None ["a"])]
  | Err _ => False
  end.
Proof. exact d1_residue. Qed.
Print Assumptions C01_refuted_residue.
Check C01_refuted_residue :
  match apply_all d1_base [DeleteColumn "t" "b"; RemoveConstraint "t" (CIndex None ["a"; "b"])] with
  | Ok b' => diff_actions b' d1_target = Ok [RemoveConstraint "t" (CIndex None ["a"])]
  | Err _ => False
  end.

(* non-vacuity of the positive side: a two-table evolution on which the gap does close *)
Example C01_closes_somewhere : closes_gap d2_base d2_target = true.
Proof. exact d2_closes. Qed.

(* ====================================================================================== *)
(* positive theorems: all inputs, no size bound, each under a decidable hypothesis of Corr/Hyp.v *)

(* 1. apply_action only changes the table(s) its action names *)
Theorem C01_apply_local : forall s a s' n,
  apply_action s a = Ok s' -> ~ In n (action_tables a) ->
  find (fun t => String.eqb (t_name t) n) s' = find (fun t => String.eqb (t_name t) n) s.
Proof. exact apply_local. Qed.
Print Assumptions C01_apply_local.
Check C01_apply_local : forall s a s' n,
  apply_action s a = Ok s' -> ~ In n (action_tables a) ->
  find (fun t => String.eqb (t_name t) n) s' = find (fun t => String.eqb (t_name t) n) s.

(* what `vespertide revision` fills in never changes what replay computes *)
Theorem C01_fill_invisible : forall p B s, apply_all s (filled_actions p B) = apply_all s (p_actions p).
Proof. exact apply_all_filled. Qed.
Print Assumptions C01_fill_invisible.
Check C01_fill_invisible : forall p B s, apply_all s (filled_actions p B) = apply_all s (p_actions p).

(* the general step: tables created and dropped freely, every surviving table either unchanged for the
   planner or changed only in type / nullability / default / comment of existing columns *)
Theorem C01_step : forall B T, c01_step B T = true -> closes_gap B T = true.
Proof. exact C01P.C01_step. Qed.
Print Assumptions C01_step.
Check C01_step : forall B T, c01_step B T = true -> closes_gap B T = true.

(* the same with everything it establishes: the plan applies, the new baseline satisfies the invariant
   again, re-planning is empty in both directions *)
Theorem C01_step_invariant : forall B T, c01_step B T = true ->
  exists acts B',
    diff_actions B T = Ok acts /\ apply_all B acts = Ok B' /\ baseline_ok B' = true
    /\ diff_actions B' T = Ok [] /\ diff_actions T B' = Ok [].
Proof. exact c01_step_sound. Qed.
Print Assumptions C01_step_invariant.
Check C01_step_invariant : forall B T, c01_step B T = true ->
  exists acts B',
    diff_actions B T = Ok acts /\ apply_all B acts = Ok B' /\ baseline_ok B' = true
    /\ diff_actions B' T = Ok [] /\ diff_actions T B' = Ok [].

(* second rung of the step theorem: surviving tables may also gain constraints and gain columns that
   carry no inline declaration (nothing is dropped from them); c01_step is the special case *)
Theorem C01_grow : forall B T, c01_grow B T = true -> closes_gap B T = true.
Proof. exact C01HistP.C01_grow. Qed.
Print Assumptions C01_grow.
Check C01_grow : forall B T, c01_grow B T = true -> closes_gap B T = true.

Theorem C01_grow_invariant : forall B T, c01_grow B T = true ->
  exists acts B',
    diff_actions B T = Ok acts /\ apply_all B acts = Ok B' /\ baseline_ok B' = true
    /\ diff_actions B' T = Ok [] /\ diff_actions T B' = Ok [].
Proof. exact c01_grow_sound. Qed.
Print Assumptions C01_grow_invariant.
Check C01_grow_invariant : forall B T, c01_grow B T = true ->
  exists acts B',
    diff_actions B T = Ok acts /\ apply_all B acts = Ok B' /\ baseline_ok B' = true
    /\ diff_actions B' T = Ok [] /\ diff_actions T B' = Ok [].

Theorem C01_step_is_grow : forall B T, c01_step B T = true -> c01_grow B T = true.
Proof. exact c01_step_grow. Qed.
Print Assumptions C01_step_is_grow.
Check C01_step_is_grow : forall B T, c01_step B T = true -> c01_grow B T = true.

(* third rung: surviving tables may also lose plain columns that no constraint of either side mentions,
   and lose constraints of a kind that no column of the baseline table declares inline (c01_change) *)
Theorem C01_change : forall B T, c01_change B T = true -> closes_gap B T = true.
Proof. exact C01HistP.C01_change. Qed.
Print Assumptions C01_change.
Check C01_change : forall B T, c01_change B T = true -> closes_gap B T = true.

Theorem C01_change_invariant : forall B T, c01_change B T = true ->
  exists acts B',
    diff_actions B T = Ok acts /\ apply_all B acts = Ok B' /\ baseline_ok B' = true
    /\ diff_actions B' T = Ok [] /\ diff_actions T B' = Ok [].
Proof. exact c01_change_sound. Qed.
Print Assumptions C01_change_invariant.
Check C01_change_invariant : forall B T, c01_change B T = true ->
  exists acts B',
    diff_actions B T = Ok acts /\ apply_all B acts = Ok B' /\ baseline_ok B' = true
    /\ diff_actions B' T = Ok [] /\ diff_actions T B' = Ok [].

Theorem C01_change_histories : forall H B T,
  Grown c01_change_models H -> replay H = Ok B -> c01_change_models B T = true ->
  exists p B',
    plan_next T H = Ok p /\ closes_gap B T = true /\
    replay (H ++ [fill_plan p B]) = Ok B' /\ baseline_ok B' = true /\
    diff_actions B' T = Ok [] /\ diff_actions T B' = Ok [] /\
    plan_next T (H ++ [fill_plan p B])
      = Ok (mkPlan "" None None (next_version (H ++ [fill_plan p B])) []) /\
    Grown c01_change_models (H ++ [fill_plan p B]).
Proof. exact C01HistP.C01_change_histories. Qed.
Print Assumptions C01_change_histories.
Check C01_change_histories : forall H B T,
  Grown c01_change_models H -> replay H = Ok B -> c01_change_models B T = true ->
  exists p B',
    plan_next T H = Ok p /\ closes_gap B T = true /\
    replay (H ++ [fill_plan p B]) = Ok B' /\ baseline_ok B' = true /\
    diff_actions B' T = Ok [] /\ diff_actions T B' = Ok [] /\
    plan_next T (H ++ [fill_plan p B])
      = Ok (mkPlan "" None None (next_version (H ++ [fill_plan p B])) []) /\
    Grown c01_change_models (H ++ [fill_plan p B]).

(* C01_core, the largest proved fragment: per surviving table the group may mix attribute changes,
   added constraints, added columns whose inline unique / index / foreign_key declarations are private
   to them and already listed by the target, dropped columns together with the constraints over them
   alone, removed foreign keys (inline declarations are cleared with them) and removed constraints that no
   inline declaration depends on (core_only = change_only || inl_only || mix_only, Corr/Hyp.v) *)
Theorem C01_core : forall B T,
  baseline_ok B = true -> c01_core_models B T = true -> closes_gap B T = true.
Proof. exact C01HistP.C01_core. Qed.
Print Assumptions C01_core.
Check C01_core : forall B T,
  baseline_ok B = true -> c01_core_models B T = true -> closes_gap B T = true.

Theorem C01_core_invariant : forall B T, baseline_ok B = true -> c01_core_models B T = true ->
  exists acts B',
    diff_actions B T = Ok acts /\ apply_all B acts = Ok B' /\ baseline_ok B' = true
    /\ diff_actions B' T = Ok [] /\ diff_actions T B' = Ok [].
Proof. exact c01_core_sound. Qed.
Print Assumptions C01_core_invariant.
Check C01_core_invariant : forall B T, baseline_ok B = true -> c01_core_models B T = true ->
  exists acts B',
    diff_actions B T = Ok acts /\ apply_all B acts = Ok B' /\ baseline_ok B' = true
    /\ diff_actions B' T = Ok [] /\ diff_actions T B' = Ok [].

Theorem C01_core_history_baseline : forall H, Grown c01_core_models H ->
  exists B, replay H = Ok B /\ baseline_ok B = true.
Proof. exact C01HistP.C01_core_history_baseline. Qed.
Print Assumptions C01_core_history_baseline.
Check C01_core_history_baseline : forall H, Grown c01_core_models H ->
  exists B, replay H = Ok B /\ baseline_ok B = true.

Theorem C01_core_histories : forall H B T,
  Grown c01_core_models H -> replay H = Ok B -> c01_core_models B T = true ->
  exists p B',
    plan_next T H = Ok p /\ closes_gap B T = true /\
    replay (H ++ [fill_plan p B]) = Ok B' /\ baseline_ok B' = true /\
    diff_actions B' T = Ok [] /\ diff_actions T B' = Ok [] /\
    plan_next T (H ++ [fill_plan p B])
      = Ok (mkPlan "" None None (next_version (H ++ [fill_plan p B])) []) /\
    Grown c01_core_models (H ++ [fill_plan p B]).
Proof. exact C01HistP.C01_core_histories. Qed.
Print Assumptions C01_core_histories.
Check C01_core_histories : forall H B T,
  Grown c01_core_models H -> replay H = Ok B -> c01_core_models B T = true ->
  exists p B',
    plan_next T H = Ok p /\ closes_gap B T = true /\
    replay (H ++ [fill_plan p B]) = Ok B' /\ baseline_ok B' = true /\
    diff_actions B' T = Ok [] /\ diff_actions T B' = Ok [] /\
    plan_next T (H ++ [fill_plan p B])
      = Ok (mkPlan "" None None (next_version (H ++ [fill_plan p B])) []) /\
    Grown c01_core_models (H ++ [fill_plan p B]).

(* reduction to single tables: the plan closes the gap on the whole schema as soon as, for every table
   name, the subsequence of the plan naming that table, run on that table alone, ends in a
   normalisation fix-point the planner cannot tell from the model's table (c01_local, decidable);
   other tables never interfere, whatever the re-ordering passes did to the interleaving *)
Theorem C01_local : forall B T, c01_local B T = true -> closes_gap B T = true.
Proof. exact C01LocalP.C01_local. Qed.
Print Assumptions C01_local.
Check C01_local : forall B T, c01_local B T = true -> closes_gap B T = true.

Theorem C01_local_invariant : forall B T, c01_local B T = true ->
  exists acts B',
    diff_actions B T = Ok acts /\ apply_all B acts = Ok B' /\ baseline_ok B' = true
    /\ diff_actions B' T = Ok [] /\ diff_actions T B' = Ok [].
Proof. exact c01_local_sound. Qed.
Print Assumptions C01_local_invariant.
Check C01_local_invariant : forall B T, c01_local B T = true ->
  exists acts B',
    diff_actions B T = Ok acts /\ apply_all B acts = Ok B' /\ baseline_ok B' = true
    /\ diff_actions B' T = Ok [] /\ diff_actions T B' = Ok [].

(* 2. the first revision of a project *)
Theorem C01_first_revision : forall T,
  loader_accepts T = true -> (exists acts, diff_actions [] T = Ok acts) -> closes_gap [] T = true.
Proof. exact C01HistP.C01_first_revision. Qed.
Print Assumptions C01_first_revision.
Check C01_first_revision : forall T,
  loader_accepts T = true -> (exists acts, diff_actions [] T = Ok acts) -> closes_gap [] T = true.

Theorem C01_first : forall B T, c01_first B T = true -> closes_gap B T = true.
Proof. exact C01HistP.C01_first. Qed.
Print Assumptions C01_first.
Check C01_first : forall B T, c01_first B T = true -> closes_gap B T = true.

Theorem C01_loader_accepts_nodup : forall T, loader_accepts T = true -> NoDup (map t_name T).
Proof. exact loader_accepts_nodup. Qed.
Print Assumptions C01_loader_accepts_nodup.
Check C01_loader_accepts_nodup : forall T, loader_accepts T = true -> NoDup (map t_name T).

(* 3. tables only added / removed, surviving tables equivalent *)
Theorem C01_tables_only : forall B T, c01_tables_only B T = true -> closes_gap B T = true.
Proof. exact C01HistP.C01_tables_only. Qed.
Print Assumptions C01_tables_only.
Check C01_tables_only : forall B T, c01_tables_only B T = true -> closes_gap B T = true.

Theorem C01_tables_only_prop : forall B T,
  NoDup (map t_name B) -> (forall t, In t B -> normalize t = Ok t) ->
  NoDup (map t_name T) -> (exists acts, diff_actions B T = Ok acts) ->
  (forall t b tn, In t T -> find_t (t_name t) B = Some b -> normalize t = Ok tn -> table_equiv b tn) ->
  closes_gap B T = true.
Proof. exact C01HistP.C01_tables_only_prop. Qed.
Print Assumptions C01_tables_only_prop.
Check C01_tables_only_prop : forall B T,
  NoDup (map t_name B) -> (forall t, In t B -> normalize t = Ok t) ->
  NoDup (map t_name T) -> (exists acts, diff_actions B T = Ok acts) ->
  (forall t b tn, In t T -> find_t (t_name t) B = Some b -> normalize t = Ok tn -> table_equiv b tn) ->
  closes_gap B T = true.

(* 4. same tables, only column attributes differ *)
Theorem C01_column_attributes : forall B T, c01_column_attrs B T = true -> closes_gap B T = true.
Proof. exact C01HistP.C01_column_attributes. Qed.
Print Assumptions C01_column_attributes.
Check C01_column_attributes : forall B T, c01_column_attrs B T = true -> closes_gap B T = true.

(* 5. histories grown by the tool, every step within the covered class: every replayed baseline
   satisfies the invariant (derived, not assumed) ... *)
Theorem C01_history_baseline : forall H, Grown c01_step_models H ->
  exists B, replay H = Ok B /\ baseline_ok B = true.
Proof. exact C01HistP.C01_history_baseline. Qed.
Print Assumptions C01_history_baseline.
Check C01_history_baseline : forall H, Grown c01_step_models H ->
  exists B, replay H = Ok B /\ baseline_ok B = true.

(* ... and the next covered revision closes its gap: planning succeeds, replaying the extended history
   succeeds, planning again immediately reports no action, and the history stays grown *)
Theorem C01_histories_partial : forall H B T,
  Grown c01_step_models H -> replay H = Ok B -> c01_step_models B T = true ->
  exists p B',
    plan_next T H = Ok p /\ closes_gap B T = true /\
    replay (H ++ [fill_plan p B]) = Ok B' /\ baseline_ok B' = true /\
    diff_actions B' T = Ok [] /\ diff_actions T B' = Ok [] /\
    plan_next T (H ++ [fill_plan p B])
      = Ok (mkPlan "" None None (next_version (H ++ [fill_plan p B])) []) /\
    Grown c01_step_models (H ++ [fill_plan p B]).
Proof. exact C01HistP.C01_histories_partial. Qed.
Print Assumptions C01_histories_partial.
Check C01_histories_partial : forall H B T,
  Grown c01_step_models H -> replay H = Ok B -> c01_step_models B T = true ->
  exists p B',
    plan_next T H = Ok p /\ closes_gap B T = true /\
    replay (H ++ [fill_plan p B]) = Ok B' /\ baseline_ok B' = true /\
    diff_actions B' T = Ok [] /\ diff_actions T B' = Ok [] /\
    plan_next T (H ++ [fill_plan p B])
      = Ok (mkPlan "" None None (next_version (H ++ [fill_plan p B])) []) /\
    Grown c01_step_models (H ++ [fill_plan p B]).

(* the same along histories whose every step is a growing step *)
Theorem C01_grow_history_baseline : forall H, Grown c01_grow_models H ->
  exists B, replay H = Ok B /\ baseline_ok B = true.
Proof. exact C01HistP.C01_grow_history_baseline. Qed.
Print Assumptions C01_grow_history_baseline.
Check C01_grow_history_baseline : forall H, Grown c01_grow_models H ->
  exists B, replay H = Ok B /\ baseline_ok B = true.

Theorem C01_grow_histories : forall H B T,
  Grown c01_grow_models H -> replay H = Ok B -> c01_grow_models B T = true ->
  exists p B',
    plan_next T H = Ok p /\ closes_gap B T = true /\
    replay (H ++ [fill_plan p B]) = Ok B' /\ baseline_ok B' = true /\
    diff_actions B' T = Ok [] /\ diff_actions T B' = Ok [] /\
    plan_next T (H ++ [fill_plan p B])
      = Ok (mkPlan "" None None (next_version (H ++ [fill_plan p B])) []) /\
    Grown c01_grow_models (H ++ [fill_plan p B]).
Proof. exact C01HistP.C01_grow_histories. Qed.
Print Assumptions C01_grow_histories.
Check C01_grow_histories : forall H B T,
  Grown c01_grow_models H -> replay H = Ok B -> c01_grow_models B T = true ->
  exists p B',
    plan_next T H = Ok p /\ closes_gap B T = true /\
    replay (H ++ [fill_plan p B]) = Ok B' /\ baseline_ok B' = true /\
    diff_actions B' T = Ok [] /\ diff_actions T B' = Ok [] /\
    plan_next T (H ++ [fill_plan p B])
      = Ok (mkPlan "" None None (next_version (H ++ [fill_plan p B])) []) /\
    Grown c01_grow_models (H ++ [fill_plan p B]).

(* ---------- why the hypotheses are there ---------- *)
(* a loader-accepted table may list a column name twice; a grown baseline with such a table never
   converges once that column is modified; no classifier of known_findings.json fires *)
Theorem C01_duplicate_column_refuted :
  loader_accepts w_dup_T0 = true /\ loader_accepts w_dup_T = true /\
  plan_next w_dup_T0 [] = Ok (mkPlan "" None None 1 (flat_map p_actions w_dup_H)) /\
  replay w_dup_H = Ok w_dup_B /\ closes_gap [] w_dup_T0 = true /\
  diff_actions w_dup_B w_dup_T = Ok [ModifyColumnType "t" "a" (TSimple Text) None] /\
  (match apply_all w_dup_B [ModifyColumnType "t" "a" (TSimple Text) None] with
   | Ok b' => diff_actions b' w_dup_T = Ok [ModifyColumnType "t" "a" (TSimple Text) None]
   | Err _ => False
   end) /\
  closes_gap w_dup_B w_dup_T = false /\
  known_shrunk_constraint w_dup_B w_dup_T = false /\ known_shadowed_inline w_dup_B w_dup_T = false /\
  known_incremental_group w_dup_B w_dup_T = false.
Proof. exact C01HistP.C01_duplicate_column_refuted. Qed.
Print Assumptions C01_duplicate_column_refuted.
Check C01_duplicate_column_refuted :
  loader_accepts w_dup_T0 = true /\ loader_accepts w_dup_T = true /\
  plan_next w_dup_T0 [] = Ok (mkPlan "" None None 1 (flat_map p_actions w_dup_H)) /\
  replay w_dup_H = Ok w_dup_B /\ closes_gap [] w_dup_T0 = true /\
  diff_actions w_dup_B w_dup_T = Ok [ModifyColumnType "t" "a" (TSimple Text) None] /\
  (match apply_all w_dup_B [ModifyColumnType "t" "a" (TSimple Text) None] with
   | Ok b' => diff_actions b' w_dup_T = Ok [ModifyColumnType "t" "a" (TSimple Text) None]
   | Err _ => False
   end) /\
  closes_gap w_dup_B w_dup_T = false /\
  known_shrunk_constraint w_dup_B w_dup_T = false /\ known_shadowed_inline w_dup_B w_dup_T = false /\
  known_incremental_group w_dup_B w_dup_T = false.

(* model-level corner: a default rendered as the empty string (only DFloat "", which f64::to_string
   never produces) does not survive ModifyColumnDefault *)
Theorem C01_empty_render_refuted :
  baseline_ok w_render_B = true /\ loader_accepts w_render_T = true /\
  diff_actions w_render_B w_render_T = Ok [ModifyColumnDefault "t" "a" (Some "")] /\
  c01_step w_render_B w_render_T = false /\ closes_gap w_render_B w_render_T = false.
Proof. exact C01HistP.C01_empty_render_refuted. Qed.
Print Assumptions C01_empty_render_refuted.
Check C01_empty_render_refuted :
  baseline_ok w_render_B = true /\ loader_accepts w_render_T = true /\
  diff_actions w_render_B w_render_T = Ok [ModifyColumnDefault "t" "a" (Some "")] /\
  c01_step w_render_B w_render_T = false /\ closes_gap w_render_B w_render_T = false.

(* ---------- the hypotheses are satisfiable by non-trivial values ---------- *)
(* one step creating a table, dropping a table and changing type (enum value removed), nullability,
   default and comment of a column, with the enum/default swap of the third re-ordering pass *)
Example C01_step_nonvacuous :
  c01_step w_step_B w_step_T = true /\ loader_accepts w_step_T = true
  /\ diff_actions w_step_B w_step_T =
     Ok [CreateTable "new" [pkcol "id"; fkcol "tid" "t" "id"] []; DeleteTable "gone";
         ModifyColumnDefault "t" "s" (Some "a"); ModifyColumnNullable "t" "s" true None;
         ModifyColumnType "t" "s" w_en2 None; ModifyColumnComment "t" "s" (Some "cm")].
Proof. exact w_step_hyp. Qed.

Example C01_first_nonvacuous :
  c01_first [] w_first_T = true /\ loader_accepts w_first_T = true
  /\ exists acts, diff_actions [] w_first_T = Ok acts /\ List.length acts = 2.
Proof. exact w_first_hyp. Qed.

Example C01_tables_only_nonvacuous :
  c01_tables_only w_tables_B w_tables_T = true /\ loader_accepts w_tables_T = true
  /\ exists acts, diff_actions w_tables_B w_tables_T = Ok acts /\ List.length acts = 2.
Proof. exact w_tables_hyp. Qed.

Example C01_column_attributes_nonvacuous :
  c01_column_attrs w_attrs_B w_attrs_T = true /\ loader_accepts w_attrs_T = true
  /\ diff_actions w_attrs_B w_attrs_T =
     Ok [ModifyColumnNullable "t" "c" false None; ModifyColumnDefault "t" "b" (Some "''");
         ModifyColumnDefault "t" "c" (Some "0")].
Proof. exact w_attrs_hyp. Qed.

(* a two-revision history grown by the tool and covered by C01_histories_partial *)
Example C01_histories_nonvacuous :
  Grown c01_step_models w_hist_H2 /\ List.length w_hist_H2 = 2 /\
  replay w_hist_H1 = Ok w_hist_B1 /\ c01_step_models w_hist_B1 w_hist_T2 = true /\
  loader_accepts w_hist_T2 = true /\
  p_version w_hist_p2 = 2%N /\
  p_actions w_hist_p2 =
    [CreateTable "tag" [pkcol "id"] [];
     ModifyColumnType "post" "user_id" (TSimple BigInt) None;
     ModifyColumnNullable "post" "user_id" false None;
     ModifyColumnComment "post" "user_id" (Some "owner")].
Proof. exact w_hist_grown. Qed.

(* a step outside c01_step covered by the reduction to single tables (7 actions of 6 kinds) *)
Example C01_local_nonvacuous :
  c01_local w_local_B w_local_T = true /\ c01_step w_local_B w_local_T = false /\
  loader_accepts w_local_T = true /\
  diff_actions w_local_B w_local_T =
    Ok [CreateTable "new" [pkcol "id"; fkcol "t_id" "t" "id"] []; DeleteTable "gone";
        DeleteColumn "t" "b"; ModifyColumnType "t" "a" (TSimple Text) None;
        AddColumn "t" (w_local_ixcol "c") None;
        AddConstraint "t" (CUnique (Some "ua") ["a"]); AddConstraint "t" (CIndex None ["c"])].
Proof. exact w_local_hyp. Qed.

(* on the D1 pair the single table "t" fails on its own *)
Example C01_local_d1 :
  baseline_ok d1_base = true /\ c01_local d1_base d1_target = false /\
  match diff_actions d1_base d1_target, normalize_all d1_target with
  | Ok acts, Ok Tn => local_ok d1_base Tn acts "t" = false
  | _, _ => False
  end.
Proof. exact w_local_d1. Qed.

(* a growing step outside c01_step (10 actions of 7 kinds, with a foreign key to a table created by the
   same plan) *)
Example C01_grow_nonvacuous :
  c01_grow w_grow_B w_grow_T = true /\ c01_step w_grow_B w_grow_T = false /\
  loader_accepts w_grow_T = true /\
  diff_actions w_grow_B w_grow_T =
    Ok [CreateTable "new" [pkcol "id"] []; DeleteTable "gone";
        ModifyColumnType "t" "a" (TSimple Text) None; ModifyColumnNullable "t" "a" false None;
        ModifyColumnDefault "t" "a" (Some "x");
        AddColumn "t" (w_col "b" (TVarchar 8) true None (Some "new")) None;
        AddColumn "t" (w_col "c" (TSimple Integer) true None None) None;
        AddConstraint "t" (CUnique (Some "ua") ["a"; "b"]); AddConstraint "t" (CIndex None ["c"]);
        AddConstraint "t" (CForeignKey None ["c"] "new" ["id"] None None)].
Proof. exact w_grow_hyp. Qed.

(* a changing step outside c01_grow (11 actions of 9 kinds) *)
Example C01_change_nonvacuous :
  c01_change w_change_B w_change_T = true /\ c01_grow w_change_B w_change_T = false /\
  loader_accepts w_change_T = true /\
  diff_actions w_change_B w_change_T =
    Ok [CreateTable "new" [pkcol "id"] []; DeleteTable "gone"; DeleteColumn "t" "b";
        ModifyColumnType "t" "a" (TSimple Text) None; ModifyColumnNullable "t" "a" false None;
        ModifyColumnDefault "t" "a" (Some "x");
        AddColumn "t" (w_col "d" (TVarchar 8) true None (Some "new")) None;
        RemoveConstraint "t" (CIndex None ["c"]); RemoveConstraint "t" (CCheck "pos" "c > 0");
        AddConstraint "t" (CUnique None ["a"; "d"]);
        AddConstraint "t" (CForeignKey None ["c"] "new" ["id"] None None)].
Proof. exact w_change_hyp. Qed.

(* a core step outside c01_change: inline column dropped with its index, foreign key removed with its
   inline declaration cleared, column added with inline unique / named index / foreign key *)
Example C01_core_nonvacuous :
  c01_core w_core_B w_core_T = true /\ c01_change w_core_B w_core_T = false /\
  loader_accepts w_core_T = true /\
  diff_actions w_core_B w_core_T =
    Ok [DeleteColumn "t" "b"; ModifyColumnType "t" "a" (TSimple Text) None;
        ModifyColumnNullable "t" "a" false None; ModifyColumnDefault "t" "a" (Some "x");
        AddColumn "t" w_core_c None; RemoveConstraint "t" (CCheck "pos" "a > 0");
        RemoveConstraint "t" (CForeignKey None ["u"] "o" ["id"] None None);
        AddConstraint "t" (CUnique (Some "ua") ["a"]); AddConstraint "t" (CUnique None ["c"]);
        AddConstraint "t" (CForeignKey None ["c"] "o" ["id"] None None);
        AddConstraint "t" (CIndex (Some "ix_c") ["c"])].
Proof. exact w_core_hyp. Qed.
