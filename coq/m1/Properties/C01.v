(* C01 — a revision closes the gap.  Pinned statements only. *)
From VV.M1 Require Import Oracles WitnessP.

(* full-strength target (a definition, not a claim): for every loader-accepted model set and every
   baseline reached by replaying a tool-grown history, applying the planned (and filled) migration to
   the baseline succeeds and leaves no pending change in either direction *)
Definition C01_full_statement : Prop :=
  forall B T, loader_accepts T = true -> (exists H, replay H = Ok B) -> closes_gap B T = true.

(* the full statement is false of the faithful model: witness D1 (composite index, one member dropped) *)
Theorem C01_refuted : exists B T,
  loader_accepts B = true /\ loader_accepts T = true /\
  (exists H, replay H = Ok B /\ plan_next B [] = Ok (mkPlan "" None None 1 (flat_map p_actions H))) /\
  closes_gap B T = false /\ known_shrunk_constraint B T = true.
Proof.
  exists d1_base, d1_target. repeat split; try (vm_compute; reflexivity).
  exists d1_history. split; vm_compute; reflexivity.
Qed.
Print Assumptions C01_refuted.
Check C01_refuted : exists B T,
  loader_accepts B = true /\ loader_accepts T = true /\
  (exists H, replay H = Ok B /\ plan_next B [] = Ok (mkPlan "" None None 1 (flat_map p_actions H))) /\
  closes_gap B T = false /\ known_shrunk_constraint B T = true.

(* what stays in the baseline: the shrunk index the planner no longer names *)
Theorem C01_refuted_residue :
  match apply_all d1_base [DeleteColumn "t" "b"; RemoveConstraint "t" (CIndex None ["a"; "b"])] with
  | Ok b' => diff_actions b' d1_target = Ok [RemoveConstraint "t" (CIndex None ["a"])]
  | Err _ => False
  end.
Proof. exact d1_residue. Qed.
Print Assumptions C01_refuted_residue.
Check C01_refuted_residue :
  match apply_all d1_base [DeleteColumn "t" "b"; RemoveConstraint "t" (CIndex None ["a"; "b"])] with
  | Ok b' => diff_actions b' d1_target = Ok [RemoveConstraint "t" (CIndex None ["a"])]
  | Err _ => False
  end.

(* non-vacuity of the positive side: a two-table evolution on which the gap does close *)
Example C01_closes_somewhere : closes_gap d2_base d2_target = true.
Proof. exact d2_closes. Qed.
