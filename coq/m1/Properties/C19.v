(* C19 — database object names never collide: the naming-algebra half (the create/drop symmetry half
   lives in the sql layer).  Builders: vespertide-naming/src/lib.rs:208-251, modelled in Model/Apply.v;
   identifier shapes and object descriptors in Model/NamePlain.v; proofs in Proofs/NamingP.v.
   Pinned statements only: each theorem is closed by [exact] of a lemma proved in Proofs/. *)
From VV.M1 Require Import NamePlain NamingP.

(* ---------- a. the kind prefixes ix / uq / fk / chk keep the kinds apart ---------- *)
Theorem C19_name_with_prefix_inj : forall p1 t1 c1 k1 p2 t2 c2 k2,
  (p1 = "ix" \/ p1 = "uq" \/ p1 = "fk") -> (p2 = "ix" \/ p2 = "uq" \/ p2 = "fk") ->
  name_with p1 t1 c1 k1 = name_with p2 t2 c2 k2 -> p1 = p2.
Proof. exact name_with_prefix_inj. Qed.
Print Assumptions C19_name_with_prefix_inj.
Check C19_name_with_prefix_inj : forall p1 t1 c1 k1 p2 t2 c2 k2,
  (p1 = "ix" \/ p1 = "uq" \/ p1 = "fk") -> (p2 = "ix" \/ p2 = "uq" \/ p2 = "fk") ->
  name_with p1 t1 c1 k1 = name_with p2 t2 c2 k2 -> p1 = p2.

Theorem C19_name_with_not_check : forall p t cs k t' c',
  (p = "ix" \/ p = "uq" \/ p = "fk") -> name_with p t cs k <> build_check_constraint_name t' c'.
Proof. exact name_with_not_check. Qed.
Print Assumptions C19_name_with_not_check.
Check C19_name_with_not_check : forall p t cs k t' c',
  (p = "ix" \/ p = "uq" \/ p = "fk") -> name_with p t cs k <> build_check_constraint_name t' c'.

(* ---------- b. the first "__" after the kind prefix separates table from rest ---------- *)
Theorem C19_name_table_split : forall pfx t1 r1 t2 r2,
  plain t1 = true -> plain t2 = true ->
  pfx +++ "_" +++ t1 +++ "__" +++ r1 = pfx +++ "_" +++ t2 +++ "__" +++ r2 ->
  t1 = t2 /\ r1 = r2.
Proof. exact name_table_split. Qed.
Print Assumptions C19_name_table_split.
Check C19_name_table_split : forall pfx t1 r1 t2 r2,
  plain t1 = true -> plain t2 = true ->
  pfx +++ "_" +++ t1 +++ "__" +++ r1 = pfx +++ "_" +++ t2 +++ "__" +++ r2 ->
  t1 = t2 /\ r1 = r2.

(* what is really needed of the table names: no "__" inside and no '_' at the end; nothing about the
   rests, which may start with '_' *)
Theorem C19_name_table_split_min : forall pfx t1 r1 t2 r2,
  has_dunder t1 = false -> last_us t1 = false -> has_dunder t2 = false -> last_us t2 = false ->
  pfx +++ "_" +++ t1 +++ "__" +++ r1 = pfx +++ "_" +++ t2 +++ "__" +++ r2 ->
  t1 = t2 /\ r1 = r2.
Proof. exact name_table_split_min. Qed.
Print Assumptions C19_name_table_split_min.
Check C19_name_table_split_min : forall pfx t1 r1 t2 r2,
  has_dunder t1 = false -> last_us t1 = false -> has_dunder t2 = false -> last_us t2 = false ->
  pfx +++ "_" +++ t1 +++ "__" +++ r1 = pfx +++ "_" +++ t2 +++ "__" +++ r2 ->
  t1 = t2 /\ r1 = r2.

(* ... and "no '_' at the end" cannot be dropped *)
Theorem C19_name_table_split_trailing_refuted :
  exists t1 r1 t2 r2, has_dunder t1 = false /\ plain t2 = true
    /\ "ix" +++ "_" +++ t1 +++ "__" +++ r1 = "ix" +++ "_" +++ t2 +++ "__" +++ r2 /\ t1 <> t2.
Proof. exact name_table_split_trailing_refuted. Qed.
Print Assumptions C19_name_table_split_trailing_refuted.
Check C19_name_table_split_trailing_refuted :
  exists t1 r1 t2 r2, has_dunder t1 = false /\ plain t2 = true
    /\ "ix" +++ "_" +++ t1 +++ "__" +++ r1 = "ix" +++ "_" +++ t2 +++ "__" +++ r2 /\ t1 <> t2.

(* the shape predicates mean what they say *)
Theorem C19_has_dunder_spec : forall s, has_dunder s = true <-> exists a b, s = a +++ "__" +++ b.
Proof. exact has_dunder_spec. Qed.
Print Assumptions C19_has_dunder_spec.
Check C19_has_dunder_spec : forall s, has_dunder s = true <-> exists a b, s = a +++ "__" +++ b.

Theorem C19_head_us_starts_with : forall s, head_us s = starts_with "_" s.
Proof. exact head_us_starts_with. Qed.
Print Assumptions C19_head_us_starts_with.
Check C19_head_us_starts_with : forall s, head_us s = starts_with "_" s.

Theorem C19_last_us_ends_with : forall s, last_us s = ends_with "_" s.
Proof. exact last_us_ends_with. Qed.
Print Assumptions C19_last_us_ends_with.
Check C19_last_us_ends_with : forall s, last_us s = ends_with "_" s.

Example C19_plain_examples :
  plain "user_role" = true /\ plain "a" = true /\ plain "" = false /\ plain "a__b" = false
  /\ plain "_a" = false /\ plain "a_" = false /\ simple "email" = true /\ simple "a_b" = false
  /\ simple "" = false.
Proof. repeat split; vm_compute; reflexivity. Qed.

(* ---------- c. index / unique / foreign-key names ---------- *)
Theorem C19_join_inj_no_sep : forall cs cs',
  (forall c, In c (cs ++ cs') -> no_underscore c = true /\ c <> "") ->
  join "_" cs = join "_" cs' -> cs = cs'.
Proof. exact join_inj_no_sep. Qed.
Print Assumptions C19_join_inj_no_sep.
Check C19_join_inj_no_sep : forall cs cs',
  (forall c, In c (cs ++ cs') -> no_underscore c = true /\ c <> "") ->
  join "_" cs = join "_" cs' -> cs = cs'.

Theorem C19_join_inj_refuted :
  join "_" ["a_b"] = join "_" ["a"; "b"] /\ join "_" [] = join "_" [""].
Proof. exact join_inj_refuted. Qed.
Print Assumptions C19_join_inj_refuted.
Check C19_join_inj_refuted :
  join "_" ["a_b"] = join "_" ["a"; "b"] /\ join "_" [] = join "_" [""].

(* plain tables, simple (non-empty, underscore-free) columns and user keys: the tables agree, and
   either the keys agree, or both are unnamed with the same columns, or -- the one collision that
   remains -- one is named by a key equal to the ONLY column of the other, unnamed one *)
Theorem C19_index_name_injective : forall t cs k t' cs' k',
  plain t = true -> plain t' = true ->
  forallb simple cs = true -> forallb simple cs' = true ->
  simple_key k = true -> simple_key k' = true ->
  build_index_name t cs k = build_index_name t' cs' k' ->
  t = t' /\ match k, k' with
            | Some a, Some b => a = b
            | None, None => cs = cs'
            | Some a, None => cs' = [a]
            | None, Some b => cs = [b]
            end.
Proof. exact index_name_injective. Qed.
Print Assumptions C19_index_name_injective.
Check C19_index_name_injective : forall t cs k t' cs' k',
  plain t = true -> plain t' = true ->
  forallb simple cs = true -> forallb simple cs' = true ->
  simple_key k = true -> simple_key k' = true ->
  build_index_name t cs k = build_index_name t' cs' k' ->
  t = t' /\ match k, k' with
            | Some a, Some b => a = b
            | None, None => cs = cs'
            | Some a, None => cs' = [a]
            | None, Some b => cs = [b]
            end.

Example C19_index_nonvacuous :
  plain "user_role" = true /\ plain "order" = true
  /\ forallb simple ["tenant"; "email"] = true /\ forallb simple ["id"] = true
  /\ simple_key (Some "lookup") = true /\ simple_key None = true
  /\ build_index_name "user_role" ["tenant"; "email"] None = "ix_user_role__tenant_email"
  /\ build_index_name "order" ["id"] (Some "lookup") = "ix_order__lookup".
Proof. repeat split; vm_compute; reflexivity. Qed.

(* user keys of any shape: a key may then equal the joined columns of an unnamed constraint *)
Theorem C19_name_with_injective_anykey : forall pfx t cs k t' cs' k',
  plain t = true -> plain t' = true ->
  (forall c, In c (cs ++ cs') -> no_underscore c = true /\ c <> "") ->
  name_with pfx t cs k = name_with pfx t' cs' k' ->
  t = t' /\ match k, k' with
            | Some a, Some b => a = b
            | None, None => cs = cs'
            | Some a, None => a = join "_" cs'
            | None, Some b => b = join "_" cs
            end.
Proof. exact name_with_injective_anykey. Qed.
Print Assumptions C19_name_with_injective_anykey.
Check C19_name_with_injective_anykey : forall pfx t cs k t' cs' k',
  plain t = true -> plain t' = true ->
  (forall c, In c (cs ++ cs') -> no_underscore c = true /\ c <> "") ->
  name_with pfx t cs k = name_with pfx t' cs' k' ->
  t = t' /\ match k, k' with
            | Some a, Some b => a = b
            | None, None => cs = cs'
            | Some a, None => a = join "_" cs'
            | None, Some b => b = join "_" cs
            end.

(* simple columns and keys make every kind injective for ANY table names (the LAST "__" separates):
   no hypothesis on t, t' at all *)
Theorem C19_name_with_injective_anytable : forall pfx t cs k t' cs' k',
  forallb simple cs = true -> forallb simple cs' = true ->
  simple_key k = true -> simple_key k' = true ->
  name_with pfx t cs k = name_with pfx t' cs' k' ->
  t = t' /\ match k, k' with
            | Some a, Some b => a = b
            | None, None => cs = cs'
            | Some a, None => cs' = [a]
            | None, Some b => cs = [b]
            end.
Proof. exact name_with_injective_anytable. Qed.
Print Assumptions C19_name_with_injective_anytable.
Check C19_name_with_injective_anytable : forall pfx t cs k t' cs' k',
  forallb simple cs = true -> forallb simple cs' = true ->
  simple_key k = true -> simple_key k' = true ->
  name_with pfx t cs k = name_with pfx t' cs' k' ->
  t = t' /\ match k, k' with
            | Some a, Some b => a = b
            | None, None => cs = cs'
            | Some a, None => cs' = [a]
            | None, Some b => cs = [b]
            end.

Theorem C19_unique_name_injective : forall t cs k t' cs' k',
  wf_named t cs k = true -> wf_named t' cs' k' = true ->
  build_unique_constraint_name t cs k = build_unique_constraint_name t' cs' k' ->
  t = t' /\ match k, k' with
            | Some a, Some b => a = b
            | None, None => cs = cs'
            | Some a, None => cs' = [a]
            | None, Some b => cs = [b]
            end.
Proof. exact unique_name_injective. Qed.
Print Assumptions C19_unique_name_injective.
Check C19_unique_name_injective : forall t cs k t' cs' k',
  (plain t && forallb simple cs && simple_key k) = true ->
  (plain t' && forallb simple cs' && simple_key k') = true ->
  build_unique_constraint_name t cs k = build_unique_constraint_name t' cs' k' ->
  t = t' /\ match k, k' with
            | Some a, Some b => a = b
            | None, None => cs = cs'
            | Some a, None => cs' = [a]
            | None, Some b => cs = [b]
            end.

Theorem C19_foreign_key_name_injective : forall t cs k t' cs' k',
  wf_named t cs k = true -> wf_named t' cs' k' = true ->
  build_foreign_key_name t cs k = build_foreign_key_name t' cs' k' ->
  t = t' /\ match k, k' with
            | Some a, Some b => a = b
            | None, None => cs = cs'
            | Some a, None => cs' = [a]
            | None, Some b => cs = [b]
            end.
Proof. exact foreign_key_name_injective. Qed.
Print Assumptions C19_foreign_key_name_injective.
Check C19_foreign_key_name_injective : forall t cs k t' cs' k',
  (plain t && forallb simple cs && simple_key k) = true ->
  (plain t' && forallb simple cs' && simple_key k') = true ->
  build_foreign_key_name t cs k = build_foreign_key_name t' cs' k' ->
  t = t' /\ match k, k' with
            | Some a, Some b => a = b
            | None, None => cs = cs'
            | Some a, None => cs' = [a]
            | None, Some b => cs = [b]
            end.

Example C19_wf_named_nonvacuous :
  wf_named "post_tag" ["post"; "tag"] None = true /\ wf_named "post_tag" ["tag"] (Some "bytag") = true.
Proof. split; vm_compute; reflexivity. Qed.

(* ---------- d. the collisions that do happen (witnesses) ---------- *)
Theorem C19_collide_unnamed_joined_refuted :
  exists t cs cs', cs <> cs' /\ build_index_name t cs None = build_index_name t cs' None.
Proof. exact collide_unnamed_joined_refuted. Qed.
Print Assumptions C19_collide_unnamed_joined_refuted.
Check C19_collide_unnamed_joined_refuted :
  exists t cs cs', cs <> cs' /\ build_index_name t cs None = build_index_name t cs' None.
Example C19_collide_unnamed_joined_witness :
  build_index_name "t" ["a_b"] None = build_index_name "t" ["a"; "b"] None.
Proof. vm_compute. reflexivity. Qed.

Theorem C19_collide_key_joined_refuted :
  exists t cs k cs', cs <> cs'
    /\ build_unique_constraint_name t cs (Some k) = build_unique_constraint_name t cs' None.
Proof. exact collide_key_joined_refuted. Qed.
Print Assumptions C19_collide_key_joined_refuted.
Check C19_collide_key_joined_refuted :
  exists t cs k cs', cs <> cs'
    /\ build_unique_constraint_name t cs (Some k) = build_unique_constraint_name t cs' None.
Example C19_collide_key_joined_witness :
  build_unique_constraint_name "t" ["c"] (Some "a_b") = build_unique_constraint_name "t" ["a"; "b"] None.
Proof. vm_compute. reflexivity. Qed.

Theorem C19_collide_key_single_column_refuted :
  exists t cs k cs', wf_named t cs (Some k) = true /\ wf_named t cs' None = true /\ cs <> cs'
    /\ build_index_name t cs (Some k) = build_index_name t cs' None.
Proof. exact collide_key_single_column_refuted. Qed.
Print Assumptions C19_collide_key_single_column_refuted.
Check C19_collide_key_single_column_refuted :
  exists t cs k cs', wf_named t cs (Some k) = true /\ wf_named t cs' None = true /\ cs <> cs'
    /\ build_index_name t cs (Some k) = build_index_name t cs' None.
Example C19_collide_key_single_column_witness :
  build_index_name "t" ["x"; "y"] (Some "a") = build_index_name "t" ["a"] None.
Proof. vm_compute. reflexivity. Qed.

Theorem C19_collide_enum_split_refuted :
  build_enum_type_name "user" "role_kind" = build_enum_type_name "user_role" "kind".
Proof. exact collide_enum_split_refuted. Qed.
Print Assumptions C19_collide_enum_split_refuted.
Check C19_collide_enum_split_refuted :
  build_enum_type_name "user" "role_kind" = build_enum_type_name "user_role" "kind".

Theorem C19_collide_enum_table_refuted :
  object_name (OEnumType "user" "status") = object_name (OTable "user_status").
Proof. exact collide_enum_table_refuted. Qed.
Print Assumptions C19_collide_enum_table_refuted.
Check C19_collide_enum_table_refuted : build_enum_type_name "user" "status" = "user_status".

Theorem C19_collide_temp_table_refuted :
  object_name (OTempTable "x") = object_name (OTable "x_temp").
Proof. exact collide_temp_table_refuted. Qed.
Print Assumptions C19_collide_temp_table_refuted.
Check C19_collide_temp_table_refuted : "x" +++ "_temp" = "x_temp".

Theorem C19_collide_dunder_table_refuted :
  build_index_name "a__b" ["c"] None = build_index_name "a" ["b__c"] None
  /\ build_unique_constraint_name "a__b" ["c"] None = build_unique_constraint_name "a" ["x"] (Some "b__c")
  /\ build_index_name "a_" ["c"] None = build_index_name "a" ["_c"] None.
Proof. exact collide_dunder_table_refuted. Qed.
Print Assumptions C19_collide_dunder_table_refuted.
Check C19_collide_dunder_table_refuted :
  build_index_name "a__b" ["c"] None = build_index_name "a" ["b__c"] None
  /\ build_unique_constraint_name "a__b" ["c"] None = build_unique_constraint_name "a" ["x"] (Some "b__c")
  /\ build_index_name "a_" ["c"] None = build_index_name "a" ["_c"] None.

(* ---------- e. enum type names {table}_{enum} ---------- *)
(* only the table names need to be underscore-free *)
Theorem C19_enum_type_name_injective : forall t e t' e',
  no_underscore t = true -> no_underscore t' = true ->
  build_enum_type_name t e = build_enum_type_name t' e' -> t = t' /\ e = e'.
Proof. exact enum_type_name_injective. Qed.
Print Assumptions C19_enum_type_name_injective.
Check C19_enum_type_name_injective : forall t e t' e',
  no_underscore t = true -> no_underscore t' = true ->
  build_enum_type_name t e = build_enum_type_name t' e' -> t = t' /\ e = e'.
Example C19_enum_nonvacuous :
  no_underscore "user" = true /\ build_enum_type_name "user" "role_kind" = "user_role_kind".
Proof. split; vm_compute; reflexivity. Qed.

(* ---------- f. check constraint names chk_{table}__{column} ---------- *)
(* only the table names need to be plain *)
Theorem C19_check_name_injective : forall t c t' c',
  plain t = true -> plain t' = true ->
  build_check_constraint_name t c = build_check_constraint_name t' c' -> t = t' /\ c = c'.
Proof. exact check_name_injective. Qed.
Print Assumptions C19_check_name_injective.
Check C19_check_name_injective : forall t c t' c',
  plain t = true -> plain t' = true ->
  build_check_constraint_name t c = build_check_constraint_name t' c' -> t = t' /\ c = c'.
Example C19_check_nonvacuous :
  plain "user_role" = true /\ build_check_constraint_name "user_role" "kind" = "chk_user_role__kind".
Proof. split; vm_compute; reflexivity. Qed.

(* ---------- all objects of a database ---------- *)
(* the full-strength statement (a definition, not a claim) ... *)
Definition C19_injectivity_full_statement : Prop :=
  forall o1 o2, same_namespace o1 o2 = true -> object_name o1 = object_name o2 -> o1 = o2.

(* ... is false of the faithful model *)
Theorem C19_injectivity_refuted : ~ C19_injectivity_full_statement.
Proof. exact injectivity_full_refuted. Qed.
Print Assumptions C19_injectivity_refuted.
Check C19_injectivity_refuted :
  ~ (forall o1 o2, same_namespace o1 o2 = true -> object_name o1 = object_name o2 -> o1 = o2).

(* ... and stays false for well-formed descriptors (key = only column of an unnamed index) *)
Theorem C19_injectivity_wf_refuted :
  exists o1 o2, wf_object o1 = true /\ wf_object o2 = true /\ same_namespace o1 o2 = true
    /\ object_name o1 = object_name o2 /\ o1 <> o2.
Proof. exact injectivity_refuted. Qed.
Print Assumptions C19_injectivity_wf_refuted.
Check C19_injectivity_wf_refuted :
  exists o1 o2, wf_object o1 = true /\ wf_object o2 = true /\ same_namespace o1 o2 = true
    /\ object_name o1 = object_name o2 /\ o1 <> o2.

(* what does hold: among well-formed descriptors (wf_object: tables plain, columns and keys simple,
   check columns and enum names plain, tables owning an enum type underscore-free) two names are
   equal exactly in the cases listed by objects_collide (Model/NamePlain.v): same kind, same table
   and same key / same columns / key = only column; enum type {t}_{e} = table name; table name =
   {t}_temp; {t}_{e} = {t'}_temp.  No hypothesis on namespaces is needed. *)
Theorem C19_object_name_collision_exact : forall o1 o2,
  wf_object o1 = true -> wf_object o2 = true ->
  (object_name o1 = object_name o2 <-> objects_collide o1 o2).
Proof. exact object_name_collision_exact. Qed.
Print Assumptions C19_object_name_collision_exact.
Check C19_object_name_collision_exact : forall o1 o2,
  wf_object o1 = true -> wf_object o2 = true ->
  (object_name o1 = object_name o2 <->
   match o1, o2 with
   | OIndex t cs k, OIndex t' cs' k' => named_collide t cs k t' cs' k'
   | OUnique t cs k, OUnique t' cs' k' => named_collide t cs k t' cs' k'
   | OForeignKey t cs k, OForeignKey t' cs' k' => named_collide t cs k t' cs' k'
   | OCheck t c, OCheck t' c' => t = t' /\ c = c'
   | OEnumType t e, OEnumType t' e' => t = t' /\ e = e'
   | OTable n, OTable n' => n = n'
   | OTempTable t, OTempTable t' => t = t'
   | OEnumType t e, OTable n | OTable n, OEnumType t e => n = t +++ "_" +++ e
   | OTempTable t, OTable n | OTable n, OTempTable t => n = t +++ "_temp"
   | OEnumType t e, OTempTable t' | OTempTable t', OEnumType t e => t +++ "_" +++ e = t' +++ "_temp"
   | _, _ => False
   end).
Example C19_wf_object_nonvacuous :
  forallb wf_object
    [OIndex "user_role" ["tenant"; "email"] None; OUnique "user" ["email"] (Some "login");
     OForeignKey "post" ["author"] None; OCheck "user_role" "kind"; OEnumType "user" "role_kind";
     OTable "user_role"; OTempTable "user_role"] = true
  /\ same_namespace (OIndex "a" ["b"] None) (OTable "c") = true
  /\ same_namespace (OEnumType "a" "b") (OTable "c") = true
  /\ same_namespace (OUnique "a" ["b"] None) (OForeignKey "c" ["d"] None) = true
  /\ same_namespace (OIndex "a" ["b"] None) (OForeignKey "c" ["d"] None) = false
  /\ same_namespace (OEnumType "a" "b") (OIndex "c" ["d"] None) = false.
Proof. repeat split; vm_compute; reflexivity. Qed.
