(* C16, planner stage — pinned statements only: each theorem is closed by [exact] of a lemma proved in Proofs/.
   The planner model (Model/Diff.v, tied to plan_next_migration / diff_schemas by K-diff) has an explicit panic
   outcome and an explicit out-of-fuel outcome for its two Kahn sorts; neither is reachable. *)
From VV.M1 Require Import Diff KahnP NoPanicP.

Theorem C16_topo_sort_never_out_of_fuel : forall tables, topo_sort tables <> TopoOutOfFuel.
Proof. exact topo_sort_never_out_of_fuel. Qed.
Print Assumptions C16_topo_sort_never_out_of_fuel.
Check C16_topo_sort_never_out_of_fuel : forall tables, topo_sort tables <> TopoOutOfFuel.

Theorem C16_delete_deps_fuel_enough : forall acts all, kahn (delete_deps acts all) <> None.
Proof. exact delete_deps_fuel_enough. Qed.
Print Assumptions C16_delete_deps_fuel_enough.
Check C16_delete_deps_fuel_enough : forall acts all, kahn (delete_deps acts all) <> None.

Theorem C16_diff_actions_no_panic : forall from to,
  diff_actions from to <> Err DiffPanic /\ diff_actions from to <> Err DiffOutOfFuel.
Proof. exact diff_actions_no_panic. Qed.
Print Assumptions C16_diff_actions_no_panic.
Check C16_diff_actions_no_panic : forall from to,
  diff_actions from to <> Err DiffPanic /\ diff_actions from to <> Err DiffOutOfFuel.

Theorem C16_diff_actions_error_kinds : forall from to e,
  diff_actions from to = Err e -> e = DiffTableValidation \/ e = DiffCycle.
Proof. exact diff_actions_error_kinds. Qed.
Print Assumptions C16_diff_actions_error_kinds.
Check C16_diff_actions_error_kinds : forall from to e,
  diff_actions from to = Err e -> e = DiffTableValidation \/ e = DiffCycle.

Theorem C16_plan_next_no_panic : forall current applied,
  plan_next current applied <> Err (PlanDiff DiffPanic) /\ plan_next current applied <> Err (PlanDiff DiffOutOfFuel).
Proof. exact plan_next_no_panic. Qed.
Print Assumptions C16_plan_next_no_panic.
Check C16_plan_next_no_panic : forall current applied,
  plan_next current applied <> Err (PlanDiff DiffPanic) /\ plan_next current applied <> Err (PlanDiff DiffOutOfFuel).

(* non-vacuity: planning succeeds on a one-table project, and the cycle error is reachable *)
Example C16_planner_nonvacuous :
  (exists p, plan_next [mkTable "t" None [mkCol "id" (TSimple Integer) false None None (Some (PKBool true)) None None None] []] [] = Ok p)
  /\ diff_actions []
       [mkTable "a" None [mkCol "id" (TSimple Integer) false None None (Some (PKBool true)) None None None;
                          mkCol "b_id" (TSimple Integer) true None None None None None (Some (FKStr "b.id"))] [];
        mkTable "b" None [mkCol "id" (TSimple Integer) false None None (Some (PKBool true)) None None None;
                          mkCol "a_id" (TSimple Integer) true None None None None None (Some (FKStr "a.id"))] []]
     = Err DiffCycle.
Proof. split; [eexists|]; vm_compute; reflexivity. Qed.
