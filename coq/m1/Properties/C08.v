(* C08 — the result does not depend on enumeration order: migration files are replayed in ascending
   version order whatever the directory order, and the diff plan does not depend on the order in
   which tables are listed.
   Pinned statements only: each theorem is closed by [exact] of a lemma proved in Proofs/. *)
From VV.M1 Require Import Diff Validate SortP DiffP.
From Coq Require Import Permutation Sorted.

Theorem C08_load_order_irrelevant : forall ps ps',
  NoDup (map p_version ps) -> Permutation ps ps' -> sort_plans ps = sort_plans ps'.
Proof. exact sort_plans_perm. Qed.
Print Assumptions C08_load_order_irrelevant.
Check C08_load_order_irrelevant : forall ps ps',
  NoDup (map p_version ps) -> Permutation ps ps' -> sort_plans ps = sort_plans ps'.

Theorem C08_sort_plans_sorted : forall ps,
  StronglySorted (fun a b => (p_version a <= p_version b)%N) (sort_plans ps).
Proof. exact sort_plans_sorted. Qed.
Print Assumptions C08_sort_plans_sorted.
Check C08_sort_plans_sorted : forall ps,
  StronglySorted (fun a b => (p_version a <= p_version b)%N) (sort_plans ps).

Theorem C08_sort_plans_permutation : forall ps, Permutation (sort_plans ps) ps.
Proof. exact sort_plans_permutation. Qed.
Print Assumptions C08_sort_plans_permutation.
Check C08_sort_plans_permutation : forall ps, Permutation (sort_plans ps) ps.

Theorem C08_table_order_irrelevant : forall A A' B B',
  NoDup (map t_name A) -> NoDup (map t_name B) -> Permutation A A' -> Permutation B B' ->
  diff_actions A B = diff_actions A' B'.
Proof. exact diff_perm. Qed.
Print Assumptions C08_table_order_irrelevant.
Check C08_table_order_irrelevant : forall A A' B B',
  NoDup (map t_name A) -> NoDup (map t_name B) -> Permutation A A' -> Permutation B B' ->
  diff_actions A B = diff_actions A' B'.

(* non-vacuity: two plans listed in descending order, distinct versions; the sort really reorders *)
Example C08_load_order_nonvacuous :
  let p1 := mkPlan "a" None None 1 [RawSql "one"] in
  let p2 := mkPlan "b" None None 2 [RawSql "two"] in
  NoDup (map p_version [p2; p1]) /\ Permutation [p2; p1] [p1; p2]
  /\ sort_plans [p2; p1] = [p1; p2] /\ sort_plans [p1; p2] = [p1; p2].
Proof.
  cbv zeta. split; [|split; [apply perm_swap|split; vm_compute; reflexivity]].
  cbn [map p_version]. constructor; [|constructor; [|constructor]].
  - intros [H|[]]. discriminate.
  - intros [].
Qed.

(* non-vacuity: both schemas listed in two different orders, distinct names, a non-empty plan
   (one table dropped, one changed, one created) *)
Example C08_table_order_nonvacuous :
  let col n := mkCol n (TSimple Integer) false None None None None None None in
  let u := mkTable "user" None [col "id"] [] in
  let p := mkTable "post" None [col "id"] [] in
  let p' := mkTable "post" None [col "id"; col "user_id"] [] in
  let c := mkTable "comment" None [col "id"] [] in
  NoDup (map t_name [u; p]) /\ NoDup (map t_name [p'; c])
  /\ Permutation [u; p] [p; u] /\ Permutation [p'; c] [c; p']
  /\ diff_actions [u; p] [p'; c] = diff_actions [p; u] [c; p']
  /\ diff_actions [u; p] [p'; c]
     = Ok [CreateTable "comment" [col "id"] []; DeleteTable "user"; AddColumn "post" (col "user_id") None].
Proof.
  cbv zeta. repeat split; try apply perm_swap; try (vm_compute; reflexivity);
    cbn [map t_name]; (constructor; [|constructor; [|constructor]]);
    try (intros [H|[]]; discriminate); intros [].
Qed.
