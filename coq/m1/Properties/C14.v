(* C14 — a table prefix renames tables and nothing else (schema-algebra half: with_prefix, normalize,
   diff, apply, plan_next; the SQL half lives in the sql layer).
   Pinned statements only: each theorem is closed by [exact] of a lemma proved in Proofs/. *)
From VV.M1 Require Import Oracles PrefixHyp PrefixStrP PrefixP PrefixDiffP PrefixApplyP.

(* ---------- with_prefix against the literally renamed project (after the D10 repair) ---------- *)
Theorem C14_with_prefix_is_literal : forall p a, p <> "" -> inline_fks_parse a = true ->
  action_with_prefix p a = literal_action p a.
Proof. exact with_prefix_is_literal. Qed.
Print Assumptions C14_with_prefix_is_literal.
Check C14_with_prefix_is_literal : forall p a, p <> "" -> inline_fks_parse a = true ->
  action_with_prefix p a = literal_action p a.

Theorem C14_with_prefix_is_literal_no_inline_fk : forall p a, p <> "" -> no_inline_fk a = true ->
  action_with_prefix p a = literal_action p a.
Proof. exact with_prefix_is_literal_no_inline_fk. Qed.
Print Assumptions C14_with_prefix_is_literal_no_inline_fk.
Check C14_with_prefix_is_literal_no_inline_fk : forall p a, p <> "" -> no_inline_fk a = true ->
  action_with_prefix p a = literal_action p a.

Theorem C14_plan_with_prefix_is_literal : forall p pl, p <> "" ->
  forallb inline_fks_parse (p_actions pl) = true ->
  p_actions (plan_with_prefix p pl) = map (literal_action p) (p_actions pl).
Proof. exact plan_with_prefix_is_literal. Qed.
Print Assumptions C14_plan_with_prefix_is_literal.
Check C14_plan_with_prefix_is_literal : forall p pl, p <> "" ->
  forallb inline_fks_parse (p_actions pl) = true ->
  p_actions (plan_with_prefix p pl) = map (literal_action p) (p_actions pl).

(* the hypothesis is what normalisation enforces (so it holds for every CreateTable that replays) *)
Theorem C14_applied_create_parses : forall s t cols ks s',
  apply_action s (CreateTable t cols ks) = Ok s' -> inline_fks_parse (CreateTable t cols ks) = true.
Proof. exact applied_create_parses. Qed.
Print Assumptions C14_applied_create_parses.
Check C14_applied_create_parses : forall s t cols ks s',
  apply_action s (CreateTable t cols ks) = Ok s' -> inline_fks_parse (CreateTable t cols ks) = true.

(* D10 repaired: the former witness is now rewritten, the promoted constraint references "app_user" *)
Theorem C14_inline_fk_fixed :
  let user := mkTable "user" None
                [mkCol "id" (TSimple Integer) false None None (Some (PKBool true)) None None None] [] in
  let a := CreateTable "post"
             [mkCol "id" (TSimple Integer) false None None (Some (PKBool true)) None None None;
              mkCol "user_id" (TSimple Integer) false None None None None None (Some (FKStr "user.id"))] [] in
  no_inline_fk a = false
  /\ inline_fks_parse a = true
  /\ action_with_prefix "app_" a = literal_action "app_" a
  /\ fk_targets_of "app_post" (apply_action (literal_schema "app_" [user]) (action_with_prefix "app_" a))
     = Some ["app_user"].
Proof. exact inline_fk_fixed. Qed.
Print Assumptions C14_inline_fk_fixed.
Check C14_inline_fk_fixed :
  let user := mkTable "user" None
                [mkCol "id" (TSimple Integer) false None None (Some (PKBool true)) None None None] [] in
  let a := CreateTable "post"
             [mkCol "id" (TSimple Integer) false None None (Some (PKBool true)) None None None;
              mkCol "user_id" (TSimple Integer) false None None None None None (Some (FKStr "user.id"))] [] in
  no_inline_fk a = false
  /\ inline_fks_parse a = true
  /\ action_with_prefix "app_" a = literal_action "app_" a
  /\ fk_targets_of "app_post" (apply_action (literal_schema "app_" [user]) (action_with_prefix "app_" a))
     = Some ["app_user"].

(* remaining corner 1 (harmless): a malformed inline reference "a.b.c" is prefixed blindly by with_prefix
   and left alone by the literal renaming; every variant is rejected by normalisation *)
Theorem C14_malformed_inline_fk_refuted :
  let user := mkTable "user" None
                [mkCol "id" (TSimple Integer) false None None (Some (PKBool true)) None None None] [] in
  let a := CreateTable "post"
             [mkCol "id" (TSimple Integer) false None None (Some (PKBool true)) None None None;
              mkCol "user_id" (TSimple Integer) false None None None None None (Some (FKStr "a.b.c"))] [] in
  inline_fks_parse a = false
  /\ action_with_prefix "app_" a <> literal_action "app_" a
  /\ apply_action [user] a = Err TableValidation
  /\ apply_action (literal_schema "app_" [user]) (literal_action "app_" a) = Err TableValidation
  /\ apply_action (literal_schema "app_" [user]) (action_with_prefix "app_" a) = Err TableValidation.
Proof. exact malformed_inline_fk_refuted. Qed.
Print Assumptions C14_malformed_inline_fk_refuted.
Check C14_malformed_inline_fk_refuted :
  let user := mkTable "user" None
                [mkCol "id" (TSimple Integer) false None None (Some (PKBool true)) None None None] [] in
  let a := CreateTable "post"
             [mkCol "id" (TSimple Integer) false None None (Some (PKBool true)) None None None;
              mkCol "user_id" (TSimple Integer) false None None None None None (Some (FKStr "a.b.c"))] [] in
  inline_fks_parse a = false
  /\ action_with_prefix "app_" a <> literal_action "app_" a
  /\ apply_action [user] a = Err TableValidation
  /\ apply_action (literal_schema "app_" [user]) (literal_action "app_" a) = Err TableValidation
  /\ apply_action (literal_schema "app_" [user]) (action_with_prefix "app_" a) = Err TableValidation.

(* remaining corner 2 (not harmless in the model): ".x" has an empty table part and is rejected without a
   prefix and by the literally renamed project; with_prefix makes it the well-formed "app_.x", the prefixed
   plan replays and references a table called "app_" *)
Theorem C14_empty_table_inline_fk_refuted :
  let user := mkTable "user" None
                [mkCol "id" (TSimple Integer) false None None (Some (PKBool true)) None None None] [] in
  let a := CreateTable "post"
             [mkCol "id" (TSimple Integer) false None None (Some (PKBool true)) None None None;
              mkCol "user_id" (TSimple Integer) false None None None None None (Some (FKStr ".x"))] [] in
  inline_fks_parse a = false
  /\ apply_action [user] a = Err TableValidation
  /\ apply_action (literal_schema "app_" [user]) (literal_action "app_" a) = Err TableValidation
  /\ fk_targets_of "app_post" (apply_action (literal_schema "app_" [user]) (action_with_prefix "app_" a))
     = Some ["app_"].
Proof. exact empty_table_inline_fk_refuted. Qed.
Print Assumptions C14_empty_table_inline_fk_refuted.
Check C14_empty_table_inline_fk_refuted :
  let user := mkTable "user" None
                [mkCol "id" (TSimple Integer) false None None (Some (PKBool true)) None None None] [] in
  let a := CreateTable "post"
             [mkCol "id" (TSimple Integer) false None None (Some (PKBool true)) None None None;
              mkCol "user_id" (TSimple Integer) false None None None None None (Some (FKStr ".x"))] [] in
  inline_fks_parse a = false
  /\ apply_action [user] a = Err TableValidation
  /\ apply_action (literal_schema "app_" [user]) (literal_action "app_" a) = Err TableValidation
  /\ fk_targets_of "app_post" (apply_action (literal_schema "app_" [user]) (action_with_prefix "app_" a))
     = Some ["app_"].

(* ---------- prefixing is a strictly monotone injection for the bytewise order ---------- *)
Theorem C14_compare_prefix : forall p a b, String.compare (p +++ a) (p +++ b) = String.compare a b.
Proof. exact compare_prefix. Qed.
Print Assumptions C14_compare_prefix.
Check C14_compare_prefix : forall p a b, String.compare (p +++ a) (p +++ b) = String.compare a b.

Theorem C14_append_inj : forall p a b, p +++ a = p +++ b -> a = b.
Proof. exact append_inj. Qed.
Print Assumptions C14_append_inj.
Check C14_append_inj : forall p a b, p +++ a = p +++ b -> a = b.

(* ---------- normalisation ---------- *)
Theorem C14_normalize_literal : forall p t n, no_dot p ->
  normalize t = Ok n -> normalize (literal_table p t) = Ok (literal_table p n).
Proof. exact normalize_literal. Qed.
Print Assumptions C14_normalize_literal.
Check C14_normalize_literal : forall p t n, contains_char "."%char p = false ->
  normalize t = Ok n -> normalize (literal_table p t) = Ok (literal_table p n).

Theorem C14_normalize_literal_err : forall p t e, no_dot p ->
  normalize t = Err e -> normalize (literal_table p t) = Err e.
Proof. exact normalize_literal_err. Qed.
Print Assumptions C14_normalize_literal_err.
Check C14_normalize_literal_err : forall p t e, contains_char "."%char p = false ->
  normalize t = Err e -> normalize (literal_table p t) = Err e.

Theorem C14_normalize_literal_dot_refuted :
  exists p t n, ~ no_dot p /\ normalize t = Ok n /\
    normalize (literal_table p t) = Err (InvalidForeignKeyFormat "user_id" "a.user.id").
Proof. exact normalize_literal_dot_refuted. Qed.
Print Assumptions C14_normalize_literal_dot_refuted.
Check C14_normalize_literal_dot_refuted :
  exists p t n, ~ contains_char "."%char p = false /\ normalize t = Ok n /\
    normalize (literal_table p t) = Err (InvalidForeignKeyFormat "user_id" "a.user.id").

(* ---------- the pending changes are the same with and without a prefix ---------- *)
Theorem C14_diff_equivariant : forall p A B, no_dot p ->
  diff_actions (literal_schema p A) (literal_schema p B)
  = match diff_actions A B with
    | Ok acts => Ok (map (literal_action p) acts)
    | Err e => Err e
    end.
Proof. exact diff_equivariant. Qed.
Print Assumptions C14_diff_equivariant.
Check C14_diff_equivariant : forall p A B, contains_char "."%char p = false ->
  diff_actions (literal_schema p A) (literal_schema p B)
  = match diff_actions A B with
    | Ok acts => Ok (map (literal_action p) acts)
    | Err e => Err e
    end.

Theorem C14_diff_empty_literal : forall p A B, no_dot p ->
  diff_empty (literal_schema p A) (literal_schema p B) = diff_empty A B.
Proof. exact diff_empty_literal. Qed.
Print Assumptions C14_diff_empty_literal.
Check C14_diff_empty_literal : forall p A B, contains_char "."%char p = false ->
  diff_empty (literal_schema p A) (literal_schema p B) = diff_empty A B.

(* ---------- apply_action / replay / plan_next ---------- *)
Theorem C14_apply_equivariant : forall p s a, no_dot p ->
  no_user_name_equals_derived p s a = true ->
  apply_action (literal_schema p s) (literal_action p a) = lift_apply p (apply_action s a).
Proof. exact apply_equivariant. Qed.
Print Assumptions C14_apply_equivariant.
Check C14_apply_equivariant : forall p s a, contains_char "."%char p = false ->
  no_user_name_equals_derived p s a = true ->
  apply_action (literal_schema p s) (literal_action p a)
  = match apply_action s a with
    | Ok s' => Ok (literal_schema p s')
    | Err e => Err (literal_perr p e)
    end.

(* without the side condition: a user-chosen index name equal to ix_{table}__{col} of the unprefixed
   table; the inline index flag is cleared without the prefix and survives with it *)
Theorem C14_apply_equivariant_refuted :
  no_user_name_equals_derived "app_" ar_schema ar_action = false
  /\ apply_action (literal_schema "app_" ar_schema) (literal_action "app_" ar_action)
     <> lift_apply "app_" (apply_action ar_schema ar_action)
  /\ inline_index_of "t" "c" (apply_action ar_schema ar_action) = Some None
  /\ inline_index_of "app_t" "c"
       (apply_action (literal_schema "app_" ar_schema) (literal_action "app_" ar_action))
     = Some (Some (SBool true)).
Proof. exact apply_equivariant_refuted. Qed.
Print Assumptions C14_apply_equivariant_refuted.
Check C14_apply_equivariant_refuted :
  let s := [mkTable "t" None
              [mkCol "id" (TSimple Integer) false None None (Some (PKBool true)) None None None;
               mkCol "c" (TSimple Integer) false None None None None (Some (SBool true)) None]
              [CPrimaryKey false ["id"]; CIndex (Some "ix_t__c") ["c"]]] in
  let a := RemoveConstraint "t" (CIndex (Some "ix_t__c") ["c"]) in
  no_user_name_equals_derived "app_" s a = false
  /\ apply_action (literal_schema "app_" s) (literal_action "app_" a)
     <> lift_apply "app_" (apply_action s a)
  /\ inline_index_of "t" "c" (apply_action s a) = Some None
  /\ inline_index_of "app_t" "c" (apply_action (literal_schema "app_" s) (literal_action "app_" a))
     = Some (Some (SBool true)).

Theorem C14_apply_all_equivariant : forall p acts s, no_dot p -> side_all p s acts = true ->
  apply_all (literal_schema p s) (map (literal_action p) acts) = lift_apply p (apply_all s acts).
Proof. exact apply_all_equivariant. Qed.
Print Assumptions C14_apply_all_equivariant.
Check C14_apply_all_equivariant : forall p acts s, contains_char "."%char p = false ->
  side_all p s acts = true ->
  apply_all (literal_schema p s) (map (literal_action p) acts)
  = match apply_all s acts with
    | Ok s' => Ok (literal_schema p s')
    | Err e => Err (literal_perr p e)
    end.

Theorem C14_with_prefix_replay : forall p pl s, p <> "" -> no_dot p ->
  forallb inline_fks_parse (p_actions pl) = true -> side_all p s (p_actions pl) = true ->
  apply_all (literal_schema p s) (p_actions (plan_with_prefix p pl))
  = lift_apply p (apply_all s (p_actions pl)).
Proof. exact with_prefix_replay. Qed.
Print Assumptions C14_with_prefix_replay.
Check C14_with_prefix_replay : forall p pl s, p <> "" -> contains_char "."%char p = false ->
  forallb inline_fks_parse (p_actions pl) = true -> side_all p s (p_actions pl) = true ->
  apply_all (literal_schema p s) (p_actions (plan_with_prefix p pl))
  = match apply_all s (p_actions pl) with
    | Ok s' => Ok (literal_schema p s')
    | Err e => Err (literal_perr p e)
    end.

Theorem C14_plan_next_equivariant : forall p current applied, no_dot p ->
  side_all p [] (flat_map p_actions applied) = true ->
  plan_next (literal_schema p current) (map (literal_plan p) applied)
  = match plan_next current applied with
    | Ok pl => Ok (literal_plan p pl)
    | Err e => Err (literal_plan_error p e)
    end.
Proof. exact plan_next_equivariant. Qed.
Print Assumptions C14_plan_next_equivariant.
Check C14_plan_next_equivariant : forall p current applied, contains_char "."%char p = false ->
  side_all p [] (flat_map p_actions applied) = true ->
  plan_next (literal_schema p current) (map (literal_plan p) applied)
  = match plan_next current applied with
    | Ok pl => Ok (literal_plan p pl)
    | Err e => Err (literal_plan_error p e)
    end.

Theorem C14_plan_next_with_prefix : forall p current applied, p <> "" -> no_dot p ->
  forallb (fun pl => forallb inline_fks_parse (p_actions pl)) applied = true ->
  side_all p [] (flat_map p_actions applied) = true ->
  plan_next (literal_schema p current) (map (plan_with_prefix p) applied)
  = match plan_next current applied with
    | Ok pl => Ok (literal_plan p pl)
    | Err e => Err (literal_plan_error p e)
    end.
Proof. exact plan_next_with_prefix. Qed.
Print Assumptions C14_plan_next_with_prefix.
Check C14_plan_next_with_prefix : forall p current applied, p <> "" -> contains_char "."%char p = false ->
  forallb (fun pl => forallb inline_fks_parse (p_actions pl)) applied = true ->
  side_all p [] (flat_map p_actions applied) = true ->
  plan_next (literal_schema p current) (map (plan_with_prefix p) applied)
  = match plan_next current applied with
    | Ok pl => Ok (literal_plan p pl)
    | Err e => Err (literal_plan_error p e)
    end.

(* ---------- the hypotheses are satisfiable, the statements are not vacuous ---------- *)
Example C14_prefix_plain : "app_" <> "" /\ no_dot "app_".
Proof. split; [discriminate | reflexivity]. Qed.

Example C14_inline_fks_parse_satisfiable :
  inline_fks_parse (CreateTable "post"
    [mkCol "id" (TSimple Integer) false None None (Some (PKBool true)) None None None;
     mkCol "user_id" (TSimple Integer) false None None None None None (Some (FKRef "user.id" (Some Cascade) None))]
    []) = true.
Proof. reflexivity. Qed.

Example C14_no_inline_fk_satisfiable :
  no_inline_fk (CreateTable "post"
    [mkCol "id" (TSimple Integer) false None None (Some (PKBool true)) None None None;
     mkCol "user_id" (TSimple Integer) false None None None None None None]
    [CForeignKey None ["user_id"] "user" ["id"] None None]) = true.
Proof. reflexivity. Qed.

(* a pair of model sets with creates (FK-ordered), deletes, a column change and an FK retarget:
   the plan has 7 actions, and so has the plan of the renamed project *)
Example C14_diff_nonvacuous :
  let pk n := mkCol n (TSimple Integer) false None None (Some (PKBool true)) None None None in
  let fk n r := mkCol n (TSimple Integer) false None None None None (Some (SBool true)) (Some (FKStr r)) in
  let A := [mkTable "zz" None [pk "id"; fk "u" "b.id"] [];
            mkTable "b" None [pk "id"; mkCol "x" (TSimple Text) true None None None None None None] [];
            mkTable "d1" None [pk "id"; fk "r" "d2.id"] [];
            mkTable "d2" None [pk "id"] []] in
  let B := [mkTable "zz" None [pk "id"; fk "u" "n1.id"] [];
            mkTable "b" None [pk "id"] [];
            mkTable "n1" None [pk "id"; fk "r" "n2.id"] [];
            mkTable "n2" None [pk "id"; fk "r" "b.id"] []] in
  exists acts, diff_actions A B = Ok acts /\ List.length acts = 7%nat
    /\ diff_actions (literal_schema "app_" A) (literal_schema "app_" B) = Ok (map (literal_action "app_") acts).
Proof. eexists. split; [vm_compute; reflexivity|]. split; vm_compute; reflexivity. Qed.

Example C14_side_condition_satisfiable :
  side_all "app_" [] [CreateTable "t"
      [mkCol "id" (TSimple Integer) false None None (Some (PKBool true)) None None None;
       mkCol "c" (TSimple Integer) false None None None None (Some (SBool true)) None] [];
    RemoveConstraint "t" (CIndex (Some "my_index") ["c"])] = true.
Proof. vm_compute. reflexivity. Qed.
