(* C06 — every prefix of a plan is a consistent schema: actions are ordered by dependency.
   The property is FALSE in general (DESIGN §7 D1, D2); what is pinned here:
     * the parts that are true, for all inputs: the fuelled Kahn sort never runs out of fuel, is
       duplicate free and sound (and complete on acyclic maps); created tables are in FK order;
       CreateTable precedes every FK AddConstraint that references it; the CreateTable actions of a
       whole diff are in FK order and its DeleteTable actions in reverse FK order (when the dropped
       tables do not reference each other cyclically); the whole property for an empty baseline
       (C06_core_partial);
     * concrete refutations of the parts that are false (with the classifier of the known finding);
     * the full-strength statement as a plain definition, so that the target stays visible.
   Pinned statements only: each theorem is closed by [exact] of a lemma proved in Proofs/. *)
From VV.M1 Require Import Diff Validate Oracles Known Hyp06 Hyp06b KahnP CreateOnlyP CreateDropP AlterP CoreAlterP.
From Coq Require Import Permutation.

(* ---------- the full-strength target (a definition, NOT a claim: it is refuted below) ---------- *)
Definition C06_full_statement : Prop :=
  forall B T, loader_accepts B = true -> loader_accepts T = true -> plan_stepwise_ok B T = true.

(* ---------- Kahn's algorithm as coded ---------- *)
Theorem C06_kahn_fuel_enough : forall deps : deps_map, NoDup (map fst deps) -> kahn deps <> None.
Proof. exact kahn_fuel_enough. Qed.
Print Assumptions C06_kahn_fuel_enough.
Check C06_kahn_fuel_enough : forall deps : deps_map, NoDup (map fst deps) -> kahn deps <> None.

Theorem C06_kahn_nodup : forall (deps : deps_map) order, NoDup (map fst deps) -> kahn deps = Some order ->
  NoDup order /\ incl order (map fst deps).
Proof. exact kahn_nodup. Qed.
Print Assumptions C06_kahn_nodup.
Check C06_kahn_nodup : forall (deps : deps_map) order, NoDup (map fst deps) -> kahn deps = Some order ->
  NoDup order /\ incl order (map fst deps).

(* a name is output after everything it depends on *)
Theorem C06_kahn_sound : forall (deps : deps_map) order, NoDup (map fst deps) -> kahn deps = Some order ->
  forall n ds d, In (n, ds) deps -> In n order -> In d ds ->
  exists l1 l2 l3, order = l1 ++ d :: l2 ++ n :: l3.
Proof. exact kahn_sound. Qed.
Print Assumptions C06_kahn_sound.
Check C06_kahn_sound : forall (deps : deps_map) order, NoDup (map fst deps) -> kahn deps = Some order ->
  forall n ds d, In (n, ds) deps -> In n order -> In d ds ->
  exists l1 l2 l3, order = l1 ++ d :: l2 ++ n :: l3.

(* acyclic (ranked) maps with duplicate-free, closed dependency lists are output entirely *)
Theorem C06_kahn_complete : forall (deps : deps_map) (rank : string -> nat),
  NoDup (map fst deps) ->
  (forall n ds, In (n, ds) deps -> NoDup ds /\ incl ds (map fst deps)) ->
  (forall n ds d, In (n, ds) deps -> In d ds -> rank d < rank n) ->
  exists order, kahn deps = Some order /\ Permutation order (map fst deps).
Proof. exact kahn_complete. Qed.
Print Assumptions C06_kahn_complete.
Check C06_kahn_complete : forall (deps : deps_map) (rank : string -> nat),
  NoDup (map fst deps) ->
  (forall n ds, In (n, ds) deps -> NoDup ds /\ incl ds (map fst deps)) ->
  (forall n ds d, In (n, ds) deps -> In d ds -> rank d < rank n) ->
  exists order, kahn deps = Some order /\ Permutation order (map fst deps).

(* ---------- topological_sort_tables ---------- *)
Theorem C06_topo_sort_sound : forall tables res,
  NoDup (map t_name tables) -> topo_sort tables = TopoOk res ->
  Permutation res tables /\
  forall t rt, In t res -> In rt (fk_targets t) -> rt <> t_name t -> In rt (map t_name tables) ->
    exists r l1 l2 l3, t_name r = rt /\ res = l1 ++ r :: l2 ++ t :: l3.
Proof. exact topo_sort_sound. Qed.
Print Assumptions C06_topo_sort_sound.
Check C06_topo_sort_sound : forall tables res,
  NoDup (map t_name tables) -> topo_sort tables = TopoOk res ->
  Permutation res tables /\
  forall t rt, In t res -> In rt (fk_targets t) -> rt <> t_name t -> In rt (map t_name tables) ->
    exists r l1 l2 l3, t_name r = rt /\ res = l1 ++ r :: l2 ++ t :: l3.

Theorem C06_topo_sort_complete : forall tables (rank : string -> nat),
  NoDup (map t_name tables) ->
  (forall t rt, In t tables -> In rt (fk_targets t) -> rt <> t_name t -> In rt (map t_name tables) ->
     rank rt < rank (t_name t)) ->
  exists res, topo_sort tables = TopoOk res.
Proof. exact topo_sort_complete. Qed.
Print Assumptions C06_topo_sort_complete.
Check C06_topo_sort_complete : forall tables (rank : string -> nat),
  NoDup (map t_name tables) ->
  (forall t rt, In t tables -> In rt (fk_targets t) -> rt <> t_name t -> In rt (map t_name tables) ->
     rank rt < rank (t_name t)) ->
  exists res, topo_sort tables = TopoOk res.

Theorem C06_topo_sort_never_out_of_fuel : forall tables, topo_sort tables <> TopoOutOfFuel.
Proof. exact topo_sort_never_out_of_fuel. Qed.
Print Assumptions C06_topo_sort_never_out_of_fuel.
Check C06_topo_sort_never_out_of_fuel : forall tables, topo_sort tables <> TopoOutOfFuel.

(* ---------- sort_create_before_add_constraint ---------- *)
Theorem C06_create_order_sound : forall acts,
  Permutation (sort_create_before_add_constraint acts) acts /\
  filter (fun a => match a with CreateTable _ _ _ => true | _ => false end) (sort_create_before_add_constraint acts)
    = filter (fun a => match a with CreateTable _ _ _ => true | _ => false end) acts /\
  forall i j t cols ks tb n c rc od ou,
    nth_error (sort_create_before_add_constraint acts) i = Some (CreateTable t cols ks) ->
    nth_error (sort_create_before_add_constraint acts) j = Some (AddConstraint tb (CForeignKey n c t rc od ou)) ->
    i < j.
Proof. exact create_order_sound. Qed.
Print Assumptions C06_create_order_sound.
Check C06_create_order_sound : forall acts,
  Permutation (sort_create_before_add_constraint acts) acts /\
  filter (fun a => match a with CreateTable _ _ _ => true | _ => false end) (sort_create_before_add_constraint acts)
    = filter (fun a => match a with CreateTable _ _ _ => true | _ => false end) acts /\
  forall i j t cols ks tb n c rc od ou,
    nth_error (sort_create_before_add_constraint acts) i = Some (CreateTable t cols ks) ->
    nth_error (sort_create_before_add_constraint acts) j = Some (AddConstraint tb (CForeignKey n c t rc od ou)) ->
    i < j.

(* ---------- the CreateTable actions of a whole diff ---------- *)
Theorem C06_diff_creates_in_fk_order : forall A B Bn acts,
  NoDup (map t_name B) -> normalize_all B = Ok Bn -> diff_actions A B = Ok acts ->
  forall t rt, In t Bn -> In rt (fk_targets t) -> rt <> t_name t ->
    In (t_name t) (created_tables acts) -> In rt (created_tables acts) ->
    exists l1 l2 l3, created_tables acts = l1 ++ rt :: l2 ++ t_name t :: l3.
Proof. exact diff_creates_in_fk_order. Qed.
Print Assumptions C06_diff_creates_in_fk_order.
Check C06_diff_creates_in_fk_order : forall A B Bn acts,
  NoDup (map t_name B) -> normalize_all B = Ok Bn -> diff_actions A B = Ok acts ->
  forall t rt, In t Bn -> In rt (fk_targets t) -> rt <> t_name t ->
    In (t_name t) (created_tables acts) -> In rt (created_tables acts) ->
    exists l1 l2 l3, created_tables acts = l1 ++ rt :: l2 ++ t_name t :: l3.

(* ---------- dropped tables: the referencing table goes first ---------- *)
Theorem C06_delete_deps_fuel_enough : forall acts all, kahn (delete_deps acts all) <> None.
Proof. exact delete_deps_fuel_enough. Qed.
Print Assumptions C06_delete_deps_fuel_enough.
Check C06_delete_deps_fuel_enough : forall acts all, kahn (delete_deps acts all) <> None.

(* delete_deps is literally the dependency map sort_delete_tables hands to kahn *)
Theorem C06_sort_delete_tables_unfold : forall acts all,
  sort_delete_tables acts all =
  if Nat.leb (List.length (filter is_delete_table acts)) 1 then acts
  else match kahn (delete_deps acts all) with
       | None => acts
       | Some order =>
           put_back acts (sort_by_key (fun a =>
             match find_index (String.eqb (delete_name a)) (rev order) with Some i => i | None => O end)
             (filter is_delete_table acts))
       end.
Proof. exact sort_delete_tables_unfold. Qed.
Print Assumptions C06_sort_delete_tables_unfold.
Check C06_sort_delete_tables_unfold : forall acts all,
  sort_delete_tables acts all =
  if Nat.leb (List.length (filter is_delete_table acts)) 1 then acts
  else match kahn (delete_deps acts all) with
       | None => acts
       | Some order =>
           put_back acts (sort_by_key (fun a =>
             match find_index (String.eqb (delete_name a)) (rev order) with Some i => i | None => O end)
             (filter is_delete_table acts))
       end.

Theorem C06_sort_delete_tables_sound : forall acts all (rank : string -> nat),
  (forall n td rt, In n (map delete_name (filter is_delete_table acts)) -> bt_get n all = Some td ->
     In rt (fk_targets td) -> rt <> n -> In rt (map delete_name (filter is_delete_table acts)) ->
     rank rt < rank n) ->
  forall x y td, In x (map delete_name (filter is_delete_table acts)) ->
    In y (map delete_name (filter is_delete_table acts)) ->
    bt_get x all = Some td -> In y (fk_targets td) -> y <> x ->
    exists l1 l2 l3,
      map delete_name (filter is_delete_table (sort_delete_tables acts all)) = l1 ++ x :: l2 ++ y :: l3.
Proof. exact sort_delete_tables_sound. Qed.
Print Assumptions C06_sort_delete_tables_sound.
Check C06_sort_delete_tables_sound : forall acts all (rank : string -> nat),
  (forall n td rt, In n (map delete_name (filter is_delete_table acts)) -> bt_get n all = Some td ->
     In rt (fk_targets td) -> rt <> n -> In rt (map delete_name (filter is_delete_table acts)) ->
     rank rt < rank n) ->
  forall x y td, In x (map delete_name (filter is_delete_table acts)) ->
    In y (map delete_name (filter is_delete_table acts)) ->
    bt_get x all = Some td -> In y (fk_targets td) -> y <> x ->
    exists l1 l2 l3,
      map delete_name (filter is_delete_table (sort_delete_tables acts all)) = l1 ++ x :: l2 ++ y :: l3.

Theorem C06_diff_deletes_in_fk_order : forall A B An acts (rank : string -> nat),
  NoDup (map t_name A) -> normalize_all A = Ok An -> diff_actions A B = Ok acts ->
  (forall t rt, In t An -> In (t_name t) (map delete_name (filter is_delete_table acts)) ->
     In rt (fk_targets t) -> rt <> t_name t -> In rt (map delete_name (filter is_delete_table acts)) ->
     rank rt < rank (t_name t)) ->
  forall t rt, In t An -> In (t_name t) (map delete_name (filter is_delete_table acts)) ->
    In rt (fk_targets t) -> rt <> t_name t -> In rt (map delete_name (filter is_delete_table acts)) ->
    exists l1 l2 l3, map delete_name (filter is_delete_table acts) = l1 ++ t_name t :: l2 ++ rt :: l3.
Proof. exact diff_deletes_in_fk_order. Qed.
Print Assumptions C06_diff_deletes_in_fk_order.
Check C06_diff_deletes_in_fk_order : forall A B An acts (rank : string -> nat),
  NoDup (map t_name A) -> normalize_all A = Ok An -> diff_actions A B = Ok acts ->
  (forall t rt, In t An -> In (t_name t) (map delete_name (filter is_delete_table acts)) ->
     In rt (fk_targets t) -> rt <> t_name t -> In rt (map delete_name (filter is_delete_table acts)) ->
     rank rt < rank (t_name t)) ->
  forall t rt, In t An -> In (t_name t) (map delete_name (filter is_delete_table acts)) ->
    In rt (fk_targets t) -> rt <> t_name t -> In rt (map delete_name (filter is_delete_table acts)) ->
    exists l1 l2 l3, map delete_name (filter is_delete_table acts) = l1 ++ t_name t :: l2 ++ rt :: l3.

(* ---------- the whole property on the sub-class "empty baseline" ---------- *)
(* PARTIAL: every non-empty baseline is missing (plans that drop, alter or extend existing tables); the
   hypothesis that the planner returns a plan excludes FK cycles among the new tables (C06_fk_cycle_refuted);
   the two classifier hypotheses hold trivially for an empty baseline and are kept for uniformity. *)
Theorem C06_core_partial : forall T,
  loader_accepts T = true ->
  known_drop_before_unreference [] T = false -> known_shrunk_constraint [] T = false ->
  (exists acts, diff_actions [] T = Ok acts) ->
  plan_stepwise_ok [] T = true.
Proof. exact CreateOnlyP.C06_core_partial. Qed.
Print Assumptions C06_core_partial.
Check C06_core_partial : forall T,
  loader_accepts T = true ->
  known_drop_before_unreference [] T = false -> known_shrunk_constraint [] T = false ->
  (exists acts, diff_actions [] T = Ok acts) ->
  plan_stepwise_ok [] T = true.

(* ---------- the whole property on the sub-class "tables are only added and removed" ---------- *)
(* PARTIAL: missing is every plan that alters a table common to baseline and target (where D1, D2 and the other
   known classes live).  Hypotheses: the baseline is a consistent normalisation fix-point (as replay produces),
   the common tables have the same columns and constraints in baseline and normalised target, the planner returns
   a plan (no FK cycle among the new tables), the dropped tables have no FK cycle (rank).  That no surviving
   table references a dropped one follows from these.  The plan is then creations in FK order followed by drops
   in reverse FK order, and every prefix of it is a consistent schema. *)
Theorem C06_core_partial2 : forall B T acts (rank : string -> nat),
  (forall b, In b B -> normalize b = Ok b) ->
  consistent B = true ->
  loader_accepts T = true ->
  (forall Tn b n, normalize_all T = Ok Tn -> In b B -> In n Tn -> t_name b = t_name n ->
     t_columns b = t_columns n /\ t_constraints b = t_constraints n) ->
  diff_actions B T = Ok acts ->
  (forall b rt, In b B -> ~ In (t_name b) (map t_name T) -> In rt (fk_targets b) -> rt <> t_name b ->
     In rt (map t_name B) -> ~ In rt (map t_name T) -> rank rt < rank (t_name b)) ->
  (forall a, In a acts -> match a with CreateTable _ _ _ => true | _ => false end = true \/ is_delete_table a = true) /\
  plan_stepwise_ok B T = true.
Proof. exact CreateDropP.C06_core_partial2. Qed.
Print Assumptions C06_core_partial2.
Check C06_core_partial2 : forall B T acts (rank : string -> nat),
  (forall b, In b B -> normalize b = Ok b) ->
  consistent B = true ->
  loader_accepts T = true ->
  (forall Tn b n, normalize_all T = Ok Tn -> In b B -> In n Tn -> t_name b = t_name n ->
     t_columns b = t_columns n /\ t_constraints b = t_constraints n) ->
  diff_actions B T = Ok acts ->
  (forall b rt, In b B -> ~ In (t_name b) (map t_name T) -> In rt (fk_targets b) -> rt <> t_name b ->
     In rt (map t_name B) -> ~ In rt (map t_name T) -> rank rt < rank (t_name b)) ->
  (forall a, In a acts -> match a with CreateTable _ _ _ => true | _ => false end = true \/ is_delete_table a = true) /\
  plan_stepwise_ok B T = true.

(* ---------- the whole property on the sub-class "common tables are altered by change-class groups" ---------- *)
(* PARTIAL: c06_change (Corr/Hyp06.v, a boolean on (baseline, models)) asks: the baseline is a consistent
   normalisation fix-point with distinct table names; the loader accepts the models; the planner returns a
   plan; every common table has distinct column names, no duplicated constraint, and a group of the C01
   "change" class (ModifyColumn*, AddColumn of plain columns, AddConstraint, RemoveConstraint of purely
   table-level constraints, DeleteColumn of plain columns no constraint mentions) whose AddConstraints find
   their columns; no surviving table references a dropped one; the dropped tables have no FK cycle; a dropped
   column is not referenced by a remaining foreign key; every model foreign key towards a baseline table names
   columns that table already has, and only new tables point at new tables.
   Missing for C06_full: columns with inline declarations added/dropped, constraints backed by inline
   declarations removed, and the refuted classes (D1, D2, reference added later, duplicate constraint,
   drop cycle, inherited inconsistent baseline). *)
Theorem C06_core_partial3 : forall B T, c06_change B T = true -> plan_stepwise_ok B T = true.
Proof. exact c06_change_sound. Qed.
Print Assumptions C06_core_partial3.
Check C06_core_partial3 : forall B T, c06_change B T = true -> plan_stepwise_ok B T = true.

Theorem C06_core_partial3_cases : forall c, hyp_C06_change c = true -> model_stepwise_ok c = true.
Proof. exact hyp_C06_change_sound. Qed.
Print Assumptions C06_core_partial3_cases.
Check C06_core_partial3_cases : forall c, hyp_C06_change c = true -> model_stepwise_ok c = true.

(* ---------- the whole property on the sub-class "common tables are altered by mix-class groups" ---------- *)
(* PARTIAL, strictly larger than C06_core_partial3: c06_core (Corr/Hyp06b.v) asks the same of the baseline,
   the models and the cross-table conditions (c06_cross) as c06_change, but the group of a common table may be
   of the C01 "mix" class (Corr/Hyp.v mix_only): added columns may carry inline unique / index / foreign_key
   declarations that are private to them and already listed by the normalised target (replay promotes them,
   the planner's AddConstraint is skipped); dropped columns may be mentioned by constraints over them alone
   (drop_column_from_constraints removes these, the planner emits no RemoveConstraint) and may carry inline
   declarations with private keys; a removed foreign key may be declared inline (RemoveConstraint clears the
   declaration); other removed constraints must not be the cover of an inline declaration.
   Still missing for C06_full: RemoveConstraint of unique / index constraints that clear an inline declaration,
   multi-column constraints all of whose columns are dropped, foreign keys from a common table to a table
   created by the same plan, and the refuted classes. *)
Theorem C06_core : forall B T, baseline_ok B = true -> c06_core B T = true -> plan_stepwise_ok B T = true.
Proof. exact c06_core_sound. Qed.
Print Assumptions C06_core.
Check C06_core : forall B T, baseline_ok B = true -> c06_core B T = true -> plan_stepwise_ok B T = true.

Theorem C06_core_cases : forall c, hyp_C06_core c = true -> model_stepwise_ok c = true.
Proof. exact hyp_C06_core_sound. Qed.
Print Assumptions C06_core_cases.
Check C06_core_cases : forall c, hyp_C06_core c = true -> model_stepwise_ok c = true.

(* ---------- refutations (R): the planner really emits these plans ---------- *)
(* D2: DeleteTable is emitted before the RemoveConstraint of a surviving table's FK to it *)
Theorem C06_delete_before_remove_fk_refuted :
  exists B T, loader_accepts B = true /\ loader_accepts T = true /\
              plan_stepwise_ok B T = false /\ known_drop_before_unreference B T = true.
Proof. exact KahnP.C06_delete_before_remove_fk_refuted. Qed.
Print Assumptions C06_delete_before_remove_fk_refuted.
Check C06_delete_before_remove_fk_refuted :
  exists B T, loader_accepts B = true /\ loader_accepts T = true /\
              plan_stepwise_ok B T = false /\ known_drop_before_unreference B T = true.

(* D1: DeleteColumn shrinks a multi-column constraint, the later RemoveConstraint names the original *)
Theorem C06_shrunk_constraint_refuted :
  exists B T, loader_accepts B = true /\ loader_accepts T = true /\
              plan_stepwise_ok B T = false /\ known_shrunk_constraint B T = true.
Proof. exact KahnP.C06_shrunk_constraint_refuted. Qed.
Print Assumptions C06_shrunk_constraint_refuted.
Check C06_shrunk_constraint_refuted :
  exists B T, loader_accepts B = true /\ loader_accepts T = true /\
              plan_stepwise_ok B T = false /\ known_shrunk_constraint B T = true.

(* an FK cycle among new tables: accepted by the loader, refused by the planner; outside both classifiers *)
Theorem C06_fk_cycle_refuted :
  exists B T, loader_accepts B = true /\ loader_accepts T = true /\
              diff_actions B T = Err DiffCycle /\ plan_stepwise_ok B T = false /\
              known_drop_before_unreference B T = false /\ known_shrunk_constraint B T = false.
Proof. exact KahnP.C06_fk_cycle_refuted. Qed.
Print Assumptions C06_fk_cycle_refuted.
Check C06_fk_cycle_refuted :
  exists B T, loader_accepts B = true /\ loader_accepts T = true /\
              diff_actions B T = Err DiffCycle /\ plan_stepwise_ok B T = false /\
              known_drop_before_unreference B T = false /\ known_shrunk_constraint B T = false.

(* dropping two tables that reference each other: neither order is consistent; outside both classifiers *)
Theorem C06_drop_fk_cycle_refuted :
  exists B T, loader_accepts B = true /\ loader_accepts T = true /\ consistent B = true /\
              diff_actions B T = Ok [DeleteTable "a"; DeleteTable "b"] /\ plan_stepwise_ok B T = false /\
              known_drop_before_unreference B T = false /\ known_shrunk_constraint B T = false.
Proof. exact KahnP.C06_drop_fk_cycle_refuted. Qed.
Print Assumptions C06_drop_fk_cycle_refuted.
Check C06_drop_fk_cycle_refuted :
  exists B T, loader_accepts B = true /\ loader_accepts T = true /\ consistent B = true /\
              diff_actions B T = Ok [DeleteTable "a"; DeleteTable "b"] /\ plan_stepwise_ok B T = false /\
              known_drop_before_unreference B T = false /\ known_shrunk_constraint B T = false.

(* the exact plans of the two known findings and the step at which each breaks *)
Theorem C06_delete_before_remove_fk_plan :
  consistent w_drop_B = true /\
  diff_actions w_drop_B w_drop_T = Ok [DeleteTable "user"; RemoveConstraint "post" w_fk] /\
  exists s1, apply_action w_drop_B (DeleteTable "user") = Ok s1 /\ consistent s1 = false.
Proof. exact KahnP.C06_delete_before_remove_fk_plan. Qed.
Print Assumptions C06_delete_before_remove_fk_plan.
Check C06_delete_before_remove_fk_plan :
  consistent w_drop_B = true /\
  diff_actions w_drop_B w_drop_T = Ok [DeleteTable "user"; RemoveConstraint "post" w_fk] /\
  exists s1, apply_action w_drop_B (DeleteTable "user") = Ok s1 /\ consistent s1 = false.

Theorem C06_shrunk_constraint_plan :
  consistent w_shrunk_B = true /\
  diff_actions w_shrunk_B w_shrunk_T =
    Ok [DeleteColumn "t" "b"; RemoveConstraint "t" (CIndex None ["a"; "b"]); AddConstraint "t" (CIndex None ["a"])] /\
  exists s1, apply_action w_shrunk_B (DeleteColumn "t" "b") = Ok s1 /\
             target_present s1 (RemoveConstraint "t" (CIndex None ["a"; "b"])) = false.
Proof. exact KahnP.C06_shrunk_constraint_plan. Qed.
Print Assumptions C06_shrunk_constraint_plan.
Check C06_shrunk_constraint_plan :
  consistent w_shrunk_B = true /\
  diff_actions w_shrunk_B w_shrunk_T =
    Ok [DeleteColumn "t" "b"; RemoveConstraint "t" (CIndex None ["a"; "b"]); AddConstraint "t" (CIndex None ["a"])] /\
  exists s1, apply_action w_shrunk_B (DeleteColumn "t" "b") = Ok s1 /\
             target_present s1 (RemoveConstraint "t" (CIndex None ["a"; "b"])) = false.

Theorem C06_full_statement_refuted : ~ C06_full_statement.
Proof. exact KahnP.C06_full_statement_refuted. Qed.
Print Assumptions C06_full_statement_refuted.
Check C06_full_statement_refuted : ~ (forall B T, loader_accepts B = true -> loader_accepts T = true -> plan_stepwise_ok B T = true).

(* ---------- non-vacuity ---------- *)
Example C06_kahn_nonvacuous :
  NoDup (map fst [("a", ["b"; "c"]); ("b", ["c"]); ("c", @nil string)]) /\
  kahn [("a", ["b"; "c"]); ("b", ["c"]); ("c", [])] = Some ["c"; "b"; "a"].
Proof. split; [repeat constructor; cbn; intuition discriminate | vm_compute; reflexivity]. Qed.

Example C06_topo_nonvacuous :
  exists res, topo_sort [mkTable "post" None [] [CForeignKey None ["user_id"] "user" ["id"] None None];
                         mkTable "user" None [] []] = TopoOk res /\ map t_name res = ["user"; "post"].
Proof. eexists. split; vm_compute; reflexivity. Qed.

Example C06_diff_creates_nonvacuous :
  exists acts, diff_actions [] [mkTable "post" None [w_pkcol "id"; w_fkcol "user_id" "user.id"] [];
                                mkTable "user" None [w_pkcol "id"] []] = Ok acts /\
               created_tables acts = ["user"; "post"].
Proof. eexists. split; vm_compute; reflexivity. Qed.

Example C06_core_partial_nonvacuous :
  let T := [mkTable "post" None [w_pkcol "id"; w_fkcol "user_id" "user.id"] [];
            mkTable "user" None [w_pkcol "id"] []] in
  loader_accepts T = true /\ (exists acts, diff_actions [] T = Ok acts) /\ plan_stepwise_ok [] T = true.
Proof. exact CreateOnlyP.C06_core_partial_nonvacuous. Qed.

(* three dropped tables c -> b -> a: the plan drops c, b, a *)
Example C06_diff_deletes_nonvacuous :
  exists acts,
    diff_actions [mkTable "a" None [w_pkcol "id"] [];
                  mkTable "b" None [w_pkcol "id"; w_fkcol "a_id" "a.id"] [];
                  mkTable "c" None [w_pkcol "id"; w_fkcol "b_id" "b.id"] []] [] = Ok acts /\
    map delete_name (filter is_delete_table acts) = ["c"; "b"; "a"].
Proof. eexists. split; vm_compute; reflexivity. Qed.

(* drop c -> b, keep user, add post -> user: the plan is [CreateTable post; DeleteTable c; DeleteTable b] *)
Example C06_core_partial2_nonvacuous :
  (forall b, In b w_cd_B -> normalize b = Ok b) /\ consistent w_cd_B = true /\ loader_accepts w_cd_T = true /\
  (exists acts, diff_actions w_cd_B w_cd_T = Ok acts /\ List.length acts = 3 /\
                created_tables acts = ["post"] /\ map delete_name (filter is_delete_table acts) = ["c"; "b"]) /\
  plan_stepwise_ok w_cd_B w_cd_T = true.
Proof. exact CreateDropP.C06_core_partial2_nonvacuous. Qed.

(* one table created, one dropped, a plain column and an index dropped, a column retyped / made NOT NULL /
   given a default, a plain column added together with a unique constraint on it: 9 actions *)
Example C06_core_partial3_nonvacuous :
  c06_change w_alt_B w_alt_T = true /\
  (exists acts, diff_actions w_alt_B w_alt_T = Ok acts /\ List.length acts = 9) /\
  plan_stepwise_ok w_alt_B w_alt_T = true.
Proof. exact AlterP.C06_core_partial3_nonvacuous. Qed.

(* outside c06_change: a column with an inline index dropped (its index goes with it), a foreign key declared
   inline removed (the declaration is cleared), a column with inline unique / named index / foreign key added
   (three AddConstraint skipped): 11 actions, every prefix consistent *)
Example C06_core_nonvacuous :
  baseline_ok C01HistP.w_core_B = true /\ c06_core C01HistP.w_core_B C01HistP.w_core_T = true /\
  c06_change C01HistP.w_core_B C01HistP.w_core_T = false /\
  (exists acts, diff_actions C01HistP.w_core_B C01HistP.w_core_T = Ok acts /\ List.length acts = 11) /\
  plan_stepwise_ok C01HistP.w_core_B C01HistP.w_core_T = true.
Proof. exact w_c06_core_hyp. Qed.
