(* C06 — every prefix of a plan is a consistent schema.  Pinned statements only. *)
From VV.M1 Require Import Oracles WitnessP.

Definition C06_full_statement : Prop :=
  forall B T, loader_accepts B = true -> loader_accepts T = true -> plan_stepwise_ok B T = true.

Theorem C06_delete_before_remove_fk_refuted : exists B T,
  loader_accepts B = true /\ loader_accepts T = true /\
  plan_stepwise_ok B T = false /\ known_drop_before_unreference B T = true.
Proof. exists d2_base, d2_target. repeat split; vm_compute; reflexivity. Qed.
Print Assumptions C06_delete_before_remove_fk_refuted.
Check C06_delete_before_remove_fk_refuted : exists B T,
  loader_accepts B = true /\ loader_accepts T = true /\
  plan_stepwise_ok B T = false /\ known_drop_before_unreference B T = true.

Theorem C06_shrunk_constraint_refuted : exists B T,
  loader_accepts B = true /\ loader_accepts T = true /\
  plan_stepwise_ok B T = false /\ known_shrunk_constraint B T = true.
Proof. exists d1_base, d1_target. repeat split; vm_compute; reflexivity. Qed.
Print Assumptions C06_shrunk_constraint_refuted.
Check C06_shrunk_constraint_refuted : exists B T,
  loader_accepts B = true /\ loader_accepts T = true /\
  plan_stepwise_ok B T = false /\ known_shrunk_constraint B T = true.
