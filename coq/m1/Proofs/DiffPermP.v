(* The three re-ordering passes of diff_schemas only permute: the plan is a permutation of
   deletes ++ per-table groups ++ creates.  Hence the subsequence of the plan that names one table
   is a permutation of that table's own block, which is computed here exactly. *)
From VV.M1 Require Import Oracles Hyp NormalizeP BtP SortP DiffP DiffEqP ApplyLocalP.
From Coq Require Import Lia Permutation.

(* ---------- sort_delete_tables ---------- *)
Lemma put_back_perm : forall acts sorted,
  List.length sorted = List.length (filter is_delete_table acts) ->
  Permutation (put_back acts sorted) (sorted ++ filter (fun a => negb (is_delete_table a)) acts).
Proof.
  induction acts as [|a r IH]; intros sorted Hlen; cbn [put_back filter].
  - destruct sorted; [constructor|discriminate].
  - cbn [filter] in Hlen. destruct (is_delete_table a); cbn [negb].
    + destruct sorted as [|s ss]; [discriminate|]. cbn [List.length] in Hlen.
      cbn [app]. apply perm_skip. apply IH. lia.
    + apply Permutation_cons_app. now apply IH.
Qed.

Lemma filter_partition_perm {A} (p : A -> bool) : forall l,
  Permutation l (filter p l ++ filter (fun a => negb (p a)) l).
Proof.
  induction l as [|x l IH]; cbn [filter]; [constructor|].
  destruct (p x); cbn [negb app]; [now apply perm_skip|now apply Permutation_cons_app].
Qed.

Lemma sort_delete_tables_perm acts all : Permutation (sort_delete_tables acts all) acts.
Proof.
  unfold sort_delete_tables. cbv zeta.
  destruct (Nat.leb _ 1); [apply Permutation_refl|].
  destruct (kahn _) as [order|]; [|apply Permutation_refl].
  match goal with |- Permutation (put_back acts (sort_by_key ?pos ?dels)) _ =>
    pose proof (sort_by_key_perm pos dels) as P end.
  eapply Permutation_trans; [apply put_back_perm; apply (Permutation_length P)|].
  eapply Permutation_trans; [apply Permutation_app_tail; exact P|].
  apply Permutation_sym, filter_partition_perm.
Qed.

Lemma sort_create_perm acts : Permutation (sort_create_before_add_constraint acts) acts.
Proof.
  unfold sort_create_before_add_constraint. destruct (created_tables acts); [apply Permutation_refl|].
  apply sort_by_key_perm.
Qed.

(* ---------- sort_enum_default_dependencies ---------- *)
Lemma update_nth_perm {A} : forall (l : list A) i a x,
  nth_error l i = Some a -> Permutation (x :: l) (a :: update_nth i x l).
Proof.
  induction l as [|y r IH]; intros [|i] a x H; cbn [nth_error] in H; try discriminate.
  - inversion H; subst y. cbn [update_nth]. apply perm_swap.
  - cbn [update_nth]. eapply Permutation_trans; [apply perm_swap|].
    eapply Permutation_trans; [apply perm_skip, (IH i a x H)|]. apply perm_swap.
Qed.
Lemma nth_error_update_nth {A} : forall (l : list A) i j a b,
  nth_error l i = Some a -> nth_error l j = Some b -> nth_error (update_nth i b l) j = Some b.
Proof.
  induction l as [|y r IH]; intros [|i] [|j] a b Hi Hj; cbn [nth_error] in *; try discriminate;
    cbn [update_nth nth_error]; try reflexivity; try assumption.
  eapply IH; eassumption.
Qed.
Lemma swap_nth_perm {A} i j (l : list A) : Permutation (swap_nth i j l) l.
Proof.
  unfold swap_nth. destruct (nth_error l i) as [a|] eqn:Ei; [|apply Permutation_refl].
  destruct (nth_error l j) as [b|] eqn:Ej; [|apply Permutation_refl].
  apply Permutation_sym, (Permutation_cons_inv (a := b)).
  eapply Permutation_trans; [apply (update_nth_perm l i a b Ei)|].
  apply update_nth_perm. eapply nth_error_update_nth; eassumption.
Qed.
Lemma swaps_perm {A} : forall (sw : list (nat * nat)) (l : list A),
  Permutation (fold_left (fun l ij => swap_nth (fst ij) (snd ij) l) sw l) l.
Proof.
  induction sw as [|ij sw IH]; intro l; cbn [fold_left]; [apply Permutation_refl|].
  eapply Permutation_trans; [apply IH|apply swap_nth_perm].
Qed.
Lemma sort_enum_perm acts fm : Permutation (sort_enum_default_dependencies acts fm) acts.
Proof. unfold sort_enum_default_dependencies. apply swaps_perm. Qed.

(* ---------- the plan is a permutation of its three blocks ---------- *)
Definition create_of (o : list (string * table_def)) (t : table_def) : list action :=
  match bt_get (t_name t) o with
  | Some o' => [CreateTable (t_name o') (t_columns o') (t_constraints o')]
  | None => []
  end.

Theorem diff_core_perm fm tm o acts : diff_core fm tm o = Ok acts ->
  exists sorted, topo_sort (diff_new fm tm) = TopoOk sorted /\
    Permutation acts (diff_deletes fm tm ++ diff_updates fm tm ++ flat_map (create_of o) sorted).
Proof.
  unfold diff_core. destruct (topo_sort (diff_new fm tm)) as [sorted| |]; try discriminate.
  cbv zeta. intro H. inversion H; subst acts; clear H. exists sorted. split; [reflexivity|].
  eapply Permutation_trans; [apply sort_enum_perm|].
  eapply Permutation_trans; [apply sort_create_perm|].
  apply sort_delete_tables_perm.
Qed.

(* ---------- the subsequence naming one table ---------- *)
Lemma filter_all {A} (p : A -> bool) : forall l, (forall x, In x l -> p x = true) -> filter p l = l.
Proof.
  induction l as [|x l IH]; intro H; cbn [filter]; [reflexivity|].
  rewrite (H x (or_introl eq_refl)). f_equal. apply IH. intros y Hy. apply H. now right.
Qed.

Lemma filter_perm {A} (p : A -> bool) l l' : Permutation l l' -> Permutation (filter p l) (filter p l').
Proof.
  induction 1 as [|x l l' Hp IH|x y l|l l' l'' Hp1 IH1 Hp2 IH2]; cbn [filter].
  - constructor.
  - destruct (p x); [now apply perm_skip|exact IH].
  - destruct (p x), (p y); try apply Permutation_refl. apply perm_swap.
  - eapply Permutation_trans; eassumption.
Qed.

Section Keyed.
  Context {X : Type} (key : X -> string) (f : X -> list action).
  Hypothesis f_on : forall x a, In a (f x) -> act_table a = Some (key x).

  Lemma filter_on_block n x : filter (on_table n) (f x) = if String.eqb (key x) n then f x else [].
  Proof.
    destruct (String.eqb (key x) n) eqn:E.
    - apply filter_all. intros a Ha. unfold on_table. now rewrite (f_on x a Ha).
    - apply filter_nil. intros a Ha. unfold on_table. now rewrite (f_on x a Ha).
  Qed.

  Lemma filter_flat_map_keyed n : forall l, NoDup (map key l) ->
    filter (on_table n) (flat_map f l) =
    match find (fun x => String.eqb (key x) n) l with Some x => f x | None => [] end.
  Proof.
    induction l as [|x l IH]; intro Hnd; cbn [flat_map find]; [reflexivity|].
    inversion Hnd as [|y l' Hy Hnd']; subst y l'.
    rewrite filter_app, filter_on_block, (IH Hnd').
    destruct (String.eqb (key x) n) eqn:E; [|reflexivity].
    apply String.eqb_eq in E.
    destruct (find (fun x0 => String.eqb (key x0) n) l) as [z|] eqn:Ez; [|apply app_nil_r].
    exfalso. apply find_some in Ez. destruct Ez as [Hz Ek]. apply String.eqb_eq in Ek.
    apply Hy. rewrite E, <- Ek. now apply in_map.
  Qed.
End Keyed.

Lemma bt_get_find {V} n : forall m : list (string * V),
  bt_get n m = option_map snd (find (fun kv => String.eqb (fst kv) n) m).
Proof.
  induction m as [|[k v] m IH]; cbn [bt_get find fst]; [reflexivity|].
  rewrite (str_eqb_sym n k). destruct (String.eqb k n); [reflexivity|exact IH].
Qed.

Lemma filter_flat_map_bt {V} (f : string * V -> list action) (m : list (string * V)) n :
  (forall kv a, In a (f kv) -> act_table a = Some (fst kv)) -> NoDup (map fst m) ->
  filter (on_table n) (flat_map f m) = match bt_get n m with Some v => f (n, v) | None => [] end.
Proof.
  intros Hf Hnd. rewrite (filter_flat_map_keyed fst f Hf n m Hnd), bt_get_find.
  destruct (find _ m) as [[k v]|] eqn:E; cbn [option_map snd]; [|reflexivity].
  apply find_some in E. destruct E as [_ E]. cbn [fst] in E. apply String.eqb_eq in E. now subst k.
Qed.

(* every action of a table's group names that table *)
Lemma table_group_on name ft tt a : In a (table_group name ft tt) -> act_table a = Some name.
Proof.
  unfold table_group. cbv zeta. rewrite !in_app_iff.
  intros [H|[H|[H|[H|[H|[H|[H|H]]]]]]].
  - apply in_map_iff in H. destruct H as [c [<- _]]. reflexivity.
  - apply in_flat_map in H. destruct H as [kv [_ H]]. destruct (bt_get _ _); [|destruct H].
    destruct (_ || _)%bool; [destruct H as [<-|[]]; reflexivity|destruct H].
  - apply in_flat_map in H. destruct H as [kv [_ H]]. destruct (bt_get _ _); [|destruct H].
    destruct (Bool.eqb _ _); [destruct H|destruct H as [<-|[]]; reflexivity].
  - apply in_flat_map in H. destruct H as [kv [_ H]]. destruct (bt_get _ _); [|destruct H].
    destruct (opt_str_eqb _ _); [destruct H|destruct H as [<-|[]]; reflexivity].
  - apply in_flat_map in H. destruct H as [kv [_ H]]. destruct (bt_get _ _); [|destruct H].
    destruct (opt_str_eqb _ _); [destruct H|destruct H as [<-|[]]; reflexivity].
  - apply in_flat_map in H. destruct H as [kv [_ H]].
    destruct (bt_mem _ _); [destruct H|destruct H as [<-|[]]; reflexivity].
  - apply in_flat_map in H. destruct H as [fc [_ H]].
    destruct (contains_constraint _ _); [destruct H|].
    destruct (_ && _)%bool; [destruct H|destruct H as [<-|[]]; reflexivity].
  - apply in_flat_map in H. destruct H as [tc [_ H]].
    destruct (contains_constraint _ _); [destruct H|destruct H as [<-|[]]; reflexivity].
Qed.

Lemma filter_deletes n fm tm : NoDup (map fst fm) ->
  filter (on_table n) (diff_deletes fm tm) =
  match bt_get n fm with
  | Some _ => if bt_mem n tm then [] else [DeleteTable n]
  | None => []
  end.
Proof.
  intro Hnd. unfold diff_deletes. rewrite filter_flat_map_bt; [| |exact Hnd].
  - destruct (bt_get n fm); reflexivity.
  - intros kv a Ha. destruct (bt_mem _ _); [destruct Ha|destruct Ha as [<-|[]]; reflexivity].
Qed.

Lemma filter_updates n fm tm : NoDup (map fst tm) ->
  filter (on_table n) (diff_updates fm tm) =
  match bt_get n tm with
  | Some t2 => match bt_get n fm with Some ft => table_group n ft t2 | None => [] end
  | None => []
  end.
Proof.
  intro Hnd. unfold diff_updates. rewrite filter_flat_map_bt; [| |exact Hnd].
  - destruct (bt_get n tm); reflexivity.
  - intros kv a Ha. destruct (bt_get _ _); [|destruct Ha]. eapply table_group_on; exact Ha.
Qed.

Lemma filter_creates n o sorted : NoDup (map t_name sorted) ->
  (forall k v, bt_get k o = Some v -> t_name v = k) ->
  filter (on_table n) (flat_map (create_of o) sorted) =
  match find_t n sorted with Some t => create_of o t | None => [] end.
Proof.
  intros Hnd Ho. apply (filter_flat_map_keyed t_name (create_of o)); [|exact Hnd].
  intros t a Ha. unfold create_of in Ha. destruct (bt_get _ o) as [o'|] eqn:E; [|destruct Ha].
  destruct Ha as [<-|[]]. cbn [act_table]. f_equal. now apply Ho.
Qed.

(* all planned actions name exactly one table *)
Lemma diff_blocks_single fm tm o sorted a :
  In a (diff_deletes fm tm ++ diff_updates fm tm ++ flat_map (create_of o) sorted) -> act_table a <> None.
Proof.
  rewrite !in_app_iff. intros [H|[H|H]].
  - apply in_flat_map in H. destruct H as [kv [_ H]].
    destruct (bt_mem _ _); [destruct H|destruct H as [<-|[]]; discriminate].
  - apply in_flat_map in H. destruct H as [kv [_ H]]. destruct (bt_get _ _); [|destruct H].
    rewrite (table_group_on _ _ _ _ H). discriminate.
  - apply in_flat_map in H. destruct H as [t [_ H]]. unfold create_of in H.
    destruct (bt_get _ _); [|destruct H]. destruct H as [<-|[]]. discriminate.
Qed.
