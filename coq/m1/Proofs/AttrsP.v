(* One table, one group of the plan.  When the group that diff computes for a surviving table only
   contains ModifyColumnType / ModifyColumnNullable / ModifyColumnDefault / ModifyColumnComment, then
   applying it IN ANY ORDER to the baseline table (distinct column names, normalisation fix-point)
   succeeds, gives a normalisation fix-point again, and what it gives is table_equiv to the target. *)
From VV.M1 Require Import Oracles Hyp NormalizeP BtP DiffP DiffEqP ApplyLocalP.
From Coq Require Import Lia Permutation.

(* ---------- equivalences are reflexive / symmetric ---------- *)
Lemma col_equiv_refl c : col_equiv c c.
Proof. unfold col_equiv. rewrite requires_migration_refl, needs_enum_rename_refl. repeat split. Qed.

Lemma dec_b_sym {A} (d : forall x y : A, {x = y} + {x <> y}) x y : dec_b d x y = dec_b d y x.
Proof. unfold dec_b. destruct (d x y), (d y x); congruence. Qed.

Lemma requires_migration_sym a b : requires_migration a b = requires_migration b a.
Proof.
  destruct a, b; cbn [requires_migration]; unfold column_type_eqb;
    try (f_equal; apply dec_b_sym).
  rewrite (andb_comm (ev_is_integer values)). destruct (_ && _)%bool; [reflexivity|].
  f_equal. apply dec_b_sym.
Qed.
Lemma needs_enum_rename_sym a b : needs_enum_rename a b = needs_enum_rename b a.
Proof.
  destruct a, b; cbn [needs_enum_rename]; try reflexivity.
  rewrite (str_eqb_sym name name0).
  destruct (String.eqb name0 name), (ev_is_integer values), (ev_is_integer values0); reflexivity.
Qed.
Lemma col_equiv_sym a b : col_equiv a b -> col_equiv b a.
Proof.
  unfold col_equiv. intros (H1 & H2 & H3 & H4 & H5).
  rewrite requires_migration_sym, needs_enum_rename_sym. repeat split; congruence.
Qed.
Lemma opt_rel_sym {A} (R : A -> A -> Prop) (a b : option A) :
  (forall x y, R x y -> R y x) -> opt_rel R a b -> opt_rel R b a.
Proof. intro HR. destruct a, b; cbn [opt_rel]; auto. Qed.
Lemma table_equiv_sym a b : table_equiv a b -> table_equiv b a.
Proof.
  intros (Hc & H1 & H2). split; [|split; assumption].
  intro k. apply (opt_rel_sym col_equiv _ _ col_equiv_sym). apply Hc.
Qed.
Lemma schema_equiv_sym A B : schema_equiv A B -> schema_equiv B A.
Proof.
  intros (An & Bn & HA & HB & H). exists Bn, An. split; [exact HB|split; [exact HA|]].
  intro k. apply (opt_rel_sym table_equiv _ _ table_equiv_sym). apply H.
Qed.

Lemma table_equiv_same a b :
  t_columns a = t_columns b -> t_constraints a = t_constraints b -> table_equiv a b.
Proof.
  intros H1 H2. split; [|rewrite H2; split; apply incl_refl].
  intro k. unfold col_named. rewrite H1. destruct (bt_get _ _); cbn [opt_rel]; [apply col_equiv_refl|exact I].
Qed.

(* ---------- normalisation only looks at column names and inline declarations ---------- *)
Definition canon (c : column_def) : column_def :=
  mkCol (c_name c) (TSimple Integer) true None None (c_primary_key c) (c_unique c) (c_index c) (c_foreign_key c).

Lemma pk_cols_of_canon cols : pk_cols_of (map canon cols) = pk_cols_of cols.
Proof.
  unfold pk_cols_of. induction cols as [|c r IH]; cbn [map flat_map]; [reflexivity|].
  now rewrite IH.
Qed.
Lemma pk_auto_of_canon cols : pk_auto_of (map canon cols) = pk_auto_of cols.
Proof.
  unfold pk_auto_of. induction cols as [|c r IH]; cbn [map existsb]; [reflexivity|].
  now rewrite IH.
Qed.
Lemma unique_groups_canon cols : unique_groups (map canon cols) = unique_groups cols.
Proof.
  unfold unique_groups. generalize (@nil group) as gs.
  induction cols as [|c r IH]; intro gs; cbn [map fold_left]; [reflexivity|].
  rewrite IH. reflexivity.
Qed.
Lemma pass_fk_canon cols : forall cs, pass_fk (map canon cols) cs = pass_fk cols cs.
Proof.
  induction cols as [|c r IH]; intro cs; cbn [map pass_fk]; [reflexivity|].
  change (c_foreign_key (canon c)) with (c_foreign_key c).
  change (c_name (canon c)) with (c_name c).
  destruct (c_foreign_key c) as [f|]; [|apply IH].
  destruct (fk_of_syntax (c_name c) f) as [[[[t rc] od] ou]|e]; [|reflexivity].
  destruct (existsb _ cs); apply IH.
Qed.
Lemma index_groups_canon cols : forall gs, index_groups (map canon cols) gs = index_groups cols gs.
Proof.
  induction cols as [|c r IH]; intro gs; cbn [map index_groups]; [reflexivity|].
  change (index_groups_step gs (canon c)) with (index_groups_step gs c).
  destruct (index_groups_step gs c); [apply IH|reflexivity].
Qed.
Lemma normalize_constraints_canon cols cs :
  normalize_constraints (map canon cols) cs = normalize_constraints cols cs.
Proof.
  unfold normalize_constraints, pass_pk, pass_unique. cbv zeta.
  now rewrite pk_cols_of_canon, pk_auto_of_canon, unique_groups_canon, pass_fk_canon, index_groups_canon.
Qed.

Lemma normalize_fix_inv t : normalize t = Ok t ->
  normalize_constraints (t_columns t) (t_constraints t) = Ok (t_constraints t).
Proof.
  unfold normalize. destruct (normalize_constraints _ _) as [cs|e]; [|discriminate].
  intro H. injection H as H'. apply (f_equal t_constraints) in H'. cbn [t_constraints] in H'. now subst cs.
Qed.

Lemma normalize_same_view t n d cols :
  normalize t = Ok t -> map canon cols = map canon (t_columns t) ->
  normalize (mkTable n d cols (t_constraints t)) = Ok (mkTable n d cols (t_constraints t)).
Proof.
  intros Hf Hc. apply normalize_fix_inv in Hf. unfold normalize. cbn [t_columns t_constraints t_name t_description].
  now rewrite <- normalize_constraints_canon, Hc, normalize_constraints_canon, Hf.
Qed.

(* ---------- what an attribute action does to a column / to a table with distinct column names ---------- *)
Definition col_apply (a : action) (c : column_def) : column_def :=
  match a with
  | ModifyColumnType _ k ty _ => if String.eqb (c_name c) k then set_type ty c else c
  | ModifyColumnNullable _ k nu _ => if String.eqb (c_name c) k then set_nullable nu c else c
  | ModifyColumnDefault _ k d => if String.eqb (c_name c) k then set_default (option_map default_of_string d) c else c
  | ModifyColumnComment _ k cm => if String.eqb (c_name c) k then set_comment cm c else c
  | _ => c
  end.
Definition attr_col (a : action) : string :=
  match a with
  | ModifyColumnType _ k _ _ | ModifyColumnNullable _ k _ _ | ModifyColumnDefault _ k _
  | ModifyColumnComment _ k _ => k
  | _ => ""
  end.
Definition upd (L : list action) (c : column_def) : column_def := fold_left (fun c a => col_apply a c) L c.
Definition map_cols (h : column_def -> column_def) (t : table_def) : table_def :=
  mkTable (t_name t) (t_description t) (map h (t_columns t)) (t_constraints t).

Lemma col_apply_name a c : c_name (col_apply a c) = c_name c.
Proof. destruct a; cbn [col_apply]; try reflexivity; destruct (String.eqb _ _); reflexivity. Qed.
Lemma canon_col_apply a c : canon (col_apply a c) = canon c.
Proof. destruct a; cbn [col_apply]; try reflexivity; destruct (String.eqb _ _); reflexivity. Qed.
Lemma upd_name : forall L c, c_name (upd L c) = c_name c.
Proof.
  unfold upd. induction L as [|a L IH]; intro c; cbn [fold_left]; [reflexivity|].
  now rewrite IH, col_apply_name.
Qed.
Lemma canon_upd : forall L c, canon (upd L c) = canon c.
Proof.
  unfold upd. induction L as [|a L IH]; intro c; cbn [fold_left]; [reflexivity|].
  now rewrite IH, canon_col_apply.
Qed.
Lemma upd_snoc L a c : upd (L ++ [a]) c = col_apply a (upd L c).
Proof. unfold upd. now rewrite fold_left_app. Qed.

Lemma map_id_on {A} (g : A -> A) : forall l, (forall x, In x l -> g x = x) -> map g l = l.
Proof.
  induction l as [|x l IH]; intro H; cbn [map]; [reflexivity|].
  rewrite (H x (or_introl eq_refl)). f_equal. apply IH. intros y Hy. apply H. now right.
Qed.

Lemma update_first_col_map (f : column_def -> column_def) k :
  forall cols, NoDup (map c_name cols) -> In k (map c_name cols) ->
  update_first_col k f cols = Some (map (fun c => if String.eqb (c_name c) k then f c else c) cols).
Proof.
  induction cols as [|c r IH]; intros Hnd Hin; [destruct Hin|].
  cbn [update_first_col map]. cbn [map] in Hnd, Hin. inversion Hnd as [|y l Hy Hnd']; subst y l.
  destruct (String.eqb (c_name c) k) eqn:E.
  - apply String.eqb_eq in E. f_equal. f_equal. symmetry. apply map_id_on.
    intros x Hx. destruct (String.eqb (c_name x) k) eqn:Ex; [|reflexivity].
    apply String.eqb_eq in Ex. exfalso. apply Hy. rewrite E, <- Ex. now apply in_map.
  - apply String.eqb_neq in E. destruct Hin as [Hin|Hin]; [contradiction|].
    now rewrite (IH Hnd' Hin).
Qed.

Lemma table_fn_attr a t :
  is_attr_action a = true -> NoDup (colnames t) -> In (attr_col a) (colnames t) ->
  table_fn a t = Ok (map_cols (col_apply a) t).
Proof.
  unfold colnames. intros Ha Hnd Hin.
  destruct a; try discriminate; cbn [table_fn attr_col] in *; unfold update_column;
    rewrite (update_first_col_map _ _ _ Hnd Hin); reflexivity.
Qed.
Lemma apply_table_attr a t : is_attr_action a = true ->
  apply_table (Some t) a = match table_fn a t with Ok t' => Ok (Some t') | Err e => Err e end.
Proof. destruct a; try discriminate; reflexivity. Qed.

Lemma map_cols_id t : map_cols (upd []) t = t.
Proof. destruct t. unfold map_cols. cbn. now rewrite map_id. Qed.

Lemma proj_all_attrs : forall L t,
  (forall a, In a L -> is_attr_action a = true /\ In (attr_col a) (colnames t)) ->
  NoDup (colnames t) ->
  proj_all (Some t) L = Ok (Some (map_cols (upd L) t)).
Proof.
  induction L as [|a L IH]; intros t H Hnd.
  - cbn [proj_all]. now rewrite map_cols_id.
  - destruct (H a (or_introl eq_refl)) as [Ha Hin]. cbn [proj_all].
    rewrite (apply_table_attr a t Ha), (table_fn_attr a t Ha Hnd Hin).
    assert (Hn : colnames (map_cols (col_apply a) t) = colnames t).
    { unfold colnames, map_cols. cbn [t_columns]. rewrite map_map. apply map_ext. apply col_apply_name. }
    rewrite IH.
    + unfold map_cols. cbn [t_name t_description t_columns t_constraints]. now rewrite map_map.
    + intros b Hb. rewrite Hn. apply H. now right.
    + now rewrite Hn.
Qed.

(* ---------- one field of one column after a list of attribute actions ---------- *)
Section Upd.
  Context {X : Type} (k : string) (g : column_def -> X) (sets : action -> option X).
  Hypothesis g_apply : forall a c, c_name c = k ->
    g (col_apply a c) = match sets a with Some v => v | None => g c end.

  Lemma upd_unset : forall L c, c_name c = k -> (forall a, In a L -> sets a = None) -> g (upd L c) = g c.
  Proof.
    induction L as [|a L IH] using rev_ind; intros c Hc H; [reflexivity|].
    rewrite upd_snoc, g_apply; [|now rewrite upd_name].
    rewrite (H a); [|apply in_or_app; right; now left].
    apply IH; [exact Hc|]. intros b Hb. apply H. apply in_or_app. now left.
  Qed.

  Lemma upd_set : forall L c v0, c_name c = k ->
    (forall a v, In a L -> sets a = Some v -> v = v0) ->
    (exists a, In a L /\ sets a = Some v0) -> g (upd L c) = v0.
  Proof.
    induction L as [|a L IH] using rev_ind; intros c v0 Hc Hfun [a0 [Hin Hs]]; [destruct Hin|].
    rewrite upd_snoc, g_apply; [|now rewrite upd_name].
    destruct (sets a) as [v|] eqn:Ea.
    - apply (Hfun a v); [apply in_or_app; right; now left|exact Ea].
    - apply IH; [exact Hc| |].
      + intros b v Hb. apply Hfun. apply in_or_app. now left.
      + apply in_app_or in Hin. destruct Hin as [Hin|[<-|[]]]; [eauto|congruence].
  Qed.
End Upd.

Definition sets_type (k : string) (a : action) : option column_type :=
  match a with ModifyColumnType _ c ty _ => if String.eqb k c then Some ty else None | _ => None end.
Definition sets_nullable (k : string) (a : action) : option bool :=
  match a with ModifyColumnNullable _ c nu _ => if String.eqb k c then Some nu else None | _ => None end.
Definition sets_default (k : string) (a : action) : option (option default_value) :=
  match a with
  | ModifyColumnDefault _ c d => if String.eqb k c then Some (option_map default_of_string d) else None
  | _ => None
  end.
Definition sets_comment (k : string) (a : action) : option (option string) :=
  match a with ModifyColumnComment _ c cm => if String.eqb k c then Some cm else None | _ => None end.

Lemma g_apply_type k a c : c_name c = k ->
  c_type (col_apply a c) = match sets_type k a with Some v => v | None => c_type c end.
Proof. intros <-. destruct a; cbn [col_apply sets_type]; try reflexivity; destruct (String.eqb _ _); reflexivity. Qed.
Lemma g_apply_nullable k a c : c_name c = k ->
  c_nullable (col_apply a c) = match sets_nullable k a with Some v => v | None => c_nullable c end.
Proof. intros <-. destruct a; cbn [col_apply sets_nullable]; try reflexivity; destruct (String.eqb _ _); reflexivity. Qed.
Lemma g_apply_default k a c : c_name c = k ->
  c_default (col_apply a c) = match sets_default k a with Some v => v | None => c_default c end.
Proof. intros <-. destruct a; cbn [col_apply sets_default]; try reflexivity; destruct (String.eqb _ _); reflexivity. Qed.
Lemma g_apply_comment k a c : c_name c = k ->
  c_comment (col_apply a c) = match sets_comment k a with Some v => v | None => c_comment c end.
Proof. intros <-. destruct a; cbn [col_apply sets_comment]; try reflexivity; destruct (String.eqb _ _); reflexivity. Qed.

(* ---------- the eight blocks of table_group ---------- *)
Definition tg_cols (t : table_def) : list (string * column_def) :=
  bt_of_list (map (fun c => (c_name c, c)) (t_columns t)).
Definition tg_deleted (ft t2 : table_def) : list string :=
  map fst (filter (fun kv => negb (bt_mem (fst kv) (tg_cols t2))) (tg_cols ft)).
Definition tg_common (ft t2 : table_def) (f : string -> column_def -> column_def -> list action) : list action :=
  flat_map (fun kv => match bt_get (fst kv) (tg_cols ft) with
                      | Some fd => f (fst kv) fd (snd kv)
                      | None => []
                      end) (tg_cols t2).
Definition cond_type (fd td : column_def) : bool :=
  let ntm := requires_migration (c_type fd) (c_type td) in
  (ntm || (negb ntm && needs_enum_rename (c_type fd) (c_type td)))%bool.
Definition f_type (name col : string) (fd td : column_def) : list action :=
  if cond_type fd td then [ModifyColumnType name col (c_type td) None] else [].
Definition f_nullable (name col : string) (fd td : column_def) : list action :=
  if Bool.eqb (c_nullable fd) (c_nullable td) then []
  else [ModifyColumnNullable name col (c_nullable td) None].
Definition sql_default (c : column_def) : option string := option_map default_to_sql (c_default c).
Definition f_default (name col : string) (fd td : column_def) : list action :=
  if opt_str_eqb (sql_default fd) (sql_default td) then [] else [ModifyColumnDefault name col (sql_default td)].
Definition f_comment (name col : string) (fd td : column_def) : list action :=
  if opt_str_eqb (c_comment fd) (c_comment td) then [] else [ModifyColumnComment name col (c_comment td)].
Definition tg_added (name : string) (ft t2 : table_def) : list action :=
  flat_map (fun kv => if bt_mem (fst kv) (tg_cols ft) then [] else [AddColumn name (snd kv) None]) (tg_cols t2).
Definition tg_removed (name : string) (ft t2 : table_def) : list action :=
  flat_map (fun fc =>
    if contains_constraint fc (t_constraints t2) then []
    else
      let cc := constraint_columns fc in
      let all_deleted := (nonempty cc && forallb (fun c => mem_str c (tg_deleted ft t2)) cc)%bool in
      if all_deleted then [] else [RemoveConstraint name fc]) (t_constraints ft).
Definition tg_addc (name : string) (ft t2 : table_def) : list action :=
  flat_map (fun tc => if contains_constraint tc (t_constraints ft) then [] else [AddConstraint name tc])
           (t_constraints t2).

Lemma table_group_parts name ft t2 :
  table_group name ft t2 =
  map (fun c => DeleteColumn name c) (tg_deleted ft t2)
  ++ tg_common ft t2 (f_type name) ++ tg_common ft t2 (f_nullable name)
  ++ tg_common ft t2 (f_default name) ++ tg_common ft t2 (f_comment name)
  ++ tg_added name ft t2 ++ tg_removed name ft t2 ++ tg_addc name ft t2.
Proof. reflexivity. Qed.

Definition kind (a : action) : nat :=
  match a with
  | DeleteColumn _ _ => 0 | ModifyColumnType _ _ _ _ => 1 | ModifyColumnNullable _ _ _ _ => 2
  | ModifyColumnDefault _ _ _ => 3 | ModifyColumnComment _ _ _ => 4 | AddColumn _ _ _ => 5
  | RemoveConstraint _ _ => 6 | AddConstraint _ _ => 7 | _ => 8
  end.

Lemma tg_cols_sorted t : bt_sorted (tg_cols t).
Proof. apply bt_of_list_sorted. Qed.
Lemma tg_cols_get k c t : bt_get k (tg_cols t) = Some c -> In c (t_columns t) /\ c_name c = k.
Proof.
  intro H. apply bt_get_in, bt_of_list_in, in_map_iff in H. destruct H as [x [E Hin]].
  inversion E; subst. auto.
Qed.
Lemma col_named_tg k t : col_named k t = bt_get k (tg_cols t).
Proof. unfold col_named, tg_cols. now rewrite bt_get_of_list. Qed.

Lemma common_in ft t2 f a :
  In a (tg_common ft t2 f) <->
  exists k fd td, bt_get k (tg_cols t2) = Some td /\ bt_get k (tg_cols ft) = Some fd /\ In a (f k fd td).
Proof.
  unfold tg_common. rewrite in_flat_map. split.
  - intros [[k td] [Hin Ha]]. cbn [fst snd] in Ha.
    destruct (bt_get k (tg_cols ft)) as [fd|] eqn:Ef; [|destruct Ha].
    exists k, fd, td. split; [apply bt_sorted_get; [apply tg_cols_sorted|exact Hin]|auto].
  - intros (k & fd & td & Ht & Hf & Ha). exists (k, td). split; [now apply bt_get_in|].
    cbn [fst snd]. now rewrite Hf.
Qed.
Lemma common_kind ft t2 f i :
  (forall k fd td a, In a (f k fd td) -> kind a = i) -> forall a, In a (tg_common ft t2 f) -> kind a = i.
Proof. intros Hf a Ha. apply common_in in Ha. destruct Ha as (k & fd & td & _ & _ & Ha). eapply Hf; exact Ha. Qed.

Lemma f_type_in name k fd td a : In a (f_type name k fd td) ->
  cond_type fd td = true /\ a = ModifyColumnType name k (c_type td) None.
Proof. unfold f_type. destruct (cond_type fd td); [intros [<-|[]]; auto|intros []]. Qed.
Lemma f_nullable_in name k fd td a : In a (f_nullable name k fd td) ->
  Bool.eqb (c_nullable fd) (c_nullable td) = false /\ a = ModifyColumnNullable name k (c_nullable td) None.
Proof. unfold f_nullable. destruct (Bool.eqb _ _); [intros []|intros [<-|[]]; auto]. Qed.
Lemma f_default_in name k fd td a : In a (f_default name k fd td) ->
  opt_str_eqb (sql_default fd) (sql_default td) = false /\ a = ModifyColumnDefault name k (sql_default td).
Proof. unfold f_default. destruct (opt_str_eqb _ _); [intros []|intros [<-|[]]; auto]. Qed.
Lemma f_comment_in name k fd td a : In a (f_comment name k fd td) ->
  opt_str_eqb (c_comment fd) (c_comment td) = false /\ a = ModifyColumnComment name k (c_comment td).
Proof. unfold f_comment. destruct (opt_str_eqb _ _); [intros []|intros [<-|[]]; auto]. Qed.

Lemma group_kind_block name ft t2 a : In a (table_group name ft t2) ->
  match kind a with
  | 0 => In a (map (fun c => DeleteColumn name c) (tg_deleted ft t2))
  | 1 => In a (tg_common ft t2 (f_type name))
  | 2 => In a (tg_common ft t2 (f_nullable name))
  | 3 => In a (tg_common ft t2 (f_default name))
  | 4 => In a (tg_common ft t2 (f_comment name))
  | 5 => In a (tg_added name ft t2)
  | 6 => In a (tg_removed name ft t2)
  | 7 => In a (tg_addc name ft t2)
  | _ => False
  end.
Proof.
  rewrite table_group_parts, !in_app_iff. intros [H|[H|[H|[H|[H|[H|[H|H]]]]]]].
  - assert (K : kind a = 0) by (apply in_map_iff in H; destruct H as [c [<- _]]; reflexivity).
    rewrite K. exact H.
  - assert (K : kind a = 1).
    { eapply common_kind; [|exact H]. intros k fd td x Hx. apply f_type_in in Hx. destruct Hx as [_ ->]. reflexivity. }
    rewrite K. exact H.
  - assert (K : kind a = 2).
    { eapply common_kind; [|exact H]. intros k fd td x Hx. apply f_nullable_in in Hx. destruct Hx as [_ ->]. reflexivity. }
    rewrite K. exact H.
  - assert (K : kind a = 3).
    { eapply common_kind; [|exact H]. intros k fd td x Hx. apply f_default_in in Hx. destruct Hx as [_ ->]. reflexivity. }
    rewrite K. exact H.
  - assert (K : kind a = 4).
    { eapply common_kind; [|exact H]. intros k fd td x Hx. apply f_comment_in in Hx. destruct Hx as [_ ->]. reflexivity. }
    rewrite K. exact H.
  - assert (K : kind a = 5).
    { unfold tg_added in H. apply in_flat_map in H. destruct H as [kv [_ H]].
      destruct (bt_mem _ _); [destruct H|destruct H as [<-|[]]; reflexivity]. }
    rewrite K. exact H.
  - assert (K : kind a = 6).
    { unfold tg_removed in H. apply in_flat_map in H. destruct H as [fc [_ H]].
      destruct (contains_constraint _ _); [destruct H|]. cbv zeta in H.
      destruct (_ && _)%bool; [destruct H|destruct H as [<-|[]]; reflexivity]. }
    rewrite K. exact H.
  - assert (K : kind a = 7).
    { unfold tg_addc in H. apply in_flat_map in H. destruct H as [tc [_ H]].
      destruct (contains_constraint _ _); [destruct H|destruct H as [<-|[]]; reflexivity]. }
    rewrite K. exact H.
Qed.

(* ---------- shape of a group made of attribute actions only ---------- *)
Lemma attr_group_shape name ft t2 :
  (forall a, In a (table_group name ft t2) -> is_attr_action a = true) ->
  (forall k c, bt_get k (tg_cols ft) = Some c -> bt_mem k (tg_cols t2) = true)
  /\ (forall k td, bt_get k (tg_cols t2) = Some td -> bt_mem k (tg_cols ft) = true)
  /\ incl (t_constraints ft) (t_constraints t2)
  /\ incl (t_constraints t2) (t_constraints ft).
Proof.
  intro Hattr. rewrite table_group_parts in Hattr.
  assert (Hdel : tg_deleted ft t2 = []).
  { destruct (tg_deleted ft t2) as [|x r] eqn:E; [reflexivity|]. exfalso.
    assert (H : is_attr_action (DeleteColumn name x) = true) by (apply Hattr, in_or_app; left; now left).
    discriminate. }
  split; [|split; [|split]].
  - intros k c Hg. unfold tg_deleted in Hdel. apply map_eq_nil in Hdel.
    pose proof (filter_nil_inv _ _ Hdel (k, c) (bt_get_in _ _ _ Hg)) as H. cbn [fst] in H.
    now apply negb_false_iff in H.
  - intros k td Hg. destruct (bt_mem k (tg_cols ft)) eqn:E; [reflexivity|]. exfalso.
    assert (H : is_attr_action (AddColumn name td None) = true).
    { apply Hattr. do 5 (apply in_or_app; right). apply in_or_app; left.
      unfold tg_added. apply in_flat_map. exists (k, td). split; [now apply bt_get_in|].
      cbn [fst snd]. rewrite E. now left. }
    discriminate.
  - intros fc Hin. destruct (contains_constraint fc (t_constraints t2)) eqn:E;
      [now apply contains_constraint_true|]. exfalso.
    assert (H : is_attr_action (RemoveConstraint name fc) = true).
    { apply Hattr. do 6 (apply in_or_app; right). apply in_or_app; left.
      unfold tg_removed. apply in_flat_map. exists fc. split; [exact Hin|].
      rewrite E, Hdel. cbv zeta.
      destruct (constraint_columns fc) as [|x cc]; cbn [nonempty forallb mem_str existsb andb]; now left. }
    discriminate.
  - intros tc Hin. destruct (contains_constraint tc (t_constraints ft)) eqn:E;
      [now apply contains_constraint_true|]. exfalso.
    assert (H : is_attr_action (AddConstraint name tc) = true).
    { apply Hattr. do 7 (apply in_or_app; right).
      unfold tg_addc. apply in_flat_map. exists tc. split; [exact Hin|]. rewrite E. now left. }
    discriminate.
Qed.

(* ---------- the rendered default survives the round trip through ModifyColumnDefault ---------- *)
Lemma default_roundtrip d : String.eqb (default_to_sql d) "" = false ->
  default_to_sql (default_of_string (default_to_sql d)) = default_to_sql d.
Proof. intro H. unfold default_of_string. cbn [default_to_sql]. now rewrite H. Qed.

(* ---------- every field of every column after the group, applied in any order ---------- *)
Section Core.
  Variables (name : string) (b tn : table_def) (L : list action).
  Hypothesis HL : forall a, In a L <-> In a (table_group name b tn).
  Variables (k : string) (c td : column_def).
  Hypothesis Hc : bt_get k (tg_cols b) = Some c.
  Hypothesis Htd : bt_get k (tg_cols tn) = Some td.

  Let Hck : c_name c = k. Proof. exact (proj2 (tg_cols_get _ _ _ Hc)). Qed.

  Lemma in_block f a : In a (tg_common b tn f) ->
    forall k2, (forall k' fd' td', In a (f k' fd' td') -> k' = k2) -> k2 = k -> In a (f k c td).
  Proof.
    intros Ha k2 Hk E. apply common_in in Ha. destruct Ha as (k' & fd' & td' & H1 & H2 & H3).
    pose proof (Hk _ _ _ H3) as E'. subst k' k2. rewrite Hc in H2. rewrite Htd in H1.
    inversion H1; inversion H2; subst. exact H3.
  Qed.

  (* type *)
  Lemma type_in_L a v : In a L -> sets_type k a = Some v -> In a (f_type name k c td) /\ v = c_type td.
  Proof.
    intros Ha Hs. apply HL, group_kind_block in Ha.
    destruct a; try discriminate. cbn [sets_type] in Hs. cbn [kind] in Ha.
    destruct (String.eqb k column) eqn:E; [|discriminate]. apply String.eqb_eq in E. subst column. injection Hs as <-.
    assert (H : In (ModifyColumnType table k new_type fill_with) (f_type name k c td)).
    { apply (in_block _ _ Ha k); [|reflexivity].
      intros k' fd' td' H. apply f_type_in in H. destruct H as [_ H]. now inversion H. }
    split; [exact H|]. apply f_type_in in H. destruct H as [_ H]. now inversion H.
  Qed.
  Lemma upd_type_result : c_type (upd L c) = if cond_type c td then c_type td else c_type c.
  Proof.
    destruct (cond_type c td) eqn:Ec.
    - apply (upd_set k c_type (sets_type k) (g_apply_type k)); [exact Hck| |].
      + intros a v Ha Hs. now destruct (type_in_L a v Ha Hs).
      + exists (ModifyColumnType name k (c_type td) None). split.
        * apply HL. rewrite table_group_parts. apply in_or_app; right. apply in_or_app; left.
          apply common_in. exists k, c, td. split; [exact Htd|split; [exact Hc|]].
          unfold f_type. rewrite Ec. now left.
        * cbn [sets_type]. now rewrite String.eqb_refl.
    - apply (upd_unset k c_type (sets_type k) (g_apply_type k)); [exact Hck|].
      intros a Ha. destruct (sets_type k a) as [v|] eqn:Es; [|reflexivity]. exfalso.
      destruct (type_in_L a v Ha Es) as [H _]. apply f_type_in in H. destruct H as [H _]. congruence.
  Qed.

  (* nullability *)
  Lemma nullable_in_L a v : In a L -> sets_nullable k a = Some v ->
    In a (f_nullable name k c td) /\ v = c_nullable td.
  Proof.
    intros Ha Hs. apply HL, group_kind_block in Ha.
    destruct a; try discriminate. cbn [sets_nullable] in Hs. cbn [kind] in Ha.
    destruct (String.eqb k column) eqn:E; [|discriminate]. apply String.eqb_eq in E. subst column. injection Hs as <-.
    assert (H : In (ModifyColumnNullable table k nullable fill_with) (f_nullable name k c td)).
    { apply (in_block _ _ Ha k); [|reflexivity].
      intros k' fd' td' H. apply f_nullable_in in H. destruct H as [_ H]. now inversion H. }
    split; [exact H|]. apply f_nullable_in in H. destruct H as [_ H]. now inversion H.
  Qed.
  Lemma upd_nullable_result : c_nullable (upd L c) = c_nullable td.
  Proof.
    destruct (Bool.eqb (c_nullable c) (c_nullable td)) eqn:Ec.
    - rewrite <- (Bool.eqb_prop _ _ Ec).
      apply (upd_unset k c_nullable (sets_nullable k) (g_apply_nullable k)); [exact Hck|].
      intros a Ha. destruct (sets_nullable k a) as [v|] eqn:Es; [|reflexivity]. exfalso.
      destruct (nullable_in_L a v Ha Es) as [H _]. apply f_nullable_in in H. destruct H as [H _]. congruence.
    - apply (upd_set k c_nullable (sets_nullable k) (g_apply_nullable k)); [exact Hck| |].
      + intros a v Ha Hs. now destruct (nullable_in_L a v Ha Hs).
      + exists (ModifyColumnNullable name k (c_nullable td) None). split.
        * apply HL. rewrite table_group_parts. do 2 (apply in_or_app; right). apply in_or_app; left.
          apply common_in. exists k, c, td. split; [exact Htd|split; [exact Hc|]].
          unfold f_nullable. rewrite Ec. now left.
        * cbn [sets_nullable]. now rewrite String.eqb_refl.
  Qed.

  (* default *)
  Lemma default_in_L a v : In a L -> sets_default k a = Some v ->
    In a (f_default name k c td) /\ v = option_map default_of_string (sql_default td).
  Proof.
    intros Ha Hs. apply HL, group_kind_block in Ha.
    destruct a; try discriminate. cbn [sets_default] in Hs. cbn [kind] in Ha.
    destruct (String.eqb k column) eqn:E; [|discriminate]. apply String.eqb_eq in E. subst column. injection Hs as <-.
    assert (H : In (ModifyColumnDefault table k new_default) (f_default name k c td)).
    { apply (in_block _ _ Ha k); [|reflexivity].
      intros k' fd' td' H. apply f_default_in in H. destruct H as [_ H]. now inversion H. }
    split; [exact H|]. apply f_default_in in H. destruct H as [_ H]. now inversion H.
  Qed.
  Lemma upd_default_result :
    c_default (upd L c) = if opt_str_eqb (sql_default c) (sql_default td) then c_default c
                          else option_map default_of_string (sql_default td).
  Proof.
    destruct (opt_str_eqb (sql_default c) (sql_default td)) eqn:Ec.
    - apply (upd_unset k c_default (sets_default k) (g_apply_default k)); [exact Hck|].
      intros a Ha. destruct (sets_default k a) as [v|] eqn:Es; [|reflexivity]. exfalso.
      destruct (default_in_L a v Ha Es) as [H _]. apply f_default_in in H. destruct H as [H _]. congruence.
    - apply (upd_set k c_default (sets_default k) (g_apply_default k)); [exact Hck| |].
      + intros a v Ha Hs. now destruct (default_in_L a v Ha Hs).
      + exists (ModifyColumnDefault name k (sql_default td)). split.
        * apply HL. rewrite table_group_parts. do 3 (apply in_or_app; right). apply in_or_app; left.
          apply common_in. exists k, c, td. split; [exact Htd|split; [exact Hc|]].
          unfold f_default. rewrite Ec. now left.
        * cbn [sets_default]. now rewrite String.eqb_refl.
  Qed.

  (* comment *)
  Lemma comment_in_L a v : In a L -> sets_comment k a = Some v ->
    In a (f_comment name k c td) /\ v = c_comment td.
  Proof.
    intros Ha Hs. apply HL, group_kind_block in Ha.
    destruct a; try discriminate. cbn [sets_comment] in Hs. cbn [kind] in Ha.
    destruct (String.eqb k column) eqn:E; [|discriminate]. apply String.eqb_eq in E. subst column. injection Hs as <-.
    assert (H : In (ModifyColumnComment table k new_comment) (f_comment name k c td)).
    { apply (in_block _ _ Ha k); [|reflexivity].
      intros k' fd' td' H. apply f_comment_in in H. destruct H as [_ H]. now inversion H. }
    split; [exact H|]. apply f_comment_in in H. destruct H as [_ H]. now inversion H.
  Qed.
  Lemma upd_comment_result : c_comment (upd L c) = c_comment td.
  Proof.
    destruct (opt_str_eqb (c_comment c) (c_comment td)) eqn:Ec.
    - rewrite <- (dec_b_true _ _ _ Ec).
      apply (upd_unset k c_comment (sets_comment k) (g_apply_comment k)); [exact Hck|].
      intros a Ha. destruct (sets_comment k a) as [v|] eqn:Es; [|reflexivity]. exfalso.
      destruct (comment_in_L a v Ha Es) as [H _]. apply f_comment_in in H. destruct H as [H _]. congruence.
    - apply (upd_set k c_comment (sets_comment k) (g_apply_comment k)); [exact Hck| |].
      + intros a v Ha Hs. now destruct (comment_in_L a v Ha Hs).
      + exists (ModifyColumnComment name k (c_comment td)). split.
        * apply HL. rewrite table_group_parts. do 4 (apply in_or_app; right). apply in_or_app; left.
          apply common_in. exists k, c, td. split; [exact Htd|split; [exact Hc|]].
          unfold f_comment. rewrite Ec. now left.
        * cbn [sets_comment]. now rewrite String.eqb_refl.
  Qed.

  Lemma upd_col_equiv : default_renders td = true -> col_equiv (upd L c) td.
  Proof.
    intro Hd. unfold col_equiv.
    rewrite upd_type_result, upd_nullable_result, upd_default_result, upd_comment_result.
    split; [|split; [|split; [reflexivity|split; [|reflexivity]]]].
    - destruct (cond_type c td) eqn:Ec; [apply requires_migration_refl|].
      unfold cond_type in Ec. cbv zeta in Ec. now apply orb_false_elim in Ec.
    - destruct (cond_type c td) eqn:Ec; [apply needs_enum_rename_refl|].
      unfold cond_type in Ec. cbv zeta in Ec. apply orb_false_elim in Ec. destruct Ec as [E1 E2].
      rewrite E1 in E2. exact E2.
    - destruct (opt_str_eqb (sql_default c) (sql_default td)) eqn:Ec; [exact (dec_b_true _ _ _ Ec)|].
      unfold sql_default. unfold default_renders in Hd.
      destruct (c_default td) as [d|]; [|reflexivity]. cbn [option_map]. f_equal.
      apply default_roundtrip. now apply negb_true_iff in Hd.
  Qed.
End Core.

(* ---------- the whole group, in any order ---------- *)
Lemma bt_get_map_cols (h : column_def -> column_def) k :
  (forall c, c_name (h c) = c_name c) -> forall l : list column_def,
  bt_get k (map (fun c => (c_name c, c)) (map h l)) = option_map h (bt_get k (map (fun c => (c_name c, c)) l)).
Proof.
  intros Hh. induction l as [|c l IH]; cbn [map bt_get]; [reflexivity|].
  rewrite Hh. destruct (String.eqb k (c_name c)); [reflexivity|exact IH].
Qed.
Lemma col_named_map_cols h k t : (forall c, c_name (h c) = c_name c) ->
  col_named k (map_cols h t) = option_map h (col_named k t).
Proof.
  intro Hh. unfold col_named, map_cols. cbn [t_columns].
  rewrite <- !map_rev. now apply bt_get_map_cols.
Qed.

Theorem attrs_fold b tn L :
  normalize b = Ok b -> attrs_only b tn = true -> Permutation L (table_group (t_name b) b tn) ->
  exists b', proj_all (Some b) L = Ok (Some b') /\ t_name b' = t_name b
             /\ normalize b' = Ok b' /\ table_equiv b' tn.
Proof.
  intros Hfix Hattr HP. unfold attrs_only in Hattr.
  destruct (table_group (t_name b) b tn) as [|a0 g0] eqn:EG.
  - apply Permutation_sym, Permutation_nil in HP. subst L. exists b.
    split; [reflexivity|split; [reflexivity|split; [exact Hfix|]]].
    now apply (table_group_nil_inv (t_name b)).
  - rewrite <- EG in *. clear a0 g0 EG.
    apply andb_prop in Hattr. destruct Hattr as [Hattr Hdef].
    apply andb_prop in Hattr. destruct Hattr as [Hattr Hnb].
    rewrite forallb_forall in Hattr, Hdef.
    assert (HL : forall a, In a L <-> In a (table_group (t_name b) b tn)).
    { intro a. split; apply Permutation_in; [exact HP|now apply Permutation_sym]. }
    destruct (attr_group_shape _ _ _ Hattr) as (S1 & S2 & S3 & S4).
    assert (Hnd : NoDup (colnames b)).
    { clear - Hnb. induction (colnames b) as [|x l IH]; [constructor|]. cbn [nodup_str] in Hnb.
      apply andb_prop in Hnb. destruct Hnb as [H1 H2]. constructor; [|now apply IH].
      intro Hin. apply negb_true_iff in H1. unfold mem_str in H1.
      assert (E : existsb (String.eqb x) l = true) by (apply existsb_exists; exists x; split; [exact Hin|apply String.eqb_refl]).
      congruence. }
    exists (map_cols (upd L) b).
    split; [|split; [reflexivity|split]].
    + apply proj_all_attrs; [|exact Hnd]. intros a Ha. split; [apply Hattr, HL, Ha|].
      apply HL in Ha. pose proof (Hattr a Ha) as Hk. apply group_kind_block in Ha.
      assert (Hcol : forall f, In a (tg_common b tn f) ->
                (forall k fd td, In a (f k fd td) -> attr_col a = k) -> In (attr_col a) (colnames b)).
      { intros f Hin Hf. apply common_in in Hin. destruct Hin as (k & fd & td & _ & Hfd & Hin).
        rewrite (Hf _ _ _ Hin). apply tg_cols_get in Hfd. destruct Hfd as [Hfd <-].
        unfold colnames. now apply in_map. }
      destruct a; try discriminate; cbn [kind] in Ha; apply (Hcol _ Ha); intros k fd td Hin.
      * apply f_type_in in Hin. destruct Hin as [_ Hin]. now inversion Hin.
      * apply f_nullable_in in Hin. destruct Hin as [_ Hin]. now inversion Hin.
      * apply f_default_in in Hin. destruct Hin as [_ Hin]. now inversion Hin.
      * apply f_comment_in in Hin. destruct Hin as [_ Hin]. now inversion Hin.
    + unfold map_cols. apply normalize_same_view; [exact Hfix|].
      rewrite map_map. apply map_ext. apply canon_upd.
    + split; [|split; assumption].
      intro k. rewrite (col_named_map_cols _ _ _ (upd_name L)), !col_named_tg.
      destruct (bt_get k (tg_cols b)) as [c|] eqn:Ec, (bt_get k (tg_cols tn)) as [td|] eqn:Et;
        cbn [option_map opt_rel].
      * apply (upd_col_equiv (t_name b) b tn L HL k c td Ec Et).
        apply Hdef. now apply (tg_cols_get k td tn).
      * specialize (S1 k c Ec). unfold bt_mem in S1. rewrite Et in S1. discriminate.
      * specialize (S2 k td Et). unfold bt_mem in S2. rewrite Ec in S2. discriminate.
      * exact I.
Qed.
