(* C01: the ladder statements in propositional form, the lift to tool-grown histories, and the
   witnesses showing which hypotheses of c01_step cannot be dropped. *)
From VV.M1 Require Import Oracles Hyp NormalizeP BtP DiffP DiffEqP KahnP ApplyLocalP DiffPermP AttrsP GrowP ChangeP InlineP CoreP C01P WitnessP.
From Coq Require Import Lia Permutation.

(* split conjunctions only (never an equation: [split] on [eq] would unify by lazy conversion) *)
Ltac vm_conj := repeat match goal with |- _ /\ _ => split end; try (vm_compute; reflexivity).

(* ---------- loader acceptance implies distinct table names ---------- *)
Lemma first_dup_str_none : forall l seen, first_dup_str seen l = None ->
  NoDup l /\ forall x, In x l -> ~ In x seen.
Proof.
  induction l as [|x l IH]; intros seen H; [split; [constructor|intros y []]|].
  cbn [first_dup_str] in H. destruct (mem_str x seen) eqn:E; [discriminate|].
  destruct (IH (x :: seen) H) as [Hnd Hout]. apply mem_str_false in E. split.
  - constructor; [|exact Hnd]. intro Hin. apply (Hout x Hin). now left.
  - intros y [<-|Hy]; [exact E|]. intro Hs. apply (Hout y Hy). now right.
Qed.

Lemma loader_map_names : forall S ns,
  map_result (fun t => match normalize t with Ok n => Ok n | Err e => Err (LoadNormalize e) end) S = Ok ns ->
  map t_name ns = map t_name S.
Proof.
  induction S as [|t S IH]; intros ns H; cbn [map_result] in H.
  - inversion H. reflexivity.
  - destruct (normalize t) as [n|e] eqn:En; [|discriminate].
    destruct (map_result _ S) as [ns'|e] eqn:E; [|discriminate]. inversion H; subst.
    cbn [map]. now rewrite (normalize_name t n En), (IH ns' eq_refl).
Qed.

Theorem loader_accepts_nodup T : loader_accepts T = true -> NoDup (map t_name T).
Proof.
  unfold loader_accepts, loader_check. destruct T as [|t0 T0]; [constructor|].
  generalize (t0 :: T0) as T. intro T.
  destruct (map_result _ T) as [ns|e] eqn:E; [|discriminate].
  unfold validate_schema. destruct (first_dup_str [] (map t_name ns)) as [d|] eqn:Ed; [discriminate|].
  intros _. rewrite <- (loader_map_names T ns E). exact (proj1 (first_dup_str_none _ _ Ed)).
Qed.

Lemma diff_ok_of_ex B T : (exists acts, diff_actions B T = Ok acts) -> diff_ok B T = true.
Proof. intros [acts H]. unfold diff_ok. now rewrite H. Qed.

(* ---------- 2. first revision ---------- *)
Theorem C01_first B T : c01_first B T = true -> closes_gap B T = true.
Proof. intro H. apply C01_step, c01_first_step, H. Qed.

Theorem C01_first_revision_nodup T :
  NoDup (map t_name T) -> (exists acts, diff_actions [] T = Ok acts) -> closes_gap [] T = true.
Proof.
  intros Hnd Hd. apply C01_first. unfold c01_first.
  rewrite (proj2 (nodup_str_NoDup _) Hnd), (diff_ok_of_ex _ _ Hd). reflexivity.
Qed.

Theorem C01_first_revision T :
  loader_accepts T = true -> (exists acts, diff_actions [] T = Ok acts) -> closes_gap [] T = true.
Proof. intros Hl Hd. apply C01_first_revision_nodup; [now apply loader_accepts_nodup|exact Hd]. Qed.

(* ---------- 3. tables only ---------- *)
Theorem C01_tables_only B T : c01_tables_only B T = true -> closes_gap B T = true.
Proof. intro H. apply C01_step, c01_tables_only_step, H. Qed.

Theorem C01_tables_only_prop B T :
  NoDup (map t_name B) -> (forall t, In t B -> normalize t = Ok t) ->
  NoDup (map t_name T) -> (exists acts, diff_actions B T = Ok acts) ->
  (forall t b tn, In t T -> find_t (t_name t) B = Some b -> normalize t = Ok tn -> table_equiv b tn) ->
  closes_gap B T = true.
Proof.
  intros HndB HfixB HndT Hd Heq. apply C01_tables_only. unfold c01_tables_only.
  rewrite (proj2 (baseline_ok_spec B) (conj HndB HfixB)), (proj2 (nodup_str_NoDup _) HndT),
    (diff_ok_of_ex _ _ Hd). cbn [andb].
  unfold common_tables. apply forallb_forall. intros t Ht.
  destruct (find_t (t_name t) B) as [b|] eqn:Eb; [|reflexivity].
  destruct Hd as [acts Hd]. rewrite diff_actions_core in Hd.
  destruct (normalize_all B); [|discriminate].
  destruct (normalize_all T) as [Tn|e] eqn:ETn; [|discriminate].
  destruct (proj1 (normalize_all_in T Tn ETn) t Ht) as [tn [_ En]]. rewrite En.
  unfold unchanged. now rewrite (table_group_equiv (t_name b) b tn (Heq t b tn Ht Eb En)).
Qed.

(* ---------- 4. column attributes ---------- *)
Theorem C01_column_attributes B T : c01_column_attrs B T = true -> closes_gap B T = true.
Proof. intro H. apply C01_step, c01_column_attrs_step, H. Qed.

(* ---------- 5. histories grown by the tool ---------- *)
Definition fill_plan (p : plan) (B : schema) : plan :=
  mkPlan (p_id p) (p_comment p) (p_created_at p) (p_version p) (filled_actions p B).

(* what is asked of the models at each step (c01_models p, Corr/Hyp.v); the baseline's own invariant
   is derived, not assumed *)
Definition c01_step_models : schema -> schema -> bool := c01_models attrs_only.
Definition c01_grow_models : schema -> schema -> bool := c01_models grow_only.

Inductive Grown (hyp : schema -> schema -> bool) : list plan -> Prop :=
| Grown_nil : Grown hyp []
| Grown_step H B T p :
    Grown hyp H -> replay H = Ok B -> hyp B T = true -> plan_next T H = Ok p ->
    Grown hyp (H ++ [fill_plan p B]).

(* the same constructor with the extended history as a variable (so that [apply] never has to
   unify two closed terms by evaluating the planner lazily) *)
Lemma Grown_step_eq hyp H B T p H' :
  Grown hyp H -> replay H = Ok B -> hyp B T = true -> plan_next T H = Ok p ->
  H' = H ++ [fill_plan p B] -> Grown hyp H'.
Proof. intros HG Hr Hh Hp ->. eapply Grown_step; eassumption. Qed.

Lemma replay_snoc H B pl : replay H = Ok B -> replay (H ++ [pl]) = apply_all B (p_actions pl).
Proof.
  unfold replay. intro E. rewrite flat_map_app, apply_all_app, E. cbn [flat_map]. now rewrite app_nil_r.
Qed.

Lemma plan_next_ok T H B acts : replay H = Ok B -> diff_actions B T = Ok acts ->
  plan_next T H = Ok (mkPlan "" None None (next_version H) acts).
Proof. unfold plan_next. now intros -> ->. Qed.

Section Histories.
  Variable q : table_def -> table_def -> bool.
  Hypothesis q_sound : group_sound q.

  Lemma gen_closes B T : baseline_ok B = true -> c01_models q B T = true -> closes_gap B T = true.
  Proof.
    intros Hb Hm. destruct (gen_step_sound q q_sound B T Hb Hm) as (acts & B' & H1 & H2 & _ & H3 & H4).
    eapply closes_gap_unfold; eassumption.
  Qed.

  (* one step from a good baseline *)
  Theorem gen_history_step H B T :
    replay H = Ok B -> baseline_ok B = true -> c01_models q B T = true ->
    exists p B',
      plan_next T H = Ok p /\ p_version p = next_version H /\
      closes_gap B T = true /\
      replay (H ++ [fill_plan p B]) = Ok B' /\ baseline_ok B' = true /\
      diff_actions B' T = Ok [] /\ diff_actions T B' = Ok [] /\
      plan_next T (H ++ [fill_plan p B])
        = Ok (mkPlan "" None None (next_version (H ++ [fill_plan p B])) []).
  Proof.
    intros Hr Hb Hm.
    destruct (gen_step_sound q q_sound B T Hb Hm) as (acts & B' & H1 & H2 & H3 & H4 & H5).
    exists (mkPlan "" None None (next_version H) acts), B'.
    assert (Hr' : replay (H ++ [fill_plan (mkPlan "" None None (next_version H) acts) B]) = Ok B').
    { rewrite (replay_snoc H B _ Hr). unfold fill_plan. cbn [p_actions]. now rewrite apply_all_filled. }
    split; [now apply (plan_next_ok T H B)|]. split; [reflexivity|]. split; [now apply gen_closes|].
    split; [exact Hr'|]. split; [exact H3|]. split; [exact H4|]. split; [exact H5|].
    now apply (plan_next_ok T _ B').
  Qed.

  (* along a grown history every baseline is good *)
  Theorem gen_history_baseline H : Grown (c01_models q) H ->
    exists B, replay H = Ok B /\ baseline_ok B = true.
  Proof.
    induction 1 as [|H B T p HG IH Hr Hm Hp].
    - exists []. split; reflexivity.
    - destruct IH as [B0 [Hr0 Hb0]]. rewrite Hr in Hr0. inversion Hr0; subst B0; clear Hr0.
      destruct (gen_history_step H B T Hr Hb0 Hm) as (p' & B' & Hp' & _ & _ & Hr' & Hb' & _).
      rewrite Hp in Hp'. inversion Hp'; subst p'. exists B'. auto.
  Qed.

  Theorem gen_histories H B T :
    Grown (c01_models q) H -> replay H = Ok B -> c01_models q B T = true ->
    exists p B',
      plan_next T H = Ok p /\ closes_gap B T = true /\
      replay (H ++ [fill_plan p B]) = Ok B' /\ baseline_ok B' = true /\
      diff_actions B' T = Ok [] /\ diff_actions T B' = Ok [] /\
      plan_next T (H ++ [fill_plan p B])
        = Ok (mkPlan "" None None (next_version (H ++ [fill_plan p B])) []) /\
      Grown (c01_models q) (H ++ [fill_plan p B]).
  Proof.
    intros HG Hr Hm. destruct (gen_history_baseline H HG) as [B0 [Hr0 Hb0]].
    rewrite Hr in Hr0. inversion Hr0; subst B0; clear Hr0.
    destruct (gen_history_step H B T Hr Hb0 Hm) as (p & B' & H1 & _ & H2 & H3 & H4 & H5 & H6 & H7).
    exists p, B'. repeat (split; [assumption|]). eapply Grown_step; eassumption.
  Qed.
End Histories.

(* ---------- instances: attribute steps ---------- *)
Theorem C01_history_step H B T :
  replay H = Ok B -> baseline_ok B = true -> c01_step_models B T = true ->
  exists p B',
    plan_next T H = Ok p /\ p_version p = next_version H /\
    closes_gap B T = true /\
    replay (H ++ [fill_plan p B]) = Ok B' /\ baseline_ok B' = true /\
    diff_actions B' T = Ok [] /\ diff_actions T B' = Ok [] /\
    plan_next T (H ++ [fill_plan p B])
      = Ok (mkPlan "" None None (next_version (H ++ [fill_plan p B])) []).
Proof. exact (gen_history_step attrs_only attrs_only_sound H B T). Qed.

Theorem C01_history_baseline H : Grown c01_step_models H ->
  exists B, replay H = Ok B /\ baseline_ok B = true.
Proof. exact (gen_history_baseline attrs_only attrs_only_sound H). Qed.

Theorem C01_histories_partial H B T :
  Grown c01_step_models H -> replay H = Ok B -> c01_step_models B T = true ->
  exists p B',
    plan_next T H = Ok p /\ closes_gap B T = true /\
    replay (H ++ [fill_plan p B]) = Ok B' /\ baseline_ok B' = true /\
    diff_actions B' T = Ok [] /\ diff_actions T B' = Ok [] /\
    plan_next T (H ++ [fill_plan p B])
      = Ok (mkPlan "" None None (next_version (H ++ [fill_plan p B])) []) /\
    Grown c01_step_models (H ++ [fill_plan p B]).
Proof. exact (gen_histories attrs_only attrs_only_sound H B T). Qed.

(* ---------- instances: growing steps (attributes, added constraints, added plain columns) ---------- *)
Lemma grow_only_sound : group_sound grow_only.
Proof. exact grow_fold. Qed.

Theorem c01_grow_sound B T : c01_grow B T = true ->
  exists acts B',
    diff_actions B T = Ok acts /\ apply_all B acts = Ok B' /\ baseline_ok B' = true
    /\ diff_actions B' T = Ok [] /\ diff_actions T B' = Ok [].
Proof.
  unfold c01_grow. rewrite andb_true_iff. intros [HB Hm].
  exact (gen_step_sound grow_only grow_only_sound B T HB Hm).
Qed.

Theorem C01_grow B T : c01_grow B T = true -> closes_gap B T = true.
Proof.
  unfold c01_grow. rewrite andb_true_iff. intros [HB Hm].
  exact (gen_closes grow_only grow_only_sound B T HB Hm).
Qed.

Theorem C01_grow_history_baseline H : Grown c01_grow_models H ->
  exists B, replay H = Ok B /\ baseline_ok B = true.
Proof. exact (gen_history_baseline grow_only grow_only_sound H). Qed.

Theorem C01_grow_histories H B T :
  Grown c01_grow_models H -> replay H = Ok B -> c01_grow_models B T = true ->
  exists p B',
    plan_next T H = Ok p /\ closes_gap B T = true /\
    replay (H ++ [fill_plan p B]) = Ok B' /\ baseline_ok B' = true /\
    diff_actions B' T = Ok [] /\ diff_actions T B' = Ok [] /\
    plan_next T (H ++ [fill_plan p B])
      = Ok (mkPlan "" None None (next_version (H ++ [fill_plan p B])) []) /\
    Grown c01_grow_models (H ++ [fill_plan p B]).
Proof. exact (gen_histories grow_only grow_only_sound H B T). Qed.

(* ---------- instances: changing steps (also plain columns dropped, table-level constraints removed) ---------- *)
Definition c01_change_models : schema -> schema -> bool := c01_models change_only.
Lemma change_only_sound : group_sound change_only.
Proof. exact change_fold. Qed.

Theorem c01_change_sound B T : c01_change B T = true ->
  exists acts B',
    diff_actions B T = Ok acts /\ apply_all B acts = Ok B' /\ baseline_ok B' = true
    /\ diff_actions B' T = Ok [] /\ diff_actions T B' = Ok [].
Proof.
  unfold c01_change. rewrite andb_true_iff. intros [HB Hm].
  exact (gen_step_sound change_only change_only_sound B T HB Hm).
Qed.

Theorem C01_change B T : c01_change B T = true -> closes_gap B T = true.
Proof.
  unfold c01_change. rewrite andb_true_iff. intros [HB Hm].
  exact (gen_closes change_only change_only_sound B T HB Hm).
Qed.

Theorem C01_change_history_baseline H : Grown c01_change_models H ->
  exists B, replay H = Ok B /\ baseline_ok B = true.
Proof. exact (gen_history_baseline change_only change_only_sound H). Qed.

Theorem C01_change_histories H B T :
  Grown c01_change_models H -> replay H = Ok B -> c01_change_models B T = true ->
  exists p B',
    plan_next T H = Ok p /\ closes_gap B T = true /\
    replay (H ++ [fill_plan p B]) = Ok B' /\ baseline_ok B' = true /\
    diff_actions B' T = Ok [] /\ diff_actions T B' = Ok [] /\
    plan_next T (H ++ [fill_plan p B])
      = Ok (mkPlan "" None None (next_version (H ++ [fill_plan p B])) []) /\
    Grown c01_change_models (H ++ [fill_plan p B]).
Proof. exact (gen_histories change_only change_only_sound H B T). Qed.

(* ---------- instances: the union of the rungs (c01_core) ---------- *)
Lemma inl_only_sound : group_sound inl_only.
Proof. exact inl_fold. Qed.
Lemma core_only_sound : group_sound core_only.
Proof.
  intros b tn L Hfix Hp HP. unfold core_only in Hp. rewrite !orb_true_iff in Hp. destruct Hp as [[Hp|Hp]|Hp].
  - exact (change_fold b tn L Hfix Hp HP).
  - exact (inl_fold b tn L Hfix Hp HP).
  - exact (mix_fold b tn L Hfix Hp HP).
Qed.
Definition c01_core_models : schema -> schema -> bool := c01_models core_only.

Theorem c01_core_sound B T : baseline_ok B = true -> c01_core_models B T = true ->
  exists acts B',
    diff_actions B T = Ok acts /\ apply_all B acts = Ok B' /\ baseline_ok B' = true
    /\ diff_actions B' T = Ok [] /\ diff_actions T B' = Ok [].
Proof. exact (gen_step_sound core_only core_only_sound B T). Qed.

Theorem C01_core B T : baseline_ok B = true -> c01_core_models B T = true -> closes_gap B T = true.
Proof. exact (gen_closes core_only core_only_sound B T). Qed.

Lemma c01_core_split B T : c01_core B T = (baseline_ok B && c01_core_models B T)%bool.
Proof. reflexivity. Qed.

Theorem C01_core_history_baseline H : Grown c01_core_models H ->
  exists B, replay H = Ok B /\ baseline_ok B = true.
Proof. exact (gen_history_baseline core_only core_only_sound H). Qed.

Theorem C01_core_histories H B T :
  Grown c01_core_models H -> replay H = Ok B -> c01_core_models B T = true ->
  exists p B',
    plan_next T H = Ok p /\ closes_gap B T = true /\
    replay (H ++ [fill_plan p B]) = Ok B' /\ baseline_ok B' = true /\
    diff_actions B' T = Ok [] /\ diff_actions T B' = Ok [] /\
    plan_next T (H ++ [fill_plan p B])
      = Ok (mkPlan "" None None (next_version (H ++ [fill_plan p B])) []) /\
    Grown c01_core_models (H ++ [fill_plan p B]).
Proof. exact (gen_histories core_only core_only_sound H B T). Qed.

(* attribute steps are growing steps *)
Lemma attrs_only_grow b tn : attrs_only b tn = true -> grow_only b tn = true.
Proof.
  unfold attrs_only, grow_only. destruct (table_group (t_name b) b tn) as [|a g]; [reflexivity|].
  rewrite !andb_true_iff. intros [[H1 H2] H3]. repeat split; try assumption.
  rewrite forallb_forall in *. intros x Hx. specialize (H1 x Hx). destruct x; try discriminate; reflexivity.
Qed.
Lemma c01_step_grow B T : c01_step B T = true -> c01_grow B T = true.
Proof.
  rewrite c01_step_split. unfold c01_grow, c01_models. rewrite !andb_true_iff.
  intros [HB [[H1 H2] H3]]. repeat split; try assumption.
  unfold common_tables in *. rewrite forallb_forall in *. intros t Ht. specialize (H3 t Ht).
  destruct (find_t _ B); [|reflexivity]. destruct (normalize t); [now apply attrs_only_grow|discriminate].
Qed.

(* ---------- witnesses ---------- *)
Definition w_col (n : string) (ty : column_type) (nu : bool) (d : option default_value) (cm : option string) :=
  mkCol n ty nu d cm None None None None.
Definition w_ucol (n : string) := mkCol n (TSimple Integer) true None None None (Some (SBool true)) None None.
Definition w_norm (s : schema) : schema := map normalized_or_self s.

(* a step with a created table, a dropped table and a surviving table whose column changes type
   (enum value removed), nullability, default and comment, triggering the enum/default swap *)
Definition w_en1 := TEnum "st" (EVString ["a"; "b"; "c"]).
Definition w_en2 := TEnum "st" (EVString ["a"; "c"]).
Definition w_step_B : schema := Eval vm_compute in
  w_norm [mkTable "t" None [pkcol "id"; w_col "s" w_en1 false (Some (DStr "'b'")) None; w_ucol "u"] [];
          mkTable "gone" None [pkcol "id"] []].
Definition w_step_T : schema :=
  [mkTable "new" (Some "d") [pkcol "id"; fkcol "tid" "t" "id"] [];
   mkTable "t" None [w_ucol "u"; w_col "s" w_en2 true (Some (DStr "a")) (Some "cm"); pkcol "id"] []].
Lemma w_step_hyp : c01_step w_step_B w_step_T = true /\ loader_accepts w_step_T = true
  /\ diff_actions w_step_B w_step_T =
     Ok [CreateTable "new" [pkcol "id"; fkcol "tid" "t" "id"] []; DeleteTable "gone";
         ModifyColumnDefault "t" "s" (Some "a"); ModifyColumnNullable "t" "s" true None;
         ModifyColumnType "t" "s" w_en2 None; ModifyColumnComment "t" "s" (Some "cm")].
Proof. vm_conj. Qed.

(* a growing step outside c01_step: table created and dropped, column retyped / made NOT NULL / given a
   default, two plain columns added, three constraints added — one of them a foreign key to the created
   table, which the second re-ordering pass moves behind the others *)
Definition w_grow_B : schema := Eval vm_compute in
  w_norm [mkTable "t" None [pkcol "id"; icol "a"] []; mkTable "gone" None [pkcol "id"] []].
Definition w_grow_T : schema :=
  [mkTable "t" None
     [pkcol "id"; w_col "a" (TSimple Text) false (Some (DStr "x")) None;
      w_col "b" (TVarchar 8) true None (Some "new"); w_col "c" (TSimple Integer) true None None]
     [CUnique (Some "ua") ["a"; "b"]; CIndex None ["c"]; CForeignKey None ["c"] "new" ["id"] None None];
   mkTable "new" None [pkcol "id"] []].
Lemma w_grow_hyp :
  c01_grow w_grow_B w_grow_T = true /\ c01_step w_grow_B w_grow_T = false /\
  loader_accepts w_grow_T = true /\
  diff_actions w_grow_B w_grow_T =
    Ok [CreateTable "new" [pkcol "id"] []; DeleteTable "gone";
        ModifyColumnType "t" "a" (TSimple Text) None; ModifyColumnNullable "t" "a" false None;
        ModifyColumnDefault "t" "a" (Some "x");
        AddColumn "t" (w_col "b" (TVarchar 8) true None (Some "new")) None;
        AddColumn "t" (w_col "c" (TSimple Integer) true None None) None;
        AddConstraint "t" (CUnique (Some "ua") ["a"; "b"]); AddConstraint "t" (CIndex None ["c"]);
        AddConstraint "t" (CForeignKey None ["c"] "new" ["id"] None None)].
Proof. vm_conj. Qed.

(* a changing step outside c01_grow: plain column dropped, table-level index and check removed, besides
   a created and a dropped table, attribute changes, an added plain column and two added constraints *)
Definition w_change_B : schema := Eval vm_compute in
  w_norm [mkTable "t" None [pkcol "id"; icol "a"; icol "b"; icol "c"]
            [CIndex None ["c"]; CUnique (Some "uc") ["c"]; CCheck "pos" "c > 0"];
          mkTable "gone" None [pkcol "id"] []].
Definition w_change_T : schema :=
  [mkTable "t" None
     [pkcol "id"; w_col "a" (TSimple Text) false (Some (DStr "x")) None; icol "c";
      w_col "d" (TVarchar 8) true None (Some "new")]
     [CUnique (Some "uc") ["c"]; CUnique None ["a"; "d"]; CForeignKey None ["c"] "new" ["id"] None None];
   mkTable "new" None [pkcol "id"] []].
Lemma w_change_hyp :
  c01_change w_change_B w_change_T = true /\ c01_grow w_change_B w_change_T = false /\
  loader_accepts w_change_T = true /\
  diff_actions w_change_B w_change_T =
    Ok [CreateTable "new" [pkcol "id"] []; DeleteTable "gone"; DeleteColumn "t" "b";
        ModifyColumnType "t" "a" (TSimple Text) None; ModifyColumnNullable "t" "a" false None;
        ModifyColumnDefault "t" "a" (Some "x");
        AddColumn "t" (w_col "d" (TVarchar 8) true None (Some "new")) None;
        RemoveConstraint "t" (CIndex None ["c"]); RemoveConstraint "t" (CCheck "pos" "c > 0");
        AddConstraint "t" (CUnique None ["a"; "d"]);
        AddConstraint "t" (CForeignKey None ["c"] "new" ["id"] None None)].
Proof. vm_conj. Qed.

(* a core step outside c01_change: a dropped column that carries an inline index (its single-column
   index goes with it, the planner emits no RemoveConstraint), a removed foreign key whose column
   declares it inline (RemoveConstraint clears the declaration), and an added column with inline
   unique / named index / foreign key (replay promotes them, the three AddConstraint are skipped) *)
Definition w_core_ixcol (n : string) : column_def :=
  mkCol n (TSimple Integer) true None None None None (Some (SBool true)) None.
Definition w_core_c : column_def :=
  mkCol "c" (TVarchar 8) true None None None (Some (SBool true)) (Some (SStr "ix_c")) (Some (FKStr "o.id")).
Definition w_core_B : schema := Eval vm_compute in
  w_norm [mkTable "o" None [pkcol "id"] [];
          mkTable "t" None [pkcol "id"; icol "a"; w_core_ixcol "b"; fkcol "u" "o" "id"] [CCheck "pos" "a > 0"]].
Definition w_core_T : schema :=
  [mkTable "o" None [pkcol "id"] [];
   mkTable "t" None [pkcol "id"; w_col "a" (TSimple Text) false (Some (DStr "x")) None; icol "u"; w_core_c]
     [CUnique (Some "ua") ["a"]]].
Lemma w_core_hyp :
  c01_core w_core_B w_core_T = true /\ c01_change w_core_B w_core_T = false /\
  loader_accepts w_core_T = true /\
  diff_actions w_core_B w_core_T =
    Ok [DeleteColumn "t" "b"; ModifyColumnType "t" "a" (TSimple Text) None;
        ModifyColumnNullable "t" "a" false None; ModifyColumnDefault "t" "a" (Some "x");
        AddColumn "t" w_core_c None; RemoveConstraint "t" (CCheck "pos" "a > 0");
        RemoveConstraint "t" (CForeignKey None ["u"] "o" ["id"] None None);
        AddConstraint "t" (CUnique (Some "ua") ["a"]); AddConstraint "t" (CUnique None ["c"]);
        AddConstraint "t" (CForeignKey None ["c"] "o" ["id"] None None);
        AddConstraint "t" (CIndex (Some "ix_c") ["c"])].
Proof. vm_conj. Qed.

Definition w_first_T : schema :=
  [mkTable "post" None [pkcol "id"; fkcol "user_id" "user" "id"] [CIndex (Some "i") ["user_id"]];
   mkTable "user" (Some "x") [pkcol "id"; icol "a"; icol "a"] []].
Lemma w_first_hyp : c01_first [] w_first_T = true /\ loader_accepts w_first_T = true
  /\ exists acts, diff_actions [] w_first_T = Ok acts /\ List.length acts = 2.
Proof. vm_conj. eexists. vm_conj. Qed.

Definition w_tables_B : schema := Eval vm_compute in w_norm [mkTable "t" None [pkcol "id"; w_ucol "u"] []; mkTable "old" None [pkcol "id"] []].
Definition w_tables_T : schema :=
  [mkTable "t" (Some "described") [nncol "id"; icol "u"] [CPrimaryKey false ["id"]; CUnique None ["u"]];
   mkTable "n" None [pkcol "id"; fkcol "t_id" "t" "id"] []].
Lemma w_tables_hyp : c01_tables_only w_tables_B w_tables_T = true /\ loader_accepts w_tables_T = true
  /\ exists acts, diff_actions w_tables_B w_tables_T = Ok acts /\ List.length acts = 2.
Proof. vm_conj. eexists. vm_conj. Qed.

Definition w_attrs_B : schema := Eval vm_compute in
  w_norm [mkTable "t" None [pkcol "id"; w_col "a" (TSimple Text) true (Some (DStr "")) None;
                            w_col "b" (TSimple Text) true None None;
                            w_col "c" (TSimple Boolean) true (Some (DBool true)) None] []].
Definition w_attrs_T : schema :=
  [mkTable "t" None [pkcol "id"; w_col "a" (TSimple Text) true (Some (DStr "''")) None;
                     w_col "b" (TSimple Text) true (Some (DStr "")) None;
                     w_col "c" (TSimple Boolean) false (Some (DInt 0)) None] []].
Lemma w_attrs_hyp : c01_column_attrs w_attrs_B w_attrs_T = true /\ loader_accepts w_attrs_T = true
  /\ diff_actions w_attrs_B w_attrs_T =
     Ok [ModifyColumnNullable "t" "c" false None; ModifyColumnDefault "t" "b" (Some "''");
         ModifyColumnDefault "t" "c" (Some "0")].
Proof. vm_conj. Qed.

(* a two-step grown history covered by the theorem *)
Definition w_hist_p1 : plan := Eval vm_compute in match plan_next w_first_T [] with Ok p => p | Err _ => mkPlan "" None None 0 [] end.
Definition w_hist_H1 : list plan := Eval vm_compute in [] ++ [fill_plan w_hist_p1 []].
Definition w_hist_B1 : schema := Eval vm_compute in match replay w_hist_H1 with Ok s => s | Err _ => [] end.
Definition w_hist_T2 : schema :=
  [mkTable "post" None
     [pkcol "id"; mkCol "user_id" (TSimple BigInt) false None (Some "owner") None None None (Some (FKStr "user.id"))]
     [CIndex (Some "i") ["user_id"]];
   mkTable "user" (Some "x") [pkcol "id"; icol "a"; icol "a"] [];
   mkTable "tag" None [pkcol "id"] []].
Definition w_hist_p2 : plan := Eval vm_compute in
  match plan_next w_hist_T2 w_hist_H1 with Ok p => p | Err _ => mkPlan "" None None 0 [] end.
Definition w_hist_H2 : list plan := Eval vm_compute in w_hist_H1 ++ [fill_plan w_hist_p2 w_hist_B1].
Lemma w_hist_grown :
  Grown c01_step_models w_hist_H2 /\ List.length w_hist_H2 = 2 /\
  replay w_hist_H1 = Ok w_hist_B1 /\ c01_step_models w_hist_B1 w_hist_T2 = true /\
  loader_accepts w_hist_T2 = true /\
  p_version w_hist_p2 = 2%N /\
  p_actions w_hist_p2 =
    [CreateTable "tag" [pkcol "id"] [];
     ModifyColumnType "post" "user_id" (TSimple BigInt) None;
     ModifyColumnNullable "post" "user_id" false None;
     ModifyColumnComment "post" "user_id" (Some "owner")].
Proof.
  split; [|vm_conj].
  (* never [vm_compute] a goal that mentions [c01_step_models] unapplied: it would normalise the
     whole planner under binders *)
  apply (Grown_step_eq c01_step_models w_hist_H1 w_hist_B1 w_hist_T2 w_hist_p2);
    [|vm_compute; reflexivity|vm_compute; reflexivity|vm_compute; reflexivity|vm_compute; reflexivity].
  apply (Grown_step_eq c01_step_models [] [] w_first_T w_hist_p1);
    [constructor|vm_compute; reflexivity|vm_compute; reflexivity|vm_compute; reflexivity|vm_compute; reflexivity].
Qed.

(* why default_renders is asked: DFloat "" renders as the empty string, ModifyColumnDefault then
   stores DStr "", which renders as '' — the planner sees a difference for ever.  (Model-level corner:
   f64::to_string never returns "".) *)
Definition w_render_B : schema := [mkTable "t" None [nncol "id"; icol "a"] [CPrimaryKey false ["id"]]].
Definition w_render_T : schema :=
  [mkTable "t" None [nncol "id"; w_col "a" (TSimple Integer) true (Some (DFloat "")) None] [CPrimaryKey false ["id"]]].
Lemma C01_empty_render_refuted :
  baseline_ok w_render_B = true /\ loader_accepts w_render_T = true /\
  diff_actions w_render_B w_render_T = Ok [ModifyColumnDefault "t" "a" (Some "")] /\
  c01_step w_render_B w_render_T = false /\ closes_gap w_render_B w_render_T = false.
Proof. vm_conj. Qed.

(* why distinct column names are asked of a modified baseline table: the loader accepts a table that
   lists a column name twice; the planner compares the LAST column of that name, apply_action modifies
   the FIRST one; the same ModifyColumnType is planned again after every revision.  The baseline is
   grown by the tool from a loader-accepted model set.  None of the known classifiers fires. *)
Definition w_dup_T0 : schema := [mkTable "t" None [pkcol "id"; icol "a"; icol "a"] []].
Definition w_dup_H : list plan := [mkPlan "" None None 1 [CreateTable "t" [pkcol "id"; icol "a"; icol "a"] []]].
Definition w_dup_B : schema := [mkTable "t" None [pkcol "id"; icol "a"; icol "a"] [CPrimaryKey false ["id"]]].
Definition w_dup_T : schema :=
  [mkTable "t" None [pkcol "id"; w_col "a" (TSimple Text) true None None; w_col "a" (TSimple Text) true None None] []].
Lemma C01_duplicate_column_refuted :
  loader_accepts w_dup_T0 = true /\ loader_accepts w_dup_T = true /\
  plan_next w_dup_T0 [] = Ok (mkPlan "" None None 1 (flat_map p_actions w_dup_H)) /\
  replay w_dup_H = Ok w_dup_B /\ closes_gap [] w_dup_T0 = true /\
  diff_actions w_dup_B w_dup_T = Ok [ModifyColumnType "t" "a" (TSimple Text) None] /\
  (match apply_all w_dup_B [ModifyColumnType "t" "a" (TSimple Text) None] with
   | Ok b' => diff_actions b' w_dup_T = Ok [ModifyColumnType "t" "a" (TSimple Text) None]
   | Err _ => False
   end) /\
  closes_gap w_dup_B w_dup_T = false /\
  known_shrunk_constraint w_dup_B w_dup_T = false /\ known_shadowed_inline w_dup_B w_dup_T = false /\
  known_incremental_group w_dup_B w_dup_T = false.
Proof. vm_conj. Qed.
