(* Concrete refutation witnesses (closed by computation) for the M1-family properties. *)
From VV.M1 Require Import Oracles.

Definition icol (n : string) : column_def := mkCol n (TSimple Integer) true None None None None None None.
Definition pkcol (n : string) : column_def := mkCol n (TSimple Integer) false None None (Some (PKBool true)) None None None.

(* D1: composite index (a,b); the model drops column b together with the index *)
Definition nncol (n : string) : column_def := mkCol n (TSimple Integer) false None None None None None None.
Definition d1_base : schema :=
  [mkTable "t" None [nncol "id"; icol "a"; icol "b"] [CPrimaryKey false ["id"]; CIndex None ["a"; "b"]]].
Definition d1_target : schema := [mkTable "t" None [nncol "id"; icol "a"] [CPrimaryKey false ["id"]]].
Definition d1_history : list plan :=
  [mkPlan "" None None 1 [CreateTable "t" [nncol "id"; icol "a"; icol "b"] [CPrimaryKey false ["id"]; CIndex None ["a"; "b"]]]].
Lemma d1_replay : replay d1_history = Ok d1_base /\ plan_next d1_base [] = Ok (mkPlan "" None None 1 (p_actions (hd (mkPlan "" None None 0 []) d1_history))).
Proof. split; vm_compute; reflexivity. Qed.

Lemma d1_accepts : loader_accepts d1_base = true /\ loader_accepts d1_target = true.
Proof. split; vm_compute; reflexivity. Qed.
Lemma d1_plan : diff_actions d1_base d1_target
  = Ok [DeleteColumn "t" "b"; RemoveConstraint "t" (CIndex None ["a"; "b"])].
Proof. vm_compute. reflexivity. Qed.
Lemma d1_residue : match apply_all d1_base [DeleteColumn "t" "b"; RemoveConstraint "t" (CIndex None ["a"; "b"])] with
                   | Ok b' => diff_actions b' d1_target = Ok [RemoveConstraint "t" (CIndex None ["a"])]
                   | Err _ => False
                   end.
Proof. vm_compute. reflexivity. Qed.
Lemma d1_gap_remains : closes_gap d1_base d1_target = false /\ known_shrunk_constraint d1_base d1_target = true.
Proof. split; vm_compute; reflexivity. Qed.
Lemma d1_not_stepwise : plan_stepwise_ok d1_base d1_target = false.
Proof. vm_compute. reflexivity. Qed.

(* D2: drop table user and the FK post.user_id -> user in one step *)
Definition fkcol (n rt rc : string) : column_def :=
  mkCol n (TSimple Integer) true None None None None None (Some (FKStr (rt +++ "." +++ rc))).
Definition d2_base : schema :=
  [mkTable "user" None [pkcol "id"] []; mkTable "post" None [pkcol "id"; fkcol "user_id" "user" "id"] []].
Definition d2_target : schema := [mkTable "post" None [pkcol "id"; icol "user_id"] []].
Lemma d2_accepts : loader_accepts d2_base = true /\ loader_accepts d2_target = true.
Proof. split; vm_compute; reflexivity. Qed.
Lemma d2_plan : diff_actions d2_base d2_target
  = Ok [DeleteTable "user"; RemoveConstraint "post" (CForeignKey None ["user_id"] "user" ["id"] None None)].
Proof. vm_compute. reflexivity. Qed.
Lemma d2_not_stepwise : plan_stepwise_ok d2_base d2_target = false /\ known_drop_before_unreference d2_base d2_target = true.
Proof. split; vm_compute; reflexivity. Qed.
Lemma d2_closes : closes_gap d2_base d2_target = true.
Proof. vm_compute. reflexivity. Qed.
