(* One table, one group, fourth rung: added columns may carry inline unique / index / foreign_key
   declarations.  AddColumn re-normalises the table: when the column's group keys are private to it, the
   only constraints normalisation can push are the column's own products, which the target already
   lists — so the planner's AddConstraint for them is skipped by `contains`, in whatever order. *)
From VV.M1 Require Import Oracles Hyp NormalizeP BtP DiffP DiffEqP KahnP ApplyLocalP AttrsP GrowP ChangeP.
From Coq Require Import Lia Permutation.

(* ---------- groups ---------- *)
Lemma group_get_add_other key k' col : forall gs, k' <> key ->
  group_get key (group_add k' col gs) = group_get key gs.
Proof.
  intros gs Hne. induction gs as [|[k l] r IH]; cbn [group_add group_get].
  - assert (E : String.eqb k' key = false) by now apply String.eqb_neq. now rewrite E.
  - destruct (String.eqb k k') eqn:E1; cbn [group_get].
    + apply String.eqb_eq in E1. subst k'.
      assert (E : String.eqb k key = false) by now apply String.eqb_neq. now rewrite E.
    + destruct (String.eqb k key); [reflexivity|exact IH].
Qed.
Lemma group_add_absent key col : forall gs, group_get key gs = None ->
  group_add key col gs = gs ++ [(key, [col])].
Proof.
  induction gs as [|[k l] r IH]; cbn [group_add group_get app]; intro H; [reflexivity|].
  destruct (String.eqb k key); [discriminate|]. now rewrite (IH H).
Qed.
Lemma group_get_snoc key k' l : forall gs, k' <> key ->
  group_get key (gs ++ [(k', l)]) = group_get key gs.
Proof.
  intros gs Hne. induction gs as [|[k l0] r IH]; cbn [app group_get].
  - assert (E : String.eqb k' key = false) by now apply String.eqb_neq. now rewrite E.
  - destruct (String.eqb k key); [reflexivity|exact IH].
Qed.

Definition single (col : string) (key : string) : group := (key, [col]).

Lemma fold_add_fresh col : forall names gs, NoDup names ->
  (forall n, In n names -> group_get n gs = None) ->
  fold_left (fun g n => group_add n col g) names gs = gs ++ map (single col) names.
Proof.
  induction names as [|n0 r IH]; intros gs Hnd Habs; cbn [fold_left map]; [now rewrite app_nil_r|].
  inversion Hnd as [|x l Hx Hnd']; subst x l.
  rewrite (group_add_absent n0 col gs (Habs n0 (or_introl eq_refl))).
  rewrite IH; [now rewrite <- app_assoc|exact Hnd'|].
  intros n Hn. rewrite group_get_snoc; [apply Habs; now right|]. intro E. subst. contradiction.
Qed.
Lemma fold_add_other key col : forall names gs, ~ In key names -> group_get key gs = None ->
  group_get key (fold_left (fun g n => group_add n col g) names gs) = None.
Proof.
  induction names as [|n0 r IH]; intros gs Hni H; cbn [fold_left]; [exact H|].
  apply IH; [intro; apply Hni; now right|].
  rewrite group_get_add_other; [exact H|]. intro E. apply Hni. now left.
Qed.

(* unique *)
Lemma unique_step_fresh gs c : NoDup (ukeys c) -> (forall key, In key (ukeys c) -> group_get key gs = None) ->
  unique_groups_step gs c = gs ++ map (single (c_name c)) (ukeys c).
Proof.
  unfold ukeys, unique_groups_step, sba_keys. intros Hnd Habs.
  destruct (c_unique c) as [[n|l|[|]]|]; cbn [map]; try (now rewrite app_nil_r).
  - apply group_add_absent, Habs. now left.
  - now apply fold_add_fresh.
  - apply group_add_absent, Habs. now left.
Qed.
Lemma unique_step_other key gs c : ~ In key (ukeys c) -> group_get key gs = None ->
  group_get key (unique_groups_step gs c) = None.
Proof.
  unfold ukeys, unique_groups_step, sba_keys. intros Hni H.
  destruct (c_unique c) as [[n|l|[|]]|]; try exact H.
  - rewrite group_get_add_other; [exact H|]. intro E. apply Hni. now left.
  - now apply fold_add_other.
  - rewrite group_get_add_other; [exact H|]. intro E. apply Hni. now left.
Qed.
Lemma unique_groups_other key : forall cols acc, group_get key acc = None ->
  (forall col, In col cols -> ~ In key (ukeys col)) ->
  group_get key (fold_left unique_groups_step cols acc) = None.
Proof.
  induction cols as [|c r IH]; intros acc H Hni; cbn [fold_left]; [exact H|].
  apply IH; [|intros col Hc; apply Hni; now right].
  apply unique_step_other; [apply Hni; now left|exact H].
Qed.

(* index *)
Lemma tracked_absent key col gs : group_get key gs = None -> tracked key col gs = false.
Proof. unfold tracked. now intros ->. Qed.
Lemma index_array_fresh col : forall names seen gs, NoDup names ->
  (forall n, In n names -> ~ In n seen) -> (forall n, In n names -> group_get n gs = None) ->
  index_array col names seen gs = Ok (gs ++ map (single col) names).
Proof.
  induction names as [|n0 r IH]; intros seen gs Hnd Hseen Habs; cbn [index_array map]; [now rewrite app_nil_r|].
  inversion Hnd as [|x l Hx Hnd']; subst x l.
  rewrite (proj2 (mem_str_false n0 seen) (Hseen n0 (or_introl eq_refl))).
  rewrite (tracked_absent _ _ _ (Habs n0 (or_introl eq_refl))).
  rewrite (group_add_absent n0 col gs (Habs n0 (or_introl eq_refl))).
  rewrite IH; [now rewrite <- app_assoc|exact Hnd'| |].
  - intros n Hn [E|Hs]; [subst; contradiction|]. apply (Hseen n); [now right|exact Hs].
  - intros n Hn. rewrite group_get_snoc; [apply Habs; now right|]. intro E. subst. contradiction.
Qed.
Lemma index_array_other key col : forall names seen gs gs', ~ In key names ->
  index_array col names seen gs = Ok gs' -> group_get key gs = None -> group_get key gs' = None.
Proof.
  induction names as [|n0 r IH]; intros seen gs gs' Hni H Hg; cbn [index_array] in H.
  - inversion H; subst. exact Hg.
  - destruct (mem_str n0 seen); [discriminate|]. destruct (tracked n0 col gs); [discriminate|].
    eapply IH; [|exact H|].
    + intro Hin. apply Hni. now right.
    + rewrite group_get_add_other; [exact Hg|]. intro E. apply Hni. now left.
Qed.
Lemma index_step_fresh gs c : NoDup (ikeys c) -> (forall key, In key (ikeys c) -> group_get key gs = None) ->
  index_groups_step gs c = Ok (gs ++ map (single (c_name c)) (ikeys c)).
Proof.
  unfold ikeys, index_groups_step, sba_keys. intros Hnd Habs.
  destruct (c_index c) as [[n|l|[|]]|]; cbn [map]; try (now rewrite app_nil_r).
  - rewrite (tracked_absent _ _ _ (Habs n (or_introl eq_refl))). f_equal. apply group_add_absent, Habs. now left.
  - apply index_array_fresh; [exact Hnd|intros n _ []|exact Habs].
  - rewrite (tracked_absent _ _ _ (Habs _ (or_introl eq_refl))). f_equal. apply group_add_absent, Habs. now left.
Qed.
Lemma index_step_other key gs gs' c : ~ In key (ikeys c) -> index_groups_step gs c = Ok gs' ->
  group_get key gs = None -> group_get key gs' = None.
Proof.
  unfold ikeys, index_groups_step, sba_keys. intros Hni H Hg.
  destruct (c_index c) as [[n|l|[|]]|]; try (inversion H; subst; exact Hg).
  - destruct (tracked n (c_name c) gs); [discriminate|]. inversion H; subst.
    rewrite group_get_add_other; [exact Hg|]. intro E. apply Hni. now left.
  - eapply index_array_other; eauto.
  - destruct (tracked _ (c_name c) gs); [discriminate|]. inversion H; subst.
    rewrite group_get_add_other; [exact Hg|]. intro E. apply Hni. now left.
Qed.
Lemma index_groups_other key : forall cols gs0 gs, index_groups cols gs0 = Ok gs ->
  group_get key gs0 = None -> (forall col, In col cols -> ~ In key (ikeys col)) -> group_get key gs = None.
Proof.
  induction cols as [|c r IH]; intros gs0 gs H Hg Hni; cbn [index_groups] in H.
  - inversion H; subst. exact Hg.
  - destruct (index_groups_step gs0 c) as [gs1|e] eqn:E; [|discriminate].
    eapply IH; [exact H| |intros col Hc; apply Hni; now right].
    eapply index_step_other; [apply Hni; now left|exact E|exact Hg].
Qed.

(* what a push fold can contain *)
Lemma push_fold_in {B} (hit : B -> table_constraint -> bool) (mk : B -> table_constraint) k :
  forall bs acc, In k (fold_left (push_if_absent hit mk) bs acc) -> In k acc \/ exists b, In b bs /\ k = mk b.
Proof.
  induction bs as [|b bs IH]; intros acc H; cbn [fold_left] in H; [now left|].
  apply IH in H. destruct H as [H|[b' [Hb' E]]]; [|right; exists b'; split; [now right|exact E]].
  unfold push_if_absent in H. destruct (existsb (hit b) acc); [now left|].
  apply in_app_or in H. destruct H as [H|[<-|[]]]; [now left|right; exists b; split; [now left|reflexivity]].
Qed.

(* ---------- normalisation after appending a column whose keys are private ---------- *)
Definition keys_free (cols : list column_def) (c : column_def) : Prop :=
  forall col, In col cols ->
    (forall key, In key (ukeys c) -> ~ In key (ukeys col))
    /\ (forall key, In key (ikeys c) -> ~ In key (ikeys col)).

Lemma normalize_snoc_inline cols cs c :
  normalize_constraints cols cs = Ok cs ->
  c_primary_key c = None -> NoDup (ukeys c) -> NoDup (ikeys c) -> fk_parses c = true ->
  keys_free cols c ->
  exists cs', normalize_constraints (cols ++ [c]) cs = Ok cs' /\ extends cs cs'
              /\ forall k, In k cs' -> In k cs \/ In k (col_products c).
Proof.
  intros Hfix Hpk Hnu Hni Hfk Hfree.
  apply fix_covers_elim in Hfix. destruct Hfix as (C1 & C2 & C3 & gs & Eg & C4).
  unfold normalize_constraints.
  (* pass 1 *)
  assert (E1 : pk_cols_of (cols ++ [c]) = pk_cols_of cols).
  { unfold pk_cols_of. rewrite flat_map_app. cbn [flat_map]. rewrite Hpk. now rewrite !app_nil_r. }
  assert (P1 : pass_pk (cols ++ [c]) cs = cs) by (apply pass_pk_fix; now rewrite E1).
  rewrite P1.
  (* pass 2 *)
  set (newu := map (single (c_name c)) (ukeys c)).
  assert (EU : unique_groups (cols ++ [c]) = unique_groups cols ++ newu).
  { unfold unique_groups. rewrite fold_left_app. cbn [fold_left]. apply unique_step_fresh; [exact Hnu|].
    intros key Hk. apply unique_groups_other; [reflexivity|]. intros col Hc. now apply (Hfree col Hc). }
  set (cs2 := fold_left (push_if_absent unique_hit unique_mk) newu cs).
  assert (P2 : pass_unique (cols ++ [c]) cs = cs2).
  { unfold pass_unique. rewrite EU, fold_left_app. unfold cs2. f_equal. now apply push_fold_fix. }
  rewrite P2.
  assert (X2 : extends cs cs2) by apply push_fold_extends.
  (* pass 3 *)
  assert (P3a : pass_fk cols cs2 = Ok cs2).
  { apply pass_fk_noop; intros col f Hin Hf; destruct (C3 col f Hin Hf) as [Hp Hc]; [exact Hp|].
    eapply extends_existsb; eauto. }
  set (cs3 := match c_foreign_key c with
              | Some f => match fk_of_syntax (c_name c) f with
                          | Ok (t, rc, od, ou) =>
                              if existsb (fk_hit (c_name c)) cs2 then cs2
                              else cs2 ++ [CForeignKey None [c_name c] t rc od ou]
                          | Err _ => cs2
                          end
              | None => cs2
              end).
  assert (P3 : pass_fk (cols ++ [c]) cs2 = Ok cs3).
  { rewrite pass_fk_app, P3a. cbn [pass_fk]. unfold cs3, fk_parses in *.
    destruct (c_foreign_key c) as [f|]; [|reflexivity].
    destruct (fk_of_syntax (c_name c) f) as [[[[t rc] od] ou]|e]; [|discriminate].
    destruct (existsb _ cs2); reflexivity. }
  rewrite P3.
  assert (X3 : extends cs2 cs3).
  { unfold cs3. destruct (c_foreign_key c) as [f|]; [|apply extends_refl].
    destruct (fk_of_syntax (c_name c) f) as [[[[t rc] od] ou]|e]; [|apply extends_refl].
    destruct (existsb _ cs2); [apply extends_refl|eexists; reflexivity]. }
  assert (M3 : forall k, In k cs3 -> In k cs2 \/ In k (fk_product c)).
  { unfold cs3, fk_product. intros k Hk. destruct (c_foreign_key c) as [f|]; [|now left].
    destruct (fk_of_syntax (c_name c) f) as [[[[t rc] od] ou]|e]; [|now left].
    destruct (existsb _ cs2); [now left|]. apply in_app_or in Hk. destruct Hk as [Hk|Hk]; [now left|now right]. }
  (* pass 4 *)
  set (newi := map (single (c_name c)) (ikeys c)).
  assert (EI : index_groups (cols ++ [c]) [] = Ok (gs ++ newi)).
  { rewrite index_groups_app, Eg. cbn [index_groups].
    rewrite (index_step_fresh gs c Hni); [reflexivity|].
    intros key Hk. eapply index_groups_other; [exact Eg|reflexivity|]. intros col Hc. now apply (Hfree col Hc). }
  rewrite EI.
  assert (X13 : extends cs cs3) by (eapply extends_trans; eassumption).
  assert (P4 : fold_left (push_if_absent index_hit index_mk) gs cs3 = cs3).
  { apply push_fold_fix. intros g Hg. eapply extends_existsb; [exact X13|now apply C4]. }
  rewrite fold_left_app, P4.
  eexists. split; [reflexivity|]. split.
  - eapply extends_trans; [exact X13|apply push_fold_extends].
  - intros k Hk. apply push_fold_in in Hk. unfold col_products. destruct Hk as [Hk|[g [Hg ->]]].
    + apply M3 in Hk. destruct Hk as [Hk|Hk]; [|right; apply in_or_app; right; apply in_or_app; now left].
      unfold cs2 in Hk. apply push_fold_in in Hk. destruct Hk as [Hk|[g [Hg ->]]]; [now left|].
      right. apply in_or_app. left. unfold newu in Hg. apply in_map_iff in Hg. destruct Hg as [key [<- Hkey]].
      apply in_map_iff. exists key. split; [reflexivity|exact Hkey].
    + right. apply in_or_app. right. apply in_or_app. right.
      unfold newi in Hg. apply in_map_iff in Hg. destruct Hg as [key [<- Hkey]].
      apply in_map_iff. exists key. split; [reflexivity|exact Hkey].
Qed.

(* ---------- what an action of this rung does to a table ---------- *)
Definition sem_step3 (a : action) (t : table_def) : table_def :=
  match a with
  | AddColumn _ c _ =>
      match normalize (mkTable (t_name t) (t_description t) (t_columns t ++ [c]) (t_constraints t)) with
      | Ok n => n
      | Err _ => t
      end
  | _ => sem_step a t
  end.
Definition sem3 (L : list action) (t : table_def) : table_def := fold_left (fun t a => sem_step3 a t) L t.

Definition is_inl_kind (a : action) : bool :=
  match a with
  | ModifyColumnType _ _ _ _ | ModifyColumnNullable _ _ _ _
  | ModifyColumnDefault _ _ _ | ModifyColumnComment _ _ _ => true
  | AddConstraint _ _ | AddColumn _ _ _ => true
  | _ => false
  end.

Definition shape_ok (c : column_def) : Prop :=
  c_primary_key c = None /\ NoDup (ukeys c) /\ NoDup (ikeys c) /\ fk_parses c = true.

Record valid3 (L : list action) (t : table_def) : Prop := mkValid3 {
  x_kind : forall a, In a L -> is_inl_kind a = true;
  x_attr : forall a, In a L -> is_attr_action a = true -> In (attr_col a) (colnames t);
  x_nodup : NoDup (added_names L);
  x_fresh : forall x, In x (added_names L) -> ~ In x (colnames t);
  x_shape : forall n c f, In (AddColumn n c f) L ->
      shape_ok c /\ keys_free (t_columns t) c
      /\ forall n' c' f', In (AddColumn n' c' f') L -> c_name c' <> c_name c -> keys_free [c'] c }.

Lemma ukeys_col_apply a c : ukeys (col_apply a c) = ukeys c.
Proof. destruct a; cbn [col_apply]; try reflexivity; destruct (String.eqb _ _); reflexivity. Qed.
Lemma ikeys_col_apply a c : ikeys (col_apply a c) = ikeys c.
Proof. destruct a; cbn [col_apply]; try reflexivity; destruct (String.eqb _ _); reflexivity. Qed.

Lemma keys_free_map a cols c : keys_free cols c -> keys_free (map (col_apply a) cols) c.
Proof.
  intros H col Hc. apply in_map_iff in Hc. destruct Hc as [c0 [<- Hc0]].
  rewrite ukeys_col_apply, ikeys_col_apply. now apply H.
Qed.

Lemma in_added_names n c f L : In (AddColumn n c f) L -> In (c_name c) (added_names L).
Proof. intro H. unfold added_names. apply in_flat_map. exists (AddColumn n c f). split; [exact H|now left]. Qed.

(* the facts one step establishes about constraints and columns *)
Definition cs_step (a : action) (t t' : table_def) : Prop :=
  (forall k, In k (t_constraints t) -> In k (t_constraints t'))
  /\ (forall n k, a = AddConstraint n k -> In k (t_constraints t'))
  /\ (forall k, In k (t_constraints t') ->
        In k (t_constraints t) \/ (exists n, a = AddConstraint n k)
        \/ exists n c f, a = AddColumn n c f /\ In k (col_products c)).

Lemma inl_step a L t :
  valid3 (a :: L) t -> NoDup (colnames t) -> normalize t = Ok t ->
  apply_table (Some t) a = Ok (Some (sem_step3 a t))
  /\ valid3 L (sem_step3 a t) /\ NoDup (colnames (sem_step3 a t))
  /\ normalize (sem_step3 a t) = Ok (sem_step3 a t)
  /\ t_name (sem_step3 a t) = t_name t
  /\ cs_step a t (sem_step3 a t)
  /\ forall k, col_named k (sem_step3 a t) = cstep k a (col_named k t).
Proof.
  intros [Vk Va Vn Vf Vs] Hnd Hfix.
  pose proof (Vk a (or_introl eq_refl)) as Hk.
  assert (VkL : forall b, In b L -> is_inl_kind b = true) by (intros b Hb; apply Vk; now right).
  destruct (is_attr_action a) eqn:Hattr.
  - (* attribute action *)
    pose proof (Va a (or_introl eq_refl) Hattr) as Hin.
    assert (Es : sem_step3 a t = map_cols (col_apply a) t) by (destruct a; try discriminate; reflexivity).
    assert (Hn : colnames (map_cols (col_apply a) t) = colnames t).
    { unfold colnames, map_cols. cbn [t_columns]. rewrite map_map. apply map_ext. apply col_apply_name. }
    assert (Ean : added_names (a :: L) = added_names L) by (destruct a; try discriminate; reflexivity).
    rewrite Es, (apply_table_attr a t Hattr), (table_fn_attr a t Hattr Hnd Hin).
    split; [reflexivity|]. split; [|split; [now rewrite Hn|split; [|split; [reflexivity|split]]]].
    + constructor; try assumption.
      * intros b Hb Hab. rewrite Hn. apply Va; [now right|exact Hab].
      * now rewrite <- Ean.
      * intros x Hx. rewrite Hn. apply Vf. now rewrite Ean.
      * intros n c f Hin'. destruct (Vs n c f (or_intror Hin')) as (S1 & S2 & S3).
        split; [exact S1|]. split; [unfold map_cols; cbn [t_columns]; now apply keys_free_map|].
        intros n' c' f' Hc'. apply (S3 n' c' f'). now right.
    + unfold map_cols. apply normalize_same_view; [exact Hfix|].
      rewrite map_map. apply map_ext. apply canon_col_apply.
    + unfold cs_step, map_cols. cbn [t_constraints]. split; [auto|]. split; [|auto].
      intros n k E. subst a. discriminate.
    + intro k. assert (Ec : cstep k a (col_named k t) = option_map (col_apply a) (col_named k t))
        by (destruct a; try discriminate; reflexivity).
      rewrite Ec. apply col_named_map_cols. intro c. apply col_apply_name.
  - destruct a; try discriminate.
    + (* AddColumn *)
      cbn [added_names flat_map app] in Vn, Vf. inversion Vn as [|x l Hnew Vn']; subst x l.
      assert (Hfresh : ~ In (c_name column) (colnames t)) by (apply Vf; now left).
      destruct (Vs table column fill_with (or_introl eq_refl)) as ((Hpk & Hnu & Hni & Hfk) & Hfree & Hpair).
      destruct (normalize_snoc_inline (t_columns t) (t_constraints t) column
                  (normalize_fix_inv t Hfix) Hpk Hnu Hni Hfk Hfree) as (cs' & Ecs & Xcs & Mcs).
      assert (Hnorm : normalize (mkTable (t_name t) (t_description t) (t_columns t ++ [column]) (t_constraints t))
                      = Ok (mkTable (t_name t) (t_description t) (t_columns t ++ [column]) cs')).
      { unfold normalize. cbn [t_columns t_constraints t_name t_description]. now rewrite Ecs. }
      cbn [apply_table table_fn sem_step3]. rewrite (has_column_false _ _ Hfresh), Hnorm.
      split; [reflexivity|]. split; [|split; [|split; [|split; [reflexivity|split]]]].
      * constructor; try assumption.
        -- intros b Hb Hab. unfold colnames. cbn [t_columns]. rewrite map_app. apply in_or_app. left.
           apply Va; [now right|exact Hab].
        -- intros x Hx. unfold colnames. cbn [t_columns]. rewrite map_app. intro Hin.
           apply in_app_or in Hin. destruct Hin as [Hin|[<-|[]]].
           ++ apply (Vf x); [now right|exact Hin].
           ++ now apply Hnew.
        -- intros n c f Hin'. destruct (Vs n c f (or_intror Hin')) as (S1 & S2 & S3).
           split; [exact S1|]. split.
           ++ cbn [t_columns]. intros col Hc. apply in_app_or in Hc. destruct Hc as [Hc|[<-|[]]]; [now apply S2|].
              apply (S3 table column fill_with (or_introl eq_refl)); [|now left].
              intro E. apply Hnew. rewrite E. eapply in_added_names; exact Hin'.
           ++ intros n' c' f' Hc'. apply (S3 n' c' f'). now right.
      * unfold colnames. cbn [t_columns]. rewrite map_app. cbn [map].
        clear - Hnd Hfresh. unfold colnames in *. induction (map c_name (t_columns t)) as [|y l IH];
          cbn [app]; [constructor; [intros []|constructor]|].
        inversion Hnd; subst. constructor.
        -- intro Hin. apply in_app_or in Hin. destruct Hin as [Hin|[<-|[]]]; [tauto|].
           apply Hfresh. now left.
        -- apply IH; [assumption|]. intro Hin. apply Hfresh. now right.
      * eapply normalize_idempotent. exact Hnorm.
      * unfold cs_step. cbn [t_constraints]. destruct Xcs as [ex ->]. split; [|split].
        -- intros k Hk0. apply in_or_app. now left.
        -- intros n k E. discriminate.
        -- intros k Hk0. destruct (Mcs k Hk0) as [H|H]; [now left|].
           right. right. exists table, column, fill_with. auto.
      * intro k. cbn [cstep]. unfold col_named. cbn [t_columns].
        rewrite map_app, rev_app_distr. cbn [map rev app bt_get]. reflexivity.
    + (* AddConstraint *)
      assert (Vrest : valid3 L t).
      { constructor; try assumption.
        - intros b Hb Hab. apply Va; [now right|exact Hab].
        - intros n c f Hin'. destruct (Vs n c f (or_intror Hin')) as (S1 & S2 & S3).
          split; [exact S1|]. split; [exact S2|]. intros n' c' f' Hc'. apply (S3 n' c' f'). now right. }
      cbn [apply_table table_fn sem_step3 sem_step cstep].
      destruct (contains_constraint constraint (t_constraints t)) eqn:Ec.
      * split; [reflexivity|]. split; [exact Vrest|]. split; [exact Hnd|]. split; [exact Hfix|].
        split; [reflexivity|]. split; [|reflexivity].
        unfold cs_step. split; [auto|]. split; [|auto].
        intros n k E. inversion E; subst. now apply contains_constraint_true.
      * split; [reflexivity|]. split; [|split; [exact Hnd|split; [|split; [reflexivity|split; [|reflexivity]]]]].
        -- destruct Vrest. constructor; assumption.
        -- apply normalize_fix_intro. cbn [t_columns t_constraints].
           apply normalize_constraints_snoc. now apply normalize_fix_inv.
        -- unfold cs_step. cbn [t_constraints]. split; [|split].
           ++ intros k Hk0. apply in_or_app. now left.
           ++ intros n k E. inversion E; subst. apply in_or_app. right. now left.
           ++ intros k Hk0. apply in_app_or in Hk0. destruct Hk0 as [Hk0|[<-|[]]]; [now left|].
              right. left. now exists table.
Qed.

Lemma proj_all_inl : forall L t,
  valid3 L t -> NoDup (colnames t) -> normalize t = Ok t ->
  proj_all (Some t) L = Ok (Some (sem3 L t)) /\ normalize (sem3 L t) = Ok (sem3 L t)
  /\ t_name (sem3 L t) = t_name t
  /\ (forall k, In k (t_constraints t) -> In k (t_constraints (sem3 L t)))
  /\ (forall n k, In (AddConstraint n k) L -> In k (t_constraints (sem3 L t)))
  /\ (forall k, In k (t_constraints (sem3 L t)) ->
        In k (t_constraints t) \/ (exists n, In (AddConstraint n k) L)
        \/ exists n c f, In (AddColumn n c f) L /\ In k (col_products c))
  /\ (forall k, col_named k (sem3 L t) = fold_left (fun o a => cstep k a o) L (col_named k t)).
Proof.
  induction L as [|a L IH]; intros t Hv Hnd Hfix.
  - cbn [proj_all sem3 fold_left]. repeat split; auto. intros n k [].
  - destruct (inl_step a L t Hv Hnd Hfix) as (H1 & H2 & H3 & H4 & H5 & (S1 & S2 & S3) & H7).
    cbn [proj_all]. rewrite H1. destruct (IH _ H2 H3 H4) as (I1 & I2 & I3 & I4 & I5 & I6 & I7).
    unfold sem3 in *. cbn [fold_left]. split; [exact I1|]. split; [exact I2|]. split; [now rewrite I3|].
    split; [|split; [|split]].
    + intros k Hk. apply I4, S1, Hk.
    + intros n k [E|Hin]; [apply I4, (S2 n k); now symmetry|now apply (I5 n)].
    + intros k Hk. destruct (I6 k Hk) as [H|[[n H]|[n [c [f [H Hp]]]]]].
      * destruct (S3 k H) as [H'|[[n E]|[n [c [f [E Hp]]]]]]; [now left| |].
        -- right. left. exists n. left. now symmetry.
        -- right. right. exists n, c, f. split; [left; now symmetry|exact Hp].
      * right. left. exists n. now right.
      * right. right. exists n, c, f. split; [now right|exact Hp].
    + intro k. now rewrite I7, H7.
Qed.

(* ---------- facts about a group without DeleteColumn / RemoveConstraint ---------- *)
Lemma keep_group_shape name ft t2 :
  (forall a, In a (table_group name ft t2) -> kind a <> 0 /\ kind a <> 6) ->
  (forall k c, bt_get k (tg_cols ft) = Some c -> bt_mem k (tg_cols t2) = true)
  /\ incl (t_constraints ft) (t_constraints t2).
Proof.
  intro Hg. rewrite table_group_parts in Hg.
  assert (Hdel : tg_deleted ft t2 = []).
  { destruct (tg_deleted ft t2) as [|x r] eqn:E; [reflexivity|]. exfalso.
    destruct (Hg (DeleteColumn name x)) as [H _]; [apply in_or_app; left; now left|]. now apply H. }
  split.
  - intros k c Hk. unfold tg_deleted in Hdel. apply map_eq_nil in Hdel.
    pose proof (filter_nil_inv _ _ Hdel (k, c) (bt_get_in _ _ _ Hk)) as H. cbn [fst] in H.
    now apply negb_false_iff in H.
  - intros fc Hin. destruct (contains_constraint fc (t_constraints t2)) eqn:E;
      [now apply contains_constraint_true|]. exfalso.
    destruct (Hg (RemoveConstraint name fc)) as [_ H]; [|now apply H].
    do 6 (apply in_or_app; right). apply in_or_app; left.
    unfold tg_removed. apply in_flat_map. exists fc. split; [exact Hin|].
    rewrite E, Hdel. cbv zeta.
    destruct (constraint_columns fc) as [|x cc]; cbn [nonempty forallb mem_str existsb andb]; now left.
Qed.

Lemma inl_action_kind b tn a : is_inl_action b tn a = true -> is_inl_kind a = true /\ kind a <> 0 /\ kind a <> 6.
Proof. destruct a; cbn [is_inl_action is_inl_kind kind]; intro H; try discriminate; repeat split; discriminate. Qed.

Lemma keys_free_b_spec col c : keys_free_b col c = true -> keys_free [col] c.
Proof.
  unfold keys_free_b. intro H. apply andb_prop in H. destruct H as [H1 H2].
  rewrite forallb_forall in H1, H2. intros col' [<-|[]]. split; intros key Hk.
  - apply mem_str_false. apply negb_true_iff. now apply H1.
  - apply mem_str_false. apply negb_true_iff. now apply H2.
Qed.

(* ---------- the whole group, in any order ---------- *)
Theorem inl_fold b tn L :
  normalize b = Ok b -> inl_only b tn = true -> Permutation L (table_group (t_name b) b tn) ->
  exists b', proj_all (Some b) L = Ok (Some b') /\ t_name b' = t_name b
             /\ normalize b' = Ok b' /\ table_equiv b' tn.
Proof.
  intros Hfix Hinl HP. unfold inl_only in Hinl.
  destruct (table_group (t_name b) b tn) as [|a0 g0] eqn:EG.
  - apply Permutation_sym, Permutation_nil in HP. subst L. exists b.
    split; [reflexivity|split; [reflexivity|split; [exact Hfix|]]].
    now apply (table_group_nil_inv (t_name b)).
  - rewrite <- EG in *. clear a0 g0 EG.
    apply andb_prop in Hinl. destruct Hinl as [Hinl Hdef].
    apply andb_prop in Hinl. destruct Hinl as [Hinl Hnb].
    rewrite forallb_forall in Hinl, Hdef. apply nodup_str_NoDup' in Hnb.
    set (G := table_group (t_name b) b tn) in *.
    assert (HL : forall a, In a L <-> In a G).
    { intro a. split; apply Permutation_in; [exact HP|now apply Permutation_sym]. }
    destruct (keep_group_shape (t_name b) b tn) as [S1 S3].
    { intros a Ha. now destruct (inl_action_kind b tn a (Hinl a Ha)). }
    assert (HkL : forall a, In a L -> is_inl_kind a = true).
    { intros a Ha. now destruct (inl_action_kind b tn a (Hinl a (proj1 (HL a) Ha))). }
    (* every added column *)
    assert (Hadd : forall n c f, In (AddColumn n c f) L ->
              inline_ok b tn c = true /\ In c (t_columns tn) /\ bt_get (c_name c) (tg_cols tn) = Some c
              /\ bt_mem (c_name c) (tg_cols b) = false).
    { intros n c f Hin. apply HL in Hin. pose proof (Hinl _ Hin) as Hok. cbn [is_inl_action] in Hok.
      apply added_in_group in Hin. destruct Hin as (Hg & Hm & _).
      repeat split; try assumption. now apply (tg_cols_get (c_name c) c tn). }
    assert (Hv : valid3 L b).
    { constructor.
      - exact HkL.
      - intros a Ha Hattr. apply (attr_in_group_col (t_name b) b tn); [apply HL, Ha|exact Hattr].
      - eapply Permutation_NoDup; [|apply (added_names_group (t_name b) b tn)].
        unfold added_names. apply Permutation_flat_map, Permutation_sym, HP.
      - intros x Hx Hin. unfold added_names in Hx. apply in_flat_map in Hx.
        destruct Hx as [a [Ha Hx]]. destruct a; try (now destruct Hx). destruct Hx as [<-|[]].
        destruct (Hadd _ _ _ Ha) as (_ & _ & _ & Hm).
        apply bt_mem_false in Hm. apply Hm. unfold tg_cols. rewrite bt_keys_of_list, map_map. exact Hin.
      - intros n c f Hin. destruct (Hadd n c f Hin) as (Hok & _).
        unfold inline_ok in Hok. rewrite !andb_true_iff in Hok.
        destruct Hok as [[[[[[O1 O2] O3] O4] O5] O6] O7].
        split; [|split].
        + repeat split; [now apply is_none_eq|now apply nodup_str_NoDup'|now apply nodup_str_NoDup'|exact O4].
        + rewrite forallb_forall in O5. intros col Hc. apply (keys_free_b_spec col c (O5 col Hc)). now left.
        + intros n' c' f' Hin' Hne. destruct (Hadd n' c' f' Hin') as (_ & Hc'tn & _).
          rewrite forallb_forall in O6. specialize (O6 c' Hc'tn).
          apply orb_true_iff in O6. destruct O6 as [O6|O6]; [apply String.eqb_eq in O6; contradiction|].
          now apply keys_free_b_spec. }
    destruct (proj_all_inl L b Hv Hnb Hfix) as (P1 & P2 & P3 & P4 & P5 & P6 & P7).
    exists (sem3 L b). split; [exact P1|split; [exact P3|split; [exact P2|]]].
    split; [|split].
    + (* columns *)
      intro k. rewrite (P7 k), !col_named_tg.
      destruct (bt_get k (tg_cols b)) as [c|] eqn:Ec, (bt_get k (tg_cols tn)) as [td|] eqn:Et.
      * assert (Hno : forall a, In a L -> adds_named k a = false).
        { intros a Ha. destruct (adds_named k a) eqn:Ea; [|reflexivity]. exfalso.
          destruct a; try discriminate. cbn [adds_named] in Ea. apply String.eqb_eq in Ea.
          destruct (Hadd _ _ _ Ha) as (_ & _ & _ & Hm). rewrite <- Ea in Hm.
          unfold bt_mem in Hm. rewrite Ec in Hm. discriminate. }
        rewrite (cfold_common k L c Hno). cbn [opt_rel].
        apply (upd_col_equiv (t_name b) b tn L HL k c td Ec Et).
        apply Hdef. now apply (tg_cols_get k td tn).
      * specialize (S1 k c Ec). unfold bt_mem in S1. rewrite Et in S1. discriminate.
      * assert (Hm : bt_mem k (tg_cols b) = false) by (unfold bt_mem; now rewrite Ec).
        destruct (tg_cols_get k td tn Et) as [_ Hk].
        (* cfold_added of GrowP asks for grow actions; redo its argument for this rung *)
        assert (Hfold : forall L0, (forall a, In a L0 -> In a L) ->
                  (exists n f, In (AddColumn n td f) L0) ->
                  fold_left (fun o a => cstep k a o) L0 None = Some td).
        { induction L0 as [|a L0 IH] using rev_ind; intros Hsub [n [f Hin]]; [destruct Hin|].
          rewrite fold_left_app. cbn [fold_left].
          assert (HsubL : forall x, In x L0 -> In x L) by (intros x Hx; apply Hsub, in_or_app; now left).
          assert (HaL : In a L) by (apply Hsub, in_or_app; right; now left).
          destruct (adds_named k a) eqn:Ea.
          - destruct a; try discriminate. cbn [adds_named] in Ea. cbn [cstep]. rewrite Ea.
            apply String.eqb_eq in Ea. f_equal. destruct (Hadd _ _ _ HaL) as (_ & _ & Hg' & _).
            rewrite <- Ea, Et in Hg'. now inversion Hg'.
          - assert (HinL : exists n f, In (AddColumn n td f) L0).
            { apply in_app_or in Hin. destruct Hin as [Hin|[E|[]]]; [eauto|]. subst a.
              cbn [adds_named] in Ea. rewrite Hk, String.eqb_refl in Ea. discriminate. }
            rewrite (IH HsubL HinL).
            destruct (is_attr_action a) eqn:Haa.
            + assert (E : cstep k a (Some td) = Some (col_apply a td)) by (destruct a; try discriminate; reflexivity).
              rewrite E. f_equal. apply col_apply_other; [exact Haa|]. rewrite Hk. intro E'.
              pose proof (attr_in_group_col _ _ _ _ (proj1 (HL a) HaL) Haa) as Hin'. rewrite E' in Hin'.
              apply bt_mem_false in Hm. apply Hm. unfold tg_cols. rewrite bt_keys_of_list, map_map. exact Hin'.
            + specialize (HkL a HaL). destruct a; try discriminate; cbn [cstep]; [|reflexivity].
              cbn [adds_named] in Ea. now rewrite Ea. }
        rewrite (Hfold L (fun a Ha => Ha)).
        -- cbn [opt_rel]. apply col_equiv_refl.
        -- exists (t_name b), None. apply HL. now apply (group_adds _ _ _ k).
      * assert (Hno : forall a, In a L -> adds_named k a = false).
        { intros a Ha. destruct (adds_named k a) eqn:Ea; [|reflexivity]. exfalso.
          destruct a; try discriminate. cbn [adds_named] in Ea. apply String.eqb_eq in Ea.
          destruct (Hadd _ _ _ Ha) as (_ & _ & Hg' & _). rewrite <- Ea, Et in Hg'. discriminate. }
        rewrite (cfold_none k L Hno). exact I.
    + (* constraints of the result are constraints of the target *)
      intros k Hk. destruct (P6 k Hk) as [H|[[n H]|[n [c [f [H Hp]]]]]].
      * now apply S3.
      * apply HL in H. eapply addc_in_group; exact H.
      * destruct (Hadd n c f H) as (Hok & _). unfold inline_ok in Hok. rewrite !andb_true_iff in Hok.
        destruct Hok as [_ O7]. rewrite forallb_forall in O7. apply contains_constraint_true. now apply O7.
    + (* and conversely *)
      intros tc Htc.
      destruct (contains_constraint tc (t_constraints b)) eqn:E; [apply P4; now apply contains_constraint_true|].
      apply (P5 (t_name b)). apply HL. now apply group_addc.
Qed.
