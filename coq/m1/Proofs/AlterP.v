(* C06 for plans that ALTER common tables (C06_core_partial3): the baseline is a consistent normalisation
   fix-point, the models are accepted by the loader, every common table's group is of the C01 "change" class
   (ModifyColumn*, AddColumn of plain columns, AddConstraint, RemoveConstraint of purely table-level
   constraints, DeleteColumn of plain columns no constraint mentions) and the cross-table conditions of
   Corr/Hyp06.v hold.  The plan is then
       CreateTable ... (FK order) ++ DeleteTable ... (reverse FK order) ++ the groups of the common tables
   (the last block up to exchanges of ModifyColumnType / ModifyColumnDefault), and every prefix of it is a
   consistent schema in which each action finds its target. *)
From VV.M1 Require Import Diff Validate Revision Oracles Hyp Hyp06 BtP NormalizeP DiffP DiffEqP SortKeyP KahnP
  ApplyLocalP DiffPermP C01P AttrsP GrowP ChangeP CreateOnlyP CreateDropP.
From Coq Require Import Lia Permutation Sorted.

(* ---------- 0. stepwise_ok ignores fill_with fields ---------- *)
Lemma target_present_erase s a : target_present s (erase_fill a) = target_present s a.
Proof. destruct a; reflexivity. Qed.

Lemma stepwise_erase : forall l s, stepwise_ok s (map erase_fill l) = stepwise_ok s l.
Proof.
  induction l as [|a l IH]; intro s; cbn [map stepwise_ok]; [reflexivity|].
  rewrite target_present_erase, apply_action_erase. destruct (apply_action s a); [now rewrite IH|reflexivity].
Qed.

Lemma stepwise_filled p B s : stepwise_ok s (filled_actions p B) = stepwise_ok s (p_actions p).
Proof. now rewrite <- stepwise_erase, filled_erase, stepwise_erase. Qed.

(* ---------- 2. the shape of the plan ---------- *)
Lemma put_back_prefix : forall D sorted R,
  (forall a, In a D -> is_delete_table a = true) -> List.length sorted = List.length D ->
  (forall a, In a R -> is_delete_table a = false) ->
  put_back (D ++ R) sorted = sorted ++ R.
Proof.
  induction D as [|d D IH]; intros sorted R HD HL HR.
  - destruct sorted; [|discriminate]. cbn [app]. induction R as [|r R IHR]; [reflexivity|].
    cbn [put_back]. rewrite (HR r (or_introl eq_refl)). f_equal. apply IHR. intros; apply HR; now right.
  - destruct sorted as [|s ss]; [discriminate|]. cbn [app put_back]. rewrite (HD d (or_introl eq_refl)).
    f_equal. apply IH; auto. intros; apply HD; now right.
Qed.

Lemma sort_delete_prefix D R all :
  (forall a, In a D -> is_delete_table a = true) -> (forall a, In a R -> is_delete_table a = false) ->
  exists D', sort_delete_tables (D ++ R) all = D' ++ R /\ Permutation D' D /\
             (forall a, In a D' -> is_delete_table a = true).
Proof.
  intros HD HR. rewrite sort_delete_tables_unfold. cbn zeta.
  assert (EF : filter is_delete_table (D ++ R) = D).
  { rewrite filter_app, (CreateDropP.filter_all _ _ HD), filter_app_nil, app_nil_r; auto. }
  rewrite EF. destruct (Nat.leb _ 1); [exists D; auto|].
  destruct (kahn _) as [order|]; [|exists D; auto].
  eexists. split; [apply put_back_prefix; auto|split].
  - apply Permutation_length, SortKeyP.sort_by_key_perm.
  - apply SortKeyP.sort_by_key_perm.
  - intros a Ha. apply HD. eapply Permutation_in; [apply SortKeyP.sort_by_key_perm|exact Ha].
Qed.

Lemma sort_create_01 acts :
  (forall a, In a acts -> is_create a = true \/ create_rank (created_tables acts) a = 1) ->
  sort_create_before_add_constraint acts = filter is_create acts ++ filter (fun a => negb (is_create a)) acts.
Proof.
  intro H. unfold sort_create_before_add_constraint. destruct (created_tables acts) as [|c0 cr] eqn:Ec.
  - assert (Hn : forall a, In a acts -> is_create a = false).
    { intros a Ha. destruct (is_create a) eqn:E; [|reflexivity]. destruct a; try discriminate.
      assert (Hin : In table (created_tables acts)) by (apply created_tables_in; eauto).
      rewrite Ec in Hin. destruct Hin. }
    rewrite filter_app_nil by exact Hn. rewrite CreateDropP.filter_all; [reflexivity|].
    intros a Ha. now rewrite (Hn a Ha).
  - rewrite <- Ec in *. set (key := create_rank (created_tables acts)) in *.
    assert (K : forall a, In a acts -> (Nat.eqb (key a) 0 = is_create a) /\ (Nat.eqb (key a) 1 = negb (is_create a))).
    { intros a Ha. split; [apply create_rank_zero|]. destruct (H a Ha) as [E|E].
      - rewrite E. pose proof (create_rank_zero (created_tables acts) a) as Z. fold key in Z. rewrite E in Z.
        apply PeanoNat.Nat.eqb_eq in Z. now rewrite Z.
      - pose proof (create_rank_zero (created_tables acts) a) as Z. fold key in Z. rewrite E in Z |- *.
        cbn in Z. now rewrite <- Z. }
    assert (K01 : forall a, In a (sort_by_key key acts) -> key a = 0 \/ key a = 1).
    { intros a Ha. apply (Permutation_in _ (SortKeyP.sort_by_key_perm key acts)) in Ha.
      destruct (K a Ha) as [K0 K1]. destruct (H a Ha) as [E|E]; [left|right; exact E].
      rewrite E in K0. now apply PeanoNat.Nat.eqb_eq in K0. }
    rewrite (sorted01 key _ (SortKeyP.sort_by_key_sorted key acts) K01) at 1.
    rewrite !sort_by_key_stable. f_equal; apply filter_ext_in; intros a Ha; apply (K a Ha).
Qed.

Definition keepp (a : action) : bool := negb (is_modify_td a).

Lemma sort_enum_pproj acts fm :
  map (pproj keepp) (sort_enum_default_dependencies acts fm) = map (pproj keepp) acts.
Proof.
  unfold sort_enum_default_dependencies. apply swaps_pproj; [reflexivity|]. intros ij Hij.
  destruct (enum_swaps_good _ _ _ Hij) as [H1 H2].
  split; intros y Hy; unfold keepp; [rewrite (H1 y Hy)|rewrite (H2 y Hy)]; reflexivity.
Qed.

Lemma pproj_prefix (p : action -> bool) : forall A l R,
  map (pproj p) l = map (pproj p) (A ++ R) -> (forall a, In a A -> p a = true) ->
  exists R', l = A ++ R' /\ map (pproj p) R' = map (pproj p) R.
Proof.
  induction A as [|a A IH]; intros l R E HA; [exists l; auto|].
  destruct l as [|x l]; [discriminate|]. cbn [app map] in E. injection E as Ex El.
  unfold pproj in Ex. rewrite (HA a (or_introl eq_refl)) in Ex. destruct (p x); [|discriminate].
  injection Ex as ->. destruct (IH l R El) as [R' [-> ER]]; [intros; apply HA; now right|].
  exists R'. auto.
Qed.

Lemma sort_enum_prefix A R fm : (forall a, In a A -> is_modify_td a = false) ->
  exists R', sort_enum_default_dependencies (A ++ R) fm = A ++ R' /\ Permutation R' R /\
             filter keepp R' = filter keepp R.
Proof.
  intro HA. destruct (pproj_prefix keepp A _ R (sort_enum_pproj (A ++ R) fm)) as [R' [E ER]].
  { intros a Ha. unfold keepp. now rewrite (HA a Ha). }
  exists R'. split; [exact E|]. split; [|now apply filter_pproj].
  pose proof (sort_enum_perm (A ++ R) fm) as P. rewrite E in P. eapply Permutation_app_inv_l. exact P.
Qed.

Lemma table_group_no_delete name ft tt a : In a (table_group name ft tt) -> is_delete_table a = false.
Proof.
  unfold table_group. intro H.
  repeat match goal with
  | H : In _ (_ ++ _) |- _ => apply in_app_or in H; destruct H as [H|H]
  | H : In _ (map _ _) |- _ => apply in_map_iff in H; destruct H as [? [<- ?]]
  | H : In _ (flat_map _ _) |- _ => apply in_flat_map in H; destruct H as [? [? H]]
  | H : In _ (match ?x with _ => _ end) |- _ => destruct x
  | H : In _ [] |- _ => destruct H
  | H : In _ [_] |- _ => destruct H as [<-|[]]
  end; reflexivity.
Qed.

Lemma updates_in fm tm a : In a (diff_updates fm tm) ->
  exists k ft tt, bt_get k fm = Some ft /\ In (k, tt) tm /\ In a (table_group k ft tt).
Proof.
  unfold diff_updates. intro H. apply in_flat_map in H. destruct H as [[k tt] [Hkv H]]. cbn [fst snd] in H.
  destruct (bt_get k fm) as [ft|] eqn:E; [|destruct H]. eauto 6.
Qed.

Lemma diff_shape3 B T ns acts :
  (forall b, In b B -> normalize b = Ok b) -> NoDup (map t_name B) ->
  normalize_all T = Ok ns ->
  (forall n nm c rt rc od ou,
     In (AddConstraint n (CForeignKey nm c rt rc od ou)) (diff_updates (name_map B) (name_map ns)) ->
     In rt (map t_name B)) ->
  diff_actions B T = Ok acts ->
  exists sorted dn ups,
    topo_sort (diff_new (name_map B) (name_map ns)) = TopoOk sorted /\
    acts = flat_map (mk_create T) sorted ++ map DeleteTable dn ++ ups /\
    map delete_name (filter is_delete_table acts) = dn /\
    NoDup dn /\ (forall x, In x dn <-> In x (map t_name B) /\ ~ In x (map t_name ns)) /\
    Permutation ups (diff_updates (name_map B) (name_map ns)) /\
    filter keepp ups = filter keepp (diff_updates (name_map B) (name_map ns)).
Proof.
  intros BF BN EN Hfk Hd. rewrite diff_actions_core, (C01P.normalize_all_fix B BF), EN in Hd.
  unfold diff_core in Hd. set (fm := name_map B) in *. set (tm := name_map ns) in *.
  destruct (topo_sort (diff_new fm tm)) as [sorted| |] eqn:Et; try discriminate. cbv zeta in Hd.
  change (flat_map _ sorted) with (flat_map (mk_create T) sorted) in Hd.
  set (C := flat_map (mk_create T) sorted) in *. set (D := diff_deletes fm tm) in *. set (U := diff_updates fm tm) in *.
  injection Hd as Hacts.
  destruct (deletes_names fm tm (bt_sorted_nodup _ (bt_of_list_sorted _))) as [D1 [D2 D3]].
  fold (diff_deletes fm tm) in D1, D2, D3. fold D in D1, D2, D3.
  assert (Cc : forall a, In a C -> is_create a = true).
  { intros a Ha. unfold C in Ha. apply in_flat_map in Ha. destruct Ha as [t [_ Ha]]. unfold mk_create in Ha.
    destruct (bt_get _ _); [destruct Ha as [<-|[]]; reflexivity | destruct Ha]. }
  assert (Uc : forall a, In a U -> is_create a = false /\ is_delete_table a = false).
  { intros a Ha. destruct (updates_in _ _ _ Ha) as [k [ft [tt [_ [_ Hg]]]]].
    split; [eapply table_group_no_create|eapply table_group_no_delete]; eauto. }
  assert (NTnd : NoDup (map t_name (diff_new fm tm))).
  { apply new_tables_names; [apply name_keyed_of_list | apply bt_sorted_nodup, bt_of_list_sorted]. }
  destruct (topo_sort_sound _ _ NTnd Et) as [P _].
  assert (Cnames : forall x cols ks, In (CreateTable x cols ks) C -> ~ In x (map t_name B)).
  { intros x cols ks Ha. unfold C in Ha. apply in_flat_map in Ha. destruct Ha as [t [Ht Ha]]. unfold mk_create in Ha.
    destruct (bt_get _ _) as [o|] eqn:Eo; [|destruct Ha]. destruct Ha as [Ea|[]]. unfold CreateOnlyP.create_of in Ea.
    injection Ea as <- _ _. rewrite <- (name_keyed_of_list T _ _ (bt_get_in _ _ _ Eo)).
    apply (Permutation_in _ P) in Ht. unfold diff_new in Ht. apply in_flat_map in Ht.
    destruct Ht as [[k v] [Hkv Hin]]. cbn [fst snd] in Hin. destruct (bt_mem k fm) eqn:Em; [destruct Hin|].
    destruct Hin as [<-|[]]. rewrite <- (name_keyed_of_list ns k v Hkv).
    apply bt_mem_false in Em. unfold fm, name_map in Em. now rewrite bt_keys_of_list, keys_name_map in Em. }
  (* pass 1 *)
  destruct (sort_delete_prefix D (U ++ C) fm D1) as [D' [E1 [PD HD']]].
  { intros a Ha. apply in_app_or in Ha. destruct Ha as [Ha|Ha]; [apply (Uc a Ha)|].
    specialize (Cc a Ha). destruct a; try discriminate; reflexivity. }
  rewrite E1 in Hacts.
  (* pass 2 *)
  assert (HD'c : forall a, In a D' -> is_create a = false).
  { intros a Ha. specialize (HD' a Ha). destruct a; try discriminate; reflexivity. }
  rewrite sort_create_01 in Hacts.
  2:{ intros a Ha. destruct (is_create a) eqn:Ec; [now left|right].
      destruct a; try discriminate; try reflexivity. destruct constraint; try reflexivity.
      cbn [create_rank]. destruct (mem_str ref_table _) eqn:Em; [|reflexivity]. exfalso.
      apply mem_str_In, created_tables_in in Em. destruct Em as [cols [ks Hc]].
      assert (HcC : In (CreateTable ref_table cols ks) C).
      { apply in_app_or in Hc. destruct Hc as [Hc|Hc]; [specialize (HD' _ Hc); discriminate|].
        apply in_app_or in Hc. destruct Hc as [Hc|Hc]; [destruct (Uc _ Hc); discriminate|exact Hc]. }
      apply (Cnames _ _ _ HcC).
      apply in_app_or in Ha. destruct Ha as [Ha|Ha]; [specialize (HD' _ Ha); discriminate|].
      apply in_app_or in Ha. destruct Ha as [Ha|Ha]; [|specialize (Cc _ Ha); discriminate].
      eapply Hfk. exact Ha. }
  assert (F1 : filter is_create (D' ++ U ++ C) = C).
  { rewrite !filter_app, (filter_app_nil _ D' HD'c), (filter_app_nil _ U), (CreateDropP.filter_all _ C Cc); auto.
    intros a Ha. apply (Uc a Ha). }
  assert (F2 : filter (fun a => negb (is_create a)) (D' ++ U ++ C) = D' ++ U).
  { rewrite !filter_app, (CreateDropP.filter_all _ D'), (CreateDropP.filter_all _ U), (filter_app_nil _ C), app_nil_r; auto.
    - intros a Ha. now rewrite (Cc a Ha).
    - intros a Ha. destruct (Uc a Ha) as [E _]. now rewrite E.
    - intros a Ha. now rewrite (HD'c a Ha). }
  rewrite F1, F2 in Hacts.
  (* pass 3 *)
  rewrite app_assoc in Hacts.
  destruct (sort_enum_prefix (C ++ D') U fm) as [U' [E3 [PU FU]]].
  { intros a Ha. apply in_app_or in Ha. destruct Ha as [Ha|Ha].
    - specialize (Cc a Ha). destruct a; try discriminate; reflexivity.
    - specialize (HD' a Ha). destruct a; try discriminate; reflexivity. }
  rewrite E3, <- app_assoc in Hacts.
  exists sorted, (map delete_name D'), U'. split; [reflexivity|].
  assert (Pn : Permutation (map delete_name D') (map delete_name D)) by now apply Permutation_map.
  split; [rewrite <- Hacts, <- (map_delete_names D' HD'); reflexivity|]. split.
  { rewrite <- Hacts, !filter_app, (filter_app_nil _ C), (CreateDropP.filter_all _ D' HD'), (filter_app_nil _ U'), app_nil_r; auto.
    - intros a Ha. apply (Uc a). eapply Permutation_in; eauto.
    - intros a Ha. specialize (Cc a Ha). destruct a; try discriminate; reflexivity. }
  split; [eapply Permutation_NoDup; [apply Permutation_sym; exact Pn|exact D2]|].
  split; [|split; [exact PU|exact FU]].
  intro x. split.
  - intro Hx. apply (Permutation_in _ Pn), D3 in Hx. unfold fm, tm, name_map in Hx.
    now rewrite !bt_keys_of_list, !keys_name_map in Hx.
  - intro Hx. apply (Permutation_in _ (Permutation_sym Pn)), D3. unfold fm, tm, name_map.
    now rewrite !bt_keys_of_list, !keys_name_map.
Qed.

(* ---------- 1. generic composition of stepwise runs ---------- *)
Lemma stepwise_app : forall l1 s l2 s',
  stepwise_ok s l1 = true -> apply_all s l1 = Ok s' -> stepwise_ok s' l2 = true ->
  stepwise_ok s (l1 ++ l2) = true.
Proof.
  induction l1 as [|a l IH]; intros s l2 s' H1 Ha H2; cbn [app apply_all stepwise_ok] in *.
  - now inversion Ha; subst.
  - destruct (target_present s a); [|discriminate]. destruct (apply_action s a) as [s1|e]; [|discriminate].
    cbn [andb] in *. apply Bool.andb_true_iff in H1. destruct H1 as [Hc H1]. rewrite Hc. cbn [andb].
    eapply IH; eauto.
Qed.

Lemma filter_drop_cons x dn : forall s : schema,
  filter (fun t => negb (mem_str (t_name t) dn)) (filter (fun t => negb (String.eqb (t_name t) x)) s)
  = filter (fun t => negb (mem_str (t_name t) (x :: dn))) s.
Proof.
  induction s as [|t r IH]; [reflexivity|]. cbn [filter]. unfold mem_str at 2. cbn [existsb].
  fold (mem_str (t_name t) dn). destruct (String.eqb (t_name t) x); cbn [negb orb]; [exact IH|].
  cbn [filter]. destruct (mem_str (t_name t) dn); cbn [negb]; now rewrite IH.
Qed.

Lemma apply_all_deletes : forall dn s, NoDup dn -> incl dn (map t_name s) ->
  apply_all s (map DeleteTable dn) = Ok (filter (fun t => negb (mem_str (t_name t) dn)) s).
Proof.
  induction dn as [|x dn IH]; intros s Hnd Hin.
  - cbn [map apply_all]. f_equal. symmetry. apply CreateDropP.filter_all. reflexivity.
  - cbn [map apply_all apply_action]. rewrite (has_table_true x s (Hin x (or_introl eq_refl))).
    inversion Hnd as [|? ? Hx Hnd']; subst. rewrite IH; [now rewrite filter_drop_cons|exact Hnd'|].
    intros y Hy. assert (Hyx : y <> x) by (intros ->; contradiction).
    specialize (Hin y (or_intror Hy)). apply in_map_iff in Hin. destruct Hin as [t [E Ht]].
    apply in_map_iff. exists t. split; [exact E|]. apply filter_In. split; [exact Ht|].
    apply Bool.negb_true_iff, String.eqb_neq. congruence.
Qed.

(* ---------- 3. phase 1: new tables next to the baseline (they may reference baseline tables) ---------- *)
Section Phase1b.
  Variables (B T ns : list table_def).
  Hypothesis BC : consistent B = true.
  Hypothesis F : Forall2 (fun o n => normalize o = Ok n) T ns.
  Hypothesis SV : schema_valid ns.
  Variable sorted : list table_def.
  Hypothesis Sin : incl sorted ns.
  Hypothesis Snd : NoDup (map t_name sorted).
  Hypothesis Sfresh : forall t, In t sorted -> ~ In (t_name t) (map t_name B).
  Hypothesis Hcl : forall pre u post, sorted = pre ++ u :: post -> forall rt, In rt (fk_targets u) ->
     rt <> t_name u -> ~ In rt (map t_name B) -> In rt (map t_name pre).
  Hypothesis HB : forall u nm cols rt rcols od ou b, In u sorted ->
     In (CForeignKey nm cols rt rcols od ou) (t_constraints u) -> In b B -> t_name b = rt ->
     forallb (fun rc => mem_str rc (colnames b)) rcols = true.

  Lemma table_consistent_res s u : In u ns ->
    (forall nm cols rt rcols od ou, In (CForeignKey nm cols rt rcols od ou) (t_constraints u) ->
       exists x, find (fun x => String.eqb (t_name x) rt) s = Some x /\
                 forallb (fun rc => mem_str rc (colnames x)) rcols = true) ->
    table_consistent s (erase u) = true.
  Proof.
    intros Hu Hres. unfold table_consistent.
    rewrite (normalize_erase_fix u (ns_idem T ns F u Hu)). cbn [erase t_columns t_constraints].
    apply forallb_forall. intros k Hk.
    destruct SV as [ND V]. destruct (V u k Hu Hk) as [Hcols Hfk].
    apply Bool.andb_true_iff. split; [exact Hcols|].
    destruct k as [| |nm cols rt rcols od ou| |]; try reflexivity.
    destruct Hfk as [e [He [Hr [Hl Hn]]]].
    destruct (Hres _ _ _ _ _ _ Hk) as [x [Hx Hrc]]. rewrite Hx. unfold colnames in Hrc. rewrite Hrc, Hn.
    cbn [andb]. rewrite Bool.andb_true_r. now apply PeanoNat.Nat.eqb_eq.
  Qed.

  Lemma cons_ext2 P rest : sorted = P ++ rest -> consistent (B ++ map erase P) = true.
  Proof.
    intro Es. pose proof (BN B BC) as HBN.
    assert (HP : forall t, In t P -> In t sorted) by (intros t Ht; rewrite Es; apply in_or_app; now left).
    assert (PN : NoDup (map t_name P)).
    { rewrite Es, map_app in Snd. eapply nodup_app_l. exact Snd. }
    unfold consistent. apply Bool.andb_true_iff. split.
    - apply nodup_str_spec. rewrite map_app, map_erase_names. apply nodup_app_intro; auto.
      intros x Hx HxB. apply in_map_iff in Hx. destruct Hx as [t [<- Ht]]. exact (Sfresh t (HP t Ht) HxB).
    - apply forallb_forall. intros x Hx. apply in_app_or in Hx. destruct Hx as [Hx|Hx].
      + apply table_consistent_app. unfold consistent in BC. apply Bool.andb_true_iff in BC.
        destruct BC as [_ BC2]. rewrite forallb_forall in BC2. now apply BC2.
      + apply in_map_iff in Hx. destruct Hx as [u [<- Hu]].
        assert (Hun : In u ns) by (apply Sin, HP, Hu).
        apply table_consistent_res; [exact Hun|]. intros nm cols rt rcols od ou Hk.
        pose proof (fk_targets_in _ _ _ _ _ _ _ Hk) as Hrt. rewrite find_app.
        destruct (in_dec string_dec rt (map t_name B)) as [HBin|HBout].
        * destruct (find_name_some rt B HBin) as [b [Hf [Hb Eb]]]. rewrite Hf. exists b.
          split; [reflexivity|]. eapply HB; eauto.
        * rewrite (find_name_none rt B HBout).
          assert (HrP : In rt (map t_name P)).
          { destruct (string_dec rt (t_name u)) as [->|Hne]; [now apply in_map|].
            apply in_split in Hu. destruct Hu as [p [q Epq]].
            assert (Esp : sorted = p ++ u :: (q ++ rest)) by (rewrite Es, Epq, <- app_assoc; reflexivity).
            pose proof (Hcl _ _ _ Esp rt Hrt Hne HBout) as Hp. rewrite Epq, map_app. apply in_or_app. now left. }
          rewrite <- map_erase_names in HrP.
          destruct (find_name_some rt (map erase P) HrP) as [x [Hf [Hx Ex]]]. rewrite Hf.
          apply in_map_iff in Hx. destruct Hx as [r' [<- Hr']]. cbn [erase t_name] in Ex.
          exists (erase r'). split; [reflexivity|].
          destruct (proj2 SV u _ Hun Hk) as [_ [e [He [Hrc _]]]].
          apply find_some in He. destruct He as [He Ee]. apply String.eqb_eq in Ee.
          apply in_map_iff in He. destruct He as [z [<- Hz]]. cbn [fst snd] in *.
          assert (z = r').
          { apply (nodup_map_inj t_name ns); [exact (proj1 SV) | exact Hz | apply Sin, HP, Hr' | congruence]. }
          subst z. exact Hrc.
  Qed.

  Lemma stepwise_phase1b rest :
    stepwise_ok (B ++ map erase sorted) rest = true ->
    forall todo done, sorted = done ++ todo ->
    stepwise_ok (B ++ map erase done) (flat_map (mk_create T) todo ++ rest) = true.
  Proof.
    intros Hrest. induction todo as [|t r IH]; intros done Es.
    - rewrite app_nil_r in Es. subst done. exact Hrest.
    - assert (Hts : In t sorted) by (rewrite Es; apply in_or_app; right; now left).
      assert (Ht : In t ns) by (apply Sin, Hts).
      destruct (orig_lookup T ns F SV t Ht) as [o [Hg Hn]].
      cbn [flat_map]. unfold mk_create at 1. rewrite Hg. cbn [app stepwise_ok]. unfold CreateOnlyP.create_of at 1 2.
      cbn [target_present andb apply_action].
      assert (En : t_name o = t_name t) by (symmetry; now destruct (normalize_lossless _ _ Hn)).
      assert (Hfresh : ~ In (t_name t) (map t_name (B ++ map erase done))).
      { rewrite map_app, map_erase_names. intro H. apply in_app_or in H. destruct H as [H|H].
        - exact (Sfresh t Hts H).
        - rewrite Es, map_app in Snd. cbn [map] in Snd. apply NoDup_remove_2 in Snd.
          apply Snd. apply in_or_app. now left. }
      rewrite En, (has_table_false _ _ Hfresh). rewrite <- En, (normalize_erase _ _ Hn).
      replace ((B ++ map erase done) ++ [erase t]) with (B ++ map erase (done ++ [t]))
        by (rewrite map_app, app_assoc; reflexivity).
      rewrite IH by (rewrite <- app_assoc; exact Es). rewrite Bool.andb_true_r.
      apply (cons_ext2 (done ++ [t]) r). rewrite <- app_assoc. exact Es.
  Qed.
End Phase1b.

(* ---------- 4. phase 3: the groups of the common tables, in any order that keeps AddColumn before the
   AddConstraint that needs it ---------- *)
Definition removed_cs (L : list action) : list table_constraint :=
  flat_map (fun a => match a with RemoveConstraint _ k => [k] | _ => [] end) L.

Lemma colnames_step a t : is_change_kind a = true ->
  colnames (sem_step2 a t) =
  match a with
  | AddColumn _ c _ => colnames t ++ [c_name c]
  | DeleteColumn _ x => filter (fun y => negb (String.eqb y x)) (colnames t)
  | _ => colnames t
  end.
Proof.
  intro Hk. unfold colnames.
  destruct a; try discriminate; cbn [sem_step2 sem_step map_cols t_columns];
    try (rewrite map_map; apply map_ext; intro c; apply col_apply_name).
  - now rewrite map_app.
  - induction (t_columns t) as [|c r IH]; [reflexivity|]. cbn [filter map]. unfold not_named at 1.
    destruct (String.eqb (c_name c) column); cbn [negb map]; now rewrite IH.
  - destruct (contains_constraint _ _); reflexivity.
  - reflexivity.
Qed.

Lemma constraints_step a t :
  t_constraints (sem_step2 a t) =
  match a with
  | AddConstraint _ k => if contains_constraint k (t_constraints t) then t_constraints t else t_constraints t ++ [k]
  | RemoveConstraint _ k => filter (keep_not k) (t_constraints t)
  | _ => t_constraints t
  end.
Proof. destruct a; cbn [sem_step2 sem_step map_cols t_constraints]; try reflexivity. destruct (contains_constraint _ _); reflexivity. Qed.

Lemma addc_ready_incl : forall L cols cols', incl cols cols' -> addc_ready cols L = true -> addc_ready cols' L = true.
Proof.
  induction L as [|a L IH]; intros cols cols' Hi H; [reflexivity|].
  destruct a; cbn [addc_ready] in *; try (eapply IH; eauto; fail).
  - eapply IH; [|exact H]. intros y [<-|Hy]; [now left|right; now apply Hi].
  - eapply IH; [|exact H]. intros y Hy. apply filter_In in Hy. apply filter_In. split; [apply Hi|]; tauto.
  - apply Bool.andb_true_iff in H. destruct H as [H1 H2]. apply Bool.andb_true_iff. split; [|eapply IH; eauto].
    rewrite forallb_forall in *. intros c Hc. specialize (H1 c Hc). apply mem_str_In in H1. apply mem_str_In. now apply Hi.
Qed.

Lemma mentions_cols x k : mentions x k = false -> ~ In x (constraint_columns k).
Proof.
  unfold mentions. intros H Hin. apply Bool.orb_false_elim in H. destruct H as [H _].
  apply mem_str_In in Hin. congruence.
Qed.

Lemma in_names_find m (s : schema) : In m (map t_name s) <-> exists t, find_t m s = Some t.
Proof.
  split.
  - intro H. destruct (find_name_some m s H) as [t [Hf _]]. now exists t.
  - intros [t Hf]. destruct (find_t_some _ _ _ Hf) as [Hi E]. rewrite <- E. now apply in_map.
Qed.

Section Phase3.
  Variable keep : string -> list string.
  Variable allowedc : string -> list table_constraint.
  Variable N : list string.
  Hypothesis S1 : forall m nm cols rt rcols od ou, In m N ->
    In (CForeignKey nm cols rt rcols od ou) (allowedc m) ->
    In rt N /\ incl rcols (keep rt) /\ List.length cols = List.length rcols /\ nonempty cols = true.

  Record tinv (n : string) (t : table_def) (L : list action) : Prop := {
    ti_name : t_name t = n;
    ti_fix : normalize t = Ok t;
    ti_incl : incl (t_constraints t) (allowedc n);
    ti_keep : incl (keep n) (colnames t);
    ti_cols : forall k, In k (t_constraints t) -> incl (constraint_columns k) (colnames t);
    ti_valid : valid2 (allowedc n) L t;
    ti_ready : addc_ready (colnames t) L = true;
    ti_rem_nd : NoDup (removed_cs L);
    ti_rem_in : forall k, In k (removed_cs L) -> In k (t_constraints t);
    ti_del_keep : forall x, In x (deleted_names L) -> ~ In x (keep n);
    ti_act : L = [] \/ (NoDup (colnames t) /\ forall k, In k (allowedc n) -> cons_ok k = true) }.

  Definition sinv (s : schema) (L : list action) : Prop :=
    NoDup (map t_name s) /\
    (forall n, In n N <-> In n (map t_name s)) /\
    (forall n t, find_t n s = Some t -> tinv n t (filter (on_table n) L)) /\
    (forall a, In a L -> exists n, act_table a = Some n /\ In n N).

  Lemma sinv_consistent s L : sinv s L -> consistent s = true.
  Proof.
    intros [Hnd [HN [Ht _]]]. unfold consistent. apply Bool.andb_true_iff. split; [now apply nodup_str_spec|].
    apply forallb_forall. intros t Hin.
    pose proof (Ht _ _ (find_t_in_nodup (t_name t) s t Hnd Hin eq_refl)) as I.
    unfold table_consistent. rewrite (ti_fix _ _ _ I). apply forallb_forall. intros k Hk.
    apply Bool.andb_true_iff. split.
    - apply forallb_forall. intros c Hc. apply mem_str_In. change (map c_name (t_columns t)) with (colnames t).
      now apply (ti_cols _ _ _ I k Hk).
    - destruct k as [| |nm cols rt rcols od ou| |]; try reflexivity.
      destruct (S1 (t_name t) nm cols rt rcols od ou) as [HrN [Hrk [Hl Hne]]].
      { apply HN. now apply in_map. } { now apply (ti_incl _ _ _ I). }
      destruct (find_name_some rt s (proj1 (HN rt) HrN)) as [r [Hf [Hr Er]]]. rewrite Hf.
      pose proof (Ht rt r Hf) as Ir. rewrite Hne, Bool.andb_true_r. apply Bool.andb_true_iff. split.
      + apply forallb_forall. intros rc Hrc. apply mem_str_In. change (map c_name (t_columns r)) with (colnames r).
        apply (ti_keep _ _ _ Ir). now apply Hrk.
      + now apply PeanoNat.Nat.eqb_eq.
  Qed.

  Lemma tinv_step n t a L : tinv n t (a :: L) ->
    apply_table (Some t) a = Ok (Some (sem_step2 a t)) /\ tinv n (sem_step2 a t) L.
  Proof.
    intros [In_ Ifix Iincl Ikeep Icols Ival Iready Irnd Irin Idk Iact].
    destruct Iact as [E|[Hnd Hok]]; [discriminate|].
    destruct (change_step (allowedc n) Hok a L t Ival Hnd Ifix Iincl) as (H1 & H2 & H3 & H4 & H5).
    split; [exact H1|].
    pose proof (w_kind _ _ _ Ival a (or_introl eq_refl)) as Hk.
    pose proof (colnames_step a t Hk) as Ec. pose proof (constraints_step a t) as Ek.
    constructor; try assumption.
    - now rewrite sem_step2_name.
    - (* keep *)
      intros y Hy. specialize (Ikeep y Hy). rewrite Ec. destruct a; try exact Ikeep.
      + apply in_or_app. now left.
      + apply filter_In. split; [exact Ikeep|]. apply Bool.negb_true_iff, String.eqb_neq. intros ->.
        apply (Idk column); [now left|exact Hy].
    - (* constraint columns *)
      intros k Hin c Hc. rewrite Ec. rewrite Ek in Hin.
      destruct a; try (now apply (Icols k Hin)).
      + apply in_or_app. left. now apply (Icols k Hin).
      + apply filter_In. split; [now apply (Icols k Hin)|]. apply Bool.negb_true_iff, String.eqb_neq. intros ->.
        assert (Hm : mentions column k = false).
        { apply (w_del_cs _ _ _ Ival column k); [now left|now apply Iincl]. }
        exact (mentions_cols _ _ Hm Hc).
      + destruct (contains_constraint constraint (t_constraints t)); [now apply (Icols k Hin)|].
        apply in_app_or in Hin. destruct Hin as [Hin|[<-|[]]]; [now apply (Icols k Hin)|].
        cbn [addc_ready] in Iready. apply Bool.andb_true_iff in Iready. destruct Iready as [R1 _].
        rewrite forallb_forall in R1. now apply mem_str_In, R1.
      + apply filter_In in Hin. now apply (Icols k (proj1 Hin)).
    - (* ready *)
      rewrite Ec. destruct a; cbn [addc_ready] in Iready; try exact Iready.
      + eapply addc_ready_incl; [|exact Iready]. intros y [<-|Hy]; apply in_or_app; [right; now left|now left].
      + apply Bool.andb_true_iff in Iready. tauto.
    - (* removed: no duplicates *)
      unfold removed_cs in *. cbn [flat_map] in Irnd. destruct a; cbn [app] in Irnd; try exact Irnd.
      now inversion Irnd.
    - (* removed: still present *)
      intros k Hin. rewrite Ek.
      assert (Hold : In k (t_constraints t)).
      { apply Irin. unfold removed_cs in *. cbn [flat_map]. apply in_or_app. now right. }
      destruct a; try exact Hold.
      + destruct (contains_constraint _ _); [exact Hold|apply in_or_app; now left].
      + apply filter_In. split; [exact Hold|]. unfold keep_not. apply Bool.negb_true_iff.
        destruct (constraint_eqb k constraint) eqn:E; [|reflexivity]. apply constraint_eqb_eq in E. subst constraint.
        unfold removed_cs in Irnd. cbn [flat_map app] in Irnd. inversion Irnd; subst. contradiction.
    - intros x Hx. apply Idk. unfold deleted_names in *. cbn [flat_map]. apply in_or_app. now right.
    - destruct L; [now left|right]. split; [exact H3|exact Hok].
  Qed.

  Lemma sinv_step s a L : sinv s (a :: L) ->
    target_present s a = true /\ exists s', apply_action s a = Ok s' /\ sinv s' L.
  Proof.
    intros [Hnd [HN [Ht Ha]]].
    destruct (Ha a (or_introl eq_refl)) as [n [Ea HnN]].
    destruct (find_name_some n s (proj1 (HN n) HnN)) as [t [Hf [Hin En]]]. change (find_t n s = Some t) in Hf.
    pose proof (Ht n t Hf) as I. cbn [filter] in I. rewrite (on_table_true a n Ea) in I.
    destruct (tinv_step n t a _ I) as [Hap I'].
    destruct (apply_action_proj s a n (Some (sem_step2 a t)) Hnd Ea) as [s' [Hs' [Hfn [Hother Hnd']]]].
    { now rewrite Hf. }
    split.
    - destruct a; try reflexivity. cbn [act_table] in Ea. injection Ea as ->. cbn [target_present].
      change (find (fun t0 => String.eqb (t_name t0) n) s) with (find_t n s). rewrite Hf.
      apply contains_constraint_in. apply (ti_rem_in _ _ _ I). unfold removed_cs. cbn [flat_map app]. now left.
    - exists s'. split; [exact Hs'|]. split; [exact Hnd'|]. split; [|split].
      + intro m. rewrite HN. destruct (string_dec m n) as [->|Hne].
        * split; intros _; [|apply (proj1 (HN n) HnN)].
          destruct (find_t_some _ _ _ Hfn) as [Hi E]. rewrite <- E at 1. now apply in_map.
        * rewrite !in_names_find, (Hother m Hne). reflexivity.
      + intros m u Hu. destruct (string_dec m n) as [->|Hne].
        * rewrite Hfn in Hu. injection Hu as <-. exact I'.
        * rewrite (Hother m Hne) in Hu. pose proof (Ht m u Hu) as Iu. cbn [filter] in Iu.
          now rewrite (on_table_false a n m Ea Hne) in Iu.
      + intros b Hb. apply Ha. now right.
  Qed.

  Lemma stepwise_phase3 : forall L s, sinv s L -> stepwise_ok s L = true.
  Proof.
    induction L as [|a L IH]; intros s H; [reflexivity|].
    destruct (sinv_step s a L H) as [Htp [s' [Hs' H']]]. cbn [stepwise_ok]. rewrite Htp, Hs'.
    rewrite (sinv_consistent s' L H'), (IH s' H'). reflexivity.
  Qed.
End Phase3.

(* ---------- 5. the initial invariant of a common table ---------- *)
Lemma removed_cs_app a b : removed_cs (a ++ b) = removed_cs a ++ removed_cs b.
Proof. unfold removed_cs. apply flat_map_app. Qed.
Lemma removed_cs_nil l : (forall a, In a l -> kind a <> 6) -> removed_cs l = [].
Proof.
  intro H. unfold removed_cs. apply flat_map_nil. intros a Ha. specialize (H a Ha).
  destruct a; try reflexivity. exfalso. now apply H.
Qed.
Lemma common_not_rem ft t2 f i : i <> 6 ->
  (forall k fd td x, In x (f k fd td) -> kind x = i) ->
  forall a, In a (tg_common ft t2 f) -> kind a <> 6.
Proof. intros Hi Hf a Ha. rewrite (common_kind ft t2 f i Hf a Ha). exact Hi. Qed.

Lemma nodup_flat_map_sub {A} (g : A -> list A) : (forall x, g x = [] \/ g x = [x]) ->
  forall l, NoDup l -> NoDup (flat_map g l).
Proof.
  intros Hg. induction l as [|x l IH]; intro H; [constructor|]. inversion H as [|? ? Hx Hl]; subst.
  cbn [flat_map]. destruct (Hg x) as [E|E]; rewrite E; cbn [app]; [now apply IH|].
  constructor; [|now apply IH]. intro Hin. apply in_flat_map in Hin. destruct Hin as [y [Hy Hin]].
  destruct (Hg y) as [Ey|Ey]; rewrite Ey in Hin; [destruct Hin|]. destruct Hin as [<-|[]]. contradiction.
Qed.

Lemma flat_map_flat_map {A B C} (f : B -> list C) (g : A -> list B) : forall l,
  flat_map f (flat_map g l) = flat_map (fun x => flat_map f (g x)) l.
Proof. induction l as [|x l IH]; [reflexivity|]. cbn [flat_map]. now rewrite flat_map_app, IH. Qed.

Lemma removed_cs_group name ft t2 : NoDup (t_constraints ft) -> NoDup (removed_cs (table_group name ft t2)).
Proof.
  intro Hnd. rewrite table_group_parts, !removed_cs_app.
  rewrite (removed_cs_nil (map _ (tg_deleted ft t2))).
  2:{ intros a Ha. apply in_map_iff in Ha. destruct Ha as [c [<- _]]. discriminate. }
  rewrite (removed_cs_nil (tg_common ft t2 (f_type name))).
  2:{ apply (common_not_rem ft t2 _ 1); [discriminate|]. intros k fd td x Hx. apply f_type_in in Hx. destruct Hx as [_ ->]. reflexivity. }
  rewrite (removed_cs_nil (tg_common ft t2 (f_nullable name))).
  2:{ apply (common_not_rem ft t2 _ 2); [discriminate|]. intros k fd td x Hx. apply f_nullable_in in Hx. destruct Hx as [_ ->]. reflexivity. }
  rewrite (removed_cs_nil (tg_common ft t2 (f_default name))).
  2:{ apply (common_not_rem ft t2 _ 3); [discriminate|]. intros k fd td x Hx. apply f_default_in in Hx. destruct Hx as [_ ->]. reflexivity. }
  rewrite (removed_cs_nil (tg_common ft t2 (f_comment name))).
  2:{ apply (common_not_rem ft t2 _ 4); [discriminate|]. intros k fd td x Hx. apply f_comment_in in Hx. destruct Hx as [_ ->]. reflexivity. }
  rewrite (removed_cs_nil (tg_added name ft t2)).
  2:{ intros a Ha. unfold tg_added in Ha. apply in_flat_map in Ha. destruct Ha as [kv [_ Ha]].
      destruct (bt_mem _ _); [destruct Ha|destruct Ha as [<-|[]]; discriminate]. }
  rewrite (removed_cs_nil (tg_addc name ft t2)).
  2:{ intros a Ha. unfold tg_addc in Ha. apply in_flat_map in Ha. destruct Ha as [tc [_ Ha]].
      destruct (contains_constraint _ _); [destruct Ha|destruct Ha as [<-|[]]; discriminate]. }
  cbn [app]. rewrite app_nil_r. unfold tg_removed, removed_cs. rewrite flat_map_flat_map.
  apply nodup_flat_map_sub; [|exact Hnd]. intro fc.
  destruct (contains_constraint fc (t_constraints t2)); [now left|]. cbv zeta.
  destruct (_ && _)%bool; [now left|now right].
Qed.

Lemma has_dup_constraint_false l : has_dup_constraint l = false -> NoDup l.
Proof.
  induction l as [|k r IH]; intro H; [constructor|]. cbn [has_dup_constraint] in H.
  apply Bool.orb_false_elim in H. destruct H as [H1 H2]. constructor; [|now apply IH].
  intro Hin. rewrite (contains_constraint_in _ _ Hin) in H1. discriminate.
Qed.

Lemma tg_cols_keys t x : In x (map fst (tg_cols t)) <-> In x (colnames t).
Proof. unfold tg_cols, colnames. rewrite bt_keys_of_list, map_map. reflexivity. Qed.

Lemma tg_deleted_cols b tn x : In x (tg_deleted b tn) <-> In x (deleted_cols b tn).
Proof.
  rewrite tg_deleted_in. unfold deleted_cols. rewrite filter_In, Bool.negb_true_iff, mem_str_false. split.
  - intros [c [Hg Hm]]. split.
    + apply tg_cols_keys. eapply in_keys. eapply bt_get_in. exact Hg.
    + apply bt_mem_false in Hm. now rewrite tg_cols_keys in Hm.
  - intros [H1 H2]. apply tg_cols_keys in H1. destruct (bt_get_some_key _ _ H1) as [c Hc]. exists c.
    split; [exact Hc|]. apply bt_mem_false. now rewrite tg_cols_keys.
Qed.

Lemma addc_ready_keepp : forall L cols, addc_ready cols L = addc_ready cols (filter keepp L).
Proof.
  induction L as [|a L IH]; intro cols; [reflexivity|].
  destruct a; cbn [filter keepp is_modify_td negb addc_ready]; try apply IH; now rewrite IH.
Qed.

Lemma filter_comm {A} (p q : A -> bool) l : filter p (filter q l) = filter q (filter p l).
Proof.
  induction l as [|x r IH]; [reflexivity|]. cbn [filter].
  destruct (p x) eqn:Ep, (q x) eqn:Eq; cbn [filter]; rewrite ?Ep, ?Eq, IH; reflexivity.
Qed.

Lemma common_tinv keep allowedc b tn L :
  normalize b = Ok b ->
  (forall k, In k (t_constraints b) -> incl (constraint_columns k) (colnames b)) ->
  c06_table b tn = true ->
  Permutation L (table_group (t_name b) b tn) ->
  filter keepp L = filter keepp (table_group (t_name b) b tn) ->
  keep (t_name b) = filter (fun x => negb (mem_str x (deleted_cols b tn))) (colnames b) ->
  allowedc (t_name b) = t_constraints b ++ t_constraints tn ->
  tinv keep allowedc (t_name b) b L.
Proof.
  intros Hfix Hcols Hc HP HF Ek Ea. unfold c06_table in Hc.
  apply andb_prop in Hc. destruct Hc as [Hc Hready]. apply andb_prop in Hc. destruct Hc as [Hc Hnb].
  apply andb_prop in Hc. destruct Hc as [Hch Hdup]. apply Bool.negb_true_iff, has_dup_constraint_false in Hdup.
  apply nodup_str_NoDup' in Hnb.
  set (G := table_group (t_name b) b tn) in *. set (allowed := t_constraints b ++ t_constraints tn) in *.
  assert (HL : forall a, In a L <-> In a G).
  { intro a. split; apply Permutation_in; [exact HP|now apply Permutation_sym]. }
  assert (Hact : forall a, In a G -> is_change_action b tn a = true).
  { unfold change_only in Hch. fold G in Hch. destruct G as [|a0 g0] eqn:EG; [intros a []|].
    apply andb_prop in Hch. destruct Hch as [Hch _]. apply andb_prop in Hch. destruct Hch as [Hch _].
    apply andb_prop in Hch. destruct Hch as [Hch _]. now rewrite forallb_forall in Hch. }
  assert (Hok : L = [] \/ forall k, In k allowed -> cons_ok k = true).
  { unfold change_only in Hch. fold G in Hch. destruct G as [|a0 g0] eqn:EG.
    - left. now apply Permutation_nil.
    - right. apply andb_prop in Hch. destruct Hch as [_ Hok]. now rewrite forallb_forall in Hok. }
  assert (HkL : forall a, In a L -> is_change_kind a = true)
    by (intros a Ha; eapply change_action_kind, Hact, HL, Ha).
  assert (Hdel : forall x, In x (tg_deleted b tn) ->
            plain_at x (t_columns b) /\ forall k, In k allowed -> mentions x k = false).
  { intros x Hx. pose proof (Hact _ (group_dels (t_name b) b tn x Hx)) as H. cbn [is_change_action] in H.
    apply andb_prop in H. destruct H as [H1 H2]. rewrite forallb_forall in H1, H2. split.
    - intros c Hc0 Hn. specialize (H1 c Hc0). rewrite Hn, String.eqb_refl in H1. exact H1.
    - intros k Hk. specialize (H2 k Hk). now apply Bool.negb_true_iff in H2. }
  assert (HdL : forall x, In x (deleted_names L) -> In x (tg_deleted b tn)).
  { intros x Hx. apply in_deleted_names in Hx. destruct Hx as [n Hx]. apply HL, del_in_group in Hx. tauto. }
  assert (Hv : valid2 allowed L b).
  { constructor.
    - exact HkL.
    - intros a Ha Hattr. split; [apply (attr_in_group_col (t_name b) b tn); [apply HL, Ha|exact Hattr]|].
      intro Hd. apply HdL, tg_deleted_in in Hd. destruct Hd as [c [_ Hm]].
      rewrite (attr_in_group_tc (t_name b) b tn a (proj1 (HL a) Ha) Hattr) in Hm. discriminate.
    - eapply Permutation_NoDup; [|apply (added_names_group (t_name b) b tn)].
      unfold added_names. apply Permutation_flat_map, Permutation_sym, HP.
    - intros x Hx Hin. unfold added_names in Hx. apply in_flat_map in Hx.
      destruct Hx as [a [Ha Hx]]. destruct a; try (now destruct Hx). destruct Hx as [<-|[]].
      apply HL, added_in_group in Ha. destruct Ha as (_ & Hm & _).
      apply bt_mem_false in Hm. apply Hm. now apply tg_cols_keys.
    - apply (Permutation_NoDup (l := deleted_names G)).
      + unfold deleted_names. apply Permutation_flat_map, Permutation_sym, HP.
      + unfold G. rewrite deleted_names_group. apply tg_deleted_nodup.
    - intros x Hx. apply HdL in Hx. split; [|apply (Hdel x Hx)].
      apply tg_deleted_cols in Hx. unfold deleted_cols in Hx. apply filter_In in Hx. tauto.
    - intros x k Hx Hk. apply HdL in Hx. now apply (Hdel x Hx).
    - intros n k Hin. apply HL, addc_in_group in Hin. unfold allowed. apply in_or_app. now right.
    - intros n k Hin. apply HL in Hin. exact (Hact _ Hin). }
  constructor.
  - reflexivity.
  - exact Hfix.
  - rewrite Ea. intros k Hk. apply in_or_app. now left.
  - rewrite Ek. intros x Hx. apply filter_In in Hx. tauto.
  - exact Hcols.
  - now rewrite Ea.
  - rewrite addc_ready_keepp, HF, <- addc_ready_keepp. exact Hready.
  - eapply Permutation_NoDup; [|apply (removed_cs_group (t_name b) b tn Hdup)].
    unfold removed_cs. apply Permutation_flat_map, Permutation_sym, HP.
  - intros k Hk. unfold removed_cs in Hk. apply in_flat_map in Hk. destruct Hk as [a [Ha Hk]].
    destruct a; try (now destruct Hk). destruct Hk as [<-|[]]. apply HL, rem_in_group in Ha. tauto.
  - intros x Hx Hkeep. apply HdL, tg_deleted_cols in Hx. rewrite Ek in Hkeep. apply filter_In in Hkeep.
    destruct Hkeep as [_ Hn]. apply Bool.negb_true_iff, mem_str_false in Hn. contradiction.
  - destruct Hok as [E|Hok]; [now left|right]. split; [exact Hnb|]. now rewrite Ea.
Qed.

(* ---------- 6. assembling ---------- *)
Lemma topo_rank tables res : NoDup (map t_name tables) -> topo_sort tables = TopoOk res ->
  exists rank : string -> nat, forall t rt, In t tables -> In rt (fk_targets t) -> rt <> t_name t ->
    In rt (map t_name tables) -> rank rt < rank (t_name t).
Proof.
  intros Hnd Ht. destruct (topo_sort_sound _ _ Hnd Ht) as [P Ord].
  exists (fun n => match find_index (String.eqb n) (map t_name res) with Some i => i | None => 0 end).
  intros t rt Hin Hrt Hne Hrn. apply (Permutation_in _ (Permutation_sym P)) in Hin.
  destruct (Ord t rt Hin Hrt Hne Hrn) as [r [l1 [l2 [l3 [Er Es]]]]].
  assert (Rnd : NoDup (map t_name res)).
  { eapply Permutation_NoDup; [apply Permutation_sym, Permutation_map; exact P|exact Hnd]. }
  rewrite Es, map_app in *. cbn [map] in *. rewrite map_app in *. cbn [map] in *. rewrite Er in *.
  rewrite find_index_split.
  2:{ apply NoDup_remove_2 in Rnd. intro H. apply Rnd. apply in_or_app. now left. }
  replace (map t_name l1 ++ rt :: map t_name l2 ++ t_name t :: map t_name l3)
    with ((map t_name l1 ++ rt :: map t_name l2) ++ t_name t :: map t_name l3) in * by (rewrite <- app_assoc; reflexivity).
  rewrite find_index_split.
  2:{ apply NoDup_remove_2 in Rnd. intro H. apply Rnd. apply in_or_app. now left. }
  rewrite app_length. cbn [List.length]. lia.
Qed.

Lemma find_t_filter_mem n dn : forall s : schema,
  find_t n (filter (fun t => negb (mem_str (t_name t) dn)) s) = if mem_str n dn then None else find_t n s.
Proof.
  unfold find_t. induction s as [|t r IH]; cbn [filter find]; [now destruct (mem_str n dn)|].
  destruct (mem_str (t_name t) dn) eqn:Em; cbn [negb].
  - rewrite IH. destruct (String.eqb (t_name t) n) eqn:E; [|reflexivity].
    apply String.eqb_eq in E. subst n. now rewrite Em.
  - cbn [find]. destruct (String.eqb (t_name t) n) eqn:E; [|exact IH].
    apply String.eqb_eq in E. subst n. now rewrite Em.
Qed.

Lemma find_t_map_erase n : forall l, find_t n (map erase l) = option_map erase (find_t n l).
Proof.
  unfold find_t. induction l as [|t r IH]; [reflexivity|]. cbn [map find erase t_name].
  destruct (String.eqb (t_name t) n); [reflexivity|exact IH].
Qed.

Lemma common_tables_spec p B T ns : NoDup (map t_name B) ->
  Forall2 (fun o n => normalize o = Ok n) T ns -> common_tables p B T = true ->
  forall b tn, In b B -> In tn ns -> t_name b = t_name tn -> p b tn = true.
Proof.
  intros HB F H b tn Hb Htn En. unfold common_tables in H. rewrite forallb_forall in H.
  destruct (forall2_orig T ns F tn Htn) as [o [Ho Hn]]. specialize (H o Ho).
  assert (Eo : t_name o = t_name b) by (destruct (normalize_lossless _ _ Hn) as [E _]; congruence).
  rewrite (find_t_in_nodup (t_name o) B b HB Hb (eq_sym Eo)), Hn in H. exact H.
Qed.

Definition keepf (B ns : schema) (n : string) : list string :=
  match find_t n B, find_t n ns with
  | Some b, Some tn => filter (fun x => negb (mem_str x (deleted_cols b tn))) (colnames b)
  | None, Some tn => colnames tn
  | _, None => []
  end.
Definition allowedf (B ns : schema) (n : string) : list table_constraint :=
  match find_t n B, find_t n ns with
  | Some b, Some tn => t_constraints b ++ t_constraints tn
  | None, Some tn => t_constraints tn
  | _, None => []
  end.

Lemma consistent_table B b : consistent B = true -> In b B -> normalize b = Ok b ->
  forall k, In k (t_constraints b) ->
    incl (constraint_columns k) (colnames b) /\
    match k with
    | CForeignKey _ cols rt rcols _ _ =>
        exists rb, find_t rt B = Some rb /\ incl rcols (colnames rb) /\
                   List.length cols = List.length rcols /\ nonempty cols = true
    | _ => True
    end.
Proof.
  intros BC Hb Hfix k Hk. unfold consistent in BC. apply Bool.andb_true_iff in BC. destruct BC as [_ BC].
  rewrite forallb_forall in BC. specialize (BC b Hb). unfold table_consistent in BC. rewrite Hfix in BC.
  rewrite forallb_forall in BC. specialize (BC k Hk). apply Bool.andb_true_iff in BC. destruct BC as [H1 H2].
  split.
  - intros c Hc. rewrite forallb_forall in H1. now apply mem_str_In, H1.
  - destruct k as [| |nm cols rt rcols od ou| |]; try exact I.
    change (find (fun x => String.eqb (t_name x) rt) B) with (find_t rt B) in H2.
    destruct (find_t rt B) as [rb|]; [|discriminate]. exists rb. split; [reflexivity|].
    apply Bool.andb_true_iff in H2. destruct H2 as [H2 H3]. apply Bool.andb_true_iff in H2. destruct H2 as [H2 H4].
    split; [|split; [now apply PeanoNat.Nat.eqb_eq|exact H3]].
    intros rc Hrc. rewrite forallb_forall in H2. now apply mem_str_In, H2.
Qed.

Lemma has_table_iff n (s : schema) : has_table n s = true <-> In n (map t_name s).
Proof.
  split; [|apply has_table_true]. intro H. destruct (in_dec string_dec n (map t_name s)) as [Hi|Hi]; [exact Hi|].
  rewrite (has_table_false _ _ Hi) in H. discriminate.
Qed.

Theorem c06_change_sound B T : c06_change B T = true -> plan_stepwise_ok B T = true.
Proof.
  unfold c06_change. intro H.
  apply andb_prop in H. destruct H as [H Hcross]. apply andb_prop in H. destruct H as [H Hcommon].
  apply andb_prop in H. destruct H as [H Hdiff]. apply andb_prop in H. destruct H as [H HL].
  apply andb_prop in H. destruct H as [Hbase BC].
  apply baseline_ok_spec in Hbase. destruct Hbase as [HBN BF].
  destruct (loader_accepts_ok' T HL) as [ns [F [EN SV]]].
  unfold diff_ok in Hdiff. destruct (diff_actions B T) as [acts|] eqn:Hd; [|discriminate]. clear Hdiff.
  pose proof (ns_names T ns F) as Enames.
  pose proof (common_tables_spec _ B T ns HBN F Hcommon) as CT.
  unfold c06_cross, norm_models in Hcross. rewrite EN in Hcross. cbn zeta in Hcross.
  apply andb_prop in Hcross. destruct Hcross as [Hcross X34]. apply andb_prop in Hcross. destruct Hcross as [Hcross X2].
  apply andb_prop in Hcross. destruct Hcross as [X1 X8].
  rewrite forallb_forall in X1, X2, X34.
  assert (NSnd : NoDup (map t_name ns)) by exact (proj1 SV).
  (* X34 in usable form *)
  assert (FKB : forall u nm cols rt rcols od ou, In u ns -> In (CForeignKey nm cols rt rcols od ou) (t_constraints u) ->
            match find_t rt B with
            | Some rb => incl rcols (colnames rb)
            | None => ~ In (t_name u) (map t_name B)
            end).
  { intros u nm cols rt rcols od ou Hu Hk. specialize (X34 u Hu). rewrite forallb_forall in X34. specialize (X34 _ Hk).
    cbn beta iota in X34. destruct (find_t rt B) as [rb|].
    - intros rc Hrc. rewrite forallb_forall in X34. now apply mem_str_In, X34.
    - apply Bool.negb_true_iff in X34. intro Hin. apply has_table_iff in Hin. congruence. }
  (* no FK is added to a common table towards a new table *)
  assert (Hfk : forall n nm c rt rc od ou,
            In (AddConstraint n (CForeignKey nm c rt rc od ou)) (diff_updates (name_map B) (name_map ns)) ->
            In rt (map t_name B)).
  { intros n nm c rt rc od ou Hin. destruct (updates_in _ _ _ Hin) as [k [ft [tt [Hg [Hkv Ha]]]]].
    apply addc_in_group in Ha.
    pose proof (name_keyed_of_list ns k tt Hkv) as Ek. unfold name_map in Hkv.
    apply bt_of_list_in, in_map_iff in Hkv. destruct Hkv as [tt' [E Htt]]. injection E as _ E. subst tt'.
    apply bt_get_in in Hg. pose proof (name_keyed_of_list B k ft Hg) as Ekf.
    apply bt_of_list_in, in_map_iff in Hg. destruct Hg as [ft' [E Hft]]. injection E as _ E. subst ft'.
    pose proof (FKB tt _ _ _ _ _ _ Htt Ha) as Hm. destruct (find_t rt B) as [rb|] eqn:Er.
    - destruct (find_t_some _ _ _ Er) as [Hi E]. rewrite <- E. now apply in_map.
    - exfalso. apply Hm. rewrite <- Ek, Ekf. now apply in_map. }
  destruct (diff_shape3 B T ns acts BF HBN EN Hfk Hd) as [sorted [dn [ups [Et [Ea [Edn [Dnd [Diff [PU FU]]]]]]]]].
  set (fm := name_map B) in *. set (tm := name_map ns) in *. set (NT := diff_new fm tm) in *.
  assert (NTin : forall t, In t NT <-> In t ns /\ ~ In (t_name t) (map t_name B)).
  { intro t. unfold NT, diff_new. rewrite in_flat_map. split.
    - intros [[k v] [Hkv Hin]]. cbn [fst snd] in Hin. destruct (bt_mem k fm) eqn:Em; [destruct Hin|].
      destruct Hin as [<-|[]]. pose proof (name_keyed_of_list ns k v Hkv) as Ek. subst k.
      apply bt_of_list_in, in_map_iff in Hkv. destruct Hkv as [t' [E Ht']]. injection E as _ E. subst t'.
      split; [exact Ht'|]. apply bt_mem_false in Em. unfold fm, name_map in Em. now rewrite bt_keys_of_list, keys_name_map in Em.
    - intros [Ht Hn]. exists (t_name t, t). split.
      + apply bt_of_list_in_nodup; [rewrite keys_name_map; exact NSnd|]. apply in_map_iff. now exists t.
      + cbn [fst snd]. assert (Em : bt_mem (t_name t) fm = false).
        { apply bt_mem_false. unfold fm, name_map. now rewrite bt_keys_of_list, keys_name_map. }
        rewrite Em. now left. }
  assert (NTnd : NoDup (map t_name NT)).
  { apply new_tables_names; [apply name_keyed_of_list | apply bt_sorted_nodup, bt_of_list_sorted]. }
  destruct (topo_sort_sound _ _ NTnd Et) as [P Ord].
  assert (Sin : incl sorted ns) by (intros x Hx; apply (Permutation_in _ P), NTin in Hx; tauto).
  assert (Snd : NoDup (map t_name sorted)).
  { eapply Permutation_NoDup; [apply Permutation_sym, Permutation_map; exact P|exact NTnd]. }
  assert (Sfresh : forall t, In t sorted -> ~ In (t_name t) (map t_name B)).
  { intros t Ht. apply (Permutation_in _ P), NTin in Ht. tauto. }
  assert (Hcl : forall pre u post, sorted = pre ++ u :: post -> forall rt, In rt (fk_targets u) ->
            rt <> t_name u -> ~ In rt (map t_name B) -> In rt (map t_name pre)).
  { intros pre u post Es rt Hrt Hne HB.
    assert (Hu : In u sorted) by (rewrite Es; apply in_or_app; right; now left).
    destruct (fk_target_known ns SV u rt (Sin u Hu) Hrt) as [z [Hz Ez]].
    assert (Hrn : In rt (map t_name NT)).
    { rewrite <- Ez. apply in_map. apply NTin. split; [exact Hz|now rewrite Ez]. }
    destruct (Ord u rt Hu Hrt Hne Hrn) as [r [l1 [l2 [l3 [Er Es']]]]].
    assert (Epre : pre = l1 ++ r :: l2).
    { apply (nodup_split_unique u pre post (l1 ++ r :: l2) l3).
      - rewrite <- Es. eapply NoDup_map_inv. exact Snd.
      - rewrite <- Es, Es', <- app_assoc. reflexivity. }
    rewrite Epre, map_app. apply in_or_app. right. left. exact Er. }
  assert (HB1 : forall u nm cols rt rcols od ou b, In u sorted ->
            In (CForeignKey nm cols rt rcols od ou) (t_constraints u) -> In b B -> t_name b = rt ->
            forallb (fun rc => mem_str rc (colnames b)) rcols = true).
  { intros u nm cols rt rcols od ou b Hu Hk Hb Eb. pose proof (FKB u _ _ _ _ _ _ (Sin u Hu) Hk) as Hm.
    rewrite (find_t_in_nodup rt B b HBN Hb Eb) in Hm. apply forallb_forall. intros rc Hrc. now apply mem_str_In, Hm. }
  (* the plan *)
  unfold plan_stepwise_ok. rewrite Hd, stepwise_filled. cbn [p_actions]. rewrite Ea.
  set (s1 := B ++ map erase sorted).
  assert (C1 : consistent s1 = true).
  { apply (cons_ext2 B T ns BC F SV sorted Sin Snd Sfresh Hcl HB1 sorted []). now rewrite app_nil_r. }
  assert (Dn_not : forall x, In x dn -> ~ In x (map t_name ns)) by (intros x Hx; apply Diff in Hx; tauto).
  assert (Tgt_not_dropped : forall z rt, In z ns -> In rt (fk_targets z) -> ~ In rt dn).
  { intros z rt Hz Hrt Hrd. destruct (fk_target_known ns SV z rt Hz Hrt) as [z' [Hz' Ez']].
    apply (Dn_not rt Hrd). rewrite <- Ez'. now apply in_map. }
  (* the dropped tables have a rank *)
  set (Dr := filter (fun b => negb (survives T b)) B) in *.
  assert (DrIn : forall b, In b Dr <-> In b B /\ ~ In (t_name b) (map t_name ns)).
  { intro b. unfold Dr, survives. rewrite filter_In, Bool.negb_true_iff. rewrite Enames.
    split; intros [H1 H2]; (split; [exact H1|]).
    - intro Hi. apply has_table_iff in Hi. congruence.
    - destruct (has_table (t_name b) T) eqn:E; [|reflexivity]. apply has_table_iff in E. contradiction. }
  assert (Drnd : NoDup (map t_name Dr)) by (apply nodup_map_filter; exact HBN).
  destruct (topo_sort Dr) as [dres| |] eqn:Edr; try discriminate.
  destruct (topo_rank Dr dres Drnd Edr) as [rank Hrank].
  cut (stepwise_ok (B ++ map erase []) (flat_map (mk_create T) sorted ++ map DeleteTable dn ++ ups) = true);
    [cbn [map]; now rewrite app_nil_r|].
  apply (stepwise_phase1b B T ns BC F SV sorted Sin Snd Sfresh Hcl HB1 _) with (todo := sorted) (done := []);
    [|reflexivity].
  fold s1.
  assert (Incl_dn : incl dn (map t_name s1)).
  { intros x Hx. unfold s1. rewrite map_app. apply in_or_app. left. apply Diff in Hx. tauto. }
  eapply stepwise_app; [| apply (apply_all_deletes dn s1 Dnd Incl_dn) |].
  - (* phase 2 *)
    apply stepwise_deletes; auto.
    intros u n rt Hu Hn Hrt Hne Hrd. unfold s1 in Hu. apply in_app_or in Hu. destruct Hu as [Hu|Hu].
    + rewrite (BF u Hu) in Hn. injection Hn as <-.
      destruct (in_dec string_dec (t_name u) dn) as [Hud|Hud].
      * rewrite <- Edn. apply (diff_deletes_in_fk_order B T B acts rank HBN (C01P.normalize_all_fix B BF) Hd); auto;
          unfold deleted_tables; rewrite Edn; auto.
        intros t r Ht Htd Hr Hner Hrd'. apply Diff in Htd. apply Diff in Hrd'.
        apply Hrank; auto; [apply DrIn; tauto|].
        destruct Hrd' as [HrB HrN]. apply in_map_iff in HrB. destruct HrB as [rb [Erb Hrb]].
        rewrite <- Erb. apply in_map. apply DrIn. split; [exact Hrb|now rewrite Erb].
      * exfalso. specialize (X1 u Hu). apply Bool.orb_true_iff in X1. destruct X1 as [X1|X1].
        -- apply Bool.negb_true_iff in X1. apply Hud. apply Diff. split; [now apply in_map|].
           rewrite Enames. intro Hi. apply has_table_iff in Hi. unfold survives in X1. congruence.
        -- rewrite forallb_forall in X1. specialize (X1 rt Hrt). apply has_table_iff in X1.
           apply (Dn_not rt Hrd). now rewrite Enames.
    + exfalso. apply in_map_iff in Hu. destruct Hu as [t [<- Ht]].
      rewrite (normalize_erase_fix t (ns_idem T ns F t (Sin t Ht))) in Hn. injection Hn as <-.
      exact (Tgt_not_dropped t rt (Sin t Ht) Hrt Hrd).
  - (* phase 3 *)
    set (s2 := filter (fun t => negb (mem_str (t_name t) dn)) s1).
    apply (stepwise_phase3 (keepf B ns) (allowedf B ns) (map t_name ns)).
    + (* static facts about foreign keys *)
      assert (InTn : forall tn nm cols rt rcols od ou, In tn ns ->
                In (CForeignKey nm cols rt rcols od ou) (t_constraints tn) ->
                In rt (map t_name ns) /\ incl rcols (keepf B ns rt) /\
                List.length cols = List.length rcols /\ nonempty cols = true).
      { intros tn nm cols rt rcols od ou Htn Hk.
        destruct (proj2 SV tn _ Htn Hk) as [_ [e [He [Hrc [Hl Hne]]]]].
        apply find_some in He. destruct He as [He Ee]. apply String.eqb_eq in Ee.
        apply in_map_iff in He. destruct He as [z [<- Hz]]. cbn [fst snd] in *.
        split; [rewrite <- Ee; now apply in_map|]. split; [|auto].
        unfold keepf. rewrite (find_t_in_nodup rt ns z NSnd Hz Ee).
        pose proof (FKB tn _ _ _ _ _ _ Htn Hk) as Hm. rewrite forallb_forall in Hrc.
        destruct (find_t rt B) as [rb|].
        - intros rc Hin. apply filter_In. split; [now apply Hm|]. apply Bool.negb_true_iff, mem_str_false.
          unfold deleted_cols. intro Hdc. apply filter_In in Hdc. destruct Hdc as [_ Hdc].
          apply Bool.negb_true_iff in Hdc. rewrite (Hrc rc Hin) in Hdc. discriminate.
        - intros rc Hin. now apply mem_str_In, Hrc. }
      intros m nm cols rt rcols od ou Hm Hk.
      destruct (find_name_some m ns Hm) as [tn [Hf [Htn En]]]. change (find_t m ns = Some tn) in Hf.
      unfold allowedf in Hk. rewrite Hf in Hk. destruct (find_t m B) as [b|] eqn:EB; [|eapply InTn; eauto].
      apply in_app_or in Hk. destruct Hk as [Hk|Hk]; [|eapply InTn; eauto].
      destruct (find_t_some _ _ _ EB) as [Hb Eb].
      destruct (consistent_table B b BC Hb (BF b Hb) _ Hk) as [_ [rb [Hrb [Hinc [Hl Hne]]]]].
      assert (Hsurv : survives T b = true).
      { unfold survives. apply has_table_iff. rewrite <- Enames, Eb. exact Hm. }
      pose proof (X1 b Hb) as X1b. rewrite Hsurv in X1b. cbn [negb orb] in X1b. rewrite forallb_forall in X1b.
      assert (HrN : In rt (map t_name ns)).
      { rewrite Enames. apply has_table_iff, X1b. eapply fk_targets_in; eauto. }
      split; [exact HrN|]. split; [|auto].
      destruct (find_name_some rt ns HrN) as [z [Hfz [Hz Ez]]]. change (find_t rt ns = Some z) in Hfz.
      unfold keepf. rewrite Hrb, Hfz. intros rc Hin. apply filter_In. split; [now apply Hinc|].
      apply Bool.negb_true_iff. destruct (mem_str rc (deleted_cols rb z)) eqn:Ed; [|reflexivity]. exfalso.
      apply mem_str_In in Ed. pose proof (X2 z Hz) as X2z. rewrite Ez, Hrb in X2z.
      rewrite forallb_forall in X2z. specialize (X2z rc Ed). rewrite forallb_forall in X2z.
      assert (Hbs : In b (filter (survives T) B ++ ns)) by (apply in_or_app; left; apply filter_In; auto).
      specialize (X2z b Hbs). rewrite forallb_forall in X2z. specialize (X2z _ Hk). cbn beta iota in X2z.
      destruct (find_t_some _ _ _ Hrb) as [_ Erb]. rewrite Erb, String.eqb_refl in X2z.
      apply mem_str_In in Hin. rewrite Hin in X2z. discriminate.
    + (* the invariant holds after the drops *)
      assert (S1nd : NoDup (map t_name s1)).
      { unfold consistent in C1. apply Bool.andb_true_iff in C1. now apply nodup_str_spec. }
      assert (F2 : forall n, find_t n s2 = if mem_str n dn then None else
                   match find_t n B with Some b => Some b | None => option_map erase (find_t n sorted) end).
      { intro n. unfold s2, s1. now rewrite find_t_filter_mem, find_t_app, find_t_map_erase. }
      assert (SortedFind : forall n, In n (map t_name ns) -> ~ In n (map t_name B) -> exists t0, find_t n sorted = Some t0).
      { intros n Hn HnB. apply in_names_find. apply in_map_iff in Hn. destruct Hn as [tn [E Htn]].
        rewrite <- E. apply in_map. apply (Permutation_in _ (Permutation_sym P)), NTin. split; [exact Htn|now rewrite E]. }
      assert (CommonIn : forall n b, find_t n B = Some b -> mem_str n dn = false -> In n (map t_name ns)).
      { intros n b Hf Hm. destruct (in_dec string_dec n (map t_name ns)) as [Hi|Hi]; [exact Hi|]. exfalso.
        apply mem_str_false in Hm. apply Hm, Diff. split; [|exact Hi].
        destruct (find_t_some _ _ _ Hf) as [Hb E]. rewrite <- E. now apply in_map. }
      split; [apply nodup_map_filter; exact S1nd|]. split; [|split].
      * intro n. rewrite (in_names_find n s2), F2. split.
        -- intro Hn. assert (Hm : mem_str n dn = false) by (apply mem_str_false; intro Hdd; exact (Dn_not n Hdd Hn)).
           rewrite Hm. destruct (find_t n B) as [b|] eqn:EB; [eauto|].
           apply find_t_none in EB. destruct (SortedFind n Hn EB) as [t0 ->]. cbn [option_map]. eauto.
        -- intros [t Ht]. destruct (mem_str n dn) eqn:Hm; [discriminate|].
           destruct (find_t n B) as [b|] eqn:EB; [eapply CommonIn; eauto|].
           destruct (find_t n sorted) as [t0|] eqn:Es; [|discriminate].
           destruct (find_t_some _ _ _ Es) as [Hs E]. rewrite <- E. apply in_map. now apply Sin.
      * intros n t Ht. rewrite F2 in Ht. destruct (mem_str n dn) eqn:Hm; [discriminate|].
        assert (PL : Permutation (filter (on_table n) ups)
                       (match find_t n ns with
                        | Some t2 => match find_t n B with Some ft => table_group n ft t2 | None => [] end
                        | None => [] end)).
        { eapply Permutation_trans; [apply filter_perm; exact PU|].
          unfold tm, fm. rewrite filter_updates by apply bt_sorted_nodup, bt_of_list_sorted.
          rewrite (name_map_get ns n NSnd), (name_map_get B n HBN). apply Permutation_refl. }
        assert (FL : filter keepp (filter (on_table n) ups) =
                     filter keepp (match find_t n ns with
                        | Some t2 => match find_t n B with Some ft => table_group n ft t2 | None => [] end
                        | None => [] end)).
        { rewrite filter_comm, FU, <- filter_comm. f_equal.
          unfold tm, fm. rewrite filter_updates by apply bt_sorted_nodup, bt_of_list_sorted.
          now rewrite (name_map_get ns n NSnd), (name_map_get B n HBN). }
        destruct (find_t n B) as [b|] eqn:EB.
        -- injection Ht as <-. destruct (find_t_some _ _ _ EB) as [Hb Eb].
           destruct (find_name_some n ns (CommonIn n b EB Hm)) as [tn [Hf [Htn En]]]. change (find_t n ns = Some tn) in Hf.
           rewrite Hf in PL, FL. rewrite <- Eb in *.
           apply (common_tinv (keepf B ns) (allowedf B ns) b tn);
             [exact (BF b Hb) | | apply CT; auto; congruence | exact PL | exact FL | |].
           ++ intros k Hk. exact (proj1 (consistent_table B b BC Hb (BF b Hb) k Hk)).
           ++ unfold keepf. now rewrite EB, Hf.
           ++ unfold allowedf. now rewrite EB, Hf.
        -- destruct (find_t n sorted) as [t0|] eqn:Es; [|discriminate]. injection Ht as <-.
           destruct (find_t_some _ _ _ Es) as [Hs E]. pose proof (Sin t0 Hs) as Hns.
           rewrite (find_t_in_nodup n ns t0 NSnd Hns E) in PL. apply Permutation_sym, Permutation_nil in PL. rewrite PL.
           assert (Ek : keepf B ns n = colnames t0) by (unfold keepf; now rewrite EB, (find_t_in_nodup n ns t0 NSnd Hns E)).
           assert (Eal : allowedf B ns n = t_constraints t0) by (unfold allowedf; now rewrite EB, (find_t_in_nodup n ns t0 NSnd Hns E)).
           constructor.
           ++ exact E.
           ++ apply normalize_erase_fix, (ns_idem T ns F t0 Hns).
           ++ rewrite Eal. intros k Hk. exact Hk.
           ++ rewrite Ek. intros x Hx. exact Hx.
           ++ intros k Hk c Hc. cbn [erase t_constraints] in Hk. destruct (proj2 SV t0 k Hns Hk) as [Hcols _].
              rewrite forallb_forall in Hcols. now apply mem_str_In, Hcols.
           ++ constructor; try (intros; contradiction); constructor.
           ++ reflexivity.
           ++ constructor.
           ++ intros k [].
           ++ intros x [].
           ++ now left.
      * intros a Ha. apply (Permutation_in _ PU) in Ha. destruct (updates_in _ _ _ Ha) as [k [ft [tt [_ [Hkv Hg]]]]].
        exists k. split; [eapply table_group_on; eauto|].
        apply in_keys in Hkv. unfold tm, name_map in Hkv. now rewrite bt_keys_of_list, keys_name_map in Hkv.
Qed.

Theorem hyp_C06_change_sound c : hyp_C06_change c = true -> model_stepwise_ok c = true.
Proof. unfold hyp_C06_change, model_stepwise_ok. apply c06_change_sound. Qed.

(* ---------- a witness inside the class: every kind of action occurs ---------- *)
Definition w_alt_text (n : string) : column_def := mkCol n (TSimple Text) true None None None None None None.
Definition w_alt_B : schema :=
  [mkTable "old" None [w_pkcol "id"] [CPrimaryKey false ["id"]];
   mkTable "post" None [w_pkcol "id"; w_icol "user_id"; w_alt_text "body"; w_alt_text "extra"]
     [CPrimaryKey false ["id"]; CForeignKey None ["user_id"] "user" ["id"] None None; CIndex None ["body"]];
   mkTable "user" None [w_pkcol "id"; w_alt_text "name"] [CPrimaryKey false ["id"]]].
Definition w_alt_T : schema :=
  [mkTable "post" None [w_pkcol "id"; w_icol "user_id"; w_alt_text "body"]
     [CForeignKey None ["user_id"] "user" ["id"] None None];
   mkTable "tag" None [w_pkcol "id"; w_icol "owner"] [CForeignKey None ["owner"] "user" ["id"] None None];
   mkTable "user" None [w_pkcol "id"; mkCol "name" (TVarchar 40) false (Some (DStr "'x'")) None None None None None;
                        w_alt_text "email"]
     [CUnique None ["email"]]].

Example C06_core_partial3_nonvacuous :
  c06_change w_alt_B w_alt_T = true /\
  (exists acts, diff_actions w_alt_B w_alt_T = Ok acts /\ List.length acts = 9) /\
  plan_stepwise_ok w_alt_B w_alt_T = true.
Proof. split; [|split; [eexists; split|]]; vm_compute; reflexivity. Qed.
