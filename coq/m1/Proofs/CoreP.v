(* One table, one group, fifth rung: the earlier rungs mixed in one group — attribute changes, added
   constraints, added columns with private inline declarations, dropped columns (with the constraints
   over them alone), and removed constraints that no column's inline declaration depends on.  Any order. *)
From VV.M1 Require Import Oracles Hyp NormalizeP BtP DiffP DiffEqP KahnP ApplyLocalP DiffPermP AttrsP GrowP ChangeP InlineP GroupsP.
From Coq Require Import Lia Permutation.

(* ---------- what an action of this rung does to a table ---------- *)
Definition sem_step4 (a : action) (t : table_def) : table_def :=
  match a with
  | DeleteColumn _ x =>
      mkTable (t_name t) (t_description t) (filter (not_named x) (t_columns t))
              (filter (fun k => negb (mentions x k)) (t_constraints t))
  | RemoveConstraint _ k =>
      mkTable (t_name t) (t_description t) (map (clr_of k) (t_columns t))
              (filter (keep_not k) (t_constraints t))
  | _ => sem_step3 a t
  end.

(* the column registered under a name, step by step (RemoveConstraint of a foreign key clears fields) *)
Definition cstep3 (k : string) (a : action) (o : option column_def) : option column_def :=
  match a with
  | RemoveConstraint _ kk => option_map (clr_of kk) o
  | _ => cstep2 k a o
  end.
Definition step3 (a : action) (c : column_def) : column_def :=
  match a with RemoveConstraint _ kk => clr_of kk c | _ => col_apply a c end.
Definition upd3 (L : list action) (c : column_def) : column_def := fold_left (fun c a => step3 a c) L c.

Lemma clr_safe_id tb k c : col_safe_b tb c k = true -> clr_of k c = c.
Proof.
  destruct k; cbn [clr_of col_safe_b]; try reflexivity. intro H. apply orb_true_iff in H. destruct H as [H|H].
  - destruct (mem_str _ _); [|reflexivity]. apply set_fk_none_id. now apply is_none_eq.
  - apply negb_true_iff in H. now rewrite H.
Qed.
Lemma keys_free_clr_l k col c : keys_free [col] c -> keys_free [clr_of k col] c.
Proof. intros H col' [<-|[]]. rewrite clr_ukeys, clr_ikeys. apply H. now left. Qed.
Lemma keys_free_clr_r k col c : keys_free [col] c -> keys_free [col] (clr_of k c).
Proof.
  intros H col' Hc. destruct (H col' Hc) as [H1 H2]. split; intros key Hk.
  - rewrite clr_ukeys in Hk. now apply H1.
  - rewrite clr_ikeys in Hk. now apply H2.
Qed.
Lemma keys_free_map_clr k cols c : keys_free cols c -> keys_free (map (clr_of k) cols) c.
Proof.
  intros H col Hc. apply in_map_iff in Hc. destruct Hc as [c0 [<- Hc0]].
  rewrite clr_ukeys, clr_ikeys. now apply H.
Qed.

Definition name_free (x : string) (k : table_constraint) (cols : list column_def) : Prop :=
  forall n, cname k = Some n -> forall col, In col cols -> c_name col <> x ->
    ~ In n (ukeys col) /\ ~ In n (ikeys col).
Lemma keys_free_apply_l a col c : keys_free [col] c -> keys_free [col_apply a col] c.
Proof. intros H col' [<-|[]]. rewrite ukeys_col_apply, ikeys_col_apply. apply H. now left. Qed.
Lemma keys_free_apply_r a col c : keys_free [col] c -> keys_free [col] (col_apply a c).
Proof.
  intros H col' Hc. destruct (H col' Hc) as [H1 H2]. split; intros key Hk.
  - rewrite ukeys_col_apply in Hk. now apply H1.
  - rewrite ikeys_col_apply in Hk. now apply H2.
Qed.
Lemma name_free_map x k a cols : name_free x k cols -> name_free x k (map (col_apply a) cols).
Proof.
  intros H n Hn col Hc Hne. apply in_map_iff in Hc. destruct Hc as [c0 [<- Hc0]].
  rewrite ukeys_col_apply, ikeys_col_apply. rewrite col_apply_name in Hne. now apply (H n Hn c0 Hc0).
Qed.
Definition sem4 (L : list action) (t : table_def) : table_def := fold_left (fun t a => sem_step4 a t) L t.

Definition is_mix_kind (a : action) : bool :=
  match a with
  | ModifyColumnType _ _ _ _ | ModifyColumnNullable _ _ _ _
  | ModifyColumnDefault _ _ _ | ModifyColumnComment _ _ _ => true
  | AddConstraint _ _ | AddColumn _ _ _ | DeleteColumn _ _ | RemoveConstraint _ _ => true
  | _ => false
  end.

Lemma col_safe_col_apply tb a col k : col_safe_b tb (col_apply a col) k = col_safe_b tb col k.
Proof.
  destruct k; cbn [col_safe_b]; rewrite ?ukeys_col_apply, ?ikeys_col_apply, ?col_apply_name;
    destruct a; cbn [col_apply]; try reflexivity; destruct (String.eqb _ _); reflexivity.
Qed.

Lemma keys_free_sub cols cols' c : incl cols' cols -> keys_free cols c -> keys_free cols' c.
Proof. intros Hi H col Hc. apply H, Hi, Hc. Qed.

Section Core.
  Variables (tb : string) (tcs allowed : list table_constraint).
  Hypothesis allowed_ok : forall k, In k allowed -> cons_ok k = true.
  Hypothesis tcs_allowed : incl tcs allowed.

  Record valid4 (L : list action) (t : table_def) : Prop := mkValid4 {
    y_kind : forall a, In a L -> is_mix_kind a = true;
    y_attr : forall a, In a L -> is_attr_action a = true ->
               In (attr_col a) (colnames t) /\ ~ In (attr_col a) (deleted_names L);
    y_add_nodup : NoDup (added_names L);
    y_fresh : forall x, In x (added_names L) -> ~ In x (colnames t);
    y_shape : forall n c f, In (AddColumn n c f) L ->
        shape_ok c /\ keys_free (t_columns t) c
        /\ (forall n' c' f', In (AddColumn n' c' f') L -> c_name c' <> c_name c -> keys_free [c'] c)
        /\ (forall k, In k (col_products c) -> In k tcs);
    y_del_nodup : NoDup (deleted_names L);
    y_del_in : forall x, In x (deleted_names L) ->
        exists X, In X (t_columns t) /\ c_name X = x /\ c_primary_key X = None
          /\ (forall col, In col (t_columns t) -> c_name col <> x -> keys_free [col] X)
          /\ (forall n c f, In (AddColumn n c f) L -> keys_free [c] X);
    y_del_cs : forall x k, In x (deleted_names L) -> In k allowed ->
        mentions x k = false
        \/ (constraint_columns k = [x] /\ is_pk k = false /\ ~ In k tcs
            /\ name_free x k (t_columns t) /\ forall n c f, In (AddColumn n c f) L -> name_free x k [c]);
    y_addc : forall n k, In (AddConstraint n k) L -> In k tcs;
    y_rem : forall n k, In (RemoveConstraint n k) L ->
        n = tb /\ ~ In k tcs
        /\ (is_fk k = true \/ forall col, In col (t_columns t) -> col_safe_b tb col k = true)
        /\ (forall n' c f, In (AddColumn n' c f) L -> col_safe_b tb c k = true) }.

  Definition inv_up (t : table_def) (L : list action) : Prop :=
    forall k, In k (t_constraints t) ->
      In k tcs \/ (exists n, In (RemoveConstraint n k) L)
      \/ exists x, In x (deleted_names L) /\ mentions x k = true.
  Definition inv_down (t : table_def) (L : list action) : Prop :=
    forall tc, In tc tcs -> In tc (t_constraints t) \/ exists n, In (AddConstraint n tc) L.

  Lemma sem_step4_name a t : t_name (sem_step4 a t) = t_name t.
  Proof.
    destruct a; cbn [sem_step4 sem_step3 sem_step2]; try apply sem_step_name; try reflexivity.
    destruct (normalize _) as [n|e] eqn:E; [|reflexivity]. now rewrite (normalize_name _ _ E).
  Qed.

  Lemma pk_col_apply a c : c_primary_key (col_apply a c) = c_primary_key c.
  Proof. destruct a; cbn [col_apply]; try reflexivity; destruct (String.eqb _ _); reflexivity. Qed.

  Lemma mix_step a L t :
    valid4 (a :: L) t -> NoDup (colnames t) -> normalize t = Ok t -> incl (t_constraints t) allowed ->
    inv_up t (a :: L) -> inv_down t (a :: L) ->
    apply_table (Some t) a = Ok (Some (sem_step4 a t))
    /\ valid4 L (sem_step4 a t) /\ NoDup (colnames (sem_step4 a t))
    /\ normalize (sem_step4 a t) = Ok (sem_step4 a t) /\ incl (t_constraints (sem_step4 a t)) allowed
    /\ inv_up (sem_step4 a t) L /\ inv_down (sem_step4 a t) L
    /\ forall k, col_named k (sem_step4 a t) = cstep3 k a (col_named k t).
  Proof.
    intros [Vk Va Van Vf Vs Vdn Vdi Vdc Vac Vr] Hnd Hfix Hincl Hup Hdown.
    pose proof (Vk a (or_introl eq_refl)) as Hk.
    assert (VkL : forall b, In b L -> is_mix_kind b = true) by (intros b Hb; apply Vk; now right).
    assert (VacL : forall n k, In (AddConstraint n k) L -> In k tcs) by (intros n k Hb; apply (Vac n); now right).
    destruct (is_attr_action a) eqn:Hattr.
    - (* attribute action *)
      destruct (Va a (or_introl eq_refl) Hattr) as [Hin _].
      assert (Es : sem_step4 a t = map_cols (col_apply a) t) by (destruct a; try discriminate; reflexivity).
      assert (Hn : colnames (map_cols (col_apply a) t) = colnames t).
      { unfold colnames, map_cols. cbn [t_columns]. rewrite map_map. apply map_ext. apply col_apply_name. }
      assert (Ean : added_names (a :: L) = added_names L) by (destruct a; try discriminate; reflexivity).
      assert (Edn : deleted_names (a :: L) = deleted_names L) by (destruct a; try discriminate; reflexivity).
      assert (Hnot : forall n k, a <> RemoveConstraint n k /\ a <> AddConstraint n k)
        by (intros n k; split; intro E; subst a; discriminate).
      assert (HnotA : forall n c f, a <> AddColumn n c f) by (intros n c f E; subst a; discriminate).
      rewrite Es, (apply_table_attr a t Hattr), (table_fn_attr a t Hattr Hnd Hin).
      split; [reflexivity|]. split; [|split; [now rewrite Hn|split; [|split; [exact Hincl|split; [|split]]]]].
      + constructor; try assumption.
        * intros b Hb Hab. rewrite Hn. destruct (Va b (or_intror Hb) Hab) as [H1 H2]. rewrite Edn in H2. auto.
        * now rewrite <- Ean.
        * intros x Hx. rewrite Hn. apply Vf. now rewrite Ean.
        * intros n c f Hin'. destruct (Vs n c f (or_intror Hin')) as (S1 & S2 & S3 & S4).
          split; [exact S1|]. split; [unfold map_cols; cbn [t_columns]; now apply keys_free_map|].
          split; [|exact S4]. intros n' c' f' Hc'. apply (S3 n' c' f'). now right.
        * now rewrite <- Edn.
        * intros x Hx. rewrite <- Edn in Hx. destruct (Vdi x Hx) as (X & X1 & X2 & X3 & X4 & X5).
          exists (col_apply a X). unfold map_cols. cbn [t_columns].
          split; [now apply in_map|]. split; [now rewrite col_apply_name|]. split; [now rewrite pk_col_apply|]. split.
          -- intros col Hc Hne. apply in_map_iff in Hc. destruct Hc as [c0 [<- Hc0]].
             rewrite col_apply_name in Hne. apply keys_free_apply_l, keys_free_apply_r. now apply X4.
          -- intros n c f Hc. apply keys_free_apply_r. apply (X5 n c f). now right.
        * intros x k Hx Hka. rewrite <- Edn in Hx. destruct (Vdc x k Hx Hka) as [H|(D1 & D2 & D3 & D4 & D5)]; [now left|].
          right. split; [exact D1|]. split; [exact D2|]. split; [exact D3|]. split.
          -- unfold map_cols. cbn [t_columns]. now apply name_free_map.
          -- intros n c f Hc. apply (D5 n c f). now right.
        * intros n k Hb. destruct (Vr n k (or_intror Hb)) as (R1 & R2 & R3 & R4).
          split; [exact R1|]. split; [exact R2|]. split.
          -- destruct R3 as [R3|R3]; [now left|right].
             unfold map_cols. cbn [t_columns]. intros col Hc. apply in_map_iff in Hc.
             destruct Hc as [c0 [<- Hc0]]. rewrite col_safe_col_apply. now apply R3.
          -- intros n' c f Hc. apply (R4 n' c f). now right.
      + unfold map_cols. apply normalize_same_view; [exact Hfix|].
        rewrite map_map. apply map_ext. apply canon_col_apply.
      + intros k Hk0. destruct (Hup k Hk0) as [H|[[n [H|H]]|[x [Hx Hm]]]];
          [now left|exfalso; now apply (proj1 (Hnot n k))|right; left; now exists n|].
        right. right. exists x. rewrite Edn in Hx. auto.
      + intros tc Htc. destruct (Hdown tc Htc) as [H|[n [H|H]]]; [now left|exfalso; now apply (proj2 (Hnot n tc))|right; now exists n].
      + intro k. assert (Ec : cstep3 k a (col_named k t) = option_map (col_apply a) (col_named k t))
          by (destruct a; try discriminate; reflexivity).
        rewrite Ec. apply col_named_map_cols. intro c. apply col_apply_name.
    - destruct a; try discriminate.
      + (* AddColumn *)
        cbn [added_names flat_map app] in Van, Vf. inversion Van as [|x l Hnew Van']; subst x l.
        assert (Hfresh : ~ In (c_name column) (colnames t)) by (apply Vf; now left).
        destruct (Vs table column fill_with (or_introl eq_refl)) as ((Hpk & Hnu & Hni & Hfk) & Hfree & Hpair & Hprod).
        destruct (normalize_snoc_inline (t_columns t) (t_constraints t) column
                    (normalize_fix_inv t Hfix) Hpk Hnu Hni Hfk Hfree) as (cs' & Ecs & Xcs & Mcs).
        assert (Hnorm : normalize (mkTable (t_name t) (t_description t) (t_columns t ++ [column]) (t_constraints t))
                        = Ok (mkTable (t_name t) (t_description t) (t_columns t ++ [column]) cs')).
        { unfold normalize. cbn [t_columns t_constraints t_name t_description]. now rewrite Ecs. }
        cbn [apply_table table_fn sem_step4 sem_step3]. rewrite (has_column_false _ _ Hfresh), Hnorm.
        split; [reflexivity|]. split; [|split; [|split; [|split; [|split; [|split]]]]].
        * constructor; try assumption.
          -- intros b Hb Hab. destruct (Va b (or_intror Hb) Hab) as [H1 H2]. split; [|exact H2].
             unfold colnames. cbn [t_columns]. rewrite map_app. apply in_or_app. now left.
          -- intros x Hx. unfold colnames. cbn [t_columns]. rewrite map_app. intro Hin.
             apply in_app_or in Hin. destruct Hin as [Hin|[<-|[]]].
             ++ apply (Vf x); [now right|exact Hin].
             ++ now apply Hnew.
          -- intros n c f Hin'. destruct (Vs n c f (or_intror Hin')) as (S1 & S2 & S3 & S4).
             split; [exact S1|]. split; [|split; [|exact S4]].
             ++ cbn [t_columns]. intros col Hc. apply in_app_or in Hc. destruct Hc as [Hc|[<-|[]]]; [now apply S2|].
                apply (S3 table column fill_with (or_introl eq_refl)); [|now left].
                intro E. apply Hnew. rewrite E. eapply in_added_names; exact Hin'.
             ++ intros n' c' f' Hc'. apply (S3 n' c' f'). now right.
          -- intros x Hx. destruct (Vdi x Hx) as (X & X1 & X2 & X3 & X4 & X5).
             exists X. cbn [t_columns]. split; [apply in_or_app; now left|]. split; [exact X2|]. split; [exact X3|]. split.
             ++ intros col Hc Hne. apply in_app_or in Hc. destruct Hc as [Hc|[<-|[]]]; [now apply X4|].
                apply (X5 table column fill_with). now left.
             ++ intros n c f Hc. apply (X5 n c f). now right.
          -- intros x k Hx Hka. destruct (Vdc x k Hx Hka) as [H|(D1 & D2 & D3 & D4 & D5)]; [now left|].
             right. split; [exact D1|]. split; [exact D2|]. split; [exact D3|]. split.
             ++ cbn [t_columns]. intros n Hn col Hc Hne. apply in_app_or in Hc.
                destruct Hc as [Hc|[<-|[]]]; [now apply (D4 n Hn)|].
                apply (D5 table column fill_with (or_introl eq_refl) n Hn); [now left|exact Hne].
             ++ intros n c f Hc. apply (D5 n c f). now right.
          -- intros n k Hb. destruct (Vr n k (or_intror Hb)) as (R1 & R2 & R3 & R4).
             split; [exact R1|]. split; [exact R2|]. split.
             ++ destruct R3 as [R3|R3]; [now left|right].
                cbn [t_columns]. intros col Hc. apply in_app_or in Hc. destruct Hc as [Hc|[<-|[]]]; [now apply R3|].
                apply (R4 table column fill_with). now left.
             ++ intros n' c f Hc. apply (R4 n' c f). now right.
        * unfold colnames. cbn [t_columns]. rewrite map_app. cbn [map].
          clear - Hnd Hfresh. unfold colnames in *. induction (map c_name (t_columns t)) as [|y l IH];
            cbn [app]; [constructor; [intros []|constructor]|].
          inversion Hnd; subst. constructor.
          -- intro Hin. apply in_app_or in Hin. destruct Hin as [Hin|[<-|[]]]; [tauto|].
             apply Hfresh. now left.
          -- apply IH; [assumption|]. intro Hin. apply Hfresh. now right.
        * eapply normalize_idempotent. exact Hnorm.
        * cbn [t_constraints]. intros k Hk0. destruct (Mcs k Hk0) as [H|H]; [now apply Hincl|].
          apply tcs_allowed. now apply Hprod.
        * intros k Hk0. cbn [t_constraints] in Hk0. destruct (Mcs k Hk0) as [H|H]; [|left; now apply Hprod].
          destruct (Hup k H) as [H'|[[n [H'|H']]|[x [Hx Hm]]]];
            [now left|discriminate|right; left; now exists n|right; right; now exists x].
        * intros tc Htc. cbn [t_constraints]. destruct Xcs as [ex ->].
          destruct (Hdown tc Htc) as [H|[n [H|H]]]; [left; apply in_or_app; now left|discriminate|right; now exists n].
        * intro k. cbn [cstep3 cstep2 cstep]. unfold col_named. cbn [t_columns].
          rewrite map_app, rev_app_distr. cbn [map rev app bt_get]. reflexivity.
      + (* DeleteColumn *)
        cbn [deleted_names flat_map app] in Vdn, Vdi, Vdc, Va, Hup.
        inversion Vdn as [|x l Hnew Vdn']; subst x l.
        destruct (Vdi column (or_introl eq_refl)) as (X & X1 & X2 & X3 & X4 & X5). subst column.
        assert (Hin : In (c_name X) (colnames t)) by (unfold colnames; now apply in_map).
        assert (Hcls : forall k, In k (t_constraints t) ->
                  (cons_ok k = true /\ mentions (c_name X) k = false) \/ single_ok (c_name X) (t_columns t) k).
        { intros k Hk0. pose proof (Hincl k Hk0) as Hka.
          destruct (Vdc (c_name X) k (or_introl eq_refl) Hka) as [H|(D1 & D2 & D3 & D4 & D5)].
          - left. split; [now apply allowed_ok|exact H].
          - right. split; [exact D1|]. split; [exact D2|exact D4]. }
        assert (Hdrop : drop_column_from_constraints (c_name X) (t_constraints t)
                        = filter (fun k => negb (mentions (c_name X) k)) (t_constraints t)).
        { apply drop_eq_filter. intros k Hk0. destruct (Hcls k Hk0) as [H|[H _]]; [now left|now right]. }
        cbn [apply_table table_fn sem_step4]. rewrite (has_column_true _ _ Hin), Hdrop.
        assert (Hsub : incl (filter (not_named (c_name X)) (t_columns t)) (t_columns t))
          by (intros c Hc; apply filter_In in Hc; tauto).
        assert (Hkeep : forall col, In col (t_columns t) -> c_name col <> c_name X ->
                  In col (filter (not_named (c_name X)) (t_columns t))).
        { intros col Hc Hne. apply filter_In. split; [exact Hc|]. unfold not_named.
          now apply negb_true_iff, String.eqb_neq. }
        split; [reflexivity|]. split; [|split; [|split; [|split; [|split; [|split]]]]].
        * constructor; try assumption.
          -- intros b Hb Hab. destruct (Va b (or_intror Hb) Hab) as [H1 H2]. split.
             ++ unfold colnames. cbn [t_columns]. apply in_map_iff in H1. destruct H1 as [c [Hc Hcin]].
                apply in_map_iff. exists c. split; [exact Hc|]. apply Hkeep; [exact Hcin|].
                intro E. apply H2. left. congruence.
             ++ intro Hd. apply H2. now right.
          -- intros x Hx Hxin. apply (Vf x Hx). unfold colnames in *. cbn [t_columns] in Hxin.
             apply in_map_iff in Hxin. destruct Hxin as [c [Hc Hcin]]. apply filter_In in Hcin.
             apply in_map_iff. exists c. tauto.
          -- intros n c f Hin'. destruct (Vs n c f (or_intror Hin')) as (S1 & S2 & S3 & S4).
             split; [exact S1|]. split; [cbn [t_columns]; now apply (keys_free_sub (t_columns t))|].
             split; [|exact S4]. intros n' c' f' Hc'. apply (S3 n' c' f'). now right.
          -- intros x Hx. destruct (Vdi x (or_intror Hx)) as (Y & Y1 & Y2 & Y3 & Y4 & Y5).
             exists Y. cbn [t_columns]. split.
             ++ apply Hkeep; [exact Y1|]. intro E. apply Hnew. now rewrite <- E, Y2.
             ++ split; [exact Y2|]. split; [exact Y3|]. split.
                ** intros col Hc. apply Y4, Hsub, Hc.
                ** intros n c f Hc. apply (Y5 n c f). now right.
          -- intros x k Hx Hka. destruct (Vdc x k (or_intror Hx) Hka) as [H|(D1 & D2 & D3 & D4 & D5)]; [now left|].
             right. split; [exact D1|]. split; [exact D2|]. split; [exact D3|]. split.
             ++ cbn [t_columns]. intros n Hn col Hc. apply (D4 n Hn), Hsub, Hc.
             ++ intros n c f Hc. apply (D5 n c f). now right.
          -- intros n k Hb. destruct (Vr n k (or_intror Hb)) as (R1 & R2 & R3 & R4).
             split; [exact R1|]. split; [exact R2|]. split.
             ++ destruct R3 as [R3|R3]; [now left|right]. cbn [t_columns]. intros col Hc. apply R3, Hsub, Hc.
             ++ intros n' c f Hc. apply (R4 n' c f). now right.
        * unfold colnames. cbn [t_columns]. now apply NoDup_map_filter.
        * apply normalize_fix_intro. cbn [t_columns t_constraints].
          apply normalize_constraints_drop_col; try assumption. now apply normalize_fix_inv.
        * cbn [t_constraints]. intros k Hk0. apply filter_In in Hk0. apply Hincl. tauto.
        * intros k Hk0. cbn [t_constraints] in Hk0. apply filter_In in Hk0. destruct Hk0 as [Hk0 Hnm].
          apply negb_true_iff in Hnm.
          destruct (Hup k Hk0) as [H|[[n [H|H]]|[x [[Hx|Hx] Hm]]]];
            [now left|discriminate|right; left; now exists n| |right; right; now exists x].
          subst x. congruence.
        * intros tc Htc. cbn [t_constraints].
          destruct (Hdown tc Htc) as [H|[n [H|H]]]; [|discriminate|right; now exists n].
          left. apply filter_In. split; [exact H|].
          destruct (Vdc (c_name X) tc (or_introl eq_refl) (tcs_allowed tc Htc)) as [Hm|(_ & _ & D3 & _)];
            [now rewrite Hm|contradiction].
        * intro k. cbn [cstep3 cstep2]. apply col_named_drop.
      + (* AddConstraint *)
        cbn [apply_table table_fn sem_step4 sem_step3 sem_step cstep3 cstep2 cstep].
        assert (Vrest : valid4 L t).
        { constructor; try assumption.
          - intros b Hb Hab. apply Va; [now right|exact Hab].
          - intros n c f Hin'. destruct (Vs n c f (or_intror Hin')) as (S1 & S2 & S3 & S4).
            split; [exact S1|]. split; [exact S2|]. split; [|exact S4].
            intros n' c' f' Hc'. apply (S3 n' c' f'). now right.
          - intros x Hx. destruct (Vdi x Hx) as (X & X1 & X2 & X3 & X4 & X5).
            exists X. repeat (split; [assumption|]). intros n c f Hc. apply (X5 n c f). now right.
          - intros x k Hx Hka. destruct (Vdc x k Hx Hka) as [H|(D1 & D2 & D3 & D4 & D5)]; [now left|].
            right. repeat (split; [assumption|]). intros n c f Hc. apply (D5 n c f). now right.
          - intros n k Hb. destruct (Vr n k (or_intror Hb)) as (R1 & R2 & R3 & R4).
            split; [exact R1|]. split; [exact R2|]. split; [exact R3|].
            intros n' c f Hc. apply (R4 n' c f). now right. }
        assert (Hktcs : In constraint tcs) by (apply (Vac table); now left).
        assert (HupL : forall k, In k (t_constraints t) -> In k tcs \/ (exists n, In (RemoveConstraint n k) L)
                       \/ exists x, In x (deleted_names L) /\ mentions x k = true).
        { intros k Hk0. destruct (Hup k Hk0) as [H|[[n [H|H]]|[x [Hx Hm]]]];
            [now left|discriminate|right; left; now exists n|right; right; now exists x]. }
        destruct (contains_constraint constraint (t_constraints t)) eqn:Ec.
        * split; [reflexivity|]. split; [exact Vrest|]. split; [exact Hnd|]. split; [exact Hfix|].
          split; [exact Hincl|]. split; [exact HupL|split; [|reflexivity]].
          intros tc Htc. destruct (Hdown tc Htc) as [H|[n [H|H]]]; [now left| |right; now exists n].
          inversion H; subst. left. now apply contains_constraint_true.
        * split; [reflexivity|]. split; [|split; [exact Hnd|split; [|split; [|split; [|split; [|reflexivity]]]]]].
          -- destruct Vrest. constructor; assumption.
          -- apply normalize_fix_intro. cbn [t_columns t_constraints].
             apply normalize_constraints_snoc. now apply normalize_fix_inv.
          -- cbn [t_constraints]. intros k Hk0. apply in_app_or in Hk0.
             destruct Hk0 as [Hk0|[<-|[]]]; [now apply Hincl|now apply tcs_allowed].
          -- intros k Hk0. cbn [t_constraints] in Hk0. apply in_app_or in Hk0.
             destruct Hk0 as [Hk0|[<-|[]]]; [now apply HupL|now left].
          -- intros tc Htc. cbn [t_constraints].
             destruct (Hdown tc Htc) as [H|[n [H|H]]]; [left; apply in_or_app; now left| |right; now exists n].
             inversion H; subst. left. apply in_or_app. right. now left.
      + (* RemoveConstraint *)
        destruct (Vr table constraint (or_introl eq_refl)) as (R1 & R2 & R3 & R4). subst table.
        assert (Hnd' : NoDup (map c_name (t_columns t))) by exact Hnd.
        assert (Emap : clear_inline tb constraint (t_columns t) = map (clr_of constraint) (t_columns t)).
        { destruct R3 as [R3|R3].
          - destruct constraint; try discriminate. now apply clear_inline_fk.
          - rewrite (clear_inline_safe _ _ _ R3). symmetry. apply map_id_on. intros c Hc.
            apply (clr_safe_id tb). now apply R3. }
        assert (Hfix' : normalize_constraints (map (clr_of constraint) (t_columns t))
                          (filter (keep_not constraint) (t_constraints t))
                        = Ok (filter (keep_not constraint) (t_constraints t))).
        { destruct R3 as [R3|R3].
          - apply normalize_constraints_remove_fk; [exact R3|now apply normalize_fix_inv].
          - assert (E : map (clr_of constraint) (t_columns t) = t_columns t).
            { apply map_id_on. intros c Hc. apply (clr_safe_id tb). now apply R3. }
            rewrite E. apply (normalize_constraints_remove_safe tb); [exact R3|now apply normalize_fix_inv]. }
        cbn [apply_table table_fn sem_step4 cstep3]. rewrite Emap.
        assert (Hnames : map c_name (map (clr_of constraint) (t_columns t)) = map c_name (t_columns t)).
        { rewrite map_map. apply map_ext. intro c. apply clr_name. }
        split; [reflexivity|]. split; [|split; [|split; [|split; [|split; [|split]]]]].
        * constructor; try assumption.
          -- intros b Hb Hab. unfold colnames. cbn [t_columns]. rewrite Hnames. apply Va; [now right|exact Hab].
          -- intros x Hx. unfold colnames. cbn [t_columns]. rewrite Hnames. now apply Vf.
          -- intros n c f Hin'. destruct (Vs n c f (or_intror Hin')) as (S1 & S2 & S3 & S4).
             split; [exact S1|]. split; [cbn [t_columns]; now apply keys_free_map_clr|]. split; [|exact S4].
             intros n' c' f' Hc'. apply (S3 n' c' f'). now right.
          -- intros x Hx. destruct (Vdi x Hx) as (X & X1 & X2 & X3 & X4 & X5).
             exists (clr_of constraint X). cbn [t_columns].
             split; [now apply in_map|]. split; [now rewrite clr_name|]. split; [now rewrite clr_pk|]. split.
             ++ intros col Hc Hne. apply in_map_iff in Hc. destruct Hc as [c0 [<- Hc0]].
                rewrite clr_name in Hne. apply keys_free_clr_l, keys_free_clr_r. now apply X4.
             ++ intros n c f Hc. apply keys_free_clr_r. apply (X5 n c f). now right.
          -- intros x k Hx Hka. destruct (Vdc x k Hx Hka) as [H|(D1 & D2 & D3 & D4 & D5)]; [now left|].
             right. split; [exact D1|]. split; [exact D2|]. split; [exact D3|]. split.
             ++ cbn [t_columns]. intros n Hn col Hc Hne. apply in_map_iff in Hc. destruct Hc as [c0 [<- Hc0]].
                rewrite clr_ukeys, clr_ikeys. rewrite clr_name in Hne. now apply (D4 n Hn c0 Hc0).
             ++ intros n c f Hc. apply (D5 n c f). now right.
          -- intros n k Hb. destruct (Vr n k (or_intror Hb)) as (Q1 & Q2 & Q3 & Q4).
             split; [exact Q1|]. split; [exact Q2|]. split.
             ++ destruct Q3 as [Q3|Q3]; [now left|right]. cbn [t_columns]. intros col Hc.
                apply in_map_iff in Hc. destruct Hc as [c0 [<- Hc0]]. apply col_safe_clr. now apply Q3.
             ++ intros n' c f Hc. apply (Q4 n' c f). now right.
        * unfold colnames. cbn [t_columns]. now rewrite Hnames.
        * apply normalize_fix_intro. cbn [t_columns t_constraints]. exact Hfix'.
        * cbn [t_constraints]. intros k Hk0. apply filter_In in Hk0. apply Hincl. tauto.
        * intros k Hk0. cbn [t_constraints] in Hk0. apply filter_In in Hk0. destruct Hk0 as [Hk0 Hne].
          destruct (Hup k Hk0) as [H|[[n [H|H]]|[x [Hx Hm]]]];
            [now left| |right; left; now exists n|right; right; now exists x].
          inversion H; subst. unfold keep_not in Hne. rewrite (proj2 (constraint_eqb_eq k k) eq_refl) in Hne. discriminate.
        * intros tc Htc. cbn [t_constraints].
          destruct (Hdown tc Htc) as [H|[n [H|H]]]; [|discriminate|right; now exists n].
          left. apply filter_In. split; [exact H|]. unfold keep_not. apply negb_true_iff.
          destruct (constraint_eqb tc constraint) eqn:E; [|reflexivity].
          apply constraint_eqb_eq in E. subst. contradiction.
        * intro k. apply (col_named_map_cols (clr_of constraint) k t). intro c. apply clr_name.
  Qed.

  Lemma proj_all_mix : forall L t,
    valid4 L t -> NoDup (colnames t) -> normalize t = Ok t -> incl (t_constraints t) allowed ->
    inv_up t L -> inv_down t L ->
    proj_all (Some t) L = Ok (Some (sem4 L t)) /\ normalize (sem4 L t) = Ok (sem4 L t)
    /\ t_name (sem4 L t) = t_name t
    /\ incl (t_constraints (sem4 L t)) tcs /\ incl tcs (t_constraints (sem4 L t))
    /\ forall k, col_named k (sem4 L t) = fold_left (fun o a => cstep3 k a o) L (col_named k t).
  Proof.
    induction L as [|a L IH]; intros t Hv Hnd Hfix Hincl Hup Hdown.
    - cbn [proj_all sem4 fold_left]. repeat split; auto.
      + intros k Hk. destruct (Hup k Hk) as [H|[[n []]|[x [[] _]]]]. exact H.
      + intros tc Htc. destruct (Hdown tc Htc) as [H|[n []]]. exact H.
    - destruct (mix_step a L t Hv Hnd Hfix Hincl Hup Hdown) as (H1 & H2 & H3 & H4 & H5 & H6 & H7 & H8).
      cbn [proj_all]. rewrite H1. destruct (IH _ H2 H3 H4 H5 H6 H7) as (I1 & I2 & I3 & I4 & I5 & I6).
      unfold sem4 in *. cbn [fold_left]. split; [exact I1|]. split; [exact I2|].
      split; [now rewrite I3, sem_step4_name|]. split; [exact I4|]. split; [exact I5|].
      intro k. now rewrite I6, H8.
  Qed.
End Core.

(* ---------- columns under cstep3 ---------- *)
Lemma cstep3_some k a c : adds_named k a = false -> deletes_named k a = false ->
  cstep3 k a (Some c) = Some (step3 a c).
Proof.
  intros Ha Hd. destruct a; cbn [cstep3 cstep2 cstep step3 col_apply option_map]; try reflexivity.
  - cbn [adds_named] in Ha. now rewrite Ha.
  - cbn [deletes_named] in Hd. now rewrite Hd.
Qed.
Lemma cstep3_none k a : adds_named k a = false -> cstep3 k a None = None.
Proof.
  intro Ha. destruct a; cbn [cstep3 cstep2 cstep option_map]; try reflexivity.
  - cbn [adds_named] in Ha. now rewrite Ha.
  - now destruct (String.eqb k column).
Qed.
Lemma cfold3_common k : forall L c,
  (forall a, In a L -> adds_named k a = false /\ deletes_named k a = false) ->
  fold_left (fun o a => cstep3 k a o) L (Some c) = Some (upd3 L c).
Proof.
  unfold upd3. induction L as [|a L IH]; intros c H; cbn [fold_left]; [reflexivity|].
  destruct (H a (or_introl eq_refl)) as [Ha Hd]. rewrite (cstep3_some k a c Ha Hd).
  apply IH. intros b Hb. apply H. now right.
Qed.
Lemma cfold3_none k : forall L, (forall a, In a L -> adds_named k a = false) ->
  fold_left (fun o a => cstep3 k a o) L None = None.
Proof.
  induction L as [|a L IH]; intro H; cbn [fold_left]; [reflexivity|].
  rewrite (cstep3_none k a (H a (or_introl eq_refl))). apply IH. intros b Hb. apply H. now right.
Qed.
Lemma cfold3_deleted k : forall L o,
  (exists n, In (DeleteColumn n k) L) -> (forall a, In a L -> adds_named k a = false) ->
  fold_left (fun o a => cstep3 k a o) L o = None.
Proof.
  induction L as [|a L IH] using rev_ind; intros o [n Hin] Hno; [destruct Hin|].
  rewrite fold_left_app. cbn [fold_left].
  destruct (deletes_named k a) eqn:Ed.
  - destruct a; try discriminate. cbn [deletes_named] in Ed. cbn [cstep3 cstep2]. now rewrite Ed.
  - assert (HinL : exists n, In (DeleteColumn n k) L).
    { apply in_app_or in Hin. destruct Hin as [Hin|[E|[]]]; [eauto|]. subst a.
      cbn [deletes_named] in Ed. rewrite String.eqb_refl in Ed. discriminate. }
    rewrite (IH o HinL) by (intros b Hb; apply Hno, in_or_app; now left).
    apply cstep3_none. apply Hno, in_or_app. right. now left.
Qed.
Lemma cfold3_added k c : c_name c = k -> forall L,
  (forall a, In a L -> is_mix_kind a = true) ->
  (exists n f, In (AddColumn n c f) L) ->
  (forall n c' f, In (AddColumn n c' f) L -> c_name c' = k -> c' = c) ->
  (forall a, In a L -> is_attr_action a = true -> attr_col a <> k) ->
  (forall a, In a L -> deletes_named k a = false) ->
  (forall n kk, In (RemoveConstraint n kk) L -> clr_of kk c = c) ->
  fold_left (fun o a => cstep3 k a o) L None = Some c.
Proof.
  intros Hk. induction L as [|a L IH] using rev_ind; intros Hg [n [f Hin]] Huniq Hattr Hdel Hclr; [destruct Hin|].
  rewrite fold_left_app. cbn [fold_left].
  assert (HgL : forall b, In b L -> is_mix_kind b = true) by (intros b Hb; apply Hg, in_or_app; now left).
  assert (HuL : forall n' c' f', In (AddColumn n' c' f') L -> c_name c' = k -> c' = c)
    by (intros n' c' f' Hb; apply (Huniq n' c' f'), in_or_app; now left).
  assert (HaL : forall b, In b L -> is_attr_action b = true -> attr_col b <> k)
    by (intros b Hb; apply Hattr, in_or_app; now left).
  assert (HdL : forall b, In b L -> deletes_named k b = false) by (intros b Hb; apply Hdel, in_or_app; now left).
  assert (HcL : forall n kk, In (RemoveConstraint n kk) L -> clr_of kk c = c)
    by (intros n' kk Hb; apply (Hclr n'), in_or_app; now left).
  destruct (adds_named k a) eqn:Ea.
  - destruct a; try discriminate. cbn [adds_named] in Ea. cbn [cstep3 cstep2 cstep]. rewrite Ea.
    apply String.eqb_eq in Ea. f_equal. apply (Huniq table column fill_with); [apply in_or_app; right; now left|auto].
  - assert (HinL : exists n f, In (AddColumn n c f) L).
    { apply in_app_or in Hin. destruct Hin as [Hin|[E|[]]]; [eauto|]. subst a.
      cbn [adds_named] in Ea. rewrite Hk, String.eqb_refl in Ea. discriminate. }
    rewrite (IH HgL HinL HuL HaL HdL HcL).
    assert (Hda : deletes_named k a = false) by (apply Hdel, in_or_app; right; now left).
    rewrite (cstep3_some k a c Ea Hda). f_equal.
    assert (Hga : is_mix_kind a = true) by (apply Hg, in_or_app; right; now left).
    destruct (is_attr_action a) eqn:Haa.
    + assert (E : step3 a c = col_apply a c) by (destruct a; try discriminate; reflexivity).
      rewrite E. apply col_apply_other; [exact Haa|]. rewrite Hk.
      apply Hattr; [apply in_or_app; right; now left|exact Haa].
    + destruct a; try discriminate; cbn [step3 col_apply]; try reflexivity.
      apply (Hclr table). apply in_or_app. right. now left.
Qed.

(* clearing foreign_key fields is invisible to the planner's column comparison *)
Definition attr_eq (a b : column_def) : Prop :=
  c_name a = c_name b /\ c_type a = c_type b /\ c_nullable a = c_nullable b
  /\ c_default a = c_default b /\ c_comment a = c_comment b.
Lemma attr_eq_step a c c' : attr_eq c c' -> attr_eq (step3 a c) (col_apply a c').
Proof.
  intros (H1 & H2 & H3 & H4 & H5). unfold attr_eq.
  destruct a; cbn [step3 col_apply]; try (repeat split; assumption).
  - rewrite H1. destruct (String.eqb (c_name c') column); cbn; repeat split; assumption.
  - rewrite H1. destruct (String.eqb (c_name c') column); cbn; repeat split; assumption.
  - rewrite H1. destruct (String.eqb (c_name c') column); cbn; repeat split; assumption.
  - rewrite H1. destruct (String.eqb (c_name c') column); cbn; repeat split; assumption.
  - destruct constraint; cbn [clr_of]; try (repeat split; assumption).
    destruct (mem_str (c_name c) columns); cbn; repeat split; assumption.
Qed.
Lemma attr_eq_upd : forall L c c', attr_eq c c' -> attr_eq (upd3 L c) (upd L c').
Proof.
  unfold upd3, upd. induction L as [|a L IH]; intros c c' H; cbn [fold_left]; [exact H|].
  apply IH. now apply attr_eq_step.
Qed.
Lemma col_equiv_attr_eq a b td : attr_eq a b -> col_equiv b td -> col_equiv a td.
Proof. intros (_ & H2 & H3 & H4 & H5). unfold col_equiv. now rewrite H2, H3, H4, H5. Qed.

Lemma cfold2_added_mix k c : c_name c = k -> forall L,
  (forall a, In a L -> is_mix_kind a = true) ->
  (exists n f, In (AddColumn n c f) L) ->
  (forall n c' f, In (AddColumn n c' f) L -> c_name c' = k -> c' = c) ->
  (forall a, In a L -> is_attr_action a = true -> attr_col a <> k) ->
  (forall a, In a L -> deletes_named k a = false) ->
  fold_left (fun o a => cstep2 k a o) L None = Some c.
Proof.
  intros Hk. induction L as [|a L IH] using rev_ind; intros Hg [n [f Hin]] Huniq Hattr Hdel; [destruct Hin|].
  rewrite fold_left_app. cbn [fold_left].
  assert (HgL : forall b, In b L -> is_mix_kind b = true) by (intros b Hb; apply Hg, in_or_app; now left).
  assert (HuL : forall n' c' f', In (AddColumn n' c' f') L -> c_name c' = k -> c' = c)
    by (intros n' c' f' Hb; apply (Huniq n' c' f'), in_or_app; now left).
  assert (HaL : forall b, In b L -> is_attr_action b = true -> attr_col b <> k)
    by (intros b Hb; apply Hattr, in_or_app; now left).
  assert (HdL : forall b, In b L -> deletes_named k b = false) by (intros b Hb; apply Hdel, in_or_app; now left).
  destruct (adds_named k a) eqn:Ea.
  - destruct a; try discriminate. cbn [adds_named] in Ea. cbn [cstep2 cstep]. rewrite Ea.
    apply String.eqb_eq in Ea. f_equal. apply (Huniq table column fill_with); [apply in_or_app; right; now left|auto].
  - assert (HinL : exists n f, In (AddColumn n c f) L).
    { apply in_app_or in Hin. destruct Hin as [Hin|[E|[]]]; [eauto|]. subst a.
      cbn [adds_named] in Ea. rewrite Hk, String.eqb_refl in Ea. discriminate. }
    rewrite (IH HgL HinL HuL HaL HdL).
    assert (Hga : is_mix_kind a = true) by (apply Hg, in_or_app; right; now left).
    assert (Hda : deletes_named k a = false) by (apply Hdel, in_or_app; right; now left).
    destruct (is_attr_action a) eqn:Haa.
    + assert (E : cstep2 k a (Some c) = Some (col_apply a c)) by (destruct a; try discriminate; reflexivity).
      rewrite E. f_equal. apply col_apply_other; [exact Haa|]. rewrite Hk.
      apply Hattr; [apply in_or_app; right; now left|exact Haa].
    + destruct a; try discriminate; cbn [cstep2 cstep]; try reflexivity.
      * cbn [adds_named] in Ea. now rewrite Ea.
      * cbn [deletes_named] in Hda. now rewrite Hda.
Qed.

Lemma mix_action_kind b tn a : is_mix_action b tn a = true -> is_mix_kind a = true.
Proof. destruct a; cbn [is_mix_action is_mix_kind]; auto. Qed.

(* ---------- the whole group, in any order ---------- *)
Theorem mix_fold b tn L :
  normalize b = Ok b -> mix_only b tn = true -> Permutation L (table_group (t_name b) b tn) ->
  exists b', proj_all (Some b) L = Ok (Some b') /\ t_name b' = t_name b
             /\ normalize b' = Ok b' /\ table_equiv b' tn.
Proof.
  intros Hfix Hch HP. unfold mix_only in Hch.
  destruct (table_group (t_name b) b tn) as [|a0 g0] eqn:EG.
  - apply Permutation_sym, Permutation_nil in HP. subst L. exists b.
    split; [reflexivity|split; [reflexivity|split; [exact Hfix|]]].
    now apply (table_group_nil_inv (t_name b)).
  - rewrite <- EG in *. clear a0 g0 EG.
    apply andb_prop in Hch. destruct Hch as [Hch Hok].
    apply andb_prop in Hch. destruct Hch as [Hch Hdef].
    apply andb_prop in Hch. destruct Hch as [Hch Hnb].
    rewrite forallb_forall in Hch, Hdef, Hok. apply nodup_str_NoDup' in Hnb.
    set (G := table_group (t_name b) b tn) in *.
    set (allowed := t_constraints b ++ t_constraints tn) in *.
    assert (HL : forall a, In a L <-> In a G).
    { intro a. split; apply Permutation_in; [exact HP|now apply Permutation_sym]. }
    assert (HkL : forall a, In a L -> is_mix_kind a = true)
      by (intros a Ha; eapply mix_action_kind, Hch, HL, Ha).
    assert (Hadd0 : forall n c f, In (AddColumn n c f) G ->
              In c (t_columns tn) /\ ~ In (c_name c) (colnames b)).
    { intros n c f Hin. apply added_in_group in Hin. destruct Hin as (Hg & Hm & _).
      split; [now apply (tg_cols_get (c_name c) c tn)|].
      apply bt_mem_false in Hm. intro Hcn. apply Hm. unfold tg_cols. rewrite bt_keys_of_list, map_map. exact Hcn. }
    assert (Hdel : forall x, In x (tg_deleted b tn) ->
              exists X, In X (t_columns b) /\ c_name X = x /\ c_primary_key X = None
                /\ (forall col, In col (t_columns b ++ t_columns tn) -> c_name col <> x -> keys_free [col] X)
                /\ forall k, In k allowed ->
                     mentions x k = false
                     \/ (constraint_columns k = [x] /\ is_pk k = false /\ ~ In k (t_constraints tn)
                         /\ name_free x k (t_columns b ++ t_columns tn))).
    { intros x Hx. pose proof (Hch _ (group_dels (t_name b) b tn x Hx)) as H. cbn [is_mix_action] in H.
      unfold del_ok_b in H. destruct (find_column x b) as [X|] eqn:EX; [|discriminate].
      unfold find_column in EX. apply find_some in EX. destruct EX as [HX HXn]. apply String.eqb_eq in HXn.
      rewrite !andb_true_iff in H. destruct H as [[H1 H2] H3]. unfold others_named in H2.
      rewrite forallb_forall in H2, H3.
      exists X. split; [exact HX|]. split; [exact HXn|]. split; [now apply is_none_eq|]. split.
      - intros col Hc Hne. specialize (H2 col Hc). apply orb_true_iff in H2.
        destruct H2 as [H2|H2]; [apply String.eqb_eq in H2; contradiction|now apply keys_free_b_spec].
      - intros k Hk. specialize (H3 k Hk). apply orb_true_iff in H3. destruct H3 as [H3|H3].
        + left. now apply negb_true_iff in H3.
        + right. unfold single_b in H3. rewrite !andb_true_iff in H3. destruct H3 as [[[S1 S2] S3] S4].
          split; [|split; [now apply negb_true_iff in S2|split]].
          * destruct (constraint_columns k) as [|y [|z r]]; try discriminate. apply String.eqb_eq in S1. now subst.
          * apply negb_true_iff in S3. intro Hin. rewrite (contains_constraint_in _ _ Hin) in S3. discriminate.
          * intros n Hn col Hc Hne. rewrite Hn in S4. unfold others_named in S4. rewrite forallb_forall in S4.
            specialize (S4 col Hc). apply orb_true_iff in S4.
            destruct S4 as [S4|S4]; [apply String.eqb_eq in S4; contradiction|].
            apply andb_prop in S4. destruct S4 as [U1 U2].
            split; apply mem_str_false; now apply negb_true_iff. }
    assert (HdL : forall x, In x (deleted_names L) -> In x (tg_deleted b tn)).
    { intros x Hx. apply in_deleted_names in Hx. destruct Hx as [n Hx]. apply HL, del_in_group in Hx. tauto. }
    assert (Hadd : forall n c f, In (AddColumn n c f) L ->
              inline_ok b tn c = true /\ In c (t_columns tn) /\ bt_get (c_name c) (tg_cols tn) = Some c
              /\ bt_mem (c_name c) (tg_cols b) = false).
    { intros n c f Hin. apply HL in Hin. pose proof (Hch _ Hin) as Hok'. cbn [is_mix_action] in Hok'.
      apply added_in_group in Hin. destruct Hin as (Hg & Hm & _).
      repeat split; try assumption. now apply (tg_cols_get (c_name c) c tn). }
    assert (Hincl : incl (t_constraints b) allowed) by (intros k Hk; unfold allowed; apply in_or_app; now left).
    assert (Htcs : incl (t_constraints tn) allowed) by (intros k Hk; unfold allowed; apply in_or_app; now right).
    assert (Hv : valid4 (t_name b) (t_constraints tn) allowed L b).
    { constructor.
      - exact HkL.
      - intros a Ha Hattr. split; [apply (attr_in_group_col (t_name b) b tn); [apply HL, Ha|exact Hattr]|].
        intro Hd. apply HdL, tg_deleted_in in Hd. destruct Hd as [c [_ Hm]].
        rewrite (attr_in_group_tc (t_name b) b tn a (proj1 (HL a) Ha) Hattr) in Hm. discriminate.
      - eapply Permutation_NoDup; [|apply (added_names_group (t_name b) b tn)].
        unfold added_names. apply Permutation_flat_map, Permutation_sym, HP.
      - intros x Hx Hin. unfold added_names in Hx. apply in_flat_map in Hx.
        destruct Hx as [a [Ha Hx]]. destruct a; try (now destruct Hx). destruct Hx as [<-|[]].
        destruct (Hadd _ _ _ Ha) as (_ & _ & _ & Hm).
        apply bt_mem_false in Hm. apply Hm. unfold tg_cols. rewrite bt_keys_of_list, map_map. exact Hin.
      - intros n c f Hin. destruct (Hadd n c f Hin) as (Hok' & _).
        unfold inline_ok in Hok'. rewrite !andb_true_iff in Hok'.
        destruct Hok' as [[[[[[O1 O2] O3] O4] O5] O6] O7].
        split; [|split; [|split]].
        + repeat split; [now apply is_none_eq|now apply nodup_str_NoDup'|now apply nodup_str_NoDup'|exact O4].
        + rewrite forallb_forall in O5. intros col Hc. apply (keys_free_b_spec col c (O5 col Hc)). now left.
        + intros n' c' f' Hin' Hne. destruct (Hadd n' c' f' Hin') as (_ & Hc'tn & _).
          rewrite forallb_forall in O6. specialize (O6 c' Hc'tn).
          apply orb_true_iff in O6. destruct O6 as [O6|O6]; [apply String.eqb_eq in O6; contradiction|].
          now apply keys_free_b_spec.
        + rewrite forallb_forall in O7. intros k Hk. apply contains_constraint_true. now apply O7.
      - apply (Permutation_NoDup (l := deleted_names G)).
        + unfold deleted_names. apply Permutation_flat_map, Permutation_sym, HP.
        + unfold G. rewrite deleted_names_group. apply tg_deleted_nodup.
      - intros x Hx. apply HdL in Hx. destruct (Hdel x Hx) as (X & X1 & X2 & X3 & X4 & _).
        exists X. split; [exact X1|]. split; [exact X2|]. split; [exact X3|]. split.
        + intros col Hc. apply X4. apply in_or_app. now left.
        + intros n c f Hc. destruct (Hadd0 n c f (proj1 (HL _) Hc)) as [Hct Hcn].
          apply X4; [apply in_or_app; now right|]. intro E. apply Hcn. rewrite E, <- X2.
          unfold colnames. now apply in_map.
      - intros x k Hx Hk. apply HdL in Hx. destruct (Hdel x Hx) as (X & X1 & X2 & _ & _ & X5).
        destruct (X5 k Hk) as [H|(D1 & D2 & D3 & D4)]; [now left|]. right.
        split; [exact D1|]. split; [exact D2|]. split; [exact D3|]. split.
        + intros n Hn col Hc. apply (D4 n Hn). apply in_or_app. now left.
        + intros n c f Hc n0 Hn0 col [<-|[]] Hne. destruct (Hadd0 n c f (proj1 (HL _) Hc)) as [Hct _].
          apply (D4 n0 Hn0); [apply in_or_app; now right|exact Hne].
      - intros n k Hin. apply HL, addc_in_group in Hin. exact Hin.
      - intros n k Hin. apply HL in Hin. pose proof (Hch _ Hin) as Hs. cbn [is_mix_action] in Hs.
        apply andb_prop in Hs. destruct Hs as [Hs1 Hs2]. rewrite forallb_forall in Hs2.
        split; [|split; [|split]].
        + pose proof (table_group_on _ _ _ _ Hin) as E. cbn [act_table] in E. now inversion E.
        + apply rem_in_group in Hin. destruct Hin as [_ Hc]. intro Hk.
          rewrite (contains_constraint_in _ _ Hk) in Hc. discriminate.
        + apply orb_true_iff in Hs1. destruct Hs1 as [Hs1|Hs1].
          * left. destruct k; try discriminate; reflexivity.
          * right. rewrite forallb_forall in Hs1. exact Hs1.
        + intros n' c f Hc. destruct (Hadd n' c f Hc) as (_ & Hctn & _ & Hm).
          apply Hs2. apply filter_In. split; [exact Hctn|].
          apply negb_true_iff, mem_str_false. intro Hcn. apply bt_mem_false in Hm. apply Hm.
          unfold tg_cols. rewrite bt_keys_of_list, map_map. exact Hcn. }
    assert (Hup : inv_up (t_constraints tn) b L).
    { intros k Hk. destruct (contains_constraint k (t_constraints tn)) eqn:E; [left; now apply contains_constraint_true|].
      right. destruct (existsb (fun x => mentions x k) (tg_deleted b tn)) eqn:Em.
      - right. apply existsb_exists in Em. destruct Em as [x [Hx Hm]]. exists x. split; [|exact Hm].
        apply in_deleted_names. exists (t_name b). apply HL. now apply group_dels.
      - left. exists (t_name b). apply HL, group_rems; [exact Hk|exact E|].
        intros x Hx. destruct (mentions x k) eqn:Emx; [|reflexivity].
        assert (Ex : existsb (fun x => mentions x k) (tg_deleted b tn) = true)
          by (apply existsb_exists; exists x; auto). congruence. }
    assert (Hdown : inv_down (t_constraints tn) b L).
    { intros tc Htc. destruct (contains_constraint tc (t_constraints b)) eqn:E; [left; now apply contains_constraint_true|].
      right. exists (t_name b). apply HL. now apply group_addc. }
    destruct (proj_all_mix (t_name b) (t_constraints tn) allowed Hok Htcs L b Hv Hnb Hfix Hincl Hup Hdown)
      as (P1 & P2 & P3 & P4 & P5 & P6).
    exists (sem4 L b). split; [exact P1|split; [exact P3|split; [exact P2|]]].
    assert (Hadd_tc : forall n c f, In (AddColumn n c f) L ->
              bt_get (c_name c) (tg_cols tn) = Some c /\ bt_mem (c_name c) (tg_cols b) = false).
    { intros n c f Hin. destruct (Hadd n c f Hin). tauto. }
    assert (Hdel_fc : forall n x, In (DeleteColumn n x) L ->
              (exists c, bt_get x (tg_cols b) = Some c) /\ bt_mem x (tg_cols tn) = false).
    { intros n x Hin. apply HL, del_in_group in Hin. destruct Hin as [_ Hin].
      apply tg_deleted_in in Hin. destruct Hin as [c [H1 H2]]. eauto. }
    assert (Hnoadd : forall k, bt_mem k (tg_cols b) = true \/ bt_get k (tg_cols tn) = None ->
              forall a, In a L -> adds_named k a = false).
    { intros k Hk a Ha. destruct (adds_named k a) eqn:Ea; [|reflexivity]. exfalso.
      destruct a; try discriminate. cbn [adds_named] in Ea. apply String.eqb_eq in Ea.
      destruct (Hadd_tc _ _ _ Ha) as [H1 H2]. rewrite <- Ea in H1, H2. destruct Hk as [Hk|Hk]; congruence. }
    assert (Hnodel : forall k, bt_get k (tg_cols b) = None \/ bt_mem k (tg_cols tn) = true ->
              forall a, In a L -> deletes_named k a = false).
    { intros k Hk a Ha. destruct (deletes_named k a) eqn:Ea; [|reflexivity]. exfalso.
      destruct a; try discriminate. cbn [deletes_named] in Ea. apply String.eqb_eq in Ea.
      destruct (Hdel_fc _ _ Ha) as [[c H1] H2]. rewrite <- Ea in H1, H2. destruct Hk as [Hk|Hk]; congruence. }
    split; [|split; [exact P4|exact P5]].
    intro k. rewrite (P6 k), !col_named_tg.
    destruct (bt_get k (tg_cols b)) as [c|] eqn:Ec, (bt_get k (tg_cols tn)) as [td|] eqn:Et.
    + assert (Hmb : bt_mem k (tg_cols b) = true) by (unfold bt_mem; now rewrite Ec).
      assert (Hmt : bt_mem k (tg_cols tn) = true) by (unfold bt_mem; now rewrite Et).
      rewrite (cfold3_common k L c).
      2:{ intros a Ha. split; [apply (Hnoadd k); auto|apply (Hnodel k); auto]. }
      cbn [opt_rel]. apply (col_equiv_attr_eq _ (upd L c)).
      { apply attr_eq_upd. repeat split. }
      apply (upd_col_equiv (t_name b) b tn L HL k c td Ec Et).
      apply Hdef. now apply (tg_cols_get k td tn).
    + assert (Hmt : bt_mem k (tg_cols tn) = false) by (unfold bt_mem; now rewrite Et).
      rewrite (cfold3_deleted k L (Some c)); [exact I| |].
      * exists (t_name b). apply HL, group_dels, tg_deleted_in. eauto.
      * apply (Hnoadd k). now right.
    + assert (Hm : bt_mem k (tg_cols b) = false) by (unfold bt_mem; now rewrite Ec).
      destruct (tg_cols_get k td tn Et) as [_ Hk].
      rewrite (cfold3_added k td Hk L HkL).
      * cbn [opt_rel]. apply col_equiv_refl.
      * exists (t_name b), None. apply HL. now apply (group_adds _ _ _ k).
      * intros n c' f Hin Hc'. destruct (Hadd_tc _ _ _ Hin) as [Hg' _].
        rewrite Hc', Et in Hg'. now inversion Hg'.
      * intros a Ha Hattr E. apply HL in Ha.
        pose proof (attr_in_group_col _ _ _ _ Ha Hattr) as Hin. rewrite E in Hin.
        apply bt_mem_false in Hm. apply Hm. unfold tg_cols. rewrite bt_keys_of_list, map_map. exact Hin.
      * apply (Hnodel k). now left.
      * intros n kk Hr. apply (clr_safe_id (t_name b)).
        destruct (y_rem _ _ _ _ _ Hv n kk Hr) as (_ & _ & _ & R4).
        apply (R4 (t_name b) td None). apply HL. now apply (group_adds _ _ _ k).
    + rewrite (cfold3_none k L); [exact I|]. apply (Hnoadd k). now right.
Qed.
