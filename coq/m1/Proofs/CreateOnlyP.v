(* C06 on the honest sub-class "empty baseline": the plan that creates a loader-accepted, FK-acyclic
   target from scratch consists of CreateTable actions in FK order, and every prefix of it is a
   consistent schema (C06_core_partial). *)
From VV.M1 Require Import Diff Validate Revision Oracles BtP NormalizeP SortKeyP KahnP.
From Coq Require Import Lia Permutation Sorted.

(* ---------- generic helpers ---------- *)
Lemma map_result_forall2 {A B E} (f : A -> result B E) : forall l ns,
  map_result f l = Ok ns <-> Forall2 (fun x y => f x = Ok y) l ns.
Proof.
  induction l as [|x r IH]; intros ns; cbn [map_result].
  - split; intro H; [inversion H; constructor | inversion H; reflexivity].
  - split; intro H.
    + destruct (f x) as [y|e] eqn:Ex; [|discriminate].
      destruct (map_result f r) as [ys|e] eqn:Er; [|discriminate]. inversion H; subst.
      constructor; [exact Ex|]. now apply IH.
    + inversion H as [|? y ? ys Hx Hr]; subst. rewrite Hx. apply IH in Hr. now rewrite Hr.
Qed.

Lemma forall2_impl {A B} (P Q : A -> B -> Prop) : (forall a b, P a b -> Q a b) ->
  forall l l', Forall2 P l l' -> Forall2 Q l l'.
Proof. intros H l l' F. induction F; constructor; auto. Qed.

Lemma first_err_ok {A} (f : A -> vres) : forall l u, first_err f l = Ok u ->
  forall x, In x l -> exists u', f x = Ok u'.
Proof.
  induction l as [|y r IH]; intros u H x Hx; [destruct Hx|]. cbn [first_err] in H.
  destruct (f y) as [u1|e] eqn:Ey; [|discriminate].
  destruct Hx as [<-|Hx]; [eauto | eapply IH; eauto].
Qed.

Lemma vseq_ok a b u : vseq a b = Ok u -> (exists u', a = Ok u') /\ b = Ok u.
Proof. unfold vseq. destruct a; [eauto|discriminate]. Qed.

Lemma first_dup_none : forall l seen, first_dup_str seen l = None ->
  NoDup l /\ forall x, In x l -> ~ In x seen.
Proof.
  induction l as [|x r IH]; intros seen H; [split; [constructor|intros x []]|].
  cbn [first_dup_str] in H. destruct (mem_str x seen) eqn:Em; [discriminate|].
  apply mem_str_false in Em. destruct (IH _ H) as [N F]. split.
  - constructor; [|exact N]. intro Hin. apply (F x Hin). now left.
  - intros y [<-|Hy]; [exact Em|]. intro Hs. apply (F y Hy). now right.
Qed.

Lemma nodup_str_spec l : nodup_str l = true <-> NoDup l.
Proof.
  induction l as [|x r IH]; cbn [nodup_str]; [split; [constructor|reflexivity]|].
  rewrite Bool.andb_true_iff, Bool.negb_true_iff, mem_str_false, IH. split.
  - intros [H1 H2]. now constructor.
  - intro H. inversion H; subst. auto.
Qed.

Lemma first_err_mem (mk : string -> validate_error) tcols : forall cols u,
  first_err (fun c => if mem_str c tcols then vok else Err (mk c)) cols = Ok u ->
  forallb (fun c => mem_str c tcols) cols = true.
Proof.
  induction cols as [|c r IH]; intros u H; [reflexivity|]. cbn [first_err forallb] in *.
  destruct (mem_str c tcols); [|discriminate]. cbn [vok] in H. cbn [andb]. eapply IH; eauto.
Qed.

(* ---------- what validate_schema guarantees about one constraint ---------- *)
Definition constraint_valid (tcols : list string) (tmap : list (string * list string)) (k : table_constraint) : Prop :=
  forallb (fun c => mem_str c tcols) (constraint_columns k) = true /\
  match k with
  | CForeignKey _ cols rt rcols _ _ =>
      exists e, find (fun kv : string * list string => String.eqb (fst kv) rt) tmap = Some e /\
                forallb (fun rc => mem_str rc (snd e)) rcols = true /\
                List.length cols = List.length rcols /\ nonempty cols = true
  | _ => True
  end.

Lemma validate_constraint_ok tn tcols tmap k u :
  validate_constraint tn tcols tmap k = Ok u -> constraint_valid tcols tmap k.
Proof.
  unfold validate_constraint, constraint_valid. intro H.
  destruct k as [ai cols|nm cols|nm cols rt rcols od ou|nm ex|nm cols]; cbn [constraint_columns].
  - destruct cols; [discriminate|]. split; [eapply first_err_mem; eauto|exact I].
  - destruct cols; [discriminate|]. split; [eapply first_err_mem; eauto|exact I].
  - destruct cols as [|c0 cr]; [discriminate|]. destruct rcols as [|r0 rr]; [discriminate|].
    destruct (find _ tmap) as [[rt' rtcols]|] eqn:Ef; [|discriminate].
    apply vseq_ok in H. destruct H as [[u1 H1] H]. apply vseq_ok in H. destruct H as [[u2 H2] H3].
    split; [eapply first_err_mem; eauto|]. exists (rt', rtcols). split; [reflexivity|]. cbn [snd].
    split; [eapply first_err_mem; eauto|]. split; [|reflexivity].
    destruct (Nat.eqb _ _) eqn:El; [|discriminate]. now apply PeanoNat.Nat.eqb_eq in El.
  - split; [reflexivity|exact I].
  - destruct cols; [discriminate|]. split; [eapply first_err_mem; eauto|exact I].
Qed.

Lemma validate_table_ok tmap t u : validate_table tmap t = Ok u ->
  forall k, In k (t_constraints t) -> constraint_valid (colnames t) tmap k.
Proof.
  unfold validate_table. intros H k Hk. destruct (negb _); [discriminate|].
  apply vseq_ok in H. destruct H as [_ H]. apply vseq_ok in H. destruct H as [_ H].
  apply vseq_ok in H. destruct H as [_ H].
  destruct (first_err_ok _ _ _ H k Hk) as [u' Hu]. eapply validate_constraint_ok; eauto.
Qed.

Definition schema_valid (ns : list table_def) : Prop :=
  NoDup (map t_name ns) /\
  forall t k, In t ns -> In k (t_constraints t) ->
    constraint_valid (colnames t) (map (fun t => (t_name t, colnames t)) ns) k.

Lemma validate_schema_ok ns u : validate_schema ns = Ok u -> schema_valid ns.
Proof.
  unfold validate_schema, schema_valid. intro H.
  destruct (first_dup_str [] (map t_name ns)) eqn:Ed; [discriminate|].
  split; [exact (proj1 (first_dup_none _ _ Ed))|]. intros t k Ht Hk.
  destruct (first_err_ok _ _ _ H t Ht) as [u' Hu]. eapply validate_table_ok; eauto.
Qed.

Lemma loader_accepts_ok T : loader_accepts T = true -> T <> [] ->
  exists ns, Forall2 (fun o n => normalize o = Ok n) T ns /\ normalize_all T = Ok ns /\ schema_valid ns.
Proof.
  unfold loader_accepts, loader_check. intros H Hne. destruct T as [|t0 tr]; [congruence|].
  destruct (map_result _ (t0 :: tr)) as [ns|e] eqn:Em; [|discriminate].
  destruct (validate_schema ns) as [u|e] eqn:Ev; [|discriminate].
  exists ns. apply map_result_forall2 in Em.
  assert (F : Forall2 (fun o n => normalize o = Ok n) (t0 :: tr) ns).
  { eapply forall2_impl; [|exact Em]. intros o n Hn. cbv beta in Hn.
    destruct (normalize o); [now inversion Hn|discriminate]. }
  split; [exact F|]. split; [|eapply validate_schema_ok; eauto].
  unfold normalize_all. apply map_result_forall2. eapply forall2_impl; [|exact F].
  intros o n Hn. cbv beta in Hn. now rewrite Hn.
Qed.

(* ---------- a list of CreateTable actions passes through every re-ordering and filling pass ---------- *)
Definition all_create (l : list action) : Prop := forall a, In a l -> is_create a = true.

Lemma all_create_cons a l : all_create (a :: l) -> is_create a = true /\ all_create l.
Proof. intro H. split; [apply H; now left | intros b Hb; apply H; now right]. Qed.

Lemma sort_delete_tables_id acts all : all_create acts -> sort_delete_tables acts all = acts.
Proof.
  intro H. unfold sort_delete_tables. rewrite filter_app_nil; [reflexivity|].
  intros a Ha. specialize (H a Ha). destruct a; try discriminate; reflexivity.
Qed.

Lemma sort_by_key_const {A} (key : A -> nat) k l : (forall x, In x l -> key x = k) -> sort_by_key key l = l.
Proof.
  intro H.
  assert (F : forall l', (forall x, In x l' -> key x = k) -> filter (fun y => Nat.eqb (key y) k) l' = l').
  { induction l' as [|x r IH]; intro Hl; [reflexivity|]. cbn [filter].
    rewrite (Hl x (or_introl eq_refl)), PeanoNat.Nat.eqb_refl. f_equal. apply IH. intros; apply Hl; now right. }
  rewrite <- (F l H) at 2. rewrite <- (sort_by_key_stable key k l). symmetry. apply F.
  intros x Hx. apply H. eapply Permutation_in; [apply sort_by_key_perm|exact Hx].
Qed.

Lemma sort_create_id acts : all_create acts -> sort_create_before_add_constraint acts = acts.
Proof.
  intro H. unfold sort_create_before_add_constraint. destruct (created_tables acts) eqn:Ec; [reflexivity|].
  apply sort_by_key_const with (k := 0). intros a Ha. specialize (H a Ha).
  destruct a; try discriminate; reflexivity.
Qed.

Lemma collect_changes_creates : forall acts i tc dc, all_create acts -> collect_changes i acts tc dc = (tc, dc).
Proof.
  induction acts as [|a r IH]; intros i tc dc H; [reflexivity|].
  apply all_create_cons in H. destruct H as [Ha Hr]. cbn [collect_changes].
  destruct a; try discriminate. now apply IH.
Qed.

Lemma sort_enum_id acts fm : all_create acts -> sort_enum_default_dependencies acts fm = acts.
Proof.
  intro H. unfold sort_enum_default_dependencies, enum_swaps.
  rewrite collect_changes_creates by exact H. reflexivity.
Qed.

Lemma refuses_creates acts : all_create acts -> refuses acts = false.
Proof.
  intro H. unfold refuses. cbn zeta.
  induction acts as [|a r IH]; [reflexivity|]. apply all_create_cons in H. destruct H as [Ha Hr].
  cbn [existsb]. destruct a; try discriminate. cbn [orb]. cbn [flat_map app] in *. now apply IH.
Qed.

Lemma collect_fills_creates s : forall acts, all_create acts -> collect_fills acts s = [].
Proof.
  induction acts as [|a r IH]; intro H; [reflexivity|]. apply all_create_cons in H. destruct H as [Ha Hr].
  destruct a; try discriminate. cbn [collect_fills]. now apply IH.
Qed.

Lemma find_missing_enum_creates s : forall acts i, all_create acts -> find_missing_enum_fill_with_aux i acts s = [].
Proof.
  induction acts as [|a r IH]; intros i H; [reflexivity|]. apply all_create_cons in H. destruct H as [Ha Hr].
  destruct a; try discriminate. cbn [find_missing_enum_fill_with_aux]. now apply IH.
Qed.

Lemma apply_enum_fills_creates missing : forall acts i, all_create acts -> apply_enum_fills i acts missing = acts.
Proof.
  induction acts as [|a r IH]; intros i H; [reflexivity|]. apply all_create_cons in H. destruct H as [Ha Hr].
  destruct a; try discriminate. cbn [apply_enum_fills]. f_equal. now apply IH.
Qed.

Lemma default_as_fill_create s : forall acts, all_create acts -> map (default_as_fill s) acts = acts.
Proof.
  induction acts as [|a r IH]; intro H; [reflexivity|]. apply all_create_cons in H. destruct H as [Ha Hr].
  destruct a; try discriminate. cbn [map default_as_fill]. f_equal. now apply IH.
Qed.

Lemma filled_actions_creates acts s : all_create acts -> filled_actions (mkPlan "" None None 0 acts) s = acts.
Proof.
  intro H. unfold filled_actions, revision_fill. cbn [p_actions].
  rewrite (refuses_creates _ H), (collect_fills_creates _ _ H). cbn zeta. cbv iota.
  unfold find_missing_enum_fill_with. cbn [p_actions].
  rewrite (find_missing_enum_creates _ _ _ H), (apply_enum_fills_creates _ _ _ H). now apply default_as_fill_create.
Qed.

(* ---------- the plan from an empty baseline ---------- *)
Definition create_of (o : table_def) : action := CreateTable (t_name o) (t_columns o) (t_constraints o).

Lemma new_from_empty (tm : list (string * table_def)) :
  flat_map (fun kv : string * table_def => if bt_mem (fst kv) (@nil (string * table_def)) then [] else [snd kv]) tm
  = map snd tm.
Proof.
  rewrite flat_map_ext with (g := fun kv : string * table_def => [snd kv]); [|reflexivity].
  induction tm as [|kv r IH]; [reflexivity|]. cbn [flat_map map app]. now rewrite IH.
Qed.

Lemma updates_from_empty (tm : list (string * table_def)) :
  flat_map (fun kv : string * table_def =>
              match bt_get (fst kv) (@nil (string * table_def)) with
              | Some ft => table_group (fst kv) ft (snd kv) | None => [] end) tm = [].
Proof.
  rewrite flat_map_ext with (g := fun kv : string * table_def => @nil action); [|reflexivity].
  induction tm as [|kv r IH]; [reflexivity|]. cbn [flat_map app]. exact IH.
Qed.

Lemma diff_from_empty T ns acts : normalize_all T = Ok ns -> diff_actions [] T = Ok acts ->
  exists sorted,
    topo_sort (map snd (bt_of_list (map (fun t => (t_name t, t)) ns))) = TopoOk sorted /\
    acts = flat_map (fun t => match bt_get (t_name t) (bt_of_list (map (fun t => (t_name t, t)) T)) with
                              | Some o => [create_of o] | None => [] end) sorted.
Proof.
  intros EN H. unfold diff_actions in H.
  change (normalize_all []) with (@Ok (list table_def) diff_error []) in H. cbv iota beta in H.
  rewrite EN in H. cbn zeta in H.
  change (bt_of_list (map (fun t : table_def => (t_name t, t)) [])) with (@nil (string * table_def)) in H.
  rewrite new_from_empty, updates_from_empty in H. cbn [flat_map app] in H.
  destruct (topo_sort _) as [sorted| |] eqn:Et; try discriminate.
  exists sorted. split; [reflexivity|].
  set (creates := flat_map _ sorted) in *.
  assert (Hc : all_create creates).
  { intros a Ha. unfold creates in Ha. apply in_flat_map in Ha. destruct Ha as [t [_ Ha]].
    destruct (bt_get _ _); [destruct Ha as [<-|[]]; reflexivity | destruct Ha]. }
  rewrite (sort_delete_tables_id _ _ Hc), (sort_create_id _ Hc), (sort_enum_id _ _ Hc) in H.
  inversion H. reflexivity.
Qed.

(* ---------- stepwise consistency of a list of creations in FK order ---------- *)
Definition erase (t : table_def) : table_def := mkTable (t_name t) None (t_columns t) (t_constraints t).

Lemma normalize_erase o t : normalize o = Ok t ->
  normalize (mkTable (t_name o) None (t_columns o) (t_constraints o)) = Ok (erase t).
Proof.
  unfold normalize. cbn [t_name t_description t_columns t_constraints].
  destruct (normalize_constraints _ _); [|discriminate]. intro H. inversion H. reflexivity.
Qed.

Lemma nodup_split_unique {A} (x : A) : forall a b a' b',
  NoDup (a ++ x :: b) -> a ++ x :: b = a' ++ x :: b' -> a = a'.
Proof.
  induction a as [|y a IH]; intros b [|y' a'] b' N E; cbn [app] in *.
  - reflexivity.
  - exfalso. inversion E; subst. inversion N as [|? ? Hx _]; subst. apply Hx. apply in_or_app. right. now left.
  - exfalso. inversion E; subst. inversion N as [|? ? Hx _]; subst. apply Hx. apply in_or_app. right. now left.
  - inversion E; subst. inversion N; subst. f_equal. eapply IH; eauto.
Qed.

Lemma find_some_exists {A} (p : A -> bool) : forall l, (exists r, In r l /\ p r = true) -> exists r', find p l = Some r'.
Proof.
  induction l as [|x r IH]; intros [y [Hy Py]]; [destruct Hy|]. cbn [find].
  destruct (p x) eqn:Ex; [eauto|]. destruct Hy as [->|Hy]; [congruence|]. apply IH. eauto.
Qed.

Lemma fk_targets_in u n c rt rc od ou : In (CForeignKey n c rt rc od ou) (t_constraints u) -> In rt (fk_targets u).
Proof. intro H. unfold fk_targets. apply in_flat_map. eexists. split; [exact H|]. now left. Qed.

Lemma has_table_false n s : ~ In n (map t_name s) -> has_table n s = false.
Proof.
  intro H. unfold has_table. destruct (existsb _ s) eqn:E; [|reflexivity].
  apply existsb_exists in E. destruct E as [t [Ht Et]]. apply String.eqb_eq in Et. subst n.
  exfalso. apply H. now apply in_map.
Qed.

Lemma map_erase_names l : map t_name (map erase l) = map t_name l.
Proof. rewrite map_map. reflexivity. Qed.

Lemma forall2_names T ns : Forall2 (fun o n => normalize o = Ok n) T ns -> map t_name ns = map t_name T.
Proof.
  induction 1 as [|o n l l' Hn _ IH]; [reflexivity|]. cbn [map]. rewrite IH. f_equal.
  now destruct (normalize_lossless _ _ Hn).
Qed.
Lemma forall2_orig T ns : Forall2 (fun o n => normalize o = Ok n) T ns ->
  forall t, In t ns -> exists o, In o T /\ normalize o = Ok t.
Proof.
  induction 1 as [|o n l l' Hn _ IH]; intros t Ht; [destruct Ht|].
  destruct Ht as [<-|Ht]; [exists o; split; [now left|exact Hn]|].
  destruct (IH t Ht) as [o' [Ho' Hn']]. exists o'. split; [now right|exact Hn'].
Qed.

Section Fresh.
  Variables (T ns : list table_def).
  Hypothesis F : Forall2 (fun o n => normalize o = Ok n) T ns.
  Hypothesis SV : schema_valid ns.

  Lemma ns_names : map t_name ns = map t_name T.
  Proof. exact (forall2_names _ _ F). Qed.

  Lemma ns_orig t : In t ns -> exists o, In o T /\ normalize o = Ok t.
  Proof. exact (forall2_orig _ _ F t). Qed.

  Lemma ns_idem t : In t ns -> normalize t = Ok t.
  Proof. intro Ht. destruct (ns_orig t Ht) as [o [_ Hn]]. eapply normalize_idempotent; eauto. Qed.

  Lemma orig_lookup t : In t ns ->
    exists o, bt_get (t_name t) (bt_of_list (map (fun t => (t_name t, t)) T)) = Some o /\ normalize o = Ok t.
  Proof.
    intro Ht. destruct (ns_orig t Ht) as [o [Ho Hn]].
    assert (NT : NoDup (map t_name T)) by (rewrite <- ns_names; exact (proj1 SV)).
    assert (En : t_name t = t_name o) by now destruct (normalize_lossless _ _ Hn).
    destruct (tmap_get T NT (t_name t)) as [o' [Hg [Ho' En']]]; [rewrite En; now apply in_map|].
    exists o'. split; [exact Hg|]. assert (o' = o); [|now subst].
    apply (nodup_map_inj t_name T); auto. congruence.
  Qed.

  Lemma table_consistent_ok P u : incl P ns -> In u ns ->
    (forall rt, In rt (fk_targets u) -> In rt (map t_name P)) ->
    table_consistent (map erase P) (erase u) = true.
  Proof.
    intros HP Hu Hcl. unfold table_consistent.
    assert (En : normalize (erase u) = Ok (erase u)).
    { pose proof (ns_idem u Hu) as Hi. unfold normalize in *. cbn [erase t_name t_description t_columns t_constraints].
      destruct (normalize_constraints _ _); [|discriminate]. inversion Hi as [Hc]. unfold erase. now rewrite <- Hc at 2. }
    rewrite En. cbn [erase t_columns t_constraints]. apply forallb_forall. intros k Hk.
    destruct SV as [ND V]. destruct (V u k Hu Hk) as [Hcols Hfk].
    apply Bool.andb_true_iff. split; [exact Hcols|].
    destruct k as [| |nm cols rt rcols od ou| |]; try reflexivity.
    destruct Hfk as [e [He [Hr [Hl Hn]]]].
    assert (Hrt : In rt (map t_name P)) by (apply Hcl; eapply fk_targets_in; eauto).
    apply in_map_iff in Hrt. destruct Hrt as [r [Er Hr']].
    destruct (find_some_exists (fun x => String.eqb (t_name x) rt) (map erase P)) as [x Hx].
    { exists (erase r). split; [now apply in_map|]. cbn [erase t_name]. rewrite Er. apply String.eqb_refl. }
    rewrite Hx. apply find_some in Hx. destruct Hx as [Hx Ex]. apply String.eqb_eq in Ex.
    apply in_map_iff in Hx. destruct Hx as [r' [<- Hr'']]. cbn [erase t_name t_columns] in *.
    apply find_some in He. destruct He as [He Ee]. apply String.eqb_eq in Ee.
    apply in_map_iff in He. destruct He as [z [<- Hz]]. cbn [fst snd] in *.
    assert (z = r') by (apply (nodup_map_inj t_name ns); auto; congruence). subst z.
    unfold colnames in Hr. rewrite Hr, Hn. cbn [andb]. rewrite Bool.andb_true_r.
    now apply PeanoNat.Nat.eqb_eq.
  Qed.

  Definition mk_create (t : table_def) : list action :=
    match bt_get (t_name t) (bt_of_list (map (fun t => (t_name t, t)) T)) with
    | Some o => [create_of o] | None => [] end.

  Lemma stepwise_creates sorted :
    incl sorted ns -> NoDup (map t_name sorted) ->
    (forall pre u post, sorted = pre ++ u :: post -> forall rt, In rt (fk_targets u) -> rt <> t_name u ->
       In rt (map t_name pre)) ->
    forall todo done, sorted = done ++ todo ->
    stepwise_ok (map erase done) (flat_map mk_create todo) = true.
  Proof.
    intros Hin Hnd Hcl. induction todo as [|t r IH]; intros done Es; [reflexivity|].
    assert (Ht : In t ns) by (apply Hin; rewrite Es; apply in_or_app; right; now left).
    destruct (orig_lookup t Ht) as [o [Hg Hn]].
    cbn [flat_map]. unfold mk_create at 1. rewrite Hg. cbn [app stepwise_ok]. unfold create_of at 1 2.
    cbn [target_present andb apply_action].
    assert (En : t_name o = t_name t) by (symmetry; now destruct (normalize_lossless _ _ Hn)).
    assert (Hnd' : NoDup (map t_name (done ++ [t]) ++ map t_name r)).
    { rewrite <- map_app, <- app_assoc. cbn [app]. now rewrite <- Es. }
    assert (Hfresh : ~ In (t_name t) (map t_name done)).
    { rewrite Es, map_app in Hnd. cbn [map] in Hnd. apply NoDup_remove_2 in Hnd.
      intro H. apply Hnd. apply in_or_app. now left. }
    rewrite En, has_table_false by (now rewrite map_erase_names).
    rewrite <- En, (normalize_erase _ _ Hn).
    replace (map erase done ++ [erase t]) with (map erase (done ++ [t])) by (rewrite map_app; reflexivity).
    rewrite IH by (rewrite <- app_assoc; exact Es). rewrite Bool.andb_true_r.
    unfold consistent. apply Bool.andb_true_iff. split.
    - apply nodup_str_spec. rewrite map_erase_names. eapply nodup_app_l. exact Hnd'.
    - apply forallb_forall. intros x Hx. apply in_map_iff in Hx. destruct Hx as [u [<- Hu]].
      assert (Hsub : incl (done ++ [t]) ns).
      { intros y Hy. apply Hin. rewrite Es. apply in_app_or in Hy. apply in_or_app.
        destruct Hy as [Hy|[<-|[]]]; [now left|right; now left]. }
      apply table_consistent_ok; [exact Hsub | now apply Hsub |].
      intros rt Hrt. destruct (string_dec rt (t_name u)) as [->|Hne]; [now apply in_map|].
      apply in_split in Hu. destruct Hu as [p [q Epq]].
      assert (Esp : sorted = p ++ u :: (q ++ r)).
      { rewrite Es. replace (done ++ t :: r) with ((done ++ [t]) ++ r) by (rewrite <- app_assoc; reflexivity).
        rewrite Epq, <- app_assoc. reflexivity. }
      pose proof (Hcl _ _ _ Esp rt Hrt Hne) as Hp. rewrite Epq, map_app. apply in_or_app. now left.
  Qed.
End Fresh.

Lemma name_keyed_keys (m : list (string * table_def)) : name_keyed m -> map t_name (map snd m) = map fst m.
Proof.
  induction m as [|[k v] r IH]; intro H; [reflexivity|]. cbn [map fst snd].
  rewrite IH by (intros k' v' Hin; apply H; now right). f_equal. symmetry. apply H. now left.
Qed.

Lemma fk_targets_inv u rt : In rt (fk_targets u) ->
  exists n c rc od ou, In (CForeignKey n c rt rc od ou) (t_constraints u).
Proof.
  unfold fk_targets. intro H. apply in_flat_map in H. destruct H as [k [Hk H]].
  destruct k; try (destruct H; fail). destruct H as [<-|[]]. eauto 10.
Qed.

(* C06 for the sub-class "empty baseline" (a project's first migration): if the loader accepts the target
   and the planner does not refuse it (no FK cycle among its tables), then every prefix of the plan is a
   consistent schema and every action targets what it names.
   PARTIAL: what is missing for C06_full is every non-empty baseline (plans that also drop, alter or add
   to existing tables); two classes of such plans are refuted (D1, D2), see KahnP. The two classifier
   hypotheses are kept for uniformity with the intended C06_core; for an empty baseline they hold trivially. *)
Theorem C06_core_partial T :
  loader_accepts T = true ->
  known_drop_before_unreference [] T = false -> known_shrunk_constraint [] T = false ->
  (exists acts, diff_actions [] T = Ok acts) ->
  plan_stepwise_ok [] T = true.
Proof.
  intros HL _ _ [acts Hd].
  destruct T as [|t0 tr] eqn:ET; [reflexivity|]. rewrite <- ET in *. assert (Hne : T <> []) by (rewrite ET; discriminate).
  clear ET t0 tr.
  destruct (loader_accepts_ok T HL Hne) as [ns [F [EN SV]]].
  destruct (diff_from_empty T ns acts EN Hd) as [sorted [Et Ea]].
  unfold plan_stepwise_ok. rewrite Hd.
  set (tm := bt_of_list (map (fun t => (t_name t, t)) ns)) in *.
  assert (Hc : all_create acts).
  { rewrite Ea. intros a Ha. apply in_flat_map in Ha. destruct Ha as [t [_ Ha]].
    destruct (bt_get _ _); [destruct Ha as [<-|[]]; reflexivity | destruct Ha]. }
  rewrite (filled_actions_creates _ _ Hc), Ea.
  assert (Tn : map t_name (map snd tm) = map fst tm) by apply name_keyed_keys, name_keyed_of_list.
  assert (Tnd : NoDup (map t_name (map snd tm))) by (rewrite Tn; apply bt_sorted_nodup, bt_of_list_sorted).
  destruct (topo_sort_sound _ _ Tnd Et) as [P Ord].
  assert (Snd : NoDup (map t_name sorted)).
  { eapply Permutation_NoDup; [apply Permutation_sym, Permutation_map; exact P|exact Tnd]. }
  assert (Sin : incl sorted ns).
  { intros x Hx. apply (Permutation_in _ P) in Hx. apply in_map_iff in Hx. destruct Hx as [[k v] [<- Hkv]].
    apply bt_of_list_in, in_map_iff in Hkv. destruct Hkv as [t [E Ht]]. inversion E; subst. exact Ht. }
  change (flat_map _ sorted) with (flat_map (mk_create T) sorted).
  apply (stepwise_creates T ns F SV sorted Sin Snd) with (done := []); [|reflexivity].
  intros pre u post Es rt Hrt Hne'.
  assert (Hu : In u sorted) by (rewrite Es; apply in_or_app; right; now left).
  assert (Hrn : In rt (map t_name (map snd tm))).
  { rewrite Tn. unfold tm. rewrite bt_keys_of_list, keys_name_map.
    destruct (fk_targets_inv _ _ Hrt) as [n [c [rc [od [ou Hk]]]]].
    destruct (proj2 SV u _ (Sin u Hu) Hk) as [_ [e [He _]]].
    apply find_some in He. destruct He as [He Ee]. apply String.eqb_eq in Ee.
    apply in_map_iff in He. destruct He as [z [<- Hz]]. cbn [fst] in Ee. rewrite <- Ee. now apply in_map. }
  destruct (Ord u rt Hu Hrt Hne' Hrn) as [r [l1 [l2 [l3 [Er Es']]]]].
  assert (Epre : pre = l1 ++ r :: l2).
  { apply (nodup_split_unique u pre post (l1 ++ r :: l2) l3).
    - rewrite <- Es. eapply NoDup_map_inv. exact Snd.
    - rewrite <- Es, Es', <- app_assoc. reflexivity. }
  rewrite Epre, map_app. apply in_or_app. right. left. exact Er.
Qed.

(* the hypotheses are satisfiable: two new tables, one referencing the other, listed in the wrong order *)
Example C06_core_partial_nonvacuous :
  let T := [mkTable "post" None [w_pkcol "id"; w_fkcol "user_id" "user.id"] [];
            mkTable "user" None [w_pkcol "id"] []] in
  loader_accepts T = true /\ (exists acts, diff_actions [] T = Ok acts) /\ plan_stepwise_ok [] T = true.
Proof. cbn zeta. split; [|split; [eexists|]]; vm_compute; reflexivity. Qed.
