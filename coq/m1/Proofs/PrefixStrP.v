(* Prefixing every key with a fixed string is a strictly monotone injection for the bytewise string
   order: consequences for the sorted association lists (BTreeMap / BTreeSet models), membership
   tests, the stable insertion sort and the index-based swaps used by the planner model. *)
From VV.M1 Require Import Str.
From Coq Require Import Lia.

(* ---------- the order lemma ---------- *)
Lemma ascii_compare_refl (c : ascii) : Ascii.compare c c = Eq.
Proof. unfold Ascii.compare. apply N.compare_refl. Qed.

Lemma compare_prefix : forall p a b, String.compare (p +++ a) (p +++ b) = String.compare a b.
Proof.
  induction p as [|c p IH]; intros a b; cbn [String.append String.compare]; [reflexivity|].
  rewrite ascii_compare_refl. apply IH.
Qed.

Lemma append_inj : forall p a b, p +++ a = p +++ b -> a = b.
Proof.
  induction p as [|c p IH]; intros a b H; cbn [String.append] in H; [exact H|].
  injection H as H. now apply IH.
Qed.

Lemma string_compare_refl (s : string) : String.compare s s = Eq.
Proof. induction s as [|c s IH]; cbn [String.compare]; [reflexivity|]. now rewrite ascii_compare_refl. Qed.

Lemma eqb_prefix p a b : String.eqb (p +++ a) (p +++ b) = String.eqb a b.
Proof.
  destruct (String.eqb_spec a b) as [->|Hne]; [apply String.eqb_refl|].
  apply String.eqb_neq. intro H. apply Hne. eapply append_inj; exact H.
Qed.

(* ---------- generic list facts ---------- *)
Lemma flat_map_map {A B C} (f : A -> B) (g : B -> list C) (l : list A) :
  flat_map g (map f l) = flat_map (fun x => g (f x)) l.
Proof. induction l as [|x l IH]; cbn [map flat_map]; [reflexivity|]. now rewrite IH. Qed.

Lemma map_flat_map {A B C} (f : B -> C) (g : A -> list B) (l : list A) :
  map f (flat_map g l) = flat_map (fun x => map f (g x)) l.
Proof. induction l as [|x l IH]; cbn [map flat_map]; [reflexivity|]. now rewrite map_app, IH. Qed.

Lemma flat_map_ext_in {A B} (f g : A -> list B) (l : list A) :
  (forall x, In x l -> f x = g x) -> flat_map f l = flat_map g l.
Proof.
  induction l as [|x l IH]; intro H; cbn [flat_map]; [reflexivity|].
  rewrite (H x (or_introl eq_refl)). f_equal. apply IH. intros y Hy. apply H. now right.
Qed.

Lemma filter_map_comm {A B} (f : A -> B) (q : B -> bool) (l : list A) :
  filter q (map f l) = map f (filter (fun x => q (f x)) l).
Proof.
  induction l as [|x l IH]; cbn [map filter]; [reflexivity|].
  destruct (q (f x)); cbn [map]; now rewrite IH.
Qed.

Lemma existsb_map {A B} (f : A -> B) (q : B -> bool) (l : list A) :
  existsb q (map f l) = existsb (fun x => q (f x)) l.
Proof. induction l as [|x l IH]; cbn [map existsb]; [reflexivity|]. now rewrite IH. Qed.

Lemma forallb_map {A B} (f : A -> B) (q : B -> bool) (l : list A) :
  forallb q (map f l) = forallb (fun x => q (f x)) l.
Proof. induction l as [|x l IH]; cbn [map forallb]; [reflexivity|]. now rewrite IH. Qed.

Lemma existsb_ext_in {A} (f g : A -> bool) (l : list A) :
  (forall x, In x l -> f x = g x) -> existsb f l = existsb g l.
Proof.
  induction l as [|x l IH]; intro H; cbn [existsb]; [reflexivity|].
  rewrite (H x (or_introl eq_refl)). f_equal. apply IH. intros y Hy. apply H. now right.
Qed.

Lemma find_map {A B} (f : A -> B) (q : B -> bool) (l : list A) :
  find q (map f l) = option_map f (find (fun x => q (f x)) l).
Proof.
  induction l as [|x l IH]; cbn [map find]; [reflexivity|].
  destruct (q (f x)); [reflexivity | exact IH].
Qed.

(* ---------- mem_str ---------- *)
Lemma mem_str_prefix p s l : mem_str (p +++ s) (map (String.append p) l) = mem_str s l.
Proof.
  unfold mem_str. rewrite existsb_map. apply existsb_ext_in. intros x _. apply eqb_prefix.
Qed.

(* ---------- BTreeMap model ---------- *)
Definition kmap {V W} (p : string) (g : V -> W) (m : list (string * V)) : list (string * W) :=
  map (fun kv => (p +++ fst kv, g (snd kv))) m.

Lemma bt_insert_prefix {V W} p (g : V -> W) k v (m : list (string * V)) :
  bt_insert (p +++ k) (g v) (kmap p g m) = kmap p g (bt_insert k v m).
Proof.
  induction m as [|[k' v'] m IH]; [reflexivity|].
  cbn [kmap map bt_insert fst snd]. rewrite compare_prefix.
  destruct (String.compare k k'); cbn [map fst snd]; try reflexivity.
  f_equal. exact IH.
Qed.

Lemma bt_fold_prefix {V W} p (g : V -> W) (l : list (string * V)) : forall m,
  fold_left (fun m kv => bt_insert (fst kv) (snd kv) m) (kmap p g l) (kmap p g m)
  = kmap p g (fold_left (fun m kv => bt_insert (fst kv) (snd kv) m) l m).
Proof.
  induction l as [|[k v] l IH]; intro m; [reflexivity|].
  cbn [kmap map fold_left fst snd]. rewrite bt_insert_prefix. apply IH.
Qed.

Lemma bt_of_list_prefix {V W} p (g : V -> W) (l : list (string * V)) :
  bt_of_list (kmap p g l) = kmap p g (bt_of_list l).
Proof. unfold bt_of_list. exact (bt_fold_prefix p g l []). Qed.

Lemma bt_get_prefix {V W} p (g : V -> W) k (m : list (string * V)) :
  bt_get (p +++ k) (kmap p g m) = option_map g (bt_get k m).
Proof.
  induction m as [|[k' v'] m IH]; [reflexivity|].
  cbn [kmap map bt_get fst snd]. rewrite eqb_prefix.
  destruct (String.eqb k k'); [reflexivity | exact IH].
Qed.

Lemma bt_mem_prefix {V W} p (g : V -> W) k (m : list (string * V)) :
  bt_mem (p +++ k) (kmap p g m) = bt_mem k m.
Proof. unfold bt_mem. rewrite bt_get_prefix. now destruct (bt_get k m). Qed.

Lemma kmap_fst {V W} p (g : V -> W) (m : list (string * V)) :
  map fst (kmap p g m) = map (String.append p) (map fst m).
Proof. unfold kmap. rewrite !map_map. reflexivity. Qed.

Lemma kmap_length {V W} p (g : V -> W) (m : list (string * V)) : List.length (kmap p g m) = List.length m.
Proof. apply map_length. Qed.

(* BTreeSet model *)
Lemma bs_of_list_prefix p (l : list string) :
  bs_of_list (map (String.append p) l) = map (String.append p) (bs_of_list l).
Proof.
  unfold bs_of_list.
  replace (map (fun s => (s, tt)) (map (String.append p) l))
    with (kmap p (fun u : unit => u) (map (fun s => (s, tt)) l)).
  - rewrite bt_of_list_prefix, kmap_fst. reflexivity.
  - unfold kmap. rewrite !map_map. reflexivity.
Qed.

(* value-only change of a sorted map (keys fixed) *)
Definition vmap {V W} (g : V -> W) (m : list (string * V)) : list (string * W) :=
  map (fun kv => (fst kv, g (snd kv))) m.

Lemma bt_insert_vmap {V W} (g : V -> W) k v (m : list (string * V)) :
  bt_insert k (g v) (vmap g m) = vmap g (bt_insert k v m).
Proof.
  induction m as [|[k' v'] m IH]; [reflexivity|].
  cbn [vmap map bt_insert fst snd].
  destruct (String.compare k k'); cbn [map fst snd]; try reflexivity.
  f_equal. exact IH.
Qed.
Lemma bt_fold_vmap {V W} (g : V -> W) (l : list (string * V)) : forall m,
  fold_left (fun m kv => bt_insert (fst kv) (snd kv) m) (vmap g l) (vmap g m)
  = vmap g (fold_left (fun m kv => bt_insert (fst kv) (snd kv) m) l m).
Proof.
  induction l as [|[k v] l IH]; intro m; [reflexivity|].
  cbn [vmap map fold_left fst snd]. rewrite bt_insert_vmap. apply IH.
Qed.
Lemma bt_of_list_vmap {V W} (g : V -> W) (l : list (string * V)) :
  bt_of_list (vmap g l) = vmap g (bt_of_list l).
Proof. unfold bt_of_list. exact (bt_fold_vmap g l []). Qed.
Lemma bt_get_vmap {V W} (g : V -> W) k (m : list (string * V)) :
  bt_get k (vmap g m) = option_map g (bt_get k m).
Proof.
  induction m as [|[k' v'] m IH]; [reflexivity|].
  cbn [vmap map bt_get fst snd]. destruct (String.eqb k k'); [reflexivity | exact IH].
Qed.
Lemma bt_mem_vmap {V W} (g : V -> W) k (m : list (string * V)) : bt_mem k (vmap g m) = bt_mem k m.
Proof. unfold bt_mem. rewrite bt_get_vmap. now destruct (bt_get k m). Qed.

(* ---------- stable insertion sort ---------- *)
Lemma insert_le_in {A} (le : A -> A -> bool) x y (l : list A) :
  In y (insert_le le x l) -> y = x \/ In y l.
Proof.
  induction l as [|z l IH]; cbn [insert_le]; intro H.
  - destruct H as [<-|[]]. now left.
  - destruct (le x z).
    + destruct H as [<-|H]; [now left | now right].
    + destruct H as [<-|H]; [right; now left|]. destruct (IH H) as [->|H']; [now left | right; now right].
Qed.
Lemma sort_le_in {A} (le : A -> A -> bool) y (l : list A) : In y (sort_le le l) -> In y l.
Proof.
  induction l as [|x l IH]; cbn [sort_le fold_right]; intro H; [exact H|].
  apply insert_le_in in H. destruct H as [->|H]; [now left | right; now apply IH].
Qed.

Lemma insert_le_map {A B} (f : A -> B) (le : A -> A -> bool) (le' : B -> B -> bool) x (l : list A) :
  (forall y, In y l -> le' (f x) (f y) = le x y) ->
  insert_le le' (f x) (map f l) = map f (insert_le le x l).
Proof.
  induction l as [|z l IH]; intro H; [reflexivity|].
  cbn [map insert_le]. rewrite (H z (or_introl eq_refl)).
  destruct (le x z); cbn [map]; [reflexivity|]. f_equal. apply IH. intros y Hy. apply H. now right.
Qed.
Lemma sort_le_map {A B} (f : A -> B) (le : A -> A -> bool) (le' : B -> B -> bool) (l : list A) :
  (forall x y, In x l -> In y l -> le' (f x) (f y) = le x y) ->
  sort_le le' (map f l) = map f (sort_le le l).
Proof.
  induction l as [|x l IH]; intro H; [reflexivity|].
  cbn [map sort_le fold_right]. fold (sort_le le' (map f l)). fold (sort_le le l).
  rewrite IH by (intros a b Ha Hb; apply H; now right).
  apply insert_le_map. intros y Hy. apply H; [now left | right; eapply sort_le_in; exact Hy].
Qed.
Lemma sort_by_key_map {A B} (f : A -> B) (key : A -> nat) (key' : B -> nat) (l : list A) :
  (forall x, In x l -> key' (f x) = key x) ->
  sort_by_key key' (map f l) = map f (sort_by_key key l).
Proof.
  intro H. unfold sort_by_key. apply sort_le_map. intros x y Hx Hy. now rewrite (H x Hx), (H y Hy).
Qed.

(* ---------- index based updates ---------- *)
Lemma update_nth_map {A B} (f : A -> B) n x (l : list A) :
  update_nth n (f x) (map f l) = map f (update_nth n x l).
Proof.
  revert n. induction l as [|y l IH]; intro n; [now destruct n|].
  destruct n as [|n]; cbn [map update_nth]; [reflexivity|]. now rewrite IH.
Qed.
Lemma nth_error_map' {A B} (f : A -> B) n (l : list A) :
  nth_error (map f l) n = option_map f (nth_error l n).
Proof. apply nth_error_map. Qed.
Lemma swap_nth_map {A B} (f : A -> B) i j (l : list A) :
  swap_nth i j (map f l) = map f (swap_nth i j l).
Proof.
  unfold swap_nth. rewrite !nth_error_map'.
  destruct (nth_error l i) as [a|]; cbn [option_map]; [|reflexivity].
  destruct (nth_error l j) as [b|]; cbn [option_map]; [|reflexivity].
  now rewrite !update_nth_map.
Qed.
Lemma fold_swap_map {A B} (f : A -> B) (sw : list (nat * nat)) : forall l : list A,
  fold_left (fun l ij => swap_nth (fst ij) (snd ij) l) sw (map f l)
  = map f (fold_left (fun l ij => swap_nth (fst ij) (snd ij) l) sw l).
Proof.
  induction sw as [|ij sw IH]; intro l; [reflexivity|].
  cbn [fold_left]. rewrite swap_nth_map. apply IH.
Qed.

Lemma find_index_map {A B} (f : A -> B) (q : B -> bool) (l : list A) :
  find_index q (map f l) = find_index (fun x => q (f x)) l.
Proof.
  induction l as [|x l IH]; cbn [map find_index]; [reflexivity|].
  destruct (q (f x)); [reflexivity | now rewrite IH].
Qed.
Lemma find_index_ext {A} (q r : A -> bool) (l : list A) :
  (forall x, q x = r x) -> find_index q l = find_index r l.
Proof.
  intro H. induction l as [|x l IH]; cbn [find_index]; [reflexivity|]. now rewrite H, IH.
Qed.
