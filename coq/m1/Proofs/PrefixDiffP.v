(* C14, second half: diff_actions commutes with the literal renaming of every table
   (one equivariance lemma per stage of diff_actions). *)
From VV.M1 Require Import Oracles PrefixStrP PrefixP.
From Coq Require Import Lia.

Local Notation P p := (String.append p).

(* ---------- literal_constraint is injective ---------- *)
Lemma literal_constraint_inj p a b : literal_constraint p a = literal_constraint p b -> a = b.
Proof.
  destruct a, b; cbn [literal_constraint]; intro H; try discriminate H; try exact H.
  injection H as -> -> Ht -> -> ->. apply append_inj in Ht. now subst.
Qed.

Lemma constraint_eqb_literal p a b :
  constraint_eqb (literal_constraint p a) (literal_constraint p b) = constraint_eqb a b.
Proof.
  unfold constraint_eqb, dec_b.
  destruct (constraint_eq_dec a b) as [->|Hne].
  - destruct (constraint_eq_dec (literal_constraint p b) (literal_constraint p b)); congruence.
  - destruct (constraint_eq_dec (literal_constraint p a) (literal_constraint p b)) as [E|_]; [|reflexivity].
    apply literal_constraint_inj in E. contradiction.
Qed.

Lemma contains_constraint_literal p k ks :
  contains_constraint (literal_constraint p k) (map (literal_constraint p) ks) = contains_constraint k ks.
Proof.
  unfold contains_constraint. rewrite existsb_map. apply existsb_ext_in.
  intros x _. apply constraint_eqb_literal.
Qed.

(* ---------- stage: normalize_all ---------- *)
Lemma normalize_all_literal p s : no_dot p ->
  normalize_all (literal_schema p s)
  = match normalize_all s with Ok l => Ok (map (literal_table p) l) | Err e => Err e end.
Proof.
  intro Hp. unfold normalize_all, literal_schema.
  induction s as [|t r IH]; [reflexivity|].
  cbn [map map_result]. rewrite (normalize_literal_full p t Hp).
  destruct (normalize t) as [n|e]; [|reflexivity].
  rewrite IH. destruct (map_result _ r); reflexivity.
Qed.

(* ---------- stage: the name-keyed maps ---------- *)
Lemma table_map_literal p (l : list table_def) :
  bt_of_list (map (fun t => (t_name t, t)) (map (literal_table p) l))
  = kmap p (literal_table p) (bt_of_list (map (fun t => (t_name t, t)) l)).
Proof.
  rewrite <- bt_of_list_prefix. f_equal. unfold kmap. rewrite !map_map. reflexivity.
Qed.

Lemma flat_map_kmap {V W C} p (g : V -> W) (F : string * W -> list C) (m : list (string * V)) :
  flat_map F (kmap p g m) = flat_map (fun kv => F (p +++ fst kv, g (snd kv))) m.
Proof. unfold kmap. apply flat_map_map. Qed.

(* ---------- stage: deletes and new tables ---------- *)
Lemma deletes_literal p (fm tm : list (string * table_def)) :
  flat_map (fun kv => if bt_mem (fst kv) (kmap p (literal_table p) tm) then [] else [DeleteTable (fst kv)])
           (kmap p (literal_table p) fm)
  = map (literal_action p)
      (flat_map (fun kv => if bt_mem (fst kv) tm then [] else [DeleteTable (fst kv)]) fm).
Proof.
  rewrite flat_map_kmap, map_flat_map. apply flat_map_ext_in. intros kv _.
  cbn [fst snd]. rewrite bt_mem_prefix. destruct (bt_mem (fst kv) tm); reflexivity.
Qed.

Lemma new_tables_literal p (fm tm : list (string * table_def)) :
  flat_map (fun kv => if bt_mem (fst kv) (kmap p (literal_table p) fm) then [] else [snd kv])
           (kmap p (literal_table p) tm)
  = map (literal_table p)
      (flat_map (fun kv => if bt_mem (fst kv) fm then [] else [snd kv]) tm).
Proof.
  rewrite flat_map_kmap, map_flat_map. apply flat_map_ext_in. intros kv _.
  cbn [fst snd]. rewrite bt_mem_prefix. destruct (bt_mem (fst kv) fm); reflexivity.
Qed.

(* ---------- stage: table_group ---------- *)
Lemma col_map_literal p (cols : list column_def) :
  bt_of_list (map (fun c => (c_name c, c)) (map (literal_col p) cols))
  = vmap (literal_col p) (bt_of_list (map (fun c => (c_name c, c)) cols)).
Proof.
  rewrite <- bt_of_list_vmap. f_equal. unfold vmap. rewrite !map_map. reflexivity.
Qed.

Lemma deleted_literal p (fc tc : list (string * column_def)) :
  map fst (filter (fun kv => negb (bt_mem (fst kv) (vmap (literal_col p) tc))) (vmap (literal_col p) fc))
  = map fst (filter (fun kv => negb (bt_mem (fst kv) tc)) fc).
Proof.
  unfold vmap at 2. rewrite filter_map_comm, map_map. cbn [fst].
  f_equal. apply filter_ext. intro kv. now rewrite bt_mem_vmap.
Qed.

Ltac common_step fc :=
  unfold vmap at 2; rewrite flat_map_map, map_flat_map; apply flat_map_ext_in;
  let kv := fresh "kv" in let fd := fresh "fd" in
  intros kv _; cbn [fst snd]; rewrite bt_get_vmap;
  destruct (bt_get (fst kv) fc) as [fd|]; cbn [option_map]; [|reflexivity].

Lemma table_group_literal p name ft tt :
  table_group (p +++ name) (literal_table p ft) (literal_table p tt)
  = map (literal_action p) (table_group name ft tt).
Proof.
  unfold table_group.
  change (t_columns (literal_table p ft)) with (map (literal_col p) (t_columns ft)).
  change (t_columns (literal_table p tt)) with (map (literal_col p) (t_columns tt)).
  change (t_constraints (literal_table p ft)) with (map (literal_constraint p) (t_constraints ft)).
  change (t_constraints (literal_table p tt)) with (map (literal_constraint p) (t_constraints tt)).
  rewrite !col_map_literal.
  set (fc := bt_of_list (map (fun c => (c_name c, c)) (t_columns ft))).
  set (tc := bt_of_list (map (fun c => (c_name c, c)) (t_columns tt))).
  rewrite !deleted_literal.
  set (deleted := map fst (filter (fun kv => negb (bt_mem (fst kv) tc)) fc)).
  rewrite !map_app.
  repeat match goal with |- _ ++ _ = _ ++ _ => f_equal end.
  - rewrite map_map. reflexivity.
  - common_step fc. rewrite !lc_type. destruct (_ || _)%bool; reflexivity.
  - common_step fc. rewrite !lc_nullable. destruct (Bool.eqb _ _); reflexivity.
  - common_step fc. rewrite !lc_default. destruct (opt_str_eqb _ _); reflexivity.
  - common_step fc. rewrite !lc_comment. destruct (opt_str_eqb _ _); reflexivity.
  - unfold vmap at 2. rewrite flat_map_map, map_flat_map. apply flat_map_ext_in. intros kv _.
    cbn [fst snd]. rewrite bt_mem_vmap. destruct (bt_mem (fst kv) fc); reflexivity.
  - rewrite flat_map_map, map_flat_map. apply flat_map_ext_in. intros k _.
    rewrite contains_constraint_literal, lk_columns.
    destruct (contains_constraint k (t_constraints tt)); [reflexivity|].
    destruct (_ && _)%bool; reflexivity.
  - rewrite flat_map_map, map_flat_map. apply flat_map_ext_in. intros k _.
    rewrite contains_constraint_literal.
    destruct (contains_constraint k (t_constraints ft)); reflexivity.
Qed.

Lemma updates_literal p (fm tm : list (string * table_def)) :
  flat_map (fun kv => match bt_get (fst kv) (kmap p (literal_table p) fm) with
                      | Some ft => table_group (fst kv) ft (snd kv)
                      | None => []
                      end) (kmap p (literal_table p) tm)
  = map (literal_action p)
      (flat_map (fun kv => match bt_get (fst kv) fm with
                           | Some ft => table_group (fst kv) ft (snd kv)
                           | None => []
                           end) tm).
Proof.
  rewrite flat_map_kmap, map_flat_map. apply flat_map_ext_in. intros kv _.
  cbn [fst snd]. rewrite bt_get_prefix.
  destruct (bt_get (fst kv) fm); cbn [option_map]; [apply table_group_literal | reflexivity].
Qed.

(* ---------- stage: Kahn's algorithm ---------- *)
Definition ndeg (p : string) (deg : list (string * nat)) : list (string * nat) := kmap p (fun n : nat => n) deg.
Definition ndeps (p : string) (deps : deps_map) : deps_map := kmap p (map (P p)) deps.

Lemma kahn_relax_literal p x (deps : deps_map) : forall deg,
  kahn_relax (p +++ x) (ndeps p deps) (ndeg p deg)
  = (ndeg p (fst (kahn_relax x deps deg)), map (P p) (snd (kahn_relax x deps deg))).
Proof.
  induction deps as [|[dependent ds] r IH]; intro deg; [reflexivity|].
  unfold ndeps in *. cbn [kmap map fst snd kahn_relax]. fold (kmap p (map (P p)) r).
  rewrite mem_str_prefix. destruct (mem_str x ds); [|apply IH].
  unfold ndeg at 1. rewrite bt_get_prefix. destruct (bt_get dependent deg) as [d|]; cbn [option_map]; [|apply IH].
  change (bt_insert (p +++ dependent) (Nat.pred d) (ndeg p deg))
    with (bt_insert (p +++ dependent) ((fun n : nat => n) (Nat.pred d)) (kmap p (fun n : nat => n) deg)).
  rewrite bt_insert_prefix. fold (ndeg p (bt_insert dependent (Nat.pred d) deg)).
  rewrite IH. destruct (kahn_relax x r (bt_insert dependent (Nat.pred d) deg)) as [deg'' ready].
  cbn [fst snd]. destruct (Nat.eqb (Nat.pred d) 0); reflexivity.
Qed.

Lemma kahn_loop_literal p (deps : deps_map) : forall fuel deg queue acc,
  kahn_loop fuel (ndeps p deps) (ndeg p deg) (map (P p) queue) (map (P p) acc)
  = option_map (map (P p)) (kahn_loop fuel deps deg queue acc).
Proof.
  intros fuel deg queue. revert fuel deg.
  (* the queue grows, so recurse on the fuel *)
  intros fuel. revert queue. induction fuel as [|f IH]; intros queue deg acc.
  - destruct queue as [|x q]; cbn [map kahn_loop option_map]; [|reflexivity].
    now rewrite <- map_rev.
  - destruct queue as [|x q]; cbn [map kahn_loop option_map]; [now rewrite <- map_rev|].
    rewrite kahn_relax_literal. destruct (kahn_relax x deps deg) as [deg' ready]. cbn [fst snd].
    rewrite bs_of_list_prefix, <- map_app.
    exact (IH (q ++ bs_of_list ready) deg' (x :: acc)).
Qed.

Lemma kahn_literal p (deps : deps_map) : kahn (ndeps p deps) = option_map (map (P p)) (kahn deps).
Proof.
  unfold kahn.
  assert (Hdeg : map (fun kv => (fst kv, List.length (snd kv))) (ndeps p deps)
                 = ndeg p (map (fun kv => (fst kv, List.length (snd kv))) deps)).
  { unfold ndeps, ndeg, kmap. rewrite !map_map. apply map_ext. intro kv. cbn [fst snd]. now rewrite map_length. }
  rewrite Hdeg. set (deg := map (fun kv => (fst kv, List.length (snd kv))) deps).
  assert (Hq : map fst (filter (fun kv => Nat.eqb (snd kv) 0) (ndeg p deg))
               = map (P p) (map fst (filter (fun kv => Nat.eqb (snd kv) 0) deg))).
  { unfold ndeg, kmap. rewrite filter_map_comm, !map_map. reflexivity. }
  rewrite Hq. unfold ndeps at 1. rewrite kmap_length.
  exact (kahn_loop_literal p deps (S (List.length deps)) deg _ []).
Qed.

(* ---------- stage: topo_sort ---------- *)
Lemma fk_targets_literal p t : fk_targets (literal_table p t) = map (P p) (fk_targets t).
Proof.
  unfold fk_targets. change (t_constraints (literal_table p t)) with (map (literal_constraint p) (t_constraints t)).
  rewrite flat_map_map, map_flat_map. apply flat_map_ext_in. intros k _. now destruct k.
Qed.

Lemma dep_set_literal p names n targets :
  bs_of_list (filter (fun rt => (mem_str rt (map (P p) names) && negb (String.eqb rt (p +++ n)))%bool)
                     (map (P p) targets))
  = map (P p) (bs_of_list (filter (fun rt => (mem_str rt names && negb (String.eqb rt n))%bool) targets)).
Proof.
  rewrite filter_map_comm, bs_of_list_prefix. do 2 f_equal. apply filter_ext.
  intro rt. now rewrite mem_str_prefix, eqb_prefix.
Qed.

Definition lift_topo (p : string) (r : topo_result) : topo_result :=
  match r with TopoOk l => TopoOk (map (literal_table p) l) | other => other end.

Definition topo_body (tables : list table_def) : topo_result :=
  let names := map t_name tables in
  let deps : deps_map :=
    bt_of_list (map (fun t =>
      (t_name t, bs_of_list (filter (fun rt => (mem_str rt names && negb (String.eqb rt (t_name t)))%bool)
                                    (fk_targets t)))) tables) in
  let tmap := bt_of_list (map (fun t => (t_name t, t)) tables) in
  match kahn deps with
  | None => TopoOutOfFuel
  | Some order =>
      let res := flat_map (fun n => match bt_get n tmap with Some t => [t] | None => [] end) order in
      if Nat.eqb (List.length res) (List.length tables) then TopoOk res else TopoCycle
  end.

Lemma topo_sort_body tables :
  topo_sort tables = match tables with [] => TopoOk [] | _ => topo_body tables end.
Proof. destruct tables; reflexivity. Qed.

Lemma topo_body_literal p tables :
  topo_body (map (literal_table p) tables) = lift_topo p (topo_body tables).
Proof.
  unfold topo_body.
  assert (Hnames : map t_name (map (literal_table p) tables) = map (P p) (map t_name tables)).
  { rewrite !map_map. reflexivity. }
  rewrite Hnames.
  assert (Hdeps :
    bt_of_list (map (fun t => (t_name t,
        bs_of_list (filter (fun rt => (mem_str rt (map (P p) (map t_name tables)) && negb (String.eqb rt (t_name t)))%bool)
                           (fk_targets t)))) (map (literal_table p) tables))
    = ndeps p (bt_of_list (map (fun t => (t_name t,
        bs_of_list (filter (fun rt => (mem_str rt (map t_name tables) && negb (String.eqb rt (t_name t)))%bool)
                           (fk_targets t)))) tables))).
  { unfold ndeps. rewrite <- bt_of_list_prefix. f_equal. unfold kmap. rewrite !map_map.
    apply map_ext. intro t. cbn [fst snd]. rewrite fk_targets_literal.
    change (t_name (literal_table p t)) with (p +++ t_name t).
    rewrite <- (map_map t_name (P p) tables). now rewrite dep_set_literal. }
  rewrite Hdeps, table_map_literal, kahn_literal.
  destruct (kahn _) as [order|]; cbn [option_map lift_topo]; [|reflexivity].
  assert (Hres :
    flat_map (fun n => match bt_get n (kmap p (literal_table p) (bt_of_list (map (fun t => (t_name t, t)) tables))) with
                       | Some t => [t] | None => [] end) (map (P p) order)
    = map (literal_table p)
        (flat_map (fun n => match bt_get n (bt_of_list (map (fun t => (t_name t, t)) tables)) with
                            | Some t => [t] | None => [] end) order)).
  { rewrite flat_map_map, map_flat_map. apply flat_map_ext_in. intros n _. rewrite bt_get_prefix.
    destruct (bt_get n _); reflexivity. }
  rewrite Hres, !map_length.
  destruct (Nat.eqb _ _); reflexivity.
Qed.

Lemma topo_sort_literal p tables :
  topo_sort (map (literal_table p) tables) = lift_topo p (topo_sort tables).
Proof.
  rewrite !topo_sort_body. destruct tables as [|t0 r]; [reflexivity|].
  exact (topo_body_literal p (t0 :: r)).
Qed.

(* ---------- stage: creates ---------- *)
Lemma creates_literal p (to_orig : list (string * table_def)) sorted :
  flat_map (fun t => match bt_get (t_name t) (kmap p (literal_table p) to_orig) with
                     | Some o => [CreateTable (t_name o) (t_columns o) (t_constraints o)]
                     | None => []
                     end) (map (literal_table p) sorted)
  = map (literal_action p)
      (flat_map (fun t => match bt_get (t_name t) to_orig with
                          | Some o => [CreateTable (t_name o) (t_columns o) (t_constraints o)]
                          | None => []
                          end) sorted).
Proof.
  rewrite flat_map_map, map_flat_map. apply flat_map_ext_in. intros t _.
  change (t_name (literal_table p t)) with (p +++ t_name t). rewrite bt_get_prefix.
  destruct (bt_get (t_name t) to_orig); reflexivity.
Qed.

(* ---------- stage: sort_delete_tables ---------- *)
Lemma is_delete_literal p a : is_delete_table (literal_action p a) = is_delete_table a.
Proof. now destruct a. Qed.
Lemma delete_name_literal p a : is_delete_table a = true ->
  delete_name (literal_action p a) = p +++ delete_name a.
Proof. destruct a; cbn [is_delete_table]; intro H; try discriminate H. reflexivity. Qed.

Lemma put_back_literal p acts : forall sorted,
  put_back (map (literal_action p) acts) (map (literal_action p) sorted)
  = map (literal_action p) (put_back acts sorted).
Proof.
  induction acts as [|a r IH]; intro sorted; [reflexivity|].
  cbn [map put_back]. rewrite is_delete_literal. destruct (is_delete_table a).
  - destruct sorted as [|s ss]; cbn [map]; f_equal; [exact (IH []) | apply IH].
  - cbn [map]. f_equal. apply IH.
Qed.

Lemma sort_delete_tables_literal p acts (all : list (string * table_def)) :
  sort_delete_tables (map (literal_action p) acts) (kmap p (literal_table p) all)
  = map (literal_action p) (sort_delete_tables acts all).
Proof.
  unfold sort_delete_tables.
  assert (Hdels : filter is_delete_table (map (literal_action p) acts)
                  = map (literal_action p) (filter is_delete_table acts)).
  { rewrite filter_map_comm. f_equal. apply filter_ext. intro a. apply is_delete_literal. }
  rewrite Hdels. set (dels := filter is_delete_table acts). rewrite map_length.
  destruct (Nat.leb (List.length dels) 1); [reflexivity|].
  assert (Hdel_in : forall a, In a dels -> is_delete_table a = true).
  { intros a Ha. unfold dels in Ha. apply filter_In in Ha. tauto. }
  assert (Hnames : bs_of_list (map delete_name (map (literal_action p) dels))
                   = map (P p) (bs_of_list (map delete_name dels))).
  { rewrite <- bs_of_list_prefix. f_equal. rewrite !map_map. apply map_ext_in.
    intros a Ha. apply delete_name_literal. now apply Hdel_in. }
  rewrite Hnames. set (dnames := bs_of_list (map delete_name dels)).
  assert (Hdeps :
    map (fun n => (n, match bt_get n (kmap p (literal_table p) all) with
                      | Some td => bs_of_list (filter (fun rt => (mem_str rt (map (P p) dnames) && negb (String.eqb rt n))%bool)
                                                      (fk_targets td))
                      | None => []
                      end)) (map (P p) dnames)
    = ndeps p (map (fun n => (n, match bt_get n all with
                      | Some td => bs_of_list (filter (fun rt => (mem_str rt dnames && negb (String.eqb rt n))%bool)
                                                      (fk_targets td))
                      | None => []
                      end)) dnames)).
  { unfold ndeps. set (K := kmap p (literal_table p) all). unfold kmap. rewrite !map_map. subst K.
    apply map_ext. intro n. cbn [fst snd].
    rewrite bt_get_prefix. destruct (bt_get n all) as [td|]; cbn [option_map]; [|reflexivity].
    now rewrite fk_targets_literal, dep_set_literal. }
  rewrite Hdeps, kahn_literal.
  destruct (kahn _) as [order|]; cbn [option_map]; [|reflexivity].
  rewrite <- map_rev. rewrite <- put_back_literal. f_equal.
  apply sort_by_key_map. intros a Ha.
  rewrite (delete_name_literal p a (Hdel_in a Ha)), find_index_map.
  rewrite (find_index_ext _ (String.eqb (delete_name a))); [reflexivity|].
  intro x. apply eqb_prefix.
Qed.

(* ---------- stage: sort_create_before_add_constraint ---------- *)
Lemma created_tables_literal p acts :
  created_tables (map (literal_action p) acts) = map (P p) (created_tables acts).
Proof.
  unfold created_tables. rewrite flat_map_map, map_flat_map. apply flat_map_ext_in.
  intros a _. now destruct a.
Qed.
Lemma create_rank_literal p created a :
  create_rank (map (P p) created) (literal_action p a) = create_rank created a.
Proof.
  destruct a; try reflexivity. cbn [literal_action create_rank].
  destruct constraint; try reflexivity. cbn [literal_constraint]. now rewrite mem_str_prefix.
Qed.
Lemma sort_create_literal p acts :
  sort_create_before_add_constraint (map (literal_action p) acts)
  = map (literal_action p) (sort_create_before_add_constraint acts).
Proof.
  unfold sort_create_before_add_constraint. rewrite created_tables_literal.
  destruct (created_tables acts) as [|c cs] eqn:E; [reflexivity|].
  cbn [map]. change ((p +++ c) :: map (P p) cs) with (map (P p) (c :: cs)).
  apply sort_by_key_map. intros a _. apply create_rank_literal.
Qed.

(* ---------- stage: sort_enum_default_dependencies ---------- *)
Definition pkmap {V} (p : string) (m : list ((string * string) * V)) : list ((string * string) * V) :=
  map (fun kv => ((p +++ fst (fst kv), snd (fst kv)), snd kv)) m.

Lemma pair_cmp_prefix p t c t' c' : pair_cmp (p +++ t, c) (p +++ t', c') = pair_cmp (t, c) (t', c').
Proof. unfold pair_cmp. cbn [fst snd]. now rewrite compare_prefix. Qed.

Lemma pm_insert_prefix {V} p t c (v : V) m :
  pm_insert (p +++ t, c) v (pkmap p m) = pkmap p (pm_insert (t, c) v m).
Proof.
  induction m as [|[[t' c'] v'] m IH]; [reflexivity|].
  cbn [pkmap map pm_insert fst snd]. rewrite pair_cmp_prefix.
  destruct (pair_cmp (t, c) (t', c')); cbn [map fst snd]; try reflexivity.
  f_equal. exact IH.
Qed.
Lemma pm_get_prefix {V} p t c (m : list ((string * string) * V)) :
  pm_get (p +++ t, c) (pkmap p m) = pm_get (t, c) m.
Proof.
  induction m as [|[[t' c'] v'] m IH]; [reflexivity|].
  cbn [pkmap map pm_get fst snd]. rewrite pair_cmp_prefix.
  destruct (pair_cmp (t, c) (t', c')); try reflexivity; exact IH.
Qed.

Lemma collect_changes_literal p acts : forall i tc dc,
  collect_changes i (map (literal_action p) acts) (pkmap p tc) (pkmap p dc)
  = (pkmap p (fst (collect_changes i acts tc dc)), pkmap p (snd (collect_changes i acts tc dc))).
Proof.
  induction acts as [|a r IH]; intros i tc dc; [reflexivity|].
  destruct a; cbn [map literal_action collect_changes]; try apply IH.
  - rewrite pm_insert_prefix. apply IH.
  - rewrite pm_insert_prefix. apply IH.
Qed.

Lemma find_column_literal p n t :
  find_column n (literal_table p t) = option_map (literal_col p) (find_column n t).
Proof.
  unfold find_column. change (t_columns (literal_table p t)) with (map (literal_col p) (t_columns t)).
  now rewrite find_map.
Qed.

Lemma flat_map_pkmap {V C} p (F : (string * string) * V -> list C) (m : list ((string * string) * V)) :
  flat_map F (pkmap p m) = flat_map (fun kv => F ((p +++ fst (fst kv), snd (fst kv)), snd kv)) m.
Proof. unfold pkmap. apply flat_map_map. Qed.

Lemma enum_swaps_literal p acts (fm : list (string * table_def)) :
  enum_swaps (map (literal_action p) acts) (kmap p (literal_table p) fm) = enum_swaps acts fm.
Proof.
  unfold enum_swaps.
  change (@nil ((string * string) * (nat * column_type))) with (pkmap p (@nil ((string * string) * (nat * column_type)))) at 1.
  change (@nil ((string * string) * nat)) with (pkmap p (@nil ((string * string) * nat))) at 1.
  rewrite collect_changes_literal.
  destruct (collect_changes 0 acts [] []) as [tc dc]. cbn [fst snd].
  rewrite flat_map_pkmap. apply flat_map_ext_in.
  intros [[table column] [type_idx new_type]] _. cbn [fst snd].
  rewrite pm_get_prefix. destruct (pm_get (table, column) dc) as [default_idx|]; [|reflexivity].
  rewrite bt_get_prefix. destruct (bt_get table fm) as [ft|]; cbn [option_map]; [|reflexivity].
  rewrite find_column_literal. destruct (find_column column ft) as [fc|]; cbn [option_map]; reflexivity.
Qed.

Lemma sort_enum_literal p acts (fm : list (string * table_def)) :
  sort_enum_default_dependencies (map (literal_action p) acts) (kmap p (literal_table p) fm)
  = map (literal_action p) (sort_enum_default_dependencies acts fm).
Proof. unfold sort_enum_default_dependencies. rewrite enum_swaps_literal. apply fold_swap_map. Qed.

(* ---------- the main theorem ---------- *)
Theorem diff_equivariant : forall p A B, no_dot p ->
  diff_actions (literal_schema p A) (literal_schema p B)
  = match diff_actions A B with
    | Ok acts => Ok (map (literal_action p) acts)
    | Err e => Err e
    end.
Proof.
  intros p A B Hp. unfold diff_actions.
  rewrite (normalize_all_literal p A Hp), (normalize_all_literal p B Hp).
  destruct (normalize_all A) as [from_n|e]; [|reflexivity].
  destruct (normalize_all B) as [to_n|e]; [|reflexivity].
  unfold literal_schema at 1. rewrite !table_map_literal.
  set (from_map := bt_of_list (map (fun t => (t_name t, t)) from_n)).
  set (to_map := bt_of_list (map (fun t => (t_name t, t)) to_n)).
  set (to_orig := bt_of_list (map (fun t => (t_name t, t)) B)).
  rewrite new_tables_literal, topo_sort_literal.
  destruct (topo_sort _) as [sorted| |]; cbn [lift_topo]; try reflexivity.
  rewrite deletes_literal, updates_literal, creates_literal, <- !map_app.
  rewrite sort_delete_tables_literal, sort_create_literal, sort_enum_literal.
  reflexivity.
Qed.

(* "up to date" is decided the same way with and without the prefix *)
Corollary diff_empty_literal : forall p A B, no_dot p ->
  diff_empty (literal_schema p A) (literal_schema p B) = diff_empty A B.
Proof.
  intros p A B Hp. unfold diff_empty. rewrite (diff_equivariant p A B Hp).
  destruct (diff_actions A B) as [[|a r]|e]; reflexivity.
Qed.

Corollary diff_count_literal : forall p A B acts, no_dot p -> diff_actions A B = Ok acts ->
  exists acts', diff_actions (literal_schema p A) (literal_schema p B) = Ok acts'
                /\ List.length acts' = List.length acts.
Proof.
  intros p A B acts Hp H. exists (map (literal_action p) acts).
  rewrite (diff_equivariant p A B Hp), H. split; [reflexivity | apply map_length].
Qed.
