(* C19, naming algebra half: injectivity of the name builders of vespertide-naming (lib.rs:208-251)
   on well-shaped identifiers, and the exact list of collisions that remain.
   Shapes and descriptors: Model/NamePlain.v. *)
From VV.M1 Require Import NamePlain PrefixStrP.
From Coq Require Import Lia.

(* ---------- string basics ---------- *)
Lemma sapp_assoc a b c : (a +++ b) +++ c = a +++ b +++ c.
Proof. induction a as [|x a IH]; cbn [String.append]; [reflexivity|]. now rewrite IH. Qed.

Lemma sapp_nil_r a : a +++ "" = a.
Proof. induction a as [|x a IH]; cbn [String.append]; [reflexivity|]. now rewrite IH. Qed.

Lemma slength_app a b : String.length (a +++ b) = (String.length a + String.length b)%nat.
Proof. induction a as [|x a IH]; cbn [String.append String.length]; [reflexivity|]. now rewrite IH. Qed.

(* right cancellation *)
Lemma sapp_inj_r : forall a b c, a +++ c = b +++ c -> a = b.
Proof.
  induction a as [|x a IH]; intros b c H.
  - destruct b as [|y b]; [reflexivity|]. exfalso.
    apply (f_equal String.length) in H. cbn [String.append String.length] in H.
    rewrite slength_app in H. lia.
  - destruct b as [|y b].
    + exfalso. apply (f_equal String.length) in H. cbn [String.append String.length] in H.
      rewrite slength_app in H. lia.
    + cbn [String.append] in H. injection H as -> H. f_equal. eapply IH; exact H.
Qed.

Lemma is_us_true a : is_us a = true -> a = "_"%char.
Proof. unfold is_us. intro H. now apply Ascii.eqb_eq. Qed.
Lemma is_us_us : is_us "_"%char = true.
Proof. reflexivity. Qed.

(* ---------- the shape predicates mean what their names say ---------- *)
Lemma head_us_starts_with s : head_us s = starts_with "_" s.
Proof.
  destruct s as [|a s]; [reflexivity|]. cbn [head_us starts_with]. unfold is_us.
  rewrite Ascii.eqb_sym. now destruct (Ascii.eqb "_"%char a).
Qed.

Lemma head_us_spec s : head_us s = true <-> exists r, s = "_" +++ r.
Proof.
  split.
  - destruct s as [|a s]; cbn [head_us]; intro H; [discriminate|].
    apply is_us_true in H. subst a. now exists s.
  - intros [r ->]. reflexivity.
Qed.

Lemma last_us_app_us a : last_us (a +++ "_") = true.
Proof.
  induction a as [|x a IH]; [reflexivity|]. cbn [String.append last_us].
  destruct (a +++ "_") as [|y r] eqn:E; [|exact IH].
  destruct a; discriminate E.
Qed.

Lemma last_us_spec s : last_us s = true <-> exists r, s = r +++ "_".
Proof.
  split.
  - induction s as [|x s IH]; cbn [last_us]; intro H; [discriminate|].
    destruct s as [|y s].
    + apply is_us_true in H. subst x. now exists "".
    + destruct (IH H) as [r Hr]. exists (String x r). cbn [String.append]. now rewrite <- Hr.
  - intros [r ->]. apply last_us_app_us.
Qed.

Lemma rev_string_acc_app s : forall acc, rev_string_acc s acc = rev_string_acc s "" +++ acc.
Proof.
  induction s as [|x s IH]; intro acc; cbn [rev_string_acc]; [reflexivity|].
  rewrite (IH (String x acc)), (IH (String x "")), sapp_assoc. reflexivity.
Qed.

Lemma last_us_ends_with s : last_us s = ends_with "_" s.
Proof.
  unfold ends_with. rewrite <- head_us_starts_with. unfold rev_string.
  induction s as [|x s IH]; [reflexivity|].
  cbn [last_us rev_string_acc]. rewrite rev_string_acc_app.
  destruct s as [|y s]; [reflexivity|].
  rewrite IH. cbn [rev_string_acc]. rewrite (rev_string_acc_app s (String y "")).
  destruct (rev_string_acc s "") as [|z r]; reflexivity.
Qed.

Lemma head_us_app a b : head_us (a +++ b) = match a with EmptyString => head_us b | _ => head_us a end.
Proof. destruct a; reflexivity. Qed.

Lemma has_dunder_app a b :
  has_dunder (a +++ b) = has_dunder a || (last_us a && head_us b) || has_dunder b.
Proof.
  induction a as [|x a IH]; [reflexivity|].
  cbn [String.append has_dunder last_us]. rewrite IH, head_us_app.
  destruct a as [|y a].
  - cbn [has_dunder head_us last_us]. destruct (is_us x), (head_us b), (has_dunder b); reflexivity.
  - cbn [head_us]. destruct (is_us x && is_us y); cbn [orb]; [reflexivity|].
    reflexivity.
Qed.

Lemma has_dunder_spec s : has_dunder s = true <-> exists a b, s = a +++ "__" +++ b.
Proof.
  split.
  - induction s as [|x s IH]; cbn [has_dunder]; intro H; [discriminate|].
    apply orb_true_iff in H. destruct H as [H|H].
    + apply andb_true_iff in H. destruct H as [Hx Hs]. apply is_us_true in Hx. subst x.
      apply head_us_spec in Hs. destruct Hs as [r ->]. exists "", r. reflexivity.
    + destruct (IH H) as (a & b & ->). exists (String x a), b. reflexivity.
  - intros (a & b & ->). rewrite has_dunder_app, has_dunder_app.
    cbn. now rewrite !orb_true_r.
Qed.

Lemma contains_char_app c a b : contains_char c (a +++ b) = contains_char c a || contains_char c b.
Proof.
  induction a as [|x a IH]; [reflexivity|]. cbn [String.append contains_char].
  now rewrite IH, orb_assoc.
Qed.

Lemma no_underscore_spec s : no_underscore s = false <-> exists a b, s = a +++ "_" +++ b.
Proof.
  unfold no_underscore. rewrite negb_false_iff. split.
  - induction s as [|x s IH]; cbn [contains_char]; intro H; [discriminate|].
    apply orb_true_iff in H. destruct H as [H|H].
    + apply Ascii.eqb_eq in H. subst x. now exists "", s.
    + destruct (IH H) as (a & b & ->). now exists (String x a), b.
  - intros (a & b & ->). rewrite contains_char_app. cbn. apply orb_true_r.
Qed.

Lemma no_underscore_app_us a b : no_underscore (a +++ "_" +++ b) = false.
Proof. apply no_underscore_spec. now exists a, b. Qed.

Lemma no_underscore_cons x s : no_underscore (String x s) = true -> x <> "_"%char /\ no_underscore s = true.
Proof.
  unfold no_underscore. cbn [contains_char]. rewrite negb_orb. intro H.
  apply andb_true_iff in H. destruct H as [Hx Hs]. split; [|exact Hs].
  intros ->. discriminate Hx.
Qed.

(* plain / simple unfolded *)
Lemma plain_inv s : plain s = true ->
  s <> "" /\ has_dunder s = false /\ head_us s = false /\ last_us s = false.
Proof.
  unfold plain. intro H.
  apply andb_true_iff in H. destruct H as [H H4].
  apply andb_true_iff in H. destruct H as [H H3].
  apply andb_true_iff in H. destruct H as [H1 H2].
  apply negb_true_iff in H1, H2, H3, H4. apply String.eqb_neq in H1. auto.
Qed.

Lemma simple_inv s : simple s = true -> s <> "" /\ no_underscore s = true.
Proof.
  unfold simple. intro H. apply andb_true_iff in H. destruct H as [H1 H2].
  apply negb_true_iff in H1. apply String.eqb_neq in H1. auto.
Qed.

Lemma no_underscore_head s : no_underscore s = true -> head_us s = false.
Proof.
  destruct s as [|x s]; [reflexivity|]. intro H. apply no_underscore_cons in H.
  cbn [head_us]. unfold is_us. apply Ascii.eqb_neq. tauto.
Qed.
Lemma no_underscore_last s : no_underscore s = true -> last_us s = false.
Proof.
  intro H. destruct (last_us s) eqn:E; [|reflexivity].
  apply last_us_spec in E. destruct E as [r ->].
  rewrite <- (sapp_nil_r "_") in H. now rewrite no_underscore_app_us in H.
Qed.
Lemma no_underscore_dunder s : no_underscore s = true -> has_dunder s = false.
Proof.
  intro H. destruct (has_dunder s) eqn:E; [|reflexivity].
  apply has_dunder_spec in E. destruct E as (a & b & ->).
  change (a +++ "__" +++ b) with (a +++ "_" +++ ("_" +++ b)) in H.
  now rewrite no_underscore_app_us in H.
Qed.

Lemma simple_plain s : simple s = true -> plain s = true.
Proof.
  intro H. apply simple_inv in H. destruct H as [Hne Hnu]. unfold plain.
  rewrite (no_underscore_dunder _ Hnu), (no_underscore_head _ Hnu), (no_underscore_last _ Hnu).
  apply String.eqb_neq in Hne. now rewrite Hne.
Qed.

(* ---------- first occurrence of a separator ---------- *)
(* one-byte separator: the left part is determined when it contains no '_' *)
Lemma us_split_inj : forall a a' b b',
  no_underscore a = true -> no_underscore a' = true ->
  a +++ "_" +++ b = a' +++ "_" +++ b' -> a = a' /\ b = b'.
Proof.
  induction a as [|x a IH]; intros a' b b' Ha Ha' H.
  - destruct a' as [|y a'].
    + cbn [String.append] in H. injection H as H. auto.
    + exfalso. cbn [String.append] in H. injection H as Hy _.
      apply no_underscore_cons in Ha'. destruct Ha' as [Hne _]. congruence.
  - destruct a' as [|y a'].
    + exfalso. cbn [String.append] in H. injection H as Hx _.
      apply no_underscore_cons in Ha. destruct Ha as [Hne _]. congruence.
    + cbn [String.append] in H. injection H as -> H.
      apply no_underscore_cons in Ha, Ha'.
      destruct (IH a' b b' (proj2 Ha) (proj2 Ha') H) as [-> ->]. auto.
Qed.

(* two-byte separator "__": the left part is determined when it contains no "__" and does not end
   with '_'.  Nothing is needed about the right parts (they may start with '_'), and the left parts
   may be empty or start with '_'. *)
Lemma dunder_split_inj : forall a a' b b',
  has_dunder a = false -> last_us a = false ->
  has_dunder a' = false -> last_us a' = false ->
  a +++ "__" +++ b = a' +++ "__" +++ b' -> a = a' /\ b = b'.
Proof.
  assert (Hnil : forall a' b b', has_dunder a' = false -> last_us a' = false ->
                   "__" +++ b = a' +++ "__" +++ b' -> "" = a' /\ b = b').
  { intros a' b b' Hd Hl H. destruct a' as [|y a'].
    - cbn [String.append] in H. injection H as H. auto.
    - exfalso. cbn [String.append] in H. injection H as Hy H. subst y.
      destruct a' as [|z a'].
      + discriminate Hl.
      + cbn [String.append] in H. injection H as Hz _. subst z. discriminate Hd. }
  induction a as [|x a IH]; intros a' b b' Hd Hl Hd' Hl' H.
  - now apply Hnil.
  - destruct a' as [|y a'].
    + symmetry in H. destruct (Hnil _ _ _ Hd Hl H) as [E1 E2]. auto.
    + cbn [String.append] in H. injection H as -> H.
      cbn [has_dunder] in Hd, Hd'. apply orb_false_iff in Hd, Hd'.
      assert (La : last_us a = false).
      { destruct a as [|z a]; [reflexivity|]. exact Hl. }
      assert (La' : last_us a' = false).
      { destruct a' as [|z a']; [reflexivity|]. exact Hl'. }
      destruct (IH a' b b' (proj2 Hd) La (proj2 Hd') La' H) as [-> ->]. auto.
Qed.

(* ---------- a. kind prefixes never collide ---------- *)
Definition kind_prefix (p : string) : Prop := p = "ix" \/ p = "uq" \/ p = "fk".

Lemma name_with_eq p t cs k : name_with p t cs k = p +++ "_" +++ t +++ "__" +++ name_rest cs k.
Proof. destruct k; reflexivity. Qed.

Lemma name_with_prefix_inj p1 t1 c1 k1 p2 t2 c2 k2 :
  kind_prefix p1 -> kind_prefix p2 ->
  name_with p1 t1 c1 k1 = name_with p2 t2 c2 k2 -> p1 = p2.
Proof.
  intros H1 H2 H. rewrite !name_with_eq in H.
  destruct H1 as [->|[->| ->]], H2 as [->|[->| ->]]; try reflexivity;
    cbn [String.append] in H; discriminate H.
Qed.

(* more generally: any two prefixes without '_' *)
Lemma name_with_prefix_inj_gen p1 t1 c1 k1 p2 t2 c2 k2 :
  no_underscore p1 = true -> no_underscore p2 = true ->
  name_with p1 t1 c1 k1 = name_with p2 t2 c2 k2 -> p1 = p2.
Proof.
  intros H1 H2 H. rewrite !name_with_eq in H.
  now destruct (us_split_inj _ _ _ _ H1 H2 H).
Qed.

Lemma check_name_eq t c : build_check_constraint_name t c = "chk" +++ "_" +++ t +++ "__" +++ c.
Proof. reflexivity. Qed.

Lemma name_with_not_check p t cs k t' c' :
  kind_prefix p -> name_with p t cs k <> build_check_constraint_name t' c'.
Proof.
  intros Hp H. rewrite name_with_eq, check_name_eq in H.
  destruct Hp as [->|[->| ->]]; cbn [String.append] in H; discriminate H.
Qed.

(* ---------- b. the first "__" after the kind prefix separates table from rest ---------- *)
Lemma name_table_split pfx t1 r1 t2 r2 :
  plain t1 = true -> plain t2 = true ->
  pfx +++ "_" +++ t1 +++ "__" +++ r1 = pfx +++ "_" +++ t2 +++ "__" +++ r2 ->
  t1 = t2 /\ r1 = r2.
Proof.
  intros P1 P2 H. apply append_inj in H. cbn [String.append] in H. injection H as H.
  apply plain_inv in P1, P2.
  destruct P1 as (_ & D1 & _ & L1), P2 as (_ & D2 & _ & L2).
  exact (dunder_split_inj _ _ _ _ D1 L1 D2 L2 H).
Qed.

(* the weakest shape under which the split is unique (tables may be empty or start with '_') *)
Lemma name_table_split_min pfx t1 r1 t2 r2 :
  has_dunder t1 = false -> last_us t1 = false -> has_dunder t2 = false -> last_us t2 = false ->
  pfx +++ "_" +++ t1 +++ "__" +++ r1 = pfx +++ "_" +++ t2 +++ "__" +++ r2 ->
  t1 = t2 /\ r1 = r2.
Proof.
  intros D1 L1 D2 L2 H. apply append_inj in H. cbn [String.append] in H. injection H as H.
  exact (dunder_split_inj _ _ _ _ D1 L1 D2 L2 H).
Qed.

(* ---------- c. joined column lists ---------- *)
Lemma join_cons2 sep x y r : join sep (x :: y :: r) = x +++ sep +++ join sep (y :: r).
Proof. reflexivity. Qed.

Lemma join_inj_no_sep : forall cs cs',
  (forall c, In c (cs ++ cs') -> no_underscore c = true /\ c <> "") ->
  join "_" cs = join "_" cs' -> cs = cs'.
Proof.
  induction cs as [|x cs IH]; intros cs' Hall H.
  - destruct cs' as [|x' cs']; [reflexivity|]. exfalso.
    destruct (Hall x' (or_introl eq_refl)) as [_ Hne]. apply Hne.
    destruct cs' as [|y' cs']; cbn [join] in H; [now symmetry|].
    destruct x'; [reflexivity | discriminate H].
  - assert (Hx : no_underscore x = true /\ x <> "") by (apply Hall; now left).
    destruct cs' as [|x' cs'].
    + exfalso. destruct Hx as [_ Hne]. apply Hne.
      destruct cs as [|y cs]; cbn [join] in H; [exact H|].
      destruct x; [reflexivity | discriminate H].
    + assert (Hx' : no_underscore x' = true /\ x' <> "").
      { apply Hall. apply in_or_app. right. now left. }
      assert (Hall' : forall l l', (forall c, In c ((x :: l) ++ x' :: l') -> no_underscore c = true /\ c <> "") ->
                                   forall c, In c (l ++ l') -> no_underscore c = true /\ c <> "").
      { intros l l' HH c Hc. apply HH. apply in_app_or in Hc. apply in_or_app.
        destruct Hc as [Hc|Hc]; [left; now right | right; now right]. }
      destruct cs as [|y cs], cs' as [|y' cs'].
      * cbn [join] in H. now subst.
      * exfalso. rewrite join_cons2 in H. cbn [join] in H. destruct Hx as [Hx _].
        rewrite H, no_underscore_app_us in Hx. discriminate Hx.
      * exfalso. rewrite join_cons2 in H. cbn [join] in H. destruct Hx' as [Hx' _].
        rewrite <- H, no_underscore_app_us in Hx'. discriminate Hx'.
      * rewrite !join_cons2 in H.
        destruct (us_split_inj _ _ _ _ (proj1 Hx) (proj1 Hx') H) as [-> H'].
        f_equal. apply IH; [|exact H']. exact (Hall' _ _ Hall).
Qed.

(* a string without '_' is a joined list only of itself *)
Lemma join_simple_singleton k cs :
  no_underscore k = true -> k <> "" -> k = join "_" cs -> (forall c, In c cs -> c <> "") -> cs = [k].
Proof.
  intros Hk Hne H Hcs. destruct cs as [|x [|y cs]].
  - now cbn [join] in H.
  - cbn [join] in H. now subst.
  - exfalso. rewrite join_cons2 in H. rewrite H, no_underscore_app_us in Hk. discriminate Hk.
Qed.

(* injectivity of {pfx}_{table}__{key | cols joined by _}; the general form: the tables agree and the
   rests agree *)
Lemma name_with_split pfx t cs k t' cs' k' :
  plain t = true -> plain t' = true ->
  name_with pfx t cs k = name_with pfx t' cs' k' ->
  t = t' /\ name_rest cs k = name_rest cs' k'.
Proof.
  intros P P' H. rewrite !name_with_eq in H. exact (name_table_split _ _ _ _ _ P P' H).
Qed.

(* user keys arbitrary, columns simple: a key may equal another constraint's joined columns *)
Lemma name_with_injective_anykey pfx t cs k t' cs' k' :
  plain t = true -> plain t' = true ->
  (forall c, In c (cs ++ cs') -> no_underscore c = true /\ c <> "") ->
  name_with pfx t cs k = name_with pfx t' cs' k' ->
  t = t' /\ match k, k' with
            | Some a, Some b => a = b
            | None, None => cs = cs'
            | Some a, None => a = join "_" cs'
            | None, Some b => b = join "_" cs
            end.
Proof.
  intros P P' Hall H. destruct (name_with_split _ _ _ _ _ _ _ P P' H) as [-> R].
  split; [reflexivity|].
  destruct k as [a|], k' as [b|]; cbn [name_rest] in R; auto.
  now apply join_inj_no_sep.
Qed.

Lemma forallb_simple_in cs : forallb simple cs = true ->
  forall c, In c cs -> no_underscore c = true /\ c <> "".
Proof.
  intros H c Hc. rewrite forallb_forall in H. apply H in Hc. apply simple_inv in Hc. tauto.
Qed.

(* user keys simple as well: the only collision left is a key equal to the single column of an
   unnamed constraint of the same kind on the same table *)
Lemma name_with_injective pfx t cs k t' cs' k' :
  wf_named t cs k = true -> wf_named t' cs' k' = true ->
  name_with pfx t cs k = name_with pfx t' cs' k' ->
  named_collide t cs k t' cs' k'.
Proof.
  unfold wf_named. intros W W' H.
  apply andb_true_iff in W, W'. destruct W as [W Wk], W' as [W' Wk'].
  apply andb_true_iff in W, W'. destruct W as [P Wc], W' as [P' Wc'].
  pose proof (forallb_simple_in _ Wc) as Hc. pose proof (forallb_simple_in _ Wc') as Hc'.
  assert (Hall : forall c, In c (cs ++ cs') -> no_underscore c = true /\ c <> "").
  { intros c Hin. apply in_app_or in Hin. destruct Hin; auto. }
  destruct (name_with_injective_anykey _ _ _ _ _ _ _ P P' Hall H) as [-> R].
  split; [reflexivity|].
  destruct k as [a|], k' as [b|]; auto.
  - cbn [simple_key] in Wk. apply simple_inv in Wk. destruct Wk as [Hne Hnu].
    apply (join_simple_singleton a cs' Hnu Hne R). intros c Hin. now apply Hc'.
  - cbn [simple_key] in Wk'. apply simple_inv in Wk'. destruct Wk' as [Hne Hnu].
    apply (join_simple_singleton b cs Hnu Hne R). intros c Hin. now apply Hc.
Qed.

(* the characterisation is exact: every listed collision does produce equal names *)
Lemma named_collide_sound pfx t cs k t' cs' k' :
  named_collide t cs k t' cs' k' -> name_with pfx t cs k = name_with pfx t' cs' k'.
Proof.
  intros [-> R]. rewrite !name_with_eq. do 4 f_equal.
  destruct k as [a|], k' as [b|]; cbn [name_rest]; subst; reflexivity.
Qed.

Lemma index_name_injective t cs k t' cs' k' :
  plain t = true -> plain t' = true ->
  forallb simple cs = true -> forallb simple cs' = true ->
  simple_key k = true -> simple_key k' = true ->
  build_index_name t cs k = build_index_name t' cs' k' ->
  t = t' /\ match k, k' with
            | Some a, Some b => a = b
            | None, None => cs = cs'
            | Some a, None => cs' = [a]
            | None, Some b => cs = [b]
            end.
Proof.
  intros P P' C C' K K' H. apply (name_with_injective "ix"); [| |exact H];
    unfold wf_named; rewrite ?P, ?P', ?C, ?C', ?K, ?K'; reflexivity.
Qed.

Lemma unique_name_injective t cs k t' cs' k' :
  wf_named t cs k = true -> wf_named t' cs' k' = true ->
  build_unique_constraint_name t cs k = build_unique_constraint_name t' cs' k' ->
  named_collide t cs k t' cs' k'.
Proof. exact (name_with_injective "uq" t cs k t' cs' k'). Qed.

Lemma foreign_key_name_injective t cs k t' cs' k' :
  wf_named t cs k = true -> wf_named t' cs' k' = true ->
  build_foreign_key_name t cs k = build_foreign_key_name t' cs' k' ->
  named_collide t cs k t' cs' k'.
Proof. exact (name_with_injective "fk" t cs k t' cs' k'). Qed.

(* ---------- e. enum type names ---------- *)
(* only the table names matter: the first '_' ends the table *)
Lemma enum_type_name_injective t e t' e' :
  no_underscore t = true -> no_underscore t' = true ->
  build_enum_type_name t e = build_enum_type_name t' e' -> t = t' /\ e = e'.
Proof. intros Ht Ht' H. exact (us_split_inj _ _ _ _ Ht Ht' H). Qed.

(* ---------- f. check constraint names ---------- *)
(* only the table names matter *)
Lemma check_name_injective t c t' c' :
  plain t = true -> plain t' = true ->
  build_check_constraint_name t c = build_check_constraint_name t' c' -> t = t' /\ c = c'.
Proof.
  intros P P' H. rewrite !check_name_eq in H. exact (name_table_split _ _ _ _ _ P P' H).
Qed.

(* ---------- c'. the dual split: the LAST "__" separates when the rest is well shaped ---------- *)
(* the right part is determined when it contains no "__" and does not start with '_'; nothing is
   needed about the left parts.  Hence simple columns and keys make the names injective for ANY
   table names, even ones containing "__". *)
Lemma dunder_split_inj_r : forall a a' b b',
  has_dunder b = false -> head_us b = false ->
  has_dunder b' = false -> head_us b' = false ->
  a +++ "__" +++ b = a' +++ "__" +++ b' -> a = a' /\ b = b'.
Proof.
  assert (Hnil : forall a' b b', has_dunder b = false -> head_us b = false ->
                   "__" +++ b = a' +++ "__" +++ b' -> "" = a' /\ b = b').
  { intros a' b b' Hd Hh H. destruct a' as [|y a'].
    - cbn [String.append] in H. injection H as H. auto.
    - exfalso. cbn [String.append] in H. injection H as _ H.
      destruct a' as [|z a'].
      + cbn [String.append] in H. injection H as H. subst b. discriminate Hh.
      + cbn [String.append] in H. injection H as _ H.
        assert (E : has_dunder b = true) by (apply has_dunder_spec; now exists a', b').
        congruence. }
  induction a as [|x a IH]; intros a' b b' Hd Hh Hd' Hh' H.
  - now apply Hnil.
  - destruct a' as [|y a'].
    + symmetry in H. destruct (Hnil _ _ _ Hd' Hh' H) as [E1 E2]. auto.
    + cbn [String.append] in H. injection H as -> H.
      destruct (IH a' b b' Hd Hh Hd' Hh' H) as [-> ->]. auto.
Qed.

Lemma simple_nonempty_head x : x <> "" -> forall r, head_us (x +++ r) = head_us x.
Proof. intros Hne r. destruct x; [congruence | reflexivity]. Qed.

Lemma join_simple_shape : forall cs, forallb simple cs = true ->
  has_dunder (join "_" cs) = false /\ head_us (join "_" cs) = false.
Proof.
  induction cs as [|x cs IH]; intro H; [split; reflexivity|].
  cbn [forallb] in H. apply andb_true_iff in H. destruct H as [Hx Hcs].
  apply simple_inv in Hx. destruct Hx as [Hne Hnu].
  destruct cs as [|y cs].
  - cbn [join]. split; [now apply no_underscore_dunder | now apply no_underscore_head].
  - rewrite join_cons2. destruct (IH Hcs) as [IHd IHh]. split.
    + rewrite has_dunder_app, (no_underscore_dunder _ Hnu), (no_underscore_last _ Hnu).
      cbn [orb andb String.append has_dunder]. rewrite IHd, IHh. reflexivity.
    + rewrite (simple_nonempty_head x Hne). now apply no_underscore_head.
Qed.

Lemma name_rest_shape cs k : forallb simple cs = true -> simple_key k = true ->
  has_dunder (name_rest cs k) = false /\ head_us (name_rest cs k) = false.
Proof.
  intros Hc Hk. destruct k as [a|]; cbn [name_rest]; [|now apply join_simple_shape].
  cbn [simple_key] in Hk. apply simple_inv in Hk. destruct Hk as [_ Hnu].
  split; [now apply no_underscore_dunder | now apply no_underscore_head].
Qed.

Lemma name_with_injective_anytable pfx t cs k t' cs' k' :
  forallb simple cs = true -> forallb simple cs' = true ->
  simple_key k = true -> simple_key k' = true ->
  name_with pfx t cs k = name_with pfx t' cs' k' ->
  named_collide t cs k t' cs' k'.
Proof.
  intros Wc Wc' Wk Wk' H. rewrite !name_with_eq in H.
  apply append_inj in H. cbn [String.append] in H. injection H as H.
  destruct (name_rest_shape _ _ Wc Wk) as [D Hh], (name_rest_shape _ _ Wc' Wk') as [D' Hh'].
  destruct (dunder_split_inj_r _ _ _ _ D Hh D' Hh' H) as [-> R].
  split; [reflexivity|].
  pose proof (forallb_simple_in _ Wc) as Hc. pose proof (forallb_simple_in _ Wc') as Hc'.
  destruct k as [a|], k' as [b|]; cbn [name_rest] in R; auto.
  - cbn [simple_key] in Wk. apply simple_inv in Wk. destruct Wk as [Hne Hnu].
    apply (join_simple_singleton a cs' Hnu Hne R). intros c Hin. now apply Hc'.
  - cbn [simple_key] in Wk'. apply simple_inv in Wk'. destruct Wk' as [Hne Hnu].
    apply (join_simple_singleton b cs Hnu Hne (eq_sym R)). intros c Hin. now apply Hc.
  - apply join_inj_no_sep; [|exact R].
    intros c Hin. apply in_app_or in Hin. destruct Hin; auto.
Qed.

(* ---------- d. the collisions, on concrete witnesses ---------- *)
(* unnamed index on the single column a_b / unnamed index on (a, b), same table *)
Lemma collide_unnamed_joined_refuted :
  exists t cs cs', cs <> cs' /\ build_index_name t cs None = build_index_name t cs' None.
Proof. exists "t", ["a_b"], ["a"; "b"]. split; [discriminate | vm_compute; reflexivity]. Qed.

(* user key equal to another constraint's joined columns *)
Lemma collide_key_joined_refuted :
  exists t cs k cs', cs <> cs' /\ build_unique_constraint_name t cs (Some k) = build_unique_constraint_name t cs' None.
Proof. exists "t", ["c"], "a_b", ["a"; "b"]. split; [discriminate | vm_compute; reflexivity]. Qed.

(* ... which survives even when table, columns and key are all simple: key = the only column *)
Lemma collide_key_single_column_refuted :
  exists t cs k cs', wf_named t cs (Some k) = true /\ wf_named t cs' None = true /\ cs <> cs'
    /\ build_index_name t cs (Some k) = build_index_name t cs' None.
Proof. exists "t", ["x"; "y"], "a", ["a"]. repeat split; try discriminate; vm_compute; reflexivity. Qed.

(* two (table, enum) pairs, one type name *)
Lemma collide_enum_split_refuted :
  build_enum_type_name "user" "role_kind" = build_enum_type_name "user_role" "kind".
Proof. vm_compute. reflexivity. Qed.

(* an enum type called like another table *)
Lemma collide_enum_table_refuted :
  object_name (OEnumType "user" "status") = object_name (OTable "user_status").
Proof. vm_compute. reflexivity. Qed.

(* a table called like the SQLite rebuild helper of another table *)
Lemma collide_temp_table_refuted :
  object_name (OTempTable "x") = object_name (OTable "x_temp").
Proof. vm_compute. reflexivity. Qed.

(* a table name containing "__": indexes (and unique constraints) of two different tables collide;
   by name_with_injective_anytable this needs a column or key that is not simple *)
Lemma collide_dunder_table_refuted :
  build_index_name "a__b" ["c"] None = build_index_name "a" ["b__c"] None
  /\ build_unique_constraint_name "a__b" ["c"] None = build_unique_constraint_name "a" ["x"] (Some "b__c")
  /\ build_index_name "a_" ["c"] None = build_index_name "a" ["_c"] None.
Proof. repeat split; vm_compute; reflexivity. Qed.

(* ---------- object level ---------- *)
Lemma sep_name_has_dunder p t r : has_dunder (p +++ "_" +++ t +++ "__" +++ r) = true.
Proof.
  apply has_dunder_spec. exists (p +++ "_" +++ t), r. now rewrite !sapp_assoc.
Qed.

Lemma sep_name_cross p t r p' t' r' :
  no_underscore p = true -> no_underscore p' = true -> p <> p' ->
  p +++ "_" +++ t +++ "__" +++ r = p' +++ "_" +++ t' +++ "__" +++ r' -> False.
Proof. intros Hp Hp' Hne H. now destruct (us_split_inj _ _ _ _ Hp Hp' H). Qed.

Lemma sep_name_enum p t r t' e :
  no_underscore p = true -> no_underscore t' = true -> plain e = true ->
  p +++ "_" +++ t +++ "__" +++ r = t' +++ "_" +++ e -> False.
Proof.
  intros Hp Ht' Pe H. destruct (us_split_inj _ _ _ _ Hp Ht' H) as [_ E].
  apply plain_inv in Pe. destruct Pe as (_ & D & _).
  assert (D' : has_dunder e = true) by (apply has_dunder_spec; now exists t, r).
  congruence.
Qed.

Lemma sep_name_table p t r n : plain n = true -> p +++ "_" +++ t +++ "__" +++ r = n -> False.
Proof.
  intros Pn H. apply plain_inv in Pn. destruct Pn as (_ & D & _).
  rewrite <- H, sep_name_has_dunder in D. discriminate D.
Qed.

Lemma temp_no_dunder t : plain t = true -> has_dunder (t +++ "_temp") = false.
Proof.
  intro P. apply plain_inv in P. destruct P as (_ & D & _ & L).
  rewrite has_dunder_app, D, L. reflexivity.
Qed.

Lemma sep_name_temp p t r t' : plain t' = true -> p +++ "_" +++ t +++ "__" +++ r = t' +++ "_temp" -> False.
Proof.
  intros P H. apply temp_no_dunder in P.
  rewrite <- H, sep_name_has_dunder in P. discriminate P.
Qed.

Lemma wf_named_plain t cs k : wf_named t cs k = true -> plain t = true.
Proof.
  unfold wf_named. intro H. apply andb_true_iff in H. destruct H as [H _].
  apply andb_true_iff in H. tauto.
Qed.

Lemma objects_collide_sound o1 o2 : objects_collide o1 o2 -> object_name o1 = object_name o2.
Proof.
  destruct o1 as [t cs k|t cs k|t cs k|t c|t e|n|t], o2 as [t' cs' k'|t' cs' k'|t' cs' k'|t' c'|t' e'|n'|t'];
    cbn [objects_collide object_name]; intro H; try contradiction;
    try (now apply named_collide_sound);
    unfold build_enum_type_name, sqlite_temp_table_name.
  - destruct H as [E1 E2]. now subst.
  - destruct H as [E1 E2]. now subst.
  - now symmetry.
  - exact H.
  - exact H.
  - exact H.
  - exact H.
  - now symmetry.
  - now symmetry.
  - now subst.
Qed.

Ltac split_wf W :=
  lazymatch type of W with
  | wf_named _ _ _ = true => apply wf_named_plain in W
  | plain _ && plain _ = true => apply andb_true_iff in W; destruct W as [W ?]
  | no_underscore _ && plain _ = true => apply andb_true_iff in W; destruct W as [W ?]
  | _ => idtac
  end.

Lemma object_name_collision o1 o2 :
  wf_object o1 = true -> wf_object o2 = true ->
  object_name o1 = object_name o2 -> objects_collide o1 o2.
Proof.
  destruct o1 as [t cs k|t cs k|t cs k|t c|t e|n|t], o2 as [t' cs' k'|t' cs' k'|t' cs' k'|t' c'|t' e'|n'|t'];
    cbn [objects_collide object_name wf_object]; intros W1 W2 H;
    (* same kind *)
    try (now apply (name_with_injective _ _ _ _ _ _ _ W1 W2 H));
    split_wf W1; split_wf W2;
    unfold build_index_name, build_unique_constraint_name, build_foreign_key_name in H;
    rewrite ?name_with_eq, ?check_name_eq in H;
    unfold build_enum_type_name, sqlite_temp_table_name in H.
  all: try (exfalso; eapply sep_name_cross; [| | |exact H]; [reflexivity | reflexivity | discriminate]).
  all: try (exfalso; eapply sep_name_enum; [| | |exact H]; [reflexivity | assumption | assumption]).
  all: try (exfalso; symmetry in H; eapply sep_name_enum; [| | |exact H]; [reflexivity | assumption | assumption]).
  all: try (exfalso; eapply sep_name_table; [|exact H]; assumption).
  all: try (exfalso; symmetry in H; eapply sep_name_table; [|exact H]; assumption).
  all: try (exfalso; eapply sep_name_temp; [|exact H]; assumption).
  all: try (exfalso; symmetry in H; eapply sep_name_temp; [|exact H]; assumption).
  - (* check / check *) exact (name_table_split _ _ _ _ _ W1 W2 H).
  - (* enum / enum *) exact (us_split_inj _ _ _ _ W1 W2 H).
  - (* enum / table *) now symmetry.
  - (* enum / temp *) exact H.
  - (* table / enum *) exact H.
  - (* table / table *) exact H.
  - (* table / temp *) exact H.
  - (* temp / enum *) now symmetry.
  - (* temp / table *) now symmetry.
  - (* temp / temp *) eapply sapp_inj_r; exact H.
Qed.

(* exact characterisation of the collisions among well-formed descriptors *)
Lemma object_name_collision_exact o1 o2 :
  wf_object o1 = true -> wf_object o2 = true ->
  (object_name o1 = object_name o2 <-> objects_collide o1 o2).
Proof.
  intros W1 W2. split; [now apply object_name_collision | apply objects_collide_sound].
Qed.

(* the full-strength injectivity statement is false, already for well-formed descriptors *)
Lemma injectivity_refuted :
  exists o1 o2, wf_object o1 = true /\ wf_object o2 = true /\ same_namespace o1 o2 = true
    /\ object_name o1 = object_name o2 /\ o1 <> o2.
Proof.
  exists (OIndex "t" ["x"; "y"] (Some "a")), (OIndex "t" ["a"] None).
  repeat split; try discriminate; vm_compute; reflexivity.
Qed.

Lemma injectivity_full_refuted :
  ~ (forall o1 o2, same_namespace o1 o2 = true -> object_name o1 = object_name o2 -> o1 = o2).
Proof.
  intro H.
  specialize (H (OIndex "t" ["a_b"] None) (OIndex "t" ["a"; "b"] None) eq_refl eq_refl).
  discriminate H.
Qed.

(* b needs "does not end with '_'": a table a_ against a table a *)
Lemma name_table_split_trailing_refuted :
  exists t1 r1 t2 r2, has_dunder t1 = false /\ plain t2 = true
    /\ "ix" +++ "_" +++ t1 +++ "__" +++ r1 = "ix" +++ "_" +++ t2 +++ "__" +++ r2 /\ t1 <> t2.
Proof. exists "a_", "b", "a", "_b". repeat split; try discriminate; vm_compute; reflexivity. Qed.

(* without the shape hypothesis on the elements, joining is not injective (and [] / [""] coincide) *)
Lemma join_inj_refuted :
  join "_" ["a_b"] = join "_" ["a"; "b"] /\ join "_" [] = join "_" [""].
Proof. split; vm_compute; reflexivity. Qed.
