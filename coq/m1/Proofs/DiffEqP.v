(* diff_actions A B = Ok []  <->  schema_equiv A B   (C07 / C01: equivalent models produce no
   migration, and only equivalent models do).

   schema_equiv is stated on what the planner actually looks at: the table registered under each name
   (the LAST one listed: BTreeMap::insert overwrites), the column registered under each column name
   (again the last one), the five column attributes the differ compares, and mutual inclusion of the
   normalised constraint lists.  schema_equiv_l is the readable list-level version for schemas
   without duplicate table / column names; it implies schema_equiv. *)
From VV.M1 Require Import Diff NormalizeP BtP SortP DiffP.
From Coq Require Import Lia Permutation Sorted.

Definition opt_rel {A} (R : A -> A -> Prop) (a b : option A) : Prop :=
  match a, b with
  | Some x, Some y => R x y
  | None, None => True
  | _, _ => False
  end.

(* the attributes compared by the per-column part of table_group (diff.rs:449-560) *)
Definition col_equiv (a b : column_def) : Prop :=
  requires_migration (c_type a) (c_type b) = false
  /\ needs_enum_rename (c_type a) (c_type b) = false
  /\ c_nullable a = c_nullable b
  /\ option_map default_to_sql (c_default a) = option_map default_to_sql (c_default b)
  /\ c_comment a = c_comment b.

(* the column / table the planner sees under a name: the last one listed *)
Definition col_named (k : string) (t : table_def) : option column_def :=
  bt_get k (rev (map (fun c => (c_name c, c)) (t_columns t))).
Definition table_named (k : string) (s : list table_def) : option table_def :=
  bt_get k (rev (map (fun t => (t_name t, t)) s)).

Definition table_equiv (a b : table_def) : Prop :=
  (forall k, opt_rel col_equiv (col_named k a) (col_named k b))
  /\ incl (t_constraints a) (t_constraints b)
  /\ incl (t_constraints b) (t_constraints a).

Definition schema_equiv (A B : schema) : Prop :=
  exists An Bn, normalize_all A = Ok An /\ normalize_all B = Ok Bn
    /\ forall k, opt_rel table_equiv (table_named k An) (table_named k Bn).

(* ---------- generic: related lookups give equal key sets ---------- *)
Lemma opt_rel_mem_r {V} (R : V -> V -> Prop) (m m' : list (string * V)) :
  (forall k, opt_rel R (bt_get k m) (bt_get k m')) ->
  forall kv, In kv m -> bt_mem (fst kv) m' = true.
Proof.
  intros H kv Hin. unfold bt_mem. specialize (H (fst kv)).
  destruct (bt_get_some_key (fst kv) m (in_map fst _ _ Hin)) as [v Hv]. rewrite Hv in H.
  destruct (bt_get (fst kv) m'); [reflexivity|contradiction].
Qed.
Lemma opt_rel_mem_l {V} (R : V -> V -> Prop) (m m' : list (string * V)) :
  (forall k, opt_rel R (bt_get k m) (bt_get k m')) ->
  forall kv, In kv m' -> bt_mem (fst kv) m = true.
Proof.
  intros H kv Hin. unfold bt_mem. specialize (H (fst kv)).
  destruct (bt_get_some_key (fst kv) m' (in_map fst _ _ Hin)) as [v Hv]. rewrite Hv in H.
  destruct (bt_get (fst kv) m); [reflexivity|contradiction].
Qed.

(* ---------- <= : equivalent tables give an empty group ---------- *)
Theorem table_group_equiv n a b : table_equiv a b -> table_group n a b = [].
Proof.
  intros (Hc & Hab & Hba). unfold table_group. cbv zeta.
  set (FC := bt_of_list (map (fun c => (c_name c, c)) (t_columns a))).
  set (TC := bt_of_list (map (fun c => (c_name c, c)) (t_columns b))).
  assert (HT : bt_sorted TC) by apply bt_of_list_sorted.
  assert (H : forall k, opt_rel col_equiv (bt_get k FC) (bt_get k TC)).
  { intro k. unfold FC, TC. rewrite !bt_get_of_list. apply Hc. }
  assert (Hdel : filter (fun kv : string * column_def => negb (bt_mem (fst kv) TC)) FC = []).
  { apply filter_nil. intros kv Hin. now rewrite (opt_rel_mem_r _ _ _ H kv Hin). }
  rewrite Hdel. cbn [map].
  assert (Hcommon : forall (k : string) (td : column_def), In (k, td) TC ->
            match bt_get k FC with Some fd => col_equiv fd td | None => True end).
  { intros k td Hin. specialize (H k). rewrite (bt_sorted_get k td TC HT Hin) in H.
    destruct (bt_get k FC); [exact H|exact I]. }
  repeat apply app_nil2.
  - reflexivity.
  - apply flat_map_nil. intros [k td] Hin. cbn [fst snd]. specialize (Hcommon k td Hin).
    destruct (bt_get k FC) as [fd|]; [|reflexivity]. destruct Hcommon as (H1 & H2 & _).
    now rewrite H1, H2.
  - apply flat_map_nil. intros [k td] Hin. cbn [fst snd]. specialize (Hcommon k td Hin).
    destruct (bt_get k FC) as [fd|]; [|reflexivity]. destruct Hcommon as (_ & _ & H3 & _).
    now rewrite H3, Bool.eqb_reflx.
  - apply flat_map_nil. intros [k td] Hin. cbn [fst snd]. specialize (Hcommon k td Hin).
    destruct (bt_get k FC) as [fd|]; [|reflexivity]. destruct Hcommon as (_ & _ & _ & H4 & _).
    now rewrite H4, opt_str_eqb_refl.
  - apply flat_map_nil. intros [k td] Hin. cbn [fst snd]. specialize (Hcommon k td Hin).
    destruct (bt_get k FC) as [fd|]; [|reflexivity]. destruct Hcommon as (_ & _ & _ & _ & H5).
    now rewrite H5, opt_str_eqb_refl.
  - apply flat_map_nil. intros kv Hin. now rewrite (opt_rel_mem_l _ _ _ H kv Hin).
  - apply flat_map_nil. intros c Hin. now rewrite (contains_constraint_in c _ (Hab c Hin)).
  - apply flat_map_nil. intros c Hin. now rewrite (contains_constraint_in c _ (Hba c Hin)).
Qed.

Lemma diff_core_equiv fm tm o : bt_sorted tm ->
  (forall k, opt_rel table_equiv (bt_get k fm) (bt_get k tm)) -> diff_core fm tm o = Ok [].
Proof.
  intros Hs H.
  assert (Hd : diff_deletes fm tm = []).
  { apply flat_map_nil. intros kv Hin. now rewrite (opt_rel_mem_r _ _ _ H kv Hin). }
  assert (Hn : diff_new fm tm = []).
  { apply flat_map_nil. intros kv Hin. now rewrite (opt_rel_mem_l _ _ _ H kv Hin). }
  assert (Hu : diff_updates fm tm = []).
  { apply flat_map_nil. intros [k tt] Hin. cbn [fst snd]. specialize (H k).
    rewrite (bt_sorted_get k tt tm Hs Hin) in H.
    destruct (bt_get k fm) as [ft|]; [|reflexivity]. now apply table_group_equiv. }
  unfold diff_core. rewrite Hn. cbn [topo_sort]. cbv zeta. rewrite Hd, Hu. reflexivity.
Qed.

Theorem diff_equiv_empty : forall A B, schema_equiv A B -> diff_actions A B = Ok [].
Proof.
  intros A B (An & Bn & HA & HB & H). rewrite diff_actions_core, HA, HB.
  apply diff_core_equiv; [apply bt_of_list_sorted|].
  intro k. unfold name_map. rewrite !bt_get_of_list. apply H.
Qed.

(* ====================================================================================== *)
(* ---------- => : an empty plan forces equivalence ---------- *)
Lemma flat_map_nil_inv {A B} (f : A -> list B) : forall l, flat_map f l = [] ->
  forall x, In x l -> f x = [].
Proof.
  induction l as [|y l IH]; cbn [flat_map]; intros H x Hin; [destruct Hin|].
  apply app_eq_nil in H. destruct H as [H1 H2]. destruct Hin as [<-|Hin]; [exact H1|now apply IH].
Qed.
Lemma filter_nil_inv {A} (p : A -> bool) : forall l, filter p l = [] -> forall x, In x l -> p x = false.
Proof.
  induction l as [|y l IH]; cbn [filter]; intros H x Hin; [destruct Hin|].
  destruct (p y) eqn:E; [discriminate|]. destruct Hin as [<-|Hin]; [exact E|now apply IH].
Qed.
Lemma dec_b_true {A} (d : forall x y : A, {x = y} + {x <> y}) x y : dec_b d x y = true -> x = y.
Proof. unfold dec_b. destruct (d x y); [auto|discriminate]. Qed.
Lemma contains_constraint_true c l : contains_constraint c l = true -> In c l.
Proof.
  unfold contains_constraint. intro H. apply existsb_exists in H. destruct H as [x [Hin Hx]].
  apply dec_b_true in Hx. now subst x.
Qed.
Lemma if_nil_true {A} (b : bool) (x : A) : (if b then [] else [x]) = [] -> b = true.
Proof. destruct b; [reflexivity|discriminate]. Qed.
Lemma if_nil_false {A} (b : bool) (x : A) : (if b then [x] else []) = [] -> b = false.
Proof. destruct b; [discriminate|reflexivity]. Qed.

(* the three re-ordering passes preserve the number of actions *)
Lemma update_nth_length {A} (x : A) : forall l n, List.length (update_nth n x l) = List.length l.
Proof.
  induction l as [|y l IH]; intros [|n]; cbn [update_nth List.length]; try reflexivity.
  now rewrite IH.
Qed.
Lemma swap_nth_length {A} i j (l : list A) : List.length (swap_nth i j l) = List.length l.
Proof.
  unfold swap_nth. destruct (nth_error l i); [|reflexivity]. destruct (nth_error l j); [|reflexivity].
  now rewrite !update_nth_length.
Qed.
Lemma sort_enum_length acts fm :
  List.length (sort_enum_default_dependencies acts fm) = List.length acts.
Proof.
  unfold sort_enum_default_dependencies. generalize (enum_swaps acts fm) as sw. intro sw.
  revert acts. induction sw as [|ij sw IH]; intro acts; cbn [fold_left]; [reflexivity|].
  now rewrite IH, swap_nth_length.
Qed.
Lemma sort_enum_nil acts fm : sort_enum_default_dependencies acts fm = [] -> acts = [].
Proof.
  intro H. pose proof (sort_enum_length acts fm) as L. rewrite H in L.
  destruct acts; [reflexivity|discriminate].
Qed.
Lemma sort_create_nil acts : sort_create_before_add_constraint acts = [] -> acts = [].
Proof.
  unfold sort_create_before_add_constraint. destruct (created_tables acts) as [|c cs]; [auto|].
  intro H. pose proof (sort_by_key_perm (create_rank (c :: cs)) acts) as P. rewrite H in P.
  now apply Permutation_nil in P.
Qed.
Lemma sort_delete_nil acts fm : sort_delete_tables acts fm = [] -> acts = [].
Proof.
  unfold sort_delete_tables. cbv zeta.
  destruct (Nat.leb _ 1); [auto|]. destruct (kahn _) as [order|]; [|auto].
  destruct acts as [|a r]; [reflexivity|]. cbn [put_back].
  destruct (is_delete_table a); [|discriminate]. destruct (sort_by_key _ _); discriminate.
Qed.

Lemma topo_sort_spec tables sorted : topo_sort tables = TopoOk sorted ->
  (forall t, In t sorted -> In t tables) /\ List.length sorted = List.length tables.
Proof.
  unfold topo_sort. destruct tables as [|t0 r].
  - intro H. inversion H. split; [auto|reflexivity].
  - cbv zeta. destruct (kahn _) as [order|]; [|discriminate].
    destruct (Nat.eqb _ _) eqn:EL; [|discriminate]. intro H. inversion H; subst; clear H.
    split; [|now apply Nat.eqb_eq].
    intros t Hin. apply in_flat_map in Hin. destruct Hin as [n [_ Hin]].
    destruct (bt_get n _) as [t'|] eqn:G; [|destruct Hin]. destruct Hin as [<-|[]].
    apply bt_get_in, bt_of_list_in in G.
    change (In (n, t') (map (fun t : table_def => (t_name t, t)) (t0 :: r))) in G.
    apply in_map_iff in G. destruct G as [u [Hu Hin]].
    inversion Hu; subst. exact Hin.
Qed.

Lemma diff_core_nil_inv fm tm o :
  (forall kv, In kv tm -> bt_mem (t_name (snd kv)) o = true) ->
  diff_core fm tm o = Ok [] ->
  diff_deletes fm tm = [] /\ diff_updates fm tm = [] /\ diff_new fm tm = [].
Proof.
  intros Ho. unfold diff_core.
  destruct (topo_sort (diff_new fm tm)) as [sorted| |] eqn:ET; try discriminate.
  cbv zeta. intro H. injection H as H'.
  apply sort_enum_nil, sort_create_nil, sort_delete_nil in H'.
  apply app_eq_nil in H'. destruct H' as [Hd H']. apply app_eq_nil in H'. destruct H' as [Hu Hc].
  split; [exact Hd|split; [exact Hu|]].
  destruct (topo_sort_spec _ _ ET) as [Hin Hlen].
  destruct sorted as [|t s].
  - destruct (diff_new fm tm); [reflexivity|discriminate].
  - exfalso. cbn [flat_map] in Hc. apply app_eq_nil in Hc. destruct Hc as [Hc _].
    specialize (Hin t (or_introl eq_refl)). unfold diff_new in Hin. apply in_flat_map in Hin.
    destruct Hin as [kv [Hkv Ht]]. destruct (bt_mem (fst kv) fm); [destruct Ht|].
    destruct Ht as [<-|[]]. specialize (Ho kv Hkv). unfold bt_mem in Ho.
    destruct (bt_get (t_name (snd kv)) o); discriminate.
Qed.

Theorem table_group_nil_inv n a b : table_group n a b = [] -> table_equiv a b.
Proof.
  unfold table_group. cbv zeta.
  set (FC := bt_of_list (map (fun c => (c_name c, c)) (t_columns a))).
  set (TC := bt_of_list (map (fun c => (c_name c, c)) (t_columns b))).
  intro H.
  apply app_eq_nil in H. destruct H as [H1 H]. apply app_eq_nil in H. destruct H as [H2 H].
  apply app_eq_nil in H. destruct H as [H3 H]. apply app_eq_nil in H. destruct H as [H4 H].
  apply app_eq_nil in H. destruct H as [H5 H]. apply app_eq_nil in H. destruct H as [H6 H].
  apply app_eq_nil in H. destruct H as [H7 H8].
  apply map_eq_nil in H1. rewrite H1 in H7. apply map_eq_nil in H1.
  pose proof (flat_map_nil_inv _ _ H2) as G2. pose proof (flat_map_nil_inv _ _ H3) as G3.
  pose proof (flat_map_nil_inv _ _ H4) as G4. pose proof (flat_map_nil_inv _ _ H5) as G5.
  pose proof (flat_map_nil_inv _ _ H6) as G6. pose proof (flat_map_nil_inv _ _ H7) as G7.
  pose proof (flat_map_nil_inv _ _ H8) as G8. pose proof (filter_nil_inv _ _ H1) as G1.
  clear H1 H2 H3 H4 H5 H6 H7 H8.
  split; [|split].
  - intro k. unfold col_named. rewrite <- !bt_get_of_list. fold FC TC.
    destruct (bt_get k FC) as [fd|] eqn:EF, (bt_get k TC) as [td|] eqn:ET; cbn [opt_rel].
    + pose proof (bt_get_in _ _ _ ET) as Hin.
      specialize (G2 _ Hin). specialize (G3 _ Hin). specialize (G4 _ Hin). specialize (G5 _ Hin).
      cbn [fst snd] in G2, G3, G4, G5. rewrite EF in G2, G3, G4, G5.
      apply if_nil_false in G2. apply if_nil_true in G3. apply if_nil_true in G4. apply if_nil_true in G5.
      apply orb_false_elim in G2. destruct G2 as [Ga Gb]. rewrite Ga in Gb. cbn [negb andb] in Gb.
      apply Bool.eqb_prop in G3. apply dec_b_true in G4. apply dec_b_true in G5.
      repeat split; assumption.
    + pose proof (G1 _ (bt_get_in _ _ _ EF)) as G. cbn [fst] in G. unfold bt_mem in G.
      rewrite ET in G. discriminate.
    + pose proof (G6 _ (bt_get_in _ _ _ ET)) as G. cbn [fst snd] in G. apply if_nil_true in G.
      unfold bt_mem in G. rewrite EF in G. discriminate.
    + exact I.
  - intros c Hin. specialize (G7 c Hin). cbv beta in G7.
    destruct (contains_constraint c (t_constraints b)) eqn:E; [now apply contains_constraint_true|].
    exfalso. revert G7.
    destruct (constraint_columns c) as [|x cc]; cbn [nonempty forallb mem_str existsb andb]; discriminate.
  - intros c Hin. specialize (G8 c Hin). apply if_nil_true in G8. now apply contains_constraint_true.
Qed.

Theorem diff_empty_equiv : forall A B, diff_actions A B = Ok [] -> schema_equiv A B.
Proof.
  intros A B H. rewrite diff_actions_core in H.
  destruct (normalize_all A) as [An|e] eqn:HA; [|discriminate].
  destruct (normalize_all B) as [Bn|e] eqn:HB; [|discriminate].
  exists An, Bn. split; [exact HA|split; [exact HB|]].
  apply diff_core_nil_inv in H.
  - destruct H as (Hd & Hu & Hn). intro k. unfold table_named. rewrite <- !bt_get_of_list.
    fold (name_map An). fold (name_map Bn).
    pose proof (flat_map_nil_inv _ _ Hd) as Gd. pose proof (flat_map_nil_inv _ _ Hu) as Gu.
    pose proof (flat_map_nil_inv _ _ Hn) as Gn.
    destruct (bt_get k (name_map An)) as [ft|] eqn:EF, (bt_get k (name_map Bn)) as [tt|] eqn:ET;
      cbn [opt_rel].
    + specialize (Gu _ (bt_get_in _ _ _ ET)). cbn [fst snd] in Gu. rewrite EF in Gu.
      now apply table_group_nil_inv in Gu.
    + specialize (Gd _ (bt_get_in _ _ _ EF)). cbn [fst] in Gd. apply if_nil_true in Gd.
      unfold bt_mem in Gd. rewrite ET in Gd. discriminate.
    + specialize (Gn _ (bt_get_in _ _ _ ET)). cbn [fst snd] in Gn. apply if_nil_true in Gn.
      unfold bt_mem in Gn. rewrite EF in Gn. discriminate.
    + exact I.
  - intros kv Hin. unfold name_map in Hin. apply bt_of_list_in, in_map_iff in Hin.
    destruct Hin as [t [<- Hin]]. cbn [snd]. unfold name_map. apply bt_mem_of_list.
    rewrite map_map. cbn [fst]. change (In (t_name t) (map t_name B)).
    rewrite <- (normalize_all_names B Bn HB). now apply in_map.
Qed.

Theorem diff_empty_iff : forall A B, diff_actions A B = Ok [] <-> schema_equiv A B.
Proof. intros A B. split; [apply diff_empty_equiv|apply diff_equiv_empty]. Qed.

(* ====================================================================================== *)
(* ---------- readable list-level equivalence (no duplicate table / column names) ---------- *)
Section OfLists.
  Context {A : Type} (key : A -> string) (R : A -> A -> Prop).
  Definition keyed (l : list A) : list (string * A) := rev (map (fun x => (key x, x)) l).

  Lemma keyed_nodup l : NoDup (map key l) -> NoDup (map fst (keyed l)).
  Proof.
    intro H. unfold keyed. rewrite map_rev, map_map. cbn [fst].
    eapply Permutation_NoDup; [apply Permutation_rev|exact H].
  Qed.
  Lemma keyed_in l k x : In (k, x) (keyed l) <-> In x l /\ key x = k.
  Proof.
    unfold keyed. rewrite <- in_rev, in_map_iff. split.
    - intros [y [E Hin]]. inversion E; subst. auto.
    - intros [Hin <-]. eauto.
  Qed.
  Lemma keyed_get l k x : NoDup (map key l) -> bt_get k (keyed l) = Some x <-> In x l /\ key x = k.
  Proof.
    intro Hnd. rewrite <- keyed_in. split; [apply bt_get_in|].
    apply bt_get_nodup. now apply keyed_nodup.
  Qed.

  Lemma opt_rel_of_lists la lb :
    NoDup (map key la) -> NoDup (map key lb) ->
    (forall a, In a la -> exists b, In b lb /\ key a = key b /\ R a b) ->
    (forall b, In b lb -> exists a, In a la /\ key a = key b /\ R a b) ->
    forall k, opt_rel R (bt_get k (keyed la)) (bt_get k (keyed lb)).
  Proof.
    intros Ha Hb H1 H2 k.
    destruct (bt_get k (keyed la)) as [a|] eqn:Ea, (bt_get k (keyed lb)) as [b|] eqn:Eb; cbn [opt_rel].
    - apply (keyed_get la k a Ha) in Ea. apply (keyed_get lb k b Hb) in Eb.
      destruct Ea as [Ia Ka], Eb as [Ib Kb]. destruct (H1 a Ia) as [b' [Ib' [Kb' Rb']]].
      assert (b' = b) by (apply (NoDup_map_inj key lb); try assumption; congruence).
      now subst b'.
    - apply (keyed_get la k a Ha) in Ea. destruct Ea as [Ia Ka].
      destruct (H1 a Ia) as [b' [Ib' [Kb' Rb']]].
      assert (E : bt_get k (keyed lb) = Some b') by (apply keyed_get; [assumption|split; congruence]).
      rewrite E in Eb. discriminate.
    - apply (keyed_get lb k b Hb) in Eb. destruct Eb as [Ib Kb].
      destruct (H2 b Ib) as [a' [Ia' [Ka' Ra']]].
      assert (E : bt_get k (keyed la) = Some a') by (apply keyed_get; [assumption|split; congruence]).
      rewrite E in Ea. discriminate.
    - exact I.
  Qed.
End OfLists.

Definition table_equiv_l (a b : table_def) : Prop :=
  NoDup (map c_name (t_columns a)) /\ NoDup (map c_name (t_columns b))
  /\ (forall ca, In ca (t_columns a) ->
        exists cb, In cb (t_columns b) /\ c_name ca = c_name cb /\ col_equiv ca cb)
  /\ (forall cb, In cb (t_columns b) ->
        exists ca, In ca (t_columns a) /\ c_name ca = c_name cb /\ col_equiv ca cb)
  /\ incl (t_constraints a) (t_constraints b)
  /\ incl (t_constraints b) (t_constraints a).

(* both tables normalise and their normal forms are equivalent *)
Definition tables_match (a b : table_def) : Prop :=
  exists na nb, normalize a = Ok na /\ normalize b = Ok nb /\ table_equiv_l na nb.

Definition schema_equiv_l (A B : schema) : Prop :=
  NoDup (map t_name A) /\ NoDup (map t_name B)
  /\ (forall a, In a A -> exists b, In b B /\ t_name a = t_name b /\ tables_match a b)
  /\ (forall b, In b B -> exists a, In a A /\ t_name a = t_name b /\ tables_match a b).

Lemma table_equiv_of_l a b : table_equiv_l a b -> table_equiv a b.
Proof.
  intros (Na & Nb & H1 & H2 & I1 & I2). split; [|split; assumption].
  intro k. unfold col_named. apply (opt_rel_of_lists c_name col_equiv); assumption.
Qed.

Lemma normalize_all_in : forall S ns, normalize_all S = Ok ns ->
  (forall t, In t S -> exists n, In n ns /\ normalize t = Ok n)
  /\ (forall n, In n ns -> exists t, In t S /\ normalize t = Ok n).
Proof.
  unfold normalize_all. induction S as [|t S IH]; intros ns H; cbn [map_result] in H.
  - inversion H. split; intros x [].
  - destruct (normalize t) as [n|e'] eqn:En; [|discriminate].
    destruct (map_result _ S) as [ns'|e'] eqn:E; [|discriminate]. inversion H; subst.
    destruct (IH ns' eq_refl) as [F G]. split.
    + intros u [<-|Hu]; [exists n; split; [now left|exact En]|].
      destruct (F u Hu) as [m [Hm Em]]. exists m. split; [now right|exact Em].
    + intros m [<-|Hm]; [exists t; split; [now left|exact En]|].
      destruct (G m Hm) as [u [Hu Eu]]. exists u. split; [now right|exact Eu].
Qed.

Theorem schema_equiv_of_l A B : schema_equiv_l A B -> schema_equiv A B.
Proof.
  intros (NA & NB & H1 & H2).
  destruct (normalize_all_ok A) as [An HA].
  { intros a Ha. destruct (H1 a Ha) as (b & _ & _ & na & nb & E & _). eauto. }
  destruct (normalize_all_ok B) as [Bn HB].
  { intros b Hb. destruct (H2 b Hb) as (a & _ & _ & na & nb & _ & E & _). eauto. }
  exists An, Bn. split; [exact HA|split; [exact HB|]].
  destruct (normalize_all_in A An HA) as [FA GA]. destruct (normalize_all_in B Bn HB) as [FB GB].
  intro k. unfold table_named. apply (opt_rel_of_lists t_name table_equiv).
  - now rewrite (normalize_all_names A An HA).
  - now rewrite (normalize_all_names B Bn HB).
  - intros na Hna. destruct (GA na Hna) as [a [Ha Ea]].
    destruct (H1 a Ha) as (b & Hb & Hn & na' & nb & Ea' & Eb & Heq).
    rewrite Ea in Ea'. inversion Ea'; subst na'.
    destruct (FB b Hb) as [nb' [Hnb' Eb']]. rewrite Eb in Eb'. inversion Eb'; subst nb'.
    exists nb. split; [exact Hnb'|split; [|now apply table_equiv_of_l]].
    rewrite (normalize_name a na Ea), (normalize_name b nb Eb). exact Hn.
  - intros nb Hnb. destruct (GB nb Hnb) as [b [Hb Eb]].
    destruct (H2 b Hb) as (a & Ha & Hn & na & nb' & Ea & Eb' & Heq).
    rewrite Eb in Eb'. inversion Eb'; subst nb'.
    destruct (FA a Ha) as [na' [Hna' Ea']]. rewrite Ea in Ea'. inversion Ea'; subst na'.
    exists na. split; [exact Hna'|split; [|now apply table_equiv_of_l]].
    rewrite (normalize_name a na Ea), (normalize_name b nb Eb). exact Hn.
Qed.

Corollary diff_equiv_l_empty : forall A B, schema_equiv_l A B -> diff_actions A B = Ok [].
Proof. intros A B H. apply diff_equiv_empty, schema_equiv_of_l, H. Qed.
