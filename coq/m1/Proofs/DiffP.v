(* Proofs about diff_actions (Model/Diff.v):
   - diff_self_empty : a schema diffed against itself yields the empty plan (C07 / C01);
   - diff_perm       : the plan does not depend on the order in which tables are listed (C08). *)
From VV.M1 Require Import Diff NormalizeP BtP SortP.
From Coq Require Import Lia Permutation Sorted.

(* ---------- small list facts ---------- *)
Lemma flat_map_nil {A B} (f : A -> list B) : forall l, (forall x, In x l -> f x = []) -> flat_map f l = [].
Proof.
  induction l as [|x l IH]; intro H; cbn [flat_map]; [reflexivity|].
  rewrite (H x (or_introl eq_refl)). cbn [app]. apply IH. intros y Hy. apply H. now right.
Qed.
Lemma filter_nil {A} (p : A -> bool) : forall l, (forall x, In x l -> p x = false) -> filter p l = [].
Proof.
  induction l as [|x l IH]; intro H; cbn [filter]; [reflexivity|].
  rewrite (H x (or_introl eq_refl)). apply IH. intros y Hy. apply H. now right.
Qed.
Lemma app_nil2 {A} (a b : list A) : a = [] -> b = [] -> a ++ b = [].
Proof. intros -> ->. reflexivity. Qed.

(* ---------- diff_actions factored through the three maps ---------- *)
Definition diff_deletes (fm tm : list (string * table_def)) : list action :=
  flat_map (fun kv => if bt_mem (fst kv) tm then [] else [DeleteTable (fst kv)]) fm.
Definition diff_updates (fm tm : list (string * table_def)) : list action :=
  flat_map (fun kv => match bt_get (fst kv) fm with
                      | Some ft => table_group (fst kv) ft (snd kv)
                      | None => []
                      end) tm.
Definition diff_new (fm tm : list (string * table_def)) : list table_def :=
  flat_map (fun kv => if bt_mem (fst kv) fm then [] else [snd kv]) tm.
Definition diff_core (fm tm to_orig : list (string * table_def)) : result (list action) diff_error :=
  match topo_sort (diff_new fm tm) with
  | TopoCycle => Err DiffCycle
  | TopoOutOfFuel => Err DiffOutOfFuel
  | TopoOk sorted =>
      let creates := flat_map (fun t => match bt_get (t_name t) to_orig with
                                        | Some o => [CreateTable (t_name o) (t_columns o) (t_constraints o)]
                                        | None => []
                                        end) sorted in
      let a0 := diff_deletes fm tm ++ diff_updates fm tm ++ creates in
      let a1 := sort_delete_tables a0 fm in
      let a2 := sort_create_before_add_constraint a1 in
      Ok (sort_enum_default_dependencies a2 fm)
  end.
Definition name_map (s : list table_def) : list (string * table_def) :=
  bt_of_list (map (fun t => (t_name t, t)) s).

Lemma diff_actions_core from to :
  diff_actions from to =
  match normalize_all from with
  | Err e => Err e
  | Ok from_n =>
      match normalize_all to with
      | Err e => Err e
      | Ok to_n => diff_core (name_map from_n) (name_map to_n) (name_map to)
      end
  end.
Proof. reflexivity. Qed.

(* ---------- reflexive cases of the per-column / per-constraint comparisons ---------- *)
Lemma contains_constraint_in c l : In c l -> contains_constraint c l = true.
Proof.
  unfold contains_constraint. intro H. apply existsb_exists. exists c. split; [exact H|].
  unfold constraint_eqb. apply dec_b_refl.
Qed.

Lemma requires_migration_refl ty : requires_migration ty ty = false.
Proof.
  destruct ty; cbn [requires_migration]; unfold column_type_eqb;
    try (rewrite dec_b_refl; reflexivity).
  destruct (ev_is_integer values && ev_is_integer values)%bool; [reflexivity|].
  now rewrite dec_b_refl.
Qed.

Lemma needs_enum_rename_refl ty : needs_enum_rename ty ty = false.
Proof. destruct ty; cbn [needs_enum_rename]; try reflexivity. now rewrite String.eqb_refl. Qed.

Lemma opt_str_eqb_refl a : opt_str_eqb a a = true.
Proof. unfold opt_str_eqb. apply dec_b_refl. Qed.

Theorem table_group_self n t : table_group n t t = [].
Proof.
  unfold table_group. cbv zeta.
  set (C := bt_of_list (map (fun c => (c_name c, c)) (t_columns t))).
  assert (HC : bt_sorted C) by apply bt_of_list_sorted.
  assert (Hdel : filter (fun kv : string * column_def => negb (bt_mem (fst kv) C)) C = []).
  { apply filter_nil. intros kv Hin. now rewrite (bt_mem_self C kv Hin). }
  rewrite Hdel. cbn [map].
  repeat apply app_nil2.
  - reflexivity.
  - apply flat_map_nil. intros [k c] Hin. cbn [fst snd]. rewrite (bt_sorted_get k c C HC Hin).
    now rewrite requires_migration_refl, needs_enum_rename_refl.
  - apply flat_map_nil. intros [k c] Hin. cbn [fst snd]. rewrite (bt_sorted_get k c C HC Hin).
    now rewrite Bool.eqb_reflx.
  - apply flat_map_nil. intros [k c] Hin. cbn [fst snd]. rewrite (bt_sorted_get k c C HC Hin).
    now rewrite opt_str_eqb_refl.
  - apply flat_map_nil. intros [k c] Hin. cbn [fst snd]. rewrite (bt_sorted_get k c C HC Hin).
    now rewrite opt_str_eqb_refl.
  - apply flat_map_nil. intros kv Hin. now rewrite (bt_mem_self C kv Hin).
  - apply flat_map_nil. intros c Hin. now rewrite (contains_constraint_in c _ Hin).
  - apply flat_map_nil. intros c Hin. now rewrite (contains_constraint_in c _ Hin).
Qed.

(* ---------- the core on identical maps ---------- *)
Lemma diff_deletes_self m : diff_deletes m m = [].
Proof. apply flat_map_nil. intros kv Hin. now rewrite (bt_mem_self m kv Hin). Qed.
Lemma diff_new_self m : diff_new m m = [].
Proof. apply flat_map_nil. intros kv Hin. now rewrite (bt_mem_self m kv Hin). Qed.
Lemma diff_updates_self m : bt_sorted m -> diff_updates m m = [].
Proof.
  intro Hs. apply flat_map_nil. intros [k t] Hin. cbn [fst snd].
  rewrite (bt_sorted_get k t m Hs Hin). apply table_group_self.
Qed.

Lemma diff_core_self m o : bt_sorted m -> diff_core m m o = Ok [].
Proof.
  intro Hs. unfold diff_core. rewrite diff_new_self. cbn [topo_sort]. cbv zeta.
  rewrite diff_deletes_self, (diff_updates_self m Hs). reflexivity.
Qed.

(* ---------- normalize_all ---------- *)
Lemma normalize_all_ok : forall S, (forall t, In t S -> exists n, normalize t = Ok n) ->
  exists ns, normalize_all S = Ok ns.
Proof.
  unfold normalize_all. induction S as [|t S IH]; intro H; cbn [map_result]; [eauto|].
  destruct (H t (or_introl eq_refl)) as [n ->].
  destruct IH as [ns ->]; [intros u Hu; apply H; now right|]. eauto.
Qed.

Theorem diff_self_empty : forall S, (forall t, In t S -> exists n, normalize t = Ok n) ->
  diff_actions S S = Ok [].
Proof.
  intros S H. rewrite diff_actions_core. destruct (normalize_all_ok S H) as [ns ->].
  apply diff_core_self. apply bt_of_list_sorted.
Qed.

(* ---------- map_result and permutations ---------- *)
Lemma map_result_perm_ok {A B E} (f : A -> result B E) l l' : Permutation l l' ->
  forall ys, map_result f l = Ok ys -> exists ys', map_result f l' = Ok ys' /\ Permutation ys ys'.
Proof.
  induction 1 as [|x l l' Hp IH|x y l|l l' l'' Hp1 IH1 Hp2 IH2]; intros ys H.
  - exists []. cbn [map_result] in *. inversion H. split; [reflexivity|constructor].
  - cbn [map_result] in *. destruct (f x) as [b|e]; [|discriminate].
    destruct (map_result f l) as [bs|e]; [|discriminate]. inversion H; subst.
    destruct (IH bs eq_refl) as [bs' [-> Hbs]]. exists (b :: bs'). split; [reflexivity|now constructor].
  - cbn [map_result] in *. destruct (f y) as [b|e]; [|discriminate].
    destruct (f x) as [c|e]; [|discriminate].
    destruct (map_result f l) as [bs|e]; [|discriminate]. inversion H; subst.
    exists (c :: b :: bs). split; [reflexivity|apply perm_swap].
  - destruct (IH1 ys H) as [ys' [H' P1]]. destruct (IH2 ys' H') as [ys'' [H'' P2]].
    exists ys''. split; [exact H''|eapply Permutation_trans; eassumption].
Qed.

Lemma normalize_all_err : forall S e, normalize_all S = Err e -> e = DiffTableValidation.
Proof.
  unfold normalize_all. induction S as [|t S IH]; intros e H; cbn [map_result] in H; [discriminate|].
  destruct (normalize t) as [n|e']; [|now inversion H].
  destruct (map_result _ S) as [ns|e'] eqn:E; [discriminate|]. inversion H; subst. now apply IH.
Qed.

Lemma normalize_name t n : normalize t = Ok n -> t_name n = t_name t.
Proof. intro H. apply (normalize_lossless t n H). Qed.

Lemma normalize_all_names : forall S ns, normalize_all S = Ok ns -> map t_name ns = map t_name S.
Proof.
  unfold normalize_all. induction S as [|t S IH]; intros ns H; cbn [map_result] in H.
  - inversion H. reflexivity.
  - destruct (normalize t) as [n|e'] eqn:En; [|discriminate].
    destruct (map_result _ S) as [ns'|e'] eqn:E; [|discriminate]. inversion H; subst.
    cbn [map]. now rewrite (normalize_name t n En), (IH ns' eq_refl).
Qed.

Lemma normalize_all_perm S S' : Permutation S S' ->
  match normalize_all S, normalize_all S' with
  | Ok a, Ok b => Permutation a b
  | Err e, Err e' => e = e'
  | _, _ => False
  end.
Proof.
  intro Hp.
  destruct (normalize_all S) as [a|e] eqn:E, (normalize_all S') as [b|e'] eqn:E'.
  - destruct (map_result_perm_ok _ _ _ Hp a E) as [b' [Hb' P]].
    unfold normalize_all in E'. rewrite E' in Hb'. inversion Hb'; subst. exact P.
  - destruct (map_result_perm_ok _ _ _ Hp a E) as [b' [Hb' P]].
    unfold normalize_all in E'. rewrite E' in Hb'. discriminate.
  - destruct (map_result_perm_ok _ _ _ (Permutation_sym Hp) b E') as [a' [Ha' P]].
    unfold normalize_all in E. rewrite E in Ha'. discriminate.
  - rewrite (normalize_all_err _ _ E), (normalize_all_err _ _ E'). reflexivity.
Qed.

Lemma name_map_perm s s' : NoDup (map t_name s) -> Permutation s s' -> name_map s = name_map s'.
Proof.
  intros Hnd Hp. unfold name_map. apply bt_perm.
  - rewrite map_map. cbn [fst]. exact Hnd.
  - now apply Permutation_map.
Qed.

Theorem diff_perm : forall A A' B B',
  NoDup (map t_name A) -> NoDup (map t_name B) -> Permutation A A' -> Permutation B B' ->
  diff_actions A B = diff_actions A' B'.
Proof.
  intros A A' B B' HA HB PA PB. rewrite !diff_actions_core.
  pose proof (normalize_all_perm A A' PA) as NA.
  destruct (normalize_all A) as [an|ea] eqn:EA, (normalize_all A') as [an'|ea'] eqn:EA';
    try contradiction; [|congruence].
  pose proof (normalize_all_perm B B' PB) as NB.
  destruct (normalize_all B) as [bn|eb] eqn:EB, (normalize_all B') as [bn'|eb'] eqn:EB';
    try contradiction; [|congruence].
  rewrite (name_map_perm an an'), (name_map_perm bn bn'), (name_map_perm B B'); try assumption.
  - reflexivity.
  - now rewrite (normalize_all_names B bn EB).
  - now rewrite (normalize_all_names A an EA).
Qed.
