(* C07: every rewrite of the oracle's re-speller (Model/Respell.v) preserves the normal form up to
   the order of constraints, hence both diffs are empty.  The Rust guards that turned out NOT to be
   sufficient are refuted on concrete witnesses (…_refuted). *)
From VV.M1 Require Import Diff Respell NormalizeP BtP SortP DiffP DiffEqP PrefixP.
From Coq Require Import Lia Permutation Relations.

(* ====================================================================================== *)
(* 1. constraint lists as sets *)
Definition ceq (a b : list table_constraint) : Prop := incl a b /\ incl b a.

Lemma ceq_refl a : ceq a a.
Proof. split; apply incl_refl. Qed.
Lemma ceq_sym a b : ceq a b -> ceq b a.
Proof. intros [H1 H2]. now split. Qed.
Lemma ceq_trans a b c : ceq a b -> ceq b c -> ceq a c.
Proof. intros [H1 H2] [H3 H4]. split; eapply incl_tran; eassumption. Qed.
Lemma ceq_perm a b : Permutation a b -> ceq a b.
Proof. intro P. split; intros x Hx; [eapply Permutation_in; eauto | eapply Permutation_in; [apply Permutation_sym|]; eauto]. Qed.
Lemma ceq_cons x a b : ceq a b -> ceq (x :: a) (x :: b).
Proof. intros [H1 H2]. split; intros y [<-|Hy]; try (now left); right; auto. Qed.
Lemma ceq_snoc x a : ceq (a ++ [x]) (x :: a).
Proof. apply ceq_perm. apply Permutation_sym, Permutation_cons_append. Qed.
Lemma ceq_app_r a b x : ceq a b -> ceq (a ++ x) (b ++ x).
Proof. intros [H1 H2]. split; apply incl_app; try (apply incl_appl; assumption); apply incl_appr, incl_refl. Qed.
Lemma ceq_dup x a : In x a -> ceq (x :: a) a.
Proof. intro H. split; [intros y [<-|Hy]; assumption | apply incl_tl, incl_refl]. Qed.
Lemma ceq_mid x a b : ceq (a ++ x :: b) (x :: a ++ b).
Proof. apply ceq_perm, Permutation_sym, Permutation_middle. Qed.
Lemma ceq_existsb p a b : ceq a b -> existsb p a = existsb p b.
Proof.
  intros [H1 H2]. destruct (existsb p a) eqn:Ea, (existsb p b) eqn:Eb; try reflexivity.
  - apply existsb_exists in Ea. destruct Ea as [x [Hx Px]].
    assert (existsb p b = true) by (apply existsb_exists; exists x; auto). congruence.
  - apply existsb_exists in Eb. destruct Eb as [x [Hx Px]].
    assert (existsb p a = true) by (apply existsb_exists; exists x; auto). congruence.
Qed.

(* results related by R on success, equal on failure *)
Definition rrel {A B E} (R : A -> B -> Prop) (r1 : result A E) (r2 : result B E) : Prop :=
  match r1, r2 with
  | Ok x, Ok y => R x y
  | Err e, Err e' => e = e'
  | _, _ => False
  end.
Lemma rrel_eq {A E} (R : A -> A -> Prop) (r : result A E) : (forall x, R x x) -> rrel R r r.
Proof. intro H. destruct r; cbn; auto. Qed.

(* ====================================================================================== *)
(* 2. the passes respect set equality of the accumulated constraint list *)
Section PushCeq.
  Context {B : Type} (hit : B -> table_constraint -> bool) (mk : B -> table_constraint).

  Lemma push_ceq a b x : ceq a b -> ceq (push_if_absent hit mk a x) (push_if_absent hit mk b x).
  Proof.
    intro H. unfold push_if_absent. rewrite (ceq_existsb (hit x) a b H).
    destruct (existsb (hit x) b); [exact H | now apply ceq_app_r].
  Qed.
  Lemma push_fold_ceq bs : forall a b, ceq a b ->
    ceq (fold_left (push_if_absent hit mk) bs a) (fold_left (push_if_absent hit mk) bs b).
  Proof. induction bs as [|x bs IH]; intros a b H; cbn [fold_left]; [exact H|]. apply IH, push_ceq, H. Qed.
  (* a constraint no group ever matches is carried through unchanged *)
  Lemma push_fold_frame u bs : (forall b, In b bs -> hit b u = false) -> forall acc,
    fold_left (push_if_absent hit mk) bs (u :: acc) = u :: fold_left (push_if_absent hit mk) bs acc.
  Proof.
    induction bs as [|x bs IH]; intros H acc; cbn [fold_left]; [reflexivity|].
    unfold push_if_absent at 2 4. cbn [existsb]. rewrite (H x (or_introl eq_refl)). cbn [orb].
    destruct (existsb (hit x) acc); apply IH; intros b Hb; apply H; now right.
  Qed.
End PushCeq.

Lemma pass_pk_ceq cols a b : ceq a b -> ceq (pass_pk cols a) (pass_pk cols b).
Proof.
  intro H. unfold pass_pk. destruct (pk_cols_of cols); [exact H|].
  rewrite (ceq_existsb is_pk a b H). destruct (existsb is_pk b); [exact H | now apply ceq_app_r].
Qed.
Lemma pass_pk_frame cols u cs : is_pk u = false -> pass_pk cols (u :: cs) = u :: pass_pk cols cs.
Proof.
  intro H. unfold pass_pk. destruct (pk_cols_of cols); [reflexivity|].
  cbn [existsb]. rewrite H. cbn [orb]. destruct (existsb is_pk cs); reflexivity.
Qed.

Lemma pass_fk_ceq cols : forall a b, ceq a b -> rrel ceq (pass_fk cols a) (pass_fk cols b).
Proof.
  induction cols as [|c r IH]; intros a b H; cbn [pass_fk]; [exact H|].
  destruct (c_foreign_key c) as [f|]; [|now apply IH].
  destruct (fk_of_syntax (c_name c) f) as [[[[t rc] od] ou]|e]; [|reflexivity].
  rewrite (ceq_existsb (fk_hit (c_name c)) a b H).
  destruct (existsb (fk_hit (c_name c)) b); apply IH; [exact H | now apply ceq_app_r].
Qed.
Lemma pass_fk_frame cols u : (forall cn, fk_hit cn u = false) -> forall cs,
  rrel (fun x y => y = u :: x) (pass_fk cols cs) (pass_fk cols (u :: cs)).
Proof.
  intro Hu. induction cols as [|c r IH]; intro cs; cbn [pass_fk]; [reflexivity|].
  destruct (c_foreign_key c) as [f|]; [|apply IH].
  destruct (fk_of_syntax (c_name c) f) as [[[[t rc] od] ou]|e]; [|reflexivity].
  cbn [existsb]. rewrite Hu. cbn [orb].
  destruct (existsb (fk_hit (c_name c)) cs); [apply IH|]. exact (IH (cs ++ [_])).
Qed.

(* everything after pass 1 *)
Definition nc_rest (cols : list column_def) (cs1 : list table_constraint)
  : result (list table_constraint) table_error :=
  match pass_fk cols (pass_unique cols cs1) with
  | Err e => Err e
  | Ok cs3 =>
      match index_groups cols [] with
      | Err e => Err e
      | Ok gs => Ok (fold_left (push_if_absent index_hit index_mk) gs cs3)
      end
  end.
Lemma nc_split cols cs : normalize_constraints cols cs = nc_rest cols (pass_pk cols cs).
Proof. reflexivity. Qed.

Lemma nc_rest_ceq cols a b : ceq a b -> rrel ceq (nc_rest cols a) (nc_rest cols b).
Proof.
  intro H. unfold nc_rest.
  pose proof (pass_fk_ceq cols _ _ (push_fold_ceq unique_hit unique_mk (unique_groups cols) a b H)) as F.
  unfold pass_unique.
  destruct (pass_fk cols (fold_left _ (unique_groups cols) a)) as [x|e],
           (pass_fk cols (fold_left _ (unique_groups cols) b)) as [y|e']; cbn [rrel] in F; try contradiction.
  - destruct (index_groups cols []) as [gs|e]; cbn [rrel]; [|reflexivity]. now apply push_fold_ceq.
  - exact F.
Qed.
Theorem nc_ceq cols a b : ceq a b -> rrel ceq (normalize_constraints cols a) (normalize_constraints cols b).
Proof. intro H. rewrite !nc_split. apply nc_rest_ceq, pass_pk_ceq, H. Qed.

(* ====================================================================================== *)
(* 3. what each pass reads of a column *)
Definition pk_sim (c c' : column_def) : Prop := c_name c = c_name c' /\ c_primary_key c = c_primary_key c'.
Definition uq_sim (c c' : column_def) : Prop := forall gs, unique_groups_step gs c = unique_groups_step gs c'.
Definition ix_sim (c c' : column_def) : Prop := forall gs, index_groups_step gs c = index_groups_step gs c'.
Definition fk_sem (c : column_def) := option_map (fk_of_syntax (c_name c)) (c_foreign_key c).
Definition fk_sim (c c' : column_def) : Prop := c_name c = c_name c' /\ fk_sem c = fk_sem c'.

Lemma pk_sim_cols cols cols' : Forall2 pk_sim cols cols' ->
  pk_cols_of cols = pk_cols_of cols' /\ pk_auto_of cols = pk_auto_of cols'.
Proof.
  induction 1 as [|c c' xs xs' [Hn Hp] _ [IH1 IH2]]; [split; reflexivity|].
  unfold pk_cols_of, pk_auto_of in *. cbn [flat_map existsb]. rewrite Hn, Hp, IH1, IH2. split; reflexivity.
Qed.
Lemma pass_pk_sim cols cols' cs : Forall2 pk_sim cols cols' -> pass_pk cols cs = pass_pk cols' cs.
Proof. intro H. destruct (pk_sim_cols _ _ H) as [H1 H2]. unfold pass_pk. now rewrite H1, H2. Qed.
Lemma uq_sim_cols cols cols' : Forall2 uq_sim cols cols' -> unique_groups cols = unique_groups cols'.
Proof.
  intro H. unfold unique_groups. generalize (@nil group).
  induction H as [|c c' xs xs' Hc _ IH]; intro gs; cbn [fold_left]; [reflexivity|]. now rewrite (Hc gs).
Qed.
Lemma ix_sim_cols cols cols' : Forall2 ix_sim cols cols' -> forall gs, index_groups cols gs = index_groups cols' gs.
Proof.
  induction 1 as [|c c' xs xs' Hc _ IH]; intro gs; cbn [index_groups]; [reflexivity|]. rewrite (Hc gs).
  destruct (index_groups_step gs c'); [apply IH|reflexivity].
Qed.
Lemma fk_sim_cols cols cols' : Forall2 fk_sim cols cols' -> forall cs, pass_fk cols cs = pass_fk cols' cs.
Proof.
  induction 1 as [|c c' xs xs' [Hn Hf] _ IH]; intro cs; cbn [pass_fk]; [reflexivity|].
  unfold fk_sem in Hf. rewrite <- Hn in *.
  destruct (c_foreign_key c) as [f|], (c_foreign_key c') as [f'|]; cbn [option_map] in Hf; try discriminate.
  - injection Hf as Hf. rewrite <- Hf. destruct (fk_of_syntax (c_name c) f) as [[[[t rc] od] ou]|e]; [|reflexivity].
    destruct (existsb (fk_hit (c_name c)) cs); apply IH.
  - apply IH.
Qed.
Lemma nc_rest_sim cols cols' cs :
  Forall2 uq_sim cols cols' -> Forall2 fk_sim cols cols' -> Forall2 ix_sim cols cols' ->
  nc_rest cols cs = nc_rest cols' cs.
Proof.
  intros Hu Hf Hi. unfold nc_rest, pass_unique.
  now rewrite (uq_sim_cols _ _ Hu), (fk_sim_cols _ _ Hf), (ix_sim_cols _ _ Hi).
Qed.

(* Forall2 over a one-column replacement *)
Lemma Forall2_refl {A} (R : A -> A -> Prop) : (forall x, R x x) -> forall l, Forall2 R l l.
Proof. intros H l. induction l; constructor; auto. Qed.
Lemma Forall2_replace {A} (R : A -> A -> Prop) pre c c' post :
  (forall x, R x x) -> R c c' -> Forall2 R (pre ++ c :: post) (pre ++ c' :: post).
Proof. intros Hr Hc. apply Forall2_app; [now apply Forall2_refl|]. constructor; [exact Hc|now apply Forall2_refl]. Qed.
Lemma pk_sim_refl c : pk_sim c c. Proof. now split. Qed.
Lemma uq_sim_refl c : uq_sim c c. Proof. now intro. Qed.
Lemma ix_sim_refl c : ix_sim c c. Proof. now intro. Qed.
Lemma fk_sim_refl c : fk_sim c c. Proof. now split. Qed.

(* ====================================================================================== *)
(* 4. column / table equivalence as the differ sees it *)
Definition is_int_enum (t : column_type) : bool :=
  match t with TEnum _ v => ev_is_integer v | _ => false end.
Definition type_equiv (a b : column_type) : Prop :=
  a = b \/ (is_int_enum a = true /\ is_int_enum b = true).
Lemma dec_b_false {A} (d : forall x y : A, {x = y} + {x <> y}) x y : x <> y -> dec_b d x y = false.
Proof. unfold dec_b. destruct (d x y); [contradiction|reflexivity]. Qed.
Lemma type_equiv_spec a b :
  type_equiv a b <-> (requires_migration a b = false /\ needs_enum_rename a b = false).
Proof.
  split.
  - intros [<-|[Ha Hb]]; [split; [apply requires_migration_refl|apply needs_enum_rename_refl]|].
    destruct a; try discriminate. destruct b; try discriminate. cbn [is_int_enum] in Ha, Hb.
    cbn [requires_migration needs_enum_rename]. rewrite Ha, Hb. cbn. split; [reflexivity|].
    now rewrite andb_false_r.
  - intros [H1 H2].
    assert (G : forall x y, column_type_eqb x y = true -> x = y) by (intros x y; apply dec_b_true).
    destruct a, b; cbn [requires_migration needs_enum_rename] in H1, H2;
      try (left; apply G; now apply negb_false_iff in H1).
    destruct (ev_is_integer values) eqn:E1, (ev_is_integer values0) eqn:E2; cbn [andb] in H1;
      try (right; split; assumption);
      apply negb_false_iff, dec_b_true in H1; subst values0; try congruence.
    cbn [negb andb] in H2. rewrite !andb_true_r in H2. apply negb_false_iff, String.eqb_eq in H2.
    left. now subst.
Qed.
Lemma type_equiv_sym a b : type_equiv a b -> type_equiv b a.
Proof. intros [->|[H1 H2]]; [now left | right; now split]. Qed.
Lemma type_equiv_trans a b c : type_equiv a b -> type_equiv b c -> type_equiv a c.
Proof. intros [->|[H1 H2]] [<-|[H3 H4]]; try (now left); right; split; assumption. Qed.

Lemma col_equiv_refl c : col_equiv c c.
Proof. repeat split; [apply requires_migration_refl | apply needs_enum_rename_refl]. Qed.
Lemma col_equiv_sym a b : col_equiv a b -> col_equiv b a.
Proof.
  intros (H1 & H2 & H3 & H4 & H5).
  destruct (proj1 (type_equiv_spec _ _) (type_equiv_sym _ _ (proj2 (type_equiv_spec _ _) (conj H1 H2)))) as [G1 G2].
  repeat split; auto.
Qed.
Lemma col_equiv_trans a b c : col_equiv a b -> col_equiv b c -> col_equiv a c.
Proof.
  intros (H1 & H2 & H3 & H4 & H5) (K1 & K2 & K3 & K4 & K5).
  destruct (proj1 (type_equiv_spec _ _)
    (type_equiv_trans _ _ _ (proj2 (type_equiv_spec _ _) (conj H1 H2)) (proj2 (type_equiv_spec _ _) (conj K1 K2))))
    as [G1 G2].
  repeat split; auto; congruence.
Qed.

Lemma opt_rel_sym {A} (R : A -> A -> Prop) : (forall x y, R x y -> R y x) ->
  forall a b, opt_rel R a b -> opt_rel R b a.
Proof. intros H [x|] [y|]; cbn [opt_rel]; auto. Qed.
Lemma opt_rel_trans {A} (R : A -> A -> Prop) : (forall x y z, R x y -> R y z -> R x z) ->
  forall a b c, opt_rel R a b -> opt_rel R b c -> opt_rel R a c.
Proof. intros H [x|] [y|] [z|]; cbn [opt_rel]; eauto; contradiction. Qed.

Lemma table_equiv_sym a b : table_equiv a b -> table_equiv b a.
Proof.
  intros (H1 & H2 & H3). split; [|split; assumption].
  intro k. apply (opt_rel_sym col_equiv col_equiv_sym), H1.
Qed.
Lemma table_equiv_trans a b c : table_equiv a b -> table_equiv b c -> table_equiv a c.
Proof.
  intros (H1 & H2 & H3) (K1 & K2 & K3). split; [|split; eapply incl_tran; eassumption].
  intro k. eapply (opt_rel_trans col_equiv col_equiv_trans); [apply H1|apply K1].
Qed.

(* pointwise related lists give related last-wins lookups (no distinctness needed) *)
Lemma keyed_forall2 {A} (key : A -> string) (R : A -> A -> Prop) la lb :
  Forall2 (fun a b => key a = key b /\ R a b) la lb ->
  forall k, opt_rel R (bt_get k (rev (map (fun x => (key x, x)) la)))
                      (bt_get k (rev (map (fun x => (key x, x)) lb))).
Proof.
  induction 1 as [|a b la lb [Hk Hr] _ IH]; intro k; cbn [map rev]; [exact I|].
  rewrite !bt_get_app. specialize (IH k).
  destruct (bt_get k (rev (map _ la))) as [x|], (bt_get k (rev (map _ lb))) as [y|];
    cbn [opt_rel] in IH; try contradiction; [exact IH|].
  cbn [bt_get]. rewrite Hk. destruct (String.eqb k (key b)); [exact Hr|exact I].
Qed.

Definition col_sim (c c' : column_def) : Prop := c_name c = c_name c' /\ col_equiv c c'.
Lemma col_sim_refl c : col_sim c c. Proof. split; [reflexivity|apply col_equiv_refl]. Qed.

(* two spellings of one table: same name, both normalise, equivalent normal forms *)
Definition tmatch (t t' : table_def) : Prop :=
  t_name t = t_name t' /\ exists n n', normalize t = Ok n /\ normalize t' = Ok n' /\ table_equiv n n'.

Lemma tmatch_refl t n : normalize t = Ok n -> tmatch t t.
Proof.
  intro H. split; [reflexivity|]. exists n, n. split; [exact H|split; [exact H|]].
  split; [|split; apply incl_refl]. intro k. destruct (col_named k n); cbn [opt_rel]; [apply col_equiv_refl|exact I].
Qed.
Lemma tmatch_sym t t' : tmatch t t' -> tmatch t' t.
Proof.
  intros [Hn (n & n' & H1 & H2 & H3)]. split; [now symmetry|]. exists n', n.
  split; [exact H2|split; [exact H1|now apply table_equiv_sym]].
Qed.
Lemma tmatch_trans a b c : tmatch a b -> tmatch b c -> tmatch a c.
Proof.
  intros [Hn (n & n' & H1 & H2 & H3)] [Kn (m & m' & K1 & K2 & K3)]. split; [congruence|].
  rewrite H2 in K1. injection K1 as <-. exists n, m'.
  split; [exact H1|split; [exact K2|eapply table_equiv_trans; eassumption]].
Qed.

(* the master lemma: related columns + set-equal normalised constraints *)
Lemma tmatch_intro nm d cols cols' cs cs' :
  Forall2 col_sim cols cols' ->
  rrel ceq (normalize_constraints cols cs) (normalize_constraints cols' cs') ->
  (exists n, normalize (mkTable nm d cols cs) = Ok n) ->
  tmatch (mkTable nm d cols cs) (mkTable nm d cols' cs').
Proof.
  intros Hc Hr [n Hn]. split; [reflexivity|]. unfold normalize in *.
  cbn [t_columns t_constraints t_name t_description] in *.
  destruct (normalize_constraints cols cs) as [x|e]; [|discriminate].
  destruct (normalize_constraints cols' cs') as [y|e]; cbn [rrel] in Hr; [|contradiction].
  eexists _, _. split; [reflexivity|split; [reflexivity|]].
  split; [|exact Hr]. intro k. unfold col_named. cbn [t_columns].
  apply (keyed_forall2 c_name col_equiv). exact Hc.
Qed.

(* ====================================================================================== *)
(* 5. rules that rewrite one column without touching what normalize reads *)
Lemma replace_same_nc nm d pre c c' post cs :
  pk_sim c c' -> uq_sim c c' -> fk_sim c c' -> ix_sim c c' -> col_equiv c c' ->
  (exists n, normalize (mkTable nm d (pre ++ c :: post) cs) = Ok n) ->
  tmatch (mkTable nm d (pre ++ c :: post) cs) (mkTable nm d (pre ++ c' :: post) cs).
Proof.
  intros Hp Hu Hf Hi He Hn. apply tmatch_intro; [| |exact Hn].
  - apply Forall2_replace; [apply col_sim_refl|]. split; [apply Hp|exact He].
  - rewrite !nc_split.
    rewrite (pass_pk_sim (pre ++ c :: post) (pre ++ c' :: post) cs)
      by (apply Forall2_replace; [apply pk_sim_refl|exact Hp]).
    rewrite (nc_rest_sim (pre ++ c :: post) (pre ++ c' :: post))
      by (apply Forall2_replace; auto using uq_sim_refl, fk_sim_refl, ix_sim_refl).
    apply rrel_eq, ceq_refl.
Qed.

(* ---------- rule 4: default literals ---------- *)
Lemma N_to_string_fuel_nonempty fuel : forall n acc, acc <> "" -> N_to_string_fuel fuel n acc <> "".
Proof.
  induction fuel as [|f IH]; intros n acc H; cbn [N_to_string_fuel]; [exact H|]. cbv zeta.
  destruct (N.eqb (n / 10) 0); [discriminate|]. apply IH. discriminate.
Qed.
Lemma N_to_string_nonempty n : N_to_string n <> "".
Proof.
  unfold N_to_string. cbn [N_to_string_fuel]. cbv zeta.
  destruct (N.eqb (n / 10) 0); [discriminate|]. apply N_to_string_fuel_nonempty. discriminate.
Qed.
Lemma Z_to_string_nonempty z : Z_to_string z <> "".
Proof. destruct z; cbn [Z_to_string]; [discriminate|apply N_to_string_nonempty|discriminate]. Qed.

Lemma default_respelling_sql dv dv' : default_respelling dv dv' -> default_to_sql dv = default_to_sql dv'.
Proof.
  assert (G : forall s, s <> "" -> (if String.eqb s "" then "''" else s) = s).
  { intros s Hs. apply String.eqb_neq in Hs. now rewrite Hs. }
  intros [n|b|r Hr|n|b]; cbn [default_to_sql].
  - symmetry. apply G, Z_to_string_nonempty.
  - now destruct b.
  - symmetry. now apply G.
  - apply G, Z_to_string_nonempty.
  - now destruct b.
Qed.

Theorem respell_default_ok nm d pre c post cs dv dv' :
  c_default c = Some dv -> default_respelling dv dv' ->
  (exists n, normalize (mkTable nm d (pre ++ c :: post) cs) = Ok n) ->
  tmatch (mkTable nm d (pre ++ c :: post) cs) (mkTable nm d (pre ++ set_default (Some dv') c :: post) cs).
Proof.
  intros Hd Hr Hn. apply replace_same_nc; try (destruct c; now split); try (destruct c; now intro); [|exact Hn].
  destruct c as [n ty nu df cm pk u ix fk]. cbn [c_default] in Hd. subst df.
  unfold col_equiv, set_default. cbn [c_type c_nullable c_default c_comment c_name c_primary_key c_unique c_index c_foreign_key option_map].
  rewrite (default_respelling_sql _ _ Hr).
  repeat split; [apply requires_migration_refl|apply needs_enum_rename_refl].
Qed.

(* the model-only corner excluded by DR_float's hypothesis (Rust's f64::to_string() is never "") *)
Example respell_default_float_empty_refuted :
  let t  := mkTable "t" None [mkCol "c" (TSimple Real) false (Some (DFloat "")) None None None None None] [] in
  let t' := mkTable "t" None [mkCol "c" (TSimple Real) false (Some (DStr "")) None None None None None] [] in
  diff_actions [t] [t'] = Ok [ModifyColumnDefault "t" "c" (Some "''")].
Proof. vm_compute. reflexivity. Qed.

(* ---------- rule 6: constraint order ---------- *)
Theorem respell_perm_ok nm d cols cs cs' :
  Permutation cs cs' ->
  (exists n, normalize (mkTable nm d cols cs) = Ok n) ->
  tmatch (mkTable nm d cols cs) (mkTable nm d cols cs').
Proof.
  intros P Hn. apply tmatch_intro; [apply Forall2_refl, col_sim_refl| |exact Hn].
  apply nc_ceq, ceq_perm, P.
Qed.

(* ---------- rule 5: integer-enum relabelling ---------- *)
Theorem respell_int_enum_ok nm d pre c post cs en vals en' vals' :
  c_type c = TEnum en (EVInteger vals) ->
  (exists n, normalize (mkTable nm d (pre ++ c :: post) cs) = Ok n) ->
  tmatch (mkTable nm d (pre ++ c :: post) cs)
         (mkTable nm d (pre ++ set_type (TEnum en' (EVInteger vals')) c :: post) cs).
Proof.
  intros Ht Hn. apply replace_same_nc; try (destruct c; now split); try (destruct c; now intro); [|exact Hn].
  destruct c as [n ty nu df cm pk u ix fk]. cbn [c_type] in Ht. subst ty.
  unfold col_equiv, set_type. cbn [c_type c_nullable c_default c_comment c_name c_primary_key c_unique c_index c_foreign_key].
  cbn [requires_migration needs_enum_rename ev_is_integer andb negb]. rewrite andb_false_r.
  repeat split; reflexivity.
Qed.

(* ---------- rule 2, third arm: dropping an explicit `false` ---------- *)
Theorem respell_key_drop_false_ok k nm d pre c post cs :
  kk_get k c = Some (SBool false) ->
  (exists n, normalize (mkTable nm d (pre ++ c :: post) cs) = Ok n) ->
  tmatch (mkTable nm d (pre ++ c :: post) cs) (mkTable nm d (pre ++ kk_set k None c :: post) cs).
Proof.
  intros Hk Hn. destruct c as [n ty nu df cm pk u ix fk].
  destruct k; cbn [kk_get c_unique c_index] in Hk; subst;
    (apply replace_same_nc; [now split|now intro|now split|now intro| |exact Hn]);
    (repeat split; [apply requires_migration_refl|apply needs_enum_rename_refl]).
Qed.

(* ====================================================================================== *)
(* 6. rule 2: unnamed single-column unique / index, inline <-> table level *)

(* ---------- the inline groups as one fold; removing a key ---------- *)
Definition gadd_names (col : string) (names : list string) (gs : list group) : list group :=
  fold_left (fun g n => group_add n col g) names gs.
Definition gstep (get : column_def -> option str_or_bool_or_array) (gs : list group) (c : column_def) :=
  gadd_names (c_name c) (inline_keys (get c) (c_name c)) gs.
Definition gfold get (cols : list column_def) (gs : list group) := fold_left (gstep get) cols gs.

Lemma unique_step_gstep gs c : unique_groups_step gs c = gstep c_unique gs c.
Proof.
  unfold unique_groups_step, gstep, gadd_names, inline_keys.
  destruct (c_unique c) as [[s|l|[|]]|]; reflexivity.
Qed.
Lemma unique_groups_gfold cols : unique_groups cols = gfold c_unique cols [].
Proof.
  unfold unique_groups, gfold. generalize (@nil group).
  induction cols as [|c r IH]; intro gs; cbn [fold_left]; [reflexivity|].
  rewrite unique_step_gstep. apply IH.
Qed.
Lemma index_array_gadd col : forall names seen gs gs',
  index_array col names seen gs = Ok gs' -> gs' = gadd_names col names gs.
Proof.
  induction names as [|n r IH]; intros seen gs gs' H; cbn [index_array] in H.
  - now inversion H.
  - destruct (mem_str n seen); [discriminate|]. destruct (tracked n col gs); [discriminate|].
    unfold gadd_names. cbn [fold_left]. exact (IH _ _ _ H).
Qed.
Lemma index_step_gstep gs c gs' : index_groups_step gs c = Ok gs' -> gs' = gstep c_index gs c.
Proof.
  unfold index_groups_step, gstep, inline_keys.
  destruct (c_index c) as [[s|l|[|]]|]; intro H.
  - destruct (tracked s (c_name c) gs); [discriminate|]. now inversion H.
  - now apply index_array_gadd in H.
  - cbv zeta in H. destruct (tracked _ (c_name c) gs); [discriminate|]. now inversion H.
  - now inversion H.
  - now inversion H.
Qed.
Lemma index_groups_gfold cols : forall gs gs', index_groups cols gs = Ok gs' -> gs' = gfold c_index cols gs.
Proof.
  induction cols as [|c r IH]; intros gs gs' H; cbn [index_groups] in H; [now inversion H|].
  destruct (index_groups_step gs c) as [g1|e] eqn:E; [|discriminate].
  apply index_step_gstep in E. subst g1. unfold gfold. cbn [fold_left]. exact (IH _ _ H).
Qed.
Lemma index_groups_app a : forall b gs,
  index_groups (a ++ b) gs = match index_groups a gs with Ok g => index_groups b g | Err e => Err e end.
Proof.
  induction a as [|c r IH]; intros b gs; cbn [app index_groups]; [reflexivity|].
  destruct (index_groups_step gs c); [apply IH|reflexivity].
Qed.

Definition gremove (k : string) (gs : list group) : list group :=
  filter (fun g => negb (String.eqb (fst g) k)) gs.

Lemma gremove_add_ne k key col : key <> k -> forall gs,
  gremove k (group_add key col gs) = group_add key col (gremove k gs).
Proof.
  intro Hne. apply String.eqb_neq in Hne. unfold gremove.
  induction gs as [|[k0 cs] r IH]; cbn [group_add filter fst].
  - rewrite Hne. reflexivity.
  - destruct (String.eqb k0 key) eqn:E.
    + apply String.eqb_eq in E. subst k0. cbn [filter fst]. rewrite Hne. cbn [negb group_add].
      now rewrite String.eqb_refl.
    + cbn [filter fst]. destruct (String.eqb k0 k); cbn [negb]; [exact IH|].
      cbn [group_add]. rewrite E. now rewrite IH.
Qed.
Lemma gremove_add_eq k col : forall gs, gremove k (group_add k col gs) = gremove k gs.
Proof.
  unfold gremove. induction gs as [|[k0 cs] r IH]; cbn [group_add filter fst].
  - now rewrite String.eqb_refl.
  - destruct (String.eqb k0 k) eqn:E; cbn [filter fst]; rewrite E; cbn [negb]; [reflexivity|now rewrite IH].
Qed.
Lemma gremove_none k : forall gs, (forall x, ~ In (k, x) gs) -> gremove k gs = gs.
Proof.
  unfold gremove. induction gs as [|[k0 cs] r IH]; intro H; cbn [filter fst]; [reflexivity|].
  destruct (String.eqb k0 k) eqn:E.
  - apply String.eqb_eq in E. subst k0. exfalso. apply (H cs). now left.
  - cbn [negb]. rewrite IH; [reflexivity|]. intros x Hx. apply (H x). now right.
Qed.
Lemma group_add_other k key col x : key <> k -> forall gs,
  In (k, x) (group_add key col gs) <-> In (k, x) gs.
Proof.
  intro Hne. induction gs as [|[k0 cs] r IH]; cbn [group_add].
  - cbn [In]. split; [intros [H|[]]; inversion H; congruence|tauto].
  - destruct (String.eqb k0 key) eqn:E.
    + apply String.eqb_eq in E. subst k0. cbn [In].
      split; (intros [H|H]; [inversion H; congruence|now right]).
    + cbn [In]. now rewrite IH.
Qed.
Lemma group_add_fresh k col : forall gs, (forall x, ~ In (k, x) gs) ->
  forall x, In (k, x) (group_add k col gs) <-> x = [col].
Proof.
  induction gs as [|[k0 cs] r IH]; intros H x; cbn [group_add].
  - cbn [In]. split; [intros [E|[]]; now inversion E|intros ->; now left].
  - destruct (String.eqb k0 k) eqn:E.
    + apply String.eqb_eq in E. subst k0. exfalso. apply (H cs). now left.
    + cbn [In]. rewrite IH by (intros y Hy; apply (H y); now right).
      split; [intros [G|G]; [|exact G]|intro G; now right].
      inversion G; subst. now rewrite String.eqb_refl in E.
Qed.
Lemma group_get_none k : forall gs, (forall x, ~ In (k, x) gs) -> group_get k gs = None.
Proof.
  induction gs as [|[k0 cs] r IH]; intro H; cbn [group_get]; [reflexivity|].
  destruct (String.eqb k0 k) eqn:E.
  - apply String.eqb_eq in E. subst k0. exfalso. apply (H cs). now left.
  - apply IH. intros x Hx. apply (H x). now right.
Qed.
Lemma group_get_remove k n : n <> k -> forall gs, group_get n (gremove k gs) = group_get n gs.
Proof.
  intro Hne. unfold gremove. induction gs as [|[k0 cs] r IH]; cbn [filter fst group_get]; [reflexivity|].
  destruct (String.eqb k0 k) eqn:E; cbn [negb group_get].
  - apply String.eqb_eq in E. subst k0.
    assert (F : String.eqb k n = false) by (apply String.eqb_neq; congruence). now rewrite F.
  - now rewrite IH.
Qed.

Lemma gadd_names_remove k col : forall names, ~ In k names -> forall gs,
  gremove k (gadd_names col names gs) = gadd_names col names (gremove k gs).
Proof.
  unfold gadd_names. induction names as [|n r IH]; intros H gs; cbn [fold_left]; [reflexivity|].
  rewrite IH by (intro G; apply H; now right).
  rewrite gremove_add_ne; [reflexivity|]. intros ->. apply H. now left.
Qed.
Lemma gadd_names_other k col x : forall names, ~ In k names -> forall gs,
  In (k, x) (gadd_names col names gs) <-> In (k, x) gs.
Proof.
  unfold gadd_names. induction names as [|n r IH]; intros H gs; cbn [fold_left]; [tauto|].
  rewrite IH by (intro G; apply H; now right).
  apply group_add_other. intros ->. apply H. now left.
Qed.
Definition no_key get (k : string) (cols : list column_def) : Prop :=
  forall d, In d cols -> ~ In k (inline_keys (get d) (c_name d)).
Lemma gfold_remove get k : forall cols, no_key get k cols -> forall gs,
  gremove k (gfold get cols gs) = gfold get cols (gremove k gs).
Proof.
  unfold gfold. induction cols as [|c r IH]; intros H gs; cbn [fold_left]; [reflexivity|].
  rewrite IH by (intros d Hd; apply H; now right).
  unfold gstep at 2 4. rewrite gadd_names_remove; [reflexivity|]. apply H. now left.
Qed.
Lemma gfold_other get k x : forall cols, no_key get k cols -> forall gs,
  In (k, x) (gfold get cols gs) <-> In (k, x) gs.
Proof.
  unfold gfold. induction cols as [|c r IH]; intros H gs; cbn [fold_left]; [tauto|].
  rewrite IH by (intros d Hd; apply H; now right).
  unfold gstep. apply gadd_names_other. apply H. now left.
Qed.
Lemma gfold_app get a b gs : gfold get (a ++ b) gs = gfold get b (gfold get a gs).
Proof. unfold gfold. apply fold_left_app. Qed.

(* one column contributes [k] alone; the other spelling of that column contributes nothing *)
Lemma gfold_one get k pre c1 c2 post :
  inline_keys (get c1) (c_name c1) = [k] -> inline_keys (get c2) (c_name c2) = [] ->
  no_key get k (pre ++ post) ->
  gfold get (pre ++ c2 :: post) [] = gremove k (gfold get (pre ++ c1 :: post) [])
  /\ (forall x, In (k, x) (gfold get (pre ++ c1 :: post) []) <-> x = [c_name c1]).
Proof.
  intros H1 H2 Hno.
  assert (Hpre : no_key get k pre) by (intros d Hd; apply Hno, in_or_app; now left).
  assert (Hpost : no_key get k post) by (intros d Hd; apply Hno, in_or_app; now right).
  rewrite !gfold_app. set (G := gfold get pre []).
  assert (HG : forall x, ~ In (k, x) G).
  { intros x Hx. apply (gfold_other get k x pre Hpre []) in Hx. destruct Hx. }
  assert (Hcons : forall c gs, gfold get (c :: post) gs = gfold get post (gstep get gs c)) by reflexivity.
  rewrite !Hcons. unfold gstep. rewrite H1, H2. unfold gadd_names. cbn [fold_left]. split.
  - rewrite (gfold_remove get k post Hpost), gremove_add_eq, (gremove_none k G HG). reflexivity.
  - intro x. rewrite (gfold_other get k x post Hpost). now apply group_add_fresh.
Qed.

(* ---------- the push fold with one group moved to the table level ---------- *)
Lemma ceq_absorb u a : ceq (u :: a ++ [u]) (u :: a).
Proof.
  split; intros y Hy; cbn [In] in *; rewrite ?in_app_iff in *; cbn [In] in *; tauto.
Qed.
Section Remove.
  Context (hit : group -> table_constraint -> bool) (mk : group -> table_constraint)
          (k : string) (g0 : group) (U : table_constraint).
  Hypothesis mk_g0 : mk g0 = U.
  Hypothesis hit_U : forall g, hit g U = true -> mk g = U.

  Lemma push_fold_remove : forall gs acc1 acc2,
    ceq acc2 (U :: acc1) -> (forall g, In g gs -> fst g = k -> g = g0) ->
    ceq (fold_left (push_if_absent hit mk) (gremove k gs) acc2)
        (U :: fold_left (push_if_absent hit mk) gs acc1).
  Proof.
    induction gs as [|g gs IH]; intros acc1 acc2 Hc Hk; cbn [gremove filter fold_left]; [exact Hc|].
    fold (gremove k gs). destruct (String.eqb (fst g) k) eqn:E; cbn [negb].
    - apply String.eqb_eq in E. rewrite (Hk g (or_introl eq_refl) E).
      apply IH; [|intros g' Hg'; apply Hk; now right].
      unfold push_if_absent. destruct (existsb (hit g0) acc1); [exact Hc|].
      rewrite mk_g0. eapply ceq_trans; [exact Hc|]. apply ceq_sym, ceq_absorb.
    - cbn [fold_left]. apply IH; [|intros g' Hg'; apply Hk; now right].
      unfold push_if_absent. rewrite (ceq_existsb (hit g) _ _ Hc). cbn [existsb].
      destruct (existsb (hit g) acc1) eqn:E1; [rewrite orb_true_r; exact Hc|]. rewrite orb_false_r.
      destruct (hit g U) eqn:EU.
      + rewrite (hit_U g EU). eapply ceq_trans; [exact Hc|]. apply ceq_sym, ceq_absorb.
      + apply (ceq_app_r _ _ [mk g]) in Hc. exact Hc.
  Qed.

  Hypothesis hit_mk : forall b, hit b (mk b) = true.
  Hypothesis hit_g0 : forall c, hit g0 c = true -> c = U.
  Lemma push_fold_has gs acc : In g0 gs -> In U (fold_left (push_if_absent hit mk) gs acc).
  Proof.
    intro Hin. pose proof (push_fold_covers hit mk hit_mk gs acc g0 Hin) as H.
    apply existsb_exists in H. destruct H as [c [Hc Hh]]. now rewrite <- (hit_g0 c Hh).
  Qed.
  Lemma push_fold_moved gs acc1 acc2 :
    ceq acc2 (U :: acc1) -> (forall g, In g gs -> fst g = k -> g = g0) -> In g0 gs ->
    ceq (fold_left (push_if_absent hit mk) gs acc1) (fold_left (push_if_absent hit mk) (gremove k gs) acc2).
  Proof.
    intros Hc Hk Hin. apply ceq_sym. eapply ceq_trans; [apply push_fold_remove; eassumption|].
    apply ceq_dup. now apply push_fold_has.
  Qed.
End Remove.

(* ---------- pass 4's error behaviour under removal of a key ---------- *)
Lemma tracked_remove k n col gs : n <> k -> tracked n col (gremove k gs) = tracked n col gs.
Proof. intro H. unfold tracked. now rewrite group_get_remove. Qed.
Lemma index_array_remove k col : forall names seen gs, ~ In k names ->
  rrel (fun a b => b = gremove k a) (index_array col names seen gs) (index_array col names seen (gremove k gs)).
Proof.
  induction names as [|n r IH]; intros seen gs H; cbn [index_array]; [reflexivity|].
  destruct (mem_str n seen); [reflexivity|].
  assert (Hn : n <> k) by (intros ->; apply H; now left).
  rewrite (tracked_remove k n col gs Hn). destruct (tracked n col gs); [reflexivity|].
  rewrite <- (gremove_add_ne k n col Hn). apply IH. intro G. apply H. now right.
Qed.
Lemma index_step_remove k d gs : ~ In k (inline_keys (c_index d) (c_name d)) ->
  rrel (fun a b => b = gremove k a) (index_groups_step gs d) (index_groups_step (gremove k gs) d).
Proof.
  unfold index_groups_step, inline_keys. destruct (c_index d) as [[s|l|[|]]|]; intro H.
  - assert (Hn : s <> k) by (intros ->; apply H; now left).
    rewrite (tracked_remove k s _ gs Hn). destruct (tracked s (c_name d) gs); [reflexivity|].
    cbn [rrel]. now rewrite gremove_add_ne.
  - now apply index_array_remove.
  - cbv zeta. assert (Hn : auto_key (c_name d) <> k) by (intro E; apply H; now left).
    rewrite (tracked_remove k _ _ gs Hn). destruct (tracked _ (c_name d) gs); [reflexivity|].
    cbn [rrel]. now rewrite gremove_add_ne.
  - reflexivity.
  - reflexivity.
Qed.
Lemma index_groups_remove k : forall cols, no_key c_index k cols -> forall gs,
  rrel (fun a b => b = gremove k a) (index_groups cols gs) (index_groups cols (gremove k gs)).
Proof.
  induction cols as [|c r IH]; intros H gs; cbn [index_groups]; [reflexivity|].
  pose proof (index_step_remove k c gs (H c (or_introl eq_refl))) as S.
  destruct (index_groups_step gs c) as [g1|e], (index_groups_step (gremove k gs) c) as [g2|e'];
    cbn [rrel] in S; try contradiction; [|exact S].
  subst g2. apply IH. intros d Hd. apply H. now right.
Qed.
Lemma index_groups_one pre c1 c2 post :
  c_index c1 = Some (SBool true) -> c_index c2 = None ->
  no_key c_index (auto_key (c_name c1)) (pre ++ post) ->
  rrel (fun a b => b = gremove (auto_key (c_name c1)) a)
       (index_groups (pre ++ c1 :: post) []) (index_groups (pre ++ c2 :: post) []).
Proof.
  intros H1 H2 Hno. set (k := auto_key (c_name c1)) in *.
  assert (Hpre : no_key c_index k pre) by (intros d Hd; apply Hno, in_or_app; now left).
  assert (Hpost : no_key c_index k post) by (intros d Hd; apply Hno, in_or_app; now right).
  rewrite !index_groups_app. destruct (index_groups pre []) as [G|e] eqn:EG; [|reflexivity].
  apply index_groups_gfold in EG.
  assert (HG : forall x, ~ In (k, x) G).
  { intros x Hx. rewrite EG in Hx. apply (gfold_other c_index k x pre Hpre []) in Hx. destruct Hx. }
  cbn [index_groups]. unfold index_groups_step. rewrite H1, H2. cbv zeta. fold k.
  unfold tracked. rewrite (group_get_none k G HG).
  pose proof (index_groups_remove k post Hpost (group_add k (c_name c1) G)) as S.
  now rewrite gremove_add_eq, (gremove_none k G HG) in S.
Qed.

(* ---------- the two cores ---------- *)
Lemma starts_with_app p s : starts_with p (p +++ s) = true.
Proof. induction p as [|a p IH]; cbn [String.append starts_with]; [reflexivity|]. now rewrite Ascii.eqb_refl. Qed.
Lemma group_name_auto cn : group_name (auto_key cn) = None.
Proof. unfold group_name, auto_key. now rewrite starts_with_app. Qed.

Definition nc_tail (cols : list column_def) (cs2 : list table_constraint)
  : result (list table_constraint) table_error :=
  match pass_fk cols cs2 with
  | Err e => Err e
  | Ok cs3 =>
      match index_groups cols [] with
      | Err e => Err e
      | Ok gs => Ok (fold_left (push_if_absent index_hit index_mk) gs cs3)
      end
  end.
Lemma nc_rest_tail cols cs1 : nc_rest cols cs1 = nc_tail cols (pass_unique cols cs1).
Proof. reflexivity. Qed.
Lemma nc_tail_ceq cols a b : ceq a b -> rrel ceq (nc_tail cols a) (nc_tail cols b).
Proof.
  intro H. unfold nc_tail. pose proof (pass_fk_ceq cols a b H) as F.
  destruct (pass_fk cols a) as [x|e], (pass_fk cols b) as [y|e']; cbn [rrel] in F; try contradiction; [|exact F].
  destruct (index_groups cols []) as [gs|e]; cbn [rrel]; [|reflexivity]. now apply push_fold_ceq.
Qed.
Lemma nc_tail_sim cols cols' cs : Forall2 fk_sim cols cols' -> Forall2 ix_sim cols cols' ->
  nc_tail cols cs = nc_tail cols' cs.
Proof. intros Hf Hi. unfold nc_tail. now rewrite (fk_sim_cols _ _ Hf), (ix_sim_cols _ _ Hi). Qed.

Lemma key_move_unique pre c1 post cs1 cs2 :
  c_unique c1 = Some (SBool true) ->
  no_other_key KUnique (auto_key (c_name c1)) (pre ++ post) ->
  ceq cs2 (CUnique None [c_name c1] :: cs1) ->
  rrel ceq (normalize_constraints (pre ++ c1 :: post) cs1)
           (normalize_constraints (pre ++ set_unique None c1 :: post) cs2).
Proof.
  intros Hu Hno Hc.
  set (cn := c_name c1) in *. set (k := auto_key cn) in *. set (U := CUnique None [cn]) in *.
  set (c2 := set_unique None c1). set (cols1 := pre ++ c1 :: post). set (cols2 := pre ++ c2 :: post).
  assert (Spk : Forall2 pk_sim cols1 cols2)
    by (apply Forall2_replace; [apply pk_sim_refl|destruct c1; now split]).
  assert (Sfk : Forall2 fk_sim cols1 cols2)
    by (apply Forall2_replace; [apply fk_sim_refl|destruct c1; now split]).
  assert (Six : Forall2 ix_sim cols1 cols2)
    by (apply Forall2_replace; [apply ix_sim_refl|destruct c1; now intro]).
  rewrite !nc_split, !nc_rest_tail.
  rewrite <- (pass_pk_sim cols1 cols2 cs2 Spk), <- (nc_tail_sim cols1 cols2 _ Sfk Six).
  apply nc_tail_ceq. unfold pass_unique. rewrite !unique_groups_gfold.
  destruct (gfold_one c_unique k pre c1 c2 post) as [Hg Hk].
  { unfold inline_keys. now rewrite Hu. }
  { destruct c1; reflexivity. }
  { exact Hno. }
  fold cols1 cols2 in Hg, Hk. rewrite Hg.
  apply (push_fold_moved unique_hit unique_mk k (k, [cn]) U).
  - unfold unique_mk. cbn [fst snd]. unfold k. now rewrite group_name_auto.
  - intros g H. unfold unique_hit, U, name_match in H.
    destruct (group_name (fst g)) eqn:E; [discriminate|]. apply dec_b_true in H.
    unfold unique_mk. now rewrite E, <- H.
  - exact unique_hit_mk.
  - intros c H. destruct c as [a l|n l|n l rt rc od ou|n e|n l]; cbn [unique_hit] in H; try discriminate.
    cbn [fst snd] in H. unfold k in H. rewrite group_name_auto in H. unfold name_match in H.
    destruct n; [discriminate|]. apply dec_b_true in H. now subst l.
  - eapply ceq_trans; [apply pass_pk_ceq, Hc|]. rewrite pass_pk_frame by reflexivity. apply ceq_refl.
  - intros [k' x] Hin E. cbn [fst] in E. subst k'. apply Hk in Hin. now subst x.
  - now apply Hk.
Qed.

Lemma key_move_index pre c1 post cs1 cs2 :
  c_index c1 = Some (SBool true) ->
  no_other_key KIndex (auto_key (c_name c1)) (pre ++ post) ->
  ceq cs2 (CIndex None [c_name c1] :: cs1) ->
  rrel ceq (normalize_constraints (pre ++ c1 :: post) cs1)
           (normalize_constraints (pre ++ set_index None c1 :: post) cs2).
Proof.
  intros Hu Hno Hc.
  set (cn := c_name c1) in *. set (k := auto_key cn) in *. set (U := CIndex None [cn]) in *.
  set (c2 := set_index None c1). set (cols1 := pre ++ c1 :: post). set (cols2 := pre ++ c2 :: post).
  assert (Spk : Forall2 pk_sim cols1 cols2)
    by (apply Forall2_replace; [apply pk_sim_refl|destruct c1; now split]).
  assert (Sfk : Forall2 fk_sim cols1 cols2)
    by (apply Forall2_replace; [apply fk_sim_refl|destruct c1; now split]).
  assert (Suq : Forall2 uq_sim cols1 cols2)
    by (apply Forall2_replace; [apply uq_sim_refl|destruct c1; now intro]).
  rewrite !nc_split, !nc_rest_tail.
  rewrite <- (pass_pk_sim cols1 cols2 cs2 Spk). unfold pass_unique. rewrite <- (uq_sim_cols _ _ Suq).
  set (ug := unique_groups cols1).
  set (Q1 := fold_left (push_if_absent unique_hit unique_mk) ug (pass_pk cols1 cs1)).
  set (Q2 := fold_left (push_if_absent unique_hit unique_mk) ug (pass_pk cols1 cs2)).
  assert (HQ : ceq Q2 (U :: Q1)).
  { unfold Q1, Q2. rewrite <- (push_fold_frame unique_hit unique_mk U ug) by reflexivity.
    apply push_fold_ceq. eapply ceq_trans; [apply pass_pk_ceq, Hc|].
    rewrite pass_pk_frame by reflexivity. apply ceq_refl. }
  unfold nc_tail. rewrite <- (fk_sim_cols _ _ Sfk).
  pose proof (pass_fk_ceq cols1 _ _ HQ) as F1.
  pose proof (pass_fk_frame cols1 U (fun _ => eq_refl) Q1) as F2.
  destruct (pass_fk cols1 Q1) as [R1|e1], (pass_fk cols1 (U :: Q1)) as [R1'|e1'];
    cbn [rrel] in F2; try contradiction.
  2:{ destruct (pass_fk cols1 Q2) as [R2|e2]; cbn [rrel] in F1; [contradiction|]. cbn [rrel]. congruence. }
  subst R1'. destruct (pass_fk cols1 Q2) as [R2|e2]; cbn [rrel] in F1; [|contradiction].
  pose proof (index_groups_one pre c1 c2 post Hu) as I1. fold cn k cols1 cols2 in I1.
  specialize (I1 ltac:(destruct c1; reflexivity) Hno).
  destruct (index_groups cols1 []) as [gs1|e] eqn:E1, (index_groups cols2 []) as [gs2|e'];
    cbn [rrel] in I1; try contradiction; [|exact I1].
  subst gs2. apply index_groups_gfold in E1.
  destruct (gfold_one c_index k pre c1 c2 post) as [_ Hk].
  { unfold inline_keys. now rewrite Hu. }
  { destruct c1; reflexivity. }
  { exact Hno. }
  fold cols1 in Hk. rewrite <- E1 in Hk. cbn [rrel].
  apply (push_fold_moved index_hit index_mk k (k, [cn]) U).
  - unfold index_mk. cbn [fst snd]. unfold k. now rewrite group_name_auto.
  - intros g H. unfold index_hit, U, name_match in H.
    destruct (group_name (fst g)) eqn:E; [discriminate|]. apply dec_b_true in H.
    unfold index_mk. now rewrite E, <- H.
  - exact index_hit_mk.
  - intros c H. destruct c as [a l|n l|n l rt rc od ou|n e|n l]; cbn [index_hit] in H; try discriminate.
    cbn [fst snd] in H. unfold k in H. rewrite group_name_auto in H. unfold name_match in H.
    destruct n; [discriminate|]. apply dec_b_true in H. now subst l.
  - exact F1.
  - intros [k' x] Hin E. cbn [fst] in E. subst k'. apply Hk in Hin. now subst x.
  - now apply Hk.
Qed.

(* ---------- the two theorems of rule 2 ---------- *)
Lemma rrel_sym {A E} (R : A -> A -> Prop) (r1 r2 : result A E) :
  (forall x y, R x y -> R y x) -> rrel R r1 r2 -> rrel R r2 r1.
Proof. intro H. destruct r1, r2; cbn [rrel]; auto. Qed.

Lemma key_move_core k pre c1 post cs1 cs2 :
  kk_get k c1 = Some (SBool true) ->
  no_other_key k (auto_key (c_name c1)) (pre ++ post) ->
  ceq cs2 (kk_mk k (c_name c1) :: cs1) ->
  rrel ceq (normalize_constraints (pre ++ c1 :: post) cs1)
           (normalize_constraints (pre ++ kk_set k None c1 :: post) cs2).
Proof. destruct k; [apply key_move_unique | apply key_move_index]. Qed.

Lemma kk_set_col_sim k v c : col_sim c (kk_set k v c).
Proof.
  destruct c, k; (split; [reflexivity|]);
    (repeat split; [apply requires_migration_refl|apply needs_enum_rename_refl]).
Qed.

Theorem respell_key_to_table_ok k nm d pre c post cs :
  kk_get k c = Some (SBool true) ->
  no_other_key k (auto_key (c_name c)) (pre ++ post) ->
  (exists n, normalize (mkTable nm d (pre ++ c :: post) cs) = Ok n) ->
  tmatch (mkTable nm d (pre ++ c :: post) cs)
         (mkTable nm d (pre ++ kk_set k None c :: post) (cs ++ [kk_mk k (c_name c)])).
Proof.
  intros Hk Hno Hn. apply tmatch_intro; [| |exact Hn].
  - apply Forall2_replace; [apply col_sim_refl|apply kk_set_col_sim].
  - apply key_move_core; [exact Hk|exact Hno|apply ceq_snoc].
Qed.

Theorem respell_key_to_inline_ok k nm d pre c post A B :
  kk_get k c = None ->
  no_other_key k (auto_key (c_name c)) (pre ++ post) ->
  (exists n, normalize (mkTable nm d (pre ++ c :: post) (A ++ kk_mk k (c_name c) :: B)) = Ok n) ->
  tmatch (mkTable nm d (pre ++ c :: post) (A ++ kk_mk k (c_name c) :: B))
         (mkTable nm d (pre ++ kk_set k (Some (SBool true)) c :: post) (A ++ B)).
Proof.
  intros Hk Hno Hn. set (c1 := kk_set k (Some (SBool true)) c).
  assert (E2 : kk_set k None c1 = c) by (destruct c, k; cbn in Hk; subst; reflexivity).
  assert (En : c_name c1 = c_name c) by (destruct c, k; reflexivity).
  apply tmatch_intro; [| |exact Hn].
  - apply Forall2_replace; [apply col_sim_refl|apply kk_set_col_sim].
  - apply rrel_sym; [exact ceq_sym|].
    pose proof (key_move_core k pre c1 post (A ++ B) (A ++ kk_mk k (c_name c) :: B)) as H.
    rewrite E2, En in H. apply H; [destruct c, k; reflexivity|exact Hno|apply ceq_mid].
Qed.

(* The Rust guards of rule 2 alone (gener.rs:806, 814) are NOT sufficient; each witness satisfies the
   guard of the arm that fires and the two spellings differ.
   (a) inline -> table level has no `count == 1` guard: two columns of the same name *)
Example respell_key_to_table_dupcol_refuted :
  let c := mkCol "a" (TSimple Integer) false None None None (Some (SBool true)) None None in
  let t := mkTable "t" None [c; c] [] in
  let t' := mkTable "t" None [kk_set KUnique None c; c] ([] ++ [kk_mk KUnique "a"]) in
  kk_get KUnique c = Some (SBool true) /\ ~ In (kk_mk KUnique (c_name c)) []
  /\ diff_actions [t] [t'] = Ok [RemoveConstraint "t" (CUnique None ["a"; "a"]); AddConstraint "t" (CUnique None ["a"])].
Proof. cbv zeta. split; [reflexivity|split; [intros []|vm_compute; reflexivity]]. Qed.
(* (b) both directions: another column names its group "__auto_<col>" (table.rs:129,165 uses that
   prefix as an in-band marker, so the user's name is dropped and the groups merge) *)
Example respell_key_to_table_autoname_refuted :
  let a := mkCol "a" (TSimple Integer) false None None None (Some (SBool true)) None None in
  let b := mkCol "b" (TSimple Integer) false None None None (Some (SStr "__auto_a")) None None in
  let t := mkTable "t" None [a; b] [] in
  let t' := mkTable "t" None [kk_set KUnique None a; b] ([] ++ [kk_mk KUnique "a"]) in
  kk_get KUnique a = Some (SBool true) /\ ~ In (kk_mk KUnique (c_name a)) []
  /\ count_name "a" [a; b] = 1%nat
  /\ diff_actions [t] [t'] = Ok [RemoveConstraint "t" (CUnique None ["a"; "b"]);
                                 AddConstraint "t" (CUnique None ["a"]); AddConstraint "t" (CUnique None ["b"])].
Proof. cbv zeta. split; [reflexivity|split; [intros []|split; vm_compute; reflexivity]]. Qed.
Example respell_key_to_inline_autoname_refuted :
  let a := mkCol "a" (TSimple Integer) false None None None None None None in
  let b := mkCol "b" (TSimple Integer) false None None None None (Some (SStr "__auto_a")) None in
  let t := mkTable "t" None [a; b] ([] ++ kk_mk KIndex "a" :: []) in
  let t' := mkTable "t" None [kk_set KIndex (Some (SBool true)) a; b] ([] ++ []) in
  kk_get KIndex a = None /\ ~ In (kk_mk KIndex (c_name a)) [] /\ count_name "a" [a; b] = 1%nat
  /\ diff_actions [t] [t'] = Ok [RemoveConstraint "t" (CIndex None ["a"]); RemoveConstraint "t" (CIndex None ["b"]);
                                 AddConstraint "t" (CIndex None ["a"; "b"])].
Proof. cbv zeta. split; [reflexivity|split; [intros []|split; vm_compute; reflexivity]]. Qed.

(* ====================================================================================== *)
(* 7. rule 1a: inline primary key -> table level *)
Lemma clear_pk_col_sim c : col_sim c (clear_pk c).
Proof.
  unfold clear_pk. destruct (has_inline_pk c); [|apply col_sim_refl].
  destruct c. split; [reflexivity|].
  repeat split; [apply requires_migration_refl|apply needs_enum_rename_refl].
Qed.
Lemma clear_pk_sims c : uq_sim c (clear_pk c) /\ fk_sim c (clear_pk c) /\ ix_sim c (clear_pk c).
Proof.
  unfold clear_pk. destruct (has_inline_pk c).
  - destruct c. split; [now intro|split; [now split|now intro]].
  - split; [apply uq_sim_refl|split; [apply fk_sim_refl|apply ix_sim_refl]].
Qed.
Lemma Forall2_map_r {A} (R : A -> A -> Prop) (f : A -> A) l : (forall x, R x (f x)) -> Forall2 R l (map f l).
Proof. intro H. induction l; cbn [map]; constructor; auto. Qed.
Lemma pk_cols_cleared cols : pk_cols_of (map clear_pk cols) = [].
Proof.
  unfold pk_cols_of. induction cols as [|c r IH]; cbn [map flat_map]; [reflexivity|]. rewrite IH, app_nil_r.
  unfold clear_pk, has_inline_pk. destruct c as [n ty nu df cm pk u ix fk]. cbn [c_primary_key].
  destruct pk as [[[|]|a]|]; reflexivity.
Qed.
Lemma pk_cols_inline cols : existsb has_inline_pk cols = true -> pk_cols_of cols <> [].
Proof.
  unfold pk_cols_of. induction cols as [|c r IH]; cbn [existsb flat_map]; [discriminate|].
  unfold has_inline_pk at 1. destruct (c_primary_key c) as [[[|]|a]|]; cbn [orb app]; try discriminate; exact IH.
Qed.
Lemma pk_cols_no_inline cols : existsb has_inline_pk cols = false -> pk_cols_of cols = [].
Proof.
  unfold pk_cols_of. induction cols as [|c r IH]; cbn [existsb flat_map]; [reflexivity|].
  unfold has_inline_pk at 1. destruct (c_primary_key c) as [[[|]|a]|]; cbn [orb app]; try discriminate; exact IH.
Qed.

Theorem respell_pk_to_table_ok nm d cols cs :
  existsb is_pk cs = false -> existsb has_inline_pk cols = true ->
  (exists n, normalize (mkTable nm d cols cs) = Ok n) ->
  tmatch (mkTable nm d cols cs)
         (mkTable nm d (map clear_pk cols) (cs ++ [CPrimaryKey (pk_auto_of cols) (pk_cols_of cols)])).
Proof.
  intros Hpk Hin Hn. apply tmatch_intro; [| |exact Hn].
  - apply Forall2_map_r, clear_pk_col_sim.
  - rewrite !nc_split.
    assert (E1 : pass_pk cols cs = cs ++ [CPrimaryKey (pk_auto_of cols) (pk_cols_of cols)]).
    { unfold pass_pk. rewrite Hpk. pose proof (pk_cols_inline cols Hin) as Hne.
      destruct (pk_cols_of cols); [congruence|reflexivity]. }
    assert (E2 : forall x, pass_pk (map clear_pk cols) x = x).
    { intro x. unfold pass_pk. now rewrite pk_cols_cleared. }
    rewrite E1, E2.
    rewrite (nc_rest_sim cols (map clear_pk cols)); [apply rrel_eq, ceq_refl| | |];
      apply Forall2_map_r; intro c; apply clear_pk_sims.
Qed.

(* ====================================================================================== *)
(* 8. rule 3: foreign keys *)
Lemma split_on_nodot s : no_dot s -> split_on "."%char s = [s].
Proof.
  intro H. unfold split_on. pose proof (split_aux_nodot s H "" "") as E.
  rewrite append_nil_r in E. rewrite E. cbn [split_on_aux]. now rewrite append_nil_r, rev_string_invol.
Qed.
Lemma parse_ref_join rt rc : simple_ref rt rc -> parse_ref (rt +++ "." +++ rc) = Some (rt, rc).
Proof.
  intros (Ht & Hc & Nt & Nc). unfold parse_ref. rewrite (split_on_prefix rt _ Ht).
  change ("." +++ rc) with (String "."%char rc). unfold split_on at 1. cbn [split_on_aux Ascii.eqb Bool.eqb].
  fold (split_on "."%char rc). rewrite (split_on_nodot rc Hc).
  change (rev_string "") with "". rewrite append_nil_r.
  apply String.eqb_neq in Nt, Nc. now rewrite Nt, Nc.
Qed.
Lemma fk_respelling_sem cn rt rcs od ou f' :
  fk_respelling rt rcs od ou f' -> fk_of_syntax cn f' = Ok (rt, rcs, od, ou).
Proof.
  intros [rc -> Hs -> ->|rc -> Hs|]; cbn [fk_of_syntax]; try reflexivity; now rewrite (parse_ref_join rt rc Hs).
Qed.

Theorem respell_fk_respell_ok nm d pre c post cs f f' rt rcs od ou :
  c_foreign_key c = Some f ->
  fk_of_syntax (c_name c) f = Ok (rt, rcs, od, ou) ->
  fk_respelling rt rcs od ou f' ->
  (exists n, normalize (mkTable nm d (pre ++ c :: post) cs) = Ok n) ->
  tmatch (mkTable nm d (pre ++ c :: post) cs) (mkTable nm d (pre ++ set_fk (Some f') c :: post) cs).
Proof.
  intros Hf Hp Hr Hn. pose proof (fk_respelling_sem (c_name c) _ _ _ _ _ Hr) as Hp'.
  destruct c as [n ty nu df cm pk u ix fk]. cbn [c_foreign_key c_name] in *. subst fk.
  apply replace_same_nc; [now split|now intro| |now intro| |exact Hn].
  - split; [reflexivity|]. unfold fk_sem, set_fk. cbn [c_foreign_key c_name option_map]. congruence.
  - repeat split; [apply requires_migration_refl|apply needs_enum_rename_refl].
Qed.

Lemma count_name_one pre c post : count_name (c_name c) (pre ++ c :: post) = 1%nat ->
  forall x, In x (pre ++ post) -> c_name x <> c_name c.
Proof.
  unfold count_name. rewrite filter_app, app_length. cbn [filter]. rewrite String.eqb_refl. cbn [List.length].
  intros H x Hx E. apply in_app_or in Hx.
  assert (P : forall l, In x l -> List.length (filter (fun c0 => String.eqb (c_name c0) (c_name c)) l) <> 0%nat).
  { intros l Hl Z. apply length_zero_iff_nil in Z. pose proof (filter_nil_inv _ _ Z x Hl) as G.
    cbv beta in G. rewrite E, String.eqb_refl in G. discriminate. }
  destruct Hx as [Hx|Hx]; apply P in Hx; lia.
Qed.

Lemma pass_fk_moved c post f rt rcs od ou :
  c_foreign_key c = Some f -> fk_of_syntax (c_name c) f = Ok (rt, rcs, od, ou) ->
  forall pre, (forall x, In x pre -> c_name x <> c_name c) ->
  forall a b, ceq b (CForeignKey None [c_name c] rt rcs od ou :: a) ->
  existsb (fk_hit (c_name c)) a = false ->
  rrel ceq (pass_fk (pre ++ c :: post) a) (pass_fk (pre ++ set_fk None c :: post) b).
Proof.
  intros Hf Hp. set (cn := c_name c). set (F := CForeignKey None [cn] rt rcs od ou).
  induction pre as [|x pre IH]; intros Hpre a b Hc Ha; cbn [app pass_fk].
  - rewrite Hf. fold cn. unfold cn at 1. rewrite Hp. fold cn. rewrite Ha.
    replace (c_foreign_key (set_fk None c)) with (@None fk_syntax) by (destruct c; reflexivity).
    apply pass_fk_ceq. eapply ceq_trans; [apply ceq_snoc|apply ceq_sym, Hc].
  - assert (Hx : String.eqb cn (c_name x) = false).
    { apply String.eqb_neq. intro E. apply (Hpre x (or_introl eq_refl)). now symmetry. }
    assert (Hpre' : forall y, In y pre -> c_name y <> c_name c) by (intros y Hy; apply Hpre; now right).
    destruct (c_foreign_key x) as [g|]; [|now apply IH].
    destruct (fk_of_syntax (c_name x) g) as [[[[t rc] od'] ou']|e]; [|reflexivity].
    rewrite (ceq_existsb (fk_hit (c_name x)) _ _ Hc). cbn [existsb]. unfold F at 1. cbn [fk_hit].
    rewrite Hx. cbn [orb].
    destruct (existsb (fk_hit (c_name x)) a); [now apply IH|].
    apply IH; [exact Hpre'|exact (ceq_app_r _ _ _ Hc)|].
    rewrite existsb_app, Ha. cbn [existsb fk_hit orb]. rewrite str_eqb_sym. fold cn. now rewrite Hx.
Qed.

Definition nc_ix (cols : list column_def) (r : result (list table_constraint) table_error)
  : result (list table_constraint) table_error :=
  match r with
  | Err e => Err e
  | Ok cs3 =>
      match index_groups cols [] with
      | Err e => Err e
      | Ok gs => Ok (fold_left (push_if_absent index_hit index_mk) gs cs3)
      end
  end.
Lemma nc_tail_ix cols cs : nc_tail cols cs = nc_ix cols (pass_fk cols cs).
Proof. reflexivity. Qed.
Lemma nc_ix_ceq cols cols' r r' : Forall2 ix_sim cols cols' -> rrel ceq r r' ->
  rrel ceq (nc_ix cols r) (nc_ix cols' r').
Proof.
  intros Hi H. unfold nc_ix. destruct r as [x|e], r' as [y|e']; cbn [rrel] in H; try contradiction; [|exact H].
  rewrite <- (ix_sim_cols _ _ Hi). destruct (index_groups cols []); cbn [rrel]; [|reflexivity].
  now apply push_fold_ceq.
Qed.

Theorem respell_fk_to_table_ok nm d pre c post cs f rt rcs od ou :
  c_foreign_key c = Some f ->
  count_name (c_name c) (pre ++ c :: post) = 1%nat ->
  existsb (fk_hit (c_name c)) cs = false ->
  fk_of_syntax (c_name c) f = Ok (rt, rcs, od, ou) ->
  (exists n, normalize (mkTable nm d (pre ++ c :: post) cs) = Ok n) ->
  tmatch (mkTable nm d (pre ++ c :: post) cs)
         (mkTable nm d (pre ++ set_fk None c :: post) (cs ++ [CForeignKey None [c_name c] rt rcs od ou])).
Proof.
  intros Hf Hcnt Htl Hp Hn. set (F := CForeignKey None [c_name c] rt rcs od ou).
  set (c2 := set_fk None c). set (cols1 := pre ++ c :: post). set (cols2 := pre ++ c2 :: post).
  assert (Spk : Forall2 pk_sim cols1 cols2)
    by (apply Forall2_replace; [apply pk_sim_refl|destruct c; now split]).
  assert (Suq : Forall2 uq_sim cols1 cols2)
    by (apply Forall2_replace; [apply uq_sim_refl|destruct c; now intro]).
  assert (Six : Forall2 ix_sim cols1 cols2)
    by (apply Forall2_replace; [apply ix_sim_refl|destruct c; now intro]).
  apply tmatch_intro; [| |exact Hn].
  - apply Forall2_replace; [apply col_sim_refl|]. destruct c. split; [reflexivity|].
    repeat split; [apply requires_migration_refl|apply needs_enum_rename_refl].
  - fold cols1 cols2. rewrite !nc_split, !nc_rest_tail, !nc_tail_ix.
    apply nc_ix_ceq; [exact Six|].
    rewrite <- (pass_pk_sim cols1 cols2 _ Spk). unfold pass_unique. rewrite <- (uq_sim_cols _ _ Suq).
    set (ug := unique_groups cols1).
    apply (pass_fk_moved c post f rt rcs od ou Hf Hp pre).
    + intros x Hx. apply (count_name_one pre c post Hcnt). apply in_or_app. now left.
    + rewrite <- (push_fold_frame unique_hit unique_mk _ ug) by reflexivity.
      apply push_fold_ceq. rewrite <- pass_pk_frame by reflexivity. apply pass_pk_ceq, ceq_snoc.
    + (* no hit on the column before pass 3: passes 1 and 2 push no foreign key *)
      assert (G : forall l, existsb (fk_hit (c_name c)) l = false ->
                  existsb (fk_hit (c_name c)) (fold_left (push_if_absent unique_hit unique_mk) ug l) = false).
      { generalize ug. induction ug0 as [|g gs IH]; intros l Hl; cbn [fold_left]; [exact Hl|].
        apply IH. unfold push_if_absent. destruct (existsb (unique_hit g) l); [exact Hl|].
        rewrite existsb_app, Hl. reflexivity. }
      apply G. unfold pass_pk. destruct (pk_cols_of cols1); [exact Htl|].
      destruct (existsb is_pk cs); [exact Htl|]. rewrite existsb_app, Htl. reflexivity.
Qed.

(* without the `!has_tl` guard (gener.rs:834) the rewrite would be wrong: the inline declaration is
   shadowed by ANY table-level single-column key on that column, named or not *)
Example respell_fk_to_table_shadowed_refuted :
  let c := mkCol "b" (TSimple Integer) false None None None None None (Some (FKStr "u.id")) in
  let cs := [CForeignKey (Some "nm") ["b"] "v" ["id"] None None] in
  diff_actions [mkTable "t" None [c] cs]
               [mkTable "t" None [set_fk None c] (cs ++ [CForeignKey None ["b"] "u" ["id"] None None])]
  = Ok [AddConstraint "t" (CForeignKey None ["b"] "u" ["id"] None None)].
Proof. vm_compute. reflexivity. Qed.

(* ====================================================================================== *)
(* 9. rule 1b: table-level primary key -> inline *)
Lemma pk_inlined_sims auto pkc c c' : pk_inlined auto pkc c c' ->
  col_sim c c' /\ uq_sim c c' /\ fk_sim c c' /\ ix_sim c c'.
Proof.
  unfold pk_inlined. destruct (mem_str (c_name c) pkc).
  - intros [p [_ ->]]. destruct c. split; [split; [reflexivity|]|split; [now intro|split; [now split|now intro]]].
    repeat split; [apply requires_migration_refl|apply needs_enum_rename_refl].
  - intros ->. split; [apply col_sim_refl|split; [apply uq_sim_refl|split; [apply fk_sim_refl|apply ix_sim_refl]]].
Qed.
Lemma Forall2_imp {A B} (R1 R2 : A -> B -> Prop) l l' :
  (forall a b, R1 a b -> R2 a b) -> Forall2 R1 l l' -> Forall2 R2 l l'.
Proof. intros H F. induction F; constructor; auto. Qed.
Lemma filter_existsb {A} (p : A -> bool) l : filter p l <> [] -> existsb p l = true.
Proof.
  induction l as [|x l IH]; cbn [filter existsb]; [congruence|].
  destruct (p x); [reflexivity|exact IH].
Qed.
Lemma pk_inlined_cols auto pkc cols cols' :
  existsb has_inline_pk cols = false -> Forall2 (pk_inlined auto pkc) cols cols' ->
  pk_cols_of cols' = map c_name (pk_members pkc cols)
  /\ pk_auto_of cols' = (auto && existsb (fun c => mem_str (c_name c) pkc) cols)%bool.
Proof.
  intros Hno H. unfold pk_cols_of, pk_auto_of, pk_members.
  induction H as [|c c' xs xs' Hc _ IH]; [split; [reflexivity|now rewrite andb_false_r]|].
  cbn [existsb] in Hno. apply orb_false_elim in Hno. destruct Hno as [Hc0 Hno].
  destruct (IH Hno) as [IH1 IH2]. clear IH. cbn [flat_map existsb filter]. rewrite IH1, IH2.
  unfold pk_inlined in Hc. destruct (mem_str (c_name c) pkc) eqn:Em.
  - destruct Hc as [p [Hp ->]]. unfold pk_spelling in Hp.
    destruct c as [n ty nu df cm pk u ix fk]. cbn [set_pk c_primary_key c_name map app orb].
    destruct auto; [subst p; split; reflexivity|]. destruct Hp as [->| ->]; split; reflexivity.
  - subst c'. unfold has_inline_pk in Hc0.
    destruct (c_primary_key c) as [[[|]|a]|]; try discriminate; cbn [app orb]; split; reflexivity.
Qed.

Theorem respell_pk_to_inline_ok nm d cols cols' A B auto pkc :
  existsb is_pk A = false -> existsb is_pk B = false ->
  existsb has_inline_pk cols = false ->
  map c_name (pk_members pkc cols) = pkc ->
  pkc <> [] ->
  Forall2 (pk_inlined auto pkc) cols cols' ->
  (exists n, normalize (mkTable nm d cols (A ++ CPrimaryKey auto pkc :: B)) = Ok n) ->
  tmatch (mkTable nm d cols (A ++ CPrimaryKey auto pkc :: B)) (mkTable nm d cols' (A ++ B)).
Proof.
  intros HA HB Hno Hdecl Hne Hin Hn. apply tmatch_intro; [| |exact Hn].
  - eapply Forall2_imp; [|exact Hin]. intros a b H. apply (pk_inlined_sims _ _ _ _ H).
  - rewrite !nc_split.
    assert (E1 : pass_pk cols (A ++ CPrimaryKey auto pkc :: B) = A ++ CPrimaryKey auto pkc :: B).
    { unfold pass_pk. now rewrite (pk_cols_no_inline cols Hno). }
    destruct (pk_inlined_cols auto pkc cols cols' Hno Hin) as [E2 E3]. rewrite Hdecl in E2.
    assert (Em : existsb (fun c => mem_str (c_name c) pkc) cols = true).
    { apply filter_existsb. fold (pk_members pkc cols). intro Z. rewrite Z in Hdecl. cbn [map] in Hdecl. congruence. }
    rewrite Em, andb_true_r in E3.
    assert (E4 : pass_pk cols' (A ++ B) = (A ++ B) ++ [CPrimaryKey auto pkc]).
    { unfold pass_pk. rewrite E2, E3, existsb_app, HA, HB. cbn [orb]. destruct pkc; [congruence|reflexivity]. }
    rewrite E1, E4.
    rewrite <- (nc_rest_sim cols cols').
    + apply nc_rest_ceq. eapply ceq_trans; [apply ceq_mid|apply ceq_sym, ceq_snoc].
    + eapply Forall2_imp; [|exact Hin]. intros a b H. apply (pk_inlined_sims _ _ _ _ H).
    + eapply Forall2_imp; [|exact Hin]. intros a b H. apply (pk_inlined_sims _ _ _ _ H).
    + eapply Forall2_imp; [|exact Hin]. intros a b H. apply (pk_inlined_sims _ _ _ _ H).
Qed.

(* the Rust guards of rule 1b (gener.rs:768-774) accept a key with NO columns: decl = [] = columns,
   distinct = (0 == 0); the constraint is removed and nothing is put inline *)
Example respell_pk_to_inline_empty_refuted :
  let c := mkCol "a" (TSimple Integer) false None None None None None None in
  let t := mkTable "t" None [c] ([] ++ CPrimaryKey false [] :: []) in
  let t' := mkTable "t" None [c] ([] ++ []) in
  existsb has_inline_pk [c] = false /\ map c_name (pk_members [] [c]) = []
  /\ List.length (pk_members [] [c]) = List.length (@nil string)
  /\ Forall2 (pk_inlined false []) [c] [c]
  /\ diff_actions [t] [t'] = Ok [RemoveConstraint "t" (CPrimaryKey false [])].
Proof.
  cbv zeta. repeat split; try (vm_compute; reflexivity). constructor; [reflexivity|constructor].
Qed.

(* ====================================================================================== *)
(* 10. every rewrite, any number of rewrites, whole schemas *)
Theorem respell_step_match t t' :
  respell_step t t' -> (exists n, normalize t = Ok n) -> tmatch t t'.
Proof.
  intros H Hn. destruct H.
  - now apply respell_pk_to_table_ok.
  - now apply respell_pk_to_inline_ok.
  - now apply respell_key_to_table_ok.
  - now apply respell_key_to_inline_ok.
  - now apply respell_key_drop_false_ok.
  - eapply respell_fk_respell_ok; eassumption.
  - eapply respell_fk_to_table_ok; eassumption.
  - eapply respell_default_ok; eassumption.
  - eapply respell_int_enum_ok; eassumption.
  - now apply respell_perm_ok.
Qed.

Theorem respell_table_match t t' :
  respell_table t t' -> (exists n, normalize t = Ok n) -> tmatch t t'.
Proof.
  unfold respell_table. induction 1 as [x y H|x|x y z _ IH1 _ IH2]; intro Hn.
  - now apply respell_step_match.
  - destruct Hn as [n Hn]. exact (tmatch_refl x n Hn).
  - pose proof (IH1 Hn) as M1. eapply tmatch_trans; [exact M1|]. apply IH2.
    destruct M1 as [_ (n & n' & _ & H' & _)]. now exists n'.
Qed.

Lemma forall2_tmatch_norm A M : Forall2 tmatch A M ->
  exists An Mn, normalize_all A = Ok An /\ normalize_all M = Ok Mn
    /\ Forall2 (fun a b => t_name a = t_name b /\ table_equiv a b) An Mn.
Proof.
  unfold normalize_all. induction 1 as [|t t' xs xs' [Hname (n & n' & H1 & H2 & He)] _ IH].
  - exists [], []. repeat split. constructor.
  - destruct IH as (An & Mn & EA & EM & F). exists (n :: An), (n' :: Mn). cbn [map_result].
    rewrite H1, H2, EA, EM. repeat split. constructor; [|exact F]. split; [|exact He].
    rewrite (normalize_name t n H1), (normalize_name t' n' H2). exact Hname.
Qed.
Lemma forall2_tmatch_equiv A M : Forall2 tmatch A M -> schema_equiv A M.
Proof.
  intro H. destruct (forall2_tmatch_norm A M H) as (An & Mn & EA & EM & F).
  exists An, Mn. split; [exact EA|split; [exact EM|]]. intro k. unfold table_named.
  now apply (keyed_forall2 t_name table_equiv).
Qed.
Lemma forall2_tmatch_names A M : Forall2 tmatch A M -> map t_name A = map t_name M.
Proof. induction 1 as [|t t' xs xs' [Hn _] _ IH]; cbn [map]; [reflexivity|]. now rewrite Hn, IH. Qed.
Lemma forall2_tmatch_sym A M : Forall2 tmatch A M -> Forall2 tmatch M A.
Proof. induction 1; constructor; [now apply tmatch_sym|assumption]. Qed.

Theorem respell_equiv A B :
  respell_schema A B ->
  (forall t, In t A -> exists n, normalize t = Ok n) ->
  NoDup (map t_name A) ->
  diff_actions A B = Ok [] /\ diff_actions B A = Ok [].
Proof.
  intros (M & HF & HP) Hn Hnd.
  assert (HM : Forall2 tmatch A M).
  { clear HP Hnd. induction HF as [|t t' xs xs' Ht _ IH]; constructor.
    - apply respell_table_match; [exact Ht|]. apply Hn. now left.
    - apply IH. intros u Hu. apply Hn. now right. }
  assert (HndM : NoDup (map t_name M)) by (now rewrite <- (forall2_tmatch_names A M HM)).
  split.
  - rewrite <- (diff_perm A A M B Hnd HndM (Permutation_refl A) HP).
    apply diff_equiv_empty, forall2_tmatch_equiv, HM.
  - rewrite <- (diff_perm M B A A HndM Hnd HP (Permutation_refl A)).
    apply diff_equiv_empty, forall2_tmatch_equiv, forall2_tmatch_sym, HM.
Qed.
