(* One table, one group, second rung: the group may also add constraints and add columns that carry
   no inline declaration.  Applied in any order to the baseline table (distinct column names,
   normalisation fix-point) it succeeds, gives a normalisation fix-point, table_equiv to the target. *)
From VV.M1 Require Import Oracles Hyp NormalizeP BtP DiffP DiffEqP ApplyLocalP AttrsP.
From Coq Require Import Lia Permutation.

(* ---------- normalisation: appending a plain column / appending a constraint ---------- *)
Lemma plain_fields c : plain c = true ->
  c_primary_key c = None /\ c_unique c = None /\ c_index c = None /\ c_foreign_key c = None.
Proof.
  unfold plain. destruct (c_primary_key c), (c_unique c), (c_index c), (c_foreign_key c);
    try discriminate. auto.
Qed.

Lemma pass_fk_app : forall a b cs,
  pass_fk (a ++ b) cs = match pass_fk a cs with Ok cs' => pass_fk b cs' | Err e => Err e end.
Proof.
  induction a as [|c a IH]; intros b cs; cbn [app pass_fk]; [reflexivity|].
  destruct (c_foreign_key c) as [f|]; [|apply IH].
  destruct (fk_of_syntax (c_name c) f) as [[[[t rc] od] ou]|e]; [|reflexivity].
  destruct (existsb _ cs); apply IH.
Qed.
Lemma index_groups_app : forall a b gs,
  index_groups (a ++ b) gs = match index_groups a gs with Ok gs' => index_groups b gs' | Err e => Err e end.
Proof.
  induction a as [|c a IH]; intros b gs; cbn [app index_groups]; [reflexivity|].
  destruct (index_groups_step gs c); [apply IH|reflexivity].
Qed.

Lemma normalize_constraints_app_plain cols c cs : plain c = true ->
  normalize_constraints (cols ++ [c]) cs = normalize_constraints cols cs.
Proof.
  intro Hp. destruct (plain_fields c Hp) as (H1 & H2 & H3 & H4).
  assert (E1 : pk_cols_of (cols ++ [c]) = pk_cols_of cols).
  { unfold pk_cols_of. rewrite flat_map_app. cbn [flat_map]. rewrite H1. now rewrite !app_nil_r. }
  assert (E2 : pk_auto_of (cols ++ [c]) = pk_auto_of cols).
  { unfold pk_auto_of. rewrite existsb_app. cbn [existsb]. rewrite H1. now rewrite !orb_false_r. }
  assert (E3 : unique_groups (cols ++ [c]) = unique_groups cols).
  { unfold unique_groups. rewrite fold_left_app. cbn [fold_left]. unfold unique_groups_step at 1. now rewrite H2. }
  assert (E4 : forall cs0, pass_fk (cols ++ [c]) cs0 = pass_fk cols cs0).
  { intro cs0. rewrite pass_fk_app. destruct (pass_fk cols cs0); [|reflexivity].
    cbn [pass_fk]. now rewrite H4. }
  assert (E5 : index_groups (cols ++ [c]) [] = index_groups cols []).
  { rewrite index_groups_app. destruct (index_groups cols []); [|reflexivity].
    cbn [index_groups]. unfold index_groups_step. now rewrite H3. }
  unfold normalize_constraints, pass_pk, pass_unique. cbv zeta. now rewrite E1, E2, E3, E4, E5.
Qed.

Lemma extends_antisym a b : extends a b -> extends b a -> a = b.
Proof.
  intros [x ->] [y H]. rewrite <- app_assoc in H.
  assert (L : List.length (x ++ y) = 0).
  { apply (f_equal (@List.length _)) in H. rewrite app_length in H. lia. }
  rewrite app_length in L. destruct x; [now rewrite app_nil_r|cbn in L; lia].
Qed.

(* a fix-point stays one when a constraint is appended *)
Lemma normalize_constraints_snoc cols cs k :
  normalize_constraints cols cs = Ok cs -> normalize_constraints cols (cs ++ [k]) = Ok (cs ++ [k]).
Proof.
  unfold normalize_constraints. intro H.
  destruct (pass_fk cols (pass_unique cols (pass_pk cols cs))) as [cs3|e] eqn:E3; [|discriminate].
  destruct (index_groups cols []) as [gs|e] eqn:Eg; [|discriminate]. injection H as H4.
  set (cs1 := pass_pk cols cs) in *. set (cs2 := pass_unique cols cs1) in *.
  assert (X01 : extends cs cs1) by apply pass_pk_extends.
  assert (X12 : extends cs1 cs2) by apply pass_unique_extends.
  assert (X23 : extends cs2 cs3) by (eapply pass_fk_extends; exact E3).
  assert (X34 : extends cs3 cs).
  { rewrite <- H4. apply (push_fold_extends index_hit index_mk). }
  assert (Q1 : cs1 = cs).
  { symmetry. apply extends_antisym; [exact X01|].
    eapply extends_trans; [exact X12|]. eapply extends_trans; [exact X23|exact X34]. }
  assert (Q2 : cs2 = cs).
  { symmetry. apply extends_antisym; [rewrite <- Q1 at 1; exact X12|].
    eapply extends_trans; [exact X23|exact X34]. }
  assert (Q3 : cs3 = cs).
  { symmetry. apply extends_antisym; [rewrite <- Q2 at 1; exact X23|exact X34]. }
  subst cs3. clear X01 X12 X23 X34.
  assert (Xk : extends cs (cs ++ [k])) by (eexists; reflexivity).
  (* pass 1 *)
  assert (P1 : pass_pk cols (cs ++ [k]) = cs ++ [k]).
  { apply pass_pk_fix. intro Hne. eapply extends_existsb; [exact Xk|].
    rewrite <- Q1 at 1. now apply pass_pk_has. }
  rewrite P1.
  (* pass 2 *)
  assert (P2 : pass_unique cols (cs ++ [k]) = cs ++ [k]).
  { unfold pass_unique. apply push_fold_fix. intros g Hg. eapply extends_existsb; [exact Xk|].
    rewrite <- Q2 at 1. unfold cs2, pass_unique.
    apply push_fold_covers; [apply unique_hit_mk|exact Hg]. }
  rewrite P2.
  (* pass 3 *)
  rewrite Q2 in E3.
  assert (P3 : pass_fk cols (cs ++ [k]) = Ok (cs ++ [k])).
  { apply pass_fk_noop.
    - eapply pass_fk_parses; exact E3.
    - intros c f Hin Hf. eapply extends_existsb; [exact Xk|]. eapply pass_fk_covers; eauto. }
  rewrite P3. f_equal. apply push_fold_fix. intros g Hg. eapply extends_existsb; [exact Xk|].
  rewrite <- H4 at 1. apply push_fold_covers; [apply index_hit_mk|exact Hg].
Qed.

(* ---------- what a grow action does to a table ---------- *)
Definition sem_step (a : action) (t : table_def) : table_def :=
  match a with
  | AddColumn _ c _ => mkTable (t_name t) (t_description t) (t_columns t ++ [c]) (t_constraints t)
  | AddConstraint _ k =>
      if contains_constraint k (t_constraints t) then t
      else mkTable (t_name t) (t_description t) (t_columns t) (t_constraints t ++ [k])
  | _ => map_cols (col_apply a) t
  end.
Definition sem (L : list action) (t : table_def) : table_def := fold_left (fun t a => sem_step a t) L t.

Definition added_names (L : list action) : list string :=
  flat_map (fun a => match a with AddColumn _ c _ => [c_name c] | _ => [] end) L.

Record valid (L : list action) (t : table_def) : Prop := mkValid {
  v_grow : forall a, In a L -> is_grow_action a = true;
  v_attr : forall a, In a L -> is_attr_action a = true -> In (attr_col a) (colnames t);
  v_nodup : NoDup (added_names L);
  v_fresh : forall x, In x (added_names L) -> ~ In x (colnames t) }.

Lemma has_column_false n t : ~ In n (colnames t) -> has_column n t = false.
Proof.
  unfold has_column, colnames. intro H. destruct (existsb _ _) eqn:E; [|reflexivity]. exfalso.
  apply existsb_exists in E. destruct E as [c [Hin Hc]]. apply String.eqb_eq in Hc.
  apply H. rewrite <- Hc. now apply in_map.
Qed.

Lemma sem_step_name a t : t_name (sem_step a t) = t_name t.
Proof. destruct a; cbn [sem_step]; try reflexivity. destruct (contains_constraint _ _); reflexivity. Qed.

Lemma normalize_fix_intro t : normalize_constraints (t_columns t) (t_constraints t) = Ok (t_constraints t) ->
  normalize t = Ok t.
Proof. unfold normalize. intros ->. now destruct t. Qed.

(* one step: the action succeeds and does what sem_step says; the invariants carry over *)
Lemma grow_step a L t :
  valid (a :: L) t -> NoDup (colnames t) -> normalize t = Ok t ->
  apply_table (Some t) a = Ok (Some (sem_step a t))
  /\ valid L (sem_step a t) /\ NoDup (colnames (sem_step a t)) /\ normalize (sem_step a t) = Ok (sem_step a t).
Proof.
  intros [Vg Va Vn Vf] Hnd Hfix.
  pose proof (Vg a (or_introl eq_refl)) as Hg.
  destruct (is_attr_action a) eqn:Hattr.
  - (* attribute action *)
    pose proof (Va a (or_introl eq_refl) Hattr) as Hin.
    assert (Es : sem_step a t = map_cols (col_apply a) t) by (destruct a; try discriminate; reflexivity).
    assert (Hn : colnames (map_cols (col_apply a) t) = colnames t).
    { unfold colnames, map_cols. cbn [t_columns]. rewrite map_map. apply map_ext. apply col_apply_name. }
    assert (Ean : added_names (a :: L) = added_names L) by (destruct a; try discriminate; reflexivity).
    rewrite Es, (apply_table_attr a t Hattr), (table_fn_attr a t Hattr Hnd Hin).
    split; [reflexivity|]. split; [|split].
    + constructor.
      * intros b Hb. apply Vg. now right.
      * intros b Hb Hab. rewrite Hn. apply Va; [now right|exact Hab].
      * now rewrite <- Ean.
      * intros x Hx. rewrite Hn. apply Vf. now rewrite Ean.
    + now rewrite Hn.
    + unfold map_cols. apply normalize_same_view; [exact Hfix|].
      rewrite map_map. apply map_ext. apply canon_col_apply.
  - destruct a; try discriminate; cbn [is_grow_action] in Hg.
    + (* AddColumn of a plain column *)
      cbn [added_names flat_map app] in Vn, Vf. inversion Vn as [|x l Hnew Vn']; subst x l.
      assert (Hfresh : ~ In (c_name column) (colnames t)) by (apply Vf; now left).
      assert (Hnorm : normalize (mkTable (t_name t) (t_description t) (t_columns t ++ [column]) (t_constraints t))
                      = Ok (mkTable (t_name t) (t_description t) (t_columns t ++ [column]) (t_constraints t))).
      { apply normalize_fix_intro. cbn [t_columns t_constraints].
        rewrite (normalize_constraints_app_plain _ _ _ Hg). now apply normalize_fix_inv. }
      cbn [apply_table table_fn sem_step]. rewrite (has_column_false _ _ Hfresh), Hnorm.
      split; [reflexivity|]. split; [|split; [|reflexivity]].
      * constructor.
        -- intros b Hb. apply Vg. now right.
        -- intros b Hb Hab. unfold colnames. cbn [t_columns]. rewrite map_app. apply in_or_app. left.
           apply Va; [now right|exact Hab].
        -- exact Vn'.
        -- intros x Hx. unfold colnames. cbn [t_columns]. rewrite map_app. intro Hin.
           apply in_app_or in Hin. destruct Hin as [Hin|[<-|[]]].
           ++ apply (Vf x); [now right|exact Hin].
           ++ now apply Hnew.
      * unfold colnames. cbn [t_columns]. rewrite map_app. cbn [map].
        clear - Hnd Hfresh. unfold colnames in *. induction (map c_name (t_columns t)) as [|y l IH];
          cbn [app]; [constructor; [intros []|constructor]|].
        inversion Hnd; subst. constructor.
        -- intro Hin. apply in_app_or in Hin. destruct Hin as [Hin|[<-|[]]]; [tauto|].
           apply Hfresh. now left.
        -- apply IH; [assumption|]. intro Hin. apply Hfresh. now right.
    + (* AddConstraint *)
      cbn [apply_table table_fn sem_step].
      destruct (contains_constraint constraint (t_constraints t)) eqn:Ec.
      * split; [reflexivity|]. split; [|split; assumption].
        constructor; [intros b Hb; apply Vg; now right|intros b Hb; apply Va; now right|exact Vn|exact Vf].
      * split; [reflexivity|]. split; [|split; [exact Hnd|]].
        -- constructor; [intros b Hb; apply Vg; now right|intros b Hb; apply Va; now right|exact Vn|exact Vf].
        -- apply normalize_fix_intro. cbn [t_columns t_constraints].
           apply normalize_constraints_snoc. now apply normalize_fix_inv.
Qed.

Lemma proj_all_grow : forall L t,
  valid L t -> NoDup (colnames t) -> normalize t = Ok t ->
  proj_all (Some t) L = Ok (Some (sem L t)) /\ normalize (sem L t) = Ok (sem L t)
  /\ t_name (sem L t) = t_name t.
Proof.
  induction L as [|a L IH]; intros t Hv Hnd Hfix; [cbn [proj_all sem fold_left]; auto|].
  destruct (grow_step a L t Hv Hnd Hfix) as (H1 & H2 & H3 & H4).
  cbn [proj_all]. rewrite H1. destruct (IH _ H2 H3 H4) as (I1 & I2 & I3).
  unfold sem in *. cbn [fold_left]. split; [exact I1|split; [exact I2|]].
  now rewrite I3, sem_step_name.
Qed.

(* ---------- the column registered under a name, step by step ---------- *)
Definition cstep (k : string) (a : action) (o : option column_def) : option column_def :=
  match a with
  | AddColumn _ c _ => if String.eqb k (c_name c) then Some c else o
  | AddConstraint _ _ => o
  | _ => option_map (col_apply a) o
  end.

Lemma col_named_snoc k t c :
  col_named k (mkTable (t_name t) (t_description t) (t_columns t ++ [c]) (t_constraints t))
  = if String.eqb k (c_name c) then Some c else col_named k t.
Proof.
  unfold col_named. cbn [t_columns]. rewrite map_app, rev_app_distr. cbn [map rev app bt_get].
  reflexivity.
Qed.

Lemma col_named_sem_step k a t : is_grow_action a = true ->
  col_named k (sem_step a t) = cstep k a (col_named k t).
Proof.
  intro Hg. destruct a; try discriminate; cbn [sem_step cstep];
    try (apply col_named_map_cols; intro c; apply col_apply_name).
  - apply col_named_snoc.
  - destruct (contains_constraint _ _); reflexivity.
Qed.

Lemma col_named_sem k : forall L t, (forall a, In a L -> is_grow_action a = true) ->
  col_named k (sem L t) = fold_left (fun o a => cstep k a o) L (col_named k t).
Proof.
  unfold sem. induction L as [|a L IH]; intros t H; cbn [fold_left]; [reflexivity|].
  rewrite IH by (intros b Hb; apply H; now right).
  now rewrite col_named_sem_step by (apply H; now left).
Qed.

Definition adds_named (k : string) (a : action) : bool :=
  match a with AddColumn _ c _ => String.eqb k (c_name c) | _ => false end.

Lemma cfold_common k : forall L c, (forall a, In a L -> adds_named k a = false) ->
  fold_left (fun o a => cstep k a o) L (Some c) = Some (upd L c).
Proof.
  unfold upd. induction L as [|a L IH]; intros c H; cbn [fold_left]; [reflexivity|].
  assert (E : cstep k a (Some c) = Some (col_apply a c)).
  { pose proof (H a (or_introl eq_refl)) as Ha. destruct a; cbn [cstep col_apply option_map]; try reflexivity.
    cbn [adds_named] in Ha. now rewrite Ha. }
  rewrite E. apply IH. intros b Hb. apply H. now right.
Qed.
Lemma cfold_none k : forall L, (forall a, In a L -> adds_named k a = false) ->
  fold_left (fun o a => cstep k a o) L None = None.
Proof.
  induction L as [|a L IH]; intro H; cbn [fold_left]; [reflexivity|].
  assert (E : cstep k a None = None).
  { pose proof (H a (or_introl eq_refl)) as Ha. destruct a; cbn [cstep option_map]; try reflexivity.
    cbn [adds_named] in Ha. now rewrite Ha. }
  rewrite E. apply IH. intros b Hb. apply H. now right.
Qed.

Lemma col_apply_other a c : is_attr_action a = true -> attr_col a <> c_name c -> col_apply a c = c.
Proof.
  intros Ha Hne. destruct a; try discriminate; cbn [col_apply attr_col] in *;
    (destruct (String.eqb (c_name c) column) eqn:E; [apply String.eqb_eq in E; congruence|reflexivity]).
Qed.

Lemma cfold_added k c : c_name c = k -> forall L,
  (forall a, In a L -> is_grow_action a = true) ->
  (exists n f, In (AddColumn n c f) L) ->
  (forall n c' f, In (AddColumn n c' f) L -> c_name c' = k -> c' = c) ->
  (forall a, In a L -> is_attr_action a = true -> attr_col a <> k) ->
  fold_left (fun o a => cstep k a o) L None = Some c.
Proof.
  intros Hk. induction L as [|a L IH] using rev_ind; intros Hg [n [f Hin]] Huniq Hattr; [destruct Hin|].
  rewrite fold_left_app. cbn [fold_left].
  assert (HgL : forall b, In b L -> is_grow_action b = true) by (intros b Hb; apply Hg, in_or_app; now left).
  assert (HuL : forall n' c' f', In (AddColumn n' c' f') L -> c_name c' = k -> c' = c)
    by (intros n' c' f' Hb; apply (Huniq n' c' f'), in_or_app; now left).
  assert (HaL : forall b, In b L -> is_attr_action b = true -> attr_col b <> k)
    by (intros b Hb; apply Hattr, in_or_app; now left).
  destruct (adds_named k a) eqn:Ea.
  - destruct a; try discriminate. cbn [adds_named] in Ea. cbn [cstep]. rewrite Ea.
    apply String.eqb_eq in Ea. f_equal. apply (Huniq table column fill_with); [apply in_or_app; right; now left|auto].
  - assert (HinL : exists n f, In (AddColumn n c f) L).
    { apply in_app_or in Hin. destruct Hin as [Hin|[E|[]]]; [eauto|]. subst a.
      cbn [adds_named] in Ea. rewrite Hk, String.eqb_refl in Ea. discriminate. }
    rewrite (IH HgL HinL HuL HaL).
    assert (Hga : is_grow_action a = true) by (apply Hg, in_or_app; right; now left).
    destruct (is_attr_action a) eqn:Haa.
    + assert (E : cstep k a (Some c) = Some (col_apply a c)) by (destruct a; try discriminate; reflexivity).
      rewrite E. f_equal. apply col_apply_other; [exact Haa|]. rewrite Hk.
      apply Hattr; [apply in_or_app; right; now left|exact Haa].
    + destruct a; try discriminate; cbn [cstep]; [|reflexivity].
      cbn [adds_named] in Ea. now rewrite Ea.
Qed.

(* ---------- the constraints after the list ---------- *)
Lemma cs_sem k : forall L t, (forall a, In a L -> is_grow_action a = true) ->
  In k (t_constraints (sem L t)) <-> In k (t_constraints t) \/ exists n, In (AddConstraint n k) L.
Proof.
  unfold sem. induction L as [|a L IH]; intros t Hg; cbn [fold_left].
  - split; [auto|intros [H|[n []]]; exact H].
  - rewrite IH by (intros b Hb; apply Hg; now right).
    pose proof (Hg a (or_introl eq_refl)) as Ha.
    destruct a; try discriminate; cbn [sem_step map_cols t_constraints];
      try (split; [intros [H|[n H]]; [now left|right; exists n; now right]
                  |intros [H|[n [H|H]]]; [now left|discriminate|right; now exists n]]).
    destruct (contains_constraint constraint (t_constraints t)) eqn:Ec; cbn [t_constraints].
    + apply contains_constraint_true in Ec. split.
      * intros [H|[n H]]; [now left|right; exists n; now right].
      * intros [H|[n [H|H]]]; [now left|inversion H; subst; now left|right; now exists n].
    + rewrite in_app_iff. cbn [In]. split.
      * intros [[H|[<-|[]]]|[n H]]; [now left|right; exists table; now left|right; exists n; now right].
      * intros [H|[n [H|H]]]; [left; now left|inversion H; subst; left; right; now left|right; now exists n].
Qed.

(* ---------- facts about a group made of grow actions ---------- *)
Lemma added_names_app a b : added_names (a ++ b) = added_names a ++ added_names b.
Proof. unfold added_names. apply flat_map_app. Qed.
Lemma added_names_nil l : (forall a, In a l -> kind a <> 5) -> added_names l = [].
Proof.
  intro H. unfold added_names. apply flat_map_nil. intros a Ha. specialize (H a Ha).
  destruct a; try reflexivity. exfalso. now apply H.
Qed.

Lemma added_names_block name (p : string * column_def -> bool) : forall m : list (string * column_def),
  NoDup (map fst m) -> (forall kv, In kv m -> c_name (snd kv) = fst kv) ->
  NoDup (added_names (flat_map (fun kv => if p kv then [] else [AddColumn name (snd kv) None]) m))
  /\ incl (added_names (flat_map (fun kv => if p kv then [] else [AddColumn name (snd kv) None]) m)) (map fst m).
Proof.
  induction m as [|kv m IH]; intros Hnd Hk; cbn [flat_map map]; [split; [constructor|intros x []]|].
  inversion Hnd as [|y l Hy Hnd']; subst y l.
  destruct IH as [IH1 IH2]; [exact Hnd'|intros x Hx; apply Hk; now right|].
  rewrite added_names_app. destruct (p kv); cbn [added_names flat_map app].
  - split; [exact IH1|]. intros x Hx. right. now apply IH2.
  - rewrite (Hk kv (or_introl eq_refl)). split.
    + constructor; [|exact IH1]. intro Hin. apply Hy. now apply IH2.
    + intros x [<-|Hx]; [now left|right; now apply IH2].
Qed.

Lemma common_not_add ft t2 f i : i <> 5 ->
  (forall k fd td x, In x (f k fd td) -> kind x = i) ->
  forall a, In a (tg_common ft t2 f) -> kind a <> 5.
Proof. intros Hi Hf a Ha. rewrite (common_kind ft t2 f i Hf a Ha). exact Hi. Qed.

Lemma added_names_group name ft t2 : NoDup (added_names (table_group name ft t2)).
Proof.
  rewrite table_group_parts, !added_names_app.
  rewrite (added_names_nil (map _ _)).
  2:{ intros a Ha. apply in_map_iff in Ha. destruct Ha as [c [<- _]]. discriminate. }
  rewrite (added_names_nil (tg_common ft t2 (f_type name))).
  2:{ apply (common_not_add ft t2 _ 1); [discriminate|]. intros k fd td x Hx. apply f_type_in in Hx. destruct Hx as [_ ->]. reflexivity. }
  rewrite (added_names_nil (tg_common ft t2 (f_nullable name))).
  2:{ apply (common_not_add ft t2 _ 2); [discriminate|]. intros k fd td x Hx. apply f_nullable_in in Hx. destruct Hx as [_ ->]. reflexivity. }
  rewrite (added_names_nil (tg_common ft t2 (f_default name))).
  2:{ apply (common_not_add ft t2 _ 3); [discriminate|]. intros k fd td x Hx. apply f_default_in in Hx. destruct Hx as [_ ->]. reflexivity. }
  rewrite (added_names_nil (tg_common ft t2 (f_comment name))).
  2:{ apply (common_not_add ft t2 _ 4); [discriminate|]. intros k fd td x Hx. apply f_comment_in in Hx. destruct Hx as [_ ->]. reflexivity. }
  rewrite (added_names_nil (tg_removed name ft t2)).
  2:{ intros a Ha. unfold tg_removed in Ha. apply in_flat_map in Ha. destruct Ha as [fc [_ Ha]].
      destruct (contains_constraint _ _); [destruct Ha|]. cbv zeta in Ha.
      destruct (_ && _)%bool; [destruct Ha|destruct Ha as [<-|[]]; discriminate]. }
  rewrite (added_names_nil (tg_addc name ft t2)).
  2:{ intros a Ha. unfold tg_addc in Ha. apply in_flat_map in Ha. destruct Ha as [tc [_ Ha]].
      destruct (contains_constraint _ _); [destruct Ha|destruct Ha as [<-|[]]; discriminate]. }
  cbn [app]. rewrite app_nil_r. unfold tg_added.
  apply (added_names_block name (fun kv => bt_mem (fst kv) (tg_cols ft))).
  - apply bt_sorted_nodup, tg_cols_sorted.
  - intros [k c] Hin. cbn [fst snd]. apply (tg_cols_get k c t2). apply bt_sorted_get; [apply tg_cols_sorted|exact Hin].
Qed.

Lemma added_in_group name ft t2 n c f : In (AddColumn n c f) (table_group name ft t2) ->
  bt_get (c_name c) (tg_cols t2) = Some c /\ bt_mem (c_name c) (tg_cols ft) = false /\ n = name /\ f = None.
Proof.
  intro H. apply group_kind_block in H. cbn [kind] in H. unfold tg_added in H.
  apply in_flat_map in H. destruct H as [[k td] [Hin H]]. cbn [fst snd] in H.
  destruct (bt_mem k (tg_cols ft)) eqn:Em; [destruct H|]. destruct H as [H|[]]. inversion H; subst.
  pose proof (bt_sorted_get k c _ (tg_cols_sorted t2) Hin) as Hg.
  destruct (tg_cols_get k c t2 Hg) as [_ Hn]. rewrite Hn. auto.
Qed.
Lemma group_adds name ft t2 k td : bt_get k (tg_cols t2) = Some td -> bt_mem k (tg_cols ft) = false ->
  In (AddColumn name td None) (table_group name ft t2).
Proof.
  intros Hg Hm. rewrite table_group_parts. do 5 (apply in_or_app; right). apply in_or_app; left.
  unfold tg_added. apply in_flat_map. exists (k, td). split; [now apply bt_get_in|].
  cbn [fst snd]. rewrite Hm. now left.
Qed.
Lemma addc_in_group name ft t2 n k : In (AddConstraint n k) (table_group name ft t2) -> In k (t_constraints t2).
Proof.
  intro H. apply group_kind_block in H. cbn [kind] in H. unfold tg_addc in H.
  apply in_flat_map in H. destruct H as [tc [Hin H]].
  destruct (contains_constraint _ _); [destruct H|]. destruct H as [H|[]]. now inversion H; subst.
Qed.
Lemma group_addc name ft t2 tc : In tc (t_constraints t2) -> contains_constraint tc (t_constraints ft) = false ->
  In (AddConstraint name tc) (table_group name ft t2).
Proof.
  intros Hin Hc. rewrite table_group_parts. do 7 (apply in_or_app; right).
  unfold tg_addc. apply in_flat_map. exists tc. split; [exact Hin|]. rewrite Hc. now left.
Qed.

Lemma attr_in_group_col name b tn a : In a (table_group name b tn) -> is_attr_action a = true ->
  In (attr_col a) (colnames b).
Proof.
  intros Ha Hk. apply group_kind_block in Ha.
  assert (Hcol : forall f, In a (tg_common b tn f) ->
            (forall k fd td, In a (f k fd td) -> attr_col a = k) -> In (attr_col a) (colnames b)).
  { intros f Hin Hf. apply common_in in Hin. destruct Hin as (k & fd & td & _ & Hfd & Hin).
    rewrite (Hf _ _ _ Hin). apply tg_cols_get in Hfd. destruct Hfd as [Hfd <-].
    unfold colnames. now apply in_map. }
  destruct a; try discriminate; cbn [kind] in Ha; apply (Hcol _ Ha); intros k fd td Hin.
  - apply f_type_in in Hin. destruct Hin as [_ Hin]. now inversion Hin.
  - apply f_nullable_in in Hin. destruct Hin as [_ Hin]. now inversion Hin.
  - apply f_default_in in Hin. destruct Hin as [_ Hin]. now inversion Hin.
  - apply f_comment_in in Hin. destruct Hin as [_ Hin]. now inversion Hin.
Qed.

Lemma grow_group_shape name ft t2 :
  (forall a, In a (table_group name ft t2) -> is_grow_action a = true) ->
  (forall k c, bt_get k (tg_cols ft) = Some c -> bt_mem k (tg_cols t2) = true)
  /\ incl (t_constraints ft) (t_constraints t2).
Proof.
  intro Hg. rewrite table_group_parts in Hg.
  assert (Hdel : tg_deleted ft t2 = []).
  { destruct (tg_deleted ft t2) as [|x r] eqn:E; [reflexivity|]. exfalso.
    assert (H : is_grow_action (DeleteColumn name x) = true) by (apply Hg, in_or_app; left; now left).
    discriminate. }
  split.
  - intros k c Hk. unfold tg_deleted in Hdel. apply map_eq_nil in Hdel.
    pose proof (filter_nil_inv _ _ Hdel (k, c) (bt_get_in _ _ _ Hk)) as H. cbn [fst] in H.
    now apply negb_false_iff in H.
  - intros fc Hin. destruct (contains_constraint fc (t_constraints t2)) eqn:E;
      [now apply contains_constraint_true|]. exfalso.
    assert (H : is_grow_action (RemoveConstraint name fc) = true).
    { apply Hg. do 6 (apply in_or_app; right). apply in_or_app; left.
      unfold tg_removed. apply in_flat_map. exists fc. split; [exact Hin|].
      rewrite E, Hdel. cbv zeta.
      destruct (constraint_columns fc) as [|x cc]; cbn [nonempty forallb mem_str existsb andb]; now left. }
    discriminate.
Qed.

Lemma nodup_str_NoDup' l : nodup_str l = true -> NoDup l.
Proof.
  induction l as [|x l IH]; [constructor|]. cbn [nodup_str]. intro H.
  apply andb_prop in H. destruct H as [H1 H2]. constructor; [|now apply IH].
  intro Hin. apply negb_true_iff in H1. unfold mem_str in H1.
  assert (E : existsb (String.eqb x) l = true)
    by (apply existsb_exists; exists x; split; [exact Hin|apply String.eqb_refl]).
  congruence.
Qed.

(* ---------- the whole group, in any order ---------- *)
Theorem grow_fold b tn L :
  normalize b = Ok b -> grow_only b tn = true -> Permutation L (table_group (t_name b) b tn) ->
  exists b', proj_all (Some b) L = Ok (Some b') /\ t_name b' = t_name b
             /\ normalize b' = Ok b' /\ table_equiv b' tn.
Proof.
  intros Hfix Hgrow HP. unfold grow_only in Hgrow.
  destruct (table_group (t_name b) b tn) as [|a0 g0] eqn:EG.
  - apply Permutation_sym, Permutation_nil in HP. subst L. exists b.
    split; [reflexivity|split; [reflexivity|split; [exact Hfix|]]].
    now apply (table_group_nil_inv (t_name b)).
  - rewrite <- EG in *. clear a0 g0 EG.
    apply andb_prop in Hgrow. destruct Hgrow as [Hgrow Hdef].
    apply andb_prop in Hgrow. destruct Hgrow as [Hgrow Hnb].
    rewrite forallb_forall in Hgrow, Hdef. apply nodup_str_NoDup' in Hnb.
    set (G := table_group (t_name b) b tn) in *.
    assert (HL : forall a, In a L <-> In a G).
    { intro a. split; apply Permutation_in; [exact HP|now apply Permutation_sym]. }
    destruct (grow_group_shape _ _ _ Hgrow) as [S1 S3].
    assert (HgL : forall a, In a L -> is_grow_action a = true) by (intros a Ha; apply Hgrow, HL, Ha).
    assert (Hv : valid L b).
    { constructor.
      - exact HgL.
      - intros a Ha Hattr. apply (attr_in_group_col (t_name b) b tn); [apply HL, Ha|exact Hattr].
      - eapply Permutation_NoDup; [|apply (added_names_group (t_name b) b tn)].
        unfold added_names. apply Permutation_flat_map, Permutation_sym, HP.
      - intros x Hx Hin. unfold added_names in Hx. apply in_flat_map in Hx.
        destruct Hx as [a [Ha Hx]]. destruct a; try (now destruct Hx). destruct Hx as [<-|[]].
        apply HL, added_in_group in Ha. destruct Ha as (_ & Hm & _).
        apply bt_mem_false in Hm. apply Hm. unfold tg_cols. rewrite bt_keys_of_list, map_map. exact Hin. }
    destruct (proj_all_grow L b Hv Hnb Hfix) as (P1 & P2 & P3).
    exists (sem L b). split; [exact P1|split; [exact P3|split; [exact P2|]]].
    split; [|split].
    + (* columns *)
      intro k. rewrite (col_named_sem k L b HgL), !col_named_tg.
      destruct (bt_get k (tg_cols b)) as [c|] eqn:Ec, (bt_get k (tg_cols tn)) as [td|] eqn:Et.
      * assert (Hno : forall a, In a L -> adds_named k a = false).
        { intros a Ha. destruct (adds_named k a) eqn:Ea; [|reflexivity]. exfalso.
          destruct a; try discriminate. cbn [adds_named] in Ea. apply String.eqb_eq in Ea.
          apply HL, added_in_group in Ha. destruct Ha as (_ & Hm & _). rewrite <- Ea in Hm.
          unfold bt_mem in Hm. rewrite Ec in Hm. discriminate. }
        rewrite (cfold_common k L c Hno). cbn [opt_rel].
        apply (upd_col_equiv (t_name b) b tn L HL k c td Ec Et).
        apply Hdef. now apply (tg_cols_get k td tn).
      * specialize (S1 k c Ec). unfold bt_mem in S1. rewrite Et in S1. discriminate.
      * assert (Hm : bt_mem k (tg_cols b) = false) by (unfold bt_mem; now rewrite Ec).
        destruct (tg_cols_get k td tn Et) as [_ Hk].
        rewrite (cfold_added k td Hk L HgL).
        -- cbn [opt_rel]. apply col_equiv_refl.
        -- exists (t_name b), None. apply HL. now apply (group_adds _ _ _ k).
        -- intros n c' f Hin Hc'. apply HL, added_in_group in Hin. destruct Hin as (Hg' & _).
           rewrite Hc', Et in Hg'. now inversion Hg'.
        -- intros a Ha Hattr E. apply HL in Ha.
           pose proof (attr_in_group_col _ _ _ _ Ha Hattr) as Hin. rewrite E in Hin.
           apply bt_mem_false in Hm. apply Hm. unfold tg_cols. rewrite bt_keys_of_list, map_map. exact Hin.
      * assert (Hno : forall a, In a L -> adds_named k a = false).
        { intros a Ha. destruct (adds_named k a) eqn:Ea; [|reflexivity]. exfalso.
          destruct a; try discriminate. cbn [adds_named] in Ea. apply String.eqb_eq in Ea.
          apply HL, added_in_group in Ha. destruct Ha as (Hg' & _). rewrite <- Ea, Et in Hg'. discriminate. }
        rewrite (cfold_none k L Hno). exact I.
    + (* constraints of the result are constraints of the target *)
      intros k Hk. apply (cs_sem k L b HgL) in Hk. destruct Hk as [Hk|[n Hk]]; [now apply S3|].
      apply HL in Hk. eapply addc_in_group; exact Hk.
    + (* and conversely *)
      intros tc Htc. apply (cs_sem tc L b HgL).
      destruct (contains_constraint tc (t_constraints b)) eqn:E; [left; now apply contains_constraint_true|].
      right. exists (t_name b). apply HL. now apply group_addc.
Qed.
