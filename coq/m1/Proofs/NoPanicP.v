(* C16, planner stage: the diff / planning model never ends in its panic or out-of-fuel outcome.
   The only `panic!` of the planner (diff.rs:115, extract_delete_table_name) is modelled by the filter that
   guards it (sort_delete_tables works on `filter is_delete_table` only); the fuelled Kahn sorts never run out
   of fuel (KahnP); hence diff_actions can only fail with DiffTableValidation or DiffCycle. *)
From VV.M1 Require Import Diff KahnP.

Lemma normalize_all_err s : forall e, normalize_all s = Err e -> e = DiffTableValidation.
Proof.
  unfold normalize_all. induction s as [|t s IH]; intros e; cbn [map_result]; [discriminate|].
  destruct (normalize t) as [n|te].
  - destruct (map_result _ s) as [ns|e'] eqn:E; [discriminate|].
    intro H. injection H as <-. now apply IH.
  - intro H. injection H as <-. reflexivity.
Qed.

Theorem diff_actions_error_kinds from to e :
  diff_actions from to = Err e -> e = DiffTableValidation \/ e = DiffCycle.
Proof.
  unfold diff_actions.
  destruct (normalize_all from) as [fn|e1] eqn:E1.
  2:{ intro H. injection H as <-. left. eapply normalize_all_err, E1. }
  destruct (normalize_all to) as [tn|e2] eqn:E2.
  2:{ intro H. injection H as <-. left. eapply normalize_all_err, E2. }
  cbv zeta.
  match goal with |- context [topo_sort ?x] => destruct (topo_sort x) eqn:T end.
  - discriminate.
  - intro H. injection H as <-. now right.
  - exfalso. exact (topo_sort_never_out_of_fuel _ T).
Qed.

Theorem diff_actions_no_panic from to :
  diff_actions from to <> Err DiffPanic /\ diff_actions from to <> Err DiffOutOfFuel.
Proof.
  split; intro H; destruct (diff_actions_error_kinds _ _ _ H); discriminate.
Qed.

Theorem plan_next_no_panic current applied :
  plan_next current applied <> Err (PlanDiff DiffPanic) /\ plan_next current applied <> Err (PlanDiff DiffOutOfFuel).
Proof.
  unfold plan_next. destruct (replay applied) as [b|e]; [|split; discriminate].
  destruct (diff_actions b current) as [acts|e] eqn:D; [split; discriminate|].
  destruct (diff_actions_error_kinds _ _ _ D) as [-> | ->]; split; discriminate.
Qed.
