(* C06 for plans whose common-table groups are of the C01 "mix" class (C06_core): the extension of
   AlterP.c06_change_sound to added columns with inline declarations, dropped columns with the constraints
   over them alone, and removed constraints backed by inline declarations.  Same plan shape and same three
   phases as AlterP; only the per-table invariant of phase 3 is rebuilt on CoreP.mix_step. *)
From VV.M1 Require Import Diff Validate Revision Oracles Hyp Hyp06 Hyp06b BtP NormalizeP DiffP DiffEqP SortKeyP KahnP
  ApplyLocalP DiffPermP C01P AttrsP GrowP ChangeP InlineP GroupsP CoreP CreateOnlyP CreateDropP AlterP C01HistP.
From Coq Require Import Lia Permutation Sorted.

(* ---------- what one step does to column names and constraints ---------- *)
Lemma col_products_cols c k : In k (col_products c) -> constraint_columns k = [c_name c].
Proof.
  unfold col_products. intro H. apply in_app_or in H. destruct H as [H|H].
  - apply in_map_iff in H. destruct H as [key [<- _]]. reflexivity.
  - apply in_app_or in H. destruct H as [H|H].
    + unfold fk_product in H. destruct (c_foreign_key c) as [f|]; [|destruct H].
      destruct (fk_of_syntax (c_name c) f) as [[[[t rc] od] ou]|e]; [|destruct H].
      destruct H as [<-|[]]. reflexivity.
    + apply in_map_iff in H. destruct H as [key [<- _]]. reflexivity.
Qed.

Definition names_after (a : action) (names : list string) : list string :=
  match a with
  | AddColumn _ c _ => names ++ [c_name c]
  | DeleteColumn _ x => filter (fun y => negb (String.eqb y x)) names
  | _ => names
  end.

Lemma step4_facts tb tcs allowed a L t :
  valid4 tb tcs allowed (a :: L) t -> normalize t = Ok t ->
  colnames (sem_step4 a t) = names_after a (colnames t)
  /\ (forall k, In k (t_constraints (sem_step4 a t)) ->
        In k (t_constraints t) \/ (exists n, a = AddConstraint n k)
        \/ exists n c f, a = AddColumn n c f /\ In k (col_products c))
  /\ (forall k, In k (t_constraints t) ->
        In k (t_constraints (sem_step4 a t)) \/ (exists n, a = RemoveConstraint n k)
        \/ exists n x, a = DeleteColumn n x /\ mentions x k = true).
Proof.
  intros Hv Hfix. pose proof (y_kind _ _ _ _ _ Hv a (or_introl eq_refl)) as Hk.
  assert (Attr : is_attr_action a = true ->
            colnames (map_cols (col_apply a) t) = names_after a (colnames t)
            /\ t_constraints (map_cols (col_apply a) t) = t_constraints t).
  { intro Ha. split; [|reflexivity]. unfold colnames, map_cols. cbn [t_columns]. rewrite map_map.
    rewrite (map_ext _ c_name (col_apply_name a)). destruct a; try discriminate; reflexivity. }
  destruct a; try discriminate;
    try (destruct (Attr eq_refl) as [A1 A2]; cbn [sem_step4 sem_step3 sem_step];
         split; [exact A1|split; intros k Hin; left; [now rewrite A2 in Hin|now rewrite A2]]).
  - (* AddColumn *)
    destruct (y_shape _ _ _ _ _ Hv table column fill_with (or_introl eq_refl)) as ((Hpk & Hnu & Hni & Hfk) & Hfree & _).
    destruct (normalize_snoc_inline (t_columns t) (t_constraints t) column
                (normalize_fix_inv t Hfix) Hpk Hnu Hni Hfk Hfree) as (cs' & Ecs & [ex Xcs] & Mcs).
    assert (Hnorm : normalize (mkTable (t_name t) (t_description t) (t_columns t ++ [column]) (t_constraints t))
                    = Ok (mkTable (t_name t) (t_description t) (t_columns t ++ [column]) cs')).
    { unfold normalize. cbn [t_columns t_constraints t_name t_description]. now rewrite Ecs. }
    cbn [sem_step4 sem_step3 names_after]. rewrite Hnorm. cbn [t_constraints]. split; [|split].
    + unfold colnames. cbn [t_columns]. now rewrite map_app.
    + intros k Hin. destruct (Mcs k Hin) as [H|H]; [now left|]. right. right. exists table, column, fill_with. auto.
    + intros k Hin. left. rewrite Xcs. apply in_or_app. now left.
  - (* DeleteColumn *)
    cbn [sem_step4 names_after t_constraints]. split; [|split].
    + unfold colnames. cbn [t_columns]. induction (t_columns t) as [|c r IH]; [reflexivity|]. cbn [filter map].
      unfold not_named at 1. destruct (String.eqb (c_name c) column); cbn [negb map]; now rewrite IH.
    + intros k Hin. apply filter_In in Hin. left. tauto.
    + intros k Hin. destruct (mentions column k) eqn:E.
      * right. right. exists table, column. auto.
      * left. apply filter_In. split; [exact Hin|now rewrite E].
  - (* AddConstraint *)
    cbn [sem_step4 sem_step3 sem_step names_after].
    destruct (contains_constraint constraint (t_constraints t)) eqn:E.
    + split; [reflexivity|]. split; intros k Hin; now left.
    + cbn [t_constraints]. split; [reflexivity|]. split; intros k Hin.
      * apply in_app_or in Hin. destruct Hin as [Hin|[<-|[]]]; [now left|right; left; now exists table].
      * left. apply in_or_app. now left.
  - (* RemoveConstraint *)
    cbn [sem_step4 names_after t_constraints]. split; [|split].
    + unfold colnames. cbn [t_columns]. rewrite map_map. apply map_ext. intro c. apply clr_name.
    + intros k Hin. apply filter_In in Hin. left. tauto.
    + intros k Hin. destruct (keep_not constraint k) eqn:E.
      * left. apply filter_In. auto.
      * right. left. exists table. unfold keep_not in E. apply Bool.negb_false_iff, constraint_eqb_eq in E. now subst.
Qed.

(* a RemoveConstraint of the group is never for a constraint all of whose columns are dropped *)
Lemma rem_in_group2 name ft t2 n k : In (RemoveConstraint n k) (table_group name ft t2) ->
  In k (t_constraints ft) /\ contains_constraint k (t_constraints t2) = false
  /\ (nonempty (constraint_columns k) && forallb (fun c => mem_str c (tg_deleted ft t2)) (constraint_columns k))%bool = false.
Proof.
  intro H. apply group_kind_block in H. cbn [kind] in H. unfold tg_removed in H.
  apply in_flat_map in H. destruct H as [fc [Hin H]].
  destruct (contains_constraint fc (t_constraints t2)) eqn:E; [destruct H|]. cbv zeta in H.
  destruct (_ && _)%bool eqn:E2; [destruct H|]. destruct H as [H|[]]. inversion H; subst. auto.
Qed.

(* ---------- phase 3 with mix-class groups ---------- *)
Section Phase3c.
  Variable keep : string -> list string.
  Variables allowedc tcsf : string -> list table_constraint.
  Variable N : list string.
  Hypothesis S1 : forall m nm cols rt rcols od ou, In m N ->
    In (CForeignKey nm cols rt rcols od ou) (allowedc m) ->
    In rt N /\ incl rcols (keep rt) /\ List.length cols = List.length rcols /\ nonempty cols = true.

  Record tinvc (n : string) (t : table_def) (L : list action) : Prop := {
    tc_name : t_name t = n;
    tc_fix : normalize t = Ok t;
    tc_incl : incl (t_constraints t) (allowedc n);
    tc_keep : incl (keep n) (colnames t);
    tc_cols : forall k, In k (t_constraints t) -> incl (constraint_columns k) (colnames t);
    tc_valid : valid4 n (tcsf n) (allowedc n) L t;
    tc_up : inv_up (tcsf n) t L;
    tc_down : inv_down (tcsf n) t L;
    tc_ready : addc_ready (colnames t) L = true;
    tc_rem_nd : NoDup (removed_cs L);
    tc_rem_in : forall k, In k (removed_cs L) -> In k (t_constraints t);
    tc_del_keep : forall x, In x (deleted_names L) -> ~ In x (keep n);
    tc_rem_del : forall k x, In k (removed_cs L) -> In x (deleted_names L) -> mentions x k = false;
    tc_act : L = [] \/ (NoDup (colnames t) /\ (forall k, In k (allowedc n) -> cons_ok k = true)
                        /\ incl (tcsf n) (allowedc n)) }.

  Definition sinvc (s : schema) (L : list action) : Prop :=
    NoDup (map t_name s) /\
    (forall n, In n N <-> In n (map t_name s)) /\
    (forall n t, find_t n s = Some t -> tinvc n t (filter (on_table n) L)) /\
    (forall a, In a L -> exists n, act_table a = Some n /\ In n N).

  Lemma sinvc_consistent s L : sinvc s L -> consistent s = true.
  Proof.
    intros [Hnd [HN [Ht _]]]. unfold consistent. apply Bool.andb_true_iff. split; [now apply nodup_str_spec|].
    apply forallb_forall. intros t Hin.
    pose proof (Ht _ _ (find_t_in_nodup (t_name t) s t Hnd Hin eq_refl)) as I.
    unfold table_consistent. rewrite (tc_fix _ _ _ I). apply forallb_forall. intros k Hk.
    apply Bool.andb_true_iff. split.
    - apply forallb_forall. intros c Hc. apply mem_str_In. change (map c_name (t_columns t)) with (colnames t).
      now apply (tc_cols _ _ _ I k Hk).
    - destruct k as [| |nm cols rt rcols od ou| |]; try reflexivity.
      destruct (S1 (t_name t) nm cols rt rcols od ou) as [HrN [Hrk [Hl Hne]]].
      { apply HN. now apply in_map. } { now apply (tc_incl _ _ _ I). }
      destruct (find_name_some rt s (proj1 (HN rt) HrN)) as [r [Hf [Hr Er]]]. rewrite Hf.
      pose proof (Ht rt r Hf) as Ir. rewrite Hne, Bool.andb_true_r. apply Bool.andb_true_iff. split.
      + apply forallb_forall. intros rc Hrc. apply mem_str_In. change (map c_name (t_columns r)) with (colnames r).
        apply (tc_keep _ _ _ Ir). now apply Hrk.
      + now apply PeanoNat.Nat.eqb_eq.
  Qed.

  Lemma tinvc_step n t a L : tinvc n t (a :: L) ->
    apply_table (Some t) a = Ok (Some (sem_step4 a t)) /\ tinvc n (sem_step4 a t) L.
  Proof.
    intros [In_ Ifix Iincl Ikeep Icols Ival Iup Idown Iready Irnd Irin Idk Ird Iact].
    destruct Iact as [E|[Hnd [Hok Htcs]]]; [discriminate|].
    destruct (mix_step n (tcsf n) (allowedc n) Hok Htcs a L t Ival Hnd Ifix Iincl Iup Idown)
      as (H1 & H2 & H3 & H4 & H5 & H6 & H7 & _).
    destruct (step4_facts n (tcsf n) (allowedc n) a L t Ival Ifix) as (Ec & Enew & Eold).
    split; [exact H1|].
    assert (Hsub : forall y, In y (colnames t) -> (forall n' x, a = DeleteColumn n' x -> y <> x) ->
              In y (names_after a (colnames t))).
    { intros y Hy Hne. destruct a; cbn [names_after]; try exact Hy.
      - apply in_or_app. now left.
      - apply filter_In. split; [exact Hy|]. apply Bool.negb_true_iff, String.eqb_neq. now apply (Hne table). }
    constructor; try assumption.
    - now rewrite sem_step4_name.
    - (* keep *)
      intros y Hy. rewrite Ec. apply Hsub; [now apply Ikeep|]. intros n' x -> ->.
      apply (Idk x); [now left|exact Hy].
    - (* constraint columns *)
      intros k Hin c Hc. rewrite Ec. destruct (Enew k Hin) as [Hold|[[n' E]|[n' [c0 [f [E Hp]]]]]].
      + apply Hsub; [now apply (Icols k Hold)|]. intros n' x -> ->.
        cbn [sem_step4 t_constraints] in Hin. apply filter_In in Hin. destruct Hin as [_ Hm].
        apply Bool.negb_true_iff in Hm. exact (mentions_cols _ _ Hm Hc).
      + subst a. cbn [names_after]. cbn [addc_ready] in Iready. apply Bool.andb_true_iff in Iready.
        destruct Iready as [R1 _]. rewrite forallb_forall in R1. now apply mem_str_In, R1.
      + subst a. cbn [names_after]. rewrite (col_products_cols c0 k Hp) in Hc. destruct Hc as [<-|[]].
        apply in_or_app. right. now left.
    - (* ready *)
      rewrite Ec. destruct a; cbn [addc_ready names_after] in *; try exact Iready.
      + eapply addc_ready_incl; [|exact Iready]. intros y [<-|Hy]; apply in_or_app; [right; now left|now left].
      + apply Bool.andb_true_iff in Iready. tauto.
    - (* removed: no duplicates *)
      unfold removed_cs in *. cbn [flat_map] in Irnd. destruct a; cbn [app] in Irnd; try exact Irnd.
      now inversion Irnd.
    - (* removed: still present *)
      intros k Hin.
      assert (HinA : In k (removed_cs (a :: L))) by (unfold removed_cs in *; cbn [flat_map]; apply in_or_app; now right).
      destruct (Eold k (Irin k HinA)) as [H|[[n' E]|[n' [x [E Hm]]]]]; [exact H| |].
      + exfalso. subst a. unfold removed_cs in Irnd, Hin. cbn [flat_map app] in Irnd. inversion Irnd; subst. contradiction.
      + exfalso. subst a. rewrite (Ird k x HinA) in Hm; [discriminate|]. now left.
    - intros x Hx. apply Idk. unfold deleted_names in *. cbn [flat_map]. apply in_or_app. now right.
    - intros k x Hk Hx. apply Ird.
      + unfold removed_cs in *. cbn [flat_map]. apply in_or_app. now right.
      + unfold deleted_names in *. cbn [flat_map]. apply in_or_app. now right.
    - destruct L; [now left|right]. auto.
  Qed.

  Lemma sinvc_step s a L : sinvc s (a :: L) ->
    target_present s a = true /\ exists s', apply_action s a = Ok s' /\ sinvc s' L.
  Proof.
    intros [Hnd [HN [Ht Ha]]].
    destruct (Ha a (or_introl eq_refl)) as [n [Ea HnN]].
    destruct (find_name_some n s (proj1 (HN n) HnN)) as [t [Hf [Hin En]]]. change (find_t n s = Some t) in Hf.
    pose proof (Ht n t Hf) as I. cbn [filter] in I. rewrite (on_table_true a n Ea) in I.
    destruct (tinvc_step n t a _ I) as [Hap I'].
    destruct (apply_action_proj s a n (Some (sem_step4 a t)) Hnd Ea) as [s' [Hs' [Hfn [Hother Hnd']]]].
    { now rewrite Hf. }
    split.
    - destruct a; try reflexivity. cbn [act_table] in Ea. injection Ea as ->. cbn [target_present].
      change (find (fun t0 => String.eqb (t_name t0) n) s) with (find_t n s). rewrite Hf.
      apply contains_constraint_in. apply (tc_rem_in _ _ _ I). unfold removed_cs. cbn [flat_map app]. now left.
    - exists s'. split; [exact Hs'|]. split; [exact Hnd'|]. split; [|split].
      + intro m. rewrite HN. destruct (string_dec m n) as [->|Hne].
        * split; intros _; [|apply (proj1 (HN n) HnN)].
          destruct (find_t_some _ _ _ Hfn) as [Hi E]. rewrite <- E at 1. now apply in_map.
        * rewrite !in_names_find, (Hother m Hne). reflexivity.
      + intros m u Hu. destruct (string_dec m n) as [->|Hne].
        * rewrite Hfn in Hu. injection Hu as <-. exact I'.
        * rewrite (Hother m Hne) in Hu. pose proof (Ht m u Hu) as Iu. cbn [filter] in Iu.
          now rewrite (on_table_false a n m Ea Hne) in Iu.
      + intros b Hb. apply Ha. now right.
  Qed.

  Lemma stepwise_phase3c : forall L s, sinvc s L -> stepwise_ok s L = true.
  Proof.
    induction L as [|a L IH]; intros s H; [reflexivity|].
    destruct (sinvc_step s a L H) as [Htp [s' [Hs' H']]]. cbn [stepwise_ok]. rewrite Htp, Hs'.
    rewrite (sinvc_consistent s' L H'), (IH s' H'). reflexivity.
  Qed.
End Phase3c.

(* ---------- the initial invariant of a common table ---------- *)
Lemma valid4_nil tb tcs allowed t : valid4 tb tcs allowed [] t.
Proof. constructor; try (intros; contradiction); constructor. Qed.

Lemma mix_initial b tn L :
  mix_only b tn = true -> table_group (t_name b) b tn <> [] ->
  Permutation L (table_group (t_name b) b tn) ->
  NoDup (colnames b)
  /\ (forall k, In k (t_constraints b ++ t_constraints tn) -> cons_ok k = true)
  /\ valid4 (t_name b) (t_constraints tn) (t_constraints b ++ t_constraints tn) L b
  /\ inv_up (t_constraints tn) b L /\ inv_down (t_constraints tn) b L
  /\ (forall k x, In k (removed_cs L) -> In x (deleted_names L) -> mentions x k = false).
Proof.
  intros Hch Hne HP. unfold mix_only in Hch.
  destruct (table_group (t_name b) b tn) as [|a0 g0] eqn:EG; [now destruct Hne|].
  rewrite <- EG in *. clear a0 g0 EG Hne.
  apply andb_prop in Hch. destruct Hch as [Hch Hok].
  apply andb_prop in Hch. destruct Hch as [Hch Hdef].
  apply andb_prop in Hch. destruct Hch as [Hch Hnb].
  rewrite forallb_forall in Hch, Hdef, Hok. apply nodup_str_NoDup' in Hnb.
  set (G := table_group (t_name b) b tn) in *.
  set (allowed := t_constraints b ++ t_constraints tn) in *.
  assert (HL : forall a, In a L <-> In a G).
  { intro a. split; apply Permutation_in; [exact HP|now apply Permutation_sym]. }
  assert (HkL : forall a, In a L -> is_mix_kind a = true)
    by (intros a Ha; eapply mix_action_kind, Hch, HL, Ha).
  assert (Hadd0 : forall n c f, In (AddColumn n c f) G ->
            In c (t_columns tn) /\ ~ In (c_name c) (colnames b)).
  { intros n c f Hin. apply added_in_group in Hin. destruct Hin as (Hg & Hm & _).
    split; [now apply (tg_cols_get (c_name c) c tn)|].
    apply bt_mem_false in Hm. intro Hcn. apply Hm. unfold tg_cols. rewrite bt_keys_of_list, map_map. exact Hcn. }
  assert (Hdel : forall x, In x (tg_deleted b tn) ->
            exists X, In X (t_columns b) /\ c_name X = x /\ c_primary_key X = None
              /\ (forall col, In col (t_columns b ++ t_columns tn) -> c_name col <> x -> keys_free [col] X)
              /\ forall k, In k allowed ->
                   mentions x k = false
                   \/ (constraint_columns k = [x] /\ is_pk k = false /\ ~ In k (t_constraints tn)
                       /\ name_free x k (t_columns b ++ t_columns tn))).
  { intros x Hx. pose proof (Hch _ (group_dels (t_name b) b tn x Hx)) as H. cbn [is_mix_action] in H.
    unfold del_ok_b in H. destruct (find_column x b) as [X|] eqn:EX; [|discriminate].
    unfold find_column in EX. apply find_some in EX. destruct EX as [HX HXn]. apply String.eqb_eq in HXn.
    rewrite !Bool.andb_true_iff in H. destruct H as [[H1 H2] H3]. unfold others_named in H2.
    rewrite forallb_forall in H2, H3.
    exists X. split; [exact HX|]. split; [exact HXn|]. split; [now apply is_none_eq|]. split.
    - intros col Hc Hne. specialize (H2 col Hc). apply Bool.orb_true_iff in H2.
      destruct H2 as [H2|H2]; [apply String.eqb_eq in H2; contradiction|now apply keys_free_b_spec].
    - intros k Hk. specialize (H3 k Hk). apply Bool.orb_true_iff in H3. destruct H3 as [H3|H3].
      + left. now apply Bool.negb_true_iff in H3.
      + right. unfold single_b in H3. rewrite !Bool.andb_true_iff in H3. destruct H3 as [[[S1' S2] S3] S4].
        split; [|split; [now apply Bool.negb_true_iff in S2|split]].
        * destruct (constraint_columns k) as [|y [|z r]]; try discriminate. apply String.eqb_eq in S1'. now subst.
        * apply Bool.negb_true_iff in S3. intro Hin. rewrite (contains_constraint_in _ _ Hin) in S3. discriminate.
        * intros n Hn col Hc Hne. rewrite Hn in S4. unfold others_named in S4. rewrite forallb_forall in S4.
          specialize (S4 col Hc). apply Bool.orb_true_iff in S4.
          destruct S4 as [S4|S4]; [apply String.eqb_eq in S4; contradiction|].
          apply andb_prop in S4. destruct S4 as [U1 U2].
          split; apply mem_str_false; now apply Bool.negb_true_iff. }
  assert (HdL : forall x, In x (deleted_names L) -> In x (tg_deleted b tn)).
  { intros x Hx. apply in_deleted_names in Hx. destruct Hx as [n Hx]. apply HL, del_in_group in Hx. tauto. }
  assert (Hadd : forall n c f, In (AddColumn n c f) L ->
            inline_ok b tn c = true /\ In c (t_columns tn) /\ bt_get (c_name c) (tg_cols tn) = Some c
            /\ bt_mem (c_name c) (tg_cols b) = false).
  { intros n c f Hin. apply HL in Hin. pose proof (Hch _ Hin) as Hok'. cbn [is_mix_action] in Hok'.
    apply added_in_group in Hin. destruct Hin as (Hg & Hm & _).
    repeat split; try assumption. now apply (tg_cols_get (c_name c) c tn). }
  assert (Hincl : incl (t_constraints b) allowed) by (intros k Hk; unfold allowed; apply in_or_app; now left).
  split; [exact Hnb|]. split; [exact Hok|]. split; [|split; [|split]].
  - constructor.
    + exact HkL.
    + intros a Ha Hattr. split; [apply (attr_in_group_col (t_name b) b tn); [apply HL, Ha|exact Hattr]|].
      intro Hd. apply HdL, tg_deleted_in in Hd. destruct Hd as [c [_ Hm]].
      rewrite (attr_in_group_tc (t_name b) b tn a (proj1 (HL a) Ha) Hattr) in Hm. discriminate.
    + eapply Permutation_NoDup; [|apply (added_names_group (t_name b) b tn)].
      unfold added_names. apply Permutation_flat_map, Permutation_sym, HP.
    + intros x Hx Hin. unfold added_names in Hx. apply in_flat_map in Hx.
      destruct Hx as [a [Ha Hx]]. destruct a; try (now destruct Hx). destruct Hx as [<-|[]].
      destruct (Hadd _ _ _ Ha) as (_ & _ & _ & Hm).
      apply bt_mem_false in Hm. apply Hm. unfold tg_cols. rewrite bt_keys_of_list, map_map. exact Hin.
    + intros n c f Hin. destruct (Hadd n c f Hin) as (Hok' & _).
      unfold inline_ok in Hok'. rewrite !Bool.andb_true_iff in Hok'.
      destruct Hok' as [[[[[[O1 O2] O3] O4] O5] O6] O7].
      split; [|split; [|split]].
      * repeat split; [now apply is_none_eq|now apply nodup_str_NoDup'|now apply nodup_str_NoDup'|exact O4].
      * rewrite forallb_forall in O5. intros col Hc. apply (keys_free_b_spec col c (O5 col Hc)). now left.
      * intros n' c' f' Hin' Hne. destruct (Hadd n' c' f' Hin') as (_ & Hc'tn & _).
        rewrite forallb_forall in O6. specialize (O6 c' Hc'tn).
        apply Bool.orb_true_iff in O6. destruct O6 as [O6|O6]; [apply String.eqb_eq in O6; contradiction|].
        now apply keys_free_b_spec.
      * rewrite forallb_forall in O7. intros k Hk. apply contains_constraint_true. now apply O7.
    + apply (Permutation_NoDup (l := deleted_names G)).
      * unfold deleted_names. apply Permutation_flat_map, Permutation_sym, HP.
      * unfold G. rewrite deleted_names_group. apply tg_deleted_nodup.
    + intros x Hx. apply HdL in Hx. destruct (Hdel x Hx) as (X & X1 & X2 & X3 & X4 & _).
      exists X. split; [exact X1|]. split; [exact X2|]. split; [exact X3|]. split.
      * intros col Hc. apply X4. apply in_or_app. now left.
      * intros n c f Hc. destruct (Hadd0 n c f (proj1 (HL _) Hc)) as [Hct Hcn].
        apply X4; [apply in_or_app; now right|]. intro E. apply Hcn. rewrite E, <- X2.
        unfold colnames. now apply in_map.
    + intros x k Hx Hk. apply HdL in Hx. destruct (Hdel x Hx) as (X & X1 & X2 & _ & _ & X5).
      destruct (X5 k Hk) as [H|(D1 & D2 & D3 & D4)]; [now left|]. right.
      split; [exact D1|]. split; [exact D2|]. split; [exact D3|]. split.
      * intros n Hn col Hc. apply (D4 n Hn). apply in_or_app. now left.
      * intros n c f Hc n0 Hn0 col [<-|[]] Hne. destruct (Hadd0 n c f (proj1 (HL _) Hc)) as [Hct _].
        apply (D4 n0 Hn0); [apply in_or_app; now right|exact Hne].
    + intros n k Hin. apply HL, addc_in_group in Hin. exact Hin.
    + intros n k Hin. apply HL in Hin. pose proof (Hch _ Hin) as Hs. cbn [is_mix_action] in Hs.
      apply andb_prop in Hs. destruct Hs as [Hs1 Hs2]. rewrite forallb_forall in Hs2.
      split; [|split; [|split]].
      * pose proof (table_group_on _ _ _ _ Hin) as E. cbn [act_table] in E. now inversion E.
      * apply rem_in_group in Hin. destruct Hin as [_ Hc]. intro Hk.
        rewrite (contains_constraint_in _ _ Hk) in Hc. discriminate.
      * apply Bool.orb_true_iff in Hs1. destruct Hs1 as [Hs1|Hs1].
        -- left. destruct k; try discriminate; reflexivity.
        -- right. rewrite forallb_forall in Hs1. exact Hs1.
      * intros n' c f Hc. destruct (Hadd n' c f Hc) as (_ & Hctn & _ & Hm).
        apply Hs2. apply filter_In. split; [exact Hctn|].
        apply Bool.negb_true_iff, mem_str_false. intro Hcn. apply bt_mem_false in Hm. apply Hm.
        unfold tg_cols. rewrite bt_keys_of_list, map_map. exact Hcn.
  - intros k Hk. destruct (contains_constraint k (t_constraints tn)) eqn:E; [left; now apply contains_constraint_true|].
    right. destruct (existsb (fun x => mentions x k) (tg_deleted b tn)) eqn:Em.
    + right. apply existsb_exists in Em. destruct Em as [x [Hx Hm]]. exists x. split; [|exact Hm].
      apply in_deleted_names. exists (t_name b). apply HL. now apply group_dels.
    + left. exists (t_name b). apply HL, group_rems; [exact Hk|exact E|].
      intros x Hx. destruct (mentions x k) eqn:Emx; [|reflexivity].
      assert (Ex : existsb (fun x => mentions x k) (tg_deleted b tn) = true)
        by (apply existsb_exists; exists x; auto). congruence.
  - intros tc Htc. destruct (contains_constraint tc (t_constraints b)) eqn:E; [left; now apply contains_constraint_true|].
    right. exists (t_name b). apply HL. now apply group_addc.
  - intros k x Hk Hx. destruct (mentions x k) eqn:Em; [|reflexivity]. exfalso.
    unfold removed_cs in Hk. apply in_flat_map in Hk. destruct Hk as [a [Ha Hk]].
    destruct a; try (now destruct Hk). destruct Hk as [<-|[]].
    apply HL, rem_in_group2 in Ha. destruct Ha as (Hkb & _ & Hall).
    apply HdL in Hx. destruct (Hdel x Hx) as (_ & _ & _ & _ & _ & X5).
    destruct (X5 constraint (Hincl _ Hkb)) as [H|(D1 & _)]; [congruence|].
    rewrite D1 in Hall. cbn [nonempty forallb] in Hall.
    assert (Hmx : mem_str x (tg_deleted b tn) = true) by now apply mem_str_In.
    rewrite Hmx in Hall. discriminate.
Qed.

Lemma common_tinvc keep allowedc tcsf b tn L :
  normalize b = Ok b ->
  (forall k, In k (t_constraints b) -> incl (constraint_columns k) (colnames b)) ->
  c06_table_core b tn = true ->
  Permutation L (table_group (t_name b) b tn) ->
  filter keepp L = filter keepp (table_group (t_name b) b tn) ->
  keep (t_name b) = filter (fun x => negb (mem_str x (deleted_cols b tn))) (colnames b) ->
  allowedc (t_name b) = t_constraints b ++ t_constraints tn ->
  tcsf (t_name b) = t_constraints tn ->
  tinvc keep allowedc tcsf (t_name b) b L.
Proof.
  intros Hfix Hcols Hc HP HF Ek Ea Et. unfold c06_table_core in Hc.
  apply andb_prop in Hc. destruct Hc as [Hc Hready]. apply andb_prop in Hc. destruct Hc as [Hc Hnb].
  apply andb_prop in Hc. destruct Hc as [Hch Hdup]. apply Bool.negb_true_iff, has_dup_constraint_false in Hdup.
  set (G := table_group (t_name b) b tn) in *.
  assert (HL : forall a, In a L <-> In a G).
  { intro a. split; apply Permutation_in; [exact HP|now apply Permutation_sym]. }
  assert (HdL : forall x, In x (deleted_names L) -> In x (tg_deleted b tn)).
  { intros x Hx. apply in_deleted_names in Hx. destruct Hx as [n Hx]. apply HL, del_in_group in Hx. tauto. }
  destruct G as [|a0 g0] eqn:EG.
  - (* nothing to do for this table *)
    apply Permutation_sym, Permutation_nil in HP. subst L.
    pose proof (table_group_nil_inv (t_name b) b tn EG) as (_ & I1 & I2).
    constructor; try (intros; contradiction).
    + reflexivity.
    + exact Hfix.
    + rewrite Ea. intros k Hk. apply in_or_app. now left.
    + rewrite Ek. intros x Hx. apply filter_In in Hx. tauto.
    + exact Hcols.
    + apply valid4_nil.
    + rewrite Et. intros k Hk. left. now apply I1.
    + rewrite Et. intros k Hk. left. now apply I2.
    + reflexivity.
    + constructor.
    + now left.
  - assert (Hne : table_group (t_name b) b tn <> []) by (fold G; rewrite EG; discriminate).
    rewrite <- EG in *. clear a0 g0 EG.
    destruct (mix_initial b tn L Hch Hne HP) as (Hnd & Hok & Hv & Hup & Hdown & Hrd).
    constructor.
    + reflexivity.
    + exact Hfix.
    + rewrite Ea. intros k Hk. apply in_or_app. now left.
    + rewrite Ek. intros x Hx. apply filter_In in Hx. tauto.
    + exact Hcols.
    + now rewrite Ea, Et.
    + now rewrite Et.
    + now rewrite Et.
    + rewrite addc_ready_keepp, HF, <- addc_ready_keepp. exact Hready.
    + eapply Permutation_NoDup; [|apply (removed_cs_group (t_name b) b tn Hdup)].
      unfold removed_cs. apply Permutation_flat_map, Permutation_sym, HP.
    + intros k Hk. unfold removed_cs in Hk. apply in_flat_map in Hk. destruct Hk as [a [Ha Hk]].
      destruct a; try (now destruct Hk). destruct Hk as [<-|[]]. apply HL, rem_in_group in Ha. tauto.
    + intros x Hx Hkeep. apply HdL, tg_deleted_cols in Hx. rewrite Ek in Hkeep. apply filter_In in Hkeep.
      destruct Hkeep as [_ Hn]. apply Bool.negb_true_iff, mem_str_false in Hn. contradiction.
    + exact Hrd.
    + right. split; [exact Hnd|]. rewrite Ea, Et. split; [exact Hok|]. intros k Hk. apply in_or_app. now right.
Qed.

(* ---------- assembling (same three phases as AlterP.c06_change_sound) ---------- *)
Definition tcsff (ns : schema) (n : string) : list table_constraint :=
  match find_t n ns with Some tn => t_constraints tn | None => [] end.

Theorem c06_core_sound B T : baseline_ok B = true -> c06_core B T = true -> plan_stepwise_ok B T = true.
Proof.
  unfold c06_core. intros Hbase H.
  apply andb_prop in H. destruct H as [H Hcross]. apply andb_prop in H. destruct H as [H Hcommon].
  apply andb_prop in H. destruct H as [H Hdiff]. apply andb_prop in H. destruct H as [BC HL].
  apply baseline_ok_spec in Hbase. destruct Hbase as [HBN BF].
  destruct (loader_accepts_ok' T HL) as [ns [F [EN SV]]].
  unfold diff_ok in Hdiff. destruct (diff_actions B T) as [acts|] eqn:Hd; [|discriminate]. clear Hdiff.
  pose proof (ns_names T ns F) as Enames.
  pose proof (common_tables_spec _ B T ns HBN F Hcommon) as CT.
  unfold c06_cross, norm_models in Hcross. rewrite EN in Hcross. cbn zeta in Hcross.
  apply andb_prop in Hcross. destruct Hcross as [Hcross X34]. apply andb_prop in Hcross. destruct Hcross as [Hcross X2].
  apply andb_prop in Hcross. destruct Hcross as [X1 X8].
  rewrite forallb_forall in X1, X2, X34.
  assert (NSnd : NoDup (map t_name ns)) by exact (proj1 SV).
  (* X34 in usable form *)
  assert (FKB : forall u nm cols rt rcols od ou, In u ns -> In (CForeignKey nm cols rt rcols od ou) (t_constraints u) ->
            match find_t rt B with
            | Some rb => incl rcols (colnames rb)
            | None => ~ In (t_name u) (map t_name B)
            end).
  { intros u nm cols rt rcols od ou Hu Hk. specialize (X34 u Hu). rewrite forallb_forall in X34. specialize (X34 _ Hk).
    cbn beta iota in X34. destruct (find_t rt B) as [rb|].
    - intros rc Hrc. rewrite forallb_forall in X34. now apply mem_str_In, X34.
    - apply Bool.negb_true_iff in X34. intro Hin. apply has_table_iff in Hin. congruence. }
  (* no FK is added to a common table towards a new table *)
  assert (Hfk : forall n nm c rt rc od ou,
            In (AddConstraint n (CForeignKey nm c rt rc od ou)) (diff_updates (name_map B) (name_map ns)) ->
            In rt (map t_name B)).
  { intros n nm c rt rc od ou Hin. destruct (updates_in _ _ _ Hin) as [k [ft [tt [Hg [Hkv Ha]]]]].
    apply addc_in_group in Ha.
    pose proof (name_keyed_of_list ns k tt Hkv) as Ek. unfold name_map in Hkv.
    apply bt_of_list_in, in_map_iff in Hkv. destruct Hkv as [tt' [E Htt]]. injection E as _ E. subst tt'.
    apply bt_get_in in Hg. pose proof (name_keyed_of_list B k ft Hg) as Ekf.
    apply bt_of_list_in, in_map_iff in Hg. destruct Hg as [ft' [E Hft]]. injection E as _ E. subst ft'.
    pose proof (FKB tt _ _ _ _ _ _ Htt Ha) as Hm. destruct (find_t rt B) as [rb|] eqn:Er.
    - destruct (find_t_some _ _ _ Er) as [Hi E]. rewrite <- E. now apply in_map.
    - exfalso. apply Hm. rewrite <- Ek, Ekf. now apply in_map. }
  destruct (diff_shape3 B T ns acts BF HBN EN Hfk Hd) as [sorted [dn [ups [Et [Ea [Edn [Dnd [Diff [PU FU]]]]]]]]].
  set (fm := name_map B) in *. set (tm := name_map ns) in *. set (NT := diff_new fm tm) in *.
  assert (NTin : forall t, In t NT <-> In t ns /\ ~ In (t_name t) (map t_name B)).
  { intro t. unfold NT, diff_new. rewrite in_flat_map. split.
    - intros [[k v] [Hkv Hin]]. cbn [fst snd] in Hin. destruct (bt_mem k fm) eqn:Em; [destruct Hin|].
      destruct Hin as [<-|[]]. pose proof (name_keyed_of_list ns k v Hkv) as Ek. subst k.
      apply bt_of_list_in, in_map_iff in Hkv. destruct Hkv as [t' [E Ht']]. injection E as _ E. subst t'.
      split; [exact Ht'|]. apply bt_mem_false in Em. unfold fm, name_map in Em. now rewrite bt_keys_of_list, keys_name_map in Em.
    - intros [Ht Hn]. exists (t_name t, t). split.
      + apply bt_of_list_in_nodup; [rewrite keys_name_map; exact NSnd|]. apply in_map_iff. now exists t.
      + cbn [fst snd]. assert (Em : bt_mem (t_name t) fm = false).
        { apply bt_mem_false. unfold fm, name_map. now rewrite bt_keys_of_list, keys_name_map. }
        rewrite Em. now left. }
  assert (NTnd : NoDup (map t_name NT)).
  { apply new_tables_names; [apply name_keyed_of_list | apply bt_sorted_nodup, bt_of_list_sorted]. }
  destruct (topo_sort_sound _ _ NTnd Et) as [P Ord].
  assert (Sin : incl sorted ns) by (intros x Hx; apply (Permutation_in _ P), NTin in Hx; tauto).
  assert (Snd : NoDup (map t_name sorted)).
  { eapply Permutation_NoDup; [apply Permutation_sym, Permutation_map; exact P|exact NTnd]. }
  assert (Sfresh : forall t, In t sorted -> ~ In (t_name t) (map t_name B)).
  { intros t Ht. apply (Permutation_in _ P), NTin in Ht. tauto. }
  assert (Hcl : forall pre u post, sorted = pre ++ u :: post -> forall rt, In rt (fk_targets u) ->
            rt <> t_name u -> ~ In rt (map t_name B) -> In rt (map t_name pre)).
  { intros pre u post Es rt Hrt Hne HB.
    assert (Hu : In u sorted) by (rewrite Es; apply in_or_app; right; now left).
    destruct (fk_target_known ns SV u rt (Sin u Hu) Hrt) as [z [Hz Ez]].
    assert (Hrn : In rt (map t_name NT)).
    { rewrite <- Ez. apply in_map. apply NTin. split; [exact Hz|now rewrite Ez]. }
    destruct (Ord u rt Hu Hrt Hne Hrn) as [r [l1 [l2 [l3 [Er Es']]]]].
    assert (Epre : pre = l1 ++ r :: l2).
    { apply (nodup_split_unique u pre post (l1 ++ r :: l2) l3).
      - rewrite <- Es. eapply NoDup_map_inv. exact Snd.
      - rewrite <- Es, Es', <- app_assoc. reflexivity. }
    rewrite Epre, map_app. apply in_or_app. right. left. exact Er. }
  assert (HB1 : forall u nm cols rt rcols od ou b, In u sorted ->
            In (CForeignKey nm cols rt rcols od ou) (t_constraints u) -> In b B -> t_name b = rt ->
            forallb (fun rc => mem_str rc (colnames b)) rcols = true).
  { intros u nm cols rt rcols od ou b Hu Hk Hb Eb. pose proof (FKB u _ _ _ _ _ _ (Sin u Hu) Hk) as Hm.
    rewrite (find_t_in_nodup rt B b HBN Hb Eb) in Hm. apply forallb_forall. intros rc Hrc. now apply mem_str_In, Hm. }
  (* the plan *)
  unfold plan_stepwise_ok. rewrite Hd, stepwise_filled. cbn [p_actions]. rewrite Ea.
  set (s1 := B ++ map erase sorted).
  assert (C1 : consistent s1 = true).
  { apply (cons_ext2 B T ns BC F SV sorted Sin Snd Sfresh Hcl HB1 sorted []). now rewrite app_nil_r. }
  assert (Dn_not : forall x, In x dn -> ~ In x (map t_name ns)) by (intros x Hx; apply Diff in Hx; tauto).
  assert (Tgt_not_dropped : forall z rt, In z ns -> In rt (fk_targets z) -> ~ In rt dn).
  { intros z rt Hz Hrt Hrd. destruct (fk_target_known ns SV z rt Hz Hrt) as [z' [Hz' Ez']].
    apply (Dn_not rt Hrd). rewrite <- Ez'. now apply in_map. }
  (* the dropped tables have a rank *)
  set (Dr := filter (fun b => negb (survives T b)) B) in *.
  assert (DrIn : forall b, In b Dr <-> In b B /\ ~ In (t_name b) (map t_name ns)).
  { intro b. unfold Dr, survives. rewrite filter_In, Bool.negb_true_iff. rewrite Enames.
    split; intros [H1 H2]; (split; [exact H1|]).
    - intro Hi. apply has_table_iff in Hi. congruence.
    - destruct (has_table (t_name b) T) eqn:E; [|reflexivity]. apply has_table_iff in E. contradiction. }
  assert (Drnd : NoDup (map t_name Dr)) by (apply nodup_map_filter; exact HBN).
  destruct (topo_sort Dr) as [dres| |] eqn:Edr; try discriminate.
  destruct (topo_rank Dr dres Drnd Edr) as [rank Hrank].
  cut (stepwise_ok (B ++ map erase []) (flat_map (mk_create T) sorted ++ map DeleteTable dn ++ ups) = true);
    [cbn [map]; now rewrite app_nil_r|].
  apply (stepwise_phase1b B T ns BC F SV sorted Sin Snd Sfresh Hcl HB1 _) with (todo := sorted) (done := []);
    [|reflexivity].
  fold s1.
  assert (Incl_dn : incl dn (map t_name s1)).
  { intros x Hx. unfold s1. rewrite map_app. apply in_or_app. left. apply Diff in Hx. tauto. }
  eapply stepwise_app; [| apply (apply_all_deletes dn s1 Dnd Incl_dn) |].
  - (* phase 2 *)
    apply stepwise_deletes; auto.
    intros u n rt Hu Hn Hrt Hne Hrd. unfold s1 in Hu. apply in_app_or in Hu. destruct Hu as [Hu|Hu].
    + rewrite (BF u Hu) in Hn. injection Hn as <-.
      destruct (in_dec string_dec (t_name u) dn) as [Hud|Hud].
      * rewrite <- Edn. apply (diff_deletes_in_fk_order B T B acts rank HBN (C01P.normalize_all_fix B BF) Hd); auto;
          unfold deleted_tables; rewrite Edn; auto.
        intros t r Ht Htd Hr Hner Hrd'. apply Diff in Htd. apply Diff in Hrd'.
        apply Hrank; auto; [apply DrIn; tauto|].
        destruct Hrd' as [HrB HrN]. apply in_map_iff in HrB. destruct HrB as [rb [Erb Hrb]].
        rewrite <- Erb. apply in_map. apply DrIn. split; [exact Hrb|now rewrite Erb].
      * exfalso. specialize (X1 u Hu). apply Bool.orb_true_iff in X1. destruct X1 as [X1|X1].
        -- apply Bool.negb_true_iff in X1. apply Hud. apply Diff. split; [now apply in_map|].
           rewrite Enames. intro Hi. apply has_table_iff in Hi. unfold survives in X1. congruence.
        -- rewrite forallb_forall in X1. specialize (X1 rt Hrt). apply has_table_iff in X1.
           apply (Dn_not rt Hrd). now rewrite Enames.
    + exfalso. apply in_map_iff in Hu. destruct Hu as [t [<- Ht]].
      rewrite (normalize_erase_fix t (ns_idem T ns F t (Sin t Ht))) in Hn. injection Hn as <-.
      exact (Tgt_not_dropped t rt (Sin t Ht) Hrt Hrd).
  - (* phase 3 *)
    set (s2 := filter (fun t => negb (mem_str (t_name t) dn)) s1).
    apply (stepwise_phase3c (keepf B ns) (allowedf B ns) (tcsff ns) (map t_name ns)).
    + (* static facts about foreign keys *)
      assert (InTn : forall tn nm cols rt rcols od ou, In tn ns ->
                In (CForeignKey nm cols rt rcols od ou) (t_constraints tn) ->
                In rt (map t_name ns) /\ incl rcols (keepf B ns rt) /\
                List.length cols = List.length rcols /\ nonempty cols = true).
      { intros tn nm cols rt rcols od ou Htn Hk.
        destruct (proj2 SV tn _ Htn Hk) as [_ [e [He [Hrc [Hl Hne]]]]].
        apply find_some in He. destruct He as [He Ee]. apply String.eqb_eq in Ee.
        apply in_map_iff in He. destruct He as [z [<- Hz]]. cbn [fst snd] in *.
        split; [rewrite <- Ee; now apply in_map|]. split; [|auto].
        unfold keepf. rewrite (find_t_in_nodup rt ns z NSnd Hz Ee).
        pose proof (FKB tn _ _ _ _ _ _ Htn Hk) as Hm. rewrite forallb_forall in Hrc.
        destruct (find_t rt B) as [rb|].
        - intros rc Hin. apply filter_In. split; [now apply Hm|]. apply Bool.negb_true_iff, mem_str_false.
          unfold deleted_cols. intro Hdc. apply filter_In in Hdc. destruct Hdc as [_ Hdc].
          apply Bool.negb_true_iff in Hdc. rewrite (Hrc rc Hin) in Hdc. discriminate.
        - intros rc Hin. now apply mem_str_In, Hrc. }
      intros m nm cols rt rcols od ou Hm Hk.
      destruct (find_name_some m ns Hm) as [tn [Hf [Htn En]]]. change (find_t m ns = Some tn) in Hf.
      unfold allowedf in Hk. rewrite Hf in Hk. destruct (find_t m B) as [b|] eqn:EB; [|eapply InTn; eauto].
      apply in_app_or in Hk. destruct Hk as [Hk|Hk]; [|eapply InTn; eauto].
      destruct (find_t_some _ _ _ EB) as [Hb Eb].
      destruct (consistent_table B b BC Hb (BF b Hb) _ Hk) as [_ [rb [Hrb [Hinc [Hl Hne]]]]].
      assert (Hsurv : survives T b = true).
      { unfold survives. apply has_table_iff. rewrite <- Enames, Eb. exact Hm. }
      pose proof (X1 b Hb) as X1b. rewrite Hsurv in X1b. cbn [negb orb] in X1b. rewrite forallb_forall in X1b.
      assert (HrN : In rt (map t_name ns)).
      { rewrite Enames. apply has_table_iff, X1b. eapply fk_targets_in; eauto. }
      split; [exact HrN|]. split; [|auto].
      destruct (find_name_some rt ns HrN) as [z [Hfz [Hz Ez]]]. change (find_t rt ns = Some z) in Hfz.
      unfold keepf. rewrite Hrb, Hfz. intros rc Hin. apply filter_In. split; [now apply Hinc|].
      apply Bool.negb_true_iff. destruct (mem_str rc (deleted_cols rb z)) eqn:Ed; [|reflexivity]. exfalso.
      apply mem_str_In in Ed. pose proof (X2 z Hz) as X2z. rewrite Ez, Hrb in X2z.
      rewrite forallb_forall in X2z. specialize (X2z rc Ed). rewrite forallb_forall in X2z.
      assert (Hbs : In b (filter (survives T) B ++ ns)) by (apply in_or_app; left; apply filter_In; auto).
      specialize (X2z b Hbs). rewrite forallb_forall in X2z. specialize (X2z _ Hk). cbn beta iota in X2z.
      destruct (find_t_some _ _ _ Hrb) as [_ Erb]. rewrite Erb, String.eqb_refl in X2z.
      apply mem_str_In in Hin. rewrite Hin in X2z. discriminate.
    + (* the invariant holds after the drops *)
      assert (S1nd : NoDup (map t_name s1)).
      { unfold consistent in C1. apply Bool.andb_true_iff in C1. now apply nodup_str_spec. }
      assert (F2 : forall n, find_t n s2 = if mem_str n dn then None else
                   match find_t n B with Some b => Some b | None => option_map erase (find_t n sorted) end).
      { intro n. unfold s2, s1. now rewrite find_t_filter_mem, find_t_app, find_t_map_erase. }
      assert (SortedFind : forall n, In n (map t_name ns) -> ~ In n (map t_name B) -> exists t0, find_t n sorted = Some t0).
      { intros n Hn HnB. apply in_names_find. apply in_map_iff in Hn. destruct Hn as [tn [E Htn]].
        rewrite <- E. apply in_map. apply (Permutation_in _ (Permutation_sym P)), NTin. split; [exact Htn|now rewrite E]. }
      assert (CommonIn : forall n b, find_t n B = Some b -> mem_str n dn = false -> In n (map t_name ns)).
      { intros n b Hf Hm. destruct (in_dec string_dec n (map t_name ns)) as [Hi|Hi]; [exact Hi|]. exfalso.
        apply mem_str_false in Hm. apply Hm, Diff. split; [|exact Hi].
        destruct (find_t_some _ _ _ Hf) as [Hb E]. rewrite <- E. now apply in_map. }
      split; [apply nodup_map_filter; exact S1nd|]. split; [|split].
      * intro n. rewrite (in_names_find n s2), F2. split.
        -- intro Hn. assert (Hm : mem_str n dn = false) by (apply mem_str_false; intro Hdd; exact (Dn_not n Hdd Hn)).
           rewrite Hm. destruct (find_t n B) as [b|] eqn:EB; [eauto|].
           apply find_t_none in EB. destruct (SortedFind n Hn EB) as [t0 ->]. cbn [option_map]. eauto.
        -- intros [t Ht]. destruct (mem_str n dn) eqn:Hm; [discriminate|].
           destruct (find_t n B) as [b|] eqn:EB; [eapply CommonIn; eauto|].
           destruct (find_t n sorted) as [t0|] eqn:Es; [|discriminate].
           destruct (find_t_some _ _ _ Es) as [Hs E]. rewrite <- E. apply in_map. now apply Sin.
      * intros n t Ht. rewrite F2 in Ht. destruct (mem_str n dn) eqn:Hm; [discriminate|].
        assert (PL : Permutation (filter (on_table n) ups)
                       (match find_t n ns with
                        | Some t2 => match find_t n B with Some ft => table_group n ft t2 | None => [] end
                        | None => [] end)).
        { eapply Permutation_trans; [apply filter_perm; exact PU|].
          unfold tm, fm. rewrite filter_updates by apply bt_sorted_nodup, bt_of_list_sorted.
          rewrite (name_map_get ns n NSnd), (name_map_get B n HBN). apply Permutation_refl. }
        assert (FL : filter keepp (filter (on_table n) ups) =
                     filter keepp (match find_t n ns with
                        | Some t2 => match find_t n B with Some ft => table_group n ft t2 | None => [] end
                        | None => [] end)).
        { rewrite filter_comm, FU, <- filter_comm. f_equal.
          unfold tm, fm. rewrite filter_updates by apply bt_sorted_nodup, bt_of_list_sorted.
          now rewrite (name_map_get ns n NSnd), (name_map_get B n HBN). }
        destruct (find_t n B) as [b|] eqn:EB.
        -- injection Ht as <-. destruct (find_t_some _ _ _ EB) as [Hb Eb].
           destruct (find_name_some n ns (CommonIn n b EB Hm)) as [tn [Hf [Htn En]]]. change (find_t n ns = Some tn) in Hf.
           rewrite Hf in PL, FL. rewrite <- Eb in *.
           apply (common_tinvc (keepf B ns) (allowedf B ns) (tcsff ns) b tn);
             [exact (BF b Hb) | | apply CT; auto; congruence | exact PL | exact FL | | |].
           ++ intros k Hk. exact (proj1 (consistent_table B b BC Hb (BF b Hb) k Hk)).
           ++ unfold keepf. now rewrite EB, Hf.
           ++ unfold allowedf. now rewrite EB, Hf.
           ++ unfold tcsff. now rewrite Hf.
        -- destruct (find_t n sorted) as [t0|] eqn:Es; [|discriminate]. injection Ht as <-.
           destruct (find_t_some _ _ _ Es) as [Hs E]. pose proof (Sin t0 Hs) as Hns.
           rewrite (find_t_in_nodup n ns t0 NSnd Hns E) in PL. apply Permutation_sym, Permutation_nil in PL. rewrite PL.
           assert (Ek : keepf B ns n = colnames t0) by (unfold keepf; now rewrite EB, (find_t_in_nodup n ns t0 NSnd Hns E)).
           assert (Eal : allowedf B ns n = t_constraints t0) by (unfold allowedf; now rewrite EB, (find_t_in_nodup n ns t0 NSnd Hns E)).
           constructor.
           ++ exact E.
           ++ apply normalize_erase_fix, (ns_idem T ns F t0 Hns).
           ++ rewrite Eal. intros k Hk. exact Hk.
           ++ rewrite Ek. intros x Hx. exact Hx.
           ++ intros k Hk c Hc. cbn [erase t_constraints] in Hk. destruct (proj2 SV t0 k Hns Hk) as [Hcols _].
              rewrite forallb_forall in Hcols. now apply mem_str_In, Hcols.
           ++ apply valid4_nil.
           ++ unfold tcsff. rewrite (find_t_in_nodup n ns t0 NSnd Hns E). intros k Hk. now left.
           ++ unfold tcsff. rewrite (find_t_in_nodup n ns t0 NSnd Hns E). intros k Hk. now left.
           ++ reflexivity.
           ++ constructor.
           ++ intros k [].
           ++ intros x [].
           ++ intros k x [].
           ++ now left.
      * intros a Ha. apply (Permutation_in _ PU) in Ha. destruct (updates_in _ _ _ Ha) as [k [ft [tt [_ [Hkv Hg]]]]].
        exists k. split; [eapply table_group_on; eauto|].
        apply in_keys in Hkv. unfold tm, name_map in Hkv. now rewrite bt_keys_of_list, keys_name_map in Hkv.
Qed.


Theorem hyp_C06_core_sound c : hyp_C06_core c = true -> model_stepwise_ok c = true.
Proof.
  unfold hyp_C06_core, model_stepwise_ok. intro H. apply andb_prop in H. destruct H as [H1 H2].
  now apply c06_core_sound.
Qed.

(* ---------- a witness outside c06_change: inline declarations added, dropped and cleared ---------- *)
Lemma w_c06_core_hyp :
  baseline_ok C01HistP.w_core_B = true /\ c06_core C01HistP.w_core_B C01HistP.w_core_T = true /\
  c06_change C01HistP.w_core_B C01HistP.w_core_T = false /\
  (exists acts, diff_actions C01HistP.w_core_B C01HistP.w_core_T = Ok acts /\ List.length acts = 11) /\
  plan_stepwise_ok C01HistP.w_core_B C01HistP.w_core_T = true.
Proof.
  split; [vm_compute; reflexivity|]. split; [vm_compute; reflexivity|]. split; [vm_compute; reflexivity|].
  split; [eexists; split; vm_compute; reflexivity|vm_compute; reflexivity].
Qed.
