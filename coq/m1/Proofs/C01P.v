(* C01 — a revision closes the gap: the positive theorems.

   c01_step_sound: for EVERY baseline B and model set T (no size bound) with c01_step B T = true
   (Corr/Hyp.v: B has distinct table names and is a normalisation fix-point, T has distinct table names,
   planning succeeds, and every table present on both sides is either unchanged for the planner or
   differs only in type / nullability / default / comment of existing columns), the plan applies to B
   without error, the result is again such a baseline, and re-planning in either direction is empty.
   Tables may be created and dropped freely.  c01_first / c01_tables_only / c01_column_attrs are
   special cases.  c01_histories lifts this along histories grown by the tool. *)
From VV.M1 Require Import Oracles Hyp NormalizeP BtP SortP DiffP DiffEqP KahnP ApplyLocalP DiffPermP AttrsP.
From Coq Require Import Lia Permutation.

(* ---------- booleans of Hyp.v as propositions ---------- *)
Lemma nodup_str_NoDup l : nodup_str l = true <-> NoDup l.
Proof.
  induction l as [|x l IH]; cbn [nodup_str]; [split; [constructor|reflexivity]|].
  rewrite andb_true_iff, negb_true_iff, mem_str_false, IH. split.
  - intros [H1 H2]. now constructor.
  - intro H. inversion H; subst. auto.
Qed.

Lemma is_fixpoint_spec t : is_fixpoint t = true <-> normalize t = Ok t.
Proof.
  unfold is_fixpoint. split.
  - destruct (normalize t) as [n|e]; [|discriminate]. intro H. apply dec_b_true in H. now subst.
  - intros ->. apply dec_b_refl.
Qed.

Lemma baseline_ok_spec B :
  baseline_ok B = true <-> NoDup (map t_name B) /\ forall t, In t B -> normalize t = Ok t.
Proof.
  unfold baseline_ok. rewrite andb_true_iff, nodup_str_NoDup, forallb_forall.
  split; intros [H1 H2]; (split; [exact H1|]); intros t Ht; apply is_fixpoint_spec; auto.
Qed.

Lemma normalize_all_fix : forall S, (forall t, In t S -> normalize t = Ok t) -> normalize_all S = Ok S.
Proof.
  unfold normalize_all. induction S as [|t S IH]; intro H; cbn [map_result]; [reflexivity|].
  rewrite (H t (or_introl eq_refl)), IH; [reflexivity|]. intros u Hu. apply H. now right.
Qed.

(* ---------- lookups: with distinct names, last-registered = first-found ---------- *)
Lemma table_named_find k S : NoDup (map t_name S) -> DiffEqP.table_named k S = find_t k S.
Proof.
  intro Hnd. unfold DiffEqP.table_named.
  change (bt_get k (keyed t_name S) = find_t k S).
  destruct (find_t k S) as [t|] eqn:E.
  - apply (keyed_get t_name S k t Hnd). now apply find_t_some.
  - destruct (bt_get k (keyed t_name S)) as [t|] eqn:G; [|reflexivity]. exfalso.
    apply (keyed_get t_name S k t Hnd) in G. destruct G as [Hin Hk].
    apply find_t_none in E. apply E. rewrite <- Hk. now apply in_map.
Qed.
Lemma name_map_get S n : NoDup (map t_name S) -> bt_get n (name_map S) = find_t n S.
Proof. intro Hnd. unfold name_map. rewrite bt_get_of_list. now apply table_named_find. Qed.

Lemma find_t_normalize_all n : forall S Sn, normalize_all S = Ok Sn ->
  find_t n Sn = match find_t n S with
                | Some t => match normalize t with Ok x => Some x | Err _ => None end
                | None => None
                end.
Proof.
  unfold normalize_all, find_t. induction S as [|t S IH]; intros Sn H; cbn [map_result] in H.
  - inversion H. reflexivity.
  - destruct (normalize t) as [x|e] eqn:En; [|discriminate].
    destruct (map_result _ S) as [xs|e] eqn:Es; [|discriminate]. inversion H; subst Sn; clear H.
    cbn [find]. rewrite (normalize_name _ _ En).
    destruct (String.eqb (t_name t) n); [now rewrite En|]. now apply IH.
Qed.

Lemma normalize_strip t tn : normalize t = Ok tn ->
  normalize (mkTable (t_name t) None (t_columns t) (t_constraints t))
  = Ok (mkTable (t_name t) None (t_columns tn) (t_constraints tn)).
Proof.
  unfold normalize. cbn [t_name t_description t_columns t_constraints].
  destruct (normalize_constraints _ _) as [cs|e]; [|discriminate]. intro H. inversion H. reflexivity.
Qed.

(* ---------- the table finally registered under one name ---------- *)
Definition good (n : string) (o target : option table_def) : Prop :=
  match target with
  | None => o = None
  | Some tn => exists t', o = Some t' /\ t_name t' = n /\ normalize t' = Ok t' /\ table_equiv t' tn
  end.

(* a per-table condition p is sound when the group diff computes for a surviving table that satisfies
   it, applied in any order, ends in a fix-point equivalent to the target *)
Definition group_sound (p : table_def -> table_def -> bool) : Prop :=
  forall b tn L,
    normalize b = Ok b -> p b tn = true -> Permutation L (table_group (t_name b) b tn) ->
    exists b', proj_all (Some b) L = Ok (Some b') /\ t_name b' = t_name b
               /\ normalize b' = Ok b' /\ table_equiv b' tn.

Section PerTable.
  Variable p : table_def -> table_def -> bool.
  Hypothesis p_sound : group_sound p.
  Variables (B T Tn : schema) (acts : list action) (sorted : list table_def).
  Hypothesis HndB : NoDup (map t_name B).
  Hypothesis HfixB : forall t, In t B -> normalize t = Ok t.
  Hypothesis HndT : NoDup (map t_name T).
  Hypothesis HTn : normalize_all T = Ok Tn.
  Hypothesis Hcommon : common_tables p B T = true.
  Hypothesis Htopo : topo_sort (diff_new (name_map B) (name_map Tn)) = TopoOk sorted.
  Hypothesis Hperm : Permutation acts
    (diff_deletes (name_map B) (name_map Tn) ++ diff_updates (name_map B) (name_map Tn)
     ++ flat_map (create_of (name_map T)) sorted).

  Let HndTn : NoDup (map t_name Tn).
  Proof. now rewrite (normalize_all_names T Tn HTn). Qed.

  Lemma new_nodup : NoDup (map t_name (diff_new (name_map B) (name_map Tn))).
  Proof.
    unfold diff_new. apply (new_tables_names (fun kv => bt_mem (fst kv) (name_map B))).
    - apply name_keyed_of_list.
    - apply bt_sorted_nodup, bt_of_list_sorted.
  Qed.
  Lemma sorted_perm : Permutation sorted (diff_new (name_map B) (name_map Tn)).
  Proof. exact (proj1 (topo_sort_sound _ _ new_nodup Htopo)). Qed.
  Lemma sorted_nodup : NoDup (map t_name sorted).
  Proof.
    eapply Permutation_NoDup; [apply Permutation_map, Permutation_sym, sorted_perm|apply new_nodup].
  Qed.

  Lemma in_new t : In t (diff_new (name_map B) (name_map Tn)) <->
    find_t (t_name t) Tn = Some t /\ find_t (t_name t) B = None.
  Proof.
    unfold diff_new. rewrite in_flat_map. split.
    - intros [[k v] [Hin H]]. cbn [fst snd] in H.
      destruct (bt_mem k (name_map B)) eqn:Em; [destruct H|]. destruct H as [<-|[]].
      pose proof (name_keyed_of_list Tn k v Hin) as Hk. subst k.
      split.
      + rewrite <- (name_map_get Tn _ HndTn). apply bt_sorted_get; [apply bt_of_list_sorted|exact Hin].
      + unfold bt_mem in Em. rewrite (name_map_get B _ HndB) in Em.
        destruct (find_t (t_name v) B); [discriminate|reflexivity].
    - intros [H1 H2]. exists (t_name t, t). split.
      + apply bt_get_in. now rewrite (name_map_get Tn _ HndTn).
      + cbn [fst snd]. unfold bt_mem. rewrite (name_map_get B _ HndB), H2. now left.
  Qed.

  Lemma sorted_find n :
    find_t n sorted = match find_t n Tn with
                      | Some tn => match find_t n B with None => Some tn | Some _ => None end
                      | None => None
                      end.
  Proof.
    destruct (find_t n sorted) as [t|] eqn:E.
    - destruct (find_t_some _ _ _ E) as [Hin Hn].
      apply (Permutation_in _ sorted_perm), in_new in Hin. rewrite Hn in Hin. destruct Hin as [-> ->].
      reflexivity.
    - destruct (find_t n Tn) as [tn|] eqn:Et; [|reflexivity].
      destruct (find_t n B) as [b|] eqn:Eb; [reflexivity|]. exfalso.
      destruct (find_t_some _ _ _ Et) as [_ Hn].
      assert (Hin : In tn sorted).
      { apply (Permutation_in _ (Permutation_sym sorted_perm)), in_new. rewrite Hn. auto. }
      apply find_t_none in E. apply E. rewrite <- Hn. now apply in_map.
  Qed.

  Lemma per_table n :
    exists o, proj_all (find_t n B) (filter (on_table n) acts) = Ok o /\ good n o (find_t n Tn).
  Proof.
    pose proof (filter_perm (on_table n) _ _ Hperm) as P.
    rewrite !filter_app in P.
    rewrite filter_deletes in P by apply bt_sorted_nodup, bt_of_list_sorted.
    rewrite filter_updates in P by apply bt_sorted_nodup, bt_of_list_sorted.
    rewrite filter_creates in P; [|exact sorted_nodup|].
    2:{ intros k v Hg. symmetry. apply (name_keyed_of_list T k v). now apply bt_get_in. }
    unfold bt_mem in P. rewrite (name_map_get B n HndB), (name_map_get Tn n HndTn), sorted_find in P.
    pose proof (find_t_normalize_all n T Tn HTn) as Hn.
    destruct (find_t n T) as [t|] eqn:ET.
    - (* the models have a table n *)
      destruct (find_t_some _ _ _ ET) as [HtT Htn].
      destruct (proj1 (normalize_all_in T Tn HTn) t HtT) as [tn [_ Ent]].
      rewrite Ent in Hn. rewrite Hn in P |- *.
      destruct (find_t n B) as [b|] eqn:EB.
      + (* surviving table: its group, in some order *)
        cbn [app] in P. rewrite app_nil_r in P.
        destruct (find_t_some _ _ _ EB) as [HbB Hbn].
        assert (Ha : p b tn = true).
        { unfold common_tables in Hcommon. rewrite forallb_forall in Hcommon.
          specialize (Hcommon t HtT). now rewrite Htn, EB, Ent in Hcommon. }
        rewrite <- Hbn in P.
        destruct (p_sound b tn _ (HfixB b HbB) Ha P) as [b' [H1 [H2 [H3 H4]]]].
        rewrite Hbn in H1. exists (Some b'). split; [exact H1|]. exists b'.
        split; [reflexivity|split; [congruence|split; assumption]].
      + (* created table *)
        cbn [app] in P. unfold create_of in P.
        pose proof (normalize_name _ _ Ent) as Hnn.
        rewrite Hnn, Htn, (name_map_get T n HndT), ET in P.
        apply Permutation_sym, Permutation_length_1_inv in P. rewrite P.
        cbn [proj_all apply_table]. rewrite (normalize_strip t tn Ent).
        eexists. split; [reflexivity|]. eexists. split; [reflexivity|].
        split; [exact Htn|]. split.
        * apply (normalize_idempotent (mkTable (t_name t) None (t_columns t) (t_constraints t))).
          apply (normalize_strip t tn Ent).
        * now apply table_equiv_same.
    - (* no such table in the models *)
      rewrite Hn in P |- *. cbn [good].
      destruct (find_t n B) as [b|] eqn:EB.
      + cbn [app] in P. apply Permutation_sym, Permutation_length_1_inv in P. rewrite P.
        exists None. split; reflexivity.
      + cbn [app] in P. apply Permutation_sym, Permutation_nil in P. rewrite P.
        exists None. split; reflexivity.
  Qed.
End PerTable.

(* ---------- the step theorem, for any sound per-table condition ---------- *)
Theorem gen_step_sound p : group_sound p -> forall B T,
  baseline_ok B = true -> c01_models p B T = true ->
  exists acts B',
    diff_actions B T = Ok acts /\ apply_all B acts = Ok B' /\ baseline_ok B' = true
    /\ diff_actions B' T = Ok [] /\ diff_actions T B' = Ok [].
Proof.
  intros Hp B T HB Hm. unfold c01_models in Hm. rewrite !andb_true_iff in Hm. destruct Hm as [[HT Hd] Hc].
  apply baseline_ok_spec in HB. destruct HB as [HndB HfixB]. apply nodup_str_NoDup in HT.
  unfold diff_ok in Hd. destruct (diff_actions B T) as [acts|e] eqn:Ed; [|discriminate]. clear Hd.
  exists acts.
  pose proof Ed as Ec. rewrite diff_actions_core, (normalize_all_fix B HfixB) in Ec.
  destruct (normalize_all T) as [Tn|e] eqn:ETn; [|discriminate].
  destruct (diff_core_perm _ _ _ _ Ec) as [sorted [Htopo Hperm]].
  pose proof (per_table p Hp B T Tn acts sorted HndB HfixB HT ETn Hc Htopo Hperm) as Hpt.
  set (r := fun n => match proj_all (find_t n B) (filter (on_table n) acts) with Ok o => o | Err _ => None end).
  destruct (apply_all_proj acts B r HndB) as [B' [Happ [Hfind HndB']]].
  { intros a Ha. eapply diff_blocks_single. eapply Permutation_in; [exact Hperm|exact Ha]. }
  { intro n. destruct (Hpt n) as [o [Ho _]]. unfold r. now rewrite Ho. }
  assert (Hgood : forall n, good n (find_t n B') (find_t n Tn)).
  { intro n. destruct (Hpt n) as [o [Ho Hg]]. rewrite Hfind. unfold r. now rewrite Ho. }
  assert (HfixB' : forall t, In t B' -> normalize t = Ok t).
  { intros t Ht. pose proof (Hgood (t_name t)) as Hg.
    rewrite (find_t_in_nodup _ _ t HndB' Ht eq_refl) in Hg. unfold good in Hg.
    destruct (find_t (t_name t) Tn); [|discriminate].
    destruct Hg as [t' [E [_ [Hn _]]]]. inversion E; subst. exact Hn. }
  assert (Heq : schema_equiv B' T).
  { exists B', Tn. split; [now apply normalize_all_fix|split; [exact ETn|]].
    intro k. rewrite (table_named_find k B' HndB').
    rewrite (table_named_find k Tn) by now rewrite (normalize_all_names T Tn ETn).
    specialize (Hgood k). unfold good in Hgood. destruct (find_t k Tn) as [tn|].
    - destruct Hgood as [t' [-> [_ [_ He]]]]. exact He.
    - rewrite Hgood. exact I. }
  exists B'. split; [reflexivity|split; [exact Happ|split; [|split]]].
  - apply baseline_ok_spec. auto.
  - now apply diff_equiv_empty.
  - now apply diff_equiv_empty, schema_equiv_sym.
Qed.

Lemma attrs_only_sound : group_sound attrs_only.
Proof. exact attrs_fold. Qed.

Lemma c01_step_split B T : c01_step B T = (baseline_ok B && c01_models attrs_only B T)%bool.
Proof. unfold c01_step, c01_models. now rewrite !andb_assoc. Qed.

Theorem c01_step_sound B T : c01_step B T = true ->
  exists acts B',
    diff_actions B T = Ok acts /\ apply_all B acts = Ok B' /\ baseline_ok B' = true
    /\ diff_actions B' T = Ok [] /\ diff_actions T B' = Ok [].
Proof.
  rewrite c01_step_split, andb_true_iff. intros [HB Hm].
  exact (gen_step_sound attrs_only attrs_only_sound B T HB Hm).
Qed.

Lemma closes_gap_unfold B T acts B' :
  diff_actions B T = Ok acts -> apply_all B acts = Ok B' ->
  diff_actions B' T = Ok [] -> diff_actions T B' = Ok [] -> closes_gap B T = true.
Proof.
  intros H1 H2 H3 H4. unfold closes_gap. rewrite H1, apply_all_filled. cbn [p_actions].
  rewrite H2. unfold diff_empty. now rewrite H3, H4.
Qed.

Theorem C01_step B T : c01_step B T = true -> closes_gap B T = true.
Proof.
  intro H. destruct (c01_step_sound B T H) as (acts & B' & H1 & H2 & _ & H3 & H4).
  eapply closes_gap_unfold; eassumption.
Qed.

(* ---------- the special cases of the ladder ---------- *)
Lemma c01_first_step B T : c01_first B T = true -> c01_step B T = true.
Proof.
  unfold c01_first, c01_step. destruct B; [|discriminate]. rewrite andb_true_iff. intros [H1 H2].
  rewrite H1, H2. cbn [baseline_ok map nodup_str forallb andb].
  unfold common_tables. apply forallb_forall. intros t _. reflexivity.
Qed.
Lemma unchanged_attrs b tn : unchanged b tn = true -> attrs_only b tn = true.
Proof. unfold unchanged, attrs_only. destruct (table_group _ b tn); [reflexivity|discriminate]. Qed.
Lemma c01_tables_only_step B T : c01_tables_only B T = true -> c01_step B T = true.
Proof.
  unfold c01_tables_only, c01_step. rewrite !andb_true_iff. intros [[[H1 H2] H3] H4].
  repeat split; try assumption. unfold common_tables in *. rewrite forallb_forall in *.
  intros t Ht. specialize (H4 t Ht). destruct (find_t _ B); [|reflexivity].
  destruct (normalize t); [now apply unchanged_attrs|discriminate].
Qed.
Lemma c01_column_attrs_step B T : c01_column_attrs B T = true -> c01_step B T = true.
Proof. unfold c01_column_attrs. rewrite andb_true_iff. tauto. Qed.

