(* Proofs about TableDef::normalize: every pass only appends, what it would push is afterwards
   present, hence a second normalisation changes nothing (C07). *)
From VV.M1 Require Import Normalize.
From Coq Require Import Lia.

Definition extends (a b : list table_constraint) : Prop := exists ex, b = a ++ ex.

Lemma extends_refl a : extends a a.
Proof. exists []. now rewrite app_nil_r. Qed.
Lemma extends_trans a b c : extends a b -> extends b c -> extends a c.
Proof. intros [x ->] [y ->]. exists (x ++ y). now rewrite app_assoc. Qed.
Lemma extends_existsb p a b : extends a b -> existsb p a = true -> existsb p b = true.
Proof. intros [ex ->] H. rewrite existsb_app, H. reflexivity. Qed.

(* ---------- the generic push fold ---------- *)
Section Push.
  Context {B : Type} (hit : B -> table_constraint -> bool) (mk : B -> table_constraint).
  Hypothesis hit_mk : forall b, hit b (mk b) = true.

  Lemma push_extends acc b : extends acc (push_if_absent hit mk acc b).
  Proof.
    unfold push_if_absent. destruct (existsb (hit b) acc); [apply extends_refl | now exists [mk b]].
  Qed.
  Lemma push_fold_extends bs : forall acc, extends acc (fold_left (push_if_absent hit mk) bs acc).
  Proof.
    induction bs as [|b bs IH]; intro acc; cbn [fold_left]; [apply extends_refl|].
    eapply extends_trans; [apply push_extends | apply IH].
  Qed.
  Lemma push_covers acc b : existsb (hit b) (push_if_absent hit mk acc b) = true.
  Proof.
    unfold push_if_absent. destruct (existsb (hit b) acc) eqn:E; [exact E|].
    rewrite existsb_app. cbn. rewrite hit_mk. now rewrite orb_true_r.
  Qed.
  Lemma push_fold_covers bs : forall acc b, In b bs ->
    existsb (hit b) (fold_left (push_if_absent hit mk) bs acc) = true.
  Proof.
    induction bs as [|x bs IH]; intros acc b Hin; [destruct Hin|].
    cbn [fold_left]. destruct Hin as [->|Hin].
    - eapply extends_existsb; [apply push_fold_extends | apply push_covers].
    - now apply IH.
  Qed.
  Lemma push_fold_fix bs : forall acc,
    (forall b, In b bs -> existsb (hit b) acc = true) ->
    fold_left (push_if_absent hit mk) bs acc = acc.
  Proof.
    induction bs as [|x bs IH]; intros acc H; [reflexivity|].
    cbn [fold_left]. unfold push_if_absent at 2. rewrite (H x (or_introl eq_refl)).
    apply IH. intros b Hb. apply H. now right.
  Qed.
End Push.

Lemma dec_b_refl {A} (d : forall x y : A, {x = y} + {x <> y}) x : dec_b d x x = true.
Proof. unfold dec_b. destruct (d x x); congruence. Qed.

Lemma unique_hit_mk g : unique_hit g (unique_mk g) = true.
Proof.
  unfold unique_hit, unique_mk, name_match. destruct (group_name (fst g)).
  - apply String.eqb_refl.
  - apply dec_b_refl.
Qed.
Lemma index_hit_mk g : index_hit g (index_mk g) = true.
Proof.
  unfold index_hit, index_mk, name_match. destruct (group_name (fst g)).
  - apply String.eqb_refl.
  - apply dec_b_refl.
Qed.

(* ---------- pass 1 ---------- *)
Lemma pass_pk_extends cols cs : extends cs (pass_pk cols cs).
Proof.
  unfold pass_pk. destruct (pk_cols_of cols); [apply extends_refl|].
  destruct (existsb is_pk cs); [apply extends_refl | eexists; reflexivity].
Qed.
Lemma pass_pk_has cols cs : pk_cols_of cols <> [] -> existsb is_pk (pass_pk cols cs) = true.
Proof.
  unfold pass_pk. destruct (pk_cols_of cols) eqn:E; [congruence|]. intros _.
  destruct (existsb is_pk cs) eqn:H; [exact H|].
  rewrite existsb_app. cbn. now rewrite orb_true_r.
Qed.
Lemma pass_pk_fix cols cs : (pk_cols_of cols <> [] -> existsb is_pk cs = true) -> pass_pk cols cs = cs.
Proof.
  unfold pass_pk. destruct (pk_cols_of cols) eqn:E; [reflexivity|]. intros H. rewrite H; congruence.
Qed.

(* ---------- pass 3 ---------- *)
Lemma pass_fk_extends cols : forall cs cs', pass_fk cols cs = Ok cs' -> extends cs cs'.
Proof.
  induction cols as [|c r IH]; intros cs cs' H; cbn [pass_fk] in H.
  - inversion H. apply extends_refl.
  - destruct (c_foreign_key c) as [f|]; [|now apply IH].
    destruct (fk_of_syntax (c_name c) f) as [[[[t rc] od] ou]|e]; [|discriminate].
    destruct (existsb (fk_hit (c_name c)) cs); [now apply IH|].
    eapply extends_trans; [|apply IH; exact H]. eexists; reflexivity.
Qed.
(* every column with an inline FK whose syntax parses is covered afterwards *)
Lemma pass_fk_covers cols : forall cs cs', pass_fk cols cs = Ok cs' ->
  forall c f, In c cols -> c_foreign_key c = Some f -> existsb (fk_hit (c_name c)) cs' = true.
Proof.
  induction cols as [|x r IH]; intros cs cs' H c f Hin Hf; [destruct Hin|].
  cbn [pass_fk] in H. destruct Hin as [->|Hin].
  - rewrite Hf in H.
    destruct (fk_of_syntax (c_name c) f) as [[[[t rc] od] ou]|e]; [|discriminate].
    destruct (existsb (fk_hit (c_name c)) cs) eqn:E.
    + eapply extends_existsb; [eapply pass_fk_extends; exact H | exact E].
    + eapply extends_existsb; [eapply pass_fk_extends; exact H |].
      rewrite existsb_app. cbn. rewrite String.eqb_refl. now rewrite orb_true_r.
  - destruct (c_foreign_key x) as [g|]; [|eapply IH; eauto].
    destruct (fk_of_syntax (c_name x) g) as [[[[t rc] od] ou]|e]; [|discriminate].
    destruct (existsb (fk_hit (c_name x)) cs); eapply IH; eauto.
Qed.
Lemma pass_fk_parses cols : forall cs cs', pass_fk cols cs = Ok cs' ->
  forall c f, In c cols -> c_foreign_key c = Some f -> exists v, fk_of_syntax (c_name c) f = Ok v.
Proof.
  induction cols as [|x r IH]; intros cs cs' H c f Hin Hf; [destruct Hin|].
  cbn [pass_fk] in H. destruct Hin as [->|Hin].
  - rewrite Hf in H. destruct (fk_of_syntax (c_name c) f) as [v|e]; [eauto|discriminate].
  - destruct (c_foreign_key x) as [g|]; [|eapply IH; eauto].
    destruct (fk_of_syntax (c_name x) g) as [[[[t rc] od] ou]|e]; [|discriminate].
    destruct (existsb (fk_hit (c_name x)) cs); eapply IH; eauto.
Qed.
Lemma pass_fk_noop cols : forall cs,
  (forall c f, In c cols -> c_foreign_key c = Some f -> exists v, fk_of_syntax (c_name c) f = Ok v) ->
  (forall c f, In c cols -> c_foreign_key c = Some f -> existsb (fk_hit (c_name c)) cs = true) ->
  pass_fk cols cs = Ok cs.
Proof.
  induction cols as [|x r IH]; intros cs Hp Hc; [reflexivity|].
  cbn [pass_fk]. destruct (c_foreign_key x) as [g|] eqn:Eg.
  - destruct (Hp x g (or_introl eq_refl) Eg) as [[[[t rc] od] ou] ->].
    rewrite (Hc x g (or_introl eq_refl) Eg).
    apply IH; intros; [eapply Hp|eapply Hc]; eauto; now right.
  - apply IH; intros; [eapply Hp|eapply Hc]; eauto; now right.
Qed.

Lemma pass_unique_extends cols cs : extends cs (pass_unique cols cs).
Proof. unfold pass_unique. apply push_fold_extends. Qed.

(* ---------- normalize ---------- *)
Theorem normalize_constraints_extends cols cs cs' :
  normalize_constraints cols cs = Ok cs' -> extends cs cs'.
Proof.
  unfold normalize_constraints. intro H.
  destruct (pass_fk cols (pass_unique cols (pass_pk cols cs))) as [cs3|e] eqn:E3; [|discriminate].
  destruct (index_groups cols []) as [gs|e]; [|discriminate]. inversion H; subst; clear H.
  eapply extends_trans; [apply pass_pk_extends|].
  eapply extends_trans; [apply pass_unique_extends|].
  eapply extends_trans; [eapply pass_fk_extends; exact E3|].
  apply push_fold_extends.
Qed.

Theorem normalize_constraints_idempotent cols cs cs' :
  normalize_constraints cols cs = Ok cs' -> normalize_constraints cols cs' = Ok cs'.
Proof.
  unfold normalize_constraints. intro H.
  destruct (pass_fk cols (pass_unique cols (pass_pk cols cs))) as [cs3|e] eqn:E3; [|discriminate].
  destruct (index_groups cols []) as [gs|e] eqn:Eg; [|discriminate]. inversion H; subst; clear H.
  set (cs1 := pass_pk cols cs) in *.
  set (cs2 := pass_unique cols cs1) in *.
  set (cs4 := fold_left (push_if_absent index_hit index_mk) gs cs3).
  assert (X12 : extends cs1 cs2) by apply pass_unique_extends.
  assert (X23 : extends cs2 cs3) by (eapply pass_fk_extends; exact E3).
  assert (X34 : extends cs3 cs4) by apply push_fold_extends.
  (* pass 1 is a no-op on cs4 *)
  assert (P1 : pass_pk cols cs4 = cs4).
  { apply pass_pk_fix. intro Hne.
    eapply extends_existsb; [eapply extends_trans; [exact X12|eapply extends_trans; [exact X23|exact X34]]|].
    now apply pass_pk_has. }
  rewrite P1.
  (* pass 2 *)
  assert (P2 : pass_unique cols cs4 = cs4).
  { unfold pass_unique. apply push_fold_fix. intros g Hg.
    eapply extends_existsb; [eapply extends_trans; [exact X23|exact X34]|].
    unfold cs2, pass_unique. apply push_fold_covers; [apply unique_hit_mk | exact Hg]. }
  rewrite P2.
  (* pass 3 *)
  assert (P3 : pass_fk cols cs4 = Ok cs4).
  { apply pass_fk_noop.
    - eapply pass_fk_parses; exact E3.
    - intros c f Hin Hf. eapply extends_existsb; [exact X34|]. eapply pass_fk_covers; eauto. }
  rewrite P3.
  f_equal. apply push_fold_fix. intros g Hg.
  apply push_fold_covers; [apply index_hit_mk | exact Hg].
Qed.

Theorem normalize_idempotent t n : normalize t = Ok n -> normalize n = Ok n.
Proof.
  unfold normalize. intro H.
  destruct (normalize_constraints (t_columns t) (t_constraints t)) as [cs|e] eqn:E; [|discriminate].
  inversion H; subst; clear H. cbn [t_columns t_constraints t_name t_description].
  now rewrite (normalize_constraints_idempotent _ _ _ E).
Qed.

(* lossless: columns, name and description untouched, declared constraints kept as a prefix in order *)
Theorem normalize_lossless t n : normalize t = Ok n ->
  t_name n = t_name t /\ t_description n = t_description t /\ t_columns n = t_columns t
  /\ exists ex, t_constraints n = t_constraints t ++ ex.
Proof.
  unfold normalize. intro H.
  destruct (normalize_constraints (t_columns t) (t_constraints t)) as [cs|e] eqn:E; [|discriminate].
  inversion H; subst; clear H. cbn. repeat split; try reflexivity.
  exact (normalize_constraints_extends _ _ _ E).
Qed.
