(* One table, one group, third rung: besides attribute changes, added constraints and added plain
   columns, the group may drop plain columns that no constraint mentions and remove constraints of a kind
   that no column of the baseline table declares inline.  Applied in any order to the baseline table it
   succeeds, gives a normalisation fix-point, table_equiv to the target. *)
From VV.M1 Require Import Oracles Hyp NormalizeP BtP DiffP DiffEqP ApplyLocalP AttrsP GrowP.
From Coq Require Import Lia Permutation.

(* ---------- a fix-point of normalisation = every inline declaration is already covered ---------- *)
Definition fix_covers (cols : list column_def) (cs : list table_constraint) : Prop :=
  (pk_cols_of cols <> [] -> existsb is_pk cs = true)
  /\ (forall g, In g (unique_groups cols) -> existsb (unique_hit g) cs = true)
  /\ (forall c f, In c cols -> c_foreign_key c = Some f ->
        (exists v, fk_of_syntax (c_name c) f = Ok v) /\ existsb (fk_hit (c_name c)) cs = true)
  /\ (exists gs, index_groups cols [] = Ok gs /\ forall g, In g gs -> existsb (index_hit g) cs = true).

Lemma fix_covers_intro cols cs : fix_covers cols cs -> normalize_constraints cols cs = Ok cs.
Proof.
  intros (C1 & C2 & C3 & gs & Eg & C4). unfold normalize_constraints.
  rewrite (pass_pk_fix cols cs C1).
  assert (P2 : pass_unique cols cs = cs) by (unfold pass_unique; now apply push_fold_fix).
  rewrite P2.
  assert (P3 : pass_fk cols cs = Ok cs).
  { apply pass_fk_noop; intros c f Hin Hf; now destruct (C3 c f Hin Hf). }
  rewrite P3, Eg. f_equal. now apply push_fold_fix.
Qed.

Lemma fix_covers_elim cols cs : normalize_constraints cols cs = Ok cs -> fix_covers cols cs.
Proof.
  unfold normalize_constraints. intro H.
  destruct (pass_fk cols (pass_unique cols (pass_pk cols cs))) as [cs3|e] eqn:E3; [|discriminate].
  destruct (index_groups cols []) as [gs|e] eqn:Eg; [|discriminate]. injection H as H4.
  set (cs1 := pass_pk cols cs) in *. set (cs2 := pass_unique cols cs1) in *.
  assert (X01 : extends cs cs1) by apply pass_pk_extends.
  assert (X12 : extends cs1 cs2) by apply pass_unique_extends.
  assert (X23 : extends cs2 cs3) by (eapply pass_fk_extends; exact E3).
  assert (X34 : extends cs3 cs).
  { rewrite <- H4. apply (push_fold_extends index_hit index_mk). }
  assert (Q1 : cs1 = cs).
  { symmetry. apply extends_antisym; [exact X01|].
    eapply extends_trans; [exact X12|]. eapply extends_trans; [exact X23|exact X34]. }
  assert (Q2 : cs2 = cs).
  { symmetry. apply extends_antisym; [rewrite <- Q1 at 1; exact X12|].
    eapply extends_trans; [exact X23|exact X34]. }
  assert (Q3 : cs3 = cs).
  { symmetry. apply extends_antisym; [rewrite <- Q2 at 1; exact X23|exact X34]. }
  subst cs3. rewrite Q2 in E3.
  split; [|split; [|split]].
  - intro Hne. rewrite <- Q1 at 1. now apply pass_pk_has.
  - intros g Hg. rewrite <- Q2 at 1. unfold cs2, pass_unique.
    apply push_fold_covers; [apply unique_hit_mk|exact Hg].
  - intros c f Hin Hf. split; [eapply pass_fk_parses; eauto|eapply pass_fk_covers; eauto].
  - exists gs. split; [exact Eg|]. intros g Hg. rewrite <- H4 at 1.
    apply push_fold_covers; [apply index_hit_mk|exact Hg].
Qed.

Lemma existsb_filter_keep {A} (h keep : A -> bool) l :
  existsb h l = true -> (forall x, h x = true -> keep x = true) -> existsb h (filter keep l) = true.
Proof.
  intros H Hk. apply existsb_exists in H. destruct H as [x [Hin Hx]].
  apply existsb_exists. exists x. split; [|exact Hx]. apply filter_In. auto.
Qed.

(* inline-free kinds produce nothing *)
Lemma no_inline_pk cols : forallb (fun c => is_none (c_primary_key c)) cols = true -> pk_cols_of cols = [].
Proof.
  unfold pk_cols_of. induction cols as [|c r IH]; cbn [forallb flat_map]; [reflexivity|].
  intro H. apply andb_prop in H. destruct H as [H1 H2]. rewrite (IH H2).
  destruct (c_primary_key c); [discriminate|reflexivity].
Qed.
Lemma no_inline_unique cols : forallb (fun c => is_none (c_unique c)) cols = true -> unique_groups cols = [].
Proof.
  unfold unique_groups. intro H.
  assert (G : forall gs, fold_left unique_groups_step cols gs = gs).
  { induction cols as [|c r IH]; intro gs; cbn [fold_left forallb] in *; [reflexivity|].
    apply andb_prop in H. destruct H as [H1 H2]. unfold unique_groups_step at 2.
    destruct (c_unique c); [discriminate|]. now apply IH. }
  apply G.
Qed.
Lemma no_inline_fk cols c f : forallb (fun c => is_none (c_foreign_key c)) cols = true ->
  In c cols -> c_foreign_key c = Some f -> False.
Proof. intros H Hin Hf. rewrite forallb_forall in H. specialize (H c Hin). rewrite Hf in H. discriminate. Qed.
Lemma no_inline_index cols : forallb (fun c => is_none (c_index c)) cols = true ->
  forall gs, index_groups cols gs = Ok gs.
Proof.
  induction cols as [|c r IH]; intros H gs; cbn [index_groups forallb] in *; [reflexivity|].
  apply andb_prop in H. destruct H as [H1 H2]. unfold index_groups_step.
  destruct (c_index c); [discriminate|]. now apply IH.
Qed.

Definition keep_not (k : table_constraint) (c : table_constraint) : bool := negb (constraint_eqb c k).

(* removing a constraint of a kind no column declares inline keeps the fix-point *)
Lemma normalize_constraints_remove cols cs k :
  removable cols k = true -> normalize_constraints cols cs = Ok cs ->
  normalize_constraints cols (filter (keep_not k) cs) = Ok (filter (keep_not k) cs).
Proof.
  intros Hr H. apply fix_covers_elim in H. destruct H as (C1 & C2 & C3 & gs & Eg & C4).
  apply fix_covers_intro.
  assert (Kne : forall (h : table_constraint -> bool),
            (h k = false) -> forall x, h x = true -> keep_not k x = true).
  { intros h Hk x Hx. unfold keep_not, constraint_eqb, dec_b. destruct (constraint_eq_dec x k); [subst; congruence|reflexivity]. }
  split; [|split; [|split]].
  - intro Hne. destruct k; cbn [removable] in Hr;
      try (apply existsb_filter_keep; [now apply C1|apply Kne; reflexivity]).
    exfalso. apply Hne. now apply no_inline_pk.
  - intros g Hg. destruct k; cbn [removable] in Hr;
      try (apply existsb_filter_keep; [now apply C2|apply Kne; reflexivity]).
    exfalso. rewrite (no_inline_unique cols Hr) in Hg. destruct Hg.
  - intros c f Hin Hf. destruct (C3 c f Hin Hf) as [Hp Hc]. split; [exact Hp|].
    destruct k; cbn [removable] in Hr;
      try (apply existsb_filter_keep; [exact Hc|apply Kne; reflexivity]).
    exfalso. eapply no_inline_fk; eauto.
  - destruct k; cbn [removable] in Hr;
      try (exists gs; split; [exact Eg|]; intros g Hg;
           apply existsb_filter_keep; [now apply C4|apply Kne; reflexivity]).
    rewrite (no_inline_index cols Hr []) in Eg. inversion Eg; subst gs.
    exists []. split; [now apply no_inline_index|]. intros g [].
Qed.

(* ---------- RemoveConstraint clears nothing when the kind is not declared inline ---------- *)
Lemma modify_first_id p (f : column_def -> column_def) : forall cols,
  (forall c, In c cols -> f c = c) -> modify_first p f cols = cols.
Proof.
  induction cols as [|c r IH]; intro H; cbn [modify_first]; [reflexivity|].
  destruct (p c); [now rewrite (H c (or_introl eq_refl))|].
  f_equal. apply IH. intros x Hx. apply H. now right.
Qed.
Lemma set_pk_none_id c : c_primary_key c = None -> set_pk None c = c.
Proof. destruct c. cbn. now intros ->. Qed.
Lemma set_unique_none_id c : c_unique c = None -> set_unique None c = c.
Proof. destruct c. cbn. now intros ->. Qed.
Lemma set_index_none_id c : c_index c = None -> set_index None c = c.
Proof. destruct c. cbn. now intros ->. Qed.
Lemma set_fk_none_id c : c_foreign_key c = None -> set_fk None c = c.
Proof. destruct c. cbn. now intros ->. Qed.
Lemma is_none_eq {A} (o : option A) : is_none o = true -> o = None.
Proof. destruct o; [discriminate|reflexivity]. Qed.

Lemma fold_modify_first_id (f : column_def -> column_def) cols :
  (forall c, In c cols -> f c = c) -> forall names,
  fold_left (fun cs x => modify_first (named x) f cs) names cols = cols.
Proof.
  intros H names. induction names as [|x r IH]; cbn [fold_left]; [reflexivity|].
  now rewrite (modify_first_id _ f cols H).
Qed.

Lemma clear_index_auto_id table name : forall cols,
  (forall c, In c cols -> c_index c = None) -> clear_index_auto table name cols = cols.
Proof.
  induction cols as [|c r IH]; intro H; cbn [clear_index_auto]; [reflexivity|].
  destruct (dec_b _ _ _).
  - now rewrite (set_index_none_id c (H c (or_introl eq_refl))).
  - f_equal. apply IH. intros x Hx. apply H. now right.
Qed.

Lemma clear_inline_id table k cols : removable cols k = true -> clear_inline table k cols = cols.
Proof.
  intro Hr. destruct k; cbn [removable] in Hr; rewrite ?forallb_forall in Hr; cbn [clear_inline].
  - apply fold_modify_first_id. intros c Hc. apply set_pk_none_id, is_none_eq, Hr, Hc.
  - assert (H1 : match name, columns with
                 | None, [x] => modify_first (named x) (set_unique None) cols
                 | _, _ => cols
                 end = cols).
    { destruct name; [reflexivity|]. destruct columns as [|x [|y r]]; try reflexivity.
      apply modify_first_id. intros c Hc. apply set_unique_none_id, is_none_eq, Hr, Hc. }
    rewrite H1. destruct name as [cn|]; [|reflexivity].
    apply map_id_on. intros c Hc. unfold clear_unique_named. now rewrite (is_none_eq _ (Hr c Hc)).
  - apply fold_modify_first_id. intros c Hc. apply set_fk_none_id, is_none_eq, Hr, Hc.
  - reflexivity.
  - assert (Hi : forall c, In c cols -> c_index c = None) by (intros c Hc; apply is_none_eq, Hr, Hc).
    rewrite (clear_index_auto_id table name cols Hi).
    assert (H1 : match name, columns with
                 | None, [x] => modify_first (named x) (set_index None) cols
                 | _, _ => cols
                 end = cols).
    { destruct name; [reflexivity|]. destruct columns as [|x [|y r]]; try reflexivity.
      apply modify_first_id. intros c Hc. now apply set_index_none_id, Hi. }
    rewrite H1. destruct name as [cn|]; [|reflexivity].
    apply map_id_on. intros c Hc. unfold clear_index_named. now rewrite (Hi c Hc).
Qed.

(* ---------- dropping plain columns changes nothing for normalisation ---------- *)
Definition not_named (x : string) (c : column_def) : bool := negb (String.eqb (c_name c) x).
Definition plain_at (x : string) (cols : list column_def) : Prop :=
  forall c, In c cols -> c_name c = x -> plain c = true.

Lemma not_named_false x c : not_named x c = false -> c_name c = x.
Proof. unfold not_named. intro H. apply negb_false_iff in H. now apply String.eqb_eq. Qed.

Lemma normalize_constraints_drop_plain x cols cs : plain_at x cols ->
  normalize_constraints (filter (not_named x) cols) cs = normalize_constraints cols cs.
Proof.
  intro Hp.
  assert (E1 : pk_cols_of (filter (not_named x) cols) = pk_cols_of cols).
  { unfold pk_cols_of. induction cols as [|c r IH]; cbn [filter flat_map]; [reflexivity|].
    assert (Hr : plain_at x r) by (intros y Hy; apply Hp; now right).
    destruct (not_named x c) eqn:E; cbn [flat_map]; [now rewrite (IH Hr)|].
    destruct (plain_fields c (Hp c (or_introl eq_refl) (not_named_false _ _ E))) as (H1 & _).
    rewrite H1. cbn [app]. now apply IH. }
  assert (E2 : pk_auto_of (filter (not_named x) cols) = pk_auto_of cols).
  { clear - Hp. unfold pk_auto_of. induction cols as [|c r IH]; cbn [filter existsb]; [reflexivity|].
    assert (Hr : plain_at x r) by (intros y Hy; apply Hp; now right).
    destruct (not_named x c) eqn:E; cbn [existsb]; [rewrite (IH Hr); reflexivity|].
    destruct (plain_fields c (Hp c (or_introl eq_refl) (not_named_false _ _ E))) as (H1 & _).
    rewrite H1. cbn [orb]. now apply IH. }
  assert (E3 : unique_groups (filter (not_named x) cols) = unique_groups cols).
  { clear - Hp. unfold unique_groups. generalize (@nil group) as gs.
    induction cols as [|c r IH]; intro gs; cbn [filter fold_left]; [reflexivity|].
    assert (Hr : plain_at x r) by (intros y Hy; apply Hp; now right).
    destruct (not_named x c) eqn:E; cbn [fold_left]; [now apply IH|].
    destruct (plain_fields c (Hp c (or_introl eq_refl) (not_named_false _ _ E))) as (_ & H2 & _).
    assert (Es : unique_groups_step gs c = gs) by (unfold unique_groups_step; now rewrite H2).
    rewrite Es. now apply IH. }
  assert (E4 : forall cs0, pass_fk (filter (not_named x) cols) cs0 = pass_fk cols cs0).
  { clear - Hp. induction cols as [|c r IH]; intro cs0; cbn [filter pass_fk]; [reflexivity|].
    assert (Hr : plain_at x r) by (intros y Hy; apply Hp; now right).
    destruct (not_named x c) eqn:E; cbn [pass_fk].
    - destruct (c_foreign_key c) as [f|]; [|now apply IH].
      destruct (fk_of_syntax (c_name c) f) as [[[[t rc] od] ou]|e]; [|reflexivity].
      destruct (existsb _ cs0); now apply IH.
    - destruct (plain_fields c (Hp c (or_introl eq_refl) (not_named_false _ _ E))) as (_ & _ & _ & H4).
      rewrite H4. now apply IH. }
  assert (E5 : forall gs, index_groups (filter (not_named x) cols) gs = index_groups cols gs).
  { clear - Hp. induction cols as [|c r IH]; intro gs; cbn [filter index_groups]; [reflexivity|].
    assert (Hr : plain_at x r) by (intros y Hy; apply Hp; now right).
    destruct (not_named x c) eqn:E; cbn [index_groups].
    - destruct (index_groups_step gs c); [now apply IH|reflexivity].
    - destruct (plain_fields c (Hp c (or_introl eq_refl) (not_named_false _ _ E))) as (_ & _ & H3 & _).
      unfold index_groups_step. rewrite H3. now apply IH. }
  unfold normalize_constraints, pass_pk, pass_unique. cbv zeta. now rewrite E1, E2, E3, E4, E5.
Qed.

(* ---------- DeleteColumn of a column no constraint mentions leaves the constraints alone ---------- *)
Lemma drop_in_id x l : mem_str x l = false -> drop_in x l = l.
Proof.
  unfold drop_in, mem_str. induction l as [|y l IH]; cbn [existsb filter]; [reflexivity|].
  intro H. apply orb_false_elim in H. destruct H as [H1 H2].
  rewrite (str_eqb_sym y x), H1. cbn [negb]. f_equal. now apply IH.
Qed.
Lemma drop_column_from_constraint_id x k : cons_ok k = true -> mentions x k = false ->
  drop_column_from_constraint x k = Some k.
Proof.
  unfold mentions. intros Hok Hm. apply orb_false_elim in Hm. destruct Hm as [H1 H2].
  destruct k; cbn [drop_column_from_constraint constraint_columns cons_ok] in *;
    rewrite ?(drop_in_id _ _ H1), ?(drop_in_id _ _ H2), ?Hok; reflexivity.
Qed.
Lemma drop_column_from_constraints_id x cs :
  (forall k, In k cs -> cons_ok k = true /\ mentions x k = false) ->
  drop_column_from_constraints x cs = cs.
Proof.
  unfold drop_column_from_constraints. induction cs as [|k r IH]; intro H; cbn [flat_map]; [reflexivity|].
  destruct (H k (or_introl eq_refl)) as [H1 H2]. rewrite (drop_column_from_constraint_id x k H1 H2).
  cbn [app]. f_equal. apply IH. intros y Hy. apply H. now right.
Qed.

(* ---------- what a change action does to a table ---------- *)
Definition sem_step2 (a : action) (t : table_def) : table_def :=
  match a with
  | DeleteColumn _ x =>
      mkTable (t_name t) (t_description t) (filter (not_named x) (t_columns t)) (t_constraints t)
  | RemoveConstraint _ k =>
      mkTable (t_name t) (t_description t) (t_columns t) (filter (keep_not k) (t_constraints t))
  | _ => sem_step a t
  end.
Definition sem2 (L : list action) (t : table_def) : table_def := fold_left (fun t a => sem_step2 a t) L t.

Definition deleted_names (L : list action) : list string :=
  flat_map (fun a => match a with DeleteColumn _ x => [x] | _ => [] end) L.
Definition is_change_kind (a : action) : bool :=
  match a with
  | ModifyColumnType _ _ _ _ | ModifyColumnNullable _ _ _ _
  | ModifyColumnDefault _ _ _ | ModifyColumnComment _ _ _ => true
  | AddConstraint _ _ | DeleteColumn _ _ | RemoveConstraint _ _ => true
  | AddColumn _ c _ => plain c
  | _ => false
  end.

Lemma has_column_true n t : In n (colnames t) -> has_column n t = true.
Proof.
  unfold has_column, colnames. intro H. apply in_map_iff in H. destruct H as [c [Hc Hin]].
  apply existsb_exists. exists c. split; [exact Hin|]. subst n. apply String.eqb_refl.
Qed.
Lemma NoDup_map_filter {A B} (f : A -> B) (p : A -> bool) : forall l, NoDup (map f l) -> NoDup (map f (filter p l)).
Proof.
  induction l as [|x l IH]; cbn [map filter]; intro H; [constructor|].
  inversion H as [|y l' Hy Hnd]; subst y l'.
  destruct (p x); cbn [map]; [|now apply IH]. constructor; [|now apply IH].
  intro Hin. apply Hy. apply in_map_iff in Hin. destruct Hin as [t [Ht Hin]].
  apply filter_In in Hin. rewrite <- Ht. apply in_map. tauto.
Qed.
Lemma plain_col_apply a c : plain (col_apply a c) = plain c.
Proof. destruct a; cbn [col_apply]; try reflexivity; destruct (String.eqb _ _); reflexivity. Qed.
Lemma removable_map_col_apply a cols k : removable (map (col_apply a) cols) k = removable cols k.
Proof.
  assert (G : forall p : column_def -> bool, (forall c, p (col_apply a c) = p c) ->
            forallb p (map (col_apply a) cols) = forallb p cols).
  { intros p Hp. induction cols as [|c r IH]; cbn [map forallb]; [reflexivity|]. now rewrite Hp, IH. }
  destruct k; cbn [removable]; try reflexivity; apply G; intro c;
    destruct a; cbn [col_apply]; try reflexivity; destruct (String.eqb _ _); reflexivity.
Qed.
Lemma forallb_filter {A} (p q : A -> bool) l : forallb p l = true -> forallb p (filter q l) = true.
Proof.
  rewrite !forallb_forall. intros H x Hx. apply filter_In in Hx. apply H. tauto.
Qed.
Lemma removable_filter q cols k : removable cols k = true -> removable (filter q cols) k = true.
Proof. destruct k; cbn [removable]; try reflexivity; apply forallb_filter. Qed.
Lemma removable_snoc_plain cols c k : plain c = true -> removable cols k = true -> removable (cols ++ [c]) k = true.
Proof.
  intros Hp Hr. destruct (plain_fields c Hp) as (H1 & H2 & H3 & H4).
  destruct k; cbn [removable] in *; try reflexivity; rewrite forallb_app, Hr; cbn [forallb];
    rewrite ?H1, ?H2, ?H3, ?H4; reflexivity.
Qed.

Section Change.
  Variable allowed : list table_constraint.
  Hypothesis allowed_ok : forall k, In k allowed -> cons_ok k = true.

  Record valid2 (L : list action) (t : table_def) : Prop := mkValid2 {
    w_kind : forall a, In a L -> is_change_kind a = true;
    w_attr : forall a, In a L -> is_attr_action a = true ->
               In (attr_col a) (colnames t) /\ ~ In (attr_col a) (deleted_names L);
    w_add_nodup : NoDup (added_names L);
    w_fresh : forall x, In x (added_names L) -> ~ In x (colnames t);
    w_del_nodup : NoDup (deleted_names L);
    w_del_in : forall x, In x (deleted_names L) -> In x (colnames t) /\ plain_at x (t_columns t);
    w_del_cs : forall x k, In x (deleted_names L) -> In k allowed -> mentions x k = false;
    w_addc : forall n k, In (AddConstraint n k) L -> In k allowed;
    w_rem : forall n k, In (RemoveConstraint n k) L -> removable (t_columns t) k = true }.

  Lemma sem_step2_name a t : t_name (sem_step2 a t) = t_name t.
  Proof. destruct a; cbn [sem_step2]; try apply sem_step_name; reflexivity. Qed.

  Lemma change_step a L t :
    valid2 (a :: L) t -> NoDup (colnames t) -> normalize t = Ok t -> incl (t_constraints t) allowed ->
    apply_table (Some t) a = Ok (Some (sem_step2 a t))
    /\ valid2 L (sem_step2 a t) /\ NoDup (colnames (sem_step2 a t))
    /\ normalize (sem_step2 a t) = Ok (sem_step2 a t) /\ incl (t_constraints (sem_step2 a t)) allowed.
  Proof.
    intros [Vk Va Van Vf Vdn Vdi Vdc Vac Vr] Hnd Hfix Hincl.
    pose proof (Vk a (or_introl eq_refl)) as Hk.
    assert (VkL : forall b, In b L -> is_change_kind b = true) by (intros b Hb; apply Vk; now right).
    assert (VacL : forall n k, In (AddConstraint n k) L -> In k allowed) by (intros n k Hb; apply (Vac n); now right).
    destruct (is_attr_action a) eqn:Hattr.
    - (* attribute action *)
      destruct (Va a (or_introl eq_refl) Hattr) as [Hin _].
      assert (Es : sem_step2 a t = map_cols (col_apply a) t) by (destruct a; try discriminate; reflexivity).
      assert (Hn : colnames (map_cols (col_apply a) t) = colnames t).
      { unfold colnames, map_cols. cbn [t_columns]. rewrite map_map. apply map_ext. apply col_apply_name. }
      assert (Ean : added_names (a :: L) = added_names L) by (destruct a; try discriminate; reflexivity).
      assert (Edn : deleted_names (a :: L) = deleted_names L) by (destruct a; try discriminate; reflexivity).
      rewrite Es, (apply_table_attr a t Hattr), (table_fn_attr a t Hattr Hnd Hin).
      split; [reflexivity|]. split; [|split; [now rewrite Hn|split; [|exact Hincl]]].
      + constructor; try assumption.
        * intros b Hb Hab. rewrite Hn. destruct (Va b (or_intror Hb) Hab) as [H1 H2]. rewrite Edn in H2. auto.
        * now rewrite <- Ean.
        * intros x Hx. rewrite Hn. apply Vf. now rewrite Ean.
        * now rewrite <- Edn.
        * intros x Hx. rewrite Hn. rewrite <- Edn in Hx. destruct (Vdi x Hx) as [H1 H2]. split; [exact H1|].
          unfold map_cols. cbn [t_columns]. intros c Hc Hcn. apply in_map_iff in Hc.
          destruct Hc as [c0 [<- Hc0]]. rewrite plain_col_apply. apply (H2 c0 Hc0).
          now rewrite col_apply_name in Hcn.
        * intros x k Hx. apply Vdc. now rewrite Edn.
        * intros n k Hb. unfold map_cols. cbn [t_columns]. rewrite removable_map_col_apply.
          apply (Vr n). now right.
      + unfold map_cols. apply normalize_same_view; [exact Hfix|].
        rewrite map_map. apply map_ext. apply canon_col_apply.
    - destruct a; try discriminate; cbn [is_change_kind] in Hk.
      + (* AddColumn of a plain column *)
        cbn [added_names flat_map app] in Van, Vf. inversion Van as [|x l Hnew Van']; subst x l.
        assert (Hfresh : ~ In (c_name column) (colnames t)) by (apply Vf; now left).
        assert (Hnorm : normalize (mkTable (t_name t) (t_description t) (t_columns t ++ [column]) (t_constraints t))
                        = Ok (mkTable (t_name t) (t_description t) (t_columns t ++ [column]) (t_constraints t))).
        { apply normalize_fix_intro. cbn [t_columns t_constraints].
          rewrite (normalize_constraints_app_plain _ _ _ Hk). now apply normalize_fix_inv. }
        cbn [apply_table table_fn sem_step2 sem_step]. rewrite (has_column_false _ _ Hfresh), Hnorm.
        split; [reflexivity|]. split; [|split; [|split; [reflexivity|exact Hincl]]].
        * constructor; try assumption.
          -- intros b Hb Hab. destruct (Va b (or_intror Hb) Hab) as [H1 H2]. split; [|exact H2].
             unfold colnames. cbn [t_columns]. rewrite map_app. apply in_or_app. now left.
          -- intros x Hx. unfold colnames. cbn [t_columns]. rewrite map_app. intro Hin.
             apply in_app_or in Hin. destruct Hin as [Hin|[<-|[]]].
             ++ apply (Vf x); [now right|exact Hin].
             ++ now apply Hnew.
          -- intros x Hx. destruct (Vdi x Hx) as [H1 H2]. split.
             ++ unfold colnames. cbn [t_columns]. rewrite map_app. apply in_or_app. now left.
             ++ cbn [t_columns]. intros c Hc Hcn. apply in_app_or in Hc.
                destruct Hc as [Hc|[<-|[]]]; [now apply H2|exact Hk].
          -- intros n k Hb. cbn [t_columns]. apply removable_snoc_plain; [exact Hk|]. apply (Vr n). now right.
        * unfold colnames. cbn [t_columns]. rewrite map_app. cbn [map].
          clear - Hnd Hfresh. unfold colnames in *. induction (map c_name (t_columns t)) as [|y l IH];
            cbn [app]; [constructor; [intros []|constructor]|].
          inversion Hnd; subst. constructor.
          -- intro Hin. apply in_app_or in Hin. destruct Hin as [Hin|[<-|[]]]; [tauto|].
             apply Hfresh. now left.
          -- apply IH; [assumption|]. intro Hin. apply Hfresh. now right.
      + (* DeleteColumn *)
        cbn [deleted_names flat_map app] in Vdn, Vdi, Vdc, Va.
        inversion Vdn as [|x l Hnew Vdn']; subst x l.
        destruct (Vdi column (or_introl eq_refl)) as [Hin Hplain].
        assert (Hdrop : drop_column_from_constraints column (t_constraints t) = t_constraints t).
        { apply drop_column_from_constraints_id. intros k Hk0. split; [apply allowed_ok, Hincl, Hk0|].
          apply Vdc; [now left|apply Hincl, Hk0]. }
        cbn [apply_table table_fn sem_step2]. rewrite (has_column_true _ _ Hin), Hdrop.
        split; [reflexivity|]. split; [|split; [|split; [|exact Hincl]]].
        * constructor; try assumption.
          -- intros b Hb Hab. destruct (Va b (or_intror Hb) Hab) as [H1 H2]. split.
             ++ unfold colnames. cbn [t_columns]. apply in_map_iff in H1. destruct H1 as [c [Hc Hcin]].
                apply in_map_iff. exists c. split; [exact Hc|]. apply filter_In. split; [exact Hcin|].
                unfold not_named. apply negb_true_iff, String.eqb_neq. intro E. apply H2. left. congruence.
             ++ intro Hd. apply H2. now right.
          -- intros x Hx Hxin. apply (Vf x Hx). unfold colnames in *. cbn [t_columns] in Hxin.
             apply in_map_iff in Hxin. destruct Hxin as [c [Hc Hcin]]. apply filter_In in Hcin.
             apply in_map_iff. exists c. tauto.
          -- intros x Hx. destruct (Vdi x (or_intror Hx)) as [H1 H2]. split.
             ++ unfold colnames. cbn [t_columns]. apply in_map_iff in H1. destruct H1 as [c [Hc Hcin]].
                apply in_map_iff. exists c. split; [exact Hc|]. apply filter_In. split; [exact Hcin|].
                unfold not_named. apply negb_true_iff, String.eqb_neq. intro E. apply Hnew.
                rewrite <- E, Hc. exact Hx.
             ++ cbn [t_columns]. intros c Hc. apply filter_In in Hc. apply H2. tauto.
          -- intros x k Hx. apply Vdc. now right.
          -- intros n k Hb. cbn [t_columns]. apply removable_filter. apply (Vr n). now right.
        * unfold colnames. cbn [t_columns]. now apply NoDup_map_filter.
        * apply normalize_fix_intro. cbn [t_columns t_constraints].
          rewrite (normalize_constraints_drop_plain _ _ _ Hplain). now apply normalize_fix_inv.
      + (* AddConstraint *)
        cbn [apply_table table_fn sem_step2 sem_step].
        assert (Vrest : valid2 L t).
        { constructor; try assumption.
          - intros b Hb Hab. apply Va; [now right|exact Hab].
          - intros n k Hb. apply (Vr n). now right. }
        destruct (contains_constraint constraint (t_constraints t)) eqn:Ec.
        * split; [reflexivity|]. split; [exact Vrest|]. split; [exact Hnd|]. split; [exact Hfix|exact Hincl].
        * split; [reflexivity|]. split; [|split; [exact Hnd|split]].
          -- destruct Vrest. constructor; assumption.
          -- apply normalize_fix_intro. cbn [t_columns t_constraints].
             apply normalize_constraints_snoc. now apply normalize_fix_inv.
          -- cbn [t_constraints]. intros k Hk0. apply in_app_or in Hk0.
             destruct Hk0 as [Hk0|[<-|[]]]; [now apply Hincl|]. apply (Vac table). now left.
      + (* RemoveConstraint *)
        pose proof (Vr table constraint (or_introl eq_refl)) as Hrem.
        cbn [apply_table table_fn sem_step2]. rewrite (clear_inline_id _ _ _ Hrem).
        split; [reflexivity|]. split; [|split; [exact Hnd|split]].
        * constructor; try assumption.
          -- intros b Hb Hab. apply Va; [now right|exact Hab].
          -- intros n k Hb. apply (Vr n). now right.
        * apply normalize_fix_intro. cbn [t_columns t_constraints].
          apply normalize_constraints_remove; [exact Hrem|now apply normalize_fix_inv].
        * cbn [t_constraints]. intros k Hk0. apply filter_In in Hk0. apply Hincl. tauto.
  Qed.

  Lemma proj_all_change : forall L t,
    valid2 L t -> NoDup (colnames t) -> normalize t = Ok t -> incl (t_constraints t) allowed ->
    proj_all (Some t) L = Ok (Some (sem2 L t)) /\ normalize (sem2 L t) = Ok (sem2 L t)
    /\ t_name (sem2 L t) = t_name t.
  Proof.
    induction L as [|a L IH]; intros t Hv Hnd Hfix Hincl; [cbn [proj_all sem2 fold_left]; auto|].
    destruct (change_step a L t Hv Hnd Hfix Hincl) as (H1 & H2 & H3 & H4 & H5).
    cbn [proj_all]. rewrite H1. destruct (IH _ H2 H3 H4 H5) as (I1 & I2 & I3).
    unfold sem2 in *. cbn [fold_left]. split; [exact I1|split; [exact I2|]].
    now rewrite I3, sem_step2_name.
  Qed.
End Change.

(* ---------- the column registered under a name, step by step ---------- *)
Definition cstep2 (k : string) (a : action) (o : option column_def) : option column_def :=
  match a with
  | DeleteColumn _ x => if String.eqb k x then None else o
  | RemoveConstraint _ _ => o
  | _ => cstep k a o
  end.

Lemma filter_rev' {A} (p : A -> bool) : forall l, filter p (rev l) = rev (filter p l).
Proof.
  induction l as [|x l IH]; cbn [rev filter]; [reflexivity|].
  rewrite filter_app, IH. cbn [filter]. destruct (p x); cbn [rev]; [reflexivity|now rewrite app_nil_r].
Qed.
Lemma bt_get_filter_named k x : forall l : list column_def,
  bt_get k (map (fun c => (c_name c, c)) (filter (not_named x) l))
  = if String.eqb k x then None else bt_get k (map (fun c => (c_name c, c)) l).
Proof.
  induction l as [|c l IH]; cbn [filter map bt_get]; [now destruct (String.eqb k x)|].
  destruct (not_named x c) eqn:E; cbn [map bt_get].
  - rewrite IH. destruct (String.eqb k x) eqn:Ek; [|reflexivity].
    apply String.eqb_eq in Ek. subst k. unfold not_named in E. apply negb_true_iff in E.
    now rewrite (str_eqb_sym x (c_name c)), E.
  - rewrite IH. apply not_named_false in E. destruct (String.eqb k x) eqn:Ek; [reflexivity|].
    now rewrite E, Ek.
Qed.
Lemma col_named_drop k x t :
  col_named k (mkTable (t_name t) (t_description t) (filter (not_named x) (t_columns t)) (t_constraints t))
  = if String.eqb k x then None else col_named k t.
Proof.
  unfold col_named. cbn [t_columns]. rewrite <- !map_rev, <- filter_rev'. apply bt_get_filter_named.
Qed.

Lemma col_named_sem_step2 k a t : is_change_kind a = true ->
  col_named k (sem_step2 a t) = cstep2 k a (col_named k t).
Proof.
  intro Hk. destruct a; try discriminate; cbn [sem_step2 cstep2];
    try (apply col_named_sem_step; exact Hk); try (apply col_named_sem_step; reflexivity).
  - apply col_named_drop.
  - reflexivity.
Qed.
Lemma col_named_sem2 k : forall L t, (forall a, In a L -> is_change_kind a = true) ->
  col_named k (sem2 L t) = fold_left (fun o a => cstep2 k a o) L (col_named k t).
Proof.
  unfold sem2. induction L as [|a L IH]; intros t H; cbn [fold_left]; [reflexivity|].
  rewrite IH by (intros b Hb; apply H; now right).
  now rewrite col_named_sem_step2 by (apply H; now left).
Qed.

Definition deletes_named (k : string) (a : action) : bool :=
  match a with DeleteColumn _ x => String.eqb k x | _ => false end.

Lemma cfold2_common k : forall L c,
  (forall a, In a L -> adds_named k a = false /\ deletes_named k a = false) ->
  fold_left (fun o a => cstep2 k a o) L (Some c) = Some (upd L c).
Proof.
  unfold upd. induction L as [|a L IH]; intros c H; cbn [fold_left]; [reflexivity|].
  assert (E : cstep2 k a (Some c) = Some (col_apply a c)).
  { destruct (H a (or_introl eq_refl)) as [Ha Hd].
    destruct a; cbn [cstep2 cstep col_apply option_map]; try reflexivity.
    - cbn [adds_named] in Ha. now rewrite Ha.
    - cbn [deletes_named] in Hd. now rewrite Hd. }
  rewrite E. apply IH. intros b Hb. apply H. now right.
Qed.
Lemma cstep2_none k a : adds_named k a = false -> cstep2 k a None = None.
Proof.
  intro Ha. destruct a; cbn [cstep2 cstep option_map]; try reflexivity.
  - cbn [adds_named] in Ha. now rewrite Ha.
  - now destruct (String.eqb k column).
Qed.
Lemma cfold2_none k : forall L, (forall a, In a L -> adds_named k a = false) ->
  fold_left (fun o a => cstep2 k a o) L None = None.
Proof.
  induction L as [|a L IH]; intro H; cbn [fold_left]; [reflexivity|].
  rewrite (cstep2_none k a (H a (or_introl eq_refl))). apply IH. intros b Hb. apply H. now right.
Qed.
Lemma cfold2_deleted k : forall L o,
  (exists n, In (DeleteColumn n k) L) -> (forall a, In a L -> adds_named k a = false) ->
  fold_left (fun o a => cstep2 k a o) L o = None.
Proof.
  induction L as [|a L IH] using rev_ind; intros o [n Hin] Hno; [destruct Hin|].
  rewrite fold_left_app. cbn [fold_left].
  destruct (deletes_named k a) eqn:Ed.
  - destruct a; try discriminate. cbn [deletes_named] in Ed. cbn [cstep2]. now rewrite Ed.
  - assert (HinL : exists n, In (DeleteColumn n k) L).
    { apply in_app_or in Hin. destruct Hin as [Hin|[E|[]]]; [eauto|]. subst a.
      cbn [deletes_named] in Ed. rewrite String.eqb_refl in Ed. discriminate. }
    rewrite (IH o HinL) by (intros b Hb; apply Hno, in_or_app; now left).
    apply cstep2_none. apply Hno, in_or_app. right. now left.
Qed.
Lemma cfold2_added k c : c_name c = k -> forall L,
  (forall a, In a L -> is_change_kind a = true) ->
  (exists n f, In (AddColumn n c f) L) ->
  (forall n c' f, In (AddColumn n c' f) L -> c_name c' = k -> c' = c) ->
  (forall a, In a L -> is_attr_action a = true -> attr_col a <> k) ->
  (forall a, In a L -> deletes_named k a = false) ->
  fold_left (fun o a => cstep2 k a o) L None = Some c.
Proof.
  intros Hk. induction L as [|a L IH] using rev_ind; intros Hg [n [f Hin]] Huniq Hattr Hdel; [destruct Hin|].
  rewrite fold_left_app. cbn [fold_left].
  assert (HgL : forall b, In b L -> is_change_kind b = true) by (intros b Hb; apply Hg, in_or_app; now left).
  assert (HuL : forall n' c' f', In (AddColumn n' c' f') L -> c_name c' = k -> c' = c)
    by (intros n' c' f' Hb; apply (Huniq n' c' f'), in_or_app; now left).
  assert (HaL : forall b, In b L -> is_attr_action b = true -> attr_col b <> k)
    by (intros b Hb; apply Hattr, in_or_app; now left).
  assert (HdL : forall b, In b L -> deletes_named k b = false) by (intros b Hb; apply Hdel, in_or_app; now left).
  destruct (adds_named k a) eqn:Ea.
  - destruct a; try discriminate. cbn [adds_named] in Ea. cbn [cstep2 cstep]. rewrite Ea.
    apply String.eqb_eq in Ea. f_equal. apply (Huniq table column fill_with); [apply in_or_app; right; now left|auto].
  - assert (HinL : exists n f, In (AddColumn n c f) L).
    { apply in_app_or in Hin. destruct Hin as [Hin|[E|[]]]; [eauto|]. subst a.
      cbn [adds_named] in Ea. rewrite Hk, String.eqb_refl in Ea. discriminate. }
    rewrite (IH HgL HinL HuL HaL HdL).
    assert (Hga : is_change_kind a = true) by (apply Hg, in_or_app; right; now left).
    assert (Hda : deletes_named k a = false) by (apply Hdel, in_or_app; right; now left).
    destruct (is_attr_action a) eqn:Haa.
    + assert (E : cstep2 k a (Some c) = Some (col_apply a c)) by (destruct a; try discriminate; reflexivity).
      rewrite E. f_equal. apply col_apply_other; [exact Haa|]. rewrite Hk.
      apply Hattr; [apply in_or_app; right; now left|exact Haa].
    + destruct a; try discriminate; cbn [cstep2 cstep]; try reflexivity.
      * cbn [adds_named] in Ea. now rewrite Ea.
      * cbn [deletes_named] in Hda. now rewrite Hda.
Qed.

(* ---------- the constraints after the list ---------- *)
Definition removes (k : table_constraint) (a : action) : bool :=
  match a with RemoveConstraint _ k' => constraint_eqb k k' | _ => false end.
Definition removed_in (L : list action) (k : table_constraint) : bool := existsb (removes k) L.

Lemma constraint_eqb_eq k k' : constraint_eqb k k' = true <-> k = k'.
Proof.
  unfold constraint_eqb. split; [apply dec_b_true|]. intros ->. apply dec_b_refl.
Qed.

Lemma cs_sem2 k : forall L t,
  (forall n k0, In (AddConstraint n k0) L -> removed_in L k0 = false) ->
  In k (t_constraints (sem2 L t)) <->
  (In k (t_constraints t) /\ removed_in L k = false) \/ exists n, In (AddConstraint n k) L.
Proof.
  unfold sem2. induction L as [|a L IH]; intros t Hdis; cbn [fold_left].
  - cbn [removed_in existsb]. split; [auto|intros [[H _]|[n []]]; exact H].
  - assert (HdisL : forall n k0, In (AddConstraint n k0) L -> removed_in L k0 = false).
    { intros n k0 Hin. specialize (Hdis n k0 (or_intror Hin)). unfold removed_in in *. cbn [existsb] in Hdis.
      now apply orb_false_elim in Hdis. }
    rewrite (IH _ HdisL). unfold removed_in. cbn [existsb].
    assert (Same : t_constraints (sem_step2 a t) = t_constraints t -> removes k a = false ->
              (forall n, a <> AddConstraint n k) ->
              ((In k (t_constraints (sem_step2 a t)) /\ existsb (removes k) L = false) \/
               (exists n, In (AddConstraint n k) L)) <->
              ((In k (t_constraints t) /\ removes k a || existsb (removes k) L = false) \/
               (exists n, In (AddConstraint n k) (a :: L)))).
    { intros E1 E2 E3. rewrite E1, E2. cbn [orb]. split.
      - intros [H|[n H]]; [now left|right; exists n; now right].
      - intros [H|[n [H|H]]]; [now left|exfalso; now apply (E3 n)|right; now exists n]. }
    destruct a; try (apply Same; [reflexivity|reflexivity|intros n E; discriminate]).
    + (* AddConstraint *)
      cbn [sem_step2 sem_step removes orb].
      destruct (constraint_eq_dec constraint k) as [->|Hne].
      * (* the constraint in question is added here *)
        assert (Hnr : existsb (removes k) L = false).
        { specialize (Hdis table k (or_introl eq_refl)). unfold removed_in in Hdis. cbn [existsb removes orb] in Hdis. exact Hdis. }
        rewrite Hnr. split; [intros _; right; exists table; now left|]. intros _. left. split; [|reflexivity].
        destruct (contains_constraint k (t_constraints t)) eqn:Ec; [now apply contains_constraint_true|].
        cbn [t_constraints]. apply in_or_app. right. now left.
      * assert (Hin : In k (t_constraints (if contains_constraint constraint (t_constraints t) then t
                        else mkTable (t_name t) (t_description t) (t_columns t) (t_constraints t ++ [constraint])))
                      <-> In k (t_constraints t)).
        { destruct (contains_constraint _ _); [reflexivity|]. cbn [t_constraints]. rewrite in_app_iff. cbn [In].
          split; [intros [H|[H|[]]]; [exact H|congruence]|auto]. }
        rewrite Hin. split.
        -- intros [H|[n H]]; [now left|right; exists n; now right].
        -- intros [H|[n [H|H]]]; [now left|inversion H; congruence|right; now exists n].
    + (* RemoveConstraint *)
      cbn [sem_step2 t_constraints removes]. rewrite filter_In. unfold keep_not.
      rewrite (dec_b_sym constraint_eq_dec k constraint : constraint_eqb k constraint = constraint_eqb constraint k).
      destruct (constraint_eqb constraint k) eqn:E; cbn [negb orb].
      * split; [intros [[[_ H] _]|[n H]]; [discriminate|right; exists n; now right]
               |intros [[_ H]|[n [H|H]]]; [discriminate|discriminate|right; now exists n]].
      * split; [intros [[[H _] H2]|[n H]]; [now left|right; exists n; now right]
               |intros [[H H2]|[n [H|H]]]; [left; auto|discriminate|right; now exists n]].
Qed.

(* ---------- facts about the DeleteColumn / RemoveConstraint blocks of a group ---------- *)
Lemma deleted_names_app a b : deleted_names (a ++ b) = deleted_names a ++ deleted_names b.
Proof. unfold deleted_names. apply flat_map_app. Qed.
Lemma deleted_names_nil l : (forall a, In a l -> kind a <> 0) -> deleted_names l = [].
Proof.
  intro H. unfold deleted_names. apply flat_map_nil. intros a Ha. specialize (H a Ha).
  destruct a; try reflexivity. exfalso. now apply H.
Qed.
Lemma deleted_names_map name l : deleted_names (map (fun c => DeleteColumn name c) l) = l.
Proof. unfold deleted_names. induction l as [|x l IH]; cbn [map flat_map app]; [reflexivity|now rewrite IH]. Qed.

Lemma common_not_del ft t2 f i : i <> 0 ->
  (forall k fd td x, In x (f k fd td) -> kind x = i) ->
  forall a, In a (tg_common ft t2 f) -> kind a <> 0.
Proof. intros Hi Hf a Ha. rewrite (common_kind ft t2 f i Hf a Ha). exact Hi. Qed.

Lemma deleted_names_group name ft t2 : deleted_names (table_group name ft t2) = tg_deleted ft t2.
Proof.
  rewrite table_group_parts, !deleted_names_app, deleted_names_map.
  rewrite (deleted_names_nil (tg_common ft t2 (f_type name))).
  2:{ apply (common_not_del ft t2 _ 1); [discriminate|]. intros k fd td x Hx. apply f_type_in in Hx. destruct Hx as [_ ->]. reflexivity. }
  rewrite (deleted_names_nil (tg_common ft t2 (f_nullable name))).
  2:{ apply (common_not_del ft t2 _ 2); [discriminate|]. intros k fd td x Hx. apply f_nullable_in in Hx. destruct Hx as [_ ->]. reflexivity. }
  rewrite (deleted_names_nil (tg_common ft t2 (f_default name))).
  2:{ apply (common_not_del ft t2 _ 3); [discriminate|]. intros k fd td x Hx. apply f_default_in in Hx. destruct Hx as [_ ->]. reflexivity. }
  rewrite (deleted_names_nil (tg_common ft t2 (f_comment name))).
  2:{ apply (common_not_del ft t2 _ 4); [discriminate|]. intros k fd td x Hx. apply f_comment_in in Hx. destruct Hx as [_ ->]. reflexivity. }
  rewrite (deleted_names_nil (tg_added name ft t2)).
  2:{ intros a Ha. unfold tg_added in Ha. apply in_flat_map in Ha. destruct Ha as [kv [_ Ha]].
      destruct (bt_mem _ _); [destruct Ha|destruct Ha as [<-|[]]; discriminate]. }
  rewrite (deleted_names_nil (tg_removed name ft t2)).
  2:{ intros a Ha. unfold tg_removed in Ha. apply in_flat_map in Ha. destruct Ha as [fc [_ Ha]].
      destruct (contains_constraint _ _); [destruct Ha|]. cbv zeta in Ha.
      destruct (_ && _)%bool; [destruct Ha|destruct Ha as [<-|[]]; discriminate]. }
  rewrite (deleted_names_nil (tg_addc name ft t2)).
  2:{ intros a Ha. unfold tg_addc in Ha. apply in_flat_map in Ha. destruct Ha as [tc [_ Ha]].
      destruct (contains_constraint _ _); [destruct Ha|destruct Ha as [<-|[]]; discriminate]. }
  now rewrite !app_nil_r.
Qed.

Lemma tg_deleted_in ft t2 x : In x (tg_deleted ft t2) <->
  exists c, bt_get x (tg_cols ft) = Some c /\ bt_mem x (tg_cols t2) = false.
Proof.
  unfold tg_deleted. rewrite in_map_iff. split.
  - intros [[k c] [<- Hin]]. apply filter_In in Hin. destruct Hin as [Hin Hm]. cbn [fst] in *.
    exists c. split; [apply bt_sorted_get; [apply tg_cols_sorted|exact Hin]|now apply negb_true_iff].
  - intros [c [Hg Hm]]. exists (x, c). split; [reflexivity|]. apply filter_In.
    split; [now apply bt_get_in|]. cbn [fst]. now rewrite Hm.
Qed.
Lemma tg_deleted_nodup ft t2 : NoDup (tg_deleted ft t2).
Proof. unfold tg_deleted. apply NoDup_map_filter, bt_sorted_nodup, tg_cols_sorted. Qed.

Lemma del_in_group name ft t2 n x : In (DeleteColumn n x) (table_group name ft t2) ->
  n = name /\ In x (tg_deleted ft t2).
Proof.
  intro H. apply group_kind_block in H. cbn [kind] in H. apply in_map_iff in H.
  destruct H as [y [E Hy]]. inversion E; subst. auto.
Qed.
Lemma group_dels name ft t2 x : In x (tg_deleted ft t2) -> In (DeleteColumn name x) (table_group name ft t2).
Proof.
  intro H. rewrite table_group_parts. apply in_or_app. left. apply in_map_iff. now exists x.
Qed.

Lemma rem_in_group name ft t2 n k : In (RemoveConstraint n k) (table_group name ft t2) ->
  In k (t_constraints ft) /\ contains_constraint k (t_constraints t2) = false.
Proof.
  intro H. apply group_kind_block in H. cbn [kind] in H. unfold tg_removed in H.
  apply in_flat_map in H. destruct H as [fc [Hin H]].
  destruct (contains_constraint fc (t_constraints t2)) eqn:E; [destruct H|]. cbv zeta in H.
  destruct (_ && _)%bool; [destruct H|]. destruct H as [H|[]]. inversion H; subst. auto.
Qed.
Lemma group_rems name ft t2 fc :
  In fc (t_constraints ft) -> contains_constraint fc (t_constraints t2) = false ->
  (forall x, In x (tg_deleted ft t2) -> mentions x fc = false) ->
  In (RemoveConstraint name fc) (table_group name ft t2).
Proof.
  intros Hin Hc Hm. rewrite table_group_parts. do 6 (apply in_or_app; right). apply in_or_app; left.
  unfold tg_removed. apply in_flat_map. exists fc. split; [exact Hin|]. rewrite Hc. cbv zeta.
  destruct (nonempty (constraint_columns fc) && forallb (fun c => mem_str c (tg_deleted ft t2)) (constraint_columns fc))%bool eqn:E;
    [|now left].
  exfalso. apply andb_prop in E. destruct E as [E1 E2].
  destruct (constraint_columns fc) as [|c cc] eqn:Ecc; [discriminate|]. cbn [forallb] in E2.
  apply andb_prop in E2. destruct E2 as [E2 _].
  assert (Hd : In c (tg_deleted ft t2)).
  { unfold mem_str in E2. apply existsb_exists in E2. destruct E2 as [y [Hy Ey]]. apply String.eqb_eq in Ey. now subst. }
  specialize (Hm c Hd). unfold mentions in Hm. rewrite Ecc in Hm. apply orb_false_elim in Hm.
  destruct Hm as [Hm _]. unfold mem_str in Hm. cbn [existsb] in Hm. now rewrite String.eqb_refl in Hm.
Qed.

Lemma attr_in_group_tc name b tn a : In a (table_group name b tn) -> is_attr_action a = true ->
  bt_mem (attr_col a) (tg_cols tn) = true.
Proof.
  intros Ha Hk. apply group_kind_block in Ha.
  assert (Hcol : forall f, In a (tg_common b tn f) ->
            (forall k fd td, In a (f k fd td) -> attr_col a = k) -> bt_mem (attr_col a) (tg_cols tn) = true).
  { intros f Hin Hf. apply common_in in Hin. destruct Hin as (k & fd & td & Htd & _ & Hin).
    rewrite (Hf _ _ _ Hin). unfold bt_mem. now rewrite Htd. }
  destruct a; try discriminate; cbn [kind] in Ha; apply (Hcol _ Ha); intros k fd td Hin.
  - apply f_type_in in Hin. destruct Hin as [_ Hin]. now inversion Hin.
  - apply f_nullable_in in Hin. destruct Hin as [_ Hin]. now inversion Hin.
  - apply f_default_in in Hin. destruct Hin as [_ Hin]. now inversion Hin.
  - apply f_comment_in in Hin. destruct Hin as [_ Hin]. now inversion Hin.
Qed.

Lemma change_action_kind b tn a : is_change_action b tn a = true -> is_change_kind a = true.
Proof. destruct a; cbn [is_change_action is_change_kind]; auto. Qed.

Lemma in_deleted_names x L : In x (deleted_names L) <-> exists n, In (DeleteColumn n x) L.
Proof.
  unfold deleted_names. rewrite in_flat_map. split.
  - intros [a [Ha Hx]]. destruct a; try (now destruct Hx). destruct Hx as [<-|[]]. eauto.
  - intros [n H]. exists (DeleteColumn n x). split; [exact H|now left].
Qed.

(* ---------- the whole group, in any order ---------- *)
Theorem change_fold b tn L :
  normalize b = Ok b -> change_only b tn = true -> Permutation L (table_group (t_name b) b tn) ->
  exists b', proj_all (Some b) L = Ok (Some b') /\ t_name b' = t_name b
             /\ normalize b' = Ok b' /\ table_equiv b' tn.
Proof.
  intros Hfix Hch HP. unfold change_only in Hch.
  destruct (table_group (t_name b) b tn) as [|a0 g0] eqn:EG.
  - apply Permutation_sym, Permutation_nil in HP. subst L. exists b.
    split; [reflexivity|split; [reflexivity|split; [exact Hfix|]]].
    now apply (table_group_nil_inv (t_name b)).
  - rewrite <- EG in *. clear a0 g0 EG.
    apply andb_prop in Hch. destruct Hch as [Hch Hok].
    apply andb_prop in Hch. destruct Hch as [Hch Hdef].
    apply andb_prop in Hch. destruct Hch as [Hch Hnb].
    rewrite forallb_forall in Hch, Hdef, Hok. apply nodup_str_NoDup' in Hnb.
    set (G := table_group (t_name b) b tn) in *.
    set (allowed := t_constraints b ++ t_constraints tn) in *.
    assert (HL : forall a, In a L <-> In a G).
    { intro a. split; apply Permutation_in; [exact HP|now apply Permutation_sym]. }
    assert (HkL : forall a, In a L -> is_change_kind a = true)
      by (intros a Ha; eapply change_action_kind, Hch, HL, Ha).
    (* per deleted column *)
    assert (Hdel : forall x, In x (tg_deleted b tn) ->
              plain_at x (t_columns b) /\ forall k, In k allowed -> mentions x k = false).
    { intros x Hx. pose proof (Hch _ (group_dels (t_name b) b tn x Hx)) as H. cbn [is_change_action] in H.
      apply andb_prop in H. destruct H as [H1 H2]. rewrite forallb_forall in H1, H2. split.
      - intros c Hc Hn. specialize (H1 c Hc). rewrite Hn, String.eqb_refl in H1. exact H1.
      - intros k Hk. specialize (H2 k Hk). now apply negb_true_iff in H2. }
    assert (HdL : forall x, In x (deleted_names L) -> In x (tg_deleted b tn)).
    { intros x Hx. apply in_deleted_names in Hx. destruct Hx as [n Hx]. apply HL, del_in_group in Hx. tauto. }
    assert (Hv : valid2 allowed L b).
    { constructor.
      - exact HkL.
      - intros a Ha Hattr. split; [apply (attr_in_group_col (t_name b) b tn); [apply HL, Ha|exact Hattr]|].
        intro Hd. apply HdL, tg_deleted_in in Hd. destruct Hd as [c [_ Hm]].
        rewrite (attr_in_group_tc (t_name b) b tn a (proj1 (HL a) Ha) Hattr) in Hm. discriminate.
      - eapply Permutation_NoDup; [|apply (added_names_group (t_name b) b tn)].
        unfold added_names. apply Permutation_flat_map, Permutation_sym, HP.
      - intros x Hx Hin. unfold added_names in Hx. apply in_flat_map in Hx.
        destruct Hx as [a [Ha Hx]]. destruct a; try (now destruct Hx). destruct Hx as [<-|[]].
        apply HL, added_in_group in Ha. destruct Ha as (_ & Hm & _).
        apply bt_mem_false in Hm. apply Hm. unfold tg_cols. rewrite bt_keys_of_list, map_map. exact Hin.
      - apply (Permutation_NoDup (l := deleted_names G)).
        + unfold deleted_names. apply Permutation_flat_map, Permutation_sym, HP.
        + unfold G. rewrite deleted_names_group. apply tg_deleted_nodup.
      - intros x Hx. apply HdL in Hx. split; [|apply (Hdel x Hx)].
        apply tg_deleted_in in Hx. destruct Hx as [c [Hg _]]. apply tg_cols_get in Hg.
        destruct Hg as [Hin <-]. unfold colnames. now apply in_map.
      - intros x k Hx Hk. apply HdL in Hx. now apply (Hdel x Hx).
      - intros n k Hin. apply HL, addc_in_group in Hin. unfold allowed. apply in_or_app. now right.
      - intros n k Hin. apply HL in Hin. exact (Hch _ Hin). }
    assert (Hincl : incl (t_constraints b) allowed) by (intros k Hk; unfold allowed; apply in_or_app; now left).
    destruct (proj_all_change allowed Hok L b Hv Hnb Hfix Hincl) as (P1 & P2 & P3).
    exists (sem2 L b). split; [exact P1|split; [exact P3|split; [exact P2|]]].
    assert (Hadd_tc : forall n c f, In (AddColumn n c f) L ->
              bt_get (c_name c) (tg_cols tn) = Some c /\ bt_mem (c_name c) (tg_cols b) = false).
    { intros n c f Hin. apply HL, added_in_group in Hin. tauto. }
    assert (Hdel_fc : forall n x, In (DeleteColumn n x) L ->
              (exists c, bt_get x (tg_cols b) = Some c) /\ bt_mem x (tg_cols tn) = false).
    { intros n x Hin. apply HL, del_in_group in Hin. destruct Hin as [_ Hin].
      apply tg_deleted_in in Hin. destruct Hin as [c [H1 H2]]. eauto. }
    assert (Hnoadd : forall k, bt_mem k (tg_cols b) = true \/ bt_get k (tg_cols tn) = None ->
              forall a, In a L -> adds_named k a = false).
    { intros k Hk a Ha. destruct (adds_named k a) eqn:Ea; [|reflexivity]. exfalso.
      destruct a; try discriminate. cbn [adds_named] in Ea. apply String.eqb_eq in Ea.
      destruct (Hadd_tc _ _ _ Ha) as [H1 H2]. rewrite <- Ea in H1, H2. destruct Hk as [Hk|Hk]; congruence. }
    assert (Hnodel : forall k, bt_get k (tg_cols b) = None \/ bt_mem k (tg_cols tn) = true ->
              forall a, In a L -> deletes_named k a = false).
    { intros k Hk a Ha. destruct (deletes_named k a) eqn:Ea; [|reflexivity]. exfalso.
      destruct a; try discriminate. cbn [deletes_named] in Ea. apply String.eqb_eq in Ea.
      destruct (Hdel_fc _ _ Ha) as [[c H1] H2]. rewrite <- Ea in H1, H2. destruct Hk as [Hk|Hk]; congruence. }
    split; [|split].
    + (* columns *)
      intro k. rewrite (col_named_sem2 k L b HkL), !col_named_tg.
      destruct (bt_get k (tg_cols b)) as [c|] eqn:Ec, (bt_get k (tg_cols tn)) as [td|] eqn:Et.
      * assert (Hmb : bt_mem k (tg_cols b) = true) by (unfold bt_mem; now rewrite Ec).
        assert (Hmt : bt_mem k (tg_cols tn) = true) by (unfold bt_mem; now rewrite Et).
        rewrite (cfold2_common k L c).
        2:{ intros a Ha. split; [apply (Hnoadd k); auto|apply (Hnodel k); auto]. }
        cbn [opt_rel]. apply (upd_col_equiv (t_name b) b tn L HL k c td Ec Et).
        apply Hdef. now apply (tg_cols_get k td tn).
      * assert (Hmt : bt_mem k (tg_cols tn) = false) by (unfold bt_mem; now rewrite Et).
        rewrite (cfold2_deleted k L (Some c)); [exact I| |].
        -- exists (t_name b). apply HL, group_dels, tg_deleted_in. eauto.
        -- apply (Hnoadd k). now right.
      * assert (Hm : bt_mem k (tg_cols b) = false) by (unfold bt_mem; now rewrite Ec).
        destruct (tg_cols_get k td tn Et) as [_ Hk].
        rewrite (cfold2_added k td Hk L HkL).
        -- cbn [opt_rel]. apply col_equiv_refl.
        -- exists (t_name b), None. apply HL. now apply (group_adds _ _ _ k).
        -- intros n c' f Hin Hc'. destruct (Hadd_tc _ _ _ Hin) as [Hg' _].
           rewrite Hc', Et in Hg'. now inversion Hg'.
        -- intros a Ha Hattr E. apply HL in Ha.
           pose proof (attr_in_group_col _ _ _ _ Ha Hattr) as Hin. rewrite E in Hin.
           apply bt_mem_false in Hm. apply Hm. unfold tg_cols. rewrite bt_keys_of_list, map_map. exact Hin.
        -- apply (Hnodel k). now left.
      * rewrite (cfold2_none k L); [exact I|]. apply (Hnoadd k). now right.
    + (* constraints of the result are constraints of the target *)
      assert (Hdis : forall n k0, In (AddConstraint n k0) L -> removed_in L k0 = false).
      { intros n k0 Hin. destruct (removed_in L k0) eqn:E; [|reflexivity]. exfalso.
        unfold removed_in in E. apply existsb_exists in E. destruct E as [a [Ha Er]].
        destruct a; try discriminate. cbn [removes] in Er. apply constraint_eqb_eq in Er. subst constraint.
        apply HL, rem_in_group in Ha. destruct Ha as [_ Hc].
        apply HL, addc_in_group in Hin. rewrite (contains_constraint_in _ _ Hin) in Hc. discriminate. }
      intros k Hk. apply (cs_sem2 k L b Hdis) in Hk. destruct Hk as [[Hk Hnr]|[n Hk]].
      * destruct (contains_constraint k (t_constraints tn)) eqn:E; [now apply contains_constraint_true|].
        exfalso. assert (Hr : In (RemoveConstraint (t_name b) k) L).
        { apply HL, group_rems; [exact Hk|exact E|]. intros x Hx. apply (Hdel x Hx). now apply Hincl. }
        assert (Et : removed_in L k = true).
        { unfold removed_in. apply existsb_exists. exists (RemoveConstraint (t_name b) k).
          split; [exact Hr|]. cbn [removes]. now apply constraint_eqb_eq. }
        congruence.
      * apply HL in Hk. eapply addc_in_group; exact Hk.
    + (* and conversely *)
      assert (Hdis : forall n k0, In (AddConstraint n k0) L -> removed_in L k0 = false).
      { intros n k0 Hin. destruct (removed_in L k0) eqn:E; [|reflexivity]. exfalso.
        unfold removed_in in E. apply existsb_exists in E. destruct E as [a [Ha Er]].
        destruct a; try discriminate. cbn [removes] in Er. apply constraint_eqb_eq in Er. subst constraint.
        apply HL, rem_in_group in Ha. destruct Ha as [_ Hc].
        apply HL, addc_in_group in Hin. rewrite (contains_constraint_in _ _ Hin) in Hc. discriminate. }
      intros tc Htc. apply (cs_sem2 tc L b Hdis).
      destruct (contains_constraint tc (t_constraints b)) eqn:E.
      * left. split; [now apply contains_constraint_true|].
        destruct (removed_in L tc) eqn:Er; [|reflexivity]. exfalso.
        unfold removed_in in Er. apply existsb_exists in Er. destruct Er as [a [Ha Er]].
        destruct a; try discriminate. cbn [removes] in Er. apply constraint_eqb_eq in Er. subst constraint.
        apply HL, rem_in_group in Ha. destruct Ha as [_ Hc].
        rewrite (contains_constraint_in _ _ Htc) in Hc. discriminate.
      * right. exists (t_name b). apply HL. now apply group_addc.
Qed.
