(* Lemmas about inline groups used by the fifth rung (CoreP.v):
   every group has a declaring member; RemoveConstraint under col_safe_b; DeleteColumn of a column with
   private inline keys together with the constraints over that column alone.  Original header:
   One table, one group, fifth rung: the earlier rungs mixed in one group — attribute changes, added
   constraints, added columns with private inline declarations, dropped plain unmentioned columns, and
   removed constraints that no column's inline declaration depends on.  Any order. *)
From VV.M1 Require Import Oracles Hyp NormalizeP BtP SortP DiffP DiffEqP KahnP ApplyLocalP DiffPermP AttrsP GrowP ChangeP InlineP.
From Coq Require Import Lia Permutation.

(* ---------- every group has a declaring member ---------- *)
Definition declared (keys : column_def -> list string) (pre : list column_def) (g : group) : Prop :=
  exists col, In col pre /\ In (fst g) (keys col) /\ In (c_name col) (snd g).

Lemma group_add_inv key col g : forall gs, In g (group_add key col gs) ->
  (exists g0, In g0 gs /\ fst g0 = fst g /\ incl (snd g0) (snd g)) \/ (fst g = key /\ In col (snd g)).
Proof.
  induction gs as [|[k l] r IH]; cbn [group_add]; intro H.
  - destruct H as [<-|[]]. right. cbn. auto.
  - destruct (String.eqb k key) eqn:E.
    + destruct H as [<-|H].
      * right. apply String.eqb_eq in E. cbn [fst snd]. split; [exact E|apply in_or_app; right; now left].
      * left. exists g. split; [now right|split; [reflexivity|apply incl_refl]].
    + destruct H as [<-|H].
      * left. exists (k, l). split; [now left|split; [reflexivity|apply incl_refl]].
      * destruct (IH H) as [[g0 [H0 [H1 H2]]]|H']; [left; exists g0; split; [now right|auto]|now right].
Qed.

Lemma declared_mono keys pre pre' g0 g : declared keys pre g0 -> incl pre pre' ->
  fst g0 = fst g -> incl (snd g0) (snd g) -> declared keys pre' g.
Proof. intros [col [H1 [H2 H3]]] Hi E Hs. exists col. rewrite <- E. auto. Qed.

Lemma fold_add_decl (keys : column_def -> list string) pre c : forall names gs,
  incl names (keys c) -> In c pre ->
  (forall g, In g gs -> declared keys pre g) ->
  forall g, In g (fold_left (fun g n => group_add n (c_name c) g) names gs) -> declared keys pre g.
Proof.
  induction names as [|n r IH]; intros gs Hi Hc H g Hg; cbn [fold_left] in Hg; [now apply H|].
  eapply IH; [intros x Hx; apply Hi; now right|exact Hc| |exact Hg].
  intros g' Hg'. apply group_add_inv in Hg'. destruct Hg' as [[g0 [H0 [H1 H2]]]|[H1 H2]].
  - eapply declared_mono; [apply H, H0|apply incl_refl|exact H1|exact H2].
  - exists c. split; [exact Hc|]. split; [rewrite H1; apply Hi; now left|exact H2].
Qed.

Lemma unique_step_decl pre c gs : In c pre -> (forall g, In g gs -> declared ukeys pre g) ->
  forall g, In g (unique_groups_step gs c) -> declared ukeys pre g.
Proof.
  intros Hc H g Hg. unfold unique_groups_step in Hg.
  assert (One : forall key, In key (ukeys c) -> In g (group_add key (c_name c) gs) -> declared ukeys pre g).
  { intros key Hk Hg'. apply (fold_add_decl ukeys pre c [key] gs); auto. intros x [<-|[]]. exact Hk. }
  unfold ukeys, sba_keys in One. unfold ukeys at 1.
  destruct (c_unique c) as [[n|l|[|]]|] eqn:E; try (now apply H).
  - apply (One n); [now left|exact Hg].
  - apply (fold_add_decl ukeys pre c l gs); auto. unfold ukeys, sba_keys. rewrite E. apply incl_refl.
  - apply (One (auto_key (c_name c))); [now left|exact Hg].
Qed.

Lemma unique_groups_decl cols : forall g, In g (unique_groups cols) -> declared ukeys cols g.
Proof.
  unfold unique_groups.
  assert (G : forall cols pre acc, (forall g, In g acc -> declared ukeys pre g) ->
            forall g, In g (fold_left unique_groups_step cols acc) -> declared ukeys (pre ++ cols) g).
  { clear cols. induction cols as [|c r IH]; intros pre acc H g Hg; cbn [fold_left] in Hg.
    - rewrite app_nil_r. now apply H.
    - replace (pre ++ c :: r) with ((pre ++ [c]) ++ r) by now rewrite <- app_assoc.
      eapply IH; [|exact Hg]. apply unique_step_decl; [apply in_or_app; right; now left|].
      intros g' Hg'. destruct (H g' Hg') as [col [H1 H2]]. exists col. split; [apply in_or_app; now left|exact H2]. }
  intros g Hg. apply (G cols [] []); [intros g' []|exact Hg].
Qed.

Lemma index_array_decl pre c : forall names seen gs gs', incl names (ikeys c) -> In c pre ->
  index_array (c_name c) names seen gs = Ok gs' ->
  (forall g, In g gs -> declared ikeys pre g) -> forall g, In g gs' -> declared ikeys pre g.
Proof.
  induction names as [|n r IH]; intros seen gs gs' Hi Hc H Hd g Hg; cbn [index_array] in H.
  - inversion H; subst. now apply Hd.
  - destruct (mem_str n seen); [discriminate|]. destruct (tracked n (c_name c) gs); [discriminate|].
    eapply IH; [intros x Hx; apply Hi; now right|exact Hc|exact H| |exact Hg].
    intros g' Hg'. apply group_add_inv in Hg'. destruct Hg' as [[g0 [H0 [H1 H2]]]|[H1 H2]].
    + eapply declared_mono; [apply Hd, H0|apply incl_refl|exact H1|exact H2].
    + exists c. split; [exact Hc|]. split; [rewrite H1; apply Hi; now left|exact H2].
Qed.
Lemma index_step_decl pre c gs gs' : In c pre -> index_groups_step gs c = Ok gs' ->
  (forall g, In g gs -> declared ikeys pre g) -> forall g, In g gs' -> declared ikeys pre g.
Proof.
  intros Hc H Hd g Hg. unfold index_groups_step in H.
  assert (One : forall key, In key (ikeys c) -> In g (group_add key (c_name c) gs) -> declared ikeys pre g).
  { intros key Hk Hg'. apply group_add_inv in Hg'. destruct Hg' as [[g0 [H0 [H1 H2]]]|[H1 H2]].
    - eapply declared_mono; [apply Hd, H0|apply incl_refl|exact H1|exact H2].
    - exists c. split; [exact Hc|]. split; [now rewrite H1|exact H2]. }
  unfold ikeys, sba_keys in One.
  destruct (c_index c) as [[n|l|[|]]|] eqn:E; try (inversion H; subst; now apply Hd).
  - destruct (tracked n (c_name c) gs); [discriminate|]. inversion H; subst. apply (One n); [now left|exact Hg].
  - eapply (index_array_decl pre c l [] gs gs'); eauto. unfold ikeys, sba_keys. rewrite E. apply incl_refl.
  - destruct (tracked _ (c_name c) gs); [discriminate|]. inversion H; subst.
    apply (One (auto_key (c_name c))); [now left|exact Hg].
Qed.
Lemma index_groups_decl cols gs : index_groups cols [] = Ok gs -> forall g, In g gs -> declared ikeys cols g.
Proof.
  assert (G : forall cols pre acc gs, index_groups cols acc = Ok gs ->
            (forall g, In g acc -> declared ikeys pre g) ->
            forall g, In g gs -> declared ikeys (pre ++ cols) g).
  { clear cols gs. induction cols as [|c r IH]; intros pre acc gs H Hd g Hg; cbn [index_groups] in H.
    - inversion H; subst. rewrite app_nil_r. now apply Hd.
    - destruct (index_groups_step acc c) as [acc'|e] eqn:E; [|discriminate].
      replace (pre ++ c :: r) with ((pre ++ [c]) ++ r) by now rewrite <- app_assoc.
      eapply IH; [exact H| |exact Hg].
      eapply index_step_decl; [apply in_or_app; right; now left|exact E|].
      intros g' Hg'. destruct (Hd g' Hg') as [col [H1 H2]]. exists col. split; [apply in_or_app; now left|exact H2]. }
  intros H g Hg. apply (G cols [] [] gs H); [intros g' []|exact Hg].
Qed.

(* ---------- RemoveConstraint under col_safe_b ---------- *)
Lemma modify_first_cond p (f : column_def -> column_def) : forall cols,
  (forall c, In c cols -> p c = true -> f c = c) -> modify_first p f cols = cols.
Proof.
  induction cols as [|c r IH]; intro H; cbn [modify_first]; [reflexivity|].
  destruct (p c) eqn:E; [now rewrite (H c (or_introl eq_refl) E)|].
  f_equal. apply IH. intros x Hx. apply H. now right.
Qed.
Lemma fold_modify_first_cond (f : column_def -> column_def) cols : forall names,
  (forall x c, In x names -> In c cols -> named x c = true -> f c = c) ->
  fold_left (fun cs x => modify_first (named x) f cs) names cols = cols.
Proof.
  induction names as [|x r IH]; intro H; cbn [fold_left]; [reflexivity|].
  rewrite (modify_first_cond (named x) f cols); [apply IH|]; intros; eapply H; eauto; [now right|now left].
Qed.
Lemma set_unique_same c u : c_unique c = u -> set_unique u c = c.
Proof. destruct c. cbn. now intros ->. Qed.
Lemma filter_neq_id cn : forall names, ~ In cn names ->
  filter (fun n => negb (String.eqb n cn)) names = names.
Proof.
  induction names as [|n r IH]; intro H; cbn [filter]; [reflexivity|].
  assert (E : String.eqb n cn = false) by (apply String.eqb_neq; intro; apply H; now left).
  rewrite E. cbn [negb]. f_equal. apply IH. intro; apply H; now right.
Qed.
Lemma named_eq x c : named x c = true -> c_name c = x.
Proof. unfold named. apply String.eqb_eq. Qed.

Lemma clear_inline_safe table k cols :
  (forall col, In col cols -> col_safe_b table col k = true) -> clear_inline table k cols = cols.
Proof.
  intro Hs. destruct k; cbn [clear_inline].
  - apply fold_modify_first_cond. intros x c _ Hc _. specialize (Hs c Hc). cbn [col_safe_b] in Hs.
    apply set_pk_none_id. now apply is_none_eq.
  - assert (H1 : match name, columns with
                 | None, [x] => modify_first (named x) (set_unique None) cols
                 | _, _ => cols
                 end = cols).
    { destruct name; [reflexivity|]. destruct columns as [|x [|y r]]; try reflexivity.
      apply modify_first_cond. intros c Hc Hn. specialize (Hs c Hc). cbn [col_safe_b] in Hs.
      apply orb_true_iff in Hs. destruct Hs as [Hs|Hs]; [apply set_unique_none_id; now apply is_none_eq|].
      rewrite !andb_true_iff in Hs. destruct Hs as [[Hs _] _]. apply negb_true_iff, mem_str_false in Hs.
      exfalso. apply Hs. left. symmetry. now apply named_eq. }
    rewrite H1. destruct name as [cn|]; [|reflexivity].
    apply map_id_on. intros c Hc. specialize (Hs c Hc). cbn [col_safe_b] in Hs.
    unfold clear_unique_named. apply orb_true_iff in Hs. destruct Hs as [Hs|Hs].
    + now rewrite (is_none_eq _ Hs).
    + rewrite !andb_true_iff in Hs. destruct Hs as [[_ Hk] He]. apply negb_true_iff, mem_str_false in Hk.
      unfold ukeys, sba_keys in Hk. destruct (c_unique c) as [[n|l|b0]|] eqn:Eu; try reflexivity.
      * assert (E : String.eqb n cn = false) by (apply String.eqb_neq; intro; apply Hk; now left). now rewrite E.
      * rewrite (filter_neq_id cn l Hk). destruct l; [discriminate|]. now apply set_unique_same.
  - apply fold_modify_first_cond. intros x c Hx Hc Hn. specialize (Hs c Hc). cbn [col_safe_b] in Hs.
    apply orb_true_iff in Hs. destruct Hs as [Hs|Hs]; [apply set_fk_none_id; now apply is_none_eq|].
    apply negb_true_iff, mem_str_false in Hs. exfalso. apply Hs. now rewrite (named_eq _ _ Hn).
  - reflexivity.
  - assert (H0 : clear_index_auto table name cols = cols).
    { clear - Hs. induction cols as [|c r IH]; cbn [clear_index_auto]; [reflexivity|].
      destruct (dec_b (option_eq_dec string_dec) name (Some (build_index_name table [c_name c] None))) eqn:E.
      - specialize (Hs c (or_introl eq_refl)). cbn [col_safe_b] in Hs. apply orb_true_iff in Hs.
        destruct Hs as [Hs|Hs]; [now rewrite (set_index_none_id c (is_none_eq _ Hs))|].
        rewrite !andb_true_iff in Hs. destruct Hs as [_ Hs]. unfold opt_str_eqb in Hs. rewrite E in Hs. discriminate.
      - f_equal. apply IH. intros col Hc. apply Hs. now right. }
    rewrite H0.
    assert (H1 : match name, columns with
                 | None, [x] => modify_first (named x) (set_index None) cols
                 | _, _ => cols
                 end = cols).
    { destruct name; [reflexivity|]. destruct columns as [|x [|y r]]; try reflexivity.
      apply modify_first_cond. intros c Hc Hn. specialize (Hs c Hc). cbn [col_safe_b] in Hs.
      apply orb_true_iff in Hs. destruct Hs as [Hs|Hs]; [apply set_index_none_id; now apply is_none_eq|].
      rewrite !andb_true_iff in Hs. destruct Hs as [[[Hs _] _] _]. apply negb_true_iff, mem_str_false in Hs.
      exfalso. apply Hs. left. symmetry. now apply named_eq. }
    rewrite H1. destruct name as [cn|]; [|reflexivity].
    apply map_id_on. intros c Hc. specialize (Hs c Hc). cbn [col_safe_b] in Hs.
    unfold clear_index_named. apply orb_true_iff in Hs. destruct Hs as [Hs|Hs].
    + now rewrite (is_none_eq _ Hs).
    + rewrite !andb_true_iff in Hs. destruct Hs as [[[_ Hk] He] _]. apply negb_true_iff, mem_str_false in Hk.
      unfold ikeys, sba_keys in Hk. destruct (c_index c) as [[n|l|b0]|] eqn:Eu; try reflexivity.
      * assert (E : String.eqb n cn = false) by (apply String.eqb_neq; intro; apply Hk; now left). now rewrite E.
      * rewrite (filter_neq_id cn l Hk). destruct l; [discriminate|]. now rewrite Nat.ltb_irrefl.
Qed.

Lemma name_match_decl key n members cols' :
  name_match (group_name key) n members cols' = true ->
  (n = Some key) \/ (n = None /\ cols' = members).
Proof.
  unfold name_match, group_name. destruct (starts_with "__auto_" key).
  - destruct n; [discriminate|]. intro H. right. split; [reflexivity|now apply dec_b_true in H].
  - destruct n as [n2|]; [|discriminate]. intro H. apply String.eqb_eq in H. left. now subst.
Qed.

Lemma normalize_constraints_remove_safe table cols cs k :
  (forall col, In col cols -> col_safe_b table col k = true) ->
  normalize_constraints cols cs = Ok cs ->
  normalize_constraints cols (filter (keep_not k) cs) = Ok (filter (keep_not k) cs).
Proof.
  intros Hs H. apply fix_covers_elim in H. destruct H as (C1 & C2 & C3 & gs & Eg & C4).
  apply fix_covers_intro.
  assert (Kne : forall (h : table_constraint -> bool),
            (h k = false) -> forall x, h x = true -> keep_not k x = true).
  { intros h Hk x Hx. unfold keep_not, constraint_eqb, dec_b. destruct (constraint_eq_dec x k); [subst; congruence|reflexivity]. }
  split; [|split; [|split]].
  - intro Hne. destruct k; try (apply existsb_filter_keep; [now apply C1|apply Kne; reflexivity]).
    exfalso. apply Hne. apply no_inline_pk. apply forallb_forall. intros c Hc. exact (Hs c Hc).
  - intros g Hg. apply existsb_filter_keep; [now apply C2|]. apply Kne.
    destruct k; try reflexivity. cbn [unique_hit].
    destruct (name_match (group_name (fst g)) name (snd g) columns) eqn:E; [|reflexivity]. exfalso.
    destruct (unique_groups_decl cols g Hg) as [col [Hc [Hk Hm]]].
    specialize (Hs col Hc). cbn [col_safe_b] in Hs. apply orb_true_iff in Hs. destruct Hs as [Hs|Hs].
    + apply is_none_eq in Hs. unfold ukeys, sba_keys in Hk. rewrite Hs in Hk. destruct Hk.
    + rewrite !andb_true_iff in Hs. destruct Hs as [[H1 H2] _].
      apply name_match_decl in E. destruct E as [->|[-> ->]].
      * apply negb_true_iff, mem_str_false in H2. now apply H2.
      * apply negb_true_iff, mem_str_false in H1. now apply H1.
  - intros c f Hin Hf. destruct (C3 c f Hin Hf) as [Hp Hc]. split; [exact Hp|].
    apply existsb_filter_keep; [exact Hc|]. apply Kne. destruct k; try reflexivity. cbn [fk_hit].
    destruct columns as [|x [|y r]]; try reflexivity.
    destruct (String.eqb x (c_name c)) eqn:E; [|reflexivity]. exfalso. apply String.eqb_eq in E.
    specialize (Hs c Hin). cbn [col_safe_b] in Hs. rewrite Hf in Hs. cbn [is_none orb] in Hs.
    apply negb_true_iff, mem_str_false in Hs. apply Hs. now left.
  - exists gs. split; [exact Eg|]. intros g Hg. apply existsb_filter_keep; [now apply C4|]. apply Kne.
    destruct k; try reflexivity. cbn [index_hit].
    destruct (name_match (group_name (fst g)) name (snd g) columns) eqn:E; [|reflexivity]. exfalso.
    destruct (index_groups_decl cols gs Eg g Hg) as [col [Hc [Hk Hm]]].
    specialize (Hs col Hc). cbn [col_safe_b] in Hs. apply orb_true_iff in Hs. destruct Hs as [Hs|Hs].
    + apply is_none_eq in Hs. unfold ikeys, sba_keys in Hk. rewrite Hs in Hk. destruct Hk.
    + rewrite !andb_true_iff in Hs. destruct Hs as [[[H1 H2] _] _].
      apply name_match_decl in E. destruct E as [->|[-> ->]].
      * apply negb_true_iff, mem_str_false in H2. now apply H2.
      * apply negb_true_iff, mem_str_false in H1. now apply H1.
Qed.


(* ---------- groups after dropping a column whose keys are private ---------- *)
Definition keyF (XK : list string) (g : group) : bool := negb (mem_str (fst g) XK).

Lemma filter_group_add_other XK key col : ~ In key XK -> forall gs,
  filter (keyF XK) (group_add key col gs) = group_add key col (filter (keyF XK) gs).
Proof.
  intro Hk. assert (Ek : forall l, keyF XK (key, l) = true).
  { intro l. unfold keyF. cbn [fst]. apply negb_true_iff. now apply mem_str_false. }
  induction gs as [|[k l] r IH]; cbn [group_add filter].
  - now rewrite Ek.
  - destruct (String.eqb k key) eqn:E.
    + apply String.eqb_eq in E. subst k. cbn [filter]. rewrite !Ek. cbn [group_add]. now rewrite String.eqb_refl.
    + cbn [filter]. destruct (keyF XK (k, l)); [cbn [group_add]; now rewrite E, IH|exact IH].
Qed.
Lemma filter_group_add_in XK key col : In key XK -> forall gs,
  filter (keyF XK) (group_add key col gs) = filter (keyF XK) gs.
Proof.
  intro Hk. assert (Ek : forall l, keyF XK (key, l) = false).
  { intro l. unfold keyF. cbn [fst]. apply negb_false_iff. now apply mem_str_In. }
  induction gs as [|[k l] r IH]; cbn [group_add filter].
  - now rewrite Ek.
  - destruct (String.eqb k key) eqn:E.
    + apply String.eqb_eq in E. subst k. cbn [filter]. now rewrite !Ek.
    + cbn [filter]. destruct (keyF XK (k, l)); [now rewrite IH|exact IH].
Qed.
Lemma filter_fold_add_other XK col : forall names gs, (forall n, In n names -> ~ In n XK) ->
  filter (keyF XK) (fold_left (fun g n => group_add n col g) names gs)
  = fold_left (fun g n => group_add n col g) names (filter (keyF XK) gs).
Proof.
  induction names as [|n r IH]; intros gs H; cbn [fold_left]; [reflexivity|].
  rewrite IH by (intros m Hm; apply H; now right).
  now rewrite filter_group_add_other by (apply H; now left).
Qed.
Lemma filter_fold_add_in XK col : forall names gs, (forall n, In n names -> In n XK) ->
  filter (keyF XK) (fold_left (fun g n => group_add n col g) names gs) = filter (keyF XK) gs.
Proof.
  induction names as [|n r IH]; intros gs H; cbn [fold_left]; [reflexivity|].
  rewrite IH by (intros m Hm; apply H; now right).
  now rewrite filter_group_add_in by (apply H; now left).
Qed.

Lemma unique_step_F_other XK gs c : (forall key, In key (ukeys c) -> ~ In key XK) ->
  filter (keyF XK) (unique_groups_step gs c) = unique_groups_step (filter (keyF XK) gs) c.
Proof.
  unfold ukeys, sba_keys, unique_groups_step. intro H.
  destruct (c_unique c) as [[n|l|[|]]|]; try reflexivity.
  - apply filter_group_add_other, H. now left.
  - now apply filter_fold_add_other.
  - apply filter_group_add_other, H. now left.
Qed.
Lemma unique_step_F_in XK gs c : (forall key, In key (ukeys c) -> In key XK) ->
  filter (keyF XK) (unique_groups_step gs c) = filter (keyF XK) gs.
Proof.
  unfold ukeys, sba_keys, unique_groups_step. intro H.
  destruct (c_unique c) as [[n|l|[|]]|]; try reflexivity.
  - apply filter_group_add_in, H. now left.
  - now apply filter_fold_add_in.
  - apply filter_group_add_in, H. now left.
Qed.

Lemma unique_groups_filter x XK : forall cols acc,
  (forall col, In col cols ->
     (c_name col = x -> forall key, In key (ukeys col) -> In key XK)
     /\ (c_name col <> x -> forall key, In key (ukeys col) -> ~ In key XK)) ->
  fold_left unique_groups_step (filter (not_named x) cols) (filter (keyF XK) acc)
  = filter (keyF XK) (fold_left unique_groups_step cols acc).
Proof.
  induction cols as [|c r IH]; intros acc H; cbn [filter fold_left]; [reflexivity|].
  assert (Hr : forall col, In col r -> (c_name col = x -> forall key, In key (ukeys col) -> In key XK)
             /\ (c_name col <> x -> forall key, In key (ukeys col) -> ~ In key XK))
    by (intros col Hc; apply H; now right).
  destruct (H c (or_introl eq_refl)) as [H1 H2].
  destruct (not_named x c) eqn:E; cbn [fold_left].
  - unfold not_named in E. apply negb_true_iff, String.eqb_neq in E.
    rewrite <- (unique_step_F_other XK acc c (H2 E)). now apply IH.
  - apply not_named_false in E. rewrite <- (IH (unique_groups_step acc c) Hr).
    now rewrite (unique_step_F_in XK acc c (H1 E)).
Qed.

Lemma group_get_F XK key : ~ In key XK -> forall gs, group_get key (filter (keyF XK) gs) = group_get key gs.
Proof.
  intro Hk. induction gs as [|[k l] r IH]; cbn [filter group_get]; [reflexivity|].
  unfold keyF at 1. cbn [fst]. destruct (mem_str k XK) eqn:Em; cbn [negb group_get].
  - destruct (String.eqb k key) eqn:E; [|exact IH]. apply String.eqb_eq in E. subst k.
    apply mem_str_In in Em. contradiction.
  - destruct (String.eqb k key); [reflexivity|exact IH].
Qed.
Lemma tracked_F XK key col gs : ~ In key XK -> tracked key col (filter (keyF XK) gs) = tracked key col gs.
Proof. intro H. unfold tracked. now rewrite group_get_F. Qed.

Lemma index_array_F_other XK col : forall names seen gs gs', (forall n, In n names -> ~ In n XK) ->
  index_array col names seen gs = Ok gs' ->
  index_array col names seen (filter (keyF XK) gs) = Ok (filter (keyF XK) gs').
Proof.
  induction names as [|n r IH]; intros seen gs gs' H E; cbn [index_array] in *.
  - inversion E; subst. reflexivity.
  - destruct (mem_str n seen); [discriminate|].
    rewrite tracked_F by (apply H; now left). destruct (tracked n col gs); [discriminate|].
    rewrite <- filter_group_add_other by (apply H; now left).
    apply IH; [intros m Hm; apply H; now right|exact E].
Qed.
Lemma index_array_F_in XK col : forall names seen gs gs', (forall n, In n names -> In n XK) ->
  index_array col names seen gs = Ok gs' -> filter (keyF XK) gs' = filter (keyF XK) gs.
Proof.
  induction names as [|n r IH]; intros seen gs gs' H E; cbn [index_array] in *.
  - inversion E; subst. reflexivity.
  - destruct (mem_str n seen); [discriminate|]. destruct (tracked n col gs); [discriminate|].
    rewrite (IH _ _ _ (fun m Hm => H m (or_intror Hm)) E).
    apply filter_group_add_in, H. now left.
Qed.
Lemma index_step_F_other XK gs gs' c : (forall key, In key (ikeys c) -> ~ In key XK) ->
  index_groups_step gs c = Ok gs' ->
  index_groups_step (filter (keyF XK) gs) c = Ok (filter (keyF XK) gs').
Proof.
  unfold ikeys, sba_keys, index_groups_step. intros H E.
  destruct (c_index c) as [[n|l|[|]]|]; try (inversion E; subst; reflexivity).
  - rewrite tracked_F by (apply H; now left). destruct (tracked n (c_name c) gs); [discriminate|].
    inversion E; subst. f_equal. symmetry. apply filter_group_add_other, H. now left.
  - now apply index_array_F_other.
  - rewrite tracked_F by (apply H; now left). destruct (tracked _ (c_name c) gs); [discriminate|].
    inversion E; subst. f_equal. symmetry. apply filter_group_add_other, H. now left.
Qed.
Lemma index_step_F_in XK gs gs' c : (forall key, In key (ikeys c) -> In key XK) ->
  index_groups_step gs c = Ok gs' -> filter (keyF XK) gs' = filter (keyF XK) gs.
Proof.
  unfold ikeys, sba_keys, index_groups_step. intros H E.
  destruct (c_index c) as [[n|l|[|]]|]; try (inversion E; subst; reflexivity).
  - destruct (tracked n (c_name c) gs); [discriminate|]. inversion E; subst.
    apply filter_group_add_in, H. now left.
  - eapply index_array_F_in; eauto.
  - destruct (tracked _ (c_name c) gs); [discriminate|]. inversion E; subst.
    apply filter_group_add_in, H. now left.
Qed.
Lemma index_groups_filter x XK : forall cols acc gs,
  (forall col, In col cols ->
     (c_name col = x -> forall key, In key (ikeys col) -> In key XK)
     /\ (c_name col <> x -> forall key, In key (ikeys col) -> ~ In key XK)) ->
  index_groups cols acc = Ok gs ->
  index_groups (filter (not_named x) cols) (filter (keyF XK) acc) = Ok (filter (keyF XK) gs).
Proof.
  induction cols as [|c r IH]; intros acc gs H E; cbn [filter index_groups] in *.
  - inversion E; subst. reflexivity.
  - destruct (index_groups_step acc c) as [acc'|e] eqn:Es; [|discriminate].
    assert (Hr : forall col, In col r -> (c_name col = x -> forall key, In key (ikeys col) -> In key XK)
               /\ (c_name col <> x -> forall key, In key (ikeys col) -> ~ In key XK))
      by (intros col Hc; apply H; now right).
    destruct (H c (or_introl eq_refl)) as [H1 H2].
    destruct (not_named x c) eqn:En; cbn [index_groups].
    + unfold not_named in En. apply negb_true_iff, String.eqb_neq in En.
      rewrite (index_step_F_other XK acc acc' c (H2 En) Es). now apply IH.
    + apply not_named_false in En. rewrite <- (index_step_F_in XK acc acc' c (H1 En) Es). now apply IH.
Qed.

Lemma pk_drop_none x cols : (forall c, In c cols -> c_name c = x -> c_primary_key c = None) ->
  pk_cols_of (filter (not_named x) cols) = pk_cols_of cols.
Proof.
  unfold pk_cols_of. induction cols as [|c r IH]; intro H; cbn [filter flat_map]; [reflexivity|].
  assert (Hr : forall c0, In c0 r -> c_name c0 = x -> c_primary_key c0 = None) by (intros c0 Hc; apply H; now right).
  destruct (not_named x c) eqn:E; cbn [flat_map]; [now rewrite (IH Hr)|].
  rewrite (H c (or_introl eq_refl) (not_named_false _ _ E)). cbn [app]. now apply IH.
Qed.

(* ---------- drop_column_from_constraints when the mentioning constraints are over x alone ---------- *)
Lemma drop_in_self x : drop_in x [x] = [].
Proof. unfold drop_in. cbn [filter]. now rewrite String.eqb_refl. Qed.
Lemma drop_single x k : constraint_columns k = [x] -> drop_column_from_constraint x k = None /\ mentions x k = true.
Proof.
  intro H. split.
  - destruct k; cbn [constraint_columns] in H; try discriminate; subst; cbn [drop_column_from_constraint];
      rewrite drop_in_self; reflexivity.
  - unfold mentions. rewrite H. unfold mem_str. cbn [existsb]. now rewrite String.eqb_refl.
Qed.
Lemma drop_eq_filter x : forall cs,
  (forall k, In k cs -> (cons_ok k = true /\ mentions x k = false) \/ constraint_columns k = [x]) ->
  drop_column_from_constraints x cs = filter (fun k => negb (mentions x k)) cs.
Proof.
  unfold drop_column_from_constraints. induction cs as [|k r IH]; intro H; cbn [flat_map filter]; [reflexivity|].
  rewrite IH by (intros y Hy; apply H; now right).
  destruct (H k (or_introl eq_refl)) as [[H1 H2]|H1].
  - rewrite (drop_column_from_constraint_id x k H1 H2), H2. reflexivity.
  - destruct (drop_single x k H1) as [-> ->]. reflexivity.
Qed.

Definition single_ok (x : string) (cols : list column_def) (k : table_constraint) : Prop :=
  constraint_columns k = [x] /\ is_pk k = false
  /\ forall n, cname k = Some n -> forall col, In col cols -> c_name col <> x ->
       ~ In n (ukeys col) /\ ~ In n (ikeys col).

(* dropping the column X (private keys, no inline primary key) together with the constraints over it
   alone keeps the normalisation fix-point *)
Lemma normalize_constraints_drop_col cols cs X :
  NoDup (map c_name cols) -> In X cols -> c_primary_key X = None ->
  (forall col, In col cols -> c_name col <> c_name X -> keys_free [col] X) ->
  (forall k, In k cs -> (cons_ok k = true /\ mentions (c_name X) k = false) \/ single_ok (c_name X) cols k) ->
  normalize_constraints cols cs = Ok cs ->
  normalize_constraints (filter (not_named (c_name X)) cols) (filter (fun k => negb (mentions (c_name X) k)) cs)
  = Ok (filter (fun k => negb (mentions (c_name X) k)) cs).
Proof.
  intros Hnd HX Hpk Hpriv Hcls Hfix. set (x := c_name X) in *.
  apply fix_covers_elim in Hfix. destruct Hfix as (C1 & C2 & C3 & gs & Eg & C4).
  apply fix_covers_intro.
  assert (HisX : forall col, In col cols -> c_name col = x -> col = X).
  { intros col Hc Hn. apply (NoDup_map_inj c_name cols); auto. }
  assert (Hcond : forall (keys : column_def -> list string),
            (forall col, In col cols -> c_name col <> x -> forall key, In key (keys X) -> ~ In key (keys col)) ->
            forall col, In col cols ->
              (c_name col = x -> forall key, In key (keys col) -> In key (keys X))
              /\ (c_name col <> x -> forall key, In key (keys col) -> ~ In key (keys X))).
  { intros keys Hk col Hc. split.
    - intros Hn key Hkey. now rewrite <- (HisX col Hc Hn).
    - intros Hn key Hkey Hin. exact (Hk col Hc Hn key Hin Hkey). }
  split; [|split; [|split]].
  - rewrite pk_drop_none by (intros c Hc Hn; now rewrite (HisX c Hc Hn)).
    intro Hne. specialize (C1 Hne). apply existsb_exists in C1. destruct C1 as [h [Hh Hp]].
    apply existsb_exists. exists h. split; [|exact Hp]. apply filter_In. split; [exact Hh|].
    destruct (Hcls h Hh) as [[_ Hm]|[_ [Hs _]]]; [now rewrite Hm|congruence].
  - intros g Hg. unfold unique_groups in Hg.
    pose proof (unique_groups_filter x (ukeys X) cols []
                  (Hcond ukeys (fun col Hc Hn key Hk => proj1 (Hpriv col Hc Hn col (or_introl eq_refl)) key Hk))) as EF.
    cbn [filter] in EF. rewrite EF in Hg. apply filter_In in Hg. destruct Hg as [Hg Hkey].
    unfold keyF in Hkey. apply negb_true_iff, mem_str_false in Hkey.
    fold (unique_groups cols) in Hg. pose proof (C2 g Hg) as Hh. apply existsb_exists in Hh.
    destruct Hh as [h [Hh Hhit]]. apply existsb_exists. exists h. split; [|exact Hhit].
    apply filter_In. split; [exact Hh|].
    destruct (Hcls h Hh) as [[_ Hm]|(Hs1 & Hs2 & Hs3)]; [now rewrite Hm|]. exfalso.
    destruct h; try discriminate. cbn [unique_hit] in Hhit. cbn [constraint_columns] in Hs1. subst columns.
    destruct (unique_groups_decl cols g Hg) as [col [Hc [Hk Hm]]].
    apply name_match_decl in Hhit. destruct Hhit as [->|[-> Hmem]].
    + destruct (string_dec (c_name col) x) as [E|E].
      * apply Hkey. now rewrite <- (HisX col Hc E).
      * destruct (Hs3 (fst g) eq_refl col Hc E) as [H1 _]. now apply H1.
    + rewrite <- Hmem in Hm. destruct Hm as [Hm|[]]. apply Hkey. now rewrite <- (HisX col Hc (eq_sym Hm)).
  - intros c f Hin Hf. apply filter_In in Hin. destruct Hin as [Hin Hn].
    destruct (C3 c f Hin Hf) as [Hp Hc]. split; [exact Hp|].
    apply existsb_exists in Hc. destruct Hc as [h [Hh Hhit]]. apply existsb_exists. exists h. split; [|exact Hhit].
    apply filter_In. split; [exact Hh|].
    destruct (Hcls h Hh) as [[_ Hm]|(Hs1 & _)]; [now rewrite Hm|]. exfalso.
    destruct h; try discriminate. cbn [constraint_columns] in Hs1. subst columns. cbn [fk_hit] in Hhit.
    unfold not_named in Hn. apply String.eqb_eq in Hhit. rewrite Hhit, String.eqb_refl in Hn. discriminate.
  - pose proof (index_groups_filter x (ikeys X) cols [] gs
                  (Hcond ikeys (fun col Hc Hn key Hk => proj2 (Hpriv col Hc Hn col (or_introl eq_refl)) key Hk)) Eg) as EF.
    cbn [filter] in EF. exists (filter (keyF (ikeys X)) gs). split; [exact EF|].
    intros g Hg. apply filter_In in Hg. destruct Hg as [Hg Hkey].
    unfold keyF in Hkey. apply negb_true_iff, mem_str_false in Hkey.
    pose proof (C4 g Hg) as Hh. apply existsb_exists in Hh.
    destruct Hh as [h [Hh Hhit]]. apply existsb_exists. exists h. split; [|exact Hhit].
    apply filter_In. split; [exact Hh|].
    destruct (Hcls h Hh) as [[_ Hm]|(Hs1 & Hs2 & Hs3)]; [now rewrite Hm|]. exfalso.
    destruct h; try discriminate. cbn [index_hit] in Hhit. cbn [constraint_columns] in Hs1. subst columns.
    destruct (index_groups_decl cols gs Eg g Hg) as [col [Hc [Hk Hm]]].
    apply name_match_decl in Hhit. destruct Hhit as [->|[-> Hmem]].
    + destruct (string_dec (c_name col) x) as [E|E].
      * apply Hkey. now rewrite <- (HisX col Hc E).
      * destruct (Hs3 (fst g) eq_refl col Hc E) as [_ H1]. now apply H1.
    + rewrite <- Hmem in Hm. destruct Hm as [Hm|[]]. apply Hkey. now rewrite <- (HisX col Hc (eq_sym Hm)).
Qed.

(* ---------- RemoveConstraint of a foreign key really clears the inline foreign_key fields ---------- *)
Definition clr_of (k : table_constraint) (c : column_def) : column_def :=
  match k with
  | CForeignKey _ columns _ _ _ _ => if mem_str (c_name c) columns then set_fk None c else c
  | _ => c
  end.

Lemma clr_name k c : c_name (clr_of k c) = c_name c.
Proof. destruct k; cbn [clr_of]; try reflexivity. destruct (mem_str _ _); reflexivity. Qed.
Lemma clr_pk k c : c_primary_key (clr_of k c) = c_primary_key c.
Proof. destruct k; cbn [clr_of]; try reflexivity. destruct (mem_str _ _); reflexivity. Qed.
Lemma clr_unique k c : c_unique (clr_of k c) = c_unique c.
Proof. destruct k; cbn [clr_of]; try reflexivity. destruct (mem_str _ _); reflexivity. Qed.
Lemma clr_index k c : c_index (clr_of k c) = c_index c.
Proof. destruct k; cbn [clr_of]; try reflexivity. destruct (mem_str _ _); reflexivity. Qed.
Lemma clr_ukeys k c : ukeys (clr_of k c) = ukeys c.
Proof. unfold ukeys. now rewrite clr_name, clr_unique. Qed.
Lemma clr_ikeys k c : ikeys (clr_of k c) = ikeys c.
Proof. unfold ikeys. now rewrite clr_name, clr_index. Qed.
Lemma clr_fk_cases k c : c_foreign_key (clr_of k c) = c_foreign_key c \/ c_foreign_key (clr_of k c) = None.
Proof. destruct k; cbn [clr_of]; auto. destruct (mem_str _ _); auto. Qed.

Lemma modify_first_map_nodup x (f : column_def -> column_def) : forall cols,
  NoDup (map c_name cols) ->
  modify_first (named x) f cols = map (fun c => if named x c then f c else c) cols.
Proof.
  induction cols as [|c r IH]; intro H; cbn [modify_first map]; [reflexivity|].
  cbn [map] in H. inversion H as [|y l Hy Hnd]; subst y l.
  destruct (named x c) eqn:E.
  - f_equal. symmetry. apply map_id_on. intros z Hz. destruct (named x z) eqn:Ez; [|reflexivity].
    exfalso. apply Hy. rewrite (named_eq _ _ E), <- (named_eq _ _ Ez). now apply in_map.
  - f_equal. now apply IH.
Qed.

Lemma clear_inline_fk table n columns rt rc od ou cols : NoDup (map c_name cols) ->
  clear_inline table (CForeignKey n columns rt rc od ou) cols
  = map (clr_of (CForeignKey n columns rt rc od ou)) cols.
Proof.
  intros Hnd. cbn [clear_inline clr_of].
  assert (G : forall done todo cols0, NoDup (map c_name cols0) ->
            fold_left (fun cs x => modify_first (named x) (set_fk None) cs) todo
              (map (fun c => if mem_str (c_name c) done then set_fk None c else c) cols0)
            = map (fun c => if mem_str (c_name c) (done ++ todo) then set_fk None c else c) cols0).
  { intros done todo. revert done. induction todo as [|x r IH]; intros done cols0 Hn; cbn [fold_left].
    - now rewrite app_nil_r.
    - rewrite modify_first_map_nodup.
      2:{ rewrite map_map. erewrite map_ext; [exact Hn|]. intro c. cbn. now destruct (mem_str _ _). }
      rewrite map_map.
      replace (done ++ x :: r) with ((done ++ [x]) ++ r) by now rewrite <- app_assoc.
      rewrite <- (IH (done ++ [x]) cols0 Hn). f_equal. apply map_ext. intro c.
      unfold named, mem_str. rewrite existsb_app. cbn [existsb].
      destruct (existsb (String.eqb (c_name c)) done) eqn:Ed; cbn [orb].
      + assert (En : c_name (set_fk None c) = c_name c) by reflexivity. rewrite En.
        destruct (String.eqb (c_name c) x); reflexivity.
      + rewrite orb_false_r. destruct (String.eqb (c_name c) x); reflexivity. }
  assert (E0 : map (fun c => if mem_str (c_name c) [] then set_fk None c else c) cols = cols)
    by (apply map_id_on; intros; reflexivity).
  rewrite <- E0 at 1. exact (G [] columns cols Hnd).
Qed.

(* functions of the column list that do not read the foreign_key field *)
Lemma pk_cols_of_clr k cols : pk_cols_of (map (clr_of k) cols) = pk_cols_of cols.
Proof.
  unfold pk_cols_of. induction cols as [|c r IH]; cbn [map flat_map]; [reflexivity|].
  now rewrite IH, clr_pk, clr_name.
Qed.
Lemma unique_groups_clr k cols : unique_groups (map (clr_of k) cols) = unique_groups cols.
Proof.
  unfold unique_groups. generalize (@nil group) as gs.
  induction cols as [|c r IH]; intro gs; cbn [map fold_left]; [reflexivity|].
  rewrite IH. f_equal. unfold unique_groups_step. now rewrite clr_unique, clr_name.
Qed.
Lemma index_groups_clr k cols : forall gs, index_groups (map (clr_of k) cols) gs = index_groups cols gs.
Proof.
  induction cols as [|c r IH]; intro gs; cbn [map index_groups]; [reflexivity|].
  assert (E : index_groups_step gs (clr_of k c) = index_groups_step gs c)
    by (unfold index_groups_step; now rewrite clr_index, clr_name).
  rewrite E. destruct (index_groups_step gs c); [apply IH|reflexivity].
Qed.

Lemma normalize_constraints_remove_fk cols cs k : is_fk k = true ->
  normalize_constraints cols cs = Ok cs ->
  normalize_constraints (map (clr_of k) cols) (filter (keep_not k) cs) = Ok (filter (keep_not k) cs).
Proof.
  intros Hk H. apply fix_covers_elim in H. destruct H as (C1 & C2 & C3 & gs & Eg & C4).
  apply fix_covers_intro.
  assert (Kne : forall (h : table_constraint -> bool),
            (h k = false) -> forall x, h x = true -> keep_not k x = true).
  { intros h Hh x Hx. unfold keep_not, constraint_eqb, dec_b. destruct (constraint_eq_dec x k); [subst; congruence|reflexivity]. }
  destruct k; try discriminate.
  split; [|split; [|split]].
  - rewrite pk_cols_of_clr. intro Hne. apply existsb_filter_keep; [now apply C1|apply Kne; reflexivity].
  - rewrite unique_groups_clr. intros g Hg. apply existsb_filter_keep; [now apply C2|apply Kne; reflexivity].
  - intros c f Hin Hf. apply in_map_iff in Hin. destruct Hin as [c0 [<- Hc0]].
    rewrite clr_name. cbn [clr_of] in Hf.
    destruct (mem_str (c_name c0) columns) eqn:Em; [discriminate|].
    destruct (C3 c0 f Hc0 Hf) as [Hp Hc]. split; [exact Hp|].
    apply existsb_filter_keep; [exact Hc|]. apply Kne. cbn [fk_hit].
    destruct columns as [|x [|y r]]; try reflexivity.
    destruct (String.eqb x (c_name c0)) eqn:E; [|reflexivity]. apply String.eqb_eq in E. subst x.
    unfold mem_str in Em. cbn [existsb] in Em. now rewrite String.eqb_refl in Em.
  - exists gs. split; [now rewrite index_groups_clr|].
    intros g Hg. apply existsb_filter_keep; [now apply C4|apply Kne; reflexivity].
Qed.

Lemma col_safe_clr tb k c k' : col_safe_b tb c k' = true -> col_safe_b tb (clr_of k c) k' = true.
Proof.
  destruct k'; cbn [col_safe_b]; rewrite ?clr_pk, ?clr_unique, ?clr_index, ?clr_name, ?clr_ukeys, ?clr_ikeys; auto.
  intro H. destruct (clr_fk_cases k c) as [-> | ->]; [exact H|reflexivity].
Qed.
