(* apply_action is local: it only changes the table(s) its action names (C01 / C06 architecture,
   DESIGN §6 C01 "apply_local").  On top of it: the per-table projection of apply_all — when table names
   are distinct, a list of single-table actions succeeds on a schema iff each table's own
   subsequence succeeds on that table, and the final table registered under each name is the fold of
   its own subsequence.  Also: what `vespertide revision` fills in (fill_with fields) is invisible to
   apply_action. *)
From VV.M1 Require Import Oracles Hyp NormalizeP DiffP.
From Coq Require Import Lia Permutation.

(* ---------- which tables an action names ---------- *)
Definition action_tables (a : action) : list string :=
  match a with
  | CreateTable t _ _ | DeleteTable t | AddColumn t _ _ | RenameColumn t _ _ | DeleteColumn t _
  | ModifyColumnType t _ _ _ | ModifyColumnNullable t _ _ _ | ModifyColumnDefault t _ _
  | ModifyColumnComment t _ _ | AddConstraint t _ | RemoveConstraint t _ => [t]
  | RenameTable f t => [f; t]
  | RawSql _ => []
  end.

(* ---------- find_t ---------- *)
Lemma find_t_app n a b :
  find_t n (a ++ b) = match find_t n a with Some x => Some x | None => find_t n b end.
Proof.
  unfold find_t. induction a as [|x a IH]; cbn [app find]; [reflexivity|].
  destruct (String.eqb (t_name x) n); [reflexivity|exact IH].
Qed.

Lemma find_t_some n s t : find_t n s = Some t -> In t s /\ t_name t = n.
Proof.
  unfold find_t. intro H. apply find_some in H. destruct H as [H1 H2].
  apply String.eqb_eq in H2. auto.
Qed.

Lemma find_t_none n s : find_t n s = None <-> ~ In n (map t_name s).
Proof.
  unfold find_t. induction s as [|x s IH]; cbn [find map In]; [tauto|].
  destruct (String.eqb (t_name x) n) eqn:E.
  - apply String.eqb_eq in E. split; [discriminate|]. intro H. exfalso. apply H. now left.
  - apply String.eqb_neq in E. rewrite IH. tauto.
Qed.

Lemma find_t_in_nodup n s t : NoDup (map t_name s) -> In t s -> t_name t = n -> find_t n s = Some t.
Proof.
  unfold find_t. induction s as [|x s IH]; cbn [find map In]; intros Hnd Hin Hn; [destruct Hin|].
  inversion Hnd as [|y l Hy Hnd']; subst y l.
  destruct Hin as [->|Hin].
  - subst n. now rewrite String.eqb_refl.
  - destruct (String.eqb (t_name x) n) eqn:E.
    + apply String.eqb_eq in E. exfalso. apply Hy. rewrite E, <- Hn. now apply in_map.
    + now apply IH.
Qed.

Lemma find_t_filter_other n d s : n <> d ->
  find_t n (filter (fun t => negb (String.eqb (t_name t) d)) s) = find_t n s.
Proof.
  intro Hne. unfold find_t. induction s as [|x s IH]; cbn [filter find]; [reflexivity|].
  destruct (String.eqb (t_name x) d) eqn:Ed; cbn [negb find].
  - apply String.eqb_eq in Ed.
    assert (E : String.eqb (t_name x) n = false) by (apply String.eqb_neq; congruence).
    now rewrite E.
  - destruct (String.eqb (t_name x) n); [reflexivity|exact IH].
Qed.

Lemma find_t_filter_self d s :
  find_t d (filter (fun t => negb (String.eqb (t_name t) d)) s) = None.
Proof.
  apply find_t_none. intro H. apply in_map_iff in H. destruct H as [t [Hn Hin]].
  apply filter_In in Hin. destruct Hin as [_ Hin]. rewrite Hn, String.eqb_refl in Hin. discriminate.
Qed.

Lemma has_table_find n s : has_table n s = match find_t n s with Some _ => true | None => false end.
Proof.
  unfold has_table, find_t. induction s as [|x s IH]; cbn [existsb find]; [reflexivity|].
  destruct (String.eqb (t_name x) n); [reflexivity|exact IH].
Qed.

(* ---------- update_table ---------- *)
Lemma update_table_other n tn f : forall s s',
  update_table tn f s = Ok s' ->
  (forall t t', f t = Ok t' -> t_name t = tn -> String.eqb (t_name t') n = false) ->
  n <> tn -> find_t n s' = find_t n s.
Proof.
  intros s s' H Hf Hne. revert s' H. unfold find_t.
  induction s as [|x s IH]; intros s' H; cbn [update_table] in H; [discriminate|].
  destruct (String.eqb (t_name x) tn) eqn:E.
  - destruct (f x) as [x'|e] eqn:Ef; [|discriminate]. inversion H; subst s'; clear H.
    apply String.eqb_eq in E. cbn [find]. rewrite (Hf x x' Ef E).
    assert (E' : String.eqb (t_name x) n = false) by (apply String.eqb_neq; congruence).
    now rewrite E'.
  - destruct (update_table tn f s) as [r'|e]; [|discriminate]. inversion H; subst s'; clear H.
    cbn [find]. destruct (String.eqb (t_name x) n); [reflexivity|]. now apply IH.
Qed.

Lemma table_fn_name a t t' : table_fn a t = Ok t' -> t_name t' = t_name t.
Proof.
  destruct a; cbn [table_fn]; intro H; try (inversion H; reflexivity).
  - destruct (has_column _ t); [discriminate|].
    destruct (normalize _) as [n|e] eqn:En; [|discriminate]. inversion H; subst.
    now rewrite (normalize_name _ _ En).
  - destruct (update_first_col _ _ _); inversion H; reflexivity.
  - destruct (has_column _ t); inversion H; reflexivity.
  - unfold update_column in H. destruct (update_first_col _ _ _); inversion H; reflexivity.
  - unfold update_column in H. destruct (update_first_col _ _ _); inversion H; reflexivity.
  - unfold update_column in H. destruct (update_first_col _ _ _); inversion H; reflexivity.
  - unfold update_column in H. destruct (update_first_col _ _ _); inversion H; reflexivity.
  - destruct (contains_constraint _ _); inversion H; reflexivity.
Qed.

(* ---------- 1. apply_local ---------- *)
Theorem apply_local : forall s a s' n,
  apply_action s a = Ok s' -> ~ In n (action_tables a) ->
  find (fun t => String.eqb (t_name t) n) s' = find (fun t => String.eqb (t_name t) n) s.
Proof.
  intros s a s' n H Hn. change (find_t n s' = find_t n s).
  assert (Hupd : forall tn, n <> tn -> update_table tn (table_fn a) s = Ok s' -> find_t n s' = find_t n s).
  { intros tn Hne Hu. eapply update_table_other; [exact Hu| |exact Hne].
    intros t t' Hf Ht. rewrite (table_fn_name _ _ _ Hf), Ht. apply String.eqb_neq. congruence. }
  destruct a; cbn [action_tables In] in Hn; cbn [apply_action] in H;
    try (apply (Hupd table); [intro E; apply Hn; now left|exact H]).
  - (* CreateTable *)
    destruct (has_table table s); [discriminate|].
    destruct (normalize _) as [nt|e] eqn:En; [|discriminate]. inversion H; subst s'; clear H.
    rewrite find_t_app. destruct (find_t n s); [reflexivity|].
    unfold find_t. cbn [find]. rewrite (normalize_name _ _ En). cbn [t_name].
    assert (E : String.eqb table n = false) by (apply String.eqb_neq; intro; apply Hn; now left).
    now rewrite E.
  - (* DeleteTable *)
    destruct (has_table table s); [|discriminate]. inversion H; subst s'; clear H.
    apply find_t_filter_other. intro E. apply Hn. now left.
  - (* RenameTable *)
    destruct (has_table to s); [discriminate|].
    eapply update_table_other; [exact H| |].
    + intros t t' Hf _. inversion Hf; subst t'. cbn [t_name]. apply String.eqb_neq.
      intro E. apply Hn. right. now left.
    + intro E. apply Hn. now left.
  - (* RawSql *)
    now inversion H.
Qed.

(* ---------- per-table projection ---------- *)
Lemma NoDup_map_filter_names (p : table_def -> bool) : forall s,
  NoDup (map t_name s) -> NoDup (map t_name (filter p s)).
Proof.
  induction s as [|x s IH]; cbn [map filter]; intro H; [constructor|].
  inversion H as [|y l Hy Hnd]; subst y l.
  destruct (p x); cbn [map]; [|now apply IH]. constructor; [|now apply IH].
  intro Hin. apply Hy. apply in_map_iff in Hin. destruct Hin as [t [Ht Hin]].
  apply filter_In in Hin. rewrite <- Ht. apply in_map. tauto.
Qed.

Lemma update_table_proj n f : forall s t t',
  NoDup (map t_name s) -> find_t n s = Some t -> f t = Ok t' -> t_name t' = n ->
  exists s', update_table n f s = Ok s' /\ find_t n s' = Some t'
    /\ (forall m, m <> n -> find_t m s' = find_t m s) /\ map t_name s' = map t_name s.
Proof.
  unfold find_t. induction s as [|x s IH]; intros t t' Hnd Hf Hft Hn; cbn [find] in Hf; [discriminate|].
  cbn [update_table]. destruct (String.eqb (t_name x) n) eqn:E.
  - inversion Hf; subst x; clear Hf. rewrite Hft. exists (t' :: s). apply String.eqb_eq in E.
    split; [reflexivity|]. split; [|split].
    + cbn [find]. now rewrite Hn, String.eqb_refl.
    + intros m Hm. cbn [find].
      assert (E1 : String.eqb (t_name t') m = false) by (apply String.eqb_neq; congruence).
      assert (E2 : String.eqb (t_name t) m = false) by (apply String.eqb_neq; congruence).
      now rewrite E1, E2.
    + cbn [map]. congruence.
  - inversion Hnd as [|y l Hy Hnd']; subst y l.
    destruct (IH t t' Hnd' Hf Hft Hn) as [r' [Hu [Hfn [Hother Hnames]]]]. rewrite Hu.
    exists (x :: r'). split; [reflexivity|]. split; [|split].
    + cbn [find]. now rewrite E.
    + intros m Hm. cbn [find]. destruct (String.eqb (t_name x) m); [reflexivity|now apply Hother].
    + cbn [map]. now rewrite Hnames.
Qed.

Lemma apply_action_proj s a n r :
  NoDup (map t_name s) -> act_table a = Some n -> apply_table (find_t n s) a = Ok r ->
  exists s', apply_action s a = Ok s' /\ find_t n s' = r
    /\ (forall m, m <> n -> find_t m s' = find_t m s) /\ NoDup (map t_name s').
Proof.
  intros Hnd Ha Hp.
  assert (Hupd : apply_action s a = update_table n (table_fn a) s ->
            match find_t n s with
            | None => Err (TableNotFound "")
            | Some t => match table_fn a t with Ok t' => Ok (Some t') | Err e => Err e end
            end = Ok r ->
            exists s', apply_action s a = Ok s' /\ find_t n s' = r
              /\ (forall m, m <> n -> find_t m s' = find_t m s) /\ NoDup (map t_name s')).
  { intros Ea Hr. destruct (find_t n s) as [t|] eqn:Ef; [|discriminate].
    destruct (table_fn a t) as [t'|e] eqn:Et; [|discriminate]. inversion Hr; subst r; clear Hr.
    destruct (find_t_some _ _ _ Ef) as [_ Hn].
    destruct (update_table_proj n (table_fn a) s t t' Hnd Ef Et) as [s' [Hu [Hfn [Ho Hnm]]]].
    { now rewrite (table_fn_name _ _ _ Et). }
    exists s'. rewrite Ea. repeat split; try assumption. now rewrite Hnm. }
  destruct a; cbn [act_table] in Ha; inversion Ha; subst; clear Ha; cbn [apply_table] in Hp;
    try (apply Hupd; [reflexivity|exact Hp]).
  - (* CreateTable *)
    destruct (find_t n s) eqn:Ef; [discriminate|].
    destruct (normalize _) as [nt|e] eqn:En; [|discriminate]. inversion Hp; subst r; clear Hp.
    cbn [apply_action]. rewrite has_table_find, Ef, En. exists (s ++ [nt]).
    pose proof (normalize_name _ _ En) as Hn. cbn [t_name] in Hn.
    split; [reflexivity|]. split; [|split].
    + rewrite find_t_app, Ef. unfold find_t. cbn [find]. now rewrite Hn, String.eqb_refl.
    + intros m Hm. rewrite find_t_app. destruct (find_t m s); [reflexivity|].
      unfold find_t. cbn [find]. rewrite Hn.
      assert (E : String.eqb n m = false) by (apply String.eqb_neq; congruence). now rewrite E.
    + rewrite map_app. cbn [map]. rewrite Hn.
      apply find_t_none in Ef. clear - Hnd Ef.
      induction (map t_name s) as [|y l IH]; cbn [app]; [constructor; [intros []|constructor]|].
      inversion Hnd; subst. constructor.
      * intro Hin. apply in_app_or in Hin. destruct Hin as [Hin|[<-|[]]]; [tauto|].
        apply Ef. now left.
      * apply IH; [assumption|]. intro Hin. apply Ef. now right.
  - (* DeleteTable *)
    destruct (find_t n s) eqn:Ef; [|discriminate]. inversion Hp; subst r; clear Hp.
    cbn [apply_action]. rewrite has_table_find, Ef.
    exists (filter (fun t => negb (String.eqb (t_name t) n)) s).
    split; [reflexivity|]. split; [apply find_t_filter_self|]. split.
    + intros m Hm. now apply find_t_filter_other.
    + now apply NoDup_map_filter_names.
Qed.

Lemma on_table_true a n : act_table a = Some n -> on_table n a = true.
Proof. unfold on_table. intros ->. apply String.eqb_refl. Qed.
Lemma on_table_false a n m : act_table a = Some n -> m <> n -> on_table m a = false.
Proof. unfold on_table. intros -> H. apply String.eqb_neq. congruence. Qed.

(* the schema-level run succeeds as soon as every table's own subsequence does; the table finally
   registered under each name is the result of its own subsequence *)
Theorem apply_all_proj : forall l s (r : string -> option table_def),
  NoDup (map t_name s) ->
  (forall a, In a l -> act_table a <> None) ->
  (forall n, proj_all (find_t n s) (filter (on_table n) l) = Ok (r n)) ->
  exists s', apply_all s l = Ok s' /\ (forall n, find_t n s' = r n) /\ NoDup (map t_name s').
Proof.
  induction l as [|a l IH]; intros s r Hnd Hsingle Hp.
  - exists s. split; [reflexivity|]. split; [|exact Hnd].
    intro n. specialize (Hp n). cbn [filter proj_all] in Hp. now inversion Hp.
  - destruct (act_table a) as [n0|] eqn:Ea; [|exfalso; apply (Hsingle a (or_introl eq_refl)); exact Ea].
    pose proof (Hp n0) as H0. cbn [filter] in H0. rewrite (on_table_true _ _ Ea) in H0.
    cbn [proj_all] in H0. destruct (apply_table (find_t n0 s) a) as [o'|e] eqn:Eo; [|discriminate].
    destruct (apply_action_proj s a n0 o' Hnd Ea Eo) as [s1 [Hs1 [Hf1 [Hother Hnd1]]]].
    destruct (IH s1 r Hnd1) as [s' [Hs' [Hfin Hnd']]].
    + intros b Hb. apply Hsingle. now right.
    + intro n. destruct (string_dec n n0) as [->|Hne].
      * now rewrite Hf1.
      * rewrite (Hother n Hne). specialize (Hp n). cbn [filter] in Hp.
        now rewrite (on_table_false _ _ _ Ea Hne) in Hp.
    + exists s'. cbn [apply_all]. rewrite Hs1. auto.
Qed.

Lemma apply_all_app : forall a s b,
  apply_all s (a ++ b) = match apply_all s a with Ok s' => apply_all s' b | Err e => Err e end.
Proof.
  induction a as [|x a IH]; intros s b; cbn [app apply_all]; [reflexivity|].
  destruct (apply_action s x); [apply IH|reflexivity].
Qed.

(* ---------- revision_fill only touches fill_with fields, which apply_action ignores ---------- *)
Definition erase_fill (a : action) : action :=
  match a with
  | AddColumn t c _ => AddColumn t c None
  | ModifyColumnType t c ty _ => ModifyColumnType t c ty None
  | ModifyColumnNullable t c n _ => ModifyColumnNullable t c n None
  | _ => a
  end.

Lemma apply_action_erase s a : apply_action s (erase_fill a) = apply_action s a.
Proof. destruct a; reflexivity. Qed.
Lemma apply_all_erase : forall l s, apply_all s (map erase_fill l) = apply_all s l.
Proof.
  induction l as [|a l IH]; intro s; cbn [map apply_all]; [reflexivity|].
  rewrite apply_action_erase. destruct (apply_action s a); [apply IH|reflexivity].
Qed.

Lemma erase_apply_fill m a : erase_fill (apply_fill m a) = erase_fill a.
Proof.
  destruct a; cbn [apply_fill]; try reflexivity.
  - destruct fill_with; [reflexivity|]. destruct (fv_get _ _ _); reflexivity.
  - destruct fill_with; [reflexivity|]. destruct (fv_get _ _ _); reflexivity.
Qed.
Lemma erase_enum_fills me : forall l i, map erase_fill (apply_enum_fills i l me) = map erase_fill l.
Proof.
  induction l as [|a l IH]; intro i; cbn [apply_enum_fills map]; [reflexivity|].
  rewrite IH. f_equal. destruct a; try reflexivity.
  destruct (find _ me) as [[j unc]|]; [|reflexivity].
  destruct new_type; try reflexivity. destruct values as [[|f r]|]; reflexivity.
Qed.

(* the D6 repair (apply_default_as_fill_with) only writes a fill_with field as well *)
Lemma erase_default_as_fill b a : erase_fill (default_as_fill b a) = erase_fill a.
Proof.
  destruct a; cbn [default_as_fill]; try reflexivity.
  destruct nullable; [reflexivity|]. destruct fill_with; [reflexivity|].
  destruct (lookup_col b table column) as [c|]; [|reflexivity]. destruct (c_default c); reflexivity.
Qed.
Lemma apply_action_default_as_fill s b a : apply_action s (default_as_fill b a) = apply_action s a.
Proof. now rewrite <- apply_action_erase, erase_default_as_fill, apply_action_erase. Qed.

Theorem filled_erase p B : map erase_fill (filled_actions p B) = map erase_fill (p_actions p).
Proof.
  unfold filled_actions, revision_fill. destruct (refuses (p_actions p)); [reflexivity|].
  cbv zeta. rewrite map_map, (map_ext _ _ (erase_default_as_fill B)), erase_enum_fills.
  destruct (collect_fills (p_actions p) B); [reflexivity|].
  rewrite map_map. apply map_ext. intro a. apply erase_apply_fill.
Qed.

Theorem apply_all_filled p B s : apply_all s (filled_actions p B) = apply_all s (p_actions p).
Proof. now rewrite <- apply_all_erase, filled_erase, apply_all_erase. Qed.
