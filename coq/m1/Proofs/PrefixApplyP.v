(* C14, stretch: apply_action commutes with the literal renaming, except where apply_action compares a
   user-chosen index name with the derived name ix_{table}__{col} (apply.rs:256-266). *)
From VV.M1 Require Import Oracles PrefixHyp PrefixStrP PrefixP PrefixDiffP.
From Coq Require Import Lia.

Local Notation P p := (String.append p).

Definition literal_perr (p : string) (e : planner_error) : planner_error :=
  match e with
  | TableExists t => TableExists (p +++ t)
  | TableNotFound t => TableNotFound (p +++ t)
  | ColumnExists t c => ColumnExists (p +++ t) c
  | ColumnNotFound t c => ColumnNotFound (p +++ t) c
  | TableValidation => TableValidation
  end.

Definition lift_apply (p : string) (r : result schema planner_error) : result schema planner_error :=
  match r with Ok s => Ok (literal_schema p s) | Err e => Err (literal_perr p e) end.

(* the side condition: a RemoveConstraint of an index with a user-chosen name never names it like the
   derived single-column index name of the target table, neither of the plain nor of the prefixed one *)
Definition no_user_name_equals_derived (p : string) (s : schema) (a : action) : bool :=
  match a with
  | RemoveConstraint table (CIndex (Some n) _) =>
      forallb (fun t =>
        if String.eqb (t_name t) table then
          forallb (fun c => (negb (String.eqb n (build_index_name table [c_name c] None))
                             && negb (String.eqb n (build_index_name (p +++ table) [c_name c] None)))%bool)
                  (t_columns t)
        else true) s
  | _ => true
  end.

(* ---------- setters and the literal column ---------- *)
Lemma set_name_lc p n c : set_name n (literal_col p c) = literal_col p (set_name n c).
Proof. now destruct c. Qed.
Lemma set_type_lc p n c : set_type n (literal_col p c) = literal_col p (set_type n c).
Proof. now destruct c. Qed.
Lemma set_nullable_lc p n c : set_nullable n (literal_col p c) = literal_col p (set_nullable n c).
Proof. now destruct c. Qed.
Lemma set_default_lc p n c : set_default n (literal_col p c) = literal_col p (set_default n c).
Proof. now destruct c. Qed.
Lemma set_comment_lc p n c : set_comment n (literal_col p c) = literal_col p (set_comment n c).
Proof. now destruct c. Qed.
Lemma set_pk_lc p n c : set_pk n (literal_col p c) = literal_col p (set_pk n c).
Proof. now destruct c. Qed.
Lemma set_unique_lc p n c : set_unique n (literal_col p c) = literal_col p (set_unique n c).
Proof. now destruct c. Qed.
Lemma set_index_lc p n c : set_index n (literal_col p c) = literal_col p (set_index n c).
Proof. now destruct c. Qed.
Lemma set_fk_none_lc p c : set_fk None (literal_col p c) = literal_col p (set_fk None c).
Proof. now destruct c. Qed.

Lemma has_table_literal p n s : has_table (p +++ n) (literal_schema p s) = has_table n s.
Proof.
  unfold has_table, literal_schema. rewrite existsb_map. apply existsb_ext_in. intros t _.
  change (t_name (literal_table p t)) with (p +++ t_name t). apply eqb_prefix.
Qed.
Lemma has_column_literal p n t : has_column n (literal_table p t) = has_column n t.
Proof.
  unfold has_column. change (t_columns (literal_table p t)) with (map (literal_col p) (t_columns t)).
  now rewrite existsb_map.
Qed.

Lemma update_table_literal p n f f' :
  (forall t, f' (literal_table p t)
             = match f t with Ok t' => Ok (literal_table p t') | Err e => Err (literal_perr p e) end) ->
  forall s, update_table (p +++ n) f' (literal_schema p s) = lift_apply p (update_table n f s).
Proof.
  intros H s. induction s as [|t r IH]; [reflexivity|].
  cbn [literal_schema map update_table]. change (t_name (literal_table p t)) with (p +++ t_name t).
  rewrite eqb_prefix. destruct (String.eqb (t_name t) n).
  - rewrite H. destruct (f t); reflexivity.
  - fold (literal_schema p r). rewrite IH. destruct (update_table n f r); reflexivity.
Qed.

Lemma update_first_col_literal p n f : (forall c, f (literal_col p c) = literal_col p (f c)) ->
  forall cols, update_first_col n f (map (literal_col p) cols)
               = option_map (map (literal_col p)) (update_first_col n f cols).
Proof.
  intros H cols. induction cols as [|c r IH]; [reflexivity|].
  cbn [map update_first_col]. rewrite lc_name. destruct (String.eqb (c_name c) n).
  - cbn [option_map map]. now rewrite H.
  - rewrite IH. destruct (update_first_col n f r); reflexivity.
Qed.

Lemma update_column_literal p tn cn f : (forall c, f (literal_col p c) = literal_col p (f c)) ->
  forall t, update_column (p +++ tn) cn f (literal_table p t)
            = match update_column tn cn f t with
              | Ok t' => Ok (literal_table p t') | Err e => Err (literal_perr p e) end.
Proof.
  intros H t. unfold update_column.
  change (t_columns (literal_table p t)) with (map (literal_col p) (t_columns t)).
  rewrite (update_first_col_literal p cn f H).
  destruct (update_first_col cn f (t_columns t)); reflexivity.
Qed.

Lemma modify_first_literal p q f :
  (forall c, q (literal_col p c) = q c) -> (forall c, f (literal_col p c) = literal_col p (f c)) ->
  forall cols, modify_first q f (map (literal_col p) cols) = map (literal_col p) (modify_first q f cols).
Proof.
  intros Hq Hf cols. induction cols as [|c r IH]; [reflexivity|].
  cbn [map modify_first]. rewrite Hq. destruct (q c); cbn [map]; [now rewrite Hf | now rewrite IH].
Qed.

Lemma fold_modify_literal p (setter : column_def -> column_def) :
  (forall c, setter (literal_col p c) = literal_col p (setter c)) ->
  forall columns cols,
    fold_left (fun cs x => modify_first (named x) setter cs) columns (map (literal_col p) cols)
    = map (literal_col p) (fold_left (fun cs x => modify_first (named x) setter cs) columns cols).
Proof.
  intros H columns. induction columns as [|x r IH]; intro cols; [reflexivity|].
  cbn [fold_left]. rewrite modify_first_literal; [apply IH | reflexivity | exact H].
Qed.

(* rename / drop of a column inside constraints *)
Lemma rename_constraint_literal p from to k :
  rename_column_in_constraint from to (literal_constraint p k)
  = literal_constraint p (rename_column_in_constraint from to k).
Proof. now destruct k. Qed.

Lemma drop_constraints_literal p col ks :
  drop_column_from_constraints col (map (literal_constraint p) ks)
  = map (literal_constraint p) (drop_column_from_constraints col ks).
Proof.
  unfold drop_column_from_constraints. rewrite flat_map_map, map_flat_map. apply flat_map_ext_in.
  intros k _. destruct k; cbn [literal_constraint drop_column_from_constraint]; try reflexivity.
  - destruct (nonempty _); reflexivity.
  - destruct (nonempty _); reflexivity.
  - destruct (_ && _)%bool; reflexivity.
  - destruct (nonempty _); reflexivity.
Qed.

(* clearing of inline fields *)
Lemma clear_unique_named_lc p cn c :
  clear_unique_named cn (literal_col p c) = literal_col p (clear_unique_named cn c).
Proof.
  unfold clear_unique_named. rewrite lc_unique.
  destruct (c_unique c) as [[n|names|b]|]; try reflexivity.
  - destruct (String.eqb n cn); [apply set_unique_lc | reflexivity].
  - destruct (filter _ names); apply set_unique_lc.
Qed.
Lemma clear_index_named_lc p cn c :
  clear_index_named cn (literal_col p c) = literal_col p (clear_index_named cn c).
Proof.
  unfold clear_index_named. rewrite lc_index.
  destruct (c_index c) as [[n|names|b]|]; try reflexivity.
  - destruct (String.eqb n cn); [apply set_index_lc | reflexivity].
  - destruct (filter _ names); [apply set_index_lc|].
    destruct (Nat.ltb _ _); [apply set_index_lc | reflexivity].
Qed.

Definition index_name_neutral (p table : string) (name : option string) (cols : list column_def) : Prop :=
  forall c, In c cols ->
    dec_b (option_eq_dec string_dec) name (Some (build_index_name (p +++ table) [c_name c] None))
    = dec_b (option_eq_dec string_dec) name (Some (build_index_name table [c_name c] None)).

Lemma clear_index_auto_literal p table name cols : index_name_neutral p table name cols ->
  clear_index_auto (p +++ table) name (map (literal_col p) cols)
  = map (literal_col p) (clear_index_auto table name cols).
Proof.
  induction cols as [|c r IH]; intro H; [reflexivity|].
  cbn [map clear_index_auto]. rewrite lc_name, (H c (or_introl eq_refl)).
  destruct (dec_b _ name _); cbn [map].
  - now rewrite set_index_lc.
  - rewrite IH; [reflexivity|]. intros x Hx. apply H. now right.
Qed.

Lemma index_name_neutral_none p table cols : index_name_neutral p table None cols.
Proof. intros c _. reflexivity. Qed.

Lemma clear_inline_literal p table k cols :
  (forall n cs, k = CIndex (Some n) cs -> index_name_neutral p table (Some n) cols) ->
  clear_inline (p +++ table) (literal_constraint p k) (map (literal_col p) cols)
  = map (literal_col p) (clear_inline table k cols).
Proof.
  intro H. destruct k as [a columns|name columns|name columns rt rcols od ou|name e|name columns];
    cbn [literal_constraint clear_inline].
  - apply fold_modify_literal. intro c. apply set_pk_lc.
  - assert (H1 : match name, columns with
                 | None, [x] => modify_first (named x) (set_unique None) (map (literal_col p) cols)
                 | _, _ => map (literal_col p) cols
                 end
                 = map (literal_col p) match name, columns with
                                       | None, [x] => modify_first (named x) (set_unique None) cols
                                       | _, _ => cols
                                       end).
    { destruct name; [reflexivity|]. destruct columns as [|x [|y l]]; try reflexivity.
      apply modify_first_literal; [reflexivity | intro c; apply set_unique_lc]. }
    rewrite H1. destruct name as [cn|]; [|reflexivity].
    rewrite !map_map. apply map_ext. intro c. apply clear_unique_named_lc.
  - apply fold_modify_literal. intro c. apply set_fk_none_lc.
  - reflexivity.
  - assert (Hn : index_name_neutral p table name cols).
    { destruct name as [n|]; [eapply H; reflexivity | apply index_name_neutral_none]. }
    rewrite (clear_index_auto_literal p table name cols Hn).
    set (cols1 := clear_index_auto table name cols).
    assert (H2 : match name, columns with
                 | None, [x] => modify_first (named x) (set_index None) (map (literal_col p) cols1)
                 | _, _ => map (literal_col p) cols1
                 end
                 = map (literal_col p) match name, columns with
                                       | None, [x] => modify_first (named x) (set_index None) cols1
                                       | _, _ => cols1
                                       end).
    { destruct name; [reflexivity|]. destruct columns as [|x [|y l]]; try reflexivity.
      apply modify_first_literal; [reflexivity | intro c; apply set_index_lc]. }
    rewrite H2. destruct name as [cn|]; [|reflexivity].
    rewrite !map_map. apply map_ext. intro c. apply clear_index_named_lc.
Qed.

(* ---------- the side condition gives neutrality ---------- *)
Lemma dec_b_some_eqb a b : dec_b (option_eq_dec string_dec) (Some a) (Some b) = String.eqb a b.
Proof.
  unfold dec_b. destruct (option_eq_dec string_dec (Some a) (Some b)) as [E|N].
  - injection E as ->. now rewrite String.eqb_refl.
  - symmetry. apply String.eqb_neq. intro E. apply N. now rewrite E.
Qed.

Lemma side_condition_neutral p s table n cs :
  no_user_name_equals_derived p s (RemoveConstraint table (CIndex (Some n) cs)) = true ->
  forall t, In t s -> String.eqb (t_name t) table = true ->
    index_name_neutral p table (Some n) (t_columns t).
Proof.
  cbn [no_user_name_equals_derived]. intros H t Ht Hname.
  rewrite forallb_forall in H. specialize (H t Ht). rewrite Hname in H.
  rewrite forallb_forall in H. intros c Hc. specialize (H c Hc).
  apply andb_prop in H. destruct H as [H1 H2].
  rewrite !dec_b_some_eqb.
  apply negb_true_iff in H1. apply negb_true_iff in H2. now rewrite H1, H2.
Qed.

(* update_table with a function that is only required to commute on the tables of the schema that
   carry the target name *)
Lemma update_table_literal_in p n f f' s :
  (forall t, In t s -> String.eqb (t_name t) n = true ->
     f' (literal_table p t)
     = match f t with Ok t' => Ok (literal_table p t') | Err e => Err (literal_perr p e) end) ->
  update_table (p +++ n) f' (literal_schema p s) = lift_apply p (update_table n f s).
Proof.
  induction s as [|t r IH]; intro H; [reflexivity|].
  cbn [literal_schema map update_table]. change (t_name (literal_table p t)) with (p +++ t_name t).
  rewrite eqb_prefix. destruct (String.eqb (t_name t) n) eqn:E.
  - rewrite (H t (or_introl eq_refl) E). destruct (f t); reflexivity.
  - fold (literal_schema p r). rewrite IH by (intros x Hx; apply H; now right).
    destruct (update_table n f r); reflexivity.
Qed.

(* ---------- the theorem ---------- *)
Theorem apply_equivariant : forall p s a, no_dot p ->
  no_user_name_equals_derived p s a = true ->
  apply_action (literal_schema p s) (literal_action p a) = lift_apply p (apply_action s a).
Proof.
  intros p s a Hp Hside.
  destruct a; cbn [literal_action apply_action].
  - (* CreateTable *)
    rewrite has_table_literal. destruct (has_table table s); [reflexivity|].
    change (mkTable (p +++ table) None (map (literal_col p) columns) (map (literal_constraint p) constraints))
      with (literal_table p (mkTable table None columns constraints)).
    rewrite (normalize_literal_full p _ Hp).
    destruct (normalize (mkTable table None columns constraints)); cbn [lift_apply]; [|reflexivity].
    unfold literal_schema. now rewrite map_app.
  - (* DeleteTable *)
    rewrite has_table_literal. destruct (has_table table s); cbn [lift_apply]; [|reflexivity].
    f_equal. unfold literal_schema. rewrite filter_map_comm. f_equal. apply filter_ext. intro t.
    change (t_name (literal_table p t)) with (p +++ t_name t). now rewrite eqb_prefix.
  - (* AddColumn *)
    apply update_table_literal. intro t. rewrite lc_name, has_column_literal.
    destruct (has_column (c_name column) t); [reflexivity|].
    change (mkTable (t_name (literal_table p t)) (t_description (literal_table p t))
              (t_columns (literal_table p t) ++ [literal_col p column]) (t_constraints (literal_table p t)))
      with (mkTable (p +++ t_name t) (t_description t)
              (map (literal_col p) (t_columns t) ++ map (literal_col p) [column])
              (map (literal_constraint p) (t_constraints t))).
    rewrite <- map_app.
    change (mkTable (p +++ t_name t) (t_description t) (map (literal_col p) (t_columns t ++ [column]))
              (map (literal_constraint p) (t_constraints t)))
      with (literal_table p (mkTable (t_name t) (t_description t) (t_columns t ++ [column]) (t_constraints t))).
    rewrite (normalize_literal_full p _ Hp). destruct (normalize _); reflexivity.
  - (* RenameColumn *)
    apply update_table_literal. intro t.
    change (t_columns (literal_table p t)) with (map (literal_col p) (t_columns t)).
    rewrite (update_first_col_literal p from (set_name to)) by (intro c; apply set_name_lc).
    destruct (update_first_col from (set_name to) (t_columns t)); cbn [option_map]; [|reflexivity].
    f_equal. unfold literal_table. cbn [t_name t_description t_columns t_constraints]. f_equal.
    rewrite !map_map. apply map_ext. intro k. apply rename_constraint_literal.
  - (* DeleteColumn *)
    apply update_table_literal. intro t. rewrite has_column_literal.
    destruct (has_column column t); [|reflexivity].
    f_equal. unfold literal_table. cbn [t_name t_description t_columns t_constraints]. f_equal.
    + rewrite filter_map_comm. reflexivity.
    + apply drop_constraints_literal.
  - apply update_table_literal. intro t. apply update_column_literal. intro c. apply set_type_lc.
  - apply update_table_literal. intro t. apply update_column_literal. intro c. apply set_nullable_lc.
  - apply update_table_literal. intro t. apply update_column_literal. intro c. apply set_default_lc.
  - apply update_table_literal. intro t. apply update_column_literal. intro c. apply set_comment_lc.
  - (* AddConstraint *)
    apply update_table_literal. intro t.
    change (t_constraints (literal_table p t)) with (map (literal_constraint p) (t_constraints t)).
    rewrite contains_constraint_literal. destruct (contains_constraint constraint (t_constraints t)); [reflexivity|].
    f_equal. unfold literal_table. cbn [t_name t_description t_columns t_constraints]. now rewrite map_app.
  - (* RemoveConstraint *)
    apply update_table_literal_in. intros t Ht Hname. f_equal.
    unfold literal_table. cbn [t_name t_description t_columns t_constraints]. f_equal.
    + apply clear_inline_literal. intros n cs ->. eapply side_condition_neutral; eauto.
    + rewrite filter_map_comm. f_equal. apply filter_ext. intro k. now rewrite constraint_eqb_literal.
  - (* RenameTable *)
    rewrite has_table_literal. destruct (has_table to s); [reflexivity|].
    apply update_table_literal. intro t. reflexivity.
  - reflexivity.
Qed.

(* ---------- without the side condition ---------- *)
Definition ar_schema : schema :=
  [mkTable "t" None
     [mkCol "id" (TSimple Integer) false None None (Some (PKBool true)) None None None;
      mkCol "c" (TSimple Integer) false None None None None (Some (SBool true)) None]
     [CPrimaryKey false ["id"]; CIndex (Some "ix_t__c") ["c"]]].
Definition ar_action : action := RemoveConstraint "t" (CIndex (Some "ix_t__c") ["c"]).

Definition inline_index_of (tn cn : string) (r : result schema planner_error) : option (option str_or_bool_or_array) :=
  match r with
  | Ok s => match find (fun t => String.eqb (t_name t) tn) s with
            | Some t => option_map c_index (find_column cn t)
            | None => None
            end
  | Err _ => None
  end.

(* the user-chosen index name equals the derived name of the unprefixed table: without a prefix the
   column's inline [index: true] is cleared, with the prefix it stays (and normalisation re-creates
   the index that was just removed) *)
Theorem apply_equivariant_refuted :
  no_user_name_equals_derived "app_" ar_schema ar_action = false
  /\ apply_action (literal_schema "app_" ar_schema) (literal_action "app_" ar_action)
     <> lift_apply "app_" (apply_action ar_schema ar_action)
  /\ inline_index_of "t" "c" (apply_action ar_schema ar_action) = Some None
  /\ inline_index_of "app_t" "c"
       (apply_action (literal_schema "app_" ar_schema) (literal_action "app_" ar_action))
     = Some (Some (SBool true)).
Proof.
  split; [vm_compute; reflexivity|].
  split; [vm_compute; intro H; discriminate H|].
  split; vm_compute; reflexivity.
Qed.

(* ---------- whole action lists ---------- *)
Fixpoint side_all (p : string) (s : schema) (acts : list action) : bool :=
  match acts with
  | [] => true
  | a :: r =>
      (no_user_name_equals_derived p s a &&
       match apply_action s a with Ok s' => side_all p s' r | Err _ => true end)%bool
  end.

Theorem apply_all_equivariant : forall p acts s, no_dot p -> side_all p s acts = true ->
  apply_all (literal_schema p s) (map (literal_action p) acts) = lift_apply p (apply_all s acts).
Proof.
  intros p acts. induction acts as [|a r IH]; intros s Hp Hs; [reflexivity|].
  cbn [side_all] in Hs. apply andb_prop in Hs. destruct Hs as [Ha Hr].
  cbn [map apply_all]. rewrite (apply_equivariant p s a Hp Ha).
  destruct (apply_action s a) as [s'|e]; cbn [lift_apply]; [|reflexivity].
  now apply IH.
Qed.

(* replaying a prefixed plan on the literally renamed baseline = literally renaming the replay *)
Corollary with_prefix_replay : forall p pl s, p <> "" -> no_dot p ->
  forallb inline_fks_parse (p_actions pl) = true -> side_all p s (p_actions pl) = true ->
  apply_all (literal_schema p s) (p_actions (plan_with_prefix p pl))
  = lift_apply p (apply_all s (p_actions pl)).
Proof.
  intros p pl s Hne Hp Hfk Hs. rewrite (plan_with_prefix_is_literal p pl Hne Hfk).
  now apply apply_all_equivariant.
Qed.

(* ---------- plan_next_migration ---------- *)
Definition literal_plan (p : string) (pl : plan) : plan :=
  mkPlan (p_id pl) (p_comment pl) (p_created_at pl) (p_version pl) (map (literal_action p) (p_actions pl)).
Definition literal_plan_error (p : string) (e : plan_error) : plan_error :=
  match e with PlanReplay e => PlanReplay (literal_perr p e) | PlanDiff e => PlanDiff e end.

Lemma plan_with_prefix_literal_plan p pl : p <> "" -> forallb inline_fks_parse (p_actions pl) = true ->
  plan_with_prefix p pl = literal_plan p pl.
Proof.
  intros Hne Hfk. pose proof (plan_with_prefix_is_literal p pl Hne Hfk) as H.
  unfold plan_with_prefix in *. apply String.eqb_neq in Hne. rewrite Hne in *.
  cbn [p_actions] in H. unfold literal_plan. now rewrite H.
Qed.

Theorem plan_next_equivariant : forall p current applied, no_dot p ->
  side_all p [] (flat_map p_actions applied) = true ->
  plan_next (literal_schema p current) (map (literal_plan p) applied)
  = match plan_next current applied with
    | Ok pl => Ok (literal_plan p pl)
    | Err e => Err (literal_plan_error p e)
    end.
Proof.
  intros p current applied Hp Hs. unfold plan_next, replay.
  assert (Hacts : flat_map p_actions (map (literal_plan p) applied)
                  = map (literal_action p) (flat_map p_actions applied)).
  { rewrite flat_map_map, map_flat_map. reflexivity. }
  rewrite Hacts. change (@nil table_def) with (literal_schema p []) at 1.
  rewrite (apply_all_equivariant p _ [] Hp Hs).
  destruct (apply_all [] (flat_map p_actions applied)) as [baseline|e]; cbn [lift_apply]; [|reflexivity].
  rewrite (diff_equivariant p baseline current Hp).
  assert (Hv : next_version (map (literal_plan p) applied) = next_version applied).
  { unfold next_version. now rewrite map_map. }
  rewrite Hv. destruct (diff_actions baseline current); reflexivity.
Qed.

(* the history as the tool prefixes it (with_prefix per migration), against the literally renamed models *)
Theorem plan_next_with_prefix : forall p current applied, p <> "" -> no_dot p ->
  forallb (fun pl => forallb inline_fks_parse (p_actions pl)) applied = true ->
  side_all p [] (flat_map p_actions applied) = true ->
  plan_next (literal_schema p current) (map (plan_with_prefix p) applied)
  = match plan_next current applied with
    | Ok pl => Ok (literal_plan p pl)
    | Err e => Err (literal_plan_error p e)
    end.
Proof.
  intros p current applied Hne Hp Hfk Hs.
  replace (map (plan_with_prefix p) applied) with (map (literal_plan p) applied).
  - now apply plan_next_equivariant.
  - apply map_ext_in. intros pl Hin. symmetry. apply plan_with_prefix_literal_plan; [exact Hne|].
    rewrite forallb_forall in Hfk. now apply Hfk.
Qed.
