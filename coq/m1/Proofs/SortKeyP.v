(* Proofs about Str.sort_by_key (stable insertion sort): permutation, sortedness, stability. *)
From VV.M1 Require Import Str.
From Coq Require Import Lia Permutation Sorted.

Section SortByKey.
  Context {A : Type} (key : A -> nat).
  Let le := fun x y : A => Nat.leb (key x) (key y).
  Definition key_le (a b : A) : Prop := key a <= key b.

  Lemma insert_le_perm x : forall l, Permutation (insert_le le x l) (x :: l).
  Proof.
    induction l as [|y r IH]; cbn [insert_le]; [reflexivity|].
    destruct (le x y); [reflexivity|].
    eapply perm_trans; [apply perm_skip; exact IH | apply perm_swap].
  Qed.

  Theorem sort_by_key_perm l : Permutation (sort_by_key key l) l.
  Proof.
    unfold sort_by_key, sort_le. fold le.
    induction l as [|x r IH]; cbn [fold_right]; [reflexivity|].
    eapply perm_trans; [apply insert_le_perm | apply perm_skip; exact IH].
  Qed.

  Lemma insert_le_in x y : forall l, In y (insert_le le x l) <-> y = x \/ In y l.
  Proof.
    intro l. split; intro H.
    - apply (Permutation_in _ (insert_le_perm x l)) in H. destruct H as [H|H]; auto.
    - apply (Permutation_in _ (Permutation_sym (insert_le_perm x l))).
      destruct H as [->|H]; [now left | now right].
  Qed.

  Lemma insert_le_sorted x : forall l, StronglySorted key_le l -> StronglySorted key_le (insert_le le x l).
  Proof.
    induction l as [|y r IH]; intro Hs; cbn [insert_le].
    - constructor; constructor.
    - inversion Hs as [|? ? Hr Hall]; subst.
      destruct (le x y) eqn:E; unfold le in E.
      + apply PeanoNat.Nat.leb_le in E. constructor; [exact Hs|].
        constructor; [exact E|].
        eapply Forall_impl; [|exact Hall]. intros a Ha. unfold key_le in *. lia.
      + apply PeanoNat.Nat.leb_gt in E. constructor; [now apply IH|].
        apply Forall_forall. intros z Hz. apply insert_le_in in Hz.
        destruct Hz as [->|Hz]; [unfold key_le; lia|].
        rewrite Forall_forall in Hall. now apply Hall.
  Qed.

  Theorem sort_by_key_sorted l : StronglySorted key_le (sort_by_key key l).
  Proof.
    unfold sort_by_key, sort_le. fold le.
    induction l as [|x r IH]; cbn [fold_right]; [constructor|].
    now apply insert_le_sorted.
  Qed.

  (* stability: the elements of any one key keep their relative order *)
  Lemma insert_le_filter k x : forall l,
    filter (fun y => Nat.eqb (key y) k) (insert_le le x l) = filter (fun y => Nat.eqb (key y) k) (x :: l).
  Proof.
    induction l as [|y r IH]; cbn [insert_le]; [reflexivity|].
    destruct (le x y) eqn:E; [reflexivity|]. unfold le in E. apply PeanoNat.Nat.leb_gt in E.
    cbn [filter] in *. rewrite IH.
    destruct (Nat.eqb (key x) k) eqn:Ex; destruct (Nat.eqb (key y) k) eqn:Ey; try reflexivity.
    apply PeanoNat.Nat.eqb_eq in Ex, Ey. lia.
  Qed.

  Theorem sort_by_key_stable k l :
    filter (fun y => Nat.eqb (key y) k) (sort_by_key key l) = filter (fun y => Nat.eqb (key y) k) l.
  Proof.
    unfold sort_by_key, sort_le. fold le.
    induction l as [|x r IH]; cbn [fold_right]; [reflexivity|].
    rewrite insert_le_filter. cbn [filter]. now rewrite IH.
  Qed.

  (* the same for any predicate that is a function of the key class *)
  Corollary sort_by_key_stable_pred (p : A -> bool) k l :
    (forall x, p x = Nat.eqb (key x) k) ->
    filter p (sort_by_key key l) = filter p l.
  Proof.
    intro Hp. rewrite (filter_ext _ _ Hp (sort_by_key key l)), (filter_ext _ _ Hp l).
    apply sort_by_key_stable.
  Qed.

  (* in a sorted list an element of larger key never precedes one of smaller key *)
  Lemma sorted_split_le l1 a l2 b l3 :
    StronglySorted key_le (l1 ++ a :: l2 ++ b :: l3) -> key a <= key b.
  Proof.
    induction l1 as [|x l1 IH]; cbn [app]; intro Hs; inversion Hs as [|? ? Hr Hall]; subst.
    - rewrite Forall_forall in Hall. apply Hall. apply in_or_app. right. now left.
    - now apply IH.
  Qed.
End SortByKey.
