(* C14, first half: MigrationPlan::with_prefix against the literally renamed project, the D10 witness,
   and normalisation of a literally renamed table. *)
From VV.M1 Require Import Oracles PrefixHyp PrefixStrP.
From Coq Require Import Lia.

(* ---------- 0. strings: rev_string, split_on, parse_ref ---------- *)
Definition no_dot (p : string) : Prop := contains_char "."%char p = false.

(* rev_string *)
Lemma rsa_app s : forall a b, rev_string_acc s (a +++ b) = rev_string_acc s a +++ b.
Proof. induction s as [|c s IH]; intros a b; cbn [rev_string_acc]; [reflexivity|]. exact (IH (String c a) b). Qed.
Lemma rsa_rev s acc : rev_string_acc s acc = rev_string s +++ acc.
Proof. unfold rev_string. now rewrite <- rsa_app. Qed.
Lemma append_nil_r s : s +++ "" = s.
Proof. induction s as [|c s IH]; cbn [String.append]; [reflexivity | now rewrite IH]. Qed.
Lemma append_assoc a b c : (a +++ b) +++ c = a +++ b +++ c.
Proof. induction a as [|x a IH]; cbn [String.append]; [reflexivity | now rewrite IH]. Qed.
Lemma rev_string_cons c s : rev_string (String c s) = rev_string s +++ String c "".
Proof. unfold rev_string at 1. cbn [rev_string_acc]. apply rsa_rev. Qed.
Lemma rev_string_app a : forall b, rev_string (a +++ b) = rev_string b +++ rev_string a.
Proof.
  induction a as [|c a IH]; intro b; cbn [String.append].
  - change (rev_string "") with "". now rewrite append_nil_r.
  - now rewrite !rev_string_cons, IH, append_assoc.
Qed.
Lemma rev_string_invol s : rev_string (rev_string s) = s.
Proof.
  induction s as [|c s IH]; [reflexivity|].
  rewrite rev_string_cons, rev_string_app, IH. reflexivity.
Qed.

(* split_on *)
Lemma split_aux_nonempty c s : forall cur, split_on_aux c s cur <> [].
Proof.
  induction s as [|a s IH]; intro cur; cbn [split_on_aux]; [discriminate|].
  destruct (Ascii.eqb a c); [discriminate | apply IH].
Qed.

Lemma split_aux_join c s : forall cur,
  join (String c "") (split_on_aux c s cur) = rev_string cur +++ s.
Proof.
  induction s as [|a s IH]; intro cur; cbn [split_on_aux].
  - cbn [join]. now rewrite append_nil_r.
  - destruct (Ascii.eqb a c) eqn:E.
    + apply Ascii.eqb_eq in E. subst a.
      specialize (IH ""). destruct (split_on_aux c s "") as [|y l] eqn:Es; [now apply split_aux_nonempty in Es|].
      cbn [join]. cbn [join] in IH. rewrite IH. reflexivity.
    + rewrite IH, rev_string_cons, append_assoc. reflexivity.
Qed.

Lemma split_aux_cur c s : forall cur cur',
  split_on_aux c s (cur +++ cur')
  = match split_on_aux c s cur with x :: r => (rev_string cur' +++ x) :: r | [] => [] end.
Proof.
  induction s as [|a s IH]; intros cur cur'; cbn [split_on_aux].
  - now rewrite rev_string_app.
  - destruct (Ascii.eqb a c).
    + now rewrite rev_string_app.
    + exact (IH (String a cur) cur').
Qed.

Lemma split_aux_nodot p : no_dot p -> forall s cur,
  split_on_aux "."%char (p +++ s) cur = split_on_aux "."%char s (rev_string p +++ cur).
Proof.
  unfold no_dot. induction p as [|a p IH]; intros Hp s cur; [reflexivity|].
  cbn [contains_char] in Hp. apply orb_false_elim in Hp. destruct Hp as [Ha Hp].
  cbn [String.append split_on_aux]. rewrite Ha. rewrite (IH Hp).
  now rewrite rev_string_cons, append_assoc.
Qed.

Lemma split_on_prefix p s : no_dot p ->
  split_on "."%char (p +++ s)
  = match split_on "."%char s with x :: r => (p +++ x) :: r | [] => [] end.
Proof.
  intro Hp. unfold split_on. rewrite (split_aux_nodot p Hp).
  replace (rev_string p +++ "") with ("" +++ rev_string p) by (now rewrite append_nil_r).
  now rewrite split_aux_cur, rev_string_invol.
Qed.

Lemma split_on_join s : join "." (split_on "."%char s) = s.
Proof. unfold split_on. exact (split_aux_join "."%char s ""). Qed.

Lemma parse_ref_shape s t c : parse_ref s = Some (t, c) ->
  s = t +++ "." +++ c /\ split_on "."%char s = [t; c] /\ t <> "".
Proof.
  unfold parse_ref. intro H. pose proof (split_on_join s) as J.
  destruct (split_on "."%char s) as [|a [|b [|x l]]]; try discriminate.
  destruct (String.eqb a "") eqn:Ea; [discriminate|].
  destruct (String.eqb b ""); [discriminate|]. cbn [orb] in H.
  injection H as Ht Hc. rewrite Ht in *. rewrite Hc in *.
  cbn [join] in J. repeat split; [now symmetry | now apply String.eqb_neq].
Qed.

Lemma prefix_nonempty p t : t <> "" -> p +++ t <> "".
Proof. destruct p; cbn [String.append]; [tauto | discriminate]. Qed.

Definition pre_ref (p : string) (tc : string * string) : string * string := (p +++ fst tc, snd tc).

Lemma parse_ref_literal p s : no_dot p ->
  parse_ref (literal_ref p s) = option_map (pre_ref p) (parse_ref s).
Proof.
  intro Hp. unfold literal_ref. destruct (parse_ref s) as [[t c]|] eqn:E; [|now rewrite E].
  destruct (parse_ref_shape s t c E) as (Hs & Hsp & Ht).
  cbn [option_map pre_ref fst snd]. rewrite <- append_assoc.
  replace ((p +++ t) +++ "." +++ c) with (p +++ s) by (now rewrite Hs, append_assoc).
  unfold parse_ref in *. rewrite (split_on_prefix p s Hp), Hsp. rewrite Hsp in E.
  apply (prefix_nonempty p) in Ht. apply String.eqb_neq in Ht. rewrite Ht.
  destruct (String.eqb t ""); [discriminate|]. cbn [orb] in *.
  destruct (String.eqb c ""); [discriminate | reflexivity].
Qed.

Lemma literal_ref_none p s : parse_ref s = None -> literal_ref p s = s.
Proof. unfold literal_ref. now intros ->. Qed.

(* ---------- 1. with_prefix is the literal renaming when every inline FK is well formed ---------- *)
(* a well-formed reference is re-assembled to itself, so the literal renaming is plain concatenation *)
Lemma literal_ref_parses p s : parse_ref s <> None -> literal_ref p s = p +++ s.
Proof.
  intro H. unfold literal_ref. destruct (parse_ref s) as [[t c]|] eqn:E; [|congruence].
  destruct (parse_ref_shape s t c E) as (Hs & _ & _). rewrite Hs. reflexivity.
Qed.

Lemma prefix_inline_fk_is_literal p c : inline_fk_parses_col c = true -> prefix_inline_fk p c = literal_col p c.
Proof.
  unfold inline_fk_parses_col, prefix_inline_fk, literal_col.
  destruct (c_foreign_key c) as [f|]; [|reflexivity]. intro H. cbn [option_map]. do 2 f_equal.
  destruct f as [s|s od ou|t cs od ou]; cbn [fk_parses literal_fk] in *; [| |reflexivity].
  - rewrite literal_ref_parses; [reflexivity|]. destruct (parse_ref s); [discriminate | discriminate H].
  - rewrite literal_ref_parses; [reflexivity|]. destruct (parse_ref s); [discriminate | discriminate H].
Qed.

Lemma prefix_inline_fks_are_literal p cols : forallb inline_fk_parses_col cols = true ->
  map (prefix_inline_fk p) cols = map (literal_col p) cols.
Proof.
  induction cols as [|c r IH]; cbn [forallb map]; intro H; [reflexivity|].
  apply andb_prop in H. destruct H as [Hc Hr]. now rewrite (prefix_inline_fk_is_literal p c Hc), (IH Hr).
Qed.

Lemma literal_col_id p c : no_inline_fk_col c = true -> literal_col p c = c.
Proof.
  destruct c as [n ty nu d cm pk u ix fk]. unfold no_inline_fk_col, literal_col, set_fk.
  cbn [c_foreign_key c_name c_type c_nullable c_default c_comment c_primary_key c_unique c_index].
  destruct fk; [discriminate | reflexivity].
Qed.

Lemma constraint_with_prefix_is_literal p k : p <> "" -> constraint_with_prefix p k = literal_constraint p k.
Proof.
  intro Hp. unfold constraint_with_prefix. apply String.eqb_neq in Hp. now rewrite Hp.
Qed.

Theorem with_prefix_is_literal : forall p a, p <> "" -> inline_fks_parse a = true ->
  action_with_prefix p a = literal_action p a.
Proof.
  intros p a Hp Hn. unfold action_with_prefix. pose proof Hp as Hp'. apply String.eqb_neq in Hp'. rewrite Hp'.
  destruct a; cbn [literal_action inline_fks_parse] in *; try reflexivity.
  - rewrite (prefix_inline_fks_are_literal p _ Hn). f_equal. apply map_ext. intro k.
    now apply constraint_with_prefix_is_literal.
  - now rewrite (prefix_inline_fk_is_literal p _ Hn).
  - now rewrite constraint_with_prefix_is_literal.
  - now rewrite constraint_with_prefix_is_literal.
Qed.

(* the hypothesis of the pre-repair theorem is a special case *)
Lemma no_inline_fk_parses a : no_inline_fk a = true -> inline_fks_parse a = true.
Proof.
  assert (Hc : forall c, no_inline_fk_col c = true -> inline_fk_parses_col c = true).
  { intros c. unfold no_inline_fk_col, inline_fk_parses_col. now destruct (c_foreign_key c). }
  destruct a; cbn [no_inline_fk inline_fks_parse]; try reflexivity; [|apply Hc].
  induction columns as [|c r IH]; cbn [forallb]; [reflexivity|].
  intro H. apply andb_prop in H. destruct H as [H1 H2]. now rewrite (Hc c H1), (IH H2).
Qed.

Corollary with_prefix_is_literal_no_inline_fk : forall p a, p <> "" -> no_inline_fk a = true ->
  action_with_prefix p a = literal_action p a.
Proof. intros p a Hp Hn. apply with_prefix_is_literal; [exact Hp | now apply no_inline_fk_parses]. Qed.

Corollary plan_with_prefix_is_literal : forall p pl, p <> "" ->
  forallb inline_fks_parse (p_actions pl) = true ->
  p_actions (plan_with_prefix p pl) = map (literal_action p) (p_actions pl).
Proof.
  intros p pl Hp Hn. unfold plan_with_prefix. pose proof Hp as Hp'. apply String.eqb_neq in Hp'. rewrite Hp'.
  cbn [p_actions]. induction (p_actions pl) as [|a r IH]; [reflexivity|].
  cbn [forallb map] in *. apply andb_prop in Hn. destruct Hn as [Ha Hr].
  now rewrite (with_prefix_is_literal p a Hp Ha), (IH Hr).
Qed.

(* the hypothesis is what normalisation enforces: a table that normalises has well-formed inline FKs *)
Lemma pass_fk_ok_parses cols : forall cs cs', pass_fk cols cs = Ok cs' ->
  forallb inline_fk_parses_col cols = true.
Proof.
  induction cols as [|c r IH]; intros cs cs' H; [reflexivity|].
  cbn [pass_fk] in H. cbn [forallb]. unfold inline_fk_parses_col at 1.
  destruct (c_foreign_key c) as [f|]; [|now rewrite (IH _ _ H)].
  destruct (fk_of_syntax (c_name c) f) as [[[[t rc] od] ou]|e] eqn:E; [|discriminate].
  assert (Hf : fk_parses f = true).
  { destruct f as [s|s od' ou'|]; cbn [fk_of_syntax fk_parses] in *; try reflexivity;
      destruct (parse_ref s) as [[a b]|]; try reflexivity; discriminate E. }
  rewrite Hf. destruct (existsb (fk_hit (c_name c)) cs); now rewrite (IH _ _ H).
Qed.

Lemma normalize_ok_parses t n : normalize t = Ok n -> forallb inline_fk_parses_col (t_columns t) = true.
Proof.
  unfold normalize, normalize_constraints. intro H.
  destruct (pass_fk (t_columns t) _) as [cs3|e] eqn:E; [|discriminate].
  eapply pass_fk_ok_parses; exact E.
Qed.

(* a CreateTable that apply_action accepts satisfies the hypothesis *)
Lemma applied_create_parses s t cols ks s' :
  apply_action s (CreateTable t cols ks) = Ok s' -> inline_fks_parse (CreateTable t cols ks) = true.
Proof.
  cbn [apply_action inline_fks_parse]. destruct (has_table t s); [discriminate|].
  destruct (normalize (mkTable t None cols ks)) as [n|e] eqn:E; [|discriminate]. intros _.
  exact (normalize_ok_parses _ _ E).
Qed.

(* ---------- 2. D10 after the repair ---------- *)
Definition d10_user : table_def :=
  mkTable "user" None [mkCol "id" (TSimple Integer) false None None (Some (PKBool true)) None None None] [].
Definition d10_create (r : string) : action :=
  CreateTable "post"
    [mkCol "id" (TSimple Integer) false None None (Some (PKBool true)) None None None;
     mkCol "user_id" (TSimple Integer) false None None None None None (Some (FKStr r))] [].
Definition d10_action : action := d10_create "user.id".

(* the foreign-key targets of the table called [n] in the schema an action list leads to *)
Definition fk_targets_of (n : string) (r : result schema planner_error) : option (list string) :=
  match r with
  | Ok s => option_map fk_targets (find (fun t => String.eqb (t_name t) n) s)
  | Err _ => None
  end.

(* the former witness of D10: the inline FK is rewritten now *)
Theorem inline_fk_fixed :
  no_inline_fk d10_action = false
  /\ inline_fks_parse d10_action = true
  /\ action_with_prefix "app_" d10_action = literal_action "app_" d10_action
  /\ fk_targets_of "app_post"
       (apply_action (literal_schema "app_" [d10_user]) (action_with_prefix "app_" d10_action))
     = Some ["app_user"].
Proof. repeat split; vm_compute; reflexivity. Qed.

(* the remaining corner, harmless form: a malformed reference with two dots is prefixed blindly by
   with_prefix and left alone by the literal renaming; normalisation rejects it either way *)
Theorem malformed_inline_fk_refuted :
  inline_fks_parse (d10_create "a.b.c") = false
  /\ action_with_prefix "app_" (d10_create "a.b.c") <> literal_action "app_" (d10_create "a.b.c")
  /\ apply_action [d10_user] (d10_create "a.b.c") = Err TableValidation
  /\ apply_action (literal_schema "app_" [d10_user]) (literal_action "app_" (d10_create "a.b.c")) = Err TableValidation
  /\ apply_action (literal_schema "app_" [d10_user]) (action_with_prefix "app_" (d10_create "a.b.c")) = Err TableValidation.
Proof.
  split; [vm_compute; reflexivity|].
  split; [vm_compute; intro H; discriminate H|].
  repeat split; vm_compute; reflexivity.
Qed.

(* the remaining corner, not harmless: the reference ".x" (empty table part) is rejected without a prefix
   and by the literally renamed project, but with_prefix turns it into the well-formed "app_.x", so the
   prefixed plan is accepted and references a table called "app_" *)
Theorem empty_table_inline_fk_refuted :
  inline_fks_parse (d10_create ".x") = false
  /\ apply_action [d10_user] (d10_create ".x") = Err TableValidation
  /\ apply_action (literal_schema "app_" [d10_user]) (literal_action "app_" (d10_create ".x")) = Err TableValidation
  /\ fk_targets_of "app_post"
       (apply_action (literal_schema "app_" [d10_user]) (action_with_prefix "app_" (d10_create ".x")))
     = Some ["app_"].
Proof. repeat split; vm_compute; reflexivity. Qed.

(* ---------- 4. normalisation of a literally renamed table ---------- *)
Definition pre_fk (p : string) (v : string * list string * option ref_action * option ref_action) :=
  match v with (t, rc, od, ou) => (p +++ t, rc, od, ou) end.

Lemma fk_of_syntax_literal p n f : no_dot p ->
  fk_of_syntax n (literal_fk p f)
  = match fk_of_syntax n f with Ok v => Ok (pre_fk p v) | Err e => Err e end.
Proof.
  intro Hp. destruct f as [s|s od ou|t cs od ou]; cbn [literal_fk fk_of_syntax]; [| |reflexivity].
  - rewrite (parse_ref_literal p s Hp).
    destruct (parse_ref s) as [[t c]|] eqn:E; cbn [option_map pre_ref fst snd pre_fk]; [reflexivity|].
    now rewrite (literal_ref_none p s E).
  - rewrite (parse_ref_literal p s Hp).
    destruct (parse_ref s) as [[t c]|] eqn:E; cbn [option_map pre_ref fst snd pre_fk]; [reflexivity|].
    now rewrite (literal_ref_none p s E).
Qed.

(* projections of a literally renamed column *)
Lemma lc_name p c : c_name (literal_col p c) = c_name c. Proof. reflexivity. Qed.
Lemma lc_type p c : c_type (literal_col p c) = c_type c. Proof. reflexivity. Qed.
Lemma lc_nullable p c : c_nullable (literal_col p c) = c_nullable c. Proof. reflexivity. Qed.
Lemma lc_default p c : c_default (literal_col p c) = c_default c. Proof. reflexivity. Qed.
Lemma lc_comment p c : c_comment (literal_col p c) = c_comment c. Proof. reflexivity. Qed.
Lemma lc_pk p c : c_primary_key (literal_col p c) = c_primary_key c. Proof. reflexivity. Qed.
Lemma lc_unique p c : c_unique (literal_col p c) = c_unique c. Proof. reflexivity. Qed.
Lemma lc_index p c : c_index (literal_col p c) = c_index c. Proof. reflexivity. Qed.
Lemma lc_fk p c : c_foreign_key (literal_col p c) = option_map (literal_fk p) (c_foreign_key c).
Proof. reflexivity. Qed.

Lemma lk_is_pk p k : is_pk (literal_constraint p k) = is_pk k.
Proof. now destruct k. Qed.
Lemma lk_columns p k : constraint_columns (literal_constraint p k) = constraint_columns k.
Proof. now destruct k. Qed.

(* pass 1 *)
Lemma pk_cols_literal p cols : pk_cols_of (map (literal_col p) cols) = pk_cols_of cols.
Proof. unfold pk_cols_of. rewrite flat_map_map. reflexivity. Qed.
Lemma pk_auto_literal p cols : pk_auto_of (map (literal_col p) cols) = pk_auto_of cols.
Proof. unfold pk_auto_of. rewrite existsb_map. reflexivity. Qed.
Lemma pass_pk_literal p cols cs :
  pass_pk (map (literal_col p) cols) (map (literal_constraint p) cs)
  = map (literal_constraint p) (pass_pk cols cs).
Proof.
  unfold pass_pk. rewrite pk_cols_literal, pk_auto_literal.
  destruct (pk_cols_of cols) as [|x l]; [reflexivity|].
  rewrite existsb_map. rewrite (existsb_ext_in _ is_pk) by (intros k _; apply lk_is_pk).
  destruct (existsb is_pk cs); [reflexivity|]. now rewrite map_app.
Qed.

(* the generic push fold *)
Lemma push_fold_literal {B} (hit : B -> table_constraint -> bool) (mk : B -> table_constraint) p :
  (forall b k, hit b (literal_constraint p k) = hit b k) ->
  (forall b, literal_constraint p (mk b) = mk b) ->
  forall bs acc,
    fold_left (push_if_absent hit mk) bs (map (literal_constraint p) acc)
    = map (literal_constraint p) (fold_left (push_if_absent hit mk) bs acc).
Proof.
  intros Hh Hm. induction bs as [|b bs IH]; intro acc; [reflexivity|].
  cbn [fold_left]. rewrite <- IH. f_equal.
  unfold push_if_absent. rewrite existsb_map.
  rewrite (existsb_ext_in _ (hit b)) by (intros k _; apply Hh).
  destruct (existsb (hit b) acc); [reflexivity|]. rewrite map_app. cbn [map]. now rewrite Hm.
Qed.

(* pass 2 *)
Lemma unique_groups_literal p cols : unique_groups (map (literal_col p) cols) = unique_groups cols.
Proof.
  unfold unique_groups. generalize (@nil group).
  induction cols as [|c r IH]; intro gs; [reflexivity|]. cbn [map fold_left]. exact (IH _).
Qed.
Lemma pass_unique_literal p cols cs :
  pass_unique (map (literal_col p) cols) (map (literal_constraint p) cs)
  = map (literal_constraint p) (pass_unique cols cs).
Proof.
  unfold pass_unique. rewrite unique_groups_literal. apply push_fold_literal.
  - intros g k. now destruct k.
  - reflexivity.
Qed.

(* pass 3 *)
Lemma lk_fk_hit p n k : fk_hit n (literal_constraint p k) = fk_hit n k.
Proof. now destruct k. Qed.

Lemma pass_fk_literal p cols : no_dot p -> forall cs,
  pass_fk (map (literal_col p) cols) (map (literal_constraint p) cs)
  = match pass_fk cols cs with Ok r => Ok (map (literal_constraint p) r) | Err e => Err e end.
Proof.
  intro Hp. induction cols as [|c r IH]; intro cs; [reflexivity|].
  cbn [map pass_fk]. rewrite lc_fk, lc_name.
  destruct (c_foreign_key c) as [f|]; cbn [option_map]; [|apply IH].
  rewrite (fk_of_syntax_literal p (c_name c) f Hp).
  destruct (fk_of_syntax (c_name c) f) as [[[[t rc] od] ou]|e]; [|reflexivity].
  cbn [pre_fk]. rewrite existsb_map.
  rewrite (existsb_ext_in _ (fk_hit (c_name c))) by (intros k _; apply lk_fk_hit).
  destruct (existsb (fk_hit (c_name c)) cs); [apply IH|].
  rewrite <- IH. now rewrite map_app.
Qed.

(* pass 4 *)
Lemma index_groups_literal p cols : forall gs,
  index_groups (map (literal_col p) cols) gs = index_groups cols gs.
Proof.
  induction cols as [|c r IH]; intro gs; [reflexivity|].
  cbn [map index_groups].
  change (index_groups_step gs (literal_col p c)) with (index_groups_step gs c).
  destruct (index_groups_step gs c); [apply IH | reflexivity].
Qed.

Lemma normalize_constraints_literal p cols cs : no_dot p ->
  normalize_constraints (map (literal_col p) cols) (map (literal_constraint p) cs)
  = match normalize_constraints cols cs with
    | Ok r => Ok (map (literal_constraint p) r)
    | Err e => Err e
    end.
Proof.
  intro Hp. unfold normalize_constraints.
  rewrite pass_pk_literal, pass_unique_literal, (pass_fk_literal p cols Hp), index_groups_literal.
  destruct (pass_fk cols (pass_unique cols (pass_pk cols cs))) as [cs3|e]; [|reflexivity].
  destruct (index_groups cols []) as [gs|e]; [|reflexivity].
  f_equal. apply push_fold_literal.
  - intros g k. now destruct k.
  - reflexivity.
Qed.

Theorem normalize_literal_full : forall p t, no_dot p ->
  normalize (literal_table p t)
  = match normalize t with Ok n => Ok (literal_table p n) | Err e => Err e end.
Proof.
  intros p t Hp. unfold normalize.
  replace (t_columns (literal_table p t)) with (map (literal_col p) (t_columns t)) by reflexivity.
  replace (t_constraints (literal_table p t)) with (map (literal_constraint p) (t_constraints t)) by reflexivity.
  rewrite (normalize_constraints_literal p _ _ Hp).
  destruct (normalize_constraints (t_columns t) (t_constraints t)); reflexivity.
Qed.

Theorem normalize_literal : forall p t n, no_dot p ->
  normalize t = Ok n -> normalize (literal_table p t) = Ok (literal_table p n).
Proof. intros p t n Hp H. now rewrite (normalize_literal_full p t Hp), H. Qed.

(* the error is preserved too, with the very same payload: [literal_ref] leaves a malformed reference
   alone, and a well-formed one stays well-formed *)
Theorem normalize_literal_err : forall p t e, no_dot p ->
  normalize t = Err e -> normalize (literal_table p t) = Err e.
Proof. intros p t e Hp H. now rewrite (normalize_literal_full p t Hp), H. Qed.

(* the side condition is needed: with a dot in the prefix a valid inline reference becomes invalid *)
Theorem normalize_literal_dot_refuted :
  exists p t n, ~ no_dot p /\ normalize t = Ok n /\
    normalize (literal_table p t) = Err (InvalidForeignKeyFormat "user_id" "a.user.id").
Proof.
  exists "a.", (mkTable "post" None
    [mkCol "user_id" (TSimple Integer) false None None None None None (Some (FKStr "user.id"))] []).
  eexists. split; [vm_compute; discriminate|]. split; vm_compute; reflexivity.
Qed.
