(* Proofs about the dependency orderings of the planner (diff.rs:13-295): the fuelled Kahn sort never
   runs out of fuel, its output is duplicate free and respects the dependency map; consequences for
   topological_sort_tables, sort_create_before_add_constraint and the CreateTable actions of a diff;
   concrete refutations of the false parts of C06. *)
From VV.M1 Require Import Diff Validate Oracles BtP SortKeyP.
From Coq Require Import Lia Permutation Sorted.

(* ---------- small list facts ---------- *)
Lemma mem_str_In x l : mem_str x l = true <-> In x l.
Proof.
  unfold mem_str. rewrite existsb_exists. split.
  - intros [y [Hy E]]. apply String.eqb_eq in E. now subst.
  - intro H. exists x. split; [exact H | apply String.eqb_refl].
Qed.
Lemma mem_str_false x l : mem_str x l = false <-> ~ In x l.
Proof. rewrite <- mem_str_In. destruct (mem_str x l); split; congruence. Qed.

Lemma bs_of_list_nodup l : NoDup (bs_of_list l).
Proof. unfold bs_of_list. apply bt_sorted_nodup, bt_of_list_sorted. Qed.

Lemma nodup_keys_fun {V} (m : list (string * V)) k v v' :
  NoDup (map fst m) -> In (k, v) m -> In (k, v') m -> v = v'.
Proof.
  intros Hnd H1 H2. pose proof (bt_get_nodup _ _ _ Hnd H1) as G1.
  pose proof (bt_get_nodup _ _ _ Hnd H2) as G2. congruence.
Qed.

Lemma in_keys {V} (m : list (string * V)) k v : In (k, v) m -> In k (map fst m).
Proof. intro H. change k with (fst (k, v)). now apply in_map. Qed.

Lemma nodup_map_filter {A B} (f : A -> B) p : forall l, NoDup (map f l) -> NoDup (map f (filter p l)).
Proof.
  induction l as [|x r IH]; cbn [map filter]; intro H; [constructor|].
  inversion H as [|? ? Hni Hr]; subst. destruct (p x); [|now apply IH].
  cbn [map]. constructor; [|now apply IH]. intro Hin. apply Hni.
  apply in_map_iff in Hin. destruct Hin as [y [Ey Hy]]. apply filter_In in Hy.
  apply in_map_iff. exists y. tauto.
Qed.

Lemma nodup_app_l {A} (a b : list A) : NoDup (a ++ b) -> NoDup a.
Proof.
  induction a as [|x a IH]; cbn [app]; intro H; [constructor|].
  inversion H as [|? ? Hx Hr]; subst. constructor; [|now apply IH].
  intro Hin. apply Hx. apply in_or_app. now left.
Qed.
Lemma nodup_app_intro {A} (a b : list A) :
  NoDup a -> NoDup b -> (forall x, In x b -> ~ In x a) -> NoDup (a ++ b).
Proof.
  induction a as [|x a IH]; cbn [app]; intros Ha Hb F; [exact Hb|].
  inversion Ha as [|? ? Hx Hr]; subst. constructor.
  - intro H. apply in_app_or in H. destruct H as [H|H]; [contradiction|]. apply (F x H). now left.
  - apply IH; auto. intros y Hy Hin. apply (F y Hy). now right.
Qed.

(* counting: distinct popped names inside a dependency list *)
Lemma count_lt x ds acc : NoDup acc -> ~ In x acc -> mem_str x ds = true ->
  List.length (filter (fun p => mem_str p ds) acc) < List.length ds.
Proof.
  intros Hnd Hx Hm.
  assert (N : NoDup (x :: filter (fun p => mem_str p ds) acc)).
  { constructor; [|now apply NoDup_filter]. intro H. apply filter_In in H. tauto. }
  assert (I : incl (x :: filter (fun p => mem_str p ds) acc) ds).
  { intros y [<-|Hy]; [now apply mem_str_In|]. apply filter_In in Hy. now apply mem_str_In. }
  pose proof (NoDup_incl_length N I) as L. cbn [List.length] in L. lia.
Qed.
Lemma count_full ds acc : NoDup acc ->
  List.length (filter (fun p => mem_str p ds) acc) = List.length ds ->
  forall d, In d ds -> In d acc.
Proof.
  intros Hnd E d Hd.
  assert (I : incl ds (filter (fun p => mem_str p ds) acc)).
  { apply NoDup_length_incl; [now apply NoDup_filter | lia |].
    intros y Hy. apply filter_In in Hy. now apply mem_str_In. }
  specialize (I d Hd). apply filter_In in I. tauto.
Qed.

(* ---------- one relaxation round ---------- *)
Lemma kahn_relax_spec x : forall deps deg deg' ready,
  NoDup (map fst deps) ->
  kahn_relax x deps deg = (deg', ready) ->
  (forall n, ~ In n (map fst deps) -> bt_get n deg' = bt_get n deg) /\
  (forall n ds, In (n, ds) deps -> mem_str x ds = false -> bt_get n deg' = bt_get n deg) /\
  (forall n ds, In (n, ds) deps -> mem_str x ds = true ->
     bt_get n deg' = option_map Nat.pred (bt_get n deg)) /\
  (forall n, In n ready <->
     exists ds d, In (n, ds) deps /\ mem_str x ds = true /\ bt_get n deg = Some d /\ Nat.pred d = 0).
Proof.
  induction deps as [|[dep ds0] r IH]; intros deg deg' ready Hnd H.
  - cbn [kahn_relax] in H. inversion H; subst.
    split; [reflexivity|]. split; [intros n ds []|]. split; [intros n ds []|].
    intro n. split; [intros [] | intros [ds [d [[] _]]]].
  - cbn [map fst] in Hnd. inversion Hnd as [|? ? Hni Hnd']; subst.
    cbn [kahn_relax] in H.
    assert (Skip : kahn_relax x r deg = (deg', ready) ->
              (mem_str x ds0 = false \/ bt_get dep deg = None) ->
      (forall n, ~ In n (map fst ((dep, ds0) :: r)) -> bt_get n deg' = bt_get n deg) /\
      (forall n ds, In (n, ds) ((dep, ds0) :: r) -> mem_str x ds = false -> bt_get n deg' = bt_get n deg) /\
      (forall n ds, In (n, ds) ((dep, ds0) :: r) -> mem_str x ds = true ->
         bt_get n deg' = option_map Nat.pred (bt_get n deg)) /\
      (forall n, In n ready <->
         exists ds d, In (n, ds) ((dep, ds0) :: r) /\ mem_str x ds = true /\ bt_get n deg = Some d /\ Nat.pred d = 0)).
    { intros H' Hwhy. destruct (IH _ _ _ Hnd' H') as [I1 [I2 [I3 I4]]].
      repeat split.
      - intros n Hn. apply I1. intro. apply Hn. now right.
      - intros n ds [E|Hin] Hm; [inversion E; subst; apply I1; exact Hni | eapply I2; eauto].
      - intros n ds [E|Hin] Hm; [|eapply I3; eauto]. inversion E; subst.
        destruct Hwhy as [Hw|Hw]; [congruence|]. rewrite (I1 _ Hni), Hw. reflexivity.
      - intro Hn. apply I4 in Hn. destruct Hn as [ds [d [Hin Hrest]]]. exists ds, d. split; [now right|exact Hrest].
      - intros [ds [d [[E|Hin] [Hm [Hg Hp]]]]].
        + inversion E; subst. destruct Hwhy as [Hw|Hw]; congruence.
        + apply I4. exists ds, d. tauto. }
    destruct (mem_str x ds0) eqn:Em; [|apply Skip; auto].
    destruct (bt_get dep deg) as [d0|] eqn:Eg; [|apply Skip; auto]. clear Skip.
    destruct (kahn_relax x r (bt_insert dep (Nat.pred d0) deg)) as [deg'' ready'] eqn:Er.
    inversion H; subst deg'' ready; clear H.
    destruct (IH _ _ _ Hnd' Er) as [I1 [I2 [I3 I4]]].
    assert (Other : forall n, n <> dep -> bt_get n (bt_insert dep (Nat.pred d0) deg) = bt_get n deg).
    { intros n Hn. rewrite bt_get_insert. apply String.eqb_neq in Hn. now rewrite Hn. }
    assert (Neq : forall n ds, In (n, ds) r -> n <> dep).
    { intros n ds Hin ->. apply Hni. eapply in_keys; eauto. }
    repeat split.
    + intros n Hn. rewrite I1; [|intro; apply Hn; now right]. apply Other. intros ->. apply Hn. now left.
    + intros n ds [E|Hin] Hm; [inversion E; subst; congruence|].
      rewrite (I2 _ _ Hin Hm). apply Other. eapply Neq; eauto.
    + intros n ds [E|Hin] Hm.
      * inversion E; subst. rewrite (I1 _ Hni), bt_get_insert, String.eqb_refl, Eg. reflexivity.
      * rewrite (I3 _ _ Hin Hm), Other; [reflexivity | eapply Neq; eauto].
    + intro Hn. destruct (Nat.eqb (Nat.pred d0) 0) eqn:E0.
      * destruct Hn as [<-|Hn].
        -- exists ds0, d0. apply PeanoNat.Nat.eqb_eq in E0. repeat split; auto. now left.
        -- apply I4 in Hn. destruct Hn as [ds [d [Hin [Hm [Hg Hp]]]]]. exists ds, d.
           rewrite Other in Hg by (eapply Neq; eauto). repeat split; auto. now right.
      * apply I4 in Hn. destruct Hn as [ds [d [Hin [Hm [Hg Hp]]]]]. exists ds, d.
        rewrite Other in Hg by (eapply Neq; eauto). repeat split; auto. now right.
    + intros [ds [d [[E|Hin] [Hm [Hg Hp]]]]].
      * inversion E; subst. rewrite Eg in Hg. inversion Hg; subst d.
        apply PeanoNat.Nat.eqb_eq in Hp. rewrite Hp. now left.
      * assert (Hr : In n ready').
        { apply I4. exists ds, d. rewrite Other by (eapply Neq; eauto). tauto. }
        destruct (Nat.eqb (Nat.pred d0) 0); [now right | exact Hr].
Qed.

(* ---------- the loop invariant ---------- *)
(* acc is the output so far, newest first: each name's dependencies lie deeper in acc *)
Fixpoint acc_ok (deps : deps_map) (acc : list string) : Prop :=
  match acc with
  | [] => True
  | x :: r => (forall ds d, In (x, ds) deps -> In d ds -> In d r) /\ acc_ok deps r
  end.

Record kinv (deps : deps_map) (deg : list (string * nat)) (queue acc : list string) : Prop := {
  kinv_nodup : NoDup (acc ++ queue);
  kinv_keys : incl (acc ++ queue) (map fst deps);
  kinv_deg : forall n ds, In (n, ds) deps ->
     exists d, bt_get n deg = Some d /\
               d + List.length (filter (fun p => mem_str p ds) acc) = List.length ds;
  kinv_zero : forall n ds, In (n, ds) deps -> (bt_get n deg = Some 0 <-> In n (acc ++ queue));
  kinv_order : acc_ok deps acc }.

Lemma kinv_init deps : NoDup (map fst deps) ->
  let deg := map (fun kv : string * list string => (fst kv, List.length (snd kv))) deps in
  kinv deps deg (map fst (filter (fun kv => Nat.eqb (snd kv) 0) deg)) [].
Proof.
  intros Hnd deg.
  assert (Hk : map fst deg = map fst deps).
  { unfold deg. rewrite map_map. reflexivity. }
  assert (Hg : forall n ds, In (n, ds) deps -> bt_get n deg = Some (List.length ds)).
  { intros n ds Hin. apply bt_get_nodup; [now rewrite Hk|].
    unfold deg. apply in_map_iff. exists (n, ds). split; [reflexivity|exact Hin]. }
  constructor; cbn [app].
  - apply nodup_map_filter. now rewrite Hk.
  - intros n Hn. apply in_map_iff in Hn. destruct Hn as [[k v] [E Hin]]. cbn [fst] in E. subst k.
    apply filter_In in Hin. rewrite <- Hk. eapply in_keys. exact (proj1 Hin).
  - intros n ds Hin. exists (List.length ds). split; [now apply Hg|]. cbn [filter List.length]. lia.
  - intros n ds Hin. rewrite (Hg _ _ Hin). split.
    + intro E. injection E as E0. apply in_map_iff. exists (n, 0). split; [reflexivity|].
      apply filter_In. split; [|reflexivity]. unfold deg. apply in_map_iff. exists (n, ds).
      cbn [fst snd]. rewrite E0. split; [reflexivity|exact Hin].
    + intro Hn. apply in_map_iff in Hn. destruct Hn as [[k v] [E Hf]]. cbn [fst] in E. subst k.
      apply filter_In in Hf. destruct Hf as [Hd Hv]. cbn [snd] in Hv. apply PeanoNat.Nat.eqb_eq in Hv. subst v.
      pose proof (bt_get_nodup _ _ _ (eq_ind_r (fun l => NoDup l) Hnd Hk) Hd) as G.
      rewrite (Hg _ _ Hin) in G. exact G.
  - exact I.
Qed.

Lemma kinv_step deps deg x q acc deg' ready :
  NoDup (map fst deps) ->
  kinv deps deg (x :: q) acc ->
  kahn_relax x deps deg = (deg', ready) ->
  kinv deps deg' (q ++ bs_of_list ready) (x :: acc).
Proof.
  intros Hnd [Knd Kk Kd Kz Ko] Hr.
  destruct (kahn_relax_spec x deps deg deg' ready Hnd Hr) as [S1 [S2 [S3 S4]]].
  assert (Nacc : NoDup acc) by (eapply nodup_app_l; exact Knd).
  assert (Nx : ~ In x acc).
  { intro H. apply NoDup_remove_2 in Knd. apply Knd. apply in_or_app. now left. }
  (* a dependant of x still had a positive degree *)
  assert (Pos : forall n ds d, In (n, ds) deps -> mem_str x ds = true -> bt_get n deg = Some d ->
            d + List.length (filter (fun p => mem_str p ds) acc) = List.length ds -> 1 <= d).
  { intros n ds d Hin Hm Hg Hc. pose proof (count_lt x ds acc Nacc Nx Hm). lia. }
  assert (Fresh : forall n, In n ready -> ~ In n (acc ++ x :: q)).
  { intros n Hn Hin. apply S4 in Hn. destruct Hn as [ds [d [Hd [Hm [Hg Hp]]]]].
    destruct (Kd _ _ Hd) as [d1 [Hg1 Hc]]. rewrite Hg in Hg1. inversion Hg1; subst d1.
    pose proof (Pos _ _ _ Hd Hm Hg Hc) as P. apply (Kz _ _ Hd) in Hin. rewrite Hg in Hin.
    inversion Hin. lia. }
  assert (Perm : Permutation (acc ++ x :: q) (x :: acc ++ q)).
  { apply Permutation_sym, Permutation_middle. }
  constructor.
  - (* NoDup *)
    cbn [app]. rewrite app_assoc. change (x :: (acc ++ q) ++ bs_of_list ready) with ((x :: acc ++ q) ++ bs_of_list ready).
    apply nodup_app_intro; [eapply Permutation_NoDup; [exact Perm|exact Knd] | apply bs_of_list_nodup |].
    intros n Hn Hin. apply (proj1 (bs_of_list_in _ _)) in Hn. apply (Fresh n Hn).
    eapply Permutation_in; [apply Permutation_sym; exact Perm|exact Hin].
  - (* keys *)
    intros n Hn. cbn [app] in Hn. destruct Hn as [<-|Hn].
    + apply Kk. apply in_or_app. right. now left.
    + rewrite app_assoc in Hn. apply in_app_or in Hn. destruct Hn as [Hn|Hn].
      * apply Kk. apply in_app_or in Hn. apply in_or_app. destruct Hn; [now left|right; now right].
      * apply (proj1 (bs_of_list_in _ _)) in Hn. apply (proj1 (S4 _)) in Hn. destruct Hn as [ds [d [Hd _]]]. eapply in_keys; eauto.
  - (* degrees *)
    intros n ds Hin. destruct (Kd _ _ Hin) as [d [Hg Hc]]. cbn [filter].
    destruct (mem_str x ds) eqn:Em.
    + exists (Nat.pred d). rewrite (S3 _ _ Hin Em), Hg. split; [reflexivity|].
      pose proof (Pos _ _ _ Hin Em Hg Hc). cbn [List.length]. lia.
    + exists d. rewrite (S2 _ _ Hin Em). split; [exact Hg|exact Hc].
  - (* zero degree <-> already queued or output *)
    intros n ds Hin. destruct (Kd _ _ Hin) as [d [Hg Hc]].
    assert (Old : In n (acc ++ x :: q) <-> In n ((x :: acc) ++ q)).
    { split; intro H; [eapply Permutation_in; [exact Perm|exact H] |
                       eapply Permutation_in; [apply Permutation_sym; exact Perm|exact H]]. }
    change ((x :: acc) ++ q ++ bs_of_list ready) with (x :: acc ++ q ++ bs_of_list ready).
    rewrite app_assoc. change (x :: (acc ++ q) ++ bs_of_list ready) with (((x :: acc) ++ q) ++ bs_of_list ready).
    rewrite in_app_iff, <- Old, <- (Kz _ _ Hin), bs_of_list_in, S4.
    destruct (mem_str x ds) eqn:Em.
    + rewrite (S3 _ _ Hin Em), Hg. cbn [option_map].
      pose proof (Pos _ _ _ Hin Em Hg Hc) as P. split.
      * intro E. inversion E as [E0]. right. exists ds, d. tauto.
      * intros [E|[ds' [d' [Hin' [Hm' [Hg' Hp']]]]]]; [inversion E; lia|].
        assert (Ed : d' = d) by congruence. subst d'. now rewrite Hp'.
    + rewrite (S2 _ _ Hin Em). split; [tauto|]. intros [E|[ds' [d' [Hin' [Hm' _]]]]]; [exact E|].
      rewrite (nodup_keys_fun _ _ _ _ Hnd Hin Hin') in Em. congruence.
  - (* order *)
    cbn [acc_ok]. split; [|exact Ko]. intros ds d Hin Hd.
    destruct (Kd _ _ Hin) as [d0 [Hg Hc]].
    assert (Z : bt_get x deg = Some 0).
    { apply (Kz _ _ Hin). apply in_or_app. right. now left. }
    rewrite Z in Hg. inversion Hg; subst d0. eapply count_full; eauto.
Qed.

Lemma kahn_loop_ok deps : NoDup (map fst deps) ->
  forall fuel deg queue acc,
  kinv deps deg queue acc ->
  List.length deps < fuel + List.length acc ->
  exists deg' acc', kahn_loop fuel deps deg queue acc = Some (rev acc') /\ kinv deps deg' [] acc'.
Proof.
  intros Hnd. induction fuel as [|f IH]; intros deg queue acc K Hf.
  - destruct queue as [|x q]; [exists deg, acc; split; [reflexivity|exact K]|].
    exfalso. pose proof (NoDup_incl_length (kinv_nodup _ _ _ _ K) (kinv_keys _ _ _ _ K)) as L.
    rewrite app_length, map_length in L. cbn [List.length] in L. lia.
  - destruct queue as [|x q]; [exists deg, acc; split; [reflexivity|exact K]|].
    cbn [kahn_loop]. destruct (kahn_relax x deps deg) as [deg' ready] eqn:Er.
    apply (IH deg'); [eapply kinv_step; eauto|]. cbn [List.length]. lia.
Qed.

Lemma kahn_final deps : NoDup (map fst deps) ->
  exists deg acc, kahn deps = Some (rev acc) /\ kinv deps deg [] acc.
Proof.
  intro Hnd. unfold kahn. apply kahn_loop_ok; [exact Hnd | now apply kinv_init | cbn [List.length]; lia].
Qed.

(* ---------- 1. the fuel suffices ---------- *)
Theorem kahn_fuel_enough deps : NoDup (map fst deps) -> kahn deps <> None.
Proof. intro Hnd. destruct (kahn_final deps Hnd) as [deg [acc [E _]]]. congruence. Qed.

(* ---------- 2. no duplicates, only keys ---------- *)
Theorem kahn_nodup deps order : NoDup (map fst deps) -> kahn deps = Some order ->
  NoDup order /\ incl order (map fst deps).
Proof.
  intros Hnd E. destruct (kahn_final deps Hnd) as [deg [acc [E' K]]].
  rewrite E in E'. inversion E'; subst order.
  pose proof (kinv_nodup _ _ _ _ K) as N. pose proof (kinv_keys _ _ _ _ K) as I.
  rewrite app_nil_r in N, I. split.
  - eapply Permutation_NoDup; [apply Permutation_rev|exact N].
  - intros n Hn. apply I. now apply in_rev.
Qed.

(* ---------- 3. every dependency precedes its dependant ---------- *)
Lemma acc_ok_split deps : forall acc, acc_ok deps acc ->
  forall n ds d, In (n, ds) deps -> In n acc -> In d ds ->
  exists a b c, acc = a ++ n :: b ++ d :: c.
Proof.
  induction acc as [|x r IH]; intros Hok n ds d Hin Hn Hd; [destruct Hn|].
  cbn [acc_ok] in Hok. destruct Hok as [Hx Hr]. destruct Hn as [->|Hn].
  - apply (Hx _ _ Hin) in Hd. apply in_split in Hd. destruct Hd as [b [c ->]]. now exists [], b, c.
  - destruct (IH Hr _ _ _ Hin Hn Hd) as [a [b [c ->]]]. now exists (x :: a), b, c.
Qed.

Theorem kahn_sound deps order : NoDup (map fst deps) -> kahn deps = Some order ->
  forall n ds d, In (n, ds) deps -> In n order -> In d ds ->
  exists l1 l2 l3, order = l1 ++ d :: l2 ++ n :: l3.
Proof.
  intros Hnd E n ds d Hin Hn Hd. destruct (kahn_final deps Hnd) as [deg [acc [E' K]]].
  rewrite E in E'. inversion E'; subst order. apply in_rev in Hn.
  destruct (acc_ok_split _ _ (kinv_order _ _ _ _ K) _ _ _ Hin Hn Hd) as [a [b [c ->]]].
  exists (rev c), (rev b), (rev a).
  rewrite rev_app_distr. cbn [rev]. rewrite rev_app_distr. cbn [rev].
  rewrite <- !app_assoc. cbn [app]. reflexivity.
Qed.

(* ---------- 5. completeness: an acyclic map is output entirely ---------- *)
(* Acyclicity is stated by a rank function (for a finite relation this is equivalent to the absence of
   a cycle); dependency lists are duplicate free and closed inside the key set, as topo_sort builds them. *)
Theorem kahn_complete deps (rank : string -> nat) :
  NoDup (map fst deps) ->
  (forall n ds, In (n, ds) deps -> NoDup ds /\ incl ds (map fst deps)) ->
  (forall n ds d, In (n, ds) deps -> In d ds -> rank d < rank n) ->
  exists order, kahn deps = Some order /\ Permutation order (map fst deps).
Proof.
  intros Hnd Hds Hrank. destruct (kahn_final deps Hnd) as [deg [acc [E K]]].
  exists (rev acc). split; [exact E|].
  pose proof (kinv_nodup _ _ _ _ K) as N. pose proof (kinv_keys _ _ _ _ K) as I.
  rewrite app_nil_r in N, I.
  assert (All : forall k n, rank n < k -> In n (map fst deps) -> In n acc).
  { induction k as [|k IHk]; intros n Hk Hn; [lia|].
    apply in_map_iff in Hn. destruct Hn as [[n' ds] [En Hin]]. cbn [fst] in En. subst n'.
    pose proof (kinv_zero _ _ _ _ K _ _ Hin) as Z. rewrite app_nil_r in Z. apply Z.
    destruct (kinv_deg _ _ _ _ K _ _ Hin) as [d [Hg Hc]]. rewrite Hg. f_equal.
    destruct (Hds _ _ Hin) as [Nds Ids].
    assert (L : List.length ds <= List.length (filter (fun p => mem_str p ds) acc)).
    { apply NoDup_incl_length; [exact Nds|]. intros y Hy. apply filter_In. split.
      - apply IHk; [|now apply Ids]. pose proof (Hrank _ _ _ Hin Hy). lia.
      - now apply mem_str_In. }
    lia. }
  apply Permutation_trans with acc; [apply Permutation_sym, Permutation_rev|].
  apply NoDup_Permutation_bis; [exact N| |exact I].
  apply NoDup_incl_length; [exact Hnd|]. intros n Hn. eapply All; [|exact Hn]. apply PeanoNat.Nat.lt_succ_diag_r.
Qed.

(* ---------- 4. topological_sort_tables ---------- *)
Lemma nodup_map_inj {A B} (f : A -> B) : forall l a b,
  NoDup (map f l) -> In a l -> In b l -> f a = f b -> a = b.
Proof.
  induction l as [|x r IH]; intros a b Hnd Ha Hb E; [destruct Ha|].
  cbn [map] in Hnd. inversion Hnd as [|? ? Hx Hr]; subst.
  destruct Ha as [->|Ha], Hb as [->|Hb]; auto.
  - exfalso. apply Hx. rewrite E. now apply in_map.
  - exfalso. apply Hx. rewrite <- E. now apply in_map.
Qed.

(* a split of the image of a map lifts to the list *)
Lemma map_split2 {A B} (f : A -> B) l l1 x l2 y l3 :
  map f l = l1 ++ x :: l2 ++ y :: l3 ->
  exists r1 a r2 b r3, l = r1 ++ a :: r2 ++ b :: r3 /\ f a = x /\ f b = y.
Proof.
  intro H. apply map_eq_app in H. destruct H as [r1 [t1 [-> [_ H]]]].
  apply map_eq_cons in H. destruct H as [a [t2 [-> [Ea H]]]].
  apply map_eq_app in H. destruct H as [r2 [t3 [-> [_ H]]]].
  apply map_eq_cons in H. destruct H as [b [r3 [-> [Eb _]]]].
  now exists r1, a, r2, b, r3.
Qed.

Definition table_deps (names : list string) (t : table_def) : list string :=
  bs_of_list (filter (fun rt => (mem_str rt names && negb (String.eqb rt (t_name t)))%bool) (fk_targets t)).

Lemma table_deps_in names t rt :
  In rt (table_deps names t) <-> In rt (fk_targets t) /\ In rt names /\ rt <> t_name t.
Proof.
  unfold table_deps. rewrite bs_of_list_in, filter_In, Bool.andb_true_iff, Bool.negb_true_iff,
    mem_str_In, String.eqb_neq. tauto.
Qed.

Lemma bt_of_list_in_nodup {V} (l : list (string * V)) kv :
  NoDup (map fst l) -> In kv l -> In kv (bt_of_list l).
Proof.
  intros Hnd Hin. eapply Permutation_in; [apply Permutation_sym, bt_of_list_perm; exact Hnd|exact Hin].
Qed.

Lemma tmap_get tables : NoDup (map t_name tables) ->
  forall n, In n (map t_name tables) ->
  exists t, bt_get n (bt_of_list (map (fun t => (t_name t, t)) tables)) = Some t /\ In t tables /\ t_name t = n.
Proof.
  intros Hnd n Hn.
  destruct (bt_get_some_key n (bt_of_list (map (fun t => (t_name t, t)) tables))) as [t Ht].
  { apply bt_keys_of_list. rewrite map_map. exact Hn. }
  exists t. split; [exact Ht|]. apply bt_get_in, bt_of_list_in in Ht.
  apply in_map_iff in Ht. destruct Ht as [t' [E Hin]]. inversion E; subst. auto.
Qed.

Lemma topo_lookup tables : NoDup (map t_name tables) ->
  forall order, incl order (map t_name tables) ->
  let res := flat_map (fun n => match bt_get n (bt_of_list (map (fun t => (t_name t, t)) tables)) with
                                | Some t => [t] | None => [] end) order in
  map t_name res = order /\ incl res tables.
Proof.
  intros Hnd. induction order as [|n r IH]; intros Hi; cbn [flat_map].
  - split; [reflexivity|intros x []].
  - destruct (tmap_get tables Hnd n (Hi n (or_introl eq_refl))) as [t [Hg [Hin En]]].
    rewrite Hg. cbn [app map]. destruct IH as [IH1 IH2]; [intros y Hy; apply Hi; now right|].
    split; [now rewrite En, IH1|]. intros y [<-|Hy]; auto.
Qed.

Theorem topo_sort_sound tables res :
  NoDup (map t_name tables) -> topo_sort tables = TopoOk res ->
  Permutation res tables /\
  forall t rt, In t res -> In rt (fk_targets t) -> rt <> t_name t -> In rt (map t_name tables) ->
    exists r l1 l2 l3, t_name r = rt /\ res = l1 ++ r :: l2 ++ t :: l3.
Proof.
  intros Hnd H. unfold topo_sort in H.
  destruct tables as [|t0 ts] eqn:Et; [inversion H; subst; split; [constructor|intros t rt []]|].
  rewrite <- Et in *. clear Et t0 ts.
  set (names := map t_name tables) in *.
  set (deps := bt_of_list (map (fun t => (t_name t, table_deps names t)) tables)).
  change (bt_of_list (map (fun t => (t_name t,
            bs_of_list (filter (fun rt => (mem_str rt names && negb (String.eqb rt (t_name t)))%bool)
                               (fk_targets t)))) tables)) with deps in H.
  assert (Dnd : NoDup (map fst deps)) by apply bt_sorted_nodup, bt_of_list_sorted.
  assert (Dkeys : forall k, In k (map fst deps) <-> In k names).
  { intro k. unfold deps. rewrite bt_keys_of_list, map_map. reflexivity. }
  assert (Din : forall t, In t tables -> In (t_name t, table_deps names t) deps).
  { intros t Ht. unfold deps. apply bt_of_list_in_nodup; [now rewrite map_map|].
    apply in_map_iff. now exists t. }
  destruct (kahn deps) as [order|] eqn:Ek; [|discriminate].
  destruct (kahn_nodup _ _ Dnd Ek) as [Ond Oin].
  destruct (topo_lookup tables Hnd order) as [Rn Ri].
  { intros k Hk. apply Dkeys. now apply Oin. }
  match type of H with (if Nat.eqb (List.length ?r) _ then _ else _) = _ => set (res0 := r) in * end.
  destruct (Nat.eqb (List.length res0) (List.length tables)) eqn:El; [|discriminate].
  inversion H; subst res; clear H. apply PeanoNat.Nat.eqb_eq in El.
  assert (Rnd : NoDup (map t_name res0)) by now rewrite Rn.
  split.
  - apply NoDup_Permutation_bis; [eapply NoDup_map_inv; exact Rnd | lia | exact Ri].
  - intros t rt Ht Hfk Hne Hrt.
    assert (Hdep : In rt (table_deps names t)) by (apply table_deps_in; auto).
    assert (Hord : In (t_name t) order) by (rewrite <- Rn; now apply in_map).
    destruct (kahn_sound _ _ Dnd Ek _ _ _ (Din t (Ri t Ht)) Hord Hdep) as [l1 [l2 [l3 Eo]]].
    rewrite <- Rn in Eo. apply map_split2 in Eo.
    destruct Eo as [r1 [a [r2 [b [r3 [Er [Ea Eb]]]]]]].
    assert (b = t).
    { apply (nodup_map_inj t_name res0); auto. rewrite Er. apply in_or_app. right. right.
      apply in_or_app. right. now left. }
    subst b. now exists a, r1, r2, r3.
Qed.

(* completeness of the table sort: an acyclic FK graph is never reported as a cycle *)
Theorem topo_sort_complete tables (rank : string -> nat) :
  NoDup (map t_name tables) ->
  (forall t rt, In t tables -> In rt (fk_targets t) -> rt <> t_name t -> In rt (map t_name tables) ->
     rank rt < rank (t_name t)) ->
  exists res, topo_sort tables = TopoOk res.
Proof.
  intros Hnd Hrank. unfold topo_sort.
  destruct tables as [|t0 ts] eqn:Et; [now exists []|].
  rewrite <- Et in *. clear Et t0 ts.
  set (names := map t_name tables) in *.
  set (deps := bt_of_list (map (fun t => (t_name t, table_deps names t)) tables)).
  change (bt_of_list (map (fun t => (t_name t,
            bs_of_list (filter (fun rt => (mem_str rt names && negb (String.eqb rt (t_name t)))%bool)
                               (fk_targets t)))) tables)) with deps.
  assert (Dnd : NoDup (map fst deps)) by apply bt_sorted_nodup, bt_of_list_sorted.
  assert (Dkeys : forall k, In k (map fst deps) <-> In k names).
  { intro k. unfold deps. rewrite bt_keys_of_list, map_map. reflexivity. }
  assert (Dof : forall n ds, In (n, ds) deps -> exists t, In t tables /\ n = t_name t /\ ds = table_deps names t).
  { intros n ds Hin. apply bt_of_list_in, in_map_iff in Hin. destruct Hin as [t [E Ht]].
    inversion E; subst. now exists t. }
  destruct (kahn_complete deps rank Dnd) as [order [Ek Pk]].
  - intros n ds Hin. destruct (Dof _ _ Hin) as [t [Ht [-> ->]]]. split.
    + apply bs_of_list_nodup.
    + intros d Hd. apply Dkeys. apply table_deps_in in Hd. tauto.
  - intros n ds d Hin Hd. destruct (Dof _ _ Hin) as [t [Ht [-> ->]]].
    apply table_deps_in in Hd. apply Hrank; tauto.
  - rewrite Ek. destruct (topo_lookup tables Hnd order) as [Rn Ri].
    { intros k Hk. apply Dkeys. eapply Permutation_in; eauto. }
    match goal with |- context [Nat.eqb (List.length ?r) _] => set (res0 := r) in * end.
    assert (El : List.length res0 = List.length tables).
    { rewrite <- (map_length t_name res0), Rn, (Permutation_length Pk), map_length.
      assert (Nn : NoDup (map fst (map (fun t => (t_name t, table_deps names t)) tables)))
        by now rewrite map_map.
      unfold deps. rewrite (Permutation_length (bt_of_list_perm _ Nn)), map_length. reflexivity. }
    apply PeanoNat.Nat.eqb_eq in El. rewrite El. now exists res0.
Qed.

(* ---------- 6. sort_create_before_add_constraint ---------- *)
Definition is_create (a : action) : bool := match a with CreateTable _ _ _ => true | _ => false end.

Lemma create_rank_zero created a : Nat.eqb (create_rank created a) 0 = is_create a.
Proof.
  destruct a as [| | | | | | | | |tb k| | |]; try reflexivity.
  destruct k; try reflexivity. cbn [create_rank is_create]. now destruct (mem_str _ _).
Qed.

Lemma created_tables_in acts t :
  In t (created_tables acts) <-> exists cols ks, In (CreateTable t cols ks) acts.
Proof.
  unfold created_tables. rewrite in_flat_map. split.
  - intros [a [Ha Hin]]. destruct a; try (destruct Hin; fail). destruct Hin as [<-|[]]. eauto.
  - intros [cols [ks Hin]]. eexists. split; [exact Hin|]. now left.
Qed.

Lemma nth_error_split2 {A} (l : list A) j i a b :
  j < i -> nth_error l j = Some a -> nth_error l i = Some b ->
  exists l1 l2 l3, l = l1 ++ a :: l2 ++ b :: l3.
Proof.
  intros Hji Hj Hi. apply nth_error_split in Hj. destruct Hj as [l1 [r [-> Hl]]].
  rewrite nth_error_app2 in Hi by lia.
  destruct (i - List.length l1) as [|k] eqn:Ek; [lia|]. cbn [nth_error] in Hi.
  apply nth_error_split in Hi. destruct Hi as [l2 [l3 [-> _]]]. now exists l1, l2, l3.
Qed.

Theorem create_order_sound acts :
  let res := sort_create_before_add_constraint acts in
  Permutation res acts /\
  filter is_create res = filter is_create acts /\
  forall i j t cols ks tb n c rc od ou,
    nth_error res i = Some (CreateTable t cols ks) ->
    nth_error res j = Some (AddConstraint tb (CForeignKey n c t rc od ou)) ->
    i < j.
Proof.
  unfold sort_create_before_add_constraint.
  destruct (created_tables acts) as [|c0 cr] eqn:Ec.
  - cbn zeta. split; [apply Permutation_refl|]. split; [reflexivity|].
    intros i j t cols ks tb n c rc od ou Hi Hj. exfalso.
    assert (Hin : In t (created_tables acts)).
    { apply created_tables_in. exists cols, ks. eapply nth_error_In; eauto. }
    rewrite Ec in Hin. destruct Hin.
  - rewrite <- Ec. clear c0 cr Ec. cbn zeta. set (created := created_tables acts).
    split; [apply sort_by_key_perm|].
    split; [apply sort_by_key_stable_pred with (k := 0); intro a; symmetry; apply create_rank_zero|].
    intros i j t cols ks tb n c rc od ou Hi Hj.
    destruct (PeanoNat.Nat.lt_trichotomy i j) as [Hlt|[Heq|Hgt]]; [exact Hlt| |]; exfalso.
    + subst j. rewrite Hi in Hj. discriminate.
    + destruct (nth_error_split2 _ _ _ _ _ Hgt Hj Hi) as [l1 [l2 [l3 E]]].
      pose proof (sort_by_key_sorted (create_rank created) acts) as S. rewrite E in S.
      apply sorted_split_le in S. cbn [create_rank] in S.
      assert (Hin : In t created).
      { apply created_tables_in. exists cols, ks.
        eapply Permutation_in; [apply sort_by_key_perm|]. eapply nth_error_In; eauto. }
      apply mem_str_In in Hin. rewrite Hin in S. lia.
Qed.

(* ---------- 7. the CreateTable actions of a diff are in FK order ---------- *)
Lemma created_tables_filter acts : created_tables acts = created_tables (filter is_create acts).
Proof.
  unfold created_tables. induction acts as [|a r IH]; [reflexivity|].
  destruct a; cbn [flat_map filter is_create app]; try exact IH. now rewrite IH.
Qed.

(* (a) sort_delete_tables only moves DeleteTable actions *)
Lemma put_back_creates : forall acts sorted,
  (forall s, In s sorted -> is_delete_table s = true) ->
  filter is_create (put_back acts sorted) = filter is_create acts.
Proof.
  induction acts as [|a r IH]; intros sorted Hs; [reflexivity|]. cbn [put_back].
  destruct (is_delete_table a) eqn:Ed.
  - assert (Ha : is_create a = false) by (destruct a; try discriminate; reflexivity).
    destruct sorted as [|s ss]; cbn [filter]; rewrite Ha.
    + apply IH. intros s [].
    + assert (Hc : is_create s = false).
      { specialize (Hs s (or_introl eq_refl)). destruct s; try discriminate; reflexivity. }
      rewrite Hc. apply IH. intros s' Hs'. apply Hs. now right.
  - cbn [filter]. now rewrite (IH _ Hs).
Qed.

Lemma sort_delete_tables_creates acts all :
  filter is_create (sort_delete_tables acts all) = filter is_create acts.
Proof.
  unfold sort_delete_tables. destruct (Nat.leb _ 1); [reflexivity|].
  destruct (kahn _); [|reflexivity]. cbn zeta.
  apply put_back_creates. intros s Hs.
  apply (Permutation_in _ (sort_by_key_perm _ _)) in Hs. apply filter_In in Hs. tauto.
Qed.

(* (c) the enum/default swaps only exchange ModifyColumnType / ModifyColumnDefault positions, so the
   sub-list of actions selected by any predicate that rejects those two kinds is untouched *)
Definition is_modify_td (a : action) : bool :=
  match a with ModifyColumnType _ _ _ _ | ModifyColumnDefault _ _ _ => true | _ => false end.
Definition modify_at (l : list action) (i : nat) : Prop :=
  forall y, nth_error l i = Some y -> is_modify_td y = true.

Lemma pm_insert_in {V} k (v : V) : forall m e, In e (pm_insert k v m) -> e = (k, v) \/ In e m.
Proof.
  induction m as [|[k' v'] r IH]; intros e H; cbn [pm_insert] in H.
  - destruct H as [<-|[]]. now left.
  - destruct (pair_cmp k k').
    + destruct H as [<-|H]; [now left|right; now right].
    + destruct H as [<-|H]; [now left|now right].
    + destruct H as [<-|H]; [right; now left|].
      destruct (IH _ H) as [->|H']; [now left|right; now right].
Qed.
Lemma pm_get_in {V} k : forall (m : list ((string * string) * V)) v,
  pm_get k m = Some v -> exists k', In (k', v) m.
Proof.
  induction m as [|[k' v'] r IH]; intros v H; cbn [pm_get] in H; [discriminate|].
  destruct (pair_cmp k k'); try (destruct (IH _ H) as [k2 H2]; exists k2; now right).
  injection H as ->. exists k'. now left.
Qed.

Lemma collect_changes_good ACTS : forall acts pre tc dc tc' dc',
  ACTS = pre ++ acts ->
  collect_changes (List.length pre) acts tc dc = (tc', dc') ->
  (forall k i nt, In (k, (i, nt)) tc -> modify_at ACTS i) ->
  (forall k j, In (k, j) dc -> modify_at ACTS j) ->
  (forall k i nt, In (k, (i, nt)) tc' -> modify_at ACTS i) /\
  (forall k j, In (k, j) dc' -> modify_at ACTS j).
Proof.
  induction acts as [|a r IH]; intros pre tc dc tc' dc' E H Htc Hdc.
  - cbn [collect_changes] in H. inversion H; subst. auto.
  - assert (E' : ACTS = (pre ++ [a]) ++ r) by (rewrite <- app_assoc; exact E).
    assert (L : List.length (pre ++ [a]) = S (List.length pre)) by (rewrite app_length; cbn [List.length]; lia).
    assert (Ga : is_modify_td a = true -> modify_at ACTS (List.length pre)).
    { intros Ha y Hy. rewrite E, nth_error_app2, PeanoNat.Nat.sub_diag in Hy by lia.
      cbn [nth_error] in Hy. inversion Hy; subst; auto. }
    cbn [collect_changes] in H. rewrite <- L in H.
    destruct a; try (eapply IH; eauto; fail).
    + eapply IH; eauto. intros k i nt Hin. apply pm_insert_in in Hin.
      destruct Hin as [Eq|Hin]; [inversion Eq; subst; apply Ga; reflexivity | eauto].
    + eapply IH; eauto. intros k j Hin. apply pm_insert_in in Hin.
      destruct Hin as [Eq|Hin]; [inversion Eq; subst; apply Ga; reflexivity | eauto].
Qed.

Lemma enum_swaps_good acts fm ij : In ij (enum_swaps acts fm) ->
  modify_at acts (fst ij) /\ modify_at acts (snd ij).
Proof.
  unfold enum_swaps. destruct (collect_changes 0 acts [] []) as [tc dc] eqn:E.
  destruct (collect_changes_good acts acts [] [] [] tc dc eq_refl E) as [Htc Hdc];
    [intros k i nt [] | intros k j [] |].
  intro H. apply in_flat_map in H. destruct H as [[[table column] [ti nt]] [Hin H]].
  destruct (pm_get (table, column) dc) as [di|] eqn:Ed; [|destruct H].
  destruct (bt_get table fm) as [ft|]; [|destruct H].
  destruct (find_column column ft) as [fc|]; [|destruct H].
  destruct (removed_string_enum_values (c_type fc) nt) as [removed|]; [|destruct H].
  destruct (c_default fc) as [od|]; [|destruct H].
  destruct (_ && _)%bool; [|destruct H]. destruct H as [<-|[]]. cbn [fst snd].
  apply pm_get_in in Ed. destruct Ed as [k' Hd]. split; eauto.
Qed.

Section SwapsKeep.
  Variable p : action -> bool.
  Hypothesis p_not_modify : forall a, is_modify_td a = true -> p a = false.

  Definition pproj (a : action) : option action := if p a then Some a else None.
  Definition nonp_at (l : list action) (i : nat) : Prop :=
    forall y, nth_error l i = Some y -> p y = false.

  Lemma filter_pproj : forall l l', map pproj l = map pproj l' -> filter p l = filter p l'.
  Proof.
    induction l as [|a r IH]; intros [|b r'] H; try discriminate; [reflexivity|].
    cbn [map] in H. injection H as Hab Hr. cbn [filter]. unfold pproj in Hab.
    destruct (p a), (p b); try discriminate; [injection Hab as ->; f_equal|]; auto.
  Qed.

  Lemma nonp_pproj l l' i : map pproj l = map pproj l' -> nonp_at l' i -> nonp_at l i.
  Proof.
    intros E H y Hy. apply (map_nth_error pproj) in Hy. rewrite E in Hy.
    destruct (nth_error l' i) as [z|] eqn:Ez.
    - rewrite (map_nth_error pproj _ _ Ez) in Hy. specialize (H z Ez).
      injection Hy as Hy. unfold pproj in Hy. rewrite H in Hy. now destruct (p y).
    - apply nth_error_None in Ez. assert (L : List.length (map pproj l') <= i) by now rewrite map_length.
      apply nth_error_None in L. congruence.
  Qed.

  Lemma update_nth_pproj : forall n x l, p x = false -> nonp_at l n ->
    map pproj (update_nth n x l) = map pproj l.
  Proof.
    induction n as [|n IH]; intros x [|y r] Hx Hy; cbn [update_nth map]; try reflexivity.
    - f_equal. unfold pproj. rewrite Hx, (Hy y eq_refl). reflexivity.
    - f_equal. apply IH; auto.
  Qed.

  Lemma swap_nth_pproj i j l : nonp_at l i -> nonp_at l j ->
    map pproj (swap_nth i j l) = map pproj l.
  Proof.
    intros Hi Hj. unfold swap_nth.
    destruct (nth_error l i) as [a|] eqn:Ea; [|reflexivity].
    destruct (nth_error l j) as [b|] eqn:Eb; [|reflexivity].
    assert (E1 : map pproj (update_nth i b l) = map pproj l) by (apply update_nth_pproj; auto).
    rewrite update_nth_pproj; [exact E1 | now apply Hi |]. eapply nonp_pproj; eauto.
  Qed.

  Lemma swaps_pproj l0 : forall swaps l, map pproj l = map pproj l0 ->
    (forall ij, In ij swaps -> nonp_at l0 (fst ij) /\ nonp_at l0 (snd ij)) ->
    map pproj (fold_left (fun l ij => swap_nth (fst ij) (snd ij) l) swaps l) = map pproj l0.
  Proof.
    induction swaps as [|ij r IH]; intros l E H; cbn [fold_left]; [exact E|].
    apply IH; [|intros; apply H; now right].
    destruct (H ij (or_introl eq_refl)) as [Hi Hj].
    rewrite swap_nth_pproj; [exact E | |]; eapply nonp_pproj; eauto.
  Qed.

  Lemma sort_enum_keeps acts fm :
    filter p (sort_enum_default_dependencies acts fm) = filter p acts.
  Proof.
    apply filter_pproj. unfold sort_enum_default_dependencies.
    apply swaps_pproj; [reflexivity|]. intros ij Hij.
    destruct (enum_swaps_good _ _ _ Hij) as [H1 H2].
    split; intros y Hy; apply p_not_modify; [apply (H1 y Hy) | apply (H2 y Hy)].
  Qed.
End SwapsKeep.

Lemma sort_enum_creates acts fm :
  filter is_create (sort_enum_default_dependencies acts fm) = filter is_create acts.
Proof. apply sort_enum_keeps. intros a Ha. destruct a; try discriminate; reflexivity. Qed.

(* (d) only the third block of a diff contains CreateTable actions *)
Lemma table_group_no_create name ft tt a : In a (table_group name ft tt) -> is_create a = false.
Proof.
  unfold table_group. intro H.
  repeat match goal with
  | H : In _ (_ ++ _) |- _ => apply in_app_or in H; destruct H as [H|H]
  | H : In _ (map _ _) |- _ => apply in_map_iff in H; destruct H as [? [<- ?]]
  | H : In _ (flat_map _ _) |- _ => apply in_flat_map in H; destruct H as [? [? H]]
  | H : In _ (match ?x with _ => _ end) |- _ => destruct x
  | H : In _ [] |- _ => destruct H
  | H : In _ [_] |- _ => destruct H as [<-|[]]
  end; reflexivity.
Qed.

Lemma nall_names : forall S ns, normalize_all S = Ok ns -> map t_name ns = map t_name S.
Proof.
  unfold normalize_all. induction S as [|t r IH]; intros ns H; cbn [map_result] in H.
  - inversion H. reflexivity.
  - destruct (normalize t) as [n|e] eqn:En; [|discriminate].
    destruct (map_result _ r) as [ys|e]; [|discriminate]. inversion H; subst. cbn [map].
    rewrite (IH ys eq_refl). f_equal. unfold normalize in En.
    destruct (normalize_constraints _ _); [|discriminate]. inversion En. reflexivity.
Qed.

Lemma filter_app_nil {A} (p : A -> bool) l : (forall x, In x l -> p x = false) -> filter p l = [].
Proof.
  induction l as [|x r IH]; intro H; [reflexivity|]. cbn [filter].
  rewrite (H x (or_introl eq_refl)). apply IH. intros; apply H; now right.
Qed.

Lemma keys_name_map (s : list table_def) : map fst (map (fun t => (t_name t, t)) s) = map t_name s.
Proof. rewrite map_map. reflexivity. Qed.

Definition name_keyed (m : list (string * table_def)) : Prop := forall k v, In (k, v) m -> k = t_name v.
Lemma name_keyed_of_list s : name_keyed (bt_of_list (map (fun t => (t_name t, t)) s)).
Proof.
  intros k v H. apply bt_of_list_in, in_map_iff in H. destruct H as [t [E _]]. now inversion E.
Qed.

Lemma new_tables_names (p : string * table_def -> bool) : forall m, name_keyed m -> NoDup (map fst m) ->
  NoDup (map t_name (flat_map (fun kv => if p kv then [] else [snd kv]) m)) /\
  incl (map t_name (flat_map (fun kv => if p kv then [] else [snd kv]) m)) (map fst m).
Proof.
  induction m as [|[k v] r IH]; intros Hk Hnd; cbn [flat_map map]; [split; [constructor|intros x []]|].
  cbn [fst] in Hnd. inversion Hnd as [|? ? Hx Hr]; subst.
  destruct IH as [IH1 IH2]; [intros k' v' H; apply Hk; now right | exact Hr |].
  destruct (p (k, v)); cbn [app snd map fst].
  - split; [exact IH1|]. intros x Hx'. right. now apply IH2.
  - rewrite <- (Hk k v (or_introl eq_refl)). split.
    + constructor; [|exact IH1]. intro H. apply Hx. now apply IH2.
    + intros x [<-|Hx']; [now left|right; now apply IH2].
Qed.

Theorem diff_created_tables A B acts :
  diff_actions A B = Ok acts ->
  exists An Bn sorted,
    normalize_all A = Ok An /\ normalize_all B = Ok Bn /\
    topo_sort (flat_map (fun kv => if bt_mem (fst kv) (bt_of_list (map (fun t => (t_name t, t)) An))
                                   then [] else [snd kv])
                        (bt_of_list (map (fun t => (t_name t, t)) Bn))) = TopoOk sorted /\
    created_tables acts = map t_name sorted.
Proof.
  unfold diff_actions. intro H.
  destruct (normalize_all A) as [An|e] eqn:EA; [|discriminate].
  destruct (normalize_all B) as [Bn|e] eqn:EB; [|discriminate].
  cbn zeta in H.
  set (fm := bt_of_list (map (fun t => (t_name t, t)) An)) in *.
  set (tm := bt_of_list (map (fun t => (t_name t, t)) Bn)) in *.
  set (to_orig := bt_of_list (map (fun t => (t_name t, t)) B)) in *.
  set (new_tables := flat_map (fun kv : string * table_def => if bt_mem (fst kv) fm then [] else [snd kv]) tm) in *.
  destruct (topo_sort new_tables) as [sorted| |] eqn:Et; try discriminate.
  exists An, Bn, sorted. repeat split; auto.
  inversion H as [Hacts]; clear H.
  rewrite created_tables_filter, sort_enum_creates.
  pose proof (create_order_sound (sort_delete_tables
     (flat_map (fun kv : string * table_def => if bt_mem (fst kv) tm then [] else [DeleteTable (fst kv)]) fm ++
      flat_map (fun kv : string * table_def => match bt_get (fst kv) fm with
                          | Some ft => table_group (fst kv) ft (snd kv) | None => [] end) tm ++
      flat_map (fun t : table_def => match bt_get (t_name t) to_orig with
                         | Some o => [CreateTable (t_name o) (t_columns o) (t_constraints o)]
                         | None => [] end) sorted) fm)) as [_ [Hf _]].
  cbn zeta in Hf. rewrite Hf, sort_delete_tables_creates, !filter_app.
  rewrite filter_app_nil, filter_app_nil; cbn [app].
  - (* the creates block *)
    rewrite <- created_tables_filter. unfold created_tables.
    assert (Hs : forall t, In t sorted -> In (t_name t) (map fst to_orig)).
    { intros t Ht.
      assert (Hnd : NoDup (map t_name new_tables)).
      { apply new_tables_names; [apply name_keyed_of_list | apply bt_sorted_nodup, bt_of_list_sorted]. }
      destruct (topo_sort_sound _ _ Hnd Et) as [P _].
      apply (Permutation_in _ P) in Ht.
      assert (Hi : In (t_name t) (map fst tm)).
      { eapply new_tables_names; [apply name_keyed_of_list | apply bt_sorted_nodup, bt_of_list_sorted |].
        apply in_map. exact Ht. }
      unfold tm in Hi. rewrite bt_keys_of_list, keys_name_map in Hi.
      unfold to_orig. rewrite bt_keys_of_list, keys_name_map.
      rewrite <- (nall_names _ _ EB). exact Hi. }
    clear - Hs. induction sorted as [|t r IH]; [reflexivity|]. cbn [flat_map map].
    destruct (bt_get_some_key _ _ (Hs t (or_introl eq_refl))) as [o Ho]. rewrite Ho.
    cbn [flat_map app]. f_equal; [|apply IH; intros; apply Hs; now right].
    symmetry. eapply name_keyed_of_list. eapply bt_get_in. exact Ho.
  - intros a Ha. apply in_flat_map in Ha. destruct Ha as [kv [_ Ha]].
    destruct (bt_get (fst kv) fm); [eapply table_group_no_create; eauto | destruct Ha].
  - intros a Ha. apply in_flat_map in Ha. destruct Ha as [kv [_ Ha]].
    destruct (bt_mem (fst kv) tm); [destruct Ha | destruct Ha as [<-|[]]; reflexivity].
Qed.

Theorem diff_creates_in_fk_order A B Bn acts :
  NoDup (map t_name B) -> normalize_all B = Ok Bn -> diff_actions A B = Ok acts ->
  forall t rt, In t Bn -> In rt (fk_targets t) -> rt <> t_name t ->
    In (t_name t) (created_tables acts) -> In rt (created_tables acts) ->
    exists l1 l2 l3, created_tables acts = l1 ++ rt :: l2 ++ t_name t :: l3.
Proof.
  intros HndB EB Hd t rt Ht Hfk Hne Hct Hcr.
  destruct (diff_created_tables _ _ _ Hd) as [An [Bn' [sorted [EA [EB' [Et Ec]]]]]].
  rewrite EB in EB'. inversion EB'; subst Bn'; clear EB'.
  set (tm := bt_of_list (map (fun t => (t_name t, t)) Bn)) in *.
  match type of Et with topo_sort ?x = _ => set (new_tables := x) in * end.
  assert (Hnd : NoDup (map t_name new_tables)).
  { apply new_tables_names; [apply name_keyed_of_list | apply bt_sorted_nodup, bt_of_list_sorted]. }
  destruct (topo_sort_sound _ _ Hnd Et) as [P Ord].
  rewrite Ec in *.
  (* t itself is among the sorted tables *)
  assert (Hts : In t sorted).
  { apply in_map_iff in Hct. destruct Hct as [t' [En Ht']].
    assert (t' = t); [|now subst].
    apply (nodup_map_inj t_name Bn); auto.
    - rewrite (nall_names _ _ EB). exact HndB.
    - apply (Permutation_in _ P) in Ht'. apply in_flat_map in Ht'. destruct Ht' as [[k v] [Hkv Hin]].
      destruct (bt_mem _ _); [destruct Hin|]. destruct Hin as [<-|[]]. cbn [snd].
      apply bt_of_list_in, in_map_iff in Hkv. destruct Hkv as [t2 [E Hin2]]. now inversion E; subst. }
  assert (Hrt : In rt (map t_name new_tables)).
  { eapply Permutation_in; [apply Permutation_map; exact P|exact Hcr]. }
  destruct (Ord t rt Hts Hfk Hne Hrt) as [r [l1 [l2 [l3 [Er Es]]]]].
  exists (map t_name l1), (map t_name l2), (map t_name l3).
  rewrite Es, map_app. cbn [map]. rewrite map_app. cbn [map]. now rewrite Er.
Qed.

(* ---------- the callers establish the distinct-keys invariant: the out-of-fuel arms are dead ---------- *)
Theorem topo_sort_never_out_of_fuel tables : topo_sort tables <> TopoOutOfFuel.
Proof.
  unfold topo_sort. destruct tables as [|t0 ts]; [discriminate|].
  match goal with |- context [kahn ?d] => destruct (kahn d) as [order|] eqn:Ek end.
  - destruct (Nat.eqb _ _); discriminate.
  - exfalso. revert Ek. apply kahn_fuel_enough. apply bt_sorted_nodup, bt_of_list_sorted.
Qed.

Definition delete_deps (acts : list action) (all : list (string * table_def)) : deps_map :=
  let dnames := bs_of_list (map delete_name (filter is_delete_table acts)) in
  map (fun n =>
    (n, match bt_get n all with
        | Some td => bs_of_list (filter (fun rt => (mem_str rt dnames && negb (String.eqb rt n))%bool)
                                        (fk_targets td))
        | None => []
        end)) dnames.

Lemma sort_delete_tables_unfold acts all :
  sort_delete_tables acts all =
  let dels := filter is_delete_table acts in
  if Nat.leb (List.length dels) 1 then acts
  else match kahn (delete_deps acts all) with
       | None => acts
       | Some order =>
           put_back acts (sort_by_key (fun a =>
             match find_index (String.eqb (delete_name a)) (rev order) with Some i => i | None => O end) dels)
       end.
Proof. reflexivity. Qed.

Theorem delete_deps_fuel_enough acts all : kahn (delete_deps acts all) <> None.
Proof.
  apply kahn_fuel_enough. unfold delete_deps. cbn zeta. rewrite map_map. cbn [fst].
  rewrite map_id. apply bs_of_list_nodup.
Qed.

(* ---------- 8. refutations of the false parts of C06 ---------- *)
Definition w_icol (n : string) : column_def := mkCol n (TSimple Integer) false None None None None None None.
Definition w_pkcol (n : string) : column_def :=
  mkCol n (TSimple Integer) false None None (Some (PKBool true)) None None None.
Definition w_fkcol (n r : string) : column_def :=
  mkCol n (TSimple Integer) false None None None None None (Some (FKStr r)).

(* D2: user(id pk), post(id pk, user_id fk -> user.id)  ==>  post(id pk, user_id) *)
Definition w_fk : table_constraint := CForeignKey None ["user_id"] "user" ["id"] None None.
Definition w_drop_B : schema :=
  [mkTable "user" None [w_pkcol "id"] [CPrimaryKey false ["id"]];
   mkTable "post" None [w_pkcol "id"; w_fkcol "user_id" "user.id"] [CPrimaryKey false ["id"]; w_fk]].
Definition w_drop_T : schema := [mkTable "post" None [w_pkcol "id"; w_icol "user_id"] []].

Lemma C06_delete_before_remove_fk_plan :
  consistent w_drop_B = true /\
  diff_actions w_drop_B w_drop_T = Ok [DeleteTable "user"; RemoveConstraint "post" w_fk] /\
  exists s1, apply_action w_drop_B (DeleteTable "user") = Ok s1 /\ consistent s1 = false.
Proof. split; [|split; [|eexists; split]]; vm_compute; reflexivity. Qed.

Lemma C06_delete_before_remove_fk_refuted :
  exists B T, loader_accepts B = true /\ loader_accepts T = true /\
              plan_stepwise_ok B T = false /\ known_drop_before_unreference B T = true.
Proof. exists w_drop_B, w_drop_T. repeat split; vm_compute; reflexivity. Qed.

(* D1: t(id pk, a, b) + index(a,b)  ==>  t(id pk, a) + index(a) *)
Definition w_shrunk_B : schema :=
  [mkTable "t" None [w_pkcol "id"; w_icol "a"; w_icol "b"] [CPrimaryKey false ["id"]; CIndex None ["a"; "b"]]].
Definition w_shrunk_T : schema :=
  [mkTable "t" None [w_pkcol "id"; w_icol "a"] [CIndex None ["a"]]].

Lemma C06_shrunk_constraint_plan :
  consistent w_shrunk_B = true /\
  diff_actions w_shrunk_B w_shrunk_T =
    Ok [DeleteColumn "t" "b"; RemoveConstraint "t" (CIndex None ["a"; "b"]); AddConstraint "t" (CIndex None ["a"])] /\
  exists s1, apply_action w_shrunk_B (DeleteColumn "t" "b") = Ok s1 /\
             target_present s1 (RemoveConstraint "t" (CIndex None ["a"; "b"])) = false.
Proof. split; [|split; [|eexists; split]]; vm_compute; reflexivity. Qed.

Lemma C06_shrunk_constraint_refuted :
  exists B T, loader_accepts B = true /\ loader_accepts T = true /\
              plan_stepwise_ok B T = false /\ known_shrunk_constraint B T = true.
Proof. exists w_shrunk_B, w_shrunk_T. repeat split; vm_compute; reflexivity. Qed.

(* a target with an FK cycle between two new tables is accepted by the loader but refused by the planner
   (DiffCycle), so the unrestricted statement fails even outside the two known classes *)
Definition w_cycle_T : schema :=
  [mkTable "a" None [w_pkcol "id"; w_fkcol "b_id" "b.id"] [];
   mkTable "b" None [w_pkcol "id"; w_fkcol "a_id" "a.id"] []].

Lemma C06_fk_cycle_refuted :
  exists B T, loader_accepts B = true /\ loader_accepts T = true /\
              diff_actions B T = Err DiffCycle /\ plan_stepwise_ok B T = false /\
              known_drop_before_unreference B T = false /\ known_shrunk_constraint B T = false.
Proof. exists [], w_cycle_T. repeat split; vm_compute; reflexivity. Qed.

Lemma C06_full_statement_refuted :
  ~ (forall B T, loader_accepts B = true -> loader_accepts T = true -> plan_stepwise_ok B T = true).
Proof.
  intro H. specialize (H w_drop_B w_drop_T eq_refl eq_refl). vm_compute in H. discriminate.
Qed.

(* ---------- 9. dropped tables: a referencing table is dropped before the table it references ---------- *)
Definition deleted_tables (acts : list action) : list string := map delete_name (filter is_delete_table acts).

Lemma in_two_split {A} (a b : A) l : In a l -> In b l -> a <> b ->
  (exists l1 l2 l3, l = l1 ++ a :: l2 ++ b :: l3) \/ (exists l1 l2 l3, l = l1 ++ b :: l2 ++ a :: l3).
Proof.
  intros Ha Hb Hab. apply in_split in Ha. destruct Ha as [l1 [r ->]].
  apply in_app_or in Hb. destruct Hb as [Hb|[Hb|Hb]]; [|congruence|].
  - right. apply in_split in Hb. destruct Hb as [p [q ->]]. exists p, q, r.
    rewrite <- app_assoc. reflexivity.
  - left. apply in_split in Hb. destruct Hb as [p [q ->]]. now exists l1, p, q.
Qed.

Lemma find_index_split l1 x l2 : ~ In x l1 ->
  find_index (String.eqb x) (l1 ++ x :: l2) = Some (List.length l1).
Proof.
  induction l1 as [|y r IH]; intro H; cbn [app find_index List.length].
  - now rewrite String.eqb_refl.
  - assert (E : String.eqb x y = false).
    { apply String.eqb_neq. intros ->. apply H. now left. }
    rewrite E, IH; [reflexivity|]. intro Hin. apply H. now right.
Qed.

Lemma put_back_deletes : forall acts sorted,
  (forall s, In s sorted -> is_delete_table s = true) ->
  List.length sorted = List.length (filter is_delete_table acts) ->
  filter is_delete_table (put_back acts sorted) = sorted.
Proof.
  induction acts as [|a r IH]; intros sorted Hs Hl.
  - destruct sorted; [reflexivity|discriminate].
  - cbn [put_back]. cbn [filter] in Hl. destruct (is_delete_table a) eqn:Ed.
    + destruct sorted as [|s ss]; [discriminate|]. cbn [filter].
      rewrite (Hs s (or_introl eq_refl)). f_equal. apply IH; [intros; apply Hs; now right|].
      cbn [List.length] in Hl. lia.
    + cbn [filter]. rewrite Ed. now apply IH.
Qed.

Lemma is_delete_name a : is_delete_table a = true -> a = DeleteTable (delete_name a).
Proof. destruct a; try discriminate. reflexivity. Qed.

Lemma deleted_tables_in acts x : In x (deleted_tables acts) <-> In (DeleteTable x) (filter is_delete_table acts).
Proof.
  unfold deleted_tables. rewrite in_map_iff. split.
  - intros [a [E Ha]]. pose proof Ha as Hf. apply filter_In in Hf.
    rewrite (is_delete_name a (proj2 Hf)) in Ha. now rewrite E in Ha.
  - intro H. exists (DeleteTable x). split; [reflexivity|exact H].
Qed.

Lemma sort_delete_tables_perm acts all :
  Permutation (deleted_tables (sort_delete_tables acts all)) (deleted_tables acts).
Proof.
  rewrite sort_delete_tables_unfold. cbn zeta.
  destruct (Nat.leb _ 1); [apply Permutation_refl|].
  destruct (kahn _) as [order|]; [|apply Permutation_refl].
  unfold deleted_tables at 1. rewrite put_back_deletes.
  - apply Permutation_map, sort_by_key_perm.
  - intros s Hs. apply (Permutation_in _ (sort_by_key_perm _ _)) in Hs. apply filter_In in Hs. tauto.
  - apply Permutation_length, sort_by_key_perm.
Qed.

Theorem sort_delete_tables_sound acts all (rank : string -> nat) :
  (forall n td rt, In n (deleted_tables acts) -> bt_get n all = Some td -> In rt (fk_targets td) ->
     rt <> n -> In rt (deleted_tables acts) -> rank rt < rank n) ->
  forall x y td, In x (deleted_tables acts) -> In y (deleted_tables acts) ->
    bt_get x all = Some td -> In y (fk_targets td) -> y <> x ->
    exists l1 l2 l3, deleted_tables (sort_delete_tables acts all) = l1 ++ x :: l2 ++ y :: l3.
Proof.
  intros Hrank x y td Hx Hy Hg Hfk Hne.
  set (dels := filter is_delete_table acts).
  assert (Dx : In (DeleteTable x) dels) by now apply deleted_tables_in.
  assert (Dy : In (DeleteTable y) dels) by now apply deleted_tables_in.
  assert (Dne : DeleteTable x <> DeleteTable y) by congruence.
  rewrite sort_delete_tables_unfold. cbn zeta. fold dels.
  assert (L : Nat.leb (List.length dels) 1 = false).
  { apply PeanoNat.Nat.leb_gt.
    destruct (in_two_split _ _ _ Dx Dy Dne) as [[l1 [l2 [l3 E]]]|[l1 [l2 [l3 E]]]]; rewrite E;
      rewrite !app_length; cbn [List.length]; rewrite !app_length; cbn [List.length]; lia. }
  rewrite L.
  set (dnames := bs_of_list (deleted_tables acts)).
  assert (Dn : forall n, In n dnames <-> In n (deleted_tables acts)) by (intro; apply bs_of_list_in).
  assert (Keys : map fst (delete_deps acts all) = dnames).
  { unfold delete_deps. cbn zeta. rewrite map_map. cbn [fst]. now rewrite map_id. }
  assert (Dof : forall n ds, In (n, ds) (delete_deps acts all) ->
            In n dnames /\ ds = match bt_get n all with
                                | Some td => bs_of_list (filter (fun rt => (mem_str rt dnames && negb (String.eqb rt n))%bool) (fk_targets td))
                                | None => [] end).
  { intros n ds Hin. unfold delete_deps in Hin. cbn zeta in Hin. apply in_map_iff in Hin.
    destruct Hin as [n' [E Hn']]. inversion E; subst. auto. }
  assert (Din : forall n ds d, In (n, ds) (delete_deps acts all) -> In d ds ->
            exists td', bt_get n all = Some td' /\ In d (fk_targets td') /\ In d dnames /\ d <> n).
  { intros n ds d Hin Hd. destruct (Dof _ _ Hin) as [Hn ->].
    destruct (bt_get n all) as [td'|]; [|destruct Hd]. exists td'. split; [reflexivity|].
    apply bs_of_list_in, filter_In in Hd. destruct Hd as [H1 H2].
    apply Bool.andb_true_iff in H2. destruct H2 as [H2 H3].
    apply mem_str_In in H2. apply Bool.negb_true_iff, String.eqb_neq in H3. auto. }
  assert (Knd : NoDup (map fst (delete_deps acts all))) by (rewrite Keys; apply bs_of_list_nodup).
  destruct (kahn_complete (delete_deps acts all) rank Knd) as [order [Ek Pk]].
  { intros n ds Hin. split.
    - destruct (Dof _ _ Hin) as [_ ->]. destruct (bt_get n all); [apply bs_of_list_nodup|constructor].
    - intros d Hd. destruct (Din _ _ _ Hin Hd) as [td' [_ [_ [H _]]]]. now rewrite Keys. }
  { intros n ds d Hin Hd. destruct (Din _ _ _ Hin Hd) as [td' [G [F [H N]]]].
    destruct (Dof _ _ Hin) as [Hn _]. apply (Hrank n td' d); auto; now apply Dn. }
  rewrite Ek.
  (* x depends on y *)
  assert (Hxin : In (x, bs_of_list (filter (fun rt => (mem_str rt dnames && negb (String.eqb rt x))%bool) (fk_targets td)))
                    (delete_deps acts all)).
  { unfold delete_deps. cbn zeta. apply in_map_iff. exists x. rewrite Hg. split; [reflexivity|]. now apply Dn. }
  assert (Hyd : In y (bs_of_list (filter (fun rt => (mem_str rt dnames && negb (String.eqb rt x))%bool) (fk_targets td)))).
  { apply bs_of_list_in, filter_In. split; [exact Hfk|]. apply Bool.andb_true_iff. split.
    - apply mem_str_In. now apply Dn.
    - apply Bool.negb_true_iff, String.eqb_neq. exact Hne. }
  assert (Hxo : In x order).
  { eapply Permutation_in; [apply Permutation_sym; exact Pk|]. rewrite Keys. now apply Dn. }
  destruct (kahn_sound _ _ Knd Ek _ _ _ Hxin Hxo Hyd) as [a [b [c Eo]]].
  destruct (kahn_nodup _ _ Knd Ek) as [Ond _].
  set (ro := rev order).
  assert (Ero : ro = rev c ++ x :: rev b ++ y :: rev a).
  { unfold ro. rewrite Eo, rev_app_distr. cbn [rev]. rewrite rev_app_distr. cbn [rev].
    rewrite <- !app_assoc. reflexivity. }
  assert (Rnd : NoDup ro) by (eapply Permutation_NoDup; [apply Permutation_rev|exact Ond]).
  set (pos := fun a0 : action => match find_index (String.eqb (delete_name a0)) ro with Some i => i | None => 0 end).
  assert (Px : pos (DeleteTable x) = List.length (rev c)).
  { unfold pos. cbn [delete_name]. rewrite Ero, find_index_split; [reflexivity|].
    rewrite Ero in Rnd. apply NoDup_remove_2 in Rnd. intro H. apply Rnd. apply in_or_app. now left. }
  assert (Py : pos (DeleteTable y) = List.length (rev c ++ x :: rev b)).
  { unfold pos. cbn [delete_name]. rewrite Ero.
    replace (rev c ++ x :: rev b ++ y :: rev a) with ((rev c ++ x :: rev b) ++ y :: rev a)
      by (rewrite <- app_assoc; reflexivity).
    rewrite find_index_split; [reflexivity|].
    rewrite Ero in Rnd.
    replace (rev c ++ x :: rev b ++ y :: rev a) with ((rev c ++ x :: rev b) ++ y :: rev a) in Rnd
      by (rewrite <- app_assoc; reflexivity).
    apply NoDup_remove_2 in Rnd. intro H. apply Rnd. apply in_or_app. now left. }
  fold ro. fold pos.
  assert (Sperm : Permutation (sort_by_key pos dels) dels) by apply sort_by_key_perm.
  unfold deleted_tables. rewrite put_back_deletes.
  - assert (Sx : In (DeleteTable x) (sort_by_key pos dels))
      by (eapply Permutation_in; [apply Permutation_sym; exact Sperm|exact Dx]).
    assert (Sy : In (DeleteTable y) (sort_by_key pos dels))
      by (eapply Permutation_in; [apply Permutation_sym; exact Sperm|exact Dy]).
    destruct (in_two_split _ _ _ Sx Sy Dne) as [[l1 [l2 [l3 E]]]|[l1 [l2 [l3 E]]]].
    + exists (map delete_name l1), (map delete_name l2), (map delete_name l3).
      rewrite E, map_app. cbn [map]. rewrite map_app. reflexivity.
    + exfalso. pose proof (sort_by_key_sorted pos dels) as S. rewrite E in S.
      apply sorted_split_le in S. rewrite Px, Py, app_length in S. cbn [List.length] in S. lia.
  - intros s Hs. apply (Permutation_in _ Sperm) in Hs. apply filter_In in Hs. tauto.
  - now apply Permutation_length.
Qed.

(* the later passes keep the DeleteTable actions in place relative to each other *)
Lemma filter_filter_implies {A} (p q : A -> bool) : (forall a, p a = true -> q a = true) ->
  forall l, filter p (filter q l) = filter p l.
Proof.
  intros H. induction l as [|a r IH]; [reflexivity|]. cbn [filter].
  destruct (q a) eqn:Eq; cbn [filter]; destruct (p a) eqn:Ep; try (now rewrite IH).
  rewrite (H a Ep) in Eq. discriminate.
Qed.

Lemma sort_create_keeps_deletes acts :
  filter is_delete_table (sort_create_before_add_constraint acts) = filter is_delete_table acts.
Proof.
  unfold sort_create_before_add_constraint. destruct (created_tables acts) as [|c0 cr] eqn:Ec; [reflexivity|].
  rewrite <- Ec. set (key := create_rank (created_tables acts)).
  assert (H : forall a, is_delete_table a = true -> Nat.eqb (key a) 1 = true).
  { intros a Ha. destruct a; try discriminate. reflexivity. }
  rewrite <- (filter_filter_implies _ _ H (sort_by_key key acts)), <- (filter_filter_implies _ _ H acts).
  now rewrite sort_by_key_stable.
Qed.

Theorem diff_deletes_in_fk_order A B An acts (rank : string -> nat) :
  NoDup (map t_name A) -> normalize_all A = Ok An -> diff_actions A B = Ok acts ->
  (forall t rt, In t An -> In (t_name t) (deleted_tables acts) -> In rt (fk_targets t) ->
     rt <> t_name t -> In rt (deleted_tables acts) -> rank rt < rank (t_name t)) ->
  forall t rt, In t An -> In (t_name t) (deleted_tables acts) -> In rt (fk_targets t) ->
    rt <> t_name t -> In rt (deleted_tables acts) ->
    exists l1 l2 l3, deleted_tables acts = l1 ++ t_name t :: l2 ++ rt :: l3.
Proof.
  intros HndA EA Hd Hrank t rt Ht Htd Hfk Hne Hrd.
  unfold diff_actions in Hd. rewrite EA in Hd.
  destruct (normalize_all B) as [Bn|e] eqn:EB; [|discriminate]. cbn zeta in Hd.
  set (fm := bt_of_list (map (fun t => (t_name t, t)) An)) in *.
  destruct (topo_sort _) as [sorted| |]; try discriminate.
  match type of Hd with Ok (sort_enum_default_dependencies (sort_create_before_add_constraint (sort_delete_tables ?a _)) _) = _ =>
    set (a0 := a) in * end.
  inversion Hd as [Hacts]; clear Hd.
  assert (Ed : deleted_tables acts = deleted_tables (sort_delete_tables a0 fm)).
  { rewrite <- Hacts. unfold deleted_tables. f_equal.
    rewrite sort_enum_keeps; [apply sort_create_keeps_deletes|].
    intros a Ha. destruct a; try discriminate; reflexivity. }
  assert (Mem : forall n, In n (deleted_tables a0) <-> In n (deleted_tables acts)).
  { intro n. rewrite Ed. split; intro H.
    - eapply Permutation_in; [apply Permutation_sym, sort_delete_tables_perm|exact H].
    - eapply Permutation_in; [apply sort_delete_tables_perm|exact H]. }
  assert (Fm : forall n td, bt_get n fm = Some td -> In td An /\ t_name td = n).
  { intros n td Hg. apply bt_get_in, bt_of_list_in, in_map_iff in Hg. destruct Hg as [t' [E Hin]].
    inversion E; subst. auto. }
  assert (Gt : bt_get (t_name t) fm = Some t).
  { destruct (tmap_get An) with (n := t_name t) as [t' [Hg [Hin En]]].
    - rewrite (nall_names _ _ EA). exact HndA.
    - now apply in_map.
    - fold fm in Hg. rewrite Hg. f_equal. apply (nodup_map_inj t_name An); auto.
      rewrite (nall_names _ _ EA). exact HndA. }
  rewrite Hacts, Ed. apply (sort_delete_tables_sound a0 fm rank) with (td := t); auto.
  - intros n td r Hn Hg Hr Hnr Hrn. destruct (Fm _ _ Hg) as [Hin <-].
    apply Hrank; auto; now apply Mem.
  - now apply Mem.
  - now apply Mem.
Qed.

(* dropping two tables that reference each other: no order of the two DeleteTable actions is consistent,
   and no RemoveConstraint is planned first; outside both classifiers *)
Definition w_dropcycle_B : schema :=
  [mkTable "a" None [w_pkcol "id"; w_fkcol "b_id" "b.id"]
     [CPrimaryKey false ["id"]; CForeignKey None ["b_id"] "b" ["id"] None None];
   mkTable "b" None [w_pkcol "id"; w_fkcol "a_id" "a.id"]
     [CPrimaryKey false ["id"]; CForeignKey None ["a_id"] "a" ["id"] None None];
   mkTable "c" None [w_pkcol "id"] [CPrimaryKey false ["id"]]].
Definition w_dropcycle_T : schema := [mkTable "c" None [w_pkcol "id"] []].

Lemma C06_drop_fk_cycle_refuted :
  exists B T, loader_accepts B = true /\ loader_accepts T = true /\ consistent B = true /\
              diff_actions B T = Ok [DeleteTable "a"; DeleteTable "b"] /\ plan_stepwise_ok B T = false /\
              known_drop_before_unreference B T = false /\ known_shrunk_constraint B T = false.
Proof. exists w_dropcycle_B, w_dropcycle_T. repeat split; vm_compute; reflexivity. Qed.
